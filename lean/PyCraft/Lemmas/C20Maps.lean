import PyCraft.Model.C20Maps
import PyCraft.Lemmas.Trackers
/-! Helper lemmas for `Props/C20Maps.lean`: the effectful map model against the `Except` model, one
in-range packet against the reference `MapPacket.cell`, and the induction over a history. -/
namespace PyCraft.Trackers

/-! ### More ordered-dict facts -/

section dict
variable {β : Type}

theorem dictSet_dictSet (k : Int) (v w : β) (l : List (Int × β)) :
    dictSet k v (dictSet k w l) = dictSet k v l := by
  induction l with
  | nil => simp [dictSet]
  | cons q qs ih =>
    obtain ⟨k₀, v₀⟩ := q
    by_cases h : k₀ = k
    · simp [dictSet, h]
    · simp [dictSet, h, ih]

theorem mem_dictSet (k : Int) (v : β) (l : List (Int × β)) (km : Int × β)
    (h : km ∈ dictSet k v l) : km = (k, v) ∨ km ∈ l := by
  induction l with
  | nil => left; simpa [dictSet] using h
  | cons q qs ih =>
    obtain ⟨k₀, v₀⟩ := q
    unfold dictSet at h
    by_cases hk : k₀ = k
    · simp only [hk, if_true, List.mem_cons] at h
      rcases h with h | h
      · left; exact h
      · right; exact List.mem_cons_of_mem _ h
    · simp only [hk, if_false, List.mem_cons] at h
      rcases h with h | h
      · right; rw [h]; exact List.mem_cons_self
      · rcases ih h with h' | h'
        · left; exact h'
        · right; exact List.mem_cons_of_mem _ h'

theorem dictGet_some_mem (k : Int) (v : β) (l : List (Int × β)) (h : dictGet k l = some v) :
    (k, v) ∈ l := by
  induction l with
  | nil => simp [dictGet] at h
  | cons q qs ih =>
    obtain ⟨k₀, v₀⟩ := q
    unfold dictGet at h
    by_cases hk : k₀ = k
    · simp only [hk, if_true, Option.some.injEq] at h
      rw [hk, h]; exact List.mem_cons_self
    · simp only [hk, if_false] at h
      exact List.mem_cons_of_mem _ (ih h)

theorem dictGet_isSome_iff (k : Int) (l : List (Int × β)) :
    (dictGet k l).isSome ↔ k ∈ keys l := by
  have := dictGet_none_iff k l
  cases h : dictGet k l with
  | none => simp [h] at this; simp [this]
  | some v =>
    simp [h] at this
    simpa using this

end dict

/-! ### The effectful model and the `Except` model are the same code -/

theorem pySetItem_length (bs bs' : Bytes) (idx : Int) (v : UInt8)
    (h : pySetItem bs idx v = .ok bs') : bs'.length = bs.length := by
  have h' : (if 0 ≤ (if idx < 0 then idx + (bs.length : Int) else idx) ∧
      (if idx < 0 then idx + (bs.length : Int) else idx) < (bs.length : Int)
      then Except.ok (bs.set (if idx < 0 then idx + (bs.length : Int) else idx).toNat v)
      else Except.error Err.other) = Except.ok bs' := h
  generalize (if idx < 0 then idx + (bs.length : Int) else idx) = j at h'
  by_cases hc : 0 ≤ j ∧ j < (bs.length : Int)
  · rw [if_pos hc] at h'; cases h'; simp
  · rw [if_neg hc] at h'; cases h'

theorem patchLoopFx_length (mapW width : Nat) (off : Int × Int) :
    ∀ (px : Bytes) (i : Nat) (cur : Bytes),
      (patchLoopFx mapW width off i px cur).1.length = cur.length := by
  intro px
  induction px with
  | nil => intro i cur; rfl
  | cons b bs ih =>
    intro i cur
    unfold patchLoopFx
    by_cases hw : width = 0
    · simp [hw]
    · simp only [hw, if_false]
      cases hs : pySetItem cur (off.1 + ((i % width : Nat) : Int) +
          (mapW : Int) * (off.2 + ((i / width : Nat) : Int))) b with
      | error e => rfl
      | ok cur' => simp only [ih]; exact pySetItem_length _ _ _ _ hs

theorem patchLoop_eq_fx (mapW width : Nat) (off : Int × Int) :
    ∀ (px : Bytes) (i : Nat) (cur : Bytes),
      patchLoop mapW width off i px cur =
        (match patchLoopFx mapW width off i px cur with
         | (r, none) => .ok r
         | (_, some e) => .error e) := by
  intro px
  induction px with
  | nil => intro i cur; rfl
  | cons b bs ih =>
    intro i cur
    unfold patchLoop patchLoopFx
    by_cases hw : width = 0
    · simp [hw]
    · simp only [hw, if_false]
      cases pySetItem cur (off.1 + ((i % width : Nat) : Int) +
          (mapW : Int) * (off.2 + ((i / width : Nat) : Int))) b with
      | error e => rfl
      | ok cur' => exact ih (i + 1) cur'

theorem applyToMap_eq_fx (pkt : MapPacket) (m : MapState) :
    applyToMap pkt m =
      (match applyToMapFx pkt m with
       | (m', none) => .ok m'
       | (_, some e) => .error e) := by
  unfold applyToMap applyPatch applyToMapFx
  cases pkt.pixels with
  | none => rfl
  | some px =>
    simp only
    rw [patchLoop_eq_fx]
    rcases patchLoopFx m.width pkt.width pkt.offset 0 px m.pixels with ⟨cur, _ | e⟩ <;> rfl

theorem applyToMapSet_eq_fx (pkt : MapPacket) (s : MapSet) :
    applyToMapSet pkt s =
      (match applyToMapSetFx pkt s with
       | (s', none) => .ok s'
       | (_, some e) => .error e) := by
  unfold applyToMapSet applyToMapSetFx
  cases dictGet pkt.mapId s with
  | some m =>
    simp only
    rw [applyToMap_eq_fx]
    rcases applyToMapFx pkt m with ⟨m', _ | e⟩ <;> rfl
  | none =>
    simp only
    rw [applyToMap_eq_fx]
    rcases applyToMapFx pkt (MapState.new (some pkt.mapId)) with ⟨m', _ | e⟩
    · simp only [dictSet_dictSet]
    · rfl

theorem replayMaps_eq_fx (hist : List MapPacket) (s : MapSet) :
    replayMaps hist s =
      (match replayMapsFx hist s with
       | (s', none) => .ok s'
       | (_, some e) => .error e) := by
  induction hist generalizing s with
  | nil => rfl
  | cons p ps ih =>
    unfold replayMaps replayMapsFx
    rw [applyToMapSet_eq_fx]
    rcases applyToMapSetFx p s with ⟨s', _ | e⟩
    · exact ih s'
    · rfl

/-- An interrupted loop has performed exactly the writes before the failing index `n`. -/
theorem patchLoopFx_err_prefix (mapW width : Nat) (off : Int × Int) :
    ∀ (px : Bytes) (i : Nat) (cur r : Bytes) (e : Err),
      patchLoopFx mapW width off i px cur = (r, some e) →
      ∃ n, n < px.length ∧ patchLoopFx mapW width off i (px.take n) cur = (r, none) ∧
        ∃ v, px[n]? = some v ∧ patchLoopFx mapW width off (i + n) [v] r = (r, some e) := by
  intro px
  induction px with
  | nil => intro i cur r e h; simp [patchLoopFx] at h
  | cons b bs ih =>
    intro i cur r e h
    unfold patchLoopFx at h
    by_cases hw : width = 0
    · simp only [hw, if_true, Prod.mk.injEq, Option.some.injEq] at h
      obtain ⟨rfl, rfl⟩ := h
      exact ⟨0, by simp, by simp [patchLoopFx], b, by simp, by simp [patchLoopFx, hw]⟩
    · simp only [hw, if_false] at h
      cases hs : pySetItem cur (off.1 + ((i % width : Nat) : Int) +
          (mapW : Int) * (off.2 + ((i / width : Nat) : Int))) b with
      | error e' =>
        simp only [hs, Prod.mk.injEq, Option.some.injEq] at h
        obtain ⟨rfl, rfl⟩ := h
        exact ⟨0, by simp, by simp [patchLoopFx], b, by simp, by simp only [patchLoopFx, hw, if_false, Nat.add_zero, hs]⟩
      | ok cur' =>
        simp only [hs] at h
        obtain ⟨n, hn, hpre, v, hv, hfail⟩ := ih (i + 1) cur' r e h
        refine ⟨n + 1, by simp; omega, ?_, v, by simpa using hv, ?_⟩
        · simp only [List.take_succ_cons, patchLoopFx, hw, if_false, hs]
          exact hpre
        · rw [show i + (n + 1) = i + 1 + n by omega]; exact hfail

/-! ### One in-range packet on a 128×128 map -/

theorem new_length (id : Option Int) : (MapState.new id).pixels.length = 16384 := by
  show (List.replicate (128 * 128) (0 : UInt8)).length = 16384
  rw [List.length_replicate]

theorem new_pixel (id : Option Int) (x z : Nat) (hx : x < 128) (hz : z < 128) :
    (MapState.new id).pixels[x + 128 * z]? = some 0 := by
  simp only [MapState.new, List.getElem?_replicate]
  have : x + 128 * z < 128 * 128 := by omega
  simp [this]

/-- `MapPacket.cell` with natural-number offsets. -/
theorem cell_nat (p : MapPacket) (px : Bytes) (ox oz : Nat) (hpx : p.pixels = some px)
    (hoff : p.offset = ((ox : Int), (oz : Int))) (x z : Nat) :
    p.cell x z =
      if ox ≤ x ∧ x < ox + p.width ∧ oz ≤ z then px[(x - ox) + p.width * (z - oz)]? else none := by
  unfold MapPacket.cell
  simp only [hpx, hoff]
  have e1 : ((x : Int) - (ox : Int)).toNat = x - ox := by omega
  have e2 : ((z : Int) - (oz : Int)).toNat = z - oz := by omega
  rw [e1, e2]
  have e3 : (0 ≤ (x : Int) - (ox : Int) ∧ (x : Int) - (ox : Int) < (p.width : Int) ∧
      0 ≤ (z : Int) - (oz : Int)) ↔ (ox ≤ x ∧ x < ox + p.width ∧ oz ≤ z) := by omega
  simp only [e3]

theorem cellIdx_of_xz (width ox oz x z : Nat) (hwpos : 0 < width) (hx : ox ≤ x)
    (hx' : x < ox + width) (hz : oz ≤ z) :
    cellIdx 128 width ox oz ((x - ox) + width * (z - oz)) = x + 128 * z := by
  unfold cellIdx
  have h1 : ((x - ox) + width * (z - oz)) % width = x - ox := by
    rw [Nat.add_mul_mod_self_left, Nat.mod_eq_of_lt (by omega)]
  have h2 : ((x - ox) + width * (z - oz)) / width = z - oz := by
    rw [Nat.add_mul_div_left _ _ hwpos, Nat.div_eq_of_lt (by omega), Nat.zero_add]
  rw [h1, h2]
  omega

/-- The pixel loop of an in-range packet on a 128-wide map with `128*128` pixels: it does not
raise, and afterwards every cell holds what the packet prescribes for it (`MapPacket.cell`), or its
old content if the packet prescribes nothing. -/
theorem patch_cell (m : MapState) (p : MapPacket) (px : Bytes) (hpx : p.pixels = some px)
    (hW : m.width = 128) (hlen : m.pixels.length = 16384) (hin : p.InRange) :
    ∃ r, applyPatch m p.width p.offset (some px) = .ok r ∧ r.length = 16384 ∧
      ∀ x z, x < 128 → z < 128 →
        r[x + 128 * z]? = (p.cell x z).or m.pixels[x + 128 * z]? := by
  unfold MapPacket.InRange at hin
  simp only [hpx] at hin
  obtain ⟨h1, h2, h3, h4⟩ := hin
  have hoff : p.offset = (((p.offset.1.toNat : Nat) : Int), ((p.offset.2.toNat : Nat) : Int)) := by
    apply Prod.ext <;> simp <;> omega
  generalize hox : p.offset.1.toNat = ox at hoff h4
  generalize hoz : p.offset.2.toNat = oz at hoff h4
  have h3' : ox + p.width ≤ 128 := by omega
  rcases Nat.eq_zero_or_pos px.length with hz | hpos
  · -- empty pixel array: nothing happens, nothing is prescribed
    have hnil : px = [] := List.eq_nil_of_length_eq_zero hz
    subst hnil
    refine ⟨m.pixels, rfl, hlen, ?_⟩
    intro x z _ _
    rw [cell_nat p [] ox oz hpx hoff]
    split <;> simp
  · have hwpos : 0 < p.width := by
      rcases Nat.eq_zero_or_pos p.width with h | h
      · rw [h] at h4; omega
      · exact h
    have hoz' : oz < 128 := by
      rcases Nat.lt_or_ge oz 128 with h | h
      · exact h
      · have : 128 - oz = 0 := by omega
        rw [this] at h4; omega
    obtain ⟨r, hr, hl, hold, hnew⟩ :=
      patchLoop_spec 128 p.width ox oz hwpos px 0 m.pixels (by
        intro k hk
        rw [hlen, Nat.zero_add]
        exact cellIdx_lt 128 128 p.width (128 - oz) ox oz k h3' (by omega) (by omega))
    refine ⟨r, by simp only [applyPatch, hW, hoff]; exact hr, by rw [hl, hlen], ?_⟩
    intro x z hx hz
    rw [cell_nat p px ox oz hpx hoff]
    by_cases hc : (ox ≤ x ∧ x < ox + p.width ∧ oz ≤ z) ∧
        (x - ox) + p.width * (z - oz) < px.length
    · obtain ⟨⟨c1, c2, c3⟩, hj⟩ := hc
      have hidx := cellIdx_of_xz p.width ox oz x z hwpos c1 c2 c3
      have := hnew _ hj (by
        intro k' hk1 hk2 e
        simp only [Nat.zero_add] at e
        have := cellIdx_inj _ _ _ _ _ _ hwpos h3' e
        omega)
      simp only [Nat.zero_add, hidx] at this
      rw [this, if_pos ⟨c1, c2, c3⟩, List.getElem?_eq_getElem hj]
      rfl
    · have hnone : (if ox ≤ x ∧ x < ox + p.width ∧ oz ≤ z
          then px[(x - ox) + p.width * (z - oz)]? else none) = none := by
        split
        · rename_i hcond
          exact List.getElem?_eq_none (by
            rcases Nat.lt_or_ge ((x - ox) + p.width * (z - oz)) px.length with h | h
            · exact absurd ⟨hcond, h⟩ hc
            · exact h)
        · rfl
      rw [hnone, Option.none_or]
      apply hold
      intro k hk e
      simp only [Nat.zero_add] at e
      have hcc := cellIdx_coords 128 p.width ox oz k hwpos h3'
      rw [e] at hcc
      have e1 : (x + 128 * z) % 128 = x := by omega
      have e2 : (x + 128 * z) / 128 = z := by omega
      rw [e1, e2] at hcc
      obtain ⟨hc1, hc2⟩ := hcc
      have hm := Nat.mod_lt k hwpos
      have hk' : k % p.width + p.width * (k / p.width) = k := Nat.mod_add_div k p.width
      clear e e1 e2
      generalize k / p.width = q at *
      generalize k % p.width = rr at *
      apply hc
      refine ⟨⟨by omega, by omega, by omega⟩, ?_⟩
      have e3 : x - ox = rr := by omega
      have e4 : z - oz = q := by omega
      rw [e3, e4, hk']; exact hk

/-- `apply_to_map` of an in-range packet on a 128×128 map. -/
theorem applyToMap_in_range (p : MapPacket) (m : MapState) (hW : m.width = 128)
    (hH : m.height = 128) (hlen : m.pixels.length = 16384) (hin : p.InRange) :
    ∃ m', applyToMap p m = .ok m' ∧ m'.id = some p.mapId ∧ m'.scale = some p.scale ∧
      m'.icons = p.icons ∧ m'.isTrackingPosition = p.isTrackingPosition ∧
      m'.isLocked = p.isLocked ∧ m'.width = 128 ∧ m'.height = 128 ∧ m'.pixels.length = 16384 ∧
      ∀ x z, x < 128 → z < 128 →
        m'.pixels[x + 128 * z]? = (p.cell x z).or m.pixels[x + 128 * z]? := by
  cases hpx : p.pixels with
  | none =>
    refine ⟨{ m with id := some p.mapId, scale := some p.scale, icons := p.icons,
                     isTrackingPosition := p.isTrackingPosition, isLocked := p.isLocked },
      by simp only [applyToMap, applyPatch, hpx], rfl, rfl, rfl, rfl, rfl, hW, hH, hlen, ?_⟩
    intro x z _ _
    simp [MapPacket.cell, hpx]
  | some px =>
    obtain ⟨r, hr, hl, hcell⟩ := patch_cell m p px hpx hW hlen hin
    refine ⟨{ m with id := some p.mapId, scale := some p.scale, icons := p.icons, pixels := r,
                     isTrackingPosition := p.isTrackingPosition, isLocked := p.isLocked },
      by simp only [applyToMap, hpx, hr], rfl, rfl, rfl, rfl, rfl, hW, hH, hl, hcell⟩

/-- What one in-range packet does to a well-formed map set. -/
structure StepSpec (p : MapPacket) (s s' : MapSet) : Prop where
  wf : MapSet.WF s'
  keys : keys s' = if p.mapId ∈ keys s then keys s else keys s ++ [p.mapId]
  other : ∀ k, k ≠ p.mapId → dictGet k s' = dictGet k s
  here : ∃ m', dictGet p.mapId s' = some m' ∧ m'.id = some p.mapId ∧ m'.scale = some p.scale ∧
    m'.icons = p.icons ∧ m'.isTrackingPosition = p.isTrackingPosition ∧
    m'.isLocked = p.isLocked ∧
    ∀ x z, x < 128 → z < 128 →
      m'.pixels[x + 128 * z]? = (p.cell x z).or ((s.pixel p.mapId x z).or (some 0))

theorem wf_entry {s : MapSet} (hs : MapSet.WF s) {k : Int} {m : MapState}
    (h : dictGet k s = some m) :
    m.id = some k ∧ m.width = 128 ∧ m.height = 128 ∧ m.pixels.length = 16384 :=
  hs.2 (k, m) (dictGet_some_mem k m s h)

theorem wf_pixel_some {s : MapSet} (hs : MapSet.WF s) {k : Int} (hk : k ∈ keys s) (x z : Nat)
    (hx : x < 128) (hz : z < 128) : ∃ v, s.pixel k x z = some v := by
  have := (dictGet_isSome_iff k s).2 hk
  cases h : dictGet k s with
  | none => simp [h] at this
  | some m =>
    obtain ⟨_, _, _, hl⟩ := wf_entry hs h
    have hi : x + 128 * z < m.pixels.length := by omega
    exact ⟨m.pixels[x + 128 * z], by simp [MapSet.pixel, h, List.getElem?_eq_getElem hi]⟩

theorem applyToMapSet_eq (p : MapPacket) (s : MapSet) :
    applyToMapSet p s =
      (match applyToMap p ((dictGet p.mapId s).getD (MapState.new (some p.mapId))) with
       | .error e => .error e
       | .ok m' => .ok (dictSet p.mapId m' s)) := by
  unfold applyToMapSet
  cases dictGet p.mapId s <;> rfl

theorem step_spec (p : MapPacket) (s : MapSet) (hs : MapSet.WF s) (hin : p.InRange) :
    ∃ s', applyToMapSet p s = .ok s' ∧ StepSpec p s s' := by
  -- the map the packet is applied to, and its shape
  have hbase : ∃ m0, (dictGet p.mapId s).getD (MapState.new (some p.mapId)) = m0 ∧
      m0.width = 128 ∧ m0.height = 128 ∧ m0.pixels.length = 16384 ∧
      ∀ x z, x < 128 → z < 128 →
        m0.pixels[x + 128 * z]? = (s.pixel p.mapId x z).or (some 0) := by
    cases h : dictGet p.mapId s with
    | some m =>
      obtain ⟨_, hw, hh, hl⟩ := wf_entry hs h
      refine ⟨m, rfl, hw, hh, hl, ?_⟩
      intro x z hx hz
      have hi : x + 128 * z < m.pixels.length := by omega
      simp [MapSet.pixel, h, List.getElem?_eq_getElem hi]
    | none =>
      refine ⟨_, rfl, rfl, rfl, new_length _, ?_⟩
      intro x z hx hz
      simp [MapSet.pixel, h, new_pixel _ x z hx hz]
  obtain ⟨m0, hm0, hw, hh, hl, hpix⟩ := hbase
  obtain ⟨m', hm', hid, hsc, hic, htr, hlk, hw', hh', hl', hcell⟩ :=
    applyToMap_in_range p m0 hw hh hl hin
  refine ⟨dictSet p.mapId m' s, by rw [applyToMapSet_eq, hm0, hm'], ?_⟩
  refine ⟨⟨?_, ?_⟩, keys_dictSet _ _ _, fun k hk => by simp [dictGet_dictSet, hk],
    ⟨m', by simp [dictGet_dictSet], hid, hsc, hic, htr, hlk, ?_⟩⟩
  · have hk := keys_dictSet p.mapId m' s
    simp only [keys] at hk
    rw [hk]
    split
    · exact hs.1
    · rename_i hnot
      exact List.nodup_append.2 ⟨hs.1, by simp, by
        intro a ha b hb
        simp only [List.mem_singleton] at hb
        subst hb
        intro e; subst e; exact hnot ha⟩
  · intro km hkm
    rcases mem_dictSet _ _ _ _ hkm with h | h
    · subst h; exact ⟨hid, hw', hh', hl'⟩
    · exact hs.2 km h
  · intro x z hx hz
    rw [hcell x z hx hz, hpix x z hx hz]

/-! ### Induction over a history -/

theorem lastWrite_cons (p : MapPacket) (ps : List MapPacket) (k : Int) (x z : Nat) :
    lastWrite (p :: ps) k x z =
      (lastWrite ps k x z).or (if p.mapId = k then p.cell x z else none) := by
  simp only [lastWrite]
  cases lastWrite ps k x z <;> rfl

theorem replay_spec (hist : List MapPacket) :
    ∀ s : MapSet, MapSet.WF s → (∀ p ∈ hist, p.InRange) →
      ∃ s', replayMaps hist s = .ok s' ∧ MapSet.WF s' ∧ keys s' = refKeys hist (keys s) ∧
        (∀ k, FieldsSpec hist s s' k) ∧
        (∀ k x z, x < 128 → z < 128 →
          (s'.pixel k x z).or (some 0) =
            (lastWrite hist k x z).or ((s.pixel k x z).or (some 0))) := by
  induction hist with
  | nil =>
    intro s hs _
    exact ⟨s, rfl, hs, rfl, fun k => by simp [FieldsSpec, lastPacket],
      fun k x z _ _ => by simp [lastWrite]⟩
  | cons p ps ih =>
    intro s hs hin
    obtain ⟨s1, h1, st⟩ := step_spec p s hs (hin p List.mem_cons_self)
    obtain ⟨s', h2, hwf, hkeys, hfields, hpix⟩ :=
      ih s1 st.wf (fun q hq => hin q (List.mem_cons_of_mem _ hq))
    refine ⟨s', by simp only [replayMaps, h1, h2], hwf, ?_, ?_, ?_⟩
    · rw [hkeys, st.keys]; rfl
    · intro k
      have hk := hfields k
      unfold FieldsSpec at hk ⊢
      simp only [lastPacket]
      cases hl : lastPacket ps k with
      | some q => simpa [hl] using hk
      | none =>
        simp only [hl] at hk ⊢
        by_cases hkp : p.mapId = k
        · simp only [hkp, if_true]
          obtain ⟨m', hm', hid, hsc, hic, htr, hlk, _⟩ := st.here
          rw [hkp] at hm' hid
          exact ⟨m', by rw [hk, hm'], hid, hsc, hic, htr, hlk⟩
        · simp only [hkp, if_false]
          rw [hk]; exact st.other k (fun e => hkp e.symm)
    · intro k x z hx hz
      rw [hpix k x z hx hz, lastWrite_cons, Option.or_assoc]
      congr 1
      by_cases hkp : p.mapId = k
      · obtain ⟨m', hm', _, _, _, _, _, hcell⟩ := st.here
        subst hkp
        simp only [if_true, MapSet.pixel, hm', Option.bind_some, hcell x z hx hz]
        cases p.cell x z <;> cases (dictGet p.mapId s).bind (fun m => m.pixels[x + 128 * z]?) <;> rfl
      · simp only [hkp, if_false, Option.none_or, MapSet.pixel,
          st.other k (fun e => hkp e.symm)]

theorem or_or_zero (a b : Option UInt8) :
    a.or (b.or (some 0)) = some (a.getD (b.getD 0)) := by
  cases a <;> cases b <;> rfl

/-- The whole-rectangle formulation of "in range" implies `InRange`. -/
theorem inRange_of_rect (p : MapPacket) (px : Bytes) (hpx : p.pixels = some px)
    (h1 : 0 ≤ p.offset.1) (h2 : 0 ≤ p.offset.2) (h3 : p.offset.1 + (p.width : Int) ≤ 128)
    (h4 : p.offset.2 + (p.height : Int) ≤ 128) (h5 : px.length = p.width * p.height) :
    p.InRange := by
  unfold MapPacket.InRange
  simp only [hpx]
  refine ⟨h1, h2, h3, ?_⟩
  rw [h5]
  exact Nat.mul_le_mul_left _ (by omega)

/-- The cell packet pixel `i` is prescribed for: column `offX + i mod width`, row
`offZ + i div width`. -/
theorem cell_of_index (p : MapPacket) (px : Bytes) (hpx : p.pixels = some px) (ox oz : Nat)
    (hoff : p.offset = ((ox : Int), (oz : Int))) (hw : 0 < p.width) (i : Nat)
    (hi : i < px.length) :
    p.cell (ox + i % p.width) (oz + i / p.width) = some px[i] := by
  rw [cell_nat p px ox oz hpx hoff]
  have hm := Nat.mod_lt i hw
  rw [if_pos ⟨Nat.le_add_right _ _, Nat.add_lt_add_left hm _, Nat.le_add_right _ _⟩]
  have e1 : ox + i % p.width - ox = i % p.width := Nat.add_sub_cancel_left _ _
  have e2 : oz + i / p.width - oz = i / p.width := Nat.add_sub_cancel_left _ _
  rw [e1, e2, Nat.mod_add_div, List.getElem?_eq_getElem hi]

/-- Every value `cell` yields is one of the packet's pixels, at the cell the statement names. -/
theorem cell_only (p : MapPacket) (px : Bytes) (hpx : p.pixels = some px) (ox oz : Nat)
    (hoff : p.offset = ((ox : Int), (oz : Int))) (x z : Nat) (v : UInt8)
    (h : p.cell x z = some v) :
    ∃ i, px[i]? = some v ∧ x = ox + i % p.width ∧ z = oz + i / p.width := by
  rw [cell_nat p px ox oz hpx hoff] at h
  split at h
  · rename_i hc
    obtain ⟨c1, c2, c3⟩ := hc
    have hw : 0 < p.width := by omega
    refine ⟨(x - ox) + p.width * (z - oz), h, ?_, ?_⟩
    · rw [Nat.add_mul_mod_self_left, Nat.mod_eq_of_lt (by omega)]; omega
    · rw [Nat.add_mul_div_left _ _ hw, Nat.div_eq_of_lt (by omega), Nat.zero_add]; omega
  · cases h

/-! ### The exception path -/

theorem applyToMapFx_err (p : MapPacket) (m m' : MapState) (e : Err)
    (h : applyToMapFx p m = (m', some e)) :
    m'.id = some p.mapId ∧ m'.scale = some p.scale ∧ m'.icons = p.icons ∧
    m'.isTrackingPosition = m.isTrackingPosition ∧ m'.isLocked = m.isLocked ∧
    m'.width = m.width ∧ m'.height = m.height ∧ m'.pixels.length = m.pixels.length ∧
    ∃ px n v, p.pixels = some px ∧ px[n]? = some v ∧
      patchLoopFx m.width p.width p.offset 0 (px.take n) m.pixels = (m'.pixels, none) ∧
      patchLoopFx m.width p.width p.offset n [v] m'.pixels = (m'.pixels, some e) := by
  unfold applyToMapFx at h
  cases hpx : p.pixels with
  | none => simp [hpx] at h
  | some px =>
    simp only [hpx] at h
    have hlen := patchLoopFx_length m.width p.width p.offset px 0 m.pixels
    rcases hl : patchLoopFx m.width p.width p.offset 0 px m.pixels with ⟨cur, _ | e'⟩
    · simp [hl] at h
    · simp only [hl, Prod.mk.injEq, Option.some.injEq] at h
      obtain ⟨rfl, rfl⟩ := h
      rw [hl] at hlen
      obtain ⟨n, _, hpre, v, hv, hfail⟩ :=
        patchLoopFx_err_prefix m.width p.width p.offset px 0 m.pixels cur e' hl
      rw [Nat.zero_add] at hfail
      exact ⟨rfl, rfl, rfl, rfl, rfl, rfl, rfl, hlen, px, n, v, rfl, hv, hpre, hfail⟩

theorem applyToMapSetFx_eq (p : MapPacket) (s : MapSet) :
    applyToMapSetFx p s =
      (dictSet p.mapId
        (applyToMapFx p ((dictGet p.mapId s).getD (MapState.new (some p.mapId)))).1 s,
       (applyToMapFx p ((dictGet p.mapId s).getD (MapState.new (some p.mapId)))).2) := by
  unfold applyToMapSetFx
  cases dictGet p.mapId s with
  | some m => rfl
  | none => simp only [dictSet_dictSet, Option.getD_none]

/-- A history that raises does so at its first raising packet. -/
theorem replayMapsFx_err (hist : List MapPacket) :
    ∀ (s s' : MapSet) (e : Err), replayMapsFx hist s = (s', some e) →
      ∃ pre p post s1, hist = pre ++ p :: post ∧ replayMapsFx pre s = (s1, none) ∧
        applyToMapSetFx p s1 = (s', some e) := by
  induction hist with
  | nil => intro s s' e h; simp [replayMapsFx] at h
  | cons q qs ih =>
    intro s s' e h
    unfold replayMapsFx at h
    rcases hq : applyToMapSetFx q s with ⟨t, _ | e'⟩
    · simp only [hq] at h
      obtain ⟨pre, p, post, s1, rfl, hpre, hp⟩ := ih t s' e h
      exact ⟨q :: pre, p, post, s1, rfl, by simp only [replayMapsFx, hq, hpre], hp⟩
    · simp only [hq, Prod.mk.injEq, Option.some.injEq] at h
      obtain ⟨rfl, rfl⟩ := h
      exact ⟨[], q, qs, s, rfl, rfl, hq⟩

/-! ### The specification determines the state -/

theorem mapState_ext (m1 m2 : MapState) (hid : m1.id = m2.id) (hsc : m1.scale = m2.scale)
    (hic : m1.icons = m2.icons) (htr : m1.isTrackingPosition = m2.isTrackingPosition)
    (hlk : m1.isLocked = m2.isLocked) (hw : m1.width = m2.width) (hh : m1.height = m2.height)
    (hl1 : m1.pixels.length = 16384) (hl2 : m2.pixels.length = 16384)
    (hp : ∀ x z, x < 128 → z < 128 → m1.pixels[x + 128 * z]? = m2.pixels[x + 128 * z]?) :
    m1 = m2 := by
  have hpx : m1.pixels = m2.pixels := by
    apply List.ext_getElem?
    intro i
    rcases Nat.lt_or_ge i 16384 with h | h
    · have := hp (i % 128) (i / 128) (by omega) (by omega)
      rwa [show i % 128 + 128 * (i / 128) = i by omega] at this
    · rw [List.getElem?_eq_none (by omega), List.getElem?_eq_none (by omega)]
  cases m1; cases m2
  simp only at hid hsc hic htr hlk hw hh hpx
  subst hid hsc hic htr hlk hw hh hpx
  rfl

theorem dict_ext {β : Type} (l1 : List (Int × β)) :
    ∀ l2 : List (Int × β), (keys l1).Nodup → keys l1 = keys l2 →
      (∀ k, dictGet k l1 = dictGet k l2) → l1 = l2 := by
  induction l1 with
  | nil =>
    intro l2 _ hk _
    cases l2 with
    | nil => rfl
    | cons q qs => simp [keys] at hk
  | cons q qs ih =>
    intro l2 hnd hk hg
    cases l2 with
    | nil => simp [keys] at hk
    | cons q' qs' =>
      obtain ⟨k, v⟩ := q
      obtain ⟨k', v'⟩ := q'
      simp only [keys, List.map_cons, List.cons.injEq] at hk
      obtain ⟨rfl, hk⟩ := hk
      simp only [keys, List.map_cons, List.nodup_cons] at hnd
      have hv : v = v' := by
        have := hg k
        simpa [dictGet] using this
      subst hv
      have htl : qs = qs' := by
        apply ih qs' hnd.2 hk
        intro k''
        by_cases hkk : k = k''
        · subst hkk
          rw [(dictGet_none_iff k qs).2 hnd.1, (dictGet_none_iff k qs').2 (by show k ∉ List.map Prod.fst qs'; rw [← hk]; exact hnd.1)]
        · have := hg k''
          simpa [dictGet, hkk] using this
      rw [htl]

theorem mapSet_ext (s1 s2 : MapSet) (h1 : MapSet.WF s1) (h2 : MapSet.WF s2)
    (hk : keys s1 = keys s2)
    (hf : ∀ k m1 m2, dictGet k s1 = some m1 → dictGet k s2 = some m2 →
      m1.scale = m2.scale ∧ m1.icons = m2.icons ∧
      m1.isTrackingPosition = m2.isTrackingPosition ∧ m1.isLocked = m2.isLocked)
    (hp : ∀ k x z, x < 128 → z < 128 → s1.pixel k x z = s2.pixel k x z) : s1 = s2 := by
  apply dict_ext s1 s2 h1.1 hk
  intro k
  cases hd1 : dictGet k s1 with
  | none =>
    have : k ∉ keys s2 := by rw [← hk]; exact (dictGet_none_iff k s1).1 hd1
    rw [(dictGet_none_iff k s2).2 this]
  | some m1 =>
    have hk1 : k ∈ keys s1 := (dictGet_isSome_iff k s1).1 (by simp [hd1])
    have hk2 : (dictGet k s2).isSome := (dictGet_isSome_iff k s2).2 (hk ▸ hk1)
    cases hd2 : dictGet k s2 with
    | none => simp [hd2] at hk2
    | some m2 =>
      obtain ⟨i1, w1, hh1, l1⟩ := wf_entry h1 hd1
      obtain ⟨i2, w2, hh2, l2⟩ := wf_entry h2 hd2
      obtain ⟨f1, f2, f3, f4⟩ := hf k m1 m2 hd1 hd2
      congr 1
      apply mapState_ext m1 m2 (by rw [i1, i2]) f1 f2 f3 f4 (by rw [w1, w2]) (by rw [hh1, hh2]) l1 l2
      intro x z hx hz
      have := hp k x z hx hz
      simpa [MapSet.pixel, hd1, hd2] using this

/-! ### Keys, the last packet, and the statement's own wording -/

theorem mem_refKeys (hist : List MapPacket) :
    ∀ (ks : List Int) (k : Int), k ∈ refKeys hist ks ↔ k ∈ ks ∨ ∃ p ∈ hist, p.mapId = k := by
  induction hist with
  | nil => intro ks k; simp [refKeys]
  | cons p ps ih =>
    intro ks k
    have : refKeys (p :: ps) ks = refKeys ps (if p.mapId ∈ ks then ks else ks ++ [p.mapId]) := rfl
    rw [this, ih]
    by_cases hm : p.mapId ∈ ks
    · simp only [hm, if_true, List.mem_cons, exists_eq_or_imp]
      grind
    · simp only [hm, if_false, List.mem_append, List.mem_cons, List.not_mem_nil, or_false,
        exists_eq_or_imp]
      grind

theorem lastWrite_concat (pre : List MapPacket) (p : MapPacket) (k : Int) (x z : Nat) :
    lastWrite (pre ++ [p]) k x z =
      (if p.mapId = k then p.cell x z else none).or (lastWrite pre k x z) := by
  induction pre with
  | nil =>
    simp only [List.nil_append, lastWrite_cons, lastWrite, Option.none_or, Option.or_none]
  | cons q qs ih =>
    rw [List.cons_append, lastWrite_cons, ih, lastWrite_cons, Option.or_assoc]

/-- The statement's wording: after a history whose last packet is `p`, pixel `i` of `p` is found
in column `offX + i mod width`, row `offZ + i div width` of map `p.map_id`. -/
theorem patch_lands (pre : List MapPacket) (p : MapPacket) (s s' : MapSet) (hs : MapSet.WF s)
    (hin : ∀ q ∈ pre ++ [p], q.InRange) (h : replayMaps (pre ++ [p]) s = .ok s')
    (px : Bytes) (hpx : p.pixels = some px) (i : Nat) (hi : i < px.length) :
    s'.pixel p.mapId (p.offset.1.toNat + i % p.width) (p.offset.2.toNat + i / p.width) =
      some px[i] := by
  obtain ⟨s'', h', hwf, hkeys, _, hpix⟩ := replay_spec (pre ++ [p]) s hs hin
  rw [h] at h'; cases h'
  have hp := hin p (by simp)
  unfold MapPacket.InRange at hp
  simp only [hpx] at hp
  obtain ⟨h1, h2, h3, h4⟩ := hp
  have hoff : p.offset = (((p.offset.1.toNat : Nat) : Int), ((p.offset.2.toNat : Nat) : Int)) := by
    apply Prod.ext <;> simp <;> omega
  have hw : 0 < p.width := by
    rcases Nat.eq_zero_or_pos p.width with h0 | h0
    · rw [h0] at h4; omega
    · exact h0
  generalize hox : p.offset.1.toNat = ox at hoff h4
  generalize hoz : p.offset.2.toNat = oz at hoff h4
  have hm := Nat.mod_lt i hw
  have hd : i / p.width < 128 - oz :=
    (Nat.div_lt_iff_lt_mul hw).2 (by rw [Nat.mul_comm]; omega)
  have hx : ox + i % p.width < 128 := by omega
  have hz : oz + i / p.width < 128 := by
    generalize i / p.width = q at hd ⊢; omega
  have hk : p.mapId ∈ keys s' := by
    rw [hkeys, mem_refKeys]; exact Or.inr ⟨p, by simp, rfl⟩
  obtain ⟨v, hv⟩ := wf_pixel_some hwf hk _ _ hx hz
  have := hpix p.mapId _ _ hx hz
  rw [hv, lastWrite_concat, if_pos rfl, cell_of_index p px hpx ox oz hoff hw i hi] at this
  rw [hv]
  simpa using this

theorem replayMapsWith_new :
    replayMapsWith (fun p => MapState.new (some p.mapId)) = replayMaps := by
  funext hist
  induction hist with
  | nil => rfl
  | cons p ps ih =>
    funext s
    show (match applyToMapSet p s with
      | Except.error e => Except.error e
      | Except.ok s' => replayMapsWith (fun p => MapState.new (some p.mapId)) ps s') = _
    rw [ih]; rfl

end PyCraft.Trackers
