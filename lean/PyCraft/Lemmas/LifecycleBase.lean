import PyCraft.Model.Lifecycle
/-!
Vocabulary for the proofs about `Model/Lifecycle.lean`: views of a program counter, the results of
the API bodies as explicit states (`body_cases`), and the case-analysis tactic `step_cases`.
-/
namespace PyCraft.Life

/-! ### Views of a program counter -/

/-- At the end of a `with self._write_lock:` block (the lock is held).  (The views enumerate all
constructors: no wildcard, so that every equation lemma is unconditional.) -/
def NPc.isRel : NPc → Bool
  | .tkRel | .wRel | .wFailRel | .callRel _ _ | .hRel | .epRel => true
  | .unborn | .waitPrev | .takeOver | .loopChk | .wBody | .rChk | .rRead | .call _ | .exit | .exc
  | .hRun | .hChk | .epilogue | .fin | .dead => false

/-- Between the take-over (or the direct creation) and the `networking_thread = None` of the
epilogue: this thread is `connection.networking_thread`. -/
def NPc.holds : NPc → Bool
  | .tkRel | .loopChk | .wBody | .wRel | .wFailRel | .rChk | .rRead | .call _ | .callRel _ _
  | .exit | .exc | .hRun | .hChk | .hRel | .epilogue => true
  | .unborn | .waitPrev | .takeOver | .epRel | .fin | .dead => false

/-- Created as a successor and not yet in possession of the slot. -/
def NPc.waiting : NPc → Bool
  | .waitPrev | .takeOver => true
  | .unborn | .tkRel | .loopChk | .wBody | .wRel | .wFailRel | .rChk | .rRead | .call _
  | .callRel _ _ | .exit | .exc | .hRun | .hChk | .hRel | .epilogue | .epRel | .fin | .dead => false

def UPc.isRel : UPc → Bool
  | .rel _ => true
  | .idle => false

def atRel (s : Sys) : Tid → Bool
  | .user u => (s.usr u).pc.isRel
  | .net i => (s.net i).pc.isRel

/-- `socket` and `file_object` belong to the same open connection. -/
def linked : Sock → FileSt → Bool
  | .open c, .open d => c == d
  | _, _ => false

def Op.isConn : Op → Bool
  | .connect | .status => true
  | .disconnect _ => false

theorem afterCall_isRel (s : Sys) (site : Site) (out : Outcome) :
    (afterCall s site out).isRel = false := by
  cases site <;> simp only [afterCall] <;> repeat' split
  all_goals rfl

theorem afterCall_holds (s : Sys) (site : Site) (out : Outcome) :
    (afterCall s site out).holds = true := by
  cases site <;> simp only [afterCall] <;> repeat' split
  all_goals rfl

theorem afterCall_waiting (s : Sys) (site : Site) (out : Outcome) :
    (afterCall s site out).waiting = false := by
  cases site <;> simp only [afterCall] <;> repeat' split
  all_goals rfl

theorem afterCall_ne_unborn (s : Sys) (site : Site) (out : Outcome) :
    afterCall s site out ≠ .unborn := by
  cases site <;> simp only [afterCall] <;> repeat' split
  all_goals simp

theorem afterCall_ne_takeOver (s : Sys) (site : Site) (out : Outcome) :
    afterCall s site out ≠ .takeOver := by
  cases site <;> simp only [afterCall] <;> repeat' split
  all_goals simp

theorem afterCall_ne_epRel (s : Sys) (site : Site) (out : Outcome) :
    afterCall s site out ≠ .epRel := by
  cases site <;> simp only [afterCall] <;> repeat' split
  all_goals simp

/-! ### The API bodies as explicit states -/

def dnet (s : Sys) : Nat → NetThr :=
  fun k => if target s = some k then { s.net k with intr := true } else s.net k

def dfile (s : Sys) : FileSt := if s.socket = .none then s.file else s.file.close

theorem doDisconnect_eq (s : Sys) :
    doDisconnect s = { s with connected := false, net := dnet s, socket := .none, file := dfile s } := by
  have hn : (match target s with | some j => setIntr s j | none => s.net) = dnet s := by
    funext k
    unfold dnet
    cases ht : target s with
    | none => simp
    | some j => by_cases hk : k = j <;> simp [setIntr, hk, eq_comm]
  unfold doDisconnect dfile
  rcases s with ⟨nt, newNt, socket, file, connected, conns, nthreads, rl, rh, owner, depth, net, usr, log⟩
  cases socket <;> simp <;> exact hn


/-- State after a refused `connect()`. -/
def refusedSt (s : Sys) : Sys := { s with socket := .unconnected, conns := s.conns + 1 }

/-- State after a successful `connect()` that found the slot empty. -/
def directSt (s : Sys) : Sys :=
  { s with socket := .open s.conns, file := .open s.conns, connected := true,
           conns := s.conns + 1, nt := some s.nthreads, nthreads := s.nthreads + 1,
           net := updN s s.nthreads ⟨false, none, .loopChk⟩ }

/-- State after a successful `connect()` that found the slot held by the interrupted thread `p`. -/
def succSt (s : Sys) (p : Nat) : Sys :=
  { s with socket := .open s.conns, file := .open s.conns, connected := true,
           conns := s.conns + 1, newNt := some s.nthreads, nthreads := s.nthreads + 1,
           net := updN s s.nthreads ⟨false, some p, .waitPrev⟩ }

/-- State after `disconnect()`. -/
def discSt (s : Sys) : Sys :=
  { s with connected := false, net := dnet s, socket := .none, file := dfile s }

theorem doDisconnect_discSt (s : Sys) : doDisconnect s = discSt s := doDisconnect_eq s

theorem busy_congr (s : Sys) (so : Sock) (f : FileSt) (b : Bool) (n : Nat) :
    busy { s with socket := so, file := f, connected := b, conns := n } = busy s := rfl

theorem connect_cases (env : List Beh) (s : Sys) :
    (busy s = true ∧ doConnect env s = (s, .invalidState)) ∨
    (busy s = false ∧ env.getD s.conns .accept = .refuse ∧
      doConnect env s = (refusedSt s, .refused)) ∨
    (busy s = false ∧ env.getD s.conns .accept ≠ .refuse ∧ s.nt = none ∧
      doConnect env s = (directSt s, .ok)) ∨
    (∃ p, busy s = false ∧ env.getD s.conns .accept ≠ .refuse ∧ s.nt = some p ∧
      doConnect env s = (succSt s p, .ok)) := by
  unfold doConnect
  by_cases hb : busy s = true
  · left; simp [hb]
  · right
    have hb' : busy s = false := by simpa using hb
    simp only [hb', Bool.false_eq_true, if_false]
    cases he : env.getD s.conns .accept
    case refuse => left; simp [refusedSt]
    all_goals
      right
      unfold startThread
      rw [busy_congr, hb']
      cases hn : s.nt with
      | none => left; simp [directSt]; rfl
      | some p => right; exact ⟨p, by simp [succSt, hn]; rfl⟩

/-- Every possible result of an API body, as an explicit state. -/
theorem body_cases (env : List Beh) (s : Sys) (op : Op) (s1 : Sys) (out : Outcome)
    (hr : body env s op = (s1, out)) :
    (op.isConn = true ∧ busy s = true ∧ s1 = s ∧ out = .invalidState) ∨
    (op.isConn = true ∧ busy s = false ∧ env.getD s.conns .accept = .refuse ∧
      s1 = refusedSt s ∧ out = .refused) ∨
    (op.isConn = true ∧ busy s = false ∧ env.getD s.conns .accept ≠ .refuse ∧ s.nt = none ∧
      s1 = directSt s ∧ out = .ok) ∨
    (∃ p, op.isConn = true ∧ busy s = false ∧ env.getD s.conns .accept ≠ .refuse ∧
      s.nt = some p ∧ s1 = succSt s p ∧ out = .ok) ∨
    (op.isConn = false ∧ s1 = discSt s ∧ out = .ok) := by
  have hc := connect_cases env s
  cases op with
  | disconnect imm =>
    right; right; right; right
    simp only [body, doDisconnect_eq, Prod.mk.injEq] at hr
    exact ⟨rfl, hr.1.symm, hr.2.symm⟩
  | connect =>
    simp only [body] at hr
    simp only [Op.isConn, true_and]
    rw [hr] at hc
    simp only [Prod.mk.injEq] at hc
    rcases hc with h | h | h | ⟨p, h⟩
    · left; exact h
    · right; left; exact h
    · right; right; left; exact h
    · right; right; right; left; exact ⟨p, h⟩
  | status =>
    simp only [body] at hr
    simp only [Op.isConn, true_and]
    rw [hr] at hc
    simp only [Prod.mk.injEq] at hc
    rcases hc with h | h | h | ⟨p, h⟩
    · left; exact h
    · right; left; exact h
    · right; right; left; exact h
    · right; right; right; left; exact ⟨p, h⟩

/-! ### Case analysis of a step -/

/-- An alias of `body` that the case-analysis tactic uses to find the API body in a goal. -/
def bodyR (env : List Beh) (s : Sys) (op : Op) : Sys × Outcome := body env s op

theorem body_alias (env : List Beh) (s : Sys) (op : Op) : body env s op = bodyR env s op := rfl

/-- Case analysis of `hs : step env s t = some s'`: one goal per branch of the model (and per
possible result of an API body) with `s'` replaced by the explicit successor state. -/
macro "step_cases" hs:ident : tactic => `(tactic| (
  unfold step at $hs:ident
  split at $hs:ident
  all_goals first | unfold stepUser at $hs:ident | unfold stepNet at $hs:ident
  all_goals (try dsimp only [] at $hs:ident)
  all_goals repeat' split at $hs:ident
  all_goals try (cases $hs:ident; done)
  all_goals try (simp only [doDisconnect_discSt] at $hs:ident)
  all_goals try (
    rw [body_alias] at $hs:ident
    generalize hr : bodyR _ _ _ = r at $hs:ident
    obtain ⟨s1, out⟩ := r
    rcases body_cases _ _ _ _ _ hr with ⟨hop, hbusy, e1, e2⟩ |
      ⟨hop, hbusy, henv, e1, e2⟩ | ⟨hop, hbusy, henv, hnt, e1, e2⟩ |
      ⟨p, hop, hbusy, henv, hnt, e1, e2⟩ | ⟨hop, e1, e2⟩
    all_goals subst e1 e2
    all_goals clear hr
    all_goals dsimp only [] at $hs:ident)
  all_goals (simp only [Option.some.injEq] at $hs:ident; subst $hs:ident)))

end PyCraft.Life
