import PyCraft.Model.PlayWire
import PyCraft.Model.Cfb8
import PyCraft.Lemmas.Play
import PyCraft.Lemmas.Wire
import PyCraft.Lemmas.FrameViews
/-!
Helper lemmas for `Props/C11Wire.lean`.

1. fixed-width patterns: `readBE`/`beBytes`, the signed/unsigned 64-bit views `s64`/`u64` against
   `unpackS`/`packS`;
2. what a successful `clientDecode` says about the raw payload (shape lemmas for the byte-echo
   statements);
3. `clientDecode (serverFields p) = p.ev.asSeen` and `serverDecode (replyFields q) = q`;
4. `decodeEach` over a mapped list, the `SrvPkt` views of `beforeDisc`/`hasDisc`, the closed form of
   the run (`run_facts`), flattening of the written chunks;
5. set compression in the play state: the client's reading loop on bytes (`parseClient`) and on the
   server's stream with a threshold per position; the instrumented loop `runT` against `runLoop`
   (`runT_spec`); the written chunks and the reference server with a threshold per frame; the
   one-threshold special case of a stream without such packets;
6. concrete profiles, cipher and inbox for the non-vacuity examples and the negative witness.
-/
namespace PyCraft.PlayWire
open PyCraft PyCraft.Play

/-! ## fixed-width patterns -/

theorem takeN_ok {w : Nat} {bs h r : Bytes} (e : takeN w bs = .ok (h, r)) :
    bs = h ++ r ∧ h.length = w := by
  unfold takeN at e
  split at e
  · next hle =>
    injection e with e; injection e with e1 e2
    subst e1; subst e2
    exact ⟨(List.take_append_drop w bs).symm, by rw [List.length_take]; omega⟩
  · cases e

theorem readBE_beBytes (w n : Nat) (rest : Bytes) (h : n < 256 ^ w) :
    readBE w (beBytes w n ++ rest) = .ok (n, rest) := by
  unfold readBE
  rw [takeN_append' w _ _ (beBytes_length w n)]
  simp only [beValue_beBytes, Nat.mod_eq_of_lt h]

theorem readBE8 (n : Nat) (rest : Bytes) (h : n < 2 ^ 64) :
    readBE 8 (beBytes 8 n ++ rest) = .ok (n, rest) := readBE_beBytes 8 n rest (by omega)

theorem readBE4 (n : Nat) (rest : Bytes) (h : n < 2 ^ 32) :
    readBE 4 (beBytes 4 n ++ rest) = .ok (n, rest) := readBE_beBytes 4 n rest (by omega)

theorem readBE1 (n : Nat) (rest : Bytes) (h : n < 256) :
    readBE 1 (beBytes 1 n ++ rest) = .ok (n, rest) := readBE_beBytes 1 n rest (by omega)

/-- A successful fixed-width read: the bytes consumed are the pattern's big-endian bytes. -/
theorem readBE_ok {w : Nat} {bs : Bytes} {n : Nat} {r : Bytes} (e : readBE w bs = .ok (n, r)) :
    bs = beBytes w n ++ r ∧ n < 256 ^ w := by
  unfold readBE at e
  cases ht : takeN w bs with
  | error e' => rw [ht] at e; cases e
  | ok hr =>
    obtain ⟨h, r'⟩ := hr
    rw [ht] at e
    injection e with e; injection e with e1 e2
    subst e1; subst e2
    obtain ⟨h1, h2⟩ := takeN_ok ht
    refine ⟨?_, ?_⟩
    · rw [← h2, beBytes_beValue]; exact h1
    · rw [← h2]; exact beValue_lt h

theorem u64_s64 (n : Nat) : u64 (s64 n) = n % 2 ^ 64 := by
  unfold u64 s64
  split <;> omega

theorem u64_s64_lt (n : Nat) (h : n < 2 ^ 64) : u64 (s64 n) = n := by
  rw [u64_s64]; omega

theorem beBytes8_u64_s64 (n : Nat) : beBytes 8 (u64 (s64 n)) = beBytes 8 n := by
  apply beBytes_congr
  rw [u64_s64]
  omega

/-- `Long.read` on eight pattern bytes: the signed reading. -/
theorem unpackS8_beBytes (n : Nat) (rest : Bytes) (h : n < 2 ^ 64) :
    unpackS 8 (beBytes 8 n ++ rest) = .ok (s64 n, rest) := by
  unfold unpackS
  rw [takeN_append' 8 _ _ (beBytes_length 8 n)]
  simp only [bind, Except.bind, pure, Except.pure, beValue_beBytes]
  have h256 : (256 : Int) ^ 8 = 2 ^ 64 := by decide
  have hm : n % 256 ^ 8 = n := Nat.mod_eq_of_lt (by omega)
  rw [hm, h256]
  have hs : (if (n : Int) < 2 ^ 64 / 2 then (n : Int) else (n : Int) - 2 ^ 64) = s64 n := by
    unfold s64; split <;> split <;> omega
  rw [hs]

/-- A successful `Long.read`: eight bytes consumed, which are the bytes of the value's pattern. -/
theorem unpackS8_ok {bs : Bytes} {v : Int} {r : Bytes} (e : unpackS 8 bs = .ok (v, r)) :
    bs = beBytes 8 (u64 v) ++ r ∧ u64 v < 2 ^ 64 := by
  unfold unpackS at e
  cases ht : takeN 8 bs with
  | error e' => rw [ht] at e; cases e
  | ok hr =>
    obtain ⟨h, r'⟩ := hr
    rw [ht] at e
    simp only [bind, Except.bind, pure, Except.pure] at e
    injection e with e; injection e with e1 e2
    subst e2
    obtain ⟨h1, h2⟩ := takeN_ok ht
    have hlt := beValue_lt h
    rw [h2] at hlt
    have h256 : (256 : Int) ^ 8 = 2 ^ 64 := by decide
    rw [h256] at e1
    have hu : u64 v = beValue h := by
      rw [← e1]; unfold u64
      split <;> omega
    refine ⟨?_, by rw [hu]; omega⟩
    rw [hu, ← h2, beBytes_beValue]; exact h1

/-- `Long.send` of a value that came out of `Long.read` cannot raise and writes its pattern. -/
theorem packS8_s64 (n : Nat) (h : n < 2 ^ 64) : packS 8 (s64 n) = .ok (beBytes 8 (u64 (s64 n))) := by
  unfold packS
  have h256 : (256 : Int) ^ 8 = 2 ^ 64 := by decide
  rw [h256]
  have : -((2 : Int) ^ 64 / 2) ≤ s64 n ∧ s64 n < (2 : Int) ^ 64 / 2 := by
    unfold s64; split <;> omega
  rw [if_pos this]
  rfl

/-! ## the client's decoder on what the server writes -/

theorem decVarInt_enc_nil (n : Nat) (h : n < 2 ^ 42) : decVarInt 5 (encVarInt n) = .ok (n, []) := by
  have := decVarInt_enc n [] h
  rwa [List.append_nil] at this

theorem readKeepAlive_kaField (P : Profile) (id : Nat) (h : (SrvPkt.keepAlive id).wf P = true) :
    readKeepAlive P (kaField P id) = .ok (.keepAlive id) := by
  unfold readKeepAlive kaField
  simp only [SrvPkt.wf] at h
  cases hk : P.kaLong
  · simp only [hk, Bool.false_eq_true, if_false, decide_eq_true_eq] at h ⊢
    have := decVarInt_enc id [] h
    rw [List.append_nil] at this
    rw [this]
  · simp only [hk, if_true, decide_eq_true_eq] at h ⊢
    have := unpackS8_beBytes id [] h
    rw [List.append_nil] at this
    simp only [this, u64_s64_lt id h]

theorem readPosLook_fields (P : Profile) (x y z yaw pitch flags tid : Nat) (dv : Bool)
    (h : (SrvPkt.posLook x y z yaw pitch flags tid dv).wf P = true) :
    readPosLook P (serverFields P (.posLook x y z yaw pitch flags tid dv)).2 =
      .ok (.posLook x y z yaw pitch flags tid) := by
  simp only [SrvPkt.wf, Bool.and_eq_true, decide_eq_true_eq] at h
  obtain ⟨⟨⟨⟨⟨⟨hx, hy⟩, hz⟩, hyaw⟩, hpitch⟩, hfl⟩, htid⟩ := h
  unfold readPosLook serverFields
  simp only [bind, Except.bind, readBE8 _ _ hx, readBE8 _ _ hy, readBE8 _ _ hz,
    readBE4 _ _ hyaw, readBE4 _ _ hpitch, readBE1 _ _ hfl]
  cases hn : P.newer107 <;> cases hd : P.dismount <;>
    simp only [hn, Bool.false_eq_true, if_false, if_true, decide_eq_true_eq] at htid ⊢
  · subst htid; rfl
  · subst htid; simp [takeN, pure, Except.pure]
  · simp [decVarInt_enc_nil _ htid, pure, Except.pure]
  · simp [decVarInt_enc _ _ htid, takeN, pure, Except.pure]

theorem readString_enc (s : String) (rest : Bytes) (h : (utf8 s).length < 2 ^ 42) :
    readString (encVarInt (utf8 s).length ++ (utf8 s ++ rest)) = .ok (s, rest) := by
  unfold readString
  rw [decVarInt_enc _ _ h]
  simp [utf8_roundtrip]

theorem readDisconnect_fields (s : String) (h : (utf8 s).length < 2 ^ 42) :
    readDisconnect (encVarInt (utf8 s).length ++ utf8 s) = .ok .disconnect := by
  unfold readDisconnect
  have := readString_enc s [] h
  rw [List.append_nil] at this
  rw [this]

/-- The client's `read_packet` decodes what the server wrote to the event the packet is (an unknown
one without its data). -/
theorem clientDecode_serverFields (P : Profile) (hP : P.cbDistinct = true) (p : SrvPkt)
    (h : p.wf P = true) : clientDecode P (serverFields P p) = .ok p.ev.asSeen := by
  simp only [Profile.cbDistinct, Bool.and_eq_true, bne_iff_ne, ne_eq] at hP
  obtain ⟨⟨h1, h2⟩, h3⟩ := hP
  cases p with
  | keepAlive id =>
    simp only [clientDecode, serverFields, if_true]
    exact readKeepAlive_kaField P id h
  | posLook x y z yaw pitch flags tid dv =>
    have := readPosLook_fields P x y z yaw pitch flags tid dv h
    simp only [serverFields] at this
    simp only [clientDecode, serverFields, if_neg (Ne.symm h1), if_true]
    exact this
  | disconnect json =>
    simp only [SrvPkt.wf, decide_eq_true_eq] at h
    simp only [clientDecode, serverFields, if_neg (Ne.symm h2), if_neg (Ne.symm h3), if_true]
    exact readDisconnect_fields json h
  | other pid name fields =>
    simp only [SrvPkt.wf, Bool.and_eq_true, bne_iff_ne, ne_eq, beq_iff_eq] at h
    obtain ⟨⟨⟨⟨a, b⟩, c⟩, sc⟩, d⟩ := h
    simp only [clientDecode, serverFields, if_neg a, if_neg b, if_neg c, if_neg sc, d]
    rfl
  | unknown pid data =>
    simp only [SrvPkt.wf, Bool.and_eq_true, bne_iff_ne, ne_eq, Option.isNone_iff_eq_none] at h
    obtain ⟨⟨⟨⟨a, b⟩, c⟩, sc⟩, d⟩ := h
    simp only [clientDecode, serverFields, if_neg a, if_neg b, if_neg c, if_neg sc, d]
    rfl
  | setCompression t =>
    simp only [SrvPkt.wf] at h
    cases hs : P.setCompressionCb with
    | none => rw [hs] at h; cases h
    | some pid =>
      rw [hs] at h
      simp only [Bool.and_eq_true, bne_iff_ne, ne_eq, decide_eq_true_eq] at h
      obtain ⟨⟨⟨a, b⟩, c⟩, d⟩ := h
      simp only [clientDecode, serverFields, hs, Option.getD_some, if_neg a, if_neg b, if_neg c,
        if_true, readSetCompression, decVarInt_enc_nil t d]
      rfl

/-! ## the reference server's decoder on what the client writes -/

theorem readPosEcho_fields (x y z yaw pitch : Int) (og : Bool)
    (hx : 0 ≤ x ∧ x < 2 ^ 64) (hy : 0 ≤ y ∧ y < 2 ^ 64) (hz : 0 ≤ z ∧ z < 2 ^ 64)
    (hyaw : 0 ≤ yaw ∧ yaw < 2 ^ 32) (hpitch : 0 ≤ pitch ∧ pitch < 2 ^ 32) :
    readPosEcho (beBytes 8 x.toNat ++ (beBytes 8 y.toNat ++ (beBytes 8 z.toNat ++
      (beBytes 4 yaw.toNat ++ (beBytes 4 pitch.toNat ++ [if og then 1 else 0]))))) =
      .ok (.positionEcho x y z yaw pitch og, []) := by
  unfold readPosEcho
  simp only [bind, Except.bind, readBE8 _ _ (show x.toNat < 2 ^ 64 by omega),
    readBE8 _ _ (show y.toNat < 2 ^ 64 by omega), readBE8 _ _ (show z.toNat < 2 ^ 64 by omega),
    readBE4 _ _ (show yaw.toNat < 2 ^ 32 by omega),
    readBE4 _ _ (show pitch.toNat < 2 ^ 32 by omega)]
  rw [Int.toNat_of_nonneg hx.1, Int.toNat_of_nonneg hy.1, Int.toNat_of_nonneg hz.1,
    Int.toNat_of_nonneg hyaw.1, Int.toNat_of_nonneg hpitch.1]
  cases og <;> simp [takeN, pure, Except.pure]

/-- The reference server decodes what the client wrote for a well-formed reply to that reply. -/
theorem serverDecode_replyFields (P : Profile) (hP : P.sbDistinct = true) (q : Reply)
    (h : replyWf P q = true) : serverDecode P (replyFields P q) = .ok q := by
  simp only [Profile.sbDistinct, bne_iff_ne, ne_eq] at hP
  cases q with
  | keepAlive id =>
    simp only [replyWf] at h
    simp only [serverDecode, replyFields, if_true]
    cases hk : P.kaLong
    · simp only [hk, Bool.false_eq_true, if_false, decide_eq_true_eq] at h ⊢
      rw [decVarInt_enc_nil id h]; rfl
    · simp only [hk, if_true, decide_eq_true_eq] at h ⊢
      have := readBE8 id [] h
      rw [List.append_nil] at this
      rw [u64_s64_lt id h, this]; rfl
  | teleportConfirm tid =>
    simp only [replyWf, Bool.and_eq_true, decide_eq_true_eq] at h
    obtain ⟨hn, ht⟩ := h
    have hack : P.ackSb = P.teleportConfirmSb := by simp [Profile.ackSb, hn]
    rw [hack] at hP
    simp only [serverDecode, replyFields, if_neg (Ne.symm hP), hack, if_true, hn]
    rw [decVarInt_enc_nil tid ht]; rfl
  | positionEcho x y z yaw pitch og =>
    simp only [replyWf, Bool.and_eq_true, decide_eq_true_eq, Bool.not_eq_true'] at h
    obtain ⟨⟨⟨⟨⟨hn, hx⟩, hy⟩, hz⟩, hyaw⟩, hpitch⟩ := h
    have hack : P.ackSb = P.posLookSb := by simp [Profile.ackSb, hn]
    rw [hack] at hP
    simp only [serverDecode, replyFields, if_neg (Ne.symm hP), hack, if_true, hn,
      Bool.false_eq_true, if_false]
    rw [readPosEcho_fields x y z yaw pitch og hx hy hz hyaw hpitch]; rfl

theorem packU8_ok (x : Int) (h : 0 ≤ x ∧ x < 2 ^ 64) : packU 8 x = .ok (beBytes 8 x.toNat) := by
  have e8 : (256 : Int) ^ 8 = 2 ^ 64 := by decide
  unfold packU; rw [e8, if_pos h]

theorem packU4_ok (x : Int) (h : 0 ≤ x ∧ x < 2 ^ 32) : packU 4 x = .ok (beBytes 4 x.toNat) := by
  have e4 : (256 : Int) ^ 4 = 2 ^ 32 := by decide
  unfold packU; rw [e4, if_pos h]

theorem encVarIntZ_nat (n : Nat) : encVarIntZ (n : Int) = .ok (encVarInt n) := by
  unfold encVarIntZ
  rw [if_neg (by omega)]
  simp

/-- The literal writer with `struct.pack`'s range checks agrees on well-formed replies: no raise. -/
theorem replyFieldsPy_ok (P : Profile) (q : Reply) (h : replyWf P q = true) :
    replyFieldsPy P q = .ok (replyFields P q) := by
  cases q with
  | keepAlive id =>
    simp only [replyWf] at h
    cases hk : P.kaLong
    · simp only [hk, Bool.false_eq_true, if_false, decide_eq_true_eq] at h
      simp [replyFieldsPy, replyFields, hk, encVarIntZ_nat, bind, Except.bind, pure, Except.pure]
    · simp only [hk, if_true, decide_eq_true_eq] at h
      simp [replyFieldsPy, replyFields, hk, packS8_s64 id h, bind, Except.bind, pure, Except.pure]
  | teleportConfirm tid =>
    simp [replyFieldsPy, replyFields, encVarIntZ_nat, bind, Except.bind, pure, Except.pure]
  | positionEcho x y z yaw pitch og =>
    simp only [replyWf, Bool.and_eq_true, decide_eq_true_eq, Bool.not_eq_true'] at h
    obtain ⟨⟨⟨⟨⟨-, hx⟩, hy⟩, hz⟩, hyaw⟩, hpitch⟩ := h
    simp only [replyFieldsPy, replyFields, packU8_ok x hx, packU8_ok y hy, packU8_ok z hz,
      packU4_ok yaw hyaw, packU4_ok pitch hpitch, bind, Except.bind, pure, Except.pure]

/-! ## lists: decoding a mapped list, the `SrvPkt` views of `beforeDisc` / `hasDisc` -/

theorem decodeEach_map {α β : Type} (dec : Nat × Bytes → Except Err β) (f : α → Nat × Bytes)
    (g : α → β) (e : Err) : ∀ l : List α, (∀ a ∈ l, dec (f a) = .ok (g a)) →
      decodeEach dec (l.map f) e = (l.map g, e)
  | [], _ => rfl
  | a :: l, h => by
    have ih := decodeEach_map dec f g e l fun b hb => h b (by simp [hb])
    simp only [List.map_cons, decodeEach, h a (by simp), ih]

theorem ev_ne_disc (p : SrvPkt) : (p.ev.asSeen != PlayEv.disconnect) = !p.isDisconnect := by
  cases p <;> simp [SrvPkt.ev, PlayEv.asSeen, SrvPkt.isDisconnect]

theorem beforeDisc_inboxOf (pkts : List SrvPkt) :
    beforeDisc (inboxOf pkts) = inboxOf (beforeDiscP pkts) := by
  unfold beforeDisc inboxOf beforeDiscP
  rw [List.takeWhile_map]
  congr 2
  funext p
  exact ev_ne_disc p

theorem hasDisc_inboxOf (pkts : List SrvPkt) : hasDisc (inboxOf pkts) = hasDiscP pkts := by
  induction pkts with
  | nil => rfl
  | cons p ps ih =>
    have hc : inboxOf (p :: ps) = p.ev.asSeen :: inboxOf ps := rfl
    rw [hc]
    by_cases hd : p.isDisconnect = true
    · have : p.ev.asSeen = .disconnect := by
        cases p <;> simp_all [SrvPkt.ev, PlayEv.asSeen, SrvPkt.isDisconnect]
      rw [this, hasDisc_cons_disc]
      simp [hasDiscP, hd]
    · have hne : p.ev.asSeen ≠ .disconnect := by
        cases p <;> simp_all [SrvPkt.ev, PlayEv.asSeen, SrvPkt.isDisconnect]
      rw [hasDisc_cons_ne _ _ hne, ih]
      simp [hasDiscP, hd]

theorem replyTo_asSeen (n : Bool) (e : PlayEv) : replyTo n e.asSeen = replyTo n e := by
  cases e <;> rfl

theorem due_eq (P : Profile) (pkts : List SrvPkt) :
    (beforeDisc (inboxOf pkts)).flatMap (replyTo P.newer107) = due P pkts := by
  rw [beforeDisc_inboxOf]
  unfold inboxOf due
  rw [List.flatMap_map]
  congr 1
  funext p
  exact replyTo_asSeen _ _

/-- The closed form of the run on the decoded inbox, in the vocabulary of the packets. -/
theorem run_facts (P : Profile) (pkts : List SrvPkt) (po : Bool) (capW capR : Nat)
    (hR : 1 ≤ capR) :
    ∃ r, runLoop P.newer107 po capW capR (inboxOf pkts) = some r ∧
      r.wire <+: due P pkts ∧
      ((po = true ∨ hasDiscP pkts = false) → r.wire = due P pkts) ∧
      r.closed = hasDiscP pkts := by
  obtain ⟨r, h, -, -, hcl, -, -, hp, he⟩ := runLoop_spec P.newer107 po capW capR hR (inboxOf pkts)
  rw [fullWire, due_eq] at hp he
  rw [hasDisc_inboxOf] at he hcl
  exact ⟨r, h, hp, he, hcl⟩

/-- Every reply that is due is well-formed when the packets are. -/
theorem due_wf (P : Profile) (pkts : List SrvPkt) (h : ∀ p ∈ pkts, p.wf P = true) :
    ∀ q ∈ due P pkts, replyWf P q = true := by
  intro q hq
  obtain ⟨p, hp, hqp⟩ := List.mem_flatMap.mp hq
  have hp' : p ∈ pkts := (List.takeWhile_prefix _).subset hp
  have hw := h p hp'
  cases p with
  | keepAlive id =>
    simp only [SrvPkt.ev, replyTo, List.mem_singleton] at hqp
    subst hqp
    simpa [SrvPkt.wf, replyWf] using hw
  | posLook x y z yaw pitch flags tid dv =>
    simp only [SrvPkt.wf, Bool.and_eq_true, decide_eq_true_eq] at hw
    obtain ⟨⟨⟨⟨⟨⟨hx, hy⟩, hz⟩, hyaw⟩, hpitch⟩, -⟩, htid⟩ := hw
    simp only [SrvPkt.ev, replyTo] at hqp
    cases hn : P.newer107
    · simp only [hn, Bool.false_eq_true, if_false, List.mem_singleton] at hqp htid
      subst hqp
      simp only [replyWf, hn, Bool.not_false, Bool.true_and, Bool.and_eq_true, decide_eq_true_eq]
      omega
    · simp only [hn, if_true, List.mem_singleton, decide_eq_true_eq] at hqp htid
      subst hqp
      simp [replyWf, hn, htid]
  | disconnect j => simp [SrvPkt.ev, replyTo] at hqp
  | other a b c => simp [SrvPkt.ev, replyTo] at hqp
  | unknown a b => simp [SrvPkt.ev, replyTo] at hqp
  | setCompression t => simp [SrvPkt.ev, replyTo] at hqp

/-! ## the written chunks -/

theorem sends_flatten (z : ZlibOps) (thr : Option Int) (fields : Reply → Nat × Bytes) :
    ∀ replies : List Reply, (replies.flatMap (sendsWith z thr fields)).flatten =
      (replies.map (frameWith z thr fields)).flatten
  | [] => rfl
  | q :: rest => by
    simp only [List.flatMap_cons, List.flatten_append, List.map_cons, List.flatten_cons,
      sends_flatten z thr fields rest]
    congr 1
    exact frameSends_flatten' z thr _

/-- Whatever the chunking into `send` calls, the socket is handed ONE cipher stream over the
concatenated frames. -/
theorem wireWith_flatten {τ : Type} (z : ZlibOps) (thr : Option Int) (enc : StreamXform τ) (t0 : τ)
    (fields : Reply → Nat × Bytes) (replies : List Reply) :
    (wireWith z thr enc t0 fields replies).flatten =
      (enc.update t0 (replies.map (frameWith z thr fields)).flatten).2 := by
  unfold wireWith
  rw [encSends_flatten, sends_flatten]

/-! ## what a successful client decode says about the raw payload -/

theorem readPosLook_ok (P : Profile) (bs : Bytes) (x y z yaw pitch : Int) (flags tid : Nat)
    (h : readPosLook P bs = .ok (.posLook x y z yaw pitch flags tid)) :
    ∃ r6 : Bytes,
      bs = beBytes 8 x.toNat ++ (beBytes 8 y.toNat ++ (beBytes 8 z.toNat ++
        (beBytes 4 yaw.toNat ++ (beBytes 4 pitch.toNat ++ (beBytes 1 flags ++ r6))))) ∧
      (0 ≤ x ∧ 0 ≤ y ∧ 0 ≤ z ∧ 0 ≤ yaw ∧ 0 ≤ pitch) ∧
      (P.newer107 = true → ∃ r7, decVarInt 5 r6 = .ok (tid, r7)) ∧
      (P.newer107 = false → tid = 0) := by
  unfold readPosLook at h
  simp only [bind, Except.bind] at h
  cases h1 : readBE 8 bs with
  | error e => rw [h1] at h; cases h
  | ok v1 =>
    obtain ⟨x1, r1⟩ := v1
    rw [h1] at h; simp only at h
    cases h2 : readBE 8 r1 with
    | error e => rw [h2] at h; cases h
    | ok v2 =>
      obtain ⟨y1, r2⟩ := v2
      rw [h2] at h; simp only at h
      cases h3 : readBE 8 r2 with
      | error e => rw [h3] at h; cases h
      | ok v3 =>
        obtain ⟨z1, r3⟩ := v3
        rw [h3] at h; simp only at h
        cases h4 : readBE 4 r3 with
        | error e => rw [h4] at h; cases h
        | ok v4 =>
          obtain ⟨yaw1, r4⟩ := v4
          rw [h4] at h; simp only at h
          cases h5 : readBE 4 r4 with
          | error e => rw [h5] at h; cases h
          | ok v5 =>
            obtain ⟨pitch1, r5⟩ := v5
            rw [h5] at h; simp only at h
            cases h6 : readBE 1 r5 with
            | error e => rw [h6] at h; cases h
            | ok v6 =>
              obtain ⟨fl1, r6⟩ := v6
              rw [h6] at h; simp only at h
              have fin : ∀ t : Nat,
                  (Except.ok (PlayEv.posLook x1 y1 z1 yaw1 pitch1 fl1 t) : Except Err PlayEv) =
                    .ok (.posLook x y z yaw pitch flags tid) →
                  x = x1 ∧ y = y1 ∧ z = z1 ∧ yaw = yaw1 ∧ pitch = pitch1 ∧ flags = fl1 ∧ tid = t := by
                intro t ht
                injection ht with ht
                injection ht with a b c d e f g
                exact ⟨a.symm, b.symm, c.symm, d.symm, e.symm, f.symm, g.symm⟩
              have key : ∃ t : Nat,
                  (x = x1 ∧ y = y1 ∧ z = z1 ∧ yaw = yaw1 ∧ pitch = pitch1 ∧ flags = fl1 ∧ tid = t) ∧
                  (P.newer107 = true → ∃ r7, decVarInt 5 r6 = .ok (t, r7)) ∧
                  (P.newer107 = false → t = 0) := by
                cases hn : P.newer107
                · simp only [hn, Bool.false_eq_true, if_false, pure, Except.pure] at h
                  cases hd : P.dismount
                  · simp only [hd, Bool.false_eq_true, if_false] at h
                    exact ⟨0, fin 0 h, by simp, fun _ => rfl⟩
                  · simp only [hd, if_true] at h
                    cases ht : takeN 1 r6 with
                    | error e => rw [ht] at h; cases h
                    | ok v => rw [ht] at h; exact ⟨0, fin 0 h, by simp, fun _ => rfl⟩
                · simp only [hn, if_true, pure, Except.pure] at h
                  cases hv : decVarInt 5 r6 with
                  | error e => rw [hv] at h; cases h
                  | ok v =>
                    obtain ⟨t, r7⟩ := v
                    rw [hv] at h; simp only at h
                    cases hd : P.dismount
                    · simp only [hd, Bool.false_eq_true, if_false] at h
                      exact ⟨t, fin t h, fun _ => ⟨r7, rfl⟩, by simp⟩
                    · simp only [hd, if_true] at h
                      cases ht : takeN 1 r7 with
                      | error e => rw [ht] at h; cases h
                      | ok w => rw [ht] at h; exact ⟨t, fin t h, fun _ => ⟨r7, rfl⟩, by simp⟩
              obtain ⟨t, ⟨ex, ey, ez, eyaw, epitch, efl, etid⟩, kn, ko⟩ := key
              subst ex ey ez eyaw epitch efl etid
              obtain ⟨b1, -⟩ := readBE_ok h1
              obtain ⟨b2, -⟩ := readBE_ok h2
              obtain ⟨b3, -⟩ := readBE_ok h3
              obtain ⟨b4, -⟩ := readBE_ok h4
              obtain ⟨b5, -⟩ := readBE_ok h5
              obtain ⟨b6, -⟩ := readBE_ok h6
              refine ⟨r6, ?_, by omega, kn, ko⟩
              simp only [Int.toNat_natCast]
              rw [b1, b2, b3, b4, b5, b6]

theorem readKeepAlive_ok (P : Profile) (bs : Bytes) (id : Nat)
    (h : readKeepAlive P bs = .ok (.keepAlive id)) :
    (P.kaLong = true → ∃ r, bs = beBytes 8 id ++ r ∧ id < 2 ^ 64) ∧
    (P.kaLong = false → ∃ r, decVarInt 5 bs = .ok (id, r)) := by
  unfold readKeepAlive at h
  cases hk : P.kaLong
  · simp only [hk, Bool.false_eq_true, if_false] at h
    refine ⟨fun hh => (by cases hh), fun _ => ?_⟩
    cases hv : decVarInt 5 bs with
    | error e => rw [hv] at h; cases h
    | ok v =>
      obtain ⟨n, r⟩ := v
      rw [hv] at h
      injection h with h; injection h with h
      exact ⟨r, by rw [h]⟩
  · simp only [hk, if_true] at h
    refine ⟨fun _ => ?_, fun hh => (by cases hh)⟩
    cases hv : unpackS 8 bs with
    | error e => rw [hv] at h; cases h
    | ok v =>
      obtain ⟨n, r⟩ := v
      rw [hv] at h
      injection h with h; injection h with h
      obtain ⟨a, b⟩ := unpackS8_ok hv
      exact ⟨r, by rw [← h]; exact a, by rw [← h]; exact b⟩

/-- A successful `VarInt.read`: the bytes consumed denote the value, and re-encoding the value gives
those very bytes when they are the canonical (shortest) encoding. -/
theorem decVarInt_ok_used (bs : Bytes) (n : Nat) (r : Bytes) (h : decVarInt 5 bs = .ok (n, r)) :
    ∃ used, bs = used ++ r ∧ leValue used = n ∧ used.length ≤ 6 ∧
      (Canonical used → encVarInt n = used) := by
  obtain ⟨pre, last, e1, e2, -, -, -, e6, -⟩ :=
    dec_ok_shape 5 bs 0 0 n r (by simp) (by omega) h
  have hv : leValue (pre ++ [last]) = n := by rw [e6]; simp
  refine ⟨pre ++ [last], by rw [e1]; simp, hv, by simp; omega, fun hc => ?_⟩
  rw [← hv]; exact enc_unique _ hc

theorem take32 (a b c d e rest : Bytes) (ha : a.length = 8) (hb : b.length = 8)
    (hc : c.length = 8) (hd : d.length = 4) (he : e.length = 4) :
    (a ++ (b ++ (c ++ (d ++ (e ++ rest))))).take 32 = a ++ (b ++ (c ++ (d ++ e))) := by
  have : a ++ (b ++ (c ++ (d ++ (e ++ rest)))) = (a ++ (b ++ (c ++ (d ++ e)))) ++ rest := by simp
  rw [this, List.take_left']
  simp [ha, hb, hc, hd, he]

/-! ## the replies in terms of the server's own bytes -/

theorem replyFields_kaField (P : Profile) (id : Nat) :
    (replyFields P (.keepAlive id)).2 = kaField P id := by
  unfold replyFields kaField
  cases P.kaLong
  · rfl
  · simp [beBytes8_u64_s64]

/-- Packet by packet: the field bytes of the replies are the echo specification. -/
theorem replyTo_fields (P : Profile) (p : SrvPkt) :
    (replyTo P.newer107 p.ev).map (replyFields P) = echoOf P p := by
  cases p with
  | keepAlive id =>
    simp only [SrvPkt.ev, replyTo, List.map_cons, List.map_nil, echoOf, serverFields]
    rw [← replyFields_kaField]; rfl
  | posLook x y z yaw pitch flags tid dv =>
    cases hn : P.newer107
    · simp only [SrvPkt.ev, replyTo, hn, Bool.false_eq_true, if_false, List.map_cons, List.map_nil,
        echoOf, ackOf, Option.toList, serverFields, replyFields, Int.toNat_natCast]
      rw [take32 _ _ _ _ _ _ (beBytes_length _ _) (beBytes_length _ _) (beBytes_length _ _)
        (beBytes_length _ _) (beBytes_length _ _)]
      simp
    · simp [SrvPkt.ev, replyTo, hn, echoOf, ackOf, replyFields]
  | disconnect j => rfl
  | other a b c => rfl
  | unknown a b => rfl
  | setCompression t => rfl

theorem due_fields (P : Profile) (pkts : List SrvPkt) :
    (due P pkts).map (replyFields P) = (beforeDiscP pkts).flatMap (echoOf P) := by
  unfold due
  rw [List.map_flatMap]
  congr 1
  funext p
  exact replyTo_fields P p

theorem ka_filter_fields (P : Profile) : ∀ l : List Reply,
    (l.filter Reply.isKeepAlive).map (fun q => (replyFields P q).2) =
      (l.filterMap Reply.keepAliveId?).map (kaField P)
  | [] => rfl
  | q :: l => by
    have ih := ka_filter_fields P l
    cases q <;>
      simp [List.filter_cons, List.filterMap_cons, Reply.isKeepAlive, Reply.keepAliveId?, ih,
        replyFields_kaField]

theorem ka_filter_server (P : Profile) : ∀ l : List SrvPkt,
    ((inboxOf l).filterMap PlayEv.keepAliveId?).map (kaField P) =
      (l.filter SrvPkt.isKeepAlive).map (fun p => (serverFields P p).2)
  | [] => rfl
  | p :: l => by
    have ih := ka_filter_server P l
    have hc : inboxOf (p :: l) = p.ev.asSeen :: inboxOf l := rfl
    rw [hc]
    cases p <;>
      simp [List.filter_cons, List.filterMap_cons, SrvPkt.isKeepAlive, PlayEv.keepAliveId?,
        SrvPkt.ev, PlayEv.asSeen, ih, serverFields]

theorem ack_fields (P : Profile) (p : SrvPkt) :
    (expectedAck P.newer107 p.ev.asSeen).map (replyFields P) = ackOf P p := by
  have := replyTo_fields P p
  cases p with
  | keepAlive id => rfl
  | posLook x y z yaw pitch flags tid dv =>
    simp only [echoOf] at this
    cases hn : P.newer107 <;>
      simp only [hn, SrvPkt.ev, replyTo, Bool.false_eq_true, if_false, if_true, List.map_cons,
        List.map_nil] at this <;>
      simp only [SrvPkt.ev, PlayEv.asSeen, expectedAck, Bool.false_eq_true, if_false, if_true,
        Option.map_some] <;>
      cases ha : ackOf P (.posLook x y z yaw pitch flags tid dv) <;> simp_all [Option.toList]
  | disconnect j => rfl
  | other a b c => rfl
  | unknown a b => rfl
  | setCompression t => rfl

theorem ack_filter_server (P : Profile) (l : List SrvPkt) :
    ((inboxOf l).filterMap (expectedAck P.newer107)).map (replyFields P) =
      l.filterMap (ackOf P) := by
  unfold inboxOf
  rw [List.filterMap_map, List.map_filterMap]
  congr 1
  funext p
  exact ack_fields P p

theorem beforeDiscP_append_disc (pre post : List SrvPkt) (j : String)
    (h : ∀ p ∈ pre, p.isDisconnect = false) :
    beforeDiscP (pre ++ .disconnect j :: post) = pre := by
  induction pre with
  | nil => simp [beforeDiscP, SrvPkt.isDisconnect]
  | cons p ps ih =>
    have hp := h p (by simp)
    have := ih fun q hq => h q (by simp [hq])
    simp only [beforeDiscP] at this ⊢
    simp [hp, this]

/-- The reference decoder, reply by reply, on the `(id, field bytes)` of well-formed replies. -/
theorem decodeEach_replies (P : Profile) (hSb : P.sbDistinct = true) (replies : List Reply)
    (hwf : ∀ q ∈ replies, replyWf P q = true) (e : Err) :
    decodeEach (serverDecode P) (replies.map (replyFields P)) e = (replies, e) := by
  have := decodeEach_map (serverDecode P) (replyFields P) id e replies
    fun q hq => serverDecode_replyFields P hSb q (hwf q hq)
  simpa using this

/-- The client's decoder, packet by packet, on the `(id, field bytes)` of well-formed packets. -/
theorem decodeEach_server (P : Profile) (hP : P.cbDistinct = true) (pkts : List SrvPkt)
    (hwf : ∀ p ∈ pkts, p.wf P = true) (e : Err) :
    decodeEach (clientDecode P) (pkts.map (serverFields P)) e = (inboxOf pkts, e) :=
  decodeEach_map (clientDecode P) (serverFields P) (fun p => p.ev.asSeen) e pkts
    fun p hp => clientDecode_serverFields P hP p (hwf p hp)

/-- The `send` chunks of the replies concatenate to the frames of their `(id, field bytes)`. -/
theorem sends_frames (z : ZlibOps) (thr : Option Int) (P : Profile) (replies : List Reply) :
    (replies.flatMap (sendsWith z thr (replyFields P))).flatten =
      ((replies.map (replyFields P)).map (packetFrame z thr)).flatten := by
  rw [sends_flatten, List.map_map]; rfl

/-! ## set compression: the reader follows the stream's thresholds -/

/-- What `react`'s first branch installs for a packet the server wrote: the threshold of a
set-compression packet, nothing for any other packet. -/
theorem switchOf_serverFields (P : Profile) (p : SrvPkt) (h : p.wf P = true) :
    switchOf P (serverFields P p) =
      (match p with
       | .setCompression t => some t
       | _ => none) := by
  cases p with
  | keepAlive id => simp [switchOf, serverFields]
  | posLook x y z yaw pitch flags tid dv => simp [switchOf, serverFields]
  | disconnect json => simp [switchOf, serverFields]
  | other pid name fields =>
    simp only [SrvPkt.wf, Bool.and_eq_true, bne_iff_ne, ne_eq, beq_iff_eq] at h
    obtain ⟨⟨⟨⟨a, b⟩, c⟩, sc⟩, -⟩ := h
    simp [switchOf, serverFields, a, b, c, sc]
  | unknown pid data =>
    simp only [SrvPkt.wf, Bool.and_eq_true, bne_iff_ne, ne_eq, Option.isNone_iff_eq_none] at h
    obtain ⟨⟨⟨⟨a, b⟩, c⟩, sc⟩, -⟩ := h
    simp [switchOf, serverFields, a, b, c, sc]
  | setCompression t =>
    simp only [SrvPkt.wf] at h
    cases hs : P.setCompressionCb with
    | none => rw [hs] at h; cases h
    | some pid =>
      rw [hs] at h
      simp only [Bool.and_eq_true, bne_iff_ne, ne_eq, decide_eq_true_eq] at h
      obtain ⟨⟨⟨a, b⟩, c⟩, d⟩ := h
      simp [switchOf, serverFields, hs, a, b, c, readSetCompression, decVarInt_enc_nil t d]

/-- The reader's flag after the packet is "a threshold is in force after the packet". -/
theorem flag_step (P : Profile) (p : SrvPkt) (h : p.wf P = true) (thr : Option Int) :
    (thr.isSome || (switchOf P (serverFields P p)).isSome) = (p.thrAfter thr).isSome := by
  rw [switchOf_serverFields P p h]
  cases p <;> simp [SrvPkt.thrAfter]

/-- `clientReadFuel` on a byte string. -/
def parseClient (P : Profile) (z : ZlibOps) : Nat → Bool → Bytes → List PlayEv × Err
  | 0, _, _ => ([], .other)
  | fuel + 1, c, bs =>
    match parsePacket z c bs with
    | .error e => ([], e)
    | .ok (raw, rest) =>
      match clientDecode P raw with
      | .error e => ([], e)
      | .ok ev =>
        (ev :: (parseClient P z fuel (c || (switchOf P raw).isSome) rest).1,
          (parseClient P z fuel (c || (switchOf P raw).isSome) rest).2)

/-- The client's reading loop sees only the decrypted concatenation of what is still to arrive. -/
theorem clientReadFuel_spec {σ : Type} (P : Profile) (dec : StreamXform σ) (z : ZlibOps) :
    ∀ (fuel : Nat) (c : Bool) (k : Sock σ),
      clientReadFuel P dec z fuel c k = parseClient P z fuel c (ahead dec k) := by
  intro fuel
  induction fuel with
  | zero => intro c k; rfl
  | succ fuel ih =>
    intro c k
    have hp := readPacketK_spec dec z c k
    simp only [clientReadFuel, parseClient]
    cases hd : parsePacket z c (ahead dec k) with
    | error e =>
      obtain ⟨k1, e1⟩ := hp.2 e hd
      simp only [e1]
    | ok pr =>
      obtain ⟨raw, rest⟩ := pr
      obtain ⟨k1, e1, e2⟩ := hp.1 raw rest hd
      simp only [e1]
      cases clientDecode P raw with
      | error e => rfl
      | ok ev => simp only [ih, e2]

/-- … in particular only the concatenation of the arrival segments (any segmentation). -/
theorem clientRead_spec {σ : Type} (P : Profile) (dec : StreamXform σ) (s0 : σ) (z : ZlibOps)
    (c : Bool) (segs : Segs) :
    clientRead P dec s0 z c segs =
      parseClient P z (segs.flatten.length + 1) c (dec.update s0 segs.flatten).2 := by
  unfold clientRead
  rw [clientReadFuel_spec, ahead_enc]

theorem packetFrame_ne_nil' (z : ZlibOps) (thr : Option Int) (p : Nat × Bytes) :
    packetFrame z thr p ≠ [] := by
  unfold packetFrame frame
  exact List.append_ne_nil_of_left_ne_nil (enc_ne_nil _) _

theorem serverBytes_cons (z : ZlibOps) (thr : Option Int) (P : Profile) (p : SrvPkt)
    (ps : List SrvPkt) :
    serverBytes z thr P (p :: ps) =
      packetFrame z thr (serverFields P p) ++ serverBytes z (p.thrAfter thr) P ps := by
  simp [serverBytes, serverFrames]

theorem serverBytes_length (z : ZlibOps) (P : Profile) : ∀ (pkts : List SrvPkt) (thr : Option Int),
    pkts.length ≤ (serverBytes z thr P pkts).length
  | [], _ => by simp [serverBytes, serverFrames]
  | p :: ps, thr => by
    rw [serverBytes_cons, List.length_append, List.length_cons]
    have := List.length_pos_iff.mpr (packetFrame_ne_nil' z thr (serverFields P p))
    have := serverBytes_length z P ps (p.thrAfter thr)
    omega

theorem parsePacket_nil (z : ZlibOps) (c : Bool) : parsePacket z c [] = .error .eof := by
  simp [parsePacket, parseFrame, decVarInt, decVarIntAux]

/-- The server's stream — every frame under the threshold in force at its position — is decoded to
the events the packets are, the reader's flag following the set-compression packets, then end of
stream. -/
theorem parseClient_server (z : Zlib) (P : Profile) (hP : P.cbDistinct = true) :
    ∀ (pkts : List SrvPkt) (thr : Option Int) (fuel : Nat),
      (∀ p ∈ pkts, p.wf P = true) → ServerOK z.toZlibOps P thr pkts → pkts.length < fuel →
      parseClient P z.toZlibOps fuel thr.isSome (serverBytes z.toZlibOps thr P pkts) =
        (inboxOf pkts, .eof) := by
  intro pkts
  induction pkts with
  | nil =>
    intro thr fuel _ _ hf
    cases fuel with
    | zero => omega
    | succ fuel =>
      simp only [parseClient, serverBytes, serverFrames, List.flatten_nil, parsePacket_nil]
      rfl
  | cons p ps ih =>
    intro thr fuel hwf hok hf
    cases fuel with
    | zero => omega
    | succ fuel =>
      obtain ⟨hok1, hok2⟩ := hok
      have hw := hwf p (by simp)
      rw [serverBytes_cons]
      simp only [parseClient, parsePacket_packetFrame z thr _ _ hok1,
        clientDecode_serverFields P hP p hw, flag_step P p hw thr]
      rw [ih (p.thrAfter thr) fuel (fun q hq => hwf q (by simp [hq])) hok2 (by simp at hf; omega)]
      rfl

/-! ## set compression: the instrumented loop is the loop -/

theorem writeLoop_wire (capW : Nat) : ∀ (queue : List Reply) (num : Nat) (wire : List Reply),
    ∃ l, (writeLoop capW num queue wire).2.2 = wire ++ l
  | [], _, wire => ⟨[], by simp [writeLoop]⟩
  | p :: q, num, wire => by
    unfold writeLoop
    by_cases h : num + 1 ≥ capW
    · exact ⟨[p], by simp [h]⟩
    · obtain ⟨l, hl⟩ := writeLoop_wire capW q (num + 1) (wire ++ [p])
      exact ⟨p :: l, by simp only [h, if_false, hl]; simp⟩

theorem reactAll_wire (newer po : Bool) (c : Conn) (e : PlayEv) :
    ∃ l, (reactAll newer po c e).wire = c.wire ++ l := by
  by_cases h : e = .disconnect
  · subst h
    cases c with
    | mk queue wire delivered spawned connected interrupt closed =>
      cases queue with
      | nil => exact ⟨[], by cases closed <;> simp [reactAll, react, disconnect]⟩
      | cons p q =>
        cases closed
        · cases po
          · exact ⟨[], by simp [reactAll, react, disconnect]⟩
          · exact ⟨p :: q, by simp [reactAll, react, disconnect]⟩
        · exact ⟨[], by simp [reactAll, react, disconnect]⟩
  · exact ⟨[], by simp [reactAll, react_ne_disc newer po c e h]⟩

/-- The tags describe the wire, never exceed the number of packets processed, and never decrease. -/
structure TagInv (wire : List Reply) (d : Nat) (tw : List Tagged) : Prop where
  fst : tw.map (·.1) = wire
  le : ∀ x ∈ tw, x.2 ≤ d
  mono : tw.Pairwise fun a b => a.2 ≤ b.2

theorem TagInv.nil : TagInv [] 0 [] := ⟨rfl, fun _ h => (by cases h), List.Pairwise.nil⟩

theorem pairwise_same_tag (n : Nat) : ∀ l : List Reply,
    (l.map fun q => ((q, n) : Tagged)).Pairwise fun a b => a.2 ≤ b.2
  | [] => List.Pairwise.nil
  | q :: l => by
    rw [List.map_cons, List.pairwise_cons]
    refine ⟨fun b hb => ?_, pairwise_same_tag n l⟩
    obtain ⟨q', -, rfl⟩ := List.mem_map.mp hb
    exact Nat.le_refl _

theorem TagInv.tagNew {wire : List Reply} {d : Nat} {tw : List Tagged} (h : TagInv wire d tw)
    (l : List Reply) (n : Nat) (hn : d ≤ n) : TagInv (wire ++ l) n (tagNew wire (wire ++ l) n tw) := by
  have hdrop : (wire ++ l).drop wire.length = l := List.drop_left' rfl
  refine ⟨?_, ?_, ?_⟩
  · simp [PlayWire.tagNew, hdrop, h.fst, Function.comp_def]
  · intro x hx
    simp only [PlayWire.tagNew, hdrop, List.mem_append, List.mem_map] at hx
    rcases hx with hx | ⟨q, -, rfl⟩
    · exact Nat.le_trans (h.le x hx) hn
    · exact Nat.le_refl _
  · simp only [PlayWire.tagNew, hdrop]
    rw [List.pairwise_append]
    refine ⟨h.mono, pairwise_same_tag n l, ?_⟩
    · intro a ha b hb
      obtain ⟨q, -, rfl⟩ := List.mem_map.mp hb
      exact Nat.le_trans (h.le a ha) hn

theorem readLoopT_sim (newer po : Bool) (capR : Nat) : ∀ (inbox : List PlayEv) (num : Nat)
    (c : Conn) (d : Nat) (tw : List Tagged), TagInv c.wire d tw →
    (readLoopT newer po capR num c d tw inbox).1.1 = (readLoop newer po capR num c inbox).1 ∧
    (readLoopT newer po capR num c d tw inbox).2 = (readLoop newer po capR num c inbox).2 ∧
    TagInv (readLoopT newer po capR num c d tw inbox).1.1.wire
      (readLoopT newer po capR num c d tw inbox).1.2.1
      (readLoopT newer po capR num c d tw inbox).1.2.2 ∧
    (readLoopT newer po capR num c d tw inbox).1.2.1 +
      (readLoopT newer po capR num c d tw inbox).2.length = d + inbox.length
  | [], num, c, d, tw, h => by simp [readLoopT, readLoop, h]
  | e :: rest, num, c, d, tw, h => by
    by_cases hc : num < capR ∧ c.interrupt = false
    · obtain ⟨l, hl⟩ := reactAll_wire newer po c e
      have h' : TagInv (reactAll newer po c e).wire (d + 1)
          (tagNew c.wire (reactAll newer po c e).wire (d + 1) tw) := by
        rw [hl]; exact h.tagNew l (d + 1) (by omega)
      obtain ⟨a, b, c', d'⟩ := readLoopT_sim newer po capR rest (num + 1) _ (d + 1) _ h'
      simp only [readLoopT, readLoop, hc, and_self, if_true]
      refine ⟨a, b, c', ?_⟩
      rw [d', List.length_cons]; omega
    · simp [readLoopT, readLoop, hc, h]

theorem loopT_sim (newer po : Bool) (capW capR : Nat) : ∀ (fuel : Nat) (c : Conn) (d : Nat)
    (tw : List Tagged) (inbox : List PlayEv) (N : Nat), TagInv c.wire d tw → d + inbox.length = N →
    (loopT newer po capW capR fuel c d tw inbox).map (·.1) = loop newer po capW capR fuel c inbox ∧
    ∀ r, loopT newer po capW capR fuel c d tw inbox = some r → TagInv r.1.wire N r.2
  | 0, _, _, _, _, _, _, _ => ⟨rfl, fun _ h => by cases h⟩
  | fuel + 1, c, d, tw, inbox, N, h, hN => by
    have hup : TagInv c.wire N tw := ⟨h.fst, fun x hx => Nat.le_trans (h.le x hx) (by omega), h.mono⟩
    by_cases hi : c.interrupt = true
    · have e1 : loopT newer po capW capR (fuel + 1) c d tw inbox = some (c, tw) := by
        simp only [loopT]; rw [if_pos hi]
      have e2 : loop newer po capW capR (fuel + 1) c inbox = some c := by
        simp only [loop]; rw [if_pos hi]
      rw [e1, e2]
      exact ⟨rfl, fun r hr => by cases hr; exact hup⟩
    · by_cases hq : inbox = [] ∧ c.queue = []
      · have e1 : loopT newer po capW capR (fuel + 1) c d tw inbox = some (c, tw) := by
          simp only [loopT]; rw [if_neg hi, if_pos hq]
        have e2 : loop newer po capW capR (fuel + 1) c inbox = some c := by
          simp only [loop]; rw [if_neg hi, if_pos hq]
        rw [e1, e2]
        exact ⟨rfl, fun r hr => by cases hr; exact hup⟩
      · obtain ⟨l, hl⟩ := writeLoop_wire capW c.queue 0 c.wire
        have h1 : TagInv (writeLoop capW 0 c.queue c.wire).2.2 d
            (tagNew c.wire (writeLoop capW 0 c.queue c.wire).2.2 d tw) := by
          rw [hl]; exact h.tagNew l d (Nat.le_refl _)
        obtain ⟨a, b, c', d'⟩ := readLoopT_sim newer po capR inbox (writeLoop capW 0 c.queue c.wire).1
          { c with queue := (writeLoop capW 0 c.queue c.wire).2.1,
                   wire := (writeLoop capW 0 c.queue c.wire).2.2 } d _ h1
        have ih := loopT_sim newer po capW capR fuel _ _ _ _ N c' (by rw [d']; exact hN)
        simp only [loopT, loop]
        rw [if_neg hi, if_neg hq, if_neg hi, if_neg hq, ← a, ← b]
        exact ih

/-- **The instrumented run is the run.**  Whenever `runLoop` terminates so does `runT` (and vice
versa); forgetting the tags of `runT` gives `Result.wire`; every tag is at most the number of
packets of the stream, and the tags never decrease along the wire. -/
theorem runT_spec (newer po : Bool) (capW capR : Nat) (inbox : List PlayEv) (r : Result)
    (h : runLoop newer po capW capR inbox = some r) :
    ∃ tw, runT newer po capW capR inbox = some tw ∧ tw.map (·.1) = r.wire ∧
      (∀ x ∈ tw, x.2 ≤ inbox.length) ∧ tw.Pairwise fun a b => a.2 ≤ b.2 := by
  obtain ⟨hs, ht⟩ := loopT_sim newer po capW capR (2 * inbox.length + 1) Conn.init 0 [] inbox
    inbox.length TagInv.nil (by simp)
  unfold runLoop at h
  unfold runT
  cases hl : loop newer po capW capR (2 * inbox.length + 1) Conn.init inbox with
  | none => rw [hl] at h; cases h
  | some c =>
    rw [hl] at h hs
    cases hT : loopT newer po capW capR (2 * inbox.length + 1) Conn.init 0 [] inbox with
    | none => rw [hT] at hs; cases hs
    | some ct =>
      rw [hT] at hs
      have hc : ct.1 = c := by simpa using hs
      have inv := ht ct hT
      injection h with h
      subst h
      refine ⟨ct.2, rfl, ?_, inv.le, inv.mono⟩
      rw [inv.fst, hc]

/-! ## set compression: a reply is written after the packet it answers has been processed -/

/-- How many replies the first `n` events of `E` cause. -/
def repliesUpTo (newer : Bool) (E : List PlayEv) (n : Nat) : Nat :=
  ((E.take n).flatMap (replyTo newer)).length

/-- The entry at wire position `i + k` carries a tag `n` with `i + k < f n`. -/
def okTags (f : Nat → Nat) : Nat → List Tagged → Prop
  | _, [] => True
  | i, x :: r => i < f x.2 ∧ okTags f (i + 1) r

theorem okTags_append (f : Nat → Nat) : ∀ (a b : List Tagged) (i : Nat),
    okTags f i (a ++ b) ↔ okTags f i a ∧ okTags f (i + a.length) b
  | [], b, i => by simp [okTags]
  | x :: a, b, i => by
    simp only [List.cons_append, okTags, okTags_append f a b (i + 1), List.length_cons, and_assoc]
    have : i + 1 + a.length = i + (a.length + 1) := by omega
    rw [this]

theorem okTags_same (f : Nat → Nat) (n : Nat) : ∀ (l : List Reply) (i : Nat), i + l.length ≤ f n →
    okTags f i (l.map fun q => ((q, n) : Tagged))
  | [], _, _ => trivial
  | q :: l, i, h => by
    simp only [List.length_cons] at h
    show i < f n ∧ _
    exact ⟨by omega, okTags_same f n l (i + 1) (by omega)⟩

theorem okTags_get (f : Nat → Nat) : ∀ (tw : List Tagged) (i : Nat), okTags f i tw →
    ∀ (j : Nat) (hj : j < tw.length), i + j < f tw[j].2
  | [], _, _, j, hj => by simp at hj
  | x :: r, i, h, 0, _ => by simpa using h.1
  | x :: r, i, h, j + 1, hj => by
    have := okTags_get f r (i + 1) h.2 j (by simpa using hj)
    simp only [List.getElem_cons_succ]
    omega

theorem tagNew_fst (wire l : List Reply) (n : Nat) (tw : List Tagged) (h : tw.map (·.1) = wire) :
    (tagNew wire (wire ++ l) n tw).map (·.1) = wire ++ l := by
  have hdrop : (wire ++ l).drop wire.length = l := List.drop_left' rfl
  simp [tagNew, hdrop, h, Function.comp_def]

theorem okTags_tagNew (f : Nat → Nat) (wire l : List Reply) (n : Nat) (tw : List Tagged)
    (hfst : tw.map (·.1) = wire) (h : okTags f 0 tw) (hb : wire.length + l.length ≤ f n) :
    okTags f 0 (tagNew wire (wire ++ l) n tw) := by
  have hdrop : (wire ++ l).drop wire.length = l := List.drop_left' rfl
  have hlen : tw.length = wire.length := by rw [← hfst, List.length_map]
  simp only [tagNew, hdrop]
  rw [okTags_append]
  exact ⟨h, okTags_same f n l _ (by omega)⟩

theorem repliesUpTo_succ (newer : Bool) (pre : List PlayEv) (e : PlayEv) (rest : List PlayEv) :
    repliesUpTo newer (pre ++ e :: rest) (pre.length + 1) =
      repliesUpTo newer (pre ++ e :: rest) pre.length + (replyTo newer e).length := by
  have e0 : pre ++ e :: rest = (pre ++ [e]) ++ rest := by simp
  have e1 : (pre ++ e :: rest).take (pre.length + 1) = pre ++ [e] := by
    rw [e0]; exact List.take_left' (by simp)
  have e2 : (pre ++ e :: rest).take pre.length = pre := List.take_left' rfl
  simp [repliesUpTo, e1, e2]

theorem reactAll_len (newer po : Bool) (c : Conn) (e : PlayEv) :
    (reactAll newer po c e).wire.length + (reactAll newer po c e).queue.length ≤
      c.wire.length + c.queue.length + (replyTo newer e).length := by
  by_cases h : e = .disconnect
  · subst h
    cases c with
    | mk queue wire delivered spawned connected interrupt closed =>
      cases queue with
      | nil => cases closed <;> simp [reactAll, react, disconnect, replyTo]
      | cons p q =>
        cases closed
        · cases po <;> simp [reactAll, react, disconnect, replyTo] <;> omega
        · simp [reactAll, react, disconnect, replyTo]
  · simp [reactAll, react_ne_disc newer po c e h]; omega

/-- The read phase keeps "everything written or queued is caused by the packets processed so far", and
tags what `disconnect()` flushes accordingly. -/
theorem readLoopT_after (newer po : Bool) (capR : Nat) (E : List PlayEv) :
    ∀ (inbox : List PlayEv) (pre : List PlayEv) (d num : Nat) (c : Conn) (tw : List Tagged),
    pre ++ inbox = E → d = pre.length → tw.map (·.1) = c.wire →
    c.wire.length + c.queue.length ≤ repliesUpTo newer E d →
    okTags (repliesUpTo newer E) 0 tw →
    ∃ pre', pre' ++ (readLoopT newer po capR num c d tw inbox).2 = E ∧
      (readLoopT newer po capR num c d tw inbox).1.2.1 = pre'.length ∧
      (readLoopT newer po capR num c d tw inbox).1.1.wire.length +
        (readLoopT newer po capR num c d tw inbox).1.1.queue.length ≤
          repliesUpTo newer E (readLoopT newer po capR num c d tw inbox).1.2.1 ∧
      okTags (repliesUpTo newer E) 0 (readLoopT newer po capR num c d tw inbox).1.2.2 ∧
      (readLoopT newer po capR num c d tw inbox).1.2.2.map (·.1) =
        (readLoopT newer po capR num c d tw inbox).1.1.wire
  | [], pre, d, num, c, tw, hE, hd, hfst, hb, ht =>
    ⟨pre, by simpa [readLoopT] using hE, hd, hb, ht, hfst⟩
  | e :: rest, pre, d, num, c, tw, hE, hd, hfst, hb, ht => by
    by_cases hc : num < capR ∧ c.interrupt = false
    · obtain ⟨l, hl⟩ := reactAll_wire newer po c e
      have hlen := reactAll_len newer po c e
      have hsucc : repliesUpTo newer E (d + 1) =
          repliesUpTo newer E d + (replyTo newer e).length := by
        rw [← hE, hd]; exact repliesUpTo_succ newer pre e rest
      have hb' : (reactAll newer po c e).wire.length + (reactAll newer po c e).queue.length ≤
          repliesUpTo newer E (d + 1) := by rw [hsucc]; omega
      have hw : c.wire.length + l.length ≤ repliesUpTo newer E (d + 1) := by
        have : (reactAll newer po c e).wire.length = c.wire.length + l.length := by
          rw [hl, List.length_append]
        omega
      have ht' : okTags (repliesUpTo newer E) 0
          (tagNew c.wire (reactAll newer po c e).wire (d + 1) tw) := by
        rw [hl]; exact okTags_tagNew _ c.wire l _ tw hfst ht hw
      have hfst' : (tagNew c.wire (reactAll newer po c e).wire (d + 1) tw).map (·.1) =
          (reactAll newer po c e).wire := by
        rw [hl]; exact tagNew_fst c.wire l _ tw hfst
      have ih := readLoopT_after newer po capR E rest (pre ++ [e]) (d + 1) (num + 1)
        (reactAll newer po c e) _ (by rw [← hE]; simp) (by simp [hd]) hfst' hb' ht'
      have hstep : readLoopT newer po capR num c d tw (e :: rest) =
          readLoopT newer po capR (num + 1) (reactAll newer po c e) (d + 1)
            (tagNew c.wire (reactAll newer po c e).wire (d + 1) tw) rest := by
        simp only [readLoopT]; rw [if_pos hc]
      rw [hstep]
      exact ih
    · have hstep : readLoopT newer po capR num c d tw (e :: rest) = ((c, d, tw), e :: rest) := by
        simp only [readLoopT]; rw [if_neg hc]
      rw [hstep]
      exact ⟨pre, hE, hd, hb, ht, hfst⟩

/-- The whole instrumented loop: every tag `n` at wire position `j` satisfies
`j < repliesUpTo newer E n`. -/
theorem loopT_after (newer po : Bool) (capW capR : Nat) (E : List PlayEv) :
    ∀ (fuel : Nat) (c : Conn) (pre : List PlayEv) (d : Nat) (tw : List Tagged) (inbox : List PlayEv),
    pre ++ inbox = E → d = pre.length → tw.map (·.1) = c.wire →
    c.wire.length + c.queue.length ≤ repliesUpTo newer E d →
    okTags (repliesUpTo newer E) 0 tw →
    ∀ r, loopT newer po capW capR fuel c d tw inbox = some r → okTags (repliesUpTo newer E) 0 r.2
  | 0, _, _, _, _, _, _, _, _, _, _, _, h => by cases h
  | fuel + 1, c, pre, d, tw, inbox, hE, hd, hfst, hb, ht, r, hr => by
    by_cases hi : c.interrupt = true
    · have e1 : loopT newer po capW capR (fuel + 1) c d tw inbox = some (c, tw) := by
        simp only [loopT]; rw [if_pos hi]
      rw [e1] at hr; cases hr; exact ht
    · by_cases hq : inbox = [] ∧ c.queue = []
      · have e1 : loopT newer po capW capR (fuel + 1) c d tw inbox = some (c, tw) := by
          simp only [loopT]; rw [if_neg hi, if_pos hq]
        rw [e1] at hr; cases hr; exact ht
      · obtain ⟨l, hl⟩ := writeLoop_wire capW c.queue 0 c.wire
        obtain ⟨ws, -, -, -⟩ := writeLoop_spec capW 0 c.queue c.wire
        have hsum : (writeLoop capW 0 c.queue c.wire).2.2.length +
            (writeLoop capW 0 c.queue c.wire).2.1.length = c.wire.length + c.queue.length := by
          rw [← List.length_append, ws, List.length_append]
        have hw : c.wire.length + l.length ≤ repliesUpTo newer E d := by
          have : (writeLoop capW 0 c.queue c.wire).2.2.length = c.wire.length + l.length := by
            rw [hl, List.length_append]
          omega
        have ht1 : okTags (repliesUpTo newer E) 0
            (tagNew c.wire (writeLoop capW 0 c.queue c.wire).2.2 d tw) := by
          rw [hl]; exact okTags_tagNew _ c.wire l d tw hfst ht hw
        have hfst1 : (tagNew c.wire (writeLoop capW 0 c.queue c.wire).2.2 d tw).map (·.1) =
            (writeLoop capW 0 c.queue c.wire).2.2 := by
          rw [hl]; exact tagNew_fst c.wire l d tw hfst
        obtain ⟨pre', p1, p2, p3, p4, p5⟩ := readLoopT_after newer po capR E inbox pre d
          (writeLoop capW 0 c.queue c.wire).1
          { c with queue := (writeLoop capW 0 c.queue c.wire).2.1,
                   wire := (writeLoop capW 0 c.queue c.wire).2.2 } _ hE hd hfst1
          (by show (writeLoop capW 0 c.queue c.wire).2.2.length +
                (writeLoop capW 0 c.queue c.wire).2.1.length ≤ _; omega) ht1
        simp only [loopT] at hr
        rw [if_neg hi, if_neg hq] at hr
        exact loopT_after newer po capW capR E fuel _ pre' _ _ _ p1 p2 p5 p3 p4 r hr

theorem repliesUpTo_mono (newer : Bool) (E : List PlayEv) {a b : Nat} (h : a ≤ b) :
    repliesUpTo newer E a ≤ repliesUpTo newer E b := by
  unfold repliesUpTo
  have e : E.take b = (E.take b).take a ++ (E.take b).drop a := (List.take_append_drop a _).symm
  have e2 : (E.take b).take a = E.take a := by rw [List.take_take, Nat.min_eq_left h]
  rw [e, e2, List.flatMap_append, List.length_append]
  omega

theorem repliesUpTo_inboxOf (P : Profile) (pkts : List SrvPkt) (n : Nat) :
    repliesUpTo P.newer107 (inboxOf pkts) n =
      ((pkts.take n).flatMap fun p => replyTo P.newer107 p.ev).length := by
  unfold repliesUpTo inboxOf
  rw [← List.map_take, List.flatMap_map]
  congr 2
  funext p
  exact replyTo_asSeen _ _

/-- **A reply is written after the packet it answers has been processed**: the tag `n` of the reply
at wire position `j` satisfies `j < repliesUpTo inbox n` — the first `n` packets cause more than `j`
replies. -/
theorem runT_after (newer po : Bool) (capW capR : Nat) (inbox : List PlayEv) (tw : List Tagged)
    (h : runT newer po capW capR inbox = some tw) :
    ∀ (j : Nat) (hj : j < tw.length), j < repliesUpTo newer inbox tw[j].2 := by
  unfold runT at h
  cases hT : loopT newer po capW capR (2 * inbox.length + 1) Conn.init 0 [] inbox with
  | none => rw [hT] at h; cases h
  | some ct =>
    rw [hT] at h
    have : ct.2 = tw := by simpa using h
    subst this
    have hok := loopT_after newer po capW capR inbox (2 * inbox.length + 1) Conn.init [] 0 [] inbox
      rfl rfl rfl (by simp [Conn.init]) trivial ct hT
    intro j hj
    have := okTags_get _ ct.2 0 hok j hj
    omega

/-! ## set compression: the written chunks and the reference server, a threshold per frame -/

theorem sendsT_flatten (z : ZlibOps) (fields : Reply → Nat × Bytes) :
    ∀ l : List (Reply × Option Int),
      (l.flatMap fun qt => sendsWith z qt.2 fields qt.1).flatten =
        (l.map fun qt => frameWith z qt.2 fields qt.1).flatten
  | [] => rfl
  | qt :: rest => by
    simp only [List.flatMap_cons, List.flatten_append, List.map_cons, List.flatten_cons,
      sendsT_flatten z fields rest]
    congr 1
    exact frameSends_flatten' z qt.2 _

/-- Whatever the chunking into `send` calls and whatever the thresholds, the socket is handed ONE
cipher stream over the concatenated frames. -/
theorem wireWithT_flatten {τ : Type} (z : ZlibOps) (enc : StreamXform τ) (t0 : τ)
    (fields : Reply → Nat × Bytes) (l : List (Reply × Option Int)) :
    (wireWithT z enc t0 fields l).flatten =
      (enc.update t0 (l.map fun qt => frameWith z qt.2 fields qt.1).flatten).2 := by
  unfold wireWithT
  rw [encSends_flatten, sendsT_flatten]

/-- One threshold for all replies is the old writer. -/
theorem wireWithT_const {τ : Type} (z : ZlibOps) (thr : Option Int) (enc : StreamXform τ) (t0 : τ)
    (fields : Reply → Nat × Bytes) (replies : List Reply) :
    wireWithT z enc t0 fields (replies.map fun q => (q, thr)) = wireWith z thr enc t0 fields replies := by
  unfold wireWithT wireWith
  rw [List.flatMap_map]

/-- `readFramesM` on a byte string. -/
def parseFramesM (z : ZlibOps) : List Bool → Bool → Bytes → List (Nat × Bytes) × Err
  | [], last, bs => parseAll z last bs
  | c :: cs, _, bs =>
    match parsePacket z c bs with
    | .error e => ([], e)
    | .ok (p, rest) => (p :: (parseFramesM z cs c rest).1, (parseFramesM z cs c rest).2)

theorem readFramesM_spec {τ : Type} (dec : StreamXform τ) (z : ZlibOps) :
    ∀ (modes : List Bool) (last : Bool) (k : Sock τ),
      readFramesM dec z modes last k = parseFramesM z modes last (ahead dec k)
  | [], last, k => by simp only [readFramesM, parseFramesM, readAllK_spec]
  | c :: cs, last, k => by
    have hp := readPacketK_spec dec z c k
    simp only [readFramesM, parseFramesM]
    cases hd : parsePacket z c (ahead dec k) with
    | error e =>
      obtain ⟨k1, e1⟩ := hp.2 e hd
      simp only [e1]
    | ok pr =>
      obtain ⟨p, rest⟩ := pr
      obtain ⟨k1, e1, e2⟩ := hp.1 p rest hd
      simp only [e1, readFramesM_spec dec z cs c k1, e2]

/-- Frames written under changing thresholds are read back by a reader that is told, frame by frame,
whether a threshold was in force; then end of stream (whatever the flag for "the rest"). -/
theorem parseFramesM_frames (z : Zlib) : ∀ (l : List ((Nat × Bytes) × Option Int)) (last : Bool),
    (∀ x ∈ l, FrameOK z.toZlibOps x.2 x.1) →
    parseFramesM z.toZlibOps (l.map (·.2.isSome)) last
        (l.map fun x => packetFrame z.toZlibOps x.2 x.1).flatten = (l.map (·.1), .eof)
  | [], last, _ => by simp [parseFramesM, parseAll_nil]
  | x :: rest, last, h => by
    simp only [List.map_cons, List.flatten_cons, parseFramesM,
      parsePacket_packetFrame z x.2 x.1 _ (h x (by simp)),
      parseFramesM_frames z rest x.2.isSome fun y hy => h y (by simp [hy])]

/-- The reference server on the client's chunks, a threshold per reply. -/
theorem serverDecodeRepliesM_wire {τ : Type} (cp : CipherPair τ) (t0 : τ) (z : Zlib) (P : Profile)
    (hSb : P.sbDistinct = true) (l : List (Reply × Option Int))
    (hwf : ∀ qt ∈ l, replyWf P qt.1 = true)
    (hok : ∀ qt ∈ l, FrameOK z.toZlibOps qt.2 (replyFields P qt.1)) (last : Bool) (segs : Segs)
    (hseg : segs.flatten = (clientWireT z.toZlibOps P cp.enc t0 l).flatten) :
    serverDecodeRepliesM P cp.dec t0 z.toZlibOps (l.map (·.2.isSome)) last segs =
      (l.map (·.1), .eof) := by
  have hfr : (l.map fun qt => frameWith z.toZlibOps qt.2 (replyFields P) qt.1) =
      ((l.map fun qt => (replyFields P qt.1, qt.2)).map fun x => packetFrame z.toZlibOps x.2 x.1) := by
    rw [List.map_map]; rfl
  have hmodes : l.map (·.2.isSome) = (l.map fun qt => (replyFields P qt.1, qt.2)).map (·.2.isSome) := by
    rw [List.map_map]; rfl
  have hr : readFramesM cp.dec z.toZlibOps (l.map (·.2.isSome)) last (Sock.enc t0 segs) =
      (l.map fun qt => replyFields P qt.1, .eof) := by
    rw [readFramesM_spec, ahead_enc, hseg, clientWireT, wireWithT_flatten, (cp.inv t0 _).1, hfr,
      hmodes, parseFramesM_frames z _ last (fun x hx => by
        obtain ⟨qt, hq, rfl⟩ := List.mem_map.mp hx
        exact hok qt hq), List.map_map]
    rfl
  unfold serverDecodeRepliesM
  rw [hr]
  have := decodeEach_map (serverDecode P) (fun qt : Reply × Option Int => replyFields P qt.1)
    (fun qt => qt.1) .eof l fun qt hq => serverDecode_replyFields P hSb qt.1 (hwf qt hq)
  exact this

/-! ## streams without set compression: one threshold, the old vocabulary -/

theorem thrAfter_quiet (thr : Option Int) (p : SrvPkt) (h : p.isSetCompression = false) :
    p.thrAfter thr = thr := by
  cases p <;> simp_all [SrvPkt.thrAfter, SrvPkt.isSetCompression]

theorem thrAt_quiet (thr : Option Int) : ∀ (pkts : List SrvPkt),
    (∀ p ∈ pkts, p.isSetCompression = false) → ∀ n, thrAt thr pkts n = thr
  | [], _, n => by simp [thrAt]
  | p :: ps, h, 0 => by simp [thrAt]
  | p :: ps, h, n + 1 => by
    have ih := thrAt_quiet thr ps (fun q hq => h q (by simp [hq])) n
    simp only [thrAt, List.take_succ_cons, List.foldl_cons,
      thrAfter_quiet thr p (h p (by simp))] at ih ⊢
    exact ih

/-- The threshold in force at any position is the initial one or the one of a set-compression packet
of the stream. -/
theorem thrAt_cases (thr : Option Int) : ∀ (pkts : List SrvPkt) (n : Nat),
    thrAt thr pkts n = thr ∨ ∃ t, SrvPkt.setCompression t ∈ pkts ∧ thrAt thr pkts n = some (t : Int)
  | [], n => by simp [thrAt]
  | p :: ps, 0 => by simp [thrAt]
  | p :: ps, n + 1 => by
    have e : thrAt thr (p :: ps) (n + 1) = thrAt (p.thrAfter thr) ps n := by
      simp [thrAt, List.take_succ_cons]
    rw [e]
    rcases thrAt_cases (p.thrAfter thr) ps n with h | ⟨t, ht, h⟩
    · rw [h]
      cases p with
      | setCompression t => exact .inr ⟨t, by simp, rfl⟩
      | _ => exact .inl rfl
    · exact .inr ⟨t, by simp [ht], h⟩

theorem serverFrames_quiet (z : ZlibOps) (thr : Option Int) (P : Profile) : ∀ (pkts : List SrvPkt),
    (∀ p ∈ pkts, p.isSetCompression = false) →
    serverFrames z P thr pkts = pkts.map fun p => packetFrame z thr (serverFields P p)
  | [], _ => rfl
  | p :: ps, h => by
    simp only [serverFrames, List.map_cons, thrAfter_quiet thr p (h p (by simp)),
      serverFrames_quiet z thr P ps fun q hq => h q (by simp [hq])]

theorem serverOK_quiet (z : ZlibOps) (thr : Option Int) (P : Profile) : ∀ (pkts : List SrvPkt),
    (∀ p ∈ pkts, p.isSetCompression = false) →
    (ServerOK z P thr pkts ↔ ∀ p ∈ pkts, FrameOK z thr (serverFields P p))
  | [], _ => by simp [ServerOK]
  | p :: ps, h => by
    simp only [ServerOK, thrAfter_quiet thr p (h p (by simp)),
      serverOK_quiet z thr P ps (fun q hq => h q (by simp [hq])), List.mem_cons, forall_eq_or_imp]

theorem thrTags_quiet (thr : Option Int) (pkts : List SrvPkt)
    (h : ∀ p ∈ pkts, p.isSetCompression = false) (tw : List Tagged) :
    thrTags thr pkts tw = (tw.map (·.1)).map fun q => (q, thr) := by
  unfold thrTags
  rw [List.map_map]
  apply List.map_congr_left
  intro qn _
  simp [thrAt_quiet thr pkts h]

/-! ## concrete parameters for the non-vacuity examples and the negative witness -/

/-- Protocol 757 (1.18): Long keep-alive, teleport id + confirm, dismount flag. -/
def p757 : Profile :=
  { kaCb := 0x21, kaSb := 0x0F, posLookCb := 0x38, teleportConfirmSb := 0x00, posLookSb := 0x12,
    disconnectCb := 0x1A, kaLong := true, newer107 := true, dismount := true,
    others := [(0x0F, "chat message")] }

/-- Protocol 47 (1.8): VarInt keep-alive, no teleport id, position echo; keep-alive and the (unused)
teleport-confirm id are both 0x00; the play table has "set compression" under 0x46. -/
def p47 : Profile :=
  { kaCb := 0x00, kaSb := 0x00, posLookCb := 0x08, teleportConfirmSb := 0x00, posLookSb := 0x06,
    disconnectCb := 0x40, kaLong := false, newer107 := false, dismount := false,
    others := [(0x02, "chat message")], setCompressionCb := some 0x46 }

/-- keep-alive −2 (as a signed Long), position (10.0, 64.0, −3.0) yaw 90.0 pitch 0.0 teleport id 7,
an unknown packet, a chat message, keep-alive 2, disconnect, and a keep-alive that is never
answered. -/
def demo757 : List SrvPkt :=
  [.keepAlive 0xFFFFFFFFFFFFFFFE,
   .posLook 0x4024000000000000 0x4050000000000000 0xC008000000000000 0x42B40000 0 0 7 false,
   .unknown 0x7E [0xaa], .other 0x0F "chat message" [0x02, 0x7b, 0x7d, 0x00],
   .keepAlive 2, .disconnect "{}", .keepAlive 3]

/-- The same for protocol 47; the first keep-alive id is the Java int −2 as the server's VarInt
writer emits it (five bytes), which this library reads as 2^32 − 2. -/
def demo47 : List SrvPkt :=
  [.keepAlive 0xFFFFFFFE,
   .posLook 0x4024000000000000 0x4050000000000000 0xC008000000000000 0x42B40000 0x3F800000 0 0 false,
   .unknown 0x7E [0xaa], .other 0x02 "chat message" [0x02, 0x7b, 0x7d, 0x00],
   .keepAlive 2, .disconnect "{}", .keepAlive 3]

/-- Protocol 47 with compression switched in the play state: keep-alive 1, SET COMPRESSION 20,
position-and-look, keep-alive 2, SET COMPRESSION 1000, keep-alive 3, disconnect. -/
def demo47sc : List SrvPkt :=
  [.keepAlive 1, .setCompression 20,
   .posLook 0x4024000000000000 0x4050000000000000 0xC008000000000000 0x42B40000 0x3F800000 0 0 false,
   .keepAlive 2, .setCompression 1000, .keepAlive 3, .disconnect "{}"]

/-- The tagged replies of a run with the given caps. -/
def demoRunT (P : Profile) (capW capR : Nat) (pkts : List SrvPkt) : List Tagged :=
  (runT P.newer107 true capW capR (inboxOf pkts)).getD []

/-- A toy block function (one output byte depending on the whole register). -/
def toyE : Bytes → Bytes := fun r => [r.foldl (fun a b => 3 * a + b) 7]

/-- Threshold 20: the position echo (34 bytes) takes the `compress` branch, the rest does not. -/
def demoThr : Option Int := some 20

/-- The replies of the run with the real caps. -/
def demoRun (P : Profile) (pkts : List SrvPkt) : List Reply :=
  match runLoop P.newer107 true 300 50 (inboxOf pkts) with
  | some r => r.wire
  | none => []

/-- The client's bytes for `replies` written with the field writer `fields`: store-only zlib,
threshold 20, CFB8 over `toyE` from register `[1, 2, 3]`. -/
def demoWire (fields : Reply → Nat × Bytes) (replies : List Reply) : Bytes :=
  (wireWith Zlib.ident.toZlibOps demoThr (cfb8EncX toyE) [1, 2, 3] fields replies).flatten

/-- The reference server of the examples on one arrival. -/
def demoServer (P : Profile) (w : Bytes) : List Reply × Err :=
  serverDecodeReplies P (cfb8DecX toyE) [1, 2, 3] Zlib.ident.toZlibOps true [w]

end PyCraft.PlayWire
