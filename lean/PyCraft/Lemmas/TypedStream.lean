import PyCraft.Model.TypedStream
import PyCraft.Lemmas.Custom
import PyCraft.Lemmas.Layout
/-!
Helper lemmas for `Props/C05Stream.lean`: Bool checkers making the domain predicates of
`Model/Wire.lean` / `Model/Layout.lean` decidable for the real custom codecs, and the bookkeeping
that turns per-packet facts into facts about `writeTypedAll` and `zipWith decodeTyped`.
-/
namespace PyCraft

/-! ### deciding `WellTyped realDom` / `WellTypedFields realDom` -/

/-- Bool checker for `WellTyped realDom` (same cases, same order). -/
def wellTypedB : WType → Value → Bool
  | .bool, .bool _ => true
  | .int t, .int v => decide (t.inDom v)
  | .varint, .int v => decide (0 ≤ v ∧ v < 2 ^ 32)
  | .varlong, .int v => decide (0 ≤ v ∧ v < 2 ^ 64)
  | .string, .str s => decide ((utf8 s).length < 2 ^ 31)
  | .uuid, .bytes b => decide (b.length = 16)
  | .angle, .int v => decide (0 ≤ v ∧ v < 256)
  | .fixed base _, .int v => decide (base.inDom v)
  | .bytesVarint, .bytes b => decide (b.length < 2 ^ 31)
  | .bytesShort, .bytes b => decide (b.length < 2 ^ 15)
  | .trailing, .bytes _ => true
  | .array lt t, .list vs =>
    (match lt with
      | .varint => decide (vs.length < 2 ^ 31) | .i32 => decide (vs.length < 2 ^ 31)
      | .i16 => decide (vs.length < 2 ^ 15) | .u8 => decide (vs.length < 2 ^ 8)) &&
    vs.all (wellTypedB t)
  | .custom c, v => decide (realDom c v)
  | _, _ => false

theorem wellTypedB_iff : ∀ (t : WType) (v : Value),
    wellTypedB t v = true ↔ WellTyped realDom t v := by
  intro t
  induction t with
  | array lt t ih =>
    intro v
    cases v <;> try (simp [wellTypedB, WellTyped]; done)
    cases lt <;> simp [wellTypedB, WellTyped, ih]
  | _ => intro v; cases v <;> simp [wellTypedB, WellTyped]

instance (t : WType) (v : Value) : Decidable (WellTyped realDom t v) :=
  decidable_of_iff _ (wellTypedB_iff t v)

/-- Bool checker for `WellTypedFields realDom`. -/
def wellTypedFieldsB : Layout → List Value → Bool
  | [], [] => true
  | (_, t) :: L, v :: vs => wellTypedB t v && wellTypedFieldsB L vs
  | _, _ => false

theorem wellTypedFieldsB_iff : ∀ (L : Layout) (vs : List Value),
    wellTypedFieldsB L vs = true ↔ WellTypedFields realDom L vs := by
  intro L
  induction L with
  | nil => intro vs; cases vs <;> simp [wellTypedFieldsB, WellTypedFields]
  | cons f L ih =>
    intro vs
    obtain ⟨n, t⟩ := f
    cases vs with
    | nil => simp [wellTypedFieldsB, WellTypedFields]
    | cons v vs => simp [wellTypedFieldsB, WellTypedFields, ih, wellTypedB_iff]

instance (L : Layout) (vs : List Value) : Decidable (WellTypedFields realDom L vs) :=
  decidable_of_iff _ (wellTypedFieldsB_iff L vs)

instance (z : ZlibOps) (thr : Option Int) (p : TPacket) : Decidable (TypedOK z thr p) := by
  unfold TypedOK
  cases encodeFields realCustom p.layout p.vals <;> exact inferInstance

/-! ### from packets to the framed stream and back -/

/-- what the reader's `read_packet` should deliver for `p`: the id and the field bytes -/
def rawOf (cc : CustomCodec) (p : TPacket) : Nat × Bytes :=
  (p.id, match encodeFields cc p.layout p.vals with
    | .ok b => b
    | .error _ => [])

theorem rawOf_of_ok (cc : CustomCodec) (p : TPacket) (b : Bytes)
    (h : encodeFields cc p.layout p.vals = .ok b) : rawOf cc p = (p.id, b) := by
  simp [rawOf, h]

theorem writeTyped_of_ok (cc : CustomCodec) (z : ZlibOps) (thr : Option Int) (p : TPacket)
    (b : Bytes) (h : encodeFields cc p.layout p.vals = .ok b) :
    writeTyped cc z thr p = .ok (packetFrame z thr (rawOf cc p)) := by
  rw [rawOf_of_ok cc p b h]
  simp [writeTyped, h, bind, Except.bind, pure, Except.pure]

theorem writeTypedAll_of_ok (cc : CustomCodec) (z : ZlibOps) (thr : Option Int) :
    ∀ ps : List TPacket, (∀ p ∈ ps, ∃ b, encodeFields cc p.layout p.vals = .ok b) →
      writeTypedAll cc z thr ps = .ok ((ps.map (rawOf cc)).map (packetFrame z thr)).flatten := by
  intro ps
  induction ps with
  | nil => intro _; rfl
  | cons p ps ih =>
    intro h
    obtain ⟨b, hb⟩ := h p (by simp)
    simp only [writeTypedAll, writeTyped_of_ok cc z thr p b hb,
      ih (fun q hq => h q (by simp [hq])), bind, Except.bind, pure, Except.pure]
    simp

theorem zipWith_decodeTyped (cc : CustomCodec) : ∀ ps : List TPacket,
    (∀ p ∈ ps, decodeFields cc p.layout (rawOf cc p).2 = .ok (p.vals, [])) →
      List.zipWith (decodeTyped cc) (ps.map (·.layout)) (ps.map (rawOf cc)) =
        ps.map fun p => (p.id, .ok (p.vals, [])) := by
  intro ps
  induction ps with
  | nil => intro _; rfl
  | cons p ps ih =>
    intro h
    simp only [List.map_cons, List.zipWith_cons_cons, ih (fun q hq => h q (by simp [hq]))]
    congr 1
    simp only [decodeTyped, h p (by simp)]
    rfl

theorem filterMap_decodeTyped (cc : CustomCodec) (table : Nat → Option Layout) :
    ∀ ps : List TPacket, (∀ p ∈ ps, table p.id = some p.layout) →
      (∀ p ∈ ps, decodeFields cc p.layout (rawOf cc p).2 = .ok (p.vals, [])) →
      (ps.map (rawOf cc)).filterMap (fun raw => (table raw.1).map fun L => decodeTyped cc L raw) =
        ps.map fun p => (p.id, .ok (p.vals, [])) := by
  intro ps
  induction ps with
  | nil => intro _ _; rfl
  | cons p ps ih =>
    intro ht h
    have h1 : table (rawOf cc p).1 = some p.layout := ht p (by simp)
    simp only [List.map_cons, List.filterMap_cons, h1, Option.map_some,
      ih (fun q hq => ht q (by simp [hq])) (fun q hq => h q (by simp [hq]))]
    congr 1
    simp only [decodeTyped, h p (by simp)]
    rfl

/-- what `TypedOK` gives for one packet -/
theorem typedOK_facts (z : ZlibOps) (thr : Option Int) (p : TPacket) (h : TypedOK z thr p) :
    encodeFields realCustom p.layout p.vals = .ok (rawOf realCustom p).2 ∧
    decodeFields realCustom p.layout (rawOf realCustom p).2 = .ok (p.vals, []) ∧
    FrameOK z thr (rawOf realCustom p) := by
  obtain ⟨h1, h2, h3⟩ := h
  obtain ⟨b, hb, hd⟩ := fields_exact realCustomLaw p.layout p.vals h1 h2
  rw [hb] at h3
  rw [rawOf_of_ok realCustom p b hb]
  exact ⟨hb, hd, h3⟩

end PyCraft
