import PyCraft.Model.C04Codec
import PyCraft.Lemmas.Position
import PyCraft.Lemmas.VersionsCheck
import PyCraft.Generated.Versions
import PyCraft.Generated.C04Codec
/-!
Helper lemmas for `Props/C04Codec.lean`: the version-indexed codecs of `Model/C04Codec.lean`
reduce to the flag-indexed codecs of `Model/Position.lean` once the outcome of the method's own
version test is known; mismatching flags do not round-trip (concrete witnesses); a linear-time
checker for "the flags of a table are the outcome of `protocol_later_eq thr`".
-/
namespace PyCraft.C04Codec
open PyCraft

/-! ### the versioned codecs in terms of the flag codecs -/

theorem posReadAt_eq (thr : Nat) (t : Tables) (v : Nat) (b : Bool) (bs : Bytes)
    (h : laterEq t v thr = .ok b) : posReadAt thr t v bs = decPos b bs := by
  unfold posReadAt decPos
  cases readU64 bs with
  | error e => rfl
  | ok p =>
    obtain ⟨location, rest⟩ := p
    simp only [h]
    cases b <;> simp

theorem posSendAt_eq (thr : Nat) (t : Tables) (v : Nat) (b : Bool) (x y z : Int)
    (h : laterEq t v thr = .ok b) : posSendAt thr t v x y z = encPos b x y z := by
  simp only [posSendAt, h]

theorem recReadAt_eq (thr : Nat) (t : Tables) (v : Nat) (b : Bool) (bs : Bytes)
    (h : laterEq t v thr = .ok b) : recReadAt thr t v bs = decRecord b bs := by
  simp only [recReadAt, h]

theorem recSendAt_eq (thr : Nat) (t : Tables) (v : Nat) (b : Bool) (x y z bsid : Int)
    (h : laterEq t v thr = .ok b) : recSendAt thr t v x y z bsid = encRecord b x y z bsid := by
  simp only [recSendAt, h]

/-- the reader consumes its 8 bytes before it looks at the version -/
theorem posReadAt_short (thr : Nat) (t : Tables) (v : Nat) (bs : Bytes) (h : bs.length < 8) :
    posReadAt thr t v bs = .error .struct := by
  simp only [posReadAt, Pos.readU64_short bs h]

theorem posReadAt_undefined (thr : Nat) (t : Tables) (v : Nat) (e : Err) (w rest : Bytes)
    (hw : w.length = 8) (h : laterEq t v thr = .error e) :
    posReadAt thr t v (w ++ rest) = .error e := by
  simp only [posReadAt, Pos.readU64_append w rest hw, h]

/-! ### mismatching layouts do not round-trip -/

/-- The position (1, 2, 3) written in one layout and read in the other does not come back. -/
theorem pos_cross (b : Bool) (w : Bytes) (h : encPos b 1 2 3 = .ok w) :
    decPos (!b) (w ++ []) ≠ .ok ((1, 2, 3), []) := by
  cases b
  · have e : encPos false 1 2 3 = .ok [0, 0, 0, 64, 8, 0, 0, 3] := by decide +kernel
    rw [e] at h; cases h; decide +kernel
  · have e : encPos true 1 2 3 = .ok [0, 0, 0, 64, 0, 0, 48, 2] := by decide +kernel
    rw [e] at h; cases h; decide +kernel

/-- The record (1, 2, 3, 5) written in one format and read in the other does not come back. -/
theorem rec_cross (b : Bool) (w : Bytes) (h : encRecord b 1 2 3 5 = .ok w) :
    decRecord (!b) (w ++ []) ≠ .ok ((1, 2, 3, 5), []) := by
  cases b
  · have e : encRecord false 1 2 3 5 = .ok [0x13, 0x02, 0x05] := by decide +kernel
    rw [e] at h; cases h; decide +kernel
  · have e : encRecord true 1 2 3 5 = .ok [0xb2, 0xa2, 0x01] := by decide +kernel
    rw [e] at h; cases h; decide +kernel

/-! ### a linear-time check of "flag = outcome of `protocol_later_eq thr`" for a whole table

`laterEq t v thr` looks `thr` and `v` up in the index dict from its head, so evaluating it for each
of the 369 rows is quadratic.  The tables are in the order of the index dict, so one lock-step walk
suffices; `switchOk_sound` turns the walk into the statement about `laterEq`. -/

/-- rows and index entries side by side: same version, and both flags say "index ≥ j" -/
def switchCheck (j : Nat) : List (Nat × Nat) → List (Nat × Nat × Nat) → Bool
  | [], [] => true
  | (p, i) :: idx, (v, e, d) :: tab =>
    p == v && ((e == 1) == decide (j ≤ i)) && ((d == 1) == decide (j ≤ i)) && switchCheck j idx tab
  | _, _ => false

/-- `thr` has an index `j`, and the table passes the lock-step walk against the index dict -/
def switchOk (t : Tables) (thr : Nat) (tab : List (Nat × Nat × Nat)) : Bool :=
  match index t thr with
  | some j => switchCheck j t.indices tab
  | none => false

theorem switchCheck_sound (j : Nat) (idx : List (Nat × Nat)) (tab : List (Nat × Nat × Nat))
    (h : switchCheck j idx tab = true) :
    ∀ r ∈ tab, ∃ i, (r.1, i) ∈ idx ∧ (r.2.1 == 1) = decide (j ≤ i) ∧
      (r.2.2 == 1) = decide (j ≤ i) := by
  induction idx generalizing tab with
  | nil =>
    cases tab with
    | nil => intro r hr; cases hr
    | cons a tab => simp [switchCheck] at h
  | cons pi idx ih =>
    cases tab with
    | nil => simp [switchCheck] at h
    | cons a tab =>
      obtain ⟨p, i⟩ := pi
      obtain ⟨v, e, d⟩ := a
      simp only [switchCheck, Bool.and_eq_true, beq_iff_eq] at h
      obtain ⟨⟨⟨hpv, he⟩, hd⟩, hrest⟩ := h
      intro r hr
      rcases List.mem_cons.1 hr with rfl | hr
      · exact ⟨i, by simp [hpv], he, hd⟩
      · obtain ⟨i', hm, h1, h2⟩ := ih tab hrest r hr
        exact ⟨i', List.mem_cons_of_mem _ hm, h1, h2⟩

theorem switchOk_sound (t : Tables) (hnd : (t.indices.map (·.1)).Nodup) (thr : Nat)
    (tab : List (Nat × Nat × Nat)) (h : switchOk t thr tab = true) :
    ∀ r ∈ tab, laterEq t r.1 thr = .ok (r.2.1 == 1) ∧ laterEq t r.1 thr = .ok (r.2.2 == 1) := by
  unfold switchOk at h
  cases hj : index t thr with
  | none => simp [hj] at h
  | some j =>
    simp only [hj] at h
    intro r hr
    obtain ⟨i, hm, h1, h2⟩ := switchCheck_sound j t.indices tab h r hr
    have hi : index t r.1 = some i := (mem_iff_odGet t.indices hnd r.1 i).1 hm
    have hl : laterEq t r.1 thr = .ok (decide (j ≤ i)) := by
      simp only [laterEq, earlierEq, indexE, hj, hi]; rfl
    exact ⟨by rw [hl, h1], by rw [hl, h2]⟩

/-- the index dict of the live tables has distinct keys (it is a `dict`) -/
theorem live_indices_nodup : (liveTables.indices.map (·.1)).Nodup := by
  -- `List.Nodup`'s own decision procedure needs ~20 s in the kernel for 369 keys; the verified fast
  -- `fdedup` of `Lemmas/VersionsCheck.lean` (`Nat.beq` on literals) needs a fraction of a second
  have h : fdedup (liveTables.indices.map (·.1)) = liveTables.indices.map (·.1) := by
    decide +kernel
  have := nodup_dedup (liveTables.indices.map (·.1))
  rwa [← fdedup_eq, h] at this

/-- a row of a table whose version column is the known-version list is about a known version -/
theorem row_known {tab : List (Nat × Nat × Nat)} (h : tab.map (·.1) = liveTables.knownProtocols)
    (r : Nat × Nat × Nat) (hr : r ∈ tab) : r.1 ∈ liveTables.knownProtocols :=
  h ▸ List.mem_map_of_mem hr

/-- … and every known version has a row -/
theorem known_row {tab : List (Nat × Nat × Nat)} (h : tab.map (·.1) = liveTables.knownProtocols)
    (v : Nat) (hv : v ∈ liveTables.knownProtocols) : ∃ e d, (v, e, d) ∈ tab := by
  rw [← h, List.mem_map] at hv
  obtain ⟨⟨v', e, d⟩, hm, rfl⟩ := hv
  exact ⟨e, d, hm⟩

end PyCraft.C04Codec
