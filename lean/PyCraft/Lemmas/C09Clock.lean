import PyCraft.Model.C09Clock
/-!
Helper lemmas and specification vocabulary for `Props/C09Clock.lean`.
-/
namespace PyCraft.C09Clock
open PyCraft

/-! ### Specification vocabulary -/

/-- A conversion is monotone non-decreasing on (valid) readings. -/
def MonotoneConv (f : Reading → Int) : Prop :=
  ∀ a b : Reading, a.Valid → b.Valid → a ≤ b → f a ≤ f b

/-- The numerator of `1000 · (t₁ − t₀)` over the common denominator `t₀.den * t₁.den`: the elapsed
time in milliseconds is `scaledElapsedNum t₀ t₁ / (t₀.den * t₁.den)`. -/
def scaledElapsedNum (t₀ t₁ : Reading) : Int :=
  1000 * ((t₁.num : Int) * t₀.den) - 1000 * ((t₀.num : Int) * t₁.den)

/-- The millisecond boundary `k` (the instant `k / 1000` s) lies in the half-open interval
`(t₀, t₁]`: `1000·t₀ < k ≤ 1000·t₁`. -/
def crosses (t₀ t₁ : Reading) (k : Nat) : Bool :=
  decide (1000 * t₀.num < k * t₀.den) && decide (k * t₁.den ≤ 1000 * t₁.num)

/-- How many millisecond boundaries lie in `(t₀, t₁]`.  (Every such boundary is `≤ ⌊1000·t₁⌋`:
`crosses_lt`.) -/
def boundariesCrossed (t₀ t₁ : Reading) : Nat :=
  (List.range (millisFloor t₁ + 1)).countP (crosses t₀ t₁)

/-! ### Floor -/

theorem floor_spec (t : Reading) :
    1000 * t.num = t.den * millisFloor t + millisRem t := by
  unfold millisFloor millisRem
  exact (Nat.div_add_mod _ _).symm

theorem rem_lt (t : Reading) (h : t.Valid) : millisRem t < t.den := Nat.mod_lt _ h

theorem le_floor_iff (t : Reading) (h : t.Valid) (k : Nat) :
    k ≤ millisFloor t ↔ k * t.den ≤ 1000 * t.num := by
  unfold millisFloor
  exact Nat.le_div_iff_mul_le h

theorem floor_lt_iff (t : Reading) (h : t.Valid) (k : Nat) :
    millisFloor t < k ↔ 1000 * t.num < k * t.den := by
  unfold millisFloor
  exact Nat.div_lt_iff_lt_mul h

theorem floor_eq_iff (t : Reading) (h : t.Valid) (k : Nat) :
    millisFloor t = k ↔ k * t.den ≤ 1000 * t.num ∧ 1000 * t.num < (k + 1) * t.den := by
  rw [← le_floor_iff t h, ← floor_lt_iff t h]
  omega

theorem floor_mono (a b : Reading) (ha : a.Valid) (hb : b.Valid) (h : a ≤ b) :
    millisFloor a ≤ millisFloor b := by
  rw [le_floor_iff b hb]
  have h1 : millisFloor a * a.den ≤ 1000 * a.num := (le_floor_iff a ha _).1 (Nat.le_refl _)
  have h2 : a.num * b.den ≤ b.num * a.den := h
  apply Nat.le_of_mul_le_mul_right _ ha
  calc millisFloor a * b.den * a.den
      = millisFloor a * a.den * b.den := by rw [Nat.mul_right_comm]
    _ ≤ 1000 * a.num * b.den := Nat.mul_le_mul_right _ h1
    _ = 1000 * (a.num * b.den) := Nat.mul_assoc _ _ _
    _ ≤ 1000 * (b.num * a.den) := Nat.mul_le_mul_left _ h2
    _ = 1000 * b.num * a.den := (Nat.mul_assoc _ _ _).symm

/-- With equal floors, the order of two readings is the order of their fractional parts. -/
theorem rem_cross_le (a b : Reading) (h : a ≤ b) (hq : millisFloor a = millisFloor b) :
    millisRem a * b.den ≤ millisRem b * a.den := by
  have h2 : a.num * b.den ≤ b.num * a.den := h
  have h3 : 1000 * a.num * b.den ≤ 1000 * b.num * a.den := by
    rw [Nat.mul_assoc, Nat.mul_assoc]; exact Nat.mul_le_mul_left _ h2
  rw [floor_spec a, floor_spec b, hq, Nat.add_mul, Nat.add_mul] at h3
  have h4 : a.den * millisFloor b * b.den = b.den * millisFloor b * a.den := by
    rw [Nat.mul_right_comm, Nat.mul_comm a.den b.den, Nat.mul_right_comm]
  omega

/-! ### Round half even -/

theorem round_eq (t : Reading) :
    millisRoundHalfEven t = millisFloor t + (if roundsUp t then 1 else 0) := by
  unfold millisRoundHalfEven
  split <;> rfl

theorem floor_le_round (t : Reading) : millisFloor t ≤ millisRoundHalfEven t := by
  rw [round_eq]; omega

theorem round_le_floor_succ (t : Reading) : millisRoundHalfEven t ≤ millisFloor t + 1 := by
  rw [round_eq]; split <;> omega

theorem roundsUp_iff (t : Reading) :
    roundsUp t = true ↔
      t.den < 2 * millisRem t ∨ (2 * millisRem t = t.den ∧ millisFloor t % 2 = 1) := by
  simp [roundsUp]

/-- Within one millisecond, rounding up is monotone in the reading. -/
theorem roundsUp_mono (a b : Reading) (ha : a.Valid) (hb : b.Valid) (h : a ≤ b)
    (hq : millisFloor a = millisFloor b) (hu : roundsUp a = true) : roundsUp b = true := by
  have hc := rem_cross_le a b h hq
  rw [roundsUp_iff] at hu ⊢
  rw [← hq]
  -- 2 * ra * db ≤ 2 * rb * da
  have key : ∀ x : Nat, x * a.den ≤ 2 * millisRem a * a.den →
      x * (a.den * b.den) ≤ 2 * millisRem b * a.den * a.den := by
    intro x hx
    calc x * (a.den * b.den) = x * a.den * b.den := (Nat.mul_assoc _ _ _).symm
      _ ≤ 2 * millisRem a * a.den * b.den := Nat.mul_le_mul_right _ hx
      _ = 2 * (millisRem a * b.den) * a.den := by
          rw [Nat.mul_assoc 2, Nat.mul_assoc 2, Nat.mul_assoc 2, Nat.mul_right_comm]
      _ ≤ 2 * (millisRem b * a.den) * a.den :=
          Nat.mul_le_mul_right _ (Nat.mul_le_mul_left _ hc)
      _ = 2 * millisRem b * a.den * a.den := by rw [← Nat.mul_assoc 2]
  have cancel2 : ∀ x : Nat, x ≤ 2 * millisRem a → x * b.den ≤ 2 * millisRem b * a.den := by
    intro x hx
    have := key x (Nat.mul_le_mul_right _ hx)
    apply Nat.le_of_mul_le_mul_right _ ha
    calc x * b.den * a.den = x * (a.den * b.den) := by
          rw [Nat.mul_assoc, Nat.mul_comm b.den]
      _ ≤ 2 * millisRem b * a.den * a.den := this
  rcases hu with hgt | ⟨heq, hodd⟩
  · -- (da + 1) ≤ 2 ra  ⇒ (da + 1) * db ≤ 2 rb * da ⇒ db < 2 rb
    left
    have h1 := cancel2 (a.den + 1) hgt
    rw [Nat.add_mul, Nat.one_mul] at h1
    -- a.den * b.den + b.den ≤ 2 rb * a.den, so b.den * a.den < 2 rb * a.den
    have h2 : b.den * a.den < 2 * millisRem b * a.den := by
      rw [Nat.mul_comm b.den]; omega
    exact Nat.lt_of_mul_lt_mul_right h2
  · have h1 := cancel2 a.den (by omega)
    have h2 : b.den * a.den ≤ 2 * millisRem b * a.den := by
      rw [Nat.mul_comm b.den]; exact h1
    have h3 : b.den ≤ 2 * millisRem b := Nat.le_of_mul_le_mul_right h2 ha
    rcases Nat.lt_or_eq_of_le h3 with h4 | h4
    · left; exact h4
    · right; exact ⟨h4.symm, hodd⟩

theorem round_mono (a b : Reading) (ha : a.Valid) (hb : b.Valid) (h : a ≤ b) :
    millisRoundHalfEven a ≤ millisRoundHalfEven b := by
  have hf := floor_mono a b ha hb h
  rcases Nat.lt_or_eq_of_le hf with hlt | heq
  · exact Nat.le_trans (round_le_floor_succ a) (Nat.le_trans hlt (floor_le_round b))
  · rw [round_eq a, round_eq b, heq]
    by_cases hu : roundsUp a = true
    · rw [roundsUp_mono a b ha hb h heq hu]; simp [hu]
    · simp [hu]


/-! ### Elapsed time -/

theorem scaled_parts (t₀ t₁ : Reading) :
    1000 * (t₀.num * t₁.den) = millisFloor t₀ * (t₀.den * t₁.den) + millisRem t₀ * t₁.den ∧
    1000 * (t₁.num * t₀.den) = millisFloor t₁ * (t₀.den * t₁.den) + millisRem t₁ * t₀.den := by
  constructor
  · rw [← Nat.mul_assoc, floor_spec t₀, Nat.add_mul, Nat.mul_comm t₀.den (millisFloor t₀), Nat.mul_assoc]
  · rw [← Nat.mul_assoc, floor_spec t₁, Nat.add_mul, Nat.mul_comm t₁.den (millisFloor t₁), Nat.mul_assoc,
      Nat.mul_comm t₁.den t₀.den]

theorem elapsed_bounds (t₀ t₁ : Reading) (h₀ : t₀.Valid) (h₁ : t₁.Valid) :
    (((millisFloor t₁ : Int) - millisFloor t₀) - 1) * ((t₀.den : Int) * t₁.den) < scaledElapsedNum t₀ t₁ ∧
    scaledElapsedNum t₀ t₁ < (((millisFloor t₁ : Int) - millisFloor t₀) + 1) * ((t₀.den : Int) * t₁.den) := by
  obtain ⟨e0, e1⟩ := scaled_parts t₀ t₁
  have ha : millisRem t₀ * t₁.den < t₀.den * t₁.den := Nat.mul_lt_mul_of_lt_of_le (rem_lt t₀ h₀) (Nat.le_refl _) h₁
  have hb : millisRem t₁ * t₀.den < t₀.den * t₁.den := by
    rw [Nat.mul_comm t₀.den]; exact Nat.mul_lt_mul_of_lt_of_le (rem_lt t₁ h₁) (Nat.le_refl _) h₀
  have e0' := congrArg (fun n : Nat => (n : Int)) e0
  have e1' := congrArg (fun n : Nat => (n : Int)) e1
  have ha' := Int.ofNat_lt.2 ha
  have hb' := Int.ofNat_lt.2 hb
  have na : (0 : Int) ≤ ((millisRem t₀ * t₁.den : Nat) : Int) := Int.natCast_nonneg _
  have nb : (0 : Int) ≤ ((millisRem t₁ * t₀.den : Nat) : Int) := Int.natCast_nonneg _
  simp only [Int.natCast_mul, Int.natCast_add, Int.cast_ofNat_Int] at e0' e1' ha' hb' na nb
  unfold scaledElapsedNum
  simp only [Int.sub_mul, Int.add_mul, Int.one_mul]
  rw [e0', e1']
  generalize (millisFloor t₀ : Int) * ((t₀.den : Int) * t₁.den) = P0 at *
  generalize (millisFloor t₁ : Int) * ((t₀.den : Int) * t₁.den) = P1 at *
  generalize ((t₀.den : Int) * t₁.den) = D at *
  generalize (millisRem t₀ : Int) * t₁.den = a at *
  generalize (millisRem t₁ : Int) * t₀.den = b at *
  omega

/-! ### `millisRoundHalfEven` is round-to-nearest, ties to even -/

theorem round_nearest (t : Reading) (h : t.Valid) :
    2 * (millisRoundHalfEven t * t.den) ≤ 2 * (1000 * t.num) + t.den ∧
    2 * (1000 * t.num) ≤ 2 * (millisRoundHalfEven t * t.den) + t.den := by
  have hs := floor_spec t
  have hr := rem_lt t h
  rw [round_eq]
  by_cases hu : roundsUp t = true
  · have hu' := (roundsUp_iff t).1 hu
    simp only [hu, if_true, Nat.add_mul, Nat.one_mul]
    rw [Nat.mul_comm t.den] at hs
    generalize millisFloor t * t.den = Q at *
    omega
  · have hu' := mt (roundsUp_iff t).2 hu
    simp only [hu, Bool.false_eq_true, if_false, Nat.add_zero]
    rw [Nat.mul_comm t.den] at hs
    generalize millisFloor t * t.den = Q at *
    omega

theorem round_tie_even (t : Reading) (h : t.Valid)
    (htie : 2 * (millisRoundHalfEven t * t.den) = 2 * (1000 * t.num) + t.den ∨
            2 * (1000 * t.num) = 2 * (millisRoundHalfEven t * t.den) + t.den) :
    millisRoundHalfEven t % 2 = 0 := by
  have hs := floor_spec t
  have hr := rem_lt t h
  rw [round_eq] at htie ⊢
  by_cases hu : roundsUp t = true
  · have hu' := (roundsUp_iff t).1 hu
    simp only [hu, if_true, Nat.add_mul, Nat.one_mul] at htie ⊢
    rw [Nat.mul_comm t.den] at hs
    generalize millisFloor t * t.den = Q at *
    omega
  · have hu' := mt (roundsUp_iff t).2 hu
    simp only [hu, Bool.false_eq_true, if_false, Nat.add_zero] at htie ⊢
    rw [Nat.mul_comm t.den] at hs
    generalize millisFloor t * t.den = Q at *
    omega

/-! ### Counting boundaries -/

theorem crosses_iff (t₀ t₁ : Reading) (h₀ : t₀.Valid) (h₁ : t₁.Valid) (k : Nat) :
    crosses t₀ t₁ k = true ↔ millisFloor t₀ < k ∧ k ≤ millisFloor t₁ := by
  simp [crosses, floor_lt_iff t₀ h₀, le_floor_iff t₁ h₁]

theorem countP_range_Ioc (p : Nat → Bool) (lo : Nat) :
    ∀ n, lo ≤ n → (∀ k, k < n + 1 → (p k = true ↔ lo < k ∧ k ≤ n)) →
      (List.range (n + 1)).countP p = n - lo := by
  intro n
  induction n generalizing p with
  | zero =>
    intro hlo hp
    have : p 0 = false := by
      cases h : p 0 with
      | false => rfl
      | true => have := (hp 0 (by omega)).1 h; omega
    simp [List.range_succ, this]
  | succ n ih =>
    intro hlo hp
    rw [List.range_succ, List.countP_append]
    by_cases hl : lo = n + 1
    · -- nothing counts
      have hnone : ∀ k ∈ List.range (n + 1), ¬ (p k = true) := by
        intro k hk hpk
        have hk' : k < n + 1 := List.mem_range.1 hk
        have := (hp k (by omega)).1 hpk
        omega
      have h0 : (List.range (n + 1)).countP p = 0 := List.countP_eq_zero.2 hnone
      have hlast : p (n + 1) = false := by
        cases h : p (n + 1) with
        | false => rfl
        | true => have := (hp (n + 1) (by omega)).1 h; omega
      simp [h0, hlast, hl]
    · have hlo' : lo ≤ n := by omega
      -- restrict p to k ≤ n by a modified predicate that agrees on the range
      let p' : Nat → Bool := fun k => p k && decide (k ≤ n)
      have hagree : (List.range (n + 1)).countP p = (List.range (n + 1)).countP p' := by
        apply List.countP_congr
        intro k hk
        have hk' : k < n + 1 := List.mem_range.1 hk
        simp [p']; intro _; omega
      have hp' : ∀ k, k < n + 1 → (p' k = true ↔ lo < k ∧ k ≤ n) := by
        intro k hk
        have := hp k (by omega)
        simp only [p', Bool.and_eq_true, decide_eq_true_eq, this]
        omega
      rw [hagree, ih p' hlo' hp']
      have hlast : p (n + 1) = true := (hp (n + 1) (by omega)).2 (by omega)
      simp [hlast]; omega

/-! ### The constructor with two tables -/

/-- A name as the list of its UTF-8 bytes.  (The kernel compares lists of numbers faster than
strings; the live theorems compare names through their tags.) -/
def nameTag (s : String) : List Nat := s.toUTF8.data.toList.map UInt8.toNat

/-- A key whose tag differs from the tag of every key of the table is not in the table. -/
theorem dictGet_none_of_tags (tbl : List (String × Nat)) (s : String)
    (h : ∀ e ∈ tbl, nameTag e.1 ≠ nameTag s) : Neg.dictGet tbl s = none := by
  induction tbl with
  | nil => rfl
  | cons e rest ih =>
    obtain ⟨k, v⟩ := e
    unfold Neg.dictGet
    have hk : k ≠ s := fun hks => h (k, v) (List.mem_cons_self) (by rw [hks])
    rw [if_neg hk]
    exact ih (fun e he => h e (List.mem_cons_of_mem _ he))

theorem resolveWith_supported (env : VEnv2) (r : Neg.VReq) :
    resolveWith .supported env r = Neg.resolve env.base r := by
  cases r with
  | name s =>
    simp only [resolveWith, protoOfWith, VEnv2.table, Option.map, Neg.resolve, Neg.protoOf]
    cases Neg.dictGet env.base.supportedNames s <;> rfl
  | num n => rfl
  | other => rfl

theorem resolveAllWith_supported (env : VEnv2) (rs : List Neg.VReq) :
    resolveAllWith .supported env rs = Neg.resolveAll env.base rs := by
  induction rs with
  | nil => rfl
  | cons r rs ih =>
    unfold resolveAllWith Neg.resolveAll
    rw [resolveWith_supported, ih]
    cases Neg.resolve env.base r with
    | error e => rfl
    | ok v => cases Neg.resolveAll env.base rs <;> rfl

theorem resolveWith_error (lk : Lookup) (env : VEnv2) (r : Neg.VReq) (e : Err)
    (hlk : lk ≠ .other) (h : resolveWith lk env r = .error e) : e = .value := by
  unfold resolveWith at h
  split at h
  · rename_i hp
    cases r with
    | name s =>
      cases lk with
      | supported => simp [protoOfWith, VEnv2.table] at hp
      | known => simp [protoOfWith, VEnv2.table] at hp
      | other => exact absurd rfl hlk
    | num n => simp [protoOfWith] at hp
    | other => simp [protoOfWith] at hp
  · cases h; rfl
  · split at h
    · cases h
    · cases h; rfl

/-- If one element of the list is refused with `ValueError`, the whole `map` raises
`ValueError`. -/
theorem resolveAllWith_refuses (lk : Lookup) (env : VEnv2) (hlk : lk ≠ .other) (rs : List Neg.VReq)
    (r : Neg.VReq) (hr : r ∈ rs) (h : resolveWith lk env r = .error .value) :
    resolveAllWith lk env rs = .error .value := by
  induction rs with
  | nil => cases hr
  | cons x xs ih =>
    unfold resolveAllWith
    cases hx : resolveWith lk env x with
    | error e => simp only []; rw [resolveWith_error lk env x e hlk hx]
    | ok v =>
      simp only []
      have hr' : r ∈ xs := by
        rcases List.mem_cons.1 hr with rfl | h'
        · rw [h] at hx; cases hx
        · exact h'
      rw [ih hr']

end PyCraft.C09Clock
