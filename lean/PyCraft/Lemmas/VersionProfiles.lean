import PyCraft.Model.VersionProfiles
import PyCraft.Lemmas.Versions
import PyCraft.Props.C08
import PyCraft.Lemmas.SessionWire
/-!
Helper lemmas for `Props/VersionProfiles.lean`: the kernel evaluation of the per-version checks on
the live tables, and what a passed check means for one supported version (`play_row`,
`login_row`), in terms of the model of `protocol_later_eq` on the live version tables.
-/
namespace PyCraft.VersionProfiles
open PyCraft PyCraft.PlayWire

/-! ### the kernel runs the checks on the live tables -/

theorem play_tables_ok : playTablesOk liveTables Gen.cbPlayNames playRows = true := by
  decide +kernel

theorem login_tables_ok : loginTablesOk liveTables Gen.cbLoginNames loginRows = true := by
  decide +kernel

theorem layout_variants_ok : layoutVariantsOk liveTables.knownProtocols = true := by
  decide +kernel

/-! ### rank of a version -/

/-- Position in `KNOWN_PROTOCOL_VERSIONS` (chronological rank). -/
def rank (v : Nat) : Nat := liveTables.knownProtocols.idxOf v

theorem supported_known {v : Nat} (h : v ∈ liveTables.supportedProtocols) :
    v ∈ liveTables.knownProtocols := by
  have := (C08.supported_projection liveRecords).2.2.2.2.1
  rw [C08.model_eq_live] at this
  exact this v h

theorem known_nodup : liveTables.knownProtocols.Nodup := by
  have := knownProtocols_nodup liveRecords
  rwa [C08.model_eq_live] at this

theorem indexE_live {v : Nat} (h : v ∈ liveTables.knownProtocols) :
    indexE liveTables v = .ok (rank v) := by
  have := indexE_known liveRecords v (by rw [C08.model_eq_live]; exact h)
  rwa [C08.model_eq_live] at this

/-- `ConnectionContext(v).protocol_later_eq(b)` on the live tables, for known `v`, `b`. -/
theorem laterEq_live {v b : Nat} (hv : v ∈ liveTables.knownProtocols)
    (hb : b ∈ liveTables.knownProtocols) :
    laterEq liveTables v b = .ok (decide (rank b ≤ rank v)) :=
  earlierEq_ok _ _ _ _ _ (indexE_live hb) (indexE_live hv)

theorem earlierEq_live {v b : Nat} (hv : v ∈ liveTables.knownProtocols)
    (hb : b ∈ liveTables.knownProtocols) :
    earlierEq liveTables v b = .ok (decide (rank v ≤ rank b)) :=
  earlierEq_ok _ _ _ _ _ (indexE_live hv) (indexE_live hb)

/-! ### `stepUp` / `stepDown` -/

theorem stepUp_mem (b : Nat) : ∀ (vs : List Nat) (fs : List Bool), stepUp vs fs b = true → b ∈ vs
  | [], _, h => by simp [stepUp] at h
  | _ :: _, [], h => by simp [stepUp] at h
  | v :: vs, f :: fs, h => by
    unfold stepUp at h
    split at h
    · next hvb => simp only [beq_iff_eq] at hvb; simp [hvb]
    · simp only [Bool.and_eq_true] at h
      exact List.mem_cons_of_mem _ (stepUp_mem b vs fs h.2)

theorem stepDown_mem (b : Nat) :
    ∀ (vs : List Nat) (fs : List Bool), stepDown vs fs b = true → b ∈ vs
  | [], _, h => by simp [stepDown] at h
  | _ :: _, [], h => by simp [stepDown] at h
  | v :: vs, f :: fs, h => by
    unfold stepDown at h
    split at h
    · next hvb => simp only [beq_iff_eq] at hvb; simp [hvb]
    · simp only [Bool.and_eq_true] at h
      exact List.mem_cons_of_mem _ (stepDown_mem b vs fs h.2)

/-- Along a list sorted by `idx`, a `stepUp` flag is the comparison with the switch point. -/
theorem stepUp_zip (idx : Nat → Nat) (b : Nat) :
    ∀ (vs : List Nat) (fs : List Bool), stepUp vs fs b = true →
      (vs.map idx).Pairwise (· < ·) → ∀ p ∈ vs.zip fs, p.2 = decide (idx b ≤ idx p.1)
  | [], _, h, _, _, _ => by simp [stepUp] at h
  | _ :: _, [], h, _, _, _ => by simp [stepUp] at h
  | v :: vs, f :: fs, h, hs, p, hp => by
    rw [List.map_cons, List.pairwise_cons] at hs
    rw [List.zip_cons_cons, List.mem_cons] at hp
    unfold stepUp at h
    split at h
    · next hvb =>
      simp only [beq_iff_eq] at hvb
      simp only [Bool.and_eq_true, List.all_eq_true, id_eq, beq_iff_eq] at h
      rcases hp with rfl | hp
      · simp [hvb, h.1.1]
      · have h1 : p.2 = true := h.1.2 _ (List.of_mem_zip hp).2
        have h2 : idx v < idx p.1 := hs.1 _ (List.mem_map_of_mem (List.of_mem_zip hp).1)
        rw [h1, ← hvb]; simp; omega
    · simp only [Bool.and_eq_true, Bool.not_eq_true'] at h
      rcases hp with rfl | hp
      · have hb : idx v < idx b := hs.1 _ (List.mem_map_of_mem (stepUp_mem b vs fs h.2))
        simp [h.1]; omega
      · exact stepUp_zip idx b vs fs h.2 hs.2 p hp

theorem stepDown_zip (idx : Nat → Nat) (b : Nat) :
    ∀ (vs : List Nat) (fs : List Bool), stepDown vs fs b = true →
      (vs.map idx).Pairwise (· < ·) → ∀ p ∈ vs.zip fs, p.2 = decide (idx p.1 ≤ idx b)
  | [], _, h, _, _, _ => by simp [stepDown] at h
  | _ :: _, [], h, _, _, _ => by simp [stepDown] at h
  | v :: vs, f :: fs, h, hs, p, hp => by
    rw [List.map_cons, List.pairwise_cons] at hs
    rw [List.zip_cons_cons, List.mem_cons] at hp
    unfold stepDown at h
    split at h
    · next hvb =>
      simp only [beq_iff_eq] at hvb
      simp only [Bool.and_eq_true, List.all_eq_true, Bool.not_eq_true', beq_iff_eq] at h
      rcases hp with rfl | hp
      · simp [hvb, h.1.1]
      · have h1 : p.2 = false := h.1.2 _ (List.of_mem_zip hp).2
        have h2 : idx v < idx p.1 := hs.1 _ (List.mem_map_of_mem (List.of_mem_zip hp).1)
        rw [h1, ← hvb]; simp; omega
    · simp only [Bool.and_eq_true] at h
      rcases hp with rfl | hp
      · have hb : idx v < idx b := hs.1 _ (List.mem_map_of_mem (stepDown_mem b vs fs h.2))
        simp [h.1]; omega
      · exact stepDown_zip idx b vs fs h.2 hs.2 p hp

theorem mem_zip_map {α : Type} (key : α → Nat) (f : α → Bool) :
    ∀ (rows : List α) (r : α), r ∈ rows → (key r, f r) ∈ (rows.map key).zip (rows.map f)
  | [], _, h => by simp at h
  | a :: rows, r, h => by
    rw [List.map_cons, List.map_cons, List.zip_cons_cons, List.mem_cons]
    rcases List.mem_cons.mp h with rfl | h
    · exact Or.inl rfl
    · exact Or.inr (mem_zip_map key f rows r h)

theorem stepUp_rows {α : Type} (idx : Nat → Nat) (key : α → Nat) (f : α → Bool) (b : Nat)
    (rows : List α) (h : stepUp (rows.map key) (rows.map f) b = true)
    (hs : ((rows.map key).map idx).Pairwise (· < ·)) (r : α) (hr : r ∈ rows) :
    f r = decide (idx b ≤ idx (key r)) :=
  stepUp_zip idx b _ _ h hs _ (mem_zip_map key f rows r hr)

theorem stepDown_rows {α : Type} (idx : Nat → Nat) (key : α → Nat) (f : α → Bool) (b : Nat)
    (rows : List α) (h : stepDown (rows.map key) (rows.map f) b = true)
    (hs : ((rows.map key).map idx).Pairwise (· < ·)) (r : α) (hr : r ∈ rows) :
    f r = decide (idx (key r) ≤ idx b) :=
  stepDown_zip idx b _ _ h hs _ (mem_zip_map key f rows r hr)

/-! ### finding the row of a version -/

theorem find_row {α : Type} (key : α → Nat) (rows : List α) (v : Nat)
    (hv : v ∈ rows.map key) :
    ∃ r, rows.find? (fun r => key r == v) = some r ∧ r ∈ rows ∧ key r = v := by
  obtain ⟨r0, hr0, hk⟩ := List.mem_map.mp hv
  cases hf : rows.find? (fun r => key r == v) with
  | none =>
    have := List.find?_eq_none.mp hf r0 hr0
    simp [hk] at this
  | some r =>
    exact ⟨r, rfl, List.mem_of_find?_eq_some hf, by simpa using List.find?_some hf⟩

/-! ### what a row that determines a profile says -/

theorem profileOfRow_some {names : List (String × String)} {r : PlayRow} {P : Profile}
    (h : profileOfRow names r = some P) :
    (∃ c, dispatchIn r.cb.2.2 names "keep alive" = some (c, P.kaCb)) ∧
    (∃ c, dispatchIn r.cb.2.2 names "player position and look" = some (c, P.posLookCb)) ∧
    (∃ c, dispatchIn r.cb.2.2 names "disconnect" = some (c, P.disconnectCb)) ∧
    kaLongOfProbe r.pr = some P.kaLong ∧
    posFlagsOfProbe r.pr = some (P.newer107, P.dismount) ∧
    idIn r.sb.2.2 "KeepAlivePacket" = some P.kaSb ∧
    idIn r.sb.2.2 "PositionAndLookPacket" = some P.posLookSb ∧
    tcOf P.newer107 r.sb.2.2 = some P.teleportConfirmSb ∧
    r.sb.1 = r.v ∧ r.pr.v = r.v ∧ r.cb.2.1 = true ∧ r.sb.2.1 = true ∧
    P.others = othersOf r.cb.2.2 names := by
  unfold profileOfRow at h
  simp only [Option.bind_eq_bind, Option.bind_eq_some_iff] at h
  obtain ⟨ka, hka, pos, hpos, disc, hdisc, kl, hkl, fl, hfl, kaSb, hkaSb, pl, hpl, tc, htc, h⟩ := h
  split at h
  · next hg =>
    cases h
    exact ⟨⟨ka.1, hka⟩, ⟨pos.1, hpos⟩, ⟨disc.1, hdisc⟩, hkl, hfl, hkaSb, hpl, htc, hg.1, hg.2.1,
      hg.2.2.1, hg.2.2.2, rfl⟩
  · cases h

/-- The set-compression id of a profile built from a row is the id its table has under that name. -/
theorem profileOfRow_setComp {names : List (String × String)} {r : PlayRow} {P : Profile}
    (h : profileOfRow names r = some P) : P.setCompressionCb = setCompOf P := by
  unfold profileOfRow at h
  simp only [Option.bind_eq_bind, Option.bind_eq_some_iff] at h
  obtain ⟨ka, -, pos, -, disc, -, kl, -, fl, -, kaSb, -, pl, -, tc, -, h⟩ := h
  split at h
  · cases h; rfl
  · cases h

theorem kaLongOfProbe_some {pr : Gen.PlayProbe} {b : Bool} (h : kaLongOfProbe pr = some b) :
    b = (pr.kaRead == 1) ∧ pr.kaWrite = pr.kaRead ∧ (pr.kaRead = 0 ∨ pr.kaRead = 1) := by
  unfold kaLongOfProbe at h
  split at h
  · next hc => cases h; simp [hc.1, hc.2]
  · split at h
    · next hc => cases h; simp [hc.1, hc.2]
    · cases h

theorem posFlagsOfProbe_some {pr : Gen.PlayProbe} {a b : Bool}
    (h : posFlagsOfProbe pr = some (a, b)) :
    a = (pr.posRead != 0) ∧ b = (pr.posRead == 2) ∧ pr.posRead ≤ 2 := by
  unfold posFlagsOfProbe at h
  split at h
  · next hc => cases h; simp [hc]
  · split at h
    · next hc => cases h; simp [hc]
    · split at h
      · next hc => cases h; simp [hc]
      · cases h

theorem playRows_versions : playRows.map (·.v) = liveTables.supportedProtocols := by
  have h := play_tables_ok
  simp only [playTablesOk, Bool.and_eq_true, beq_iff_eq] at h
  exact h.1.1

theorem playRows_sorted : ((playRows.map (·.v)).map rank).Pairwise (· < ·) := by
  rw [playRows_versions]; exact C08.supported_sorted_by_index

/-- What the passed play check means for one supported version. -/
theorem play_row {v : Nat} (hv : v ∈ liveTables.supportedProtocols) :
    ∃ r P, playRowAt v = some r ∧ r ∈ playRows ∧ r.v = v ∧
      profileOfRow Gen.cbPlayNames r = some P ∧ rowOk r P = true ∧
      P.kaLong = decide (rank 339 ≤ rank v) ∧ P.newer107 = decide (rank 107 ≤ rank v) ∧
      P.dismount = decide (rank 755 ≤ rank v) ∧
      (setCompOf P).isSome = decide (rank v ≤ rank 47) ∧
      339 ∈ liveTables.knownProtocols ∧ 107 ∈ liveTables.knownProtocols ∧
      755 ∈ liveTables.knownProtocols ∧ 47 ∈ liveTables.knownProtocols := by
  have h := play_tables_ok
  simp only [playTablesOk, playSwitchesOk, Bool.and_eq_true, beq_iff_eq, List.all_eq_true] at h
  obtain ⟨⟨hvs, hall⟩, ⟨⟨s1, s2⟩, s3⟩, s4⟩ := h
  obtain ⟨r, hfind, hmem, hrv⟩ := find_row (·.v) playRows v (by rw [hvs]; exact hv)
  have hok := hall r hmem
  unfold playRowOk at hok
  cases hP : profileOfRow Gen.cbPlayNames r with
  | none => rw [hP] at hok; cases hok
  | some P =>
    rw [hP] at hok
    obtain ⟨-, -, -, hkl, hfl, -, -, -, -, -, -, -, -⟩ := profileOfRow_some hP
    obtain ⟨e1, -, -⟩ := kaLongOfProbe_some hkl
    obtain ⟨e2, e3, -⟩ := posFlagsOfProbe_some hfl
    have hb : behaviourOk P r.pr = true := by
      simp only [rowOk, Bool.and_eq_true] at hok; exact hok.1.1.2
    have hsc : r.pr.setComp = setCompOf P := by
      simp only [behaviourOk, Bool.and_eq_true, beq_iff_eq] at hb; exact hb.2
    have k (b : Nat) (hb : b ∈ playRows.map (·.v)) : b ∈ liveTables.knownProtocols :=
      supported_known (by rw [← hvs]; exact hb)
    refine ⟨r, P, hfind, hmem, hrv, hP, hok, ?_, ?_, ?_, ?_, k _ (stepUp_mem _ _ _ s1),
      k _ (stepUp_mem _ _ _ s2), k _ (stepUp_mem _ _ _ s3), k _ (stepDown_mem _ _ _ s4)⟩
    · have := stepUp_rows rank (fun x : PlayRow => x.v) (fun r => r.pr.kaRead == 1) 339 playRows s1
        playRows_sorted r hmem
      rw [e1, ← hrv]; exact this
    · have := stepUp_rows rank (fun x : PlayRow => x.v) (fun r => r.pr.posRead != 0) 107 playRows s2
        playRows_sorted r hmem
      rw [e2, ← hrv]; exact this
    · have := stepUp_rows rank (fun x : PlayRow => x.v) (fun r => r.pr.posRead == 2) 755 playRows s3
        playRows_sorted r hmem
      rw [e3, ← hrv]; exact this
    · have := stepDown_rows rank (fun x : PlayRow => x.v) (fun r => r.pr.setComp.isSome) 47 playRows
        s4 playRows_sorted r hmem
      rw [← hsc, ← hrv]; exact this

/-! ### login -/

theorem loginProfileOfRow_some {names : List (String × String)} {r : LoginRow} {L : LoginProfile}
    (h : loginProfileOfRow names r = some L) :
    (∃ c, dispatchIn r.cb.2.2 names "disconnect" = some (c, L.discCb)) ∧
    (∃ c, dispatchIn r.cb.2.2 names "encryption request" = some (c, L.encReqCb)) ∧
    (∃ c, dispatchIn r.cb.2.2 names "login success" = some (c, L.successCb)) ∧
    (∃ c, dispatchIn r.cb.2.2 names "set compression" = some (c, L.setCompCb)) ∧
    (dispatchIn r.cb.2.2 names "login plugin request").map (·.2) = L.plugReqCb ∧
    idIn r.sb.2.2 "LoginStartPacket" = some L.lsId ∧
    idIn r.sb.2.2 "EncryptionResponsePacket" = some L.ids.encResp ∧
    L.ids.plugResp = (idIn r.sb.2.2 "PluginResponsePacket").getD r.pr.plugRespId ∧
    L.plugin = (idIn r.sb.2.2 "PluginResponsePacket").isSome ∧
    L.plugReqCb.isSome = L.plugin ∧
    uuidOfProbe r.pr = some L.uuidBinary ∧
    r.sb.1 = r.v ∧ r.pr.v = r.v ∧ r.cb.2.1 = true ∧ r.sb.2.1 = true := by
  unfold loginProfileOfRow at h
  simp only [Option.bind_eq_bind, Option.bind_eq_some_iff] at h
  obtain ⟨disc, hdisc, er, her, su, hsu, sc, hsc, ls, hls, enc, henc, uu, huu, h⟩ := h
  split at h
  · next hg =>
    cases h
    refine ⟨⟨disc.1, hdisc⟩, ⟨er.1, her⟩, ⟨su.1, hsu⟩, ⟨sc.1, hsc⟩, rfl, hls, henc, rfl, rfl, ?_, huu,
      hg.1, hg.2.1, hg.2.2.1, hg.2.2.2.1⟩
    simp only [Option.isSome_map]
    exact hg.2.2.2.2.2
  · cases h

theorem uuidOfProbe_some {pr : Gen.LoginProbe} {b : Bool} (h : uuidOfProbe pr = some b) :
    b = (pr.successKind == 1) := by
  unfold uuidOfProbe at h
  split at h
  · next hc => cases h; simp [hc]
  · split at h
    · next hc => cases h; simp [hc]
    · cases h

theorem loginRows_versions : loginRows.map (·.v) = liveTables.supportedProtocols := by
  have h := login_tables_ok
  simp only [loginTablesOk, Bool.and_eq_true, beq_iff_eq] at h
  exact h.1.1

theorem loginRows_sorted : ((loginRows.map (·.v)).map rank).Pairwise (· < ·) := by
  rw [loginRows_versions]; exact C08.supported_sorted_by_index

/-- What the passed login check means for one supported version. -/
theorem login_row {v : Nat} (hv : v ∈ liveTables.supportedProtocols) :
    ∃ r L, loginRowAt v = some r ∧ r ∈ loginRows ∧ r.v = v ∧
      loginProfileOfRow Gen.cbLoginNames r = some L ∧
      loginShapeOk L = true ∧ loginBehaviourOk L r.pr = true ∧ loginDistinct r L = true ∧
      L.plugin = decide (rank 385 ≤ rank v) ∧
      (L.plugin && L.lsId == 0) = decide (rank 391 ≤ rank v) ∧
      L.uuidBinary = decide (rank 707 ≤ rank v) ∧
      385 ∈ liveTables.knownProtocols ∧ 391 ∈ liveTables.knownProtocols ∧
      707 ∈ liveTables.knownProtocols := by
  have h := login_tables_ok
  simp only [loginTablesOk, loginSwitchesOk, Bool.and_eq_true, beq_iff_eq, List.all_eq_true] at h
  obtain ⟨⟨hvs, hall⟩, ⟨s1, s2⟩, s3⟩ := h
  obtain ⟨r, hfind, hmem, hrv⟩ := find_row (·.v) loginRows v (by rw [hvs]; exact hv)
  have hok := hall r hmem
  unfold loginRowOk at hok
  cases hL : loginProfileOfRow Gen.cbLoginNames r with
  | none => rw [hL] at hok; cases hok
  | some L =>
    rw [hL] at hok
    have hok' : (loginShapeOk L && loginBehaviourOk L r.pr && loginDistinct r L) = true := hok
    simp only [Bool.and_eq_true] at hok'
    obtain ⟨⟨hshape, hbeh⟩, hdist⟩ := hok'
    obtain ⟨-, -, -, -, -, -, -, -, -, hpl, huu, -, -, -, -⟩ := loginProfileOfRow_some hL
    have e3 := uuidOfProbe_some huu
    have hb := hbeh
    simp only [loginBehaviourOk, Bool.and_eq_true, beq_iff_eq] at hb
    have e1 : L.plugin = r.pr.plugReqCb.isSome := by
      rw [← hpl, hb.1.1.1.1.1.1.2]
    have e2 : (L.plugin && L.lsId == 0) = (r.pr.plugReqCb.isSome && r.pr.lsId == 0) := by
      rw [e1, hb.1.1.1.1.1.1.1.1.1.1.1]
    have k (b : Nat) (hb : b ∈ loginRows.map (·.v)) : b ∈ liveTables.knownProtocols :=
      supported_known (by rw [← hvs]; exact hb)
    refine ⟨r, L, hfind, hmem, hrv, hL, hshape, hbeh, hdist, ?_, ?_, ?_,
      k _ (stepUp_mem _ _ _ s1), k _ (stepUp_mem _ _ _ s2), k _ (stepUp_mem _ _ _ s3)⟩
    · have := stepUp_rows rank (fun x : LoginRow => x.v) (fun r => r.pr.plugReqCb.isSome) 385
        loginRows s1 loginRows_sorted r hmem
      rw [e1, ← hrv]; exact this
    · have := stepUp_rows rank (fun x : LoginRow => x.v)
        (fun r => r.pr.plugReqCb.isSome && r.pr.lsId == 0) 391 loginRows s2 loginRows_sorted r hmem
      rw [e2, ← hrv]; exact this
    · have := stepUp_rows rank (fun x : LoginRow => x.v) (fun r => r.pr.successKind == 1) 707
        loginRows s3 loginRows_sorted r hmem
      rw [e3, ← hrv]; exact this

/-! ### the declared layouts, version by version -/

theorem mem_before (b v : Nat) : ∀ K : List Nat, v ∈ before K b ↔ K.idxOf v < K.idxOf b
  | [] => by simp [before]
  | a :: K => by
    have ih := mem_before b v K
    unfold before at ih ⊢
    rw [List.takeWhile_cons, idxOf_cons_ite, idxOf_cons_ite]
    by_cases hab : a = b
    · subst hab; simp
    · by_cases hav : a = v
      · subst hav; simp [hab]
      · have hva : ¬ v = a := fun h => hav h.symm
        simp [hab, hav, hva, ih]

theorem before_append_since (K : List Nat) (b : Nat) : before K b ++ since K b = K :=
  List.takeWhile_append_dropWhile

theorem mem_since_of (K : List Nat) (b v : Nat) (hv : v ∈ K) (h : ¬ K.idxOf v < K.idxOf b) :
    v ∈ since K b := by
  rw [← before_append_since K b, List.mem_append] at hv
  rcases hv with hv | hv
  · exact absurd ((mem_before b v K).mp hv) h
  · exact hv

theorem idxOf_since (K : List Nat) (hK : K.Nodup) (b x : Nat) (hx : x ∈ since K b) :
    K.idxOf x = (before K b).length + (since K b).idxOf x := by
  have hK' := hK
  rw [← before_append_since K b, List.nodup_append] at hK'
  have hnot : x ∉ before K b := fun h => hK'.2.2 x h x hx rfl
  conv => lhs; rw [← before_append_since K b]
  rw [List.idxOf_append, if_neg hnot, Nat.add_comm]

theorem layoutAt_lookup {tab : List Gen.LayoutRow} {cls : String}
    {vars : List (Option Layout × List Nat)} (h : tab.lookup cls = some vars) (v : Nat) :
    layoutAt tab cls v =
      (match vars.find? (fun x => x.2.contains v) with
       | some x => x.1
       | none => none) := by
  unfold layoutAt; rw [h]; rfl

theorem layoutAt_one {tab : List Gen.LayoutRow} {cls : String} {L : Option Layout} {V : List Nat}
    (h : tab.lookup cls = some [(L, V)]) (v : Nat) :
    layoutAt tab cls v = if v ∈ V then L else none := by
  rw [layoutAt_lookup h]
  by_cases hv : v ∈ V <;> simp [List.find?, hv]

theorem layoutAt_two {tab : List Gen.LayoutRow} {cls : String} {L1 L2 : Option Layout}
    {K : List Nat} {b : Nat}
    (h : tab.lookup cls = some [(L1, before K b), (L2, since K b)]) {v : Nat} (hv : v ∈ K) :
    layoutAt tab cls v = if K.idxOf b ≤ K.idxOf v then L2 else L1 := by
  rw [layoutAt_lookup h]
  by_cases hlt : K.idxOf v < K.idxOf b
  · have h1 : v ∈ before K b := (mem_before b v K).mpr hlt
    have : ¬ K.idxOf b ≤ K.idxOf v := by omega
    simp [List.find?, h1, this]
  · have h1 : v ∉ before K b := fun hm => hlt ((mem_before b v K).mp hm)
    have h2 : v ∈ since K b := mem_since_of K b v hv hlt
    have : K.idxOf b ≤ K.idxOf v := by omega
    simp [List.find?, h1, h2, this]

theorem layoutAt_three {tab : List Gen.LayoutRow} {cls : String} {L1 L2 L3 : Option Layout}
    {K : List Nat} {a b : Nat}
    (h : tab.lookup cls =
      some [(L1, before K a), (L2, before (since K a) b), (L3, since (since K a) b)])
    (hK : K.Nodup) (hb : b ∈ since K a) {v : Nat} (hv : v ∈ K) :
    layoutAt tab cls v =
      if K.idxOf b ≤ K.idxOf v ∧ K.idxOf a ≤ K.idxOf v then L3
      else if K.idxOf a ≤ K.idxOf v then L2 else L1 := by
  rw [layoutAt_lookup h]
  by_cases hlt : K.idxOf v < K.idxOf a
  · have h1 : v ∈ before K a := (mem_before a v K).mpr hlt
    have : ¬ K.idxOf a ≤ K.idxOf v := by omega
    simp [List.find?, h1, this]
  · have h1 : v ∉ before K a := fun hm => hlt ((mem_before a v K).mp hm)
    have h2 : v ∈ since K a := mem_since_of K a v hv hlt
    have ha : K.idxOf a ≤ K.idxOf v := by omega
    have ev := idxOf_since K hK a v h2
    have eb := idxOf_since K hK a b hb
    by_cases hlt2 : (since K a).idxOf v < (since K a).idxOf b
    · have h3 : v ∈ before (since K a) b := (mem_before b v _).mpr hlt2
      have : ¬ K.idxOf b ≤ K.idxOf v := by omega
      simp [List.find?, h1, h3, ha, this]
    · have h3 : v ∉ before (since K a) b := fun hm => hlt2 ((mem_before b v _).mp hm)
      have h4 : v ∈ since (since K a) b := mem_since_of _ b v h2 hlt2
      have : K.idxOf b ≤ K.idxOf v := by omega
      simp [List.find?, h1, h3, h4, ha, this]

theorem since_mem_of (K : List Nat) (b v : Nat) (hv : v ∈ since K b) : v ∈ K := by
  rw [← before_append_since K b]; exact List.mem_append_right _ hv


theorem mem_since_iff (K : List Nat) (hK : K.Nodup) (b v : Nat) (hv : v ∈ K) :
    v ∈ since K b ↔ K.idxOf b ≤ K.idxOf v := by
  constructor
  · intro hs
    have hK' := hK
    rw [← before_append_since K b, List.nodup_append] at hK'
    have hnot : v ∉ before K b := fun h => hK'.2.2 v h v hs rfl
    have : ¬ K.idxOf v < K.idxOf b := fun hlt => hnot ((mem_before b v K).mpr hlt)
    omega
  · intro h; exact mem_since_of K b v hv (by omega)

theorem rank_107_le_755 : rank 107 ≤ rank 755 := by
  unfold rank; decide +kernel

theorem mem_755_since_107 : 755 ∈ since liveTables.knownProtocols 107 := by
  have h : (since liveTables.knownProtocols 107).contains 755 = true := by decide +kernel
  simpa using h

/-- `get_definition(ctx)` of the classes the play and login models hard-code, for EVERY known
version `v`, in terms of the chronological rank of `v`. -/
theorem layouts_at {v : Nat} (hv : v ∈ liveTables.knownProtocols) :
    layoutAt Gen.cbPlayLayouts "KeepAlivePacket" v =
      some [("keep_alive_id", if rank 339 ≤ rank v then .int .i64 else .varint)] ∧
    layoutAt Gen.sbPlayLayouts "KeepAlivePacket" v =
      some [("keep_alive_id", if rank 339 ≤ rank v then .int .i64 else .varint)] ∧
    layoutAt Gen.cbPlayLayouts "PlayerPositionAndLookPacket" v =
      some (posBase ++ (if rank 107 ≤ rank v then [("teleport_id", .varint)] else []) ++
        (if rank 755 ≤ rank v then [("dismount_vehicle", .bool)] else [])) ∧
    layoutAt Gen.cbPlayLayouts "DisconnectPacket" v = some discLayout ∧
    layoutAt Gen.sbPlayLayouts "PositionAndLookPacket" v = some echoLayout ∧
    layoutAt Gen.sbPlayLayouts "TeleportConfirmPacket" v =
      (if rank 107 ≤ rank v then some tcLayout else none) ∧
    layoutAt Gen.cbLoginLayouts "DisconnectPacket" v = some discLayout ∧
    layoutAt Gen.cbLoginLayouts "EncryptionRequestPacket" v = some encReqLayout ∧
    layoutAt Gen.cbLoginLayouts "SetCompressionPacket" v = some setCompLayout ∧
    layoutAt Gen.cbLoginLayouts "PluginRequestPacket" v =
      (if rank 385 ≤ rank v then some plugReqLayout else none) ∧
    layoutAt Gen.cbLoginLayouts "LoginSuccessPacket" v =
      some [("UUID", if rank 707 ≤ rank v then .uuid else .string), ("Username", .string)] ∧
    layoutAt Gen.sbLoginLayouts "LoginStartPacket" v = some loginStartLayout ∧
    layoutAt Gen.sbLoginLayouts "EncryptionResponsePacket" v = some encRespLayout ∧
    layoutAt Gen.sbLoginLayouts "PluginResponsePacket" v = none := by
  have h := layout_variants_ok
  simp only [layoutVariantsOk, Bool.and_eq_true, beq_iff_eq] at h
  obtain ⟨⟨⟨⟨⟨⟨⟨⟨⟨⟨⟨⟨⟨h1, h2⟩, h3⟩, h4⟩, h5⟩, h6⟩, h7⟩, h8⟩, h9⟩, h10⟩, h11⟩, h12⟩, h13⟩, h14⟩ := h
  have hK := known_nodup
  have m (b : Nat) : v ∈ since liveTables.knownProtocols b ↔ rank b ≤ rank v :=
    mem_since_iff _ hK b v hv
  refine ⟨?_, ?_, ?_, ?_, ?_, ?_, ?_, ?_, ?_, ?_, ?_, ?_, ?_, ?_⟩
  · rw [layoutAt_two h1 hv]; unfold rank; split <;> rfl
  · rw [layoutAt_two h2 hv]; unfold rank; split <;> rfl
  · rw [layoutAt_three h3 hK mem_755_since_107 hv]
    have := rank_107_le_755
    unfold rank at this ⊢
    by_cases ha : liveTables.knownProtocols.idxOf 107 ≤ liveTables.knownProtocols.idxOf v <;>
      by_cases hb : liveTables.knownProtocols.idxOf 755 ≤ liveTables.knownProtocols.idxOf v <;>
      simp [ha, hb]
    omega
  · rw [layoutAt_one h4, if_pos hv]
  · rw [layoutAt_one h5, if_pos hv]
  · rw [layoutAt_one h6]; simp only [m]
  · rw [layoutAt_one h7, if_pos hv]
  · rw [layoutAt_one h8, if_pos hv]
  · rw [layoutAt_one h9, if_pos hv]
  · rw [layoutAt_one h10]; simp only [m]
  · rw [layoutAt_two h11 hv]; unfold rank; split <;> rfl
  · rw [layoutAt_one h12, if_pos hv]
  · rw [layoutAt_one h13, if_pos hv]
  · rw [layoutAt_one h14]; split <;> rfl

/-! ### rows come from the tables; consequences of `rowOk` -/

theorem mem_zip3 {α β γ : Type} : ∀ (as : List α) (bs : List β) (cs : List γ) (t : α × β × γ),
    t ∈ zip3 as bs cs → t.1 ∈ as ∧ t.2.1 ∈ bs ∧ t.2.2 ∈ cs
  | [], _, _, _, h => by simp [zip3] at h
  | _ :: _, [], _, _, h => by simp [zip3] at h
  | _ :: _, _ :: _, [], _, h => by simp [zip3] at h
  | a :: as, b :: bs, c :: cs, t, h => by
    rw [zip3, List.mem_cons] at h
    rcases h with rfl | h
    · simp
    · obtain ⟨h1, h2, h3⟩ := mem_zip3 as bs cs t h
      exact ⟨List.mem_cons_of_mem _ h1, List.mem_cons_of_mem _ h2, List.mem_cons_of_mem _ h3⟩

theorem playRows_mem {r : PlayRow} (h : r ∈ playRows) :
    r.cb ∈ Gen.cbPlay ∧ r.sb ∈ Gen.sbPlay ∧ r.pr ∈ Gen.playProbe := by
  unfold playRows playRowsOf at h
  obtain ⟨t, ht, rfl⟩ := List.mem_map.mp h
  obtain ⟨h1, h2, h3⟩ := mem_zip3 _ _ _ t ht
  exact ⟨(List.mem_filter.mp h1).1, (List.mem_filter.mp h2).1, h3⟩

theorem loginRows_mem {r : LoginRow} (h : r ∈ loginRows) :
    r.cb ∈ Gen.cbLogin ∧ r.sb ∈ Gen.sbLogin ∧ r.pr ∈ Gen.loginProbe := by
  unfold loginRows loginRowsOf at h
  obtain ⟨t, ht, rfl⟩ := List.mem_map.mp h
  obtain ⟨h1, h2, h3⟩ := mem_zip3 _ _ _ t ht
  exact ⟨(List.mem_filter.mp h1).1, (List.mem_filter.mp h2).1, h3⟩

theorem lookup_mem {β : Type} : ∀ (l : List (Nat × β)) (k : Nat) (v : β),
    l.lookup k = some v → (k, v) ∈ l
  | [], _, _, h => by simp [List.lookup] at h
  | (a, b) :: l, k, v, h => by
    rw [List.lookup_cons] at h
    by_cases hk : k = a
    · subst hk; simp at h; subst h; simp
    · have : (k == a) = false := by simpa using hk
      rw [this] at h
      exact List.mem_cons_of_mem _ (lookup_mem l k v h)

/-- A profile without a "set compression" id: no well-formed packet is one. -/
theorem wf_not_setCompression (P : Profile) (h : P.setCompressionCb = none) (p : SrvPkt)
    (hwf : p.wf P = true) : isSetCompression p = false := by
  cases p with
  | setCompression t => simp [SrvPkt.wf, h] at hwf
  | _ => rfl

theorem rowOk_facts {r : PlayRow} {P : Profile} (h : rowOk r P = true) :
    P.cbDistinct = true ∧ P.sbDistinct = true ∧ unshared r P = true ∧ othersDisjoint P = true ∧
      behaviourOk P r.pr = true ∧ (P.dismount = true → P.newer107 = true) ∧
      P.teleportConfirmSb = 0 := by
  simp only [rowOk, Bool.and_eq_true, Bool.or_eq_true, Bool.not_eq_true', beq_iff_eq] at h
  obtain ⟨⟨⟨⟨⟨⟨h1, h2⟩, h3⟩, h4⟩, h5⟩, h6⟩, h7⟩ := h
  refine ⟨h1, h2, h3, h4, h5, ?_, h7⟩
  intro hd
  rcases h6 with h6 | h6
  · rw [hd] at h6; cases h6
  · exact h6

/-- `play_row` for a given profile. -/
theorem profile_facts {v : Nat} (hv : v ∈ liveTables.supportedProtocols) {P : Profile}
    (hP : profileOf v = some P) :
    ∃ r, playRowAt v = some r ∧ r ∈ playRows ∧ r.v = v ∧
      profileOfRow Gen.cbPlayNames r = some P ∧ rowOk r P = true ∧
      P.kaLong = decide (rank 339 ≤ rank v) ∧ P.newer107 = decide (rank 107 ≤ rank v) ∧
      P.dismount = decide (rank 755 ≤ rank v) ∧
      (setCompOf P).isSome = decide (rank v ≤ rank 47) ∧
      339 ∈ liveTables.knownProtocols ∧ 107 ∈ liveTables.knownProtocols ∧
      755 ∈ liveTables.knownProtocols ∧ 47 ∈ liveTables.knownProtocols := by
  obtain ⟨r, P', h1, h2, h3, h4, rest⟩ := play_row hv
  have : P' = P := by
    unfold profileOf at hP
    rw [h1] at hP
    simp only [Option.bind_some] at hP
    rw [h4] at hP
    exact Option.some.inj hP
  subst this
  exact ⟨r, h1, h2, h3, h4, rest⟩

theorem profileOf_total {v : Nat} (hv : v ∈ liveTables.supportedProtocols) :
    ∃ P, profileOf v = some P := by
  obtain ⟨r, P, h1, -, -, h4, -⟩ := play_row hv
  exact ⟨P, by unfold profileOf; rw [h1]; exact h4⟩

theorem login_facts {v : Nat} (hv : v ∈ liveTables.supportedProtocols) {L : LoginProfile}
    (hL : loginProfileOf v = some L) :
    ∃ r, loginRowAt v = some r ∧ r ∈ loginRows ∧ r.v = v ∧
      loginProfileOfRow Gen.cbLoginNames r = some L ∧
      loginShapeOk L = true ∧ loginBehaviourOk L r.pr = true ∧ loginDistinct r L = true ∧
      L.plugin = decide (rank 385 ≤ rank v) ∧
      (L.plugin && L.lsId == 0) = decide (rank 391 ≤ rank v) ∧
      L.uuidBinary = decide (rank 707 ≤ rank v) ∧
      385 ∈ liveTables.knownProtocols ∧ 391 ∈ liveTables.knownProtocols ∧
      707 ∈ liveTables.knownProtocols := by
  obtain ⟨r, L', h1, h2, h3, h4, rest⟩ := login_row hv
  have : L' = L := by
    unfold loginProfileOf at hL
    rw [h1] at hL
    simp only [Option.bind_some] at hL
    rw [h4] at hL
    exact Option.some.inj hL
  subst this
  exact ⟨r, h1, h2, h3, h4, rest⟩

theorem loginProfileOf_total {v : Nat} (hv : v ∈ liveTables.supportedProtocols) :
    ∃ L, loginProfileOf v = some L := by
  obtain ⟨r, L, h1, -, -, h4, -⟩ := login_row hv
  exact ⟨L, by unfold loginProfileOf; rw [h1]; exact h4⟩

theorem supported_757 : 757 ∈ liveTables.supportedProtocols := by decide +kernel

/-- The switch points are known protocol numbers. -/
theorem bounds_known :
    339 ∈ liveTables.knownProtocols ∧ 107 ∈ liveTables.knownProtocols ∧
    755 ∈ liveTables.knownProtocols ∧ 47 ∈ liveTables.knownProtocols ∧
    385 ∈ liveTables.knownProtocols ∧ 391 ∈ liveTables.knownProtocols ∧
    707 ∈ liveTables.knownProtocols := by
  obtain ⟨_, _, -, -, -, -, -, -, -, -, -, a, b, c, d⟩ := play_row supported_757
  obtain ⟨_, _, -, -, -, -, -, -, -, -, -, -, e, f, g⟩ := login_row supported_757
  exact ⟨a, b, c, d, e, f, g⟩

/-! ### a concrete session at protocol 757 for the non-vacuity examples -/

/-- `Session.demoSession` (protocol 757: encryption, threshold 8, a plugin request, success; two
keep-alives and a position-and-look) with the play profile the LIVE tables determine for 757
instead of the hand-written `PlayWire.p757`. -/
def demoAt757 : Session.Session :=
  { Session.demoSession with profile := (profileOf 757).getD PlayWire.p757 }

end PyCraft.VersionProfiles
