import PyCraft.Model.VersionProfiles
import PyCraft.Lemmas.Versions
import PyCraft.Props.C08
/-!
Helper lemmas for `Props/VersionProfiles.lean`: the kernel evaluation of the per-version checks on
the live tables, and what a passed check means for one supported version (`play_row`,
`login_row`), in terms of the model of `protocol_later_eq` on the live version tables.
-/
namespace PyCraft.VersionProfiles
open PyCraft PyCraft.PlayWire

/-! ### the kernel runs the checks on the live tables -/

theorem play_tables_ok : playTablesOk liveTables Gen.cbPlayNames playRows = true := by
  decide +kernel

theorem login_tables_ok : loginTablesOk liveTables Gen.cbLoginNames loginRows = true := by
  decide +kernel

theorem layout_variants_ok : layoutVariantsOk liveTables.knownProtocols = true := by
  decide +kernel

/-! ### rank of a version -/

/-- Position in `KNOWN_PROTOCOL_VERSIONS` (chronological rank). -/
def rank (v : Nat) : Nat := liveTables.knownProtocols.idxOf v

theorem supported_known {v : Nat} (h : v ∈ liveTables.supportedProtocols) :
    v ∈ liveTables.knownProtocols := by
  have := (C08.supported_projection liveRecords).2.2.2.2.1
  rw [C08.model_eq_live] at this
  exact this v h

theorem known_nodup : liveTables.knownProtocols.Nodup := by
  have := knownProtocols_nodup liveRecords
  rwa [C08.model_eq_live] at this

theorem indexE_live {v : Nat} (h : v ∈ liveTables.knownProtocols) :
    indexE liveTables v = .ok (rank v) := by
  have := indexE_known liveRecords v (by rw [C08.model_eq_live]; exact h)
  rwa [C08.model_eq_live] at this

/-- `ConnectionContext(v).protocol_later_eq(b)` on the live tables, for known `v`, `b`. -/
theorem laterEq_live {v b : Nat} (hv : v ∈ liveTables.knownProtocols)
    (hb : b ∈ liveTables.knownProtocols) :
    laterEq liveTables v b = .ok (decide (rank b ≤ rank v)) :=
  earlierEq_ok _ _ _ _ _ (indexE_live hb) (indexE_live hv)

theorem earlierEq_live {v b : Nat} (hv : v ∈ liveTables.knownProtocols)
    (hb : b ∈ liveTables.knownProtocols) :
    earlierEq liveTables v b = .ok (decide (rank v ≤ rank b)) :=
  earlierEq_ok _ _ _ _ _ (indexE_live hv) (indexE_live hb)

/-! ### `stepUp` / `stepDown` -/

theorem stepUp_mem (b : Nat) : ∀ (vs : List Nat) (fs : List Bool), stepUp vs fs b = true → b ∈ vs
  | [], _, h => by simp [stepUp] at h
  | _ :: _, [], h => by simp [stepUp] at h
  | v :: vs, f :: fs, h => by
    unfold stepUp at h
    split at h
    · next hvb => simp only [beq_iff_eq] at hvb; simp [hvb]
    · simp only [Bool.and_eq_true] at h
      exact List.mem_cons_of_mem _ (stepUp_mem b vs fs h.2)

theorem stepDown_mem (b : Nat) :
    ∀ (vs : List Nat) (fs : List Bool), stepDown vs fs b = true → b ∈ vs
  | [], _, h => by simp [stepDown] at h
  | _ :: _, [], h => by simp [stepDown] at h
  | v :: vs, f :: fs, h => by
    unfold stepDown at h
    split at h
    · next hvb => simp only [beq_iff_eq] at hvb; simp [hvb]
    · simp only [Bool.and_eq_true] at h
      exact List.mem_cons_of_mem _ (stepDown_mem b vs fs h.2)

/-- Along a list sorted by `idx`, a `stepUp` flag is the comparison with the switch point. -/
theorem stepUp_zip (idx : Nat → Nat) (b : Nat) :
    ∀ (vs : List Nat) (fs : List Bool), stepUp vs fs b = true →
      (vs.map idx).Pairwise (· < ·) → ∀ p ∈ vs.zip fs, p.2 = decide (idx b ≤ idx p.1)
  | [], _, h, _, _, _ => by simp [stepUp] at h
  | _ :: _, [], h, _, _, _ => by simp [stepUp] at h
  | v :: vs, f :: fs, h, hs, p, hp => by
    rw [List.map_cons, List.pairwise_cons] at hs
    rw [List.zip_cons_cons, List.mem_cons] at hp
    unfold stepUp at h
    split at h
    · next hvb =>
      simp only [beq_iff_eq] at hvb
      simp only [Bool.and_eq_true, List.all_eq_true, id_eq, beq_iff_eq] at h
      rcases hp with rfl | hp
      · simp [hvb, h.1.1]
      · have h1 : p.2 = true := h.1.2 _ (List.of_mem_zip hp).2
        have h2 : idx v < idx p.1 := hs.1 _ (List.mem_map_of_mem (List.of_mem_zip hp).1)
        rw [h1, ← hvb]; simp; omega
    · simp only [Bool.and_eq_true, Bool.not_eq_true'] at h
      rcases hp with rfl | hp
      · have hb : idx v < idx b := hs.1 _ (List.mem_map_of_mem (stepUp_mem b vs fs h.2))
        simp [h.1]; omega
      · exact stepUp_zip idx b vs fs h.2 hs.2 p hp

theorem stepDown_zip (idx : Nat → Nat) (b : Nat) :
    ∀ (vs : List Nat) (fs : List Bool), stepDown vs fs b = true →
      (vs.map idx).Pairwise (· < ·) → ∀ p ∈ vs.zip fs, p.2 = decide (idx p.1 ≤ idx b)
  | [], _, h, _, _, _ => by simp [stepDown] at h
  | _ :: _, [], h, _, _, _ => by simp [stepDown] at h
  | v :: vs, f :: fs, h, hs, p, hp => by
    rw [List.map_cons, List.pairwise_cons] at hs
    rw [List.zip_cons_cons, List.mem_cons] at hp
    unfold stepDown at h
    split at h
    · next hvb =>
      simp only [beq_iff_eq] at hvb
      simp only [Bool.and_eq_true, List.all_eq_true, Bool.not_eq_true', beq_iff_eq] at h
      rcases hp with rfl | hp
      · simp [hvb, h.1.1]
      · have h1 : p.2 = false := h.1.2 _ (List.of_mem_zip hp).2
        have h2 : idx v < idx p.1 := hs.1 _ (List.mem_map_of_mem (List.of_mem_zip hp).1)
        rw [h1, ← hvb]; simp; omega
    · simp only [Bool.and_eq_true] at h
      rcases hp with rfl | hp
      · have hb : idx v < idx b := hs.1 _ (List.mem_map_of_mem (stepDown_mem b vs fs h.2))
        simp [h.1]; omega
      · exact stepDown_zip idx b vs fs h.2 hs.2 p hp

theorem mem_zip_map {α : Type} (key : α → Nat) (f : α → Bool) :
    ∀ (rows : List α) (r : α), r ∈ rows → (key r, f r) ∈ (rows.map key).zip (rows.map f)
  | [], _, h => by simp at h
  | a :: rows, r, h => by
    rw [List.map_cons, List.map_cons, List.zip_cons_cons, List.mem_cons]
    rcases List.mem_cons.mp h with rfl | h
    · exact Or.inl rfl
    · exact Or.inr (mem_zip_map key f rows r h)

theorem stepUp_rows {α : Type} (idx : Nat → Nat) (key : α → Nat) (f : α → Bool) (b : Nat)
    (rows : List α) (h : stepUp (rows.map key) (rows.map f) b = true)
    (hs : ((rows.map key).map idx).Pairwise (· < ·)) (r : α) (hr : r ∈ rows) :
    f r = decide (idx b ≤ idx (key r)) :=
  stepUp_zip idx b _ _ h hs _ (mem_zip_map key f rows r hr)

theorem stepDown_rows {α : Type} (idx : Nat → Nat) (key : α → Nat) (f : α → Bool) (b : Nat)
    (rows : List α) (h : stepDown (rows.map key) (rows.map f) b = true)
    (hs : ((rows.map key).map idx).Pairwise (· < ·)) (r : α) (hr : r ∈ rows) :
    f r = decide (idx (key r) ≤ idx b) :=
  stepDown_zip idx b _ _ h hs _ (mem_zip_map key f rows r hr)

/-! ### finding the row of a version -/

theorem find_row {α : Type} (key : α → Nat) (rows : List α) (v : Nat)
    (hv : v ∈ rows.map key) :
    ∃ r, rows.find? (fun r => key r == v) = some r ∧ r ∈ rows ∧ key r = v := by
  obtain ⟨r0, hr0, hk⟩ := List.mem_map.mp hv
  cases hf : rows.find? (fun r => key r == v) with
  | none =>
    have := List.find?_eq_none.mp hf r0 hr0
    simp [hk] at this
  | some r =>
    exact ⟨r, rfl, List.mem_of_find?_eq_some hf, by simpa using List.find?_some hf⟩

/-! ### what a row that determines a profile says -/

theorem profileOfRow_some {names : List (String × String)} {r : PlayRow} {P : Profile}
    (h : profileOfRow names r = some P) :
    (∃ c, dispatchIn r.cb.2.2 names "keep alive" = some (c, P.kaCb)) ∧
    (∃ c, dispatchIn r.cb.2.2 names "player position and look" = some (c, P.posLookCb)) ∧
    (∃ c, dispatchIn r.cb.2.2 names "disconnect" = some (c, P.disconnectCb)) ∧
    kaLongOfProbe r.pr = some P.kaLong ∧
    posFlagsOfProbe r.pr = some (P.newer107, P.dismount) ∧
    idIn r.sb.2.2 "KeepAlivePacket" = some P.kaSb ∧
    idIn r.sb.2.2 "PositionAndLookPacket" = some P.posLookSb ∧
    tcOf P.newer107 r.sb.2.2 = some P.teleportConfirmSb ∧
    r.sb.1 = r.v ∧ r.pr.v = r.v ∧ r.cb.2.1 = true ∧ r.sb.2.1 = true ∧
    P.others = othersOf r.cb.2.2 names := by
  unfold profileOfRow at h
  simp only [Option.bind_eq_bind, Option.bind_eq_some_iff] at h
  obtain ⟨ka, hka, pos, hpos, disc, hdisc, kl, hkl, fl, hfl, kaSb, hkaSb, pl, hpl, tc, htc, h⟩ := h
  split at h
  · next hg =>
    cases h
    exact ⟨⟨ka.1, hka⟩, ⟨pos.1, hpos⟩, ⟨disc.1, hdisc⟩, hkl, hfl, hkaSb, hpl, htc, hg.1, hg.2.1,
      hg.2.2.1, hg.2.2.2, rfl⟩
  · cases h

theorem kaLongOfProbe_some {pr : Gen.PlayProbe} {b : Bool} (h : kaLongOfProbe pr = some b) :
    b = (pr.kaRead == 1) ∧ pr.kaWrite = pr.kaRead ∧ (pr.kaRead = 0 ∨ pr.kaRead = 1) := by
  unfold kaLongOfProbe at h
  split at h
  · next hc => cases h; simp [hc.1, hc.2]
  · split at h
    · next hc => cases h; simp [hc.1, hc.2]
    · cases h

theorem posFlagsOfProbe_some {pr : Gen.PlayProbe} {a b : Bool}
    (h : posFlagsOfProbe pr = some (a, b)) :
    a = (pr.posRead != 0) ∧ b = (pr.posRead == 2) ∧ pr.posRead ≤ 2 := by
  unfold posFlagsOfProbe at h
  split at h
  · next hc => cases h; simp [hc]
  · split at h
    · next hc => cases h; simp [hc]
    · split at h
      · next hc => cases h; simp [hc]
      · cases h

theorem playRows_versions : playRows.map (·.v) = liveTables.supportedProtocols := by
  have h := play_tables_ok
  simp only [playTablesOk, Bool.and_eq_true, beq_iff_eq] at h
  exact h.1.1

theorem playRows_sorted : ((playRows.map (·.v)).map rank).Pairwise (· < ·) := by
  rw [playRows_versions]; exact C08.supported_sorted_by_index

/-- What the passed play check means for one supported version. -/
theorem play_row {v : Nat} (hv : v ∈ liveTables.supportedProtocols) :
    ∃ r P, playRowAt v = some r ∧ r ∈ playRows ∧ r.v = v ∧
      profileOfRow Gen.cbPlayNames r = some P ∧ rowOk r P = true ∧
      P.kaLong = decide (rank 339 ≤ rank v) ∧ P.newer107 = decide (rank 107 ≤ rank v) ∧
      P.dismount = decide (rank 755 ≤ rank v) ∧
      (setCompOf P).isSome = decide (rank v ≤ rank 47) ∧
      339 ∈ liveTables.knownProtocols ∧ 107 ∈ liveTables.knownProtocols ∧
      755 ∈ liveTables.knownProtocols ∧ 47 ∈ liveTables.knownProtocols := by
  have h := play_tables_ok
  simp only [playTablesOk, playSwitchesOk, Bool.and_eq_true, beq_iff_eq, List.all_eq_true] at h
  obtain ⟨⟨hvs, hall⟩, ⟨⟨s1, s2⟩, s3⟩, s4⟩ := h
  obtain ⟨r, hfind, hmem, hrv⟩ := find_row (·.v) playRows v (by rw [hvs]; exact hv)
  have hok := hall r hmem
  unfold playRowOk at hok
  cases hP : profileOfRow Gen.cbPlayNames r with
  | none => rw [hP] at hok; cases hok
  | some P =>
    rw [hP] at hok
    obtain ⟨-, -, -, hkl, hfl, -, -, -, -, -, -, -, -⟩ := profileOfRow_some hP
    obtain ⟨e1, -, -⟩ := kaLongOfProbe_some hkl
    obtain ⟨e2, e3, -⟩ := posFlagsOfProbe_some hfl
    have hb : behaviourOk P r.pr = true := by
      simp only [rowOk, Bool.and_eq_true] at hok; exact hok.1.1.2
    have hsc : r.pr.setComp = setCompOf P := by
      simp only [behaviourOk, Bool.and_eq_true, beq_iff_eq] at hb; exact hb.2
    have k (b : Nat) (hb : b ∈ playRows.map (·.v)) : b ∈ liveTables.knownProtocols :=
      supported_known (by rw [← hvs]; exact hb)
    refine ⟨r, P, hfind, hmem, hrv, hP, hok, ?_, ?_, ?_, ?_, k _ (stepUp_mem _ _ _ s1),
      k _ (stepUp_mem _ _ _ s2), k _ (stepUp_mem _ _ _ s3), k _ (stepDown_mem _ _ _ s4)⟩
    · have := stepUp_rows rank (fun x : PlayRow => x.v) (fun r => r.pr.kaRead == 1) 339 playRows s1
        playRows_sorted r hmem
      rw [e1, ← hrv]; exact this
    · have := stepUp_rows rank (fun x : PlayRow => x.v) (fun r => r.pr.posRead != 0) 107 playRows s2
        playRows_sorted r hmem
      rw [e2, ← hrv]; exact this
    · have := stepUp_rows rank (fun x : PlayRow => x.v) (fun r => r.pr.posRead == 2) 755 playRows s3
        playRows_sorted r hmem
      rw [e3, ← hrv]; exact this
    · have := stepDown_rows rank (fun x : PlayRow => x.v) (fun r => r.pr.setComp.isSome) 47 playRows
        s4 playRows_sorted r hmem
      rw [← hsc, ← hrv]; exact this

/-! ### login -/

theorem loginProfileOfRow_some {names : List (String × String)} {r : LoginRow} {L : LoginProfile}
    (h : loginProfileOfRow names r = some L) :
    (∃ c, dispatchIn r.cb.2.2 names "disconnect" = some (c, L.discCb)) ∧
    (∃ c, dispatchIn r.cb.2.2 names "encryption request" = some (c, L.encReqCb)) ∧
    (∃ c, dispatchIn r.cb.2.2 names "login success" = some (c, L.successCb)) ∧
    (∃ c, dispatchIn r.cb.2.2 names "set compression" = some (c, L.setCompCb)) ∧
    (dispatchIn r.cb.2.2 names "login plugin request").map (·.2) = L.plugReqCb ∧
    idIn r.sb.2.2 "LoginStartPacket" = some L.lsId ∧
    idIn r.sb.2.2 "EncryptionResponsePacket" = some L.ids.encResp ∧
    L.ids.plugResp = (idIn r.sb.2.2 "PluginResponsePacket").getD r.pr.plugRespId ∧
    L.plugin = (idIn r.sb.2.2 "PluginResponsePacket").isSome ∧
    L.plugReqCb.isSome = L.plugin ∧
    uuidOfProbe r.pr = some L.uuidBinary ∧
    r.sb.1 = r.v ∧ r.pr.v = r.v ∧ r.cb.2.1 = true ∧ r.sb.2.1 = true := by
  unfold loginProfileOfRow at h
  simp only [Option.bind_eq_bind, Option.bind_eq_some_iff] at h
  obtain ⟨disc, hdisc, er, her, su, hsu, sc, hsc, ls, hls, enc, henc, uu, huu, h⟩ := h
  split at h
  · next hg =>
    cases h
    refine ⟨⟨disc.1, hdisc⟩, ⟨er.1, her⟩, ⟨su.1, hsu⟩, ⟨sc.1, hsc⟩, rfl, hls, henc, rfl, rfl, ?_, huu,
      hg.1, hg.2.1, hg.2.2.1, hg.2.2.2.1⟩
    simp only [Option.isSome_map]
    exact hg.2.2.2.2.2
  · cases h

theorem uuidOfProbe_some {pr : Gen.LoginProbe} {b : Bool} (h : uuidOfProbe pr = some b) :
    b = (pr.successKind == 1) := by
  unfold uuidOfProbe at h
  split at h
  · next hc => cases h; simp [hc]
  · split at h
    · next hc => cases h; simp [hc]
    · cases h

theorem loginRows_versions : loginRows.map (·.v) = liveTables.supportedProtocols := by
  have h := login_tables_ok
  simp only [loginTablesOk, Bool.and_eq_true, beq_iff_eq] at h
  exact h.1.1

theorem loginRows_sorted : ((loginRows.map (·.v)).map rank).Pairwise (· < ·) := by
  rw [loginRows_versions]; exact C08.supported_sorted_by_index

/-- What the passed login check means for one supported version. -/
theorem login_row {v : Nat} (hv : v ∈ liveTables.supportedProtocols) :
    ∃ r L, loginRowAt v = some r ∧ r ∈ loginRows ∧ r.v = v ∧
      loginProfileOfRow Gen.cbLoginNames r = some L ∧
      loginShapeOk L = true ∧ loginBehaviourOk L r.pr = true ∧ loginDistinct r L = true ∧
      L.plugin = decide (rank 385 ≤ rank v) ∧
      (L.plugin && L.lsId == 0) = decide (rank 391 ≤ rank v) ∧
      L.uuidBinary = decide (rank 707 ≤ rank v) ∧
      385 ∈ liveTables.knownProtocols ∧ 391 ∈ liveTables.knownProtocols ∧
      707 ∈ liveTables.knownProtocols := by
  have h := login_tables_ok
  simp only [loginTablesOk, loginSwitchesOk, Bool.and_eq_true, beq_iff_eq, List.all_eq_true] at h
  obtain ⟨⟨hvs, hall⟩, ⟨s1, s2⟩, s3⟩ := h
  obtain ⟨r, hfind, hmem, hrv⟩ := find_row (·.v) loginRows v (by rw [hvs]; exact hv)
  have hok := hall r hmem
  unfold loginRowOk at hok
  cases hL : loginProfileOfRow Gen.cbLoginNames r with
  | none => rw [hL] at hok; cases hok
  | some L =>
    rw [hL] at hok
    have hok' : (loginShapeOk L && loginBehaviourOk L r.pr && loginDistinct r L) = true := hok
    simp only [Bool.and_eq_true] at hok'
    obtain ⟨⟨hshape, hbeh⟩, hdist⟩ := hok'
    obtain ⟨-, -, -, -, -, -, -, -, -, hpl, huu, -, -, -, -⟩ := loginProfileOfRow_some hL
    have e3 := uuidOfProbe_some huu
    have hb := hbeh
    simp only [loginBehaviourOk, Bool.and_eq_true, beq_iff_eq] at hb
    have e1 : L.plugin = r.pr.plugReqCb.isSome := by
      rw [← hpl, hb.1.1.1.1.1.1.2]
    have e2 : (L.plugin && L.lsId == 0) = (r.pr.plugReqCb.isSome && r.pr.lsId == 0) := by
      rw [e1, hb.1.1.1.1.1.1.1.1.1.1.1]
    have k (b : Nat) (hb : b ∈ loginRows.map (·.v)) : b ∈ liveTables.knownProtocols :=
      supported_known (by rw [← hvs]; exact hb)
    refine ⟨r, L, hfind, hmem, hrv, hL, hshape, hbeh, hdist, ?_, ?_, ?_,
      k _ (stepUp_mem _ _ _ s1), k _ (stepUp_mem _ _ _ s2), k _ (stepUp_mem _ _ _ s3)⟩
    · have := stepUp_rows rank (fun x : LoginRow => x.v) (fun r => r.pr.plugReqCb.isSome) 385
        loginRows s1 loginRows_sorted r hmem
      rw [e1, ← hrv]; exact this
    · have := stepUp_rows rank (fun x : LoginRow => x.v)
        (fun r => r.pr.plugReqCb.isSome && r.pr.lsId == 0) 391 loginRows s2 loginRows_sorted r hmem
      rw [e2, ← hrv]; exact this
    · have := stepUp_rows rank (fun x : LoginRow => x.v) (fun r => r.pr.successKind == 1) 707
        loginRows s3 loginRows_sorted r hmem
      rw [e3, ← hrv]; exact this

end PyCraft.VersionProfiles
