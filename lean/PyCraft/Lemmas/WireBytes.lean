import PyCraft.Model.WireBytes
import PyCraft.Lemmas.FrameViews
import PyCraft.Lemmas.Writers
import PyCraft.Lemmas.Cfb8
/-!
Helper lemmas for `Props/C12Bytes.lean`: the bytes of a wire made of whole frames, the open length
prefix, reduction of the encrypted reader to the plain one, and the bridge between `encSends`
(`Model/Frame.lean`) and the CFB8 chunk functions / wrapper model of `Model/Cfb8.lean`.
-/
namespace PyCraft.Writers
open PyCraft

variable (z : ZlibOps) (thr : Option Int) (payload : Pkt → Bytes)

theorem chunkBytes_zero (p : Pkt) :
    chunkBytes z thr payload (p, 0) = encVarInt (frameBody z thr (payload p)).length := rfl

theorem chunkBytes_one (p : Pkt) :
    chunkBytes z thr payload (p, 1) = frameBody z thr (payload p) := rfl

theorem sendsOf_append (a b : List Chunk) :
    sendsOf z thr payload (a ++ b) = sendsOf z thr payload a ++ sendsOf z thr payload b := by
  simp [sendsOf]

theorem bytesOf_append (a b : List Chunk) :
    bytesOf z thr payload (a ++ b) = bytesOf z thr payload a ++ bytesOf z thr payload b := by
  simp [bytesOf, sendsOf_append]

theorem bytesOf_open (p : Pkt) :
    bytesOf z thr payload [(p, 0)] = encVarInt (frameBody z thr (payload p)).length := by
  simp [bytesOf, sendsOf, chunkBytes_zero]

/-- whole frames on the abstract wire are exactly the `frameSends` of their packets … -/
theorem sendsOf_frames (ps : List Pkt) :
    sendsOf z thr payload (frames ps) = ps.flatMap fun p => frameSends z thr (payload p) := by
  induction ps with
  | nil => rfl
  | cons p ps ih =>
    have : frames (p :: ps) = [(p, 0), (p, 1)] ++ frames ps := by simp [frames]
    rw [this, sendsOf_append, ih]
    rfl

/-- … and their bytes are the concatenated frames. -/
theorem bytesOf_frames (ps : List Pkt) :
    bytesOf z thr payload (frames ps) = (ps.map fun p => frame z thr (payload p)).flatten := by
  induction ps with
  | nil => rfl
  | cons p ps ih =>
    have : frames (p :: ps) = [(p, 0), (p, 1)] ++ frames ps := by simp [frames]
    rw [this, bytesOf_append, ih]
    simp [bytesOf, sendsOf, chunkBytes_zero, chunkBytes_one, frame]

/-- the packet buffer is never empty (it starts with the id) … -/
theorem payloadOf_ne_nil (content : Pkt → Nat × Bytes) (p : Pkt) : payloadOf content p ≠ [] := by
  intro h
  have := congrArg List.length h
  simp only [payloadOf, packetPayload, List.length_append, List.length_nil] at this
  have := enc_length_pos (content p).1
  omega

/-- … hence neither is the frame body, whatever the threshold and `deflate` do. -/
theorem frameBody_ne_nil (pl : Bytes) (h : pl ≠ []) : frameBody z thr pl ≠ [] := by
  intro h0
  have hl := congrArg List.length h0
  cases thr with
  | none => exact h h0
  | some t =>
    simp only [frameBody] at hl
    split at hl <;>
      · simp only [List.length_append, List.length_nil] at hl
        have := enc_length_pos pl.length
        have := enc_length_pos 0
        omega

theorem map_frame_content (content : Pkt → Nat × Bytes) (ps : List Pkt) :
    (ps.map fun p => frame z thr (payloadOf content p)) =
      (ps.map content).map (packetFrame z thr) := by
  simp [List.map_map, Function.comp_def, packetFrame, payloadOf]

/-- the open length prefix is a strict prefix of its packet's frame -/
theorem open_prefix_strict (content : Pkt → Nat × Bytes) (p : Pkt) :
    bytesOf z thr (payloadOf content) [(p, 0)] ++ frameBody z thr (payloadOf content p) =
        packetFrame z thr (content p) ∧
      frameBody z thr (payloadOf content p) ≠ [] :=
  ⟨by rw [bytesOf_open]; rfl, frameBody_ne_nil z thr _ (payloadOf_ne_nil content p)⟩

/-! ### the encrypted reader on a chunk-wise encrypted stream is the plain reader on the plain text -/

theorem readAllEnc_encSends {σ : Type} (cp : CipherPair σ) (s0 : σ) (c : Bool) (sends : List Bytes)
    (segs : Segs) (hseg : segs.flatten = (encSends cp.enc s0 sends).2.flatten) :
    readAllEnc cp.dec s0 z c segs = readAll z c [sends.flatten] := by
  rw [readAllEnc_spec, hseg, encSends_flatten, (cp.inv s0 _).1, readAll_spec]
  simp

/-! ### `encSends` over the CFB8 encryptor is `cfb8EncChunks`; the wrapper model -/

theorem encSends_cfb8 (E : Bytes → Bytes) : ∀ (ds : List Bytes) (reg : Bytes),
    encSends (cfb8EncX E) reg ds = cfb8EncChunks E reg ds := by
  intro ds
  induction ds with
  | nil => intro reg; rfl
  | cons d ds ih =>
    intro reg
    simp only [encSends, cfb8EncChunks, updates]
    rw [ih]
    rfl

theorem flatMap_sent_filter (ops : List PyCraft.Op) :
    ops.flatMap PyCraft.Op.sent = (ops.filter PyCraft.Op.isSend).flatMap PyCraft.Op.sent := by
  induction ops with
  | nil => rfl
  | cons op ops ih =>
    cases op <;> simp [List.filter_cons, PyCraft.Op.isSend, PyCraft.Op.sent, ih]

theorem flatMap_sent_sends (ds : List Bytes) :
    (ds.map PyCraft.Op.send).flatMap PyCraft.Op.sent = ds.flatten := by
  induction ds with
  | nil => rfl
  | cons d ds ih => simp [PyCraft.Op.sent, ih]

theorem nodup_map_on {α β : Type} (f : α → β) : ∀ (l : List α),
    (∀ a ∈ l, ∀ b ∈ l, f a = f b → a = b) → l.Nodup → (l.map f).Nodup := by
  intro l
  induction l with
  | nil => intro _ _; simp
  | cons a l ih =>
    intro hinj hn
    rw [List.nodup_cons] at hn
    rw [List.map_cons, List.nodup_cons]
    refine ⟨fun hm => ?_, ih (fun x hx y hy h => hinj x (by simp [hx]) y (by simp [hy]) h) hn.2⟩
    obtain ⟨b, hb, hfb⟩ := List.mem_map.mp hm
    have : b = a := hinj b (by simp [hb]) a (by simp) hfb
    exact hn.1 (this ▸ hb)

end PyCraft.Writers
