import PyCraft.Lemmas.LifecycleInv
/-!
The event log of `Model/Lifecycle.lean`: a thread that has not taken over has no I/O event, and
I/O events of different networking threads are separated by the first thread's `fin` event.
-/
namespace PyCraft.Life
set_option linter.unusedSimpArgs false

/-- Before the first action that may perform I/O. -/
def NPc.preIO : NPc → Bool
  | .unborn | .waitPrev | .takeOver | .tkRel => true
  | .loopChk | .wBody | .wRel | .wFailRel | .rChk | .rRead | .call _ | .callRel _ _ | .exit | .exc
  | .hRun | .hChk | .hRel | .epilogue | .epRel | .fin | .dead => false

/-- After the `finally` block. -/
def NPc.past : NPc → Bool
  | .fin | .dead => true
  | .unborn | .waitPrev | .takeOver | .tkRel | .loopChk | .wBody | .wRel | .wFailRel | .rChk
  | .rRead | .call _ | .callRel _ _ | .exit | .exc | .hRun | .hChk | .hRel | .epilogue
  | .epRel => false

theorem pc_partition (pc : NPc) : pc.preIO = true ∨ pc.ioPhase = true ∨ pc.past = true := by
  cases pc
  case call site => cases site <;> simp [NPc.preIO, NPc.ioPhase, NPc.past, NPc.phase]
  case callRel site out => cases site <;> simp [NPc.preIO, NPc.ioPhase, NPc.past, NPc.phase]
  all_goals simp [NPc.preIO, NPc.ioPhase, NPc.past, NPc.phase]

theorem afterCall_preIO (s : Sys) (site : Site) (out : Outcome) :
    (afterCall s site out).preIO = false := by
  cases site <;> simp only [afterCall] <;> repeat' split
  all_goals rfl

theorem afterCall_past (s : Sys) (site : Site) (out : Outcome) :
    (afterCall s site out).past = false := by
  cases site <;> simp only [afterCall] <;> repeat' split
  all_goals rfl

theorem ioPhase_call (site : Site) : (NPc.call site).ioPhase = true := by cases site <;> rfl

theorem ioPhase_callRel (site : Site) (out : Outcome) : (NPc.callRel site out).ioPhase = true := by
  cases site <;> rfl

/-- Every step appends exactly one event, by the stepping thread.  An I/O event of a networking
thread is emitted in an I/O phase; no thread moves back before its first I/O action; a thread gets
past its `finally` block only by its own `fin` event. -/
theorem step_event (env : List Beh) (s s' : Sys) (t : Tid) (h : LInv s)
    (hs : step env s t = some s') :
    ∃ e, s'.log = s.log ++ [(t, e)] ∧
      (∀ i, t = .net i → e.isIO = true → (s.net i).pc.ioPhase = true) ∧
      (∀ j, (s'.net j).pc.preIO = true → (s.net j).pc.preIO = true) ∧
      (∀ j, (s'.net j).pc.past = true →
        (s.net j).pc.past = true ∨ (t = .net j ∧ e = .fin ∧ (s.net j).pc.ioPhase = true)) := by
  have h3 := h.born
  step_cases hs
  all_goals
    simp only [refusedSt, directSt, succSt, discSt] at *
    refine ⟨_, rfl, ?_, ?_, ?_⟩
  all_goals grind [updN, dnet, Ev.isIO, NPc.preIO, NPc.past, NPc.ioPhase, NPc.phase,
    afterCall_preIO, afterCall_past, ioPhase_call, ioPhase_callRel]


/-! ### The log invariant -/

theorem snoc_split {α} (L P S : List α) (x y : α) (h : L ++ [x] = P ++ y :: S) :
    (∃ S', S = S' ++ [x] ∧ L = P ++ y :: S') ∨ (S = [] ∧ y = x ∧ L = P) := by
  rcases List.eq_nil_or_concat S with rfl | ⟨S', z, rfl⟩
  · right
    have := List.append_inj' h rfl
    simp_all
  · left
    have h' : L ++ [x] = (P ++ y :: S') ++ [z] := by simpa using h
    have := List.append_inj' h' rfl
    refine ⟨S', ?_, this.1⟩
    simp_all

/-- Two I/O events by different networking threads are separated by the first thread's `fin`. -/
def Sep (log : List (Tid × Ev)) : Prop :=
  ∀ l1 l2 l3 i j e1 e2, log = l1 ++ (Tid.net i, e1) :: l2 ++ (Tid.net j, e2) :: l3 →
    e1.isIO = true → e2.isIO = true → i ≠ j → (Tid.net i, Ev.fin) ∈ l2

structure LogInv (s : Sys) : Prop where
  /-- a thread that has not yet taken over has performed no I/O -/
  no_io_pre : ∀ i e, (Tid.net i, e) ∈ s.log → e.isIO = true → (s.net i).pc.preIO = false
  /-- every I/O event of a thread that is past its `finally` block is followed by its `fin` -/
  closed : ∀ i, (s.net i).pc.past = true → ∀ l1 e l2, s.log = l1 ++ (Tid.net i, e) :: l2 →
    e.isIO = true → (Tid.net i, Ev.fin) ∈ l2
  sep : Sep s.log

theorem step_loginv (env : List Beh) (s s' : Sys) (t : Tid) (h : LInv s) (hl : LogInv s)
    (hs : step env s t = some s') : LogInv s' := by
  obtain ⟨e, hlog, hio, hpre, hpast⟩ := step_event env s s' t h hs
  refine ⟨?_, ?_, ?_⟩
  · intro i ev hm hev
    rw [hlog] at hm
    rcases List.mem_append.mp hm with hm | hm
    · have := hl.no_io_pre i ev hm hev
      cases hp : (s'.net i).pc.preIO with
      | false => rfl
      | true => rw [hpre i hp] at this; cases this
    · simp only [List.mem_singleton, Prod.mk.injEq] at hm
      obtain ⟨rfl, rfl⟩ := hm
      have h1 := hio i rfl hev
      cases hp : (s'.net i).pc.preIO with
      | false => rfl
      | true =>
        have h2 := hpre i hp
        revert h1 h2
        cases (s.net i).pc <;> simp [NPc.preIO, NPc.ioPhase, NPc.phase]
  · intro i hp l1 ev l2 hsplit hev
    rw [hlog] at hsplit
    rcases snoc_split _ _ _ _ _ hsplit with ⟨l2', rfl, hL⟩ | ⟨rfl, hxy, hL⟩
    · rcases hpast i hp with hp0 | ⟨rfl, rfl, -⟩
      · exact List.mem_append_left _ (hl.closed i hp0 l1 ev l2' hL hev)
      · exact List.mem_append_right _ (by simp)
    · simp only [Prod.mk.injEq] at hxy
      obtain ⟨rfl, rfl⟩ := hxy
      have h1 := hio i rfl hev
      rcases hpast i hp with hp0 | ⟨-, rfl, -⟩
      · revert h1 hp0
        cases (s.net i).pc <;> simp [NPc.past, NPc.ioPhase, NPc.phase]
      · cases hev
  · intro l1 l2 l3 i j e1 e2 hsplit h1 h2 hij
    rw [hlog] at hsplit
    have hsplit' : s.log ++ [(t, e)] = (l1 ++ (Tid.net i, e1) :: l2) ++ (Tid.net j, e2) :: l3 := by
      simpa using hsplit
    rcases snoc_split _ _ _ _ _ hsplit' with ⟨l3', rfl, hL⟩ | ⟨rfl, hxy, hL⟩
    · exact hl.sep l1 l2 l3' i j e1 e2 (by simpa using hL) h1 h2 hij
    · simp only [Prod.mk.injEq] at hxy
      obtain ⟨rfl, rfl⟩ := hxy
      have hj := hio j rfl h2
      have hm : (Tid.net i, e1) ∈ s.log := by rw [hL]; simp
      have hi := hl.no_io_pre i e1 hm h1
      rcases pc_partition (s.net i).pc with hp | hp | hp
      · rw [hp] at hi; cases hi
      · exact absurd (io_unique s h i j hp hj) hij
      · exact hl.closed i hp l1 e1 l2 hL h1

theorem init_loginv (progs : List (List Op)) (rl rh : Nat) : LogInv (init progs rl rh) := by
  refine ⟨?_, ?_, ?_⟩
  · intro i e hm; simp [init] at hm
  · intro i _ l1 e l2 hsplit; simp [init] at hsplit
  · intro l1 l2 l3 i j e1 e2 hsplit; simp [init] at hsplit

theorem run_loginv (env : List Beh) (s : Sys) (h : LInv s) (hl : LogInv s) (sched : List Tid) :
    LogInv (run env s sched) := by
  induction sched generalizing s with
  | nil => exact hl
  | cons t ts ih =>
    simp only [run]
    split
    · next s' hs => exact ih s' (step_inv env s s' t h hs) (step_loginv env s s' t h hl hs)
    · exact ih s h hl

theorem reach_loginv (env : List Beh) (progs : List (List Op)) (rl rh : Nat) (sched : List Tid) :
    LogInv (run env (init progs rl rh) sched) :=
  run_loginv env _ (init_inv progs rl rh) (init_loginv progs rl rh) sched

end PyCraft.Life
