import PyCraft.Model.C14Compose
import PyCraft.Lemmas.Lifecycle
import PyCraft.Lemmas.LifecycleFairLive
/-!
Helper lemmas for `Props/C14Compose.lean`, concurrent part: the exception path of a networking
thread in the transition system `Model/Lifecycle.lean` — the flag set by `except Exception:
self.interrupt = True` is still set when the final block of `_handle_exception` reads it, the
thread never returns to I/O, it terminates, and unless somebody has connected in the meantime the
connection is closed and can be used again.
-/
namespace PyCraft.Life
set_option linter.unusedSimpArgs false

/-! ### Views of the program counter -/

/-- Inside `_handle_exception`, i.e. after `self.interrupt = True`. -/
def NPc.inHandler : NPc → Bool
  | .hRun | .hChk | .hRel => true
  | .call .handler | .callRel .handler _ => true
  | .call .react | .call .listen | .callRel .react _ | .callRel .listen _ => false
  | .unborn | .waitPrev | .takeOver | .tkRel | .loopChk | .wBody | .wRel | .wFailRel | .rChk
  | .rRead | .exit | .exc | .epilogue | .epRel | .fin | .dead => false

/-- From the `except` clause of `run` to the death of the thread. -/
def NPc.onExcPath : NPc → Bool
  | .exc | .hRun | .hChk | .hRel | .epilogue | .epRel | .fin | .dead => true
  | .call .handler | .callRel .handler _ => true
  | .call .react | .call .listen | .callRel .react _ | .callRel .listen _ => false
  | .unborn | .waitPrev | .takeOver | .tkRel | .loopChk | .wBody | .wRel | .wFailRel | .rChk
  | .rRead | .exit => false

/-- After the final locked block of `_handle_exception` (for a thread on the exception path). -/
def NPc.pastChk : NPc → Bool
  | .hRel | .epilogue | .epRel | .fin | .dead => true
  | .unborn | .waitPrev | .takeOver | .tkRel | .loopChk | .wBody | .wRel | .wFailRel | .rChk
  | .rRead | .call _ | .callRel _ _ | .exit | .exc | .hRun | .hChk => false

/-- Events of the packet loop: reading the own flag, the write phase, `read_packet`, the exit
callback. -/
def Ev.isLoop : Ev → Bool
  | .chk _ | .wr _ | .wrFail | .rd _ _ | .exit => true
  | _ => false

theorem inHandler_callRel (site : Site) (out : Outcome) :
    (NPc.callRel site out).inHandler = (NPc.call site).inHandler := by cases site <;> rfl

theorem onExcPath_callRel (site : Site) (out : Outcome) :
    (NPc.callRel site out).onExcPath = (NPc.call site).onExcPath := by cases site <;> rfl

theorem afterCall_inHandler (s : Sys) (site : Site) (out : Outcome) :
    (afterCall s site out).inHandler = (NPc.call site).inHandler := by
  cases site <;> simp only [afterCall] <;> repeat' split
  all_goals rfl

theorem afterCall_pastChk (s : Sys) (site : Site) (out : Outcome) :
    (afterCall s site out).pastChk = false := by
  cases site <;> simp only [afterCall] <;> repeat' split
  all_goals rfl

theorem afterCall_onExcPath (s : Sys) (site : Site) (out : Outcome)
    (h : (NPc.call site).onExcPath = true) : (afterCall s site out).onExcPath = true := by
  cases site <;> simp_all [afterCall, NPc.onExcPath]

/-! ### The flag is set throughout `_handle_exception` -/

/-- Every thread inside `_handle_exception` has its `interrupt` flag set. -/
def HInv (s : Sys) : Prop := ∀ i, (s.net i).pc.inHandler = true → (s.net i).intr = true

theorem hinv_step (env : List Beh) (s s' : Sys) (t : Tid) (h : LInv s) (hh : HInv s)
    (hs : step env s t = some s') : HInv s' := by
  have h3 := h.born
  unfold HInv at hh ⊢
  step_cases hs
  all_goals
    intro j; have hj := hh j; have h3j := h3 j
    simp only [refusedSt, directSt, succSt, discSt] at *
  all_goals grind [updN, dnet, NPc.inHandler, afterCall_inHandler, inHandler_callRel]

theorem init_hinv (progs : List (List Op)) (rl rh : Nat) : HInv (init progs rl rh) := by
  intro i h; simp [init, NPc.inHandler] at h

theorem run_hinv (env : List Beh) : ∀ (sched : List Tid) (s : Sys), LInv s → HInv s →
    HInv (run env s sched) := by
  intro sched
  induction sched with
  | nil => intro s _ hh; exact hh
  | cons t ts ih =>
    intro s h hh
    simp only [run]
    cases hst : step env s t with
    | none => exact ih s h hh
    | some s' => exact ih s' (step_inv env s s' t h hst) (hinv_step env s s' t h hh hst)

theorem reach_hinv (env : List Beh) (progs : List (List Op)) (rl rh : Nat) (sched : List Tid) :
    HInv (run env (init progs rl rh) sched) :=
  run_hinv env sched _ (init_inv progs rl rh) (init_hinv progs rl rh)

/-! ### The exception path is never left -/

theorem onExcPath_step (env : List Beh) (s s' : Sys) (t : Tid) (h : LInv s)
    (hs : step env s t = some s') (i : Nat) (hp : (s.net i).pc.onExcPath = true) :
    (s'.net i).pc.onExcPath = true := by
  have h3 := h.born i
  step_cases hs
  all_goals simp only [refusedSt, directSt, succSt, discSt] at *
  all_goals grind [updN, dnet, NPc.onExcPath, afterCall_onExcPath, onExcPath_callRel]

/-- A thread on the exception path emits no event of the packet loop. -/
theorem onExcPath_event (env : List Beh) (s s' : Sys) (i : Nat)
    (hs : step env s (.net i) = some s') (hp : (s.net i).pc.onExcPath = true) :
    ∃ e, s'.log = s.log ++ [(.net i, e)] ∧ e.isLoop = false := by
  step_cases hs
  all_goals simp only [refusedSt, directSt, succSt, discSt] at *
  all_goals grind [NPc.onExcPath, Ev.isLoop]

theorem step_log (env : List Beh) (s s' : Sys) (t : Tid) (hs : step env s t = some s') :
    ∃ e, s'.log = s.log ++ [(t, e)] := by
  step_cases hs
  all_goals simp only [refusedSt, directSt, succSt, discSt]
  all_goals exact ⟨_, rfl⟩

/-- Under any schedule a thread on the exception path stays on it, and everything it appends to
the log is outside the packet loop. -/
theorem onExcPath_run (env : List Beh) (i : Nat) : ∀ (more : List Tid) (s : Sys), LInv s →
    (s.net i).pc.onExcPath = true →
    ((run env s more).net i).pc.onExcPath = true ∧
    ∃ ext, (run env s more).log = s.log ++ ext ∧
      ∀ e, (Tid.net i, e) ∈ ext → e.isLoop = false := by
  intro more
  induction more with
  | nil => intro s _ hp; exact ⟨hp, [], by simp [run], fun _ h => by cases h⟩
  | cons t ts ih =>
    intro s h hp
    simp only [run]
    cases hst : step env s t with
    | none => exact ih s h hp
    | some s' =>
      obtain ⟨a, ext, b, c⟩ := ih s' (step_inv env s s' t h hst)
        (onExcPath_step env s s' t h hst i hp)
      refine ⟨a, ?_⟩
      by_cases ht : t = .net i
      · subst ht
        obtain ⟨e, he, hl⟩ := onExcPath_event env s s' i hst hp
        refine ⟨(.net i, e) :: ext, by rw [b, he]; simp, ?_⟩
        intro e' hm
        rcases List.mem_cons.mp hm with hm | hm
        · cases hm; exact hl
        · exact c e' hm
      · obtain ⟨e, he⟩ := step_log env s s' t hst
        refine ⟨(t, e) :: ext, by rw [b, he]; simp, ?_⟩
        intro e' hm
        rcases List.mem_cons.mp hm with hm | hm
        · cases hm; exact absurd rfl ht
        · exact c e' hm

/-! ### Bounded number of own steps, termination -/

/-- Every own step of a thread that is interrupted OR at the `except` clause decreases its rank. -/
theorem rank_own' (env : List Beh) (s s' : Sys) (i : Nat) (h : LInv s)
    (hs : step env s (.net i) = some s')
    (hi : (s.net i).intr = true ∨ (s.net i).pc = .exc) :
    (s'.net i).pc.rank < (s.net i).pc.rank ∧ (s'.net i).intr = true := by
  rcases hi with hi | hi
  · have hb : (s.net i).pc ≠ .unborn := by
      intro hc
      simp [step, stepNet, hc] at hs
    exact ⟨rank_own env s s' i h hs hi, intr_sticky env s s' _ h hs i hb hi⟩
  · simp only [step, stepNet, hi, Option.some.injEq] at hs
    subst hs
    simp [updN, hi, NPc.rank]

/-- Under ANY schedule a thread that is at the `except` clause of `run` (or already interrupted)
executes at most `rank` more actions. -/
theorem rank_run' (env : List Beh) (sched : List Tid) (i : Nat) :
    ∀ s, LInv s → (s.net i).pc ≠ .unborn → ((s.net i).intr = true ∨ (s.net i).pc = .exc) →
      ((run env s sched).net i).pc.rank + stepsOf env s (.net i) sched ≤ (s.net i).pc.rank := by
  induction sched with
  | nil => intro s _ _ _; simp [run, stepsOf]
  | cons u us ih =>
    intro s h hb hi
    simp only [run, stepsOf]
    cases hst : step env s u with
    | none => exact ih s h hb hi
    | some s' =>
      have h' := step_inv env s s' u h hst
      by_cases hu : u = .net i
      · subst hu
        obtain ⟨hr, hi'⟩ := rank_own' env s s' i h hst hi
        have hb' : (s'.net i).pc ≠ .unborn := by
          intro hc; rw [hc] at hr
          have := rank_le (s.net i).pc
          have h23 : NPc.unborn.rank = 23 := rfl
          omega
        have := ih s' h' hb' (.inl hi')
        simp only [if_true]; omega
      · have hpc := pc_other env s s' u h hst i hb hu
        have hi' : (s'.net i).intr = true ∨ (s'.net i).pc = .exc := by
          rcases hi with hi | hi
          · exact .inl (intr_sticky env s s' u h hst i hb hi)
          · exact .inr (by rw [hpc]; exact hi)
        have := ih s' h' (by rw [hpc]; exact hb) hi'
        simp only [hu, if_false]; rw [hpc] at this; omega

/-- "Interrupted, or still at the `except` clause" is stable, and the thread object stays. -/
theorem exc_or_intr_run (env : List Beh) (i : Nat) : ∀ (sched : List Tid) (s : Sys), LInv s →
    (s.net i).pc ≠ .unborn → ((s.net i).intr = true ∨ (s.net i).pc = .exc) →
      ((run env s sched).net i).intr = true ∨ ((run env s sched).net i).pc = .exc := by
  intro sched
  induction sched with
  | nil => intro s _ _ hi; exact hi
  | cons u us ih =>
    intro s h hb hi
    simp only [run]
    cases hst : step env s u with
    | none => exact ih s h hb hi
    | some s' =>
      have h' := step_inv env s s' u h hst
      by_cases hu : u = .net i
      · subst hu
        obtain ⟨hr, hi'⟩ := rank_own' env s s' i h hst hi
        have hb' : (s'.net i).pc ≠ .unborn := by
          intro hc; rw [hc] at hr
          have := rank_le (s.net i).pc
          have h23 : NPc.unborn.rank = 23 := rfl
          omega
        exact ih s' h' hb' (.inl hi')
      · have hpc := pc_other env s s' u h hst i hb hu
        have hi' : (s'.net i).intr = true ∨ (s'.net i).pc = .exc := by
          rcases hi with hi | hi
          · exact .inl (intr_sticky env s s' u h hst i hb hi)
          · exact .inr (by rw [hpc]; exact hi)
        exact ih s' h' (by rw [hpc]; exact hb) hi'

/-- The action at the `except` clause is always enabled; it sets the flag and enters
`_handle_exception`. -/
theorem exc_step (env : List Beh) (s : Sys) (i : Nat) (hpc : (s.net i).pc = .exc) :
    ∃ s', step env s (.net i) = some s' ∧ (s'.net i).intr = true ∧ (s'.net i).pc = .hRun ∧
      s'.shared = s.shared ∧ ∀ j, j ≠ i → s'.net j = s.net j := by
  refine ⟨{ s with net := updN s i { s.net i with intr := true, pc := .hRun },
                   log := s.log ++ [(.net i, .exc)] },
    by simp only [step, stepNet, hpc], by simp [updN], by simp [updN], rfl, ?_⟩
  intro j hj
  simp [updN, hj]

/-- From the `except` clause, some schedule of at most 48 entries kills the thread. -/
theorem exc_can_terminate (env : List Beh) (s : Sys) (h : LInv s) (i : Nat)
    (hpc : (s.net i).pc = .exc) :
    ∃ sched, sched.length ≤ 48 ∧ ((run env s sched).net i).pc = .dead := by
  obtain ⟨s1, hs1, hi, hp, -, -⟩ := exc_step env s i hpc
  obtain ⟨sched, hl, hd⟩ := can_terminate env s1 (step_inv env s s1 _ h hs1) i
    (by rw [hp]; simp) hi
  refine ⟨.net i :: sched, by simp; omega, ?_⟩
  simp only [run, hs1]; exact hd

/-- From the `except` clause the thread dies, and stays dead, on every weakly fair schedule. -/
theorem exc_eventually_dead (env : List Beh) (U i : Nat) (s : Sys) (σ : Nat → Tid) (h : LInv s)
    (hub : UB U s) (hpc : (s.net i).pc = .exc) (hf : WeakFair env s σ) :
    ∃ n, ∀ m, n ≤ m → ((runN env s σ m).net i).pc = .dead := by
  obtain ⟨m, hσ, hq1, hq2⟩ := fair_enabled env (.net i)
    (fun s => LInv s ∧ (s.net i).pc = .exc)
    (fun s hq => by
      obtain ⟨s', hs', -⟩ := exc_step env s i hq.2
      rw [enabled_iff]; exact ⟨s', hs'⟩)
    (fun s s' u hq hu hst => ⟨step_inv env s s' u hq.1 hst, by
      rw [pc_other env s s' u hq.1 hst i (by rw [hq.2]; simp) hu]; exact hq.2⟩)
    s σ ⟨h, hpc⟩ hf
  obtain ⟨s1, hs1, hi, hp, -, -⟩ := exc_step env (runN env s σ m) i hq2
  have e1 : runN env s σ (m + 1) = s1 := runN_succ_some env s σ m s1 (by rw [hσ]; exact hs1)
  obtain ⟨n, hn⟩ := eventually_always_dead env U i (runN env s σ (m + 1)) (shift σ (m + 1))
    (runN_inv env s h σ (m + 1)) (UB_runN env U s hub σ (m + 1)) (by rw [e1, hp]; simp)
    (by rw [e1]; exact hi) (hf.shift (m + 1))
  refine ⟨m + 1 + n, fun k hk => ?_⟩
  have e : k = (m + 1) + (k - (m + 1)) := by omega
  rw [e, runN_add]
  exact hn _ (by omega)

/-! ### No connection attempt since the exception: closed, and free to connect again -/

theorem conns_step (env : List Beh) (s s' : Sys) (t : Tid) (hs : step env s t = some s') :
    s.conns ≤ s'.conns := by
  step_cases hs
  all_goals simp [refusedSt, directSt, succSt, discSt]

theorem conns_run (env : List Beh) : ∀ (more : List Tid) (s : Sys), s.conns ≤ (run env s more).conns := by
  intro more
  induction more with
  | nil => intro s; exact Nat.le_refl _
  | cons t ts ih =>
    intro s
    simp only [run]
    cases hst : step env s t with
    | none => exact ih s
    | some s' => exact Nat.le_trans (conns_step env s s' t hst) (ih s')

/-- Thread `i` is on its exception path, and no connection attempt has been made since it got
there (`conns` is still `n`, nobody waits in `new_networking_thread`). -/
structure ExcQ (i n : Nat) (s : Sys) : Prop where
  path : (s.net i).pc.onExcPath = true
  conns : s.conns = n
  noNew : s.newNt = none
  slot : s.nt = some i ∨ s.nt = none
  flag : (s.net i).pc ≠ .exc → (s.net i).intr = true
  closed : (s.net i).pc.pastChk = true → s.socket = .none ∧ s.connected = false

theorem excq_noNew (env : List Beh) (s s' : Sys) (t : Tid) (i n : Nat) (q : ExcQ i n s)
    (hs : step env s t = some s') (hc : s'.conns = n) : s'.newNt = none := by
  have q2 := q.conns
  have q3 := q.noNew
  step_cases hs
  all_goals simp only [refusedSt, directSt, succSt, discSt] at *
  all_goals grind

theorem excq_slot (env : List Beh) (s s' : Sys) (t : Tid) (i n : Nat) (h : LInv s)
    (q : ExcQ i n s) (hs : step env s t = some s') (hc : s'.conns = n) :
    s'.nt = some i ∨ s'.nt = none := by
  have h5 := h.new_iff
  have q2 := q.conns
  have q3 := q.noNew
  have q4 := q.slot
  step_cases hs
  all_goals simp only [refusedSt, directSt, succSt, discSt] at *
  all_goals grind [NPc.waiting]

theorem excq_flag (env : List Beh) (s s' : Sys) (t : Tid) (i n : Nat) (h : LInv s)
    (q : ExcQ i n s) (hs : step env s t = some s') :
    (s'.net i).pc ≠ .exc → (s'.net i).intr = true := by
  have h3 := h.born i
  have q1 := q.path
  have q5 := q.flag
  step_cases hs
  all_goals simp only [refusedSt, directSt, succSt, discSt] at *
  all_goals grind [updN, dnet, NPc.onExcPath]

theorem excq_closed (env : List Beh) (s s' : Sys) (t : Tid) (i n : Nat) (h : LInv s)
    (q : ExcQ i n s) (hs : step env s t = some s') (hc : s'.conns = n) :
    (s'.net i).pc.pastChk = true → s'.socket = .none ∧ s'.connected = false := by
  have h3 := h.born i
  have h4 := h.nt_iff i
  have q1 := q.path
  have q2 := q.conns
  have q3 := q.noNew
  have q5 := q.flag
  have q6 := q.closed
  step_cases hs
  all_goals simp only [refusedSt, directSt, succSt, discSt] at *
  all_goals grind [updN, dnet, dfile, NPc.onExcPath, NPc.pastChk, NPc.holds, target,
    afterCall_pastChk]

theorem excq_step (env : List Beh) (s s' : Sys) (t : Tid) (i n : Nat) (h : LInv s)
    (q : ExcQ i n s) (hs : step env s t = some s') (hc : s'.conns = n) : ExcQ i n s' :=
  ⟨onExcPath_step env s s' t h hs i q.path, hc, excq_noNew env s s' t i n q hs hc,
   excq_slot env s s' t i n h q hs hc, excq_flag env s s' t i n h q hs,
   excq_closed env s s' t i n h q hs hc⟩

theorem excq_run (env : List Beh) (i n : Nat) : ∀ (more : List Tid) (s : Sys), LInv s →
    ExcQ i n s → (run env s more).conns = n → ExcQ i n (run env s more) := by
  intro more
  induction more with
  | nil => intro s _ q _; exact q
  | cons t ts ih =>
    intro s h q hc
    simp only [run] at hc ⊢
    cases hst : step env s t with
    | none => simp only [hst] at hc; exact ih s h q hc
    | some s' =>
      simp only [hst] at hc
      have h1 := conns_step env s s' t hst
      have h2 := conns_run env ts s'
      have h3 := q.conns
      exact ih s' (step_inv env s s' t h hst) (excq_step env s s' t i n h q hst (by omega)) hc

/-- At the `except` clause with nobody waiting in `new_networking_thread`. -/
theorem excq_init (s : Sys) (h : LInv s) (i : Nat) (hpc : (s.net i).pc = .exc)
    (hnew : s.newNt = none) : ExcQ i s.conns s :=
  ⟨by rw [hpc]; rfl, rfl, hnew, .inl ((h.nt_iff i).mpr (by rw [hpc]; rfl)),
   fun hne => absurd hpc hne, fun hp => by rw [hpc] at hp; cases hp⟩

/-- Past the `except` clause and with no connection attempt since, `_check_connection` passes. -/
theorem excq_not_busy (s : Sys) (i n : Nat) (q : ExcQ i n s) (hne : (s.net i).pc ≠ .exc) :
    busy s = false := by
  have hi := q.flag hne
  unfold busy
  rw [q.noNew]
  rcases q.slot with h | h <;> simp [h, hi]

/-- The two models read the same flag in the final block: that of `new_networking_thread` if
there is one, else that of `networking_thread`. -/
theorem cleanupFlag_eq (s : Sys) :
    cleanupFlag s =
      match s.newNt.map fun j => (s.net j).intr with
      | some b => some b
      | none => s.nt.map fun j => (s.net j).intr := by
  unfold cleanupFlag target
  cases s.newNt <;> rfl

/-! ### The specification as a predicate on the run function (to test changed code against it) -/

/-- EXCEPTION → CLOSED: whenever a networking thread `i` is at the `except` clause of `run` with
nobody waiting in `new_networking_thread`, then in every later state in which no connection
attempt has been made since and the thread is past the final block of `_handle_exception`, the
socket is `None` and `connected` is false. -/
def ExcClosesConn (runf : List Beh → Sys → List Tid → Sys) : Prop :=
  ∀ (env : List Beh) (progs : List (List Op)) (rl rh : Nat) (sched more : List Tid) (i : Nat),
    ((runf env (init progs rl rh) sched).net i).pc = .exc →
    (runf env (init progs rl rh) sched).newNt = none →
    (runf env (runf env (init progs rl rh) sched) more).conns =
      (runf env (init progs rl rh) sched).conns →
    ((runf env (runf env (init progs rl rh) sched) more).net i).pc.pastChk = true →
    (runf env (runf env (init progs rl rh) sched) more).socket = .none ∧
    (runf env (runf env (init progs rl rh) sched) more).connected = false

end PyCraft.Life
