import PyCraft.Model.C01Dispatch
import PyCraft.Lemmas.FrameViews
import PyCraft.Lemmas.TypedStream
/-!
Helper lemmas for `Props/C01Dispatch.lean`:

* the dispatching loop is the raw loop of `Model/Frame.lean` followed by `cutDispatch`
  (`readAllWithK_cut`), for ANY stream, cipher, zlib and dispatch function;
* `cutDispatch` on a list all of whose packets dispatch / with a first failing packet;
* one written item dispatches to its expected delivery (`dispatch_item`);
* decidable equality of `Value` / `Delivered` (for the `decide +kernel` examples and the
  generated probe tables);
* the two option variables against the collapsed `Option Int`.
-/
namespace PyCraft

/-! ### the loop = raw loop, then cut at the first failing dispatch -/

theorem readAllWithFuel_cut {σ δ : Type} (x : StreamXform σ) (z : ZlibOps) (c : Bool)
    (disp : Nat × Bytes → Except Err δ) : ∀ (fuel : Nat) (k : Sock σ),
      (readAllWithFuel x z c disp fuel k).1 =
        cutDispatch disp (readAllFuel x z c fuel k).1.1 (readAllFuel x z c fuel k).1.2 := by
  intro fuel
  induction fuel with
  | zero => intro k; rfl
  | succ fuel ih =>
    intro k
    simp only [readAllWithFuel, readAllFuel, readPacketWithK]
    cases hr : readPacketK x z c k with
    | mk r k' =>
      cases r with
      | error e => simp only [cutDispatch]
      | ok raw =>
        simp only [cutDispatch]
        cases hd : disp raw with
        | error e' => rfl
        | ok d => simp only [ih k']

theorem readAllWithK_cut {σ δ : Type} (x : StreamXform σ) (z : ZlibOps) (c : Bool)
    (disp : Nat × Bytes → Except Err δ) (k : Sock σ) :
    (readAllWithK x z c disp k).1 =
      cutDispatch disp (readAllK x z c k).1.1 (readAllK x z c k).1.2 :=
  readAllWithFuel_cut x z c disp _ k

/-- every packet dispatches (`pds` pairs each raw packet with its delivery): nothing is cut, the
final exception is the raw loop's -/
theorem cutDispatch_all_ok {δ : Type} (disp : Nat × Bytes → Except Err δ) (e : Err) :
    ∀ pds : List ((Nat × Bytes) × δ), (∀ pd ∈ pds, disp pd.1 = .ok pd.2) →
      cutDispatch disp (pds.map (·.1)) e = (pds.map (·.2), e) := by
  intro pds
  induction pds with
  | nil => intro _; rfl
  | cons pd pds ih =>
    intro h
    simp only [List.map_cons, cutDispatch, h pd (by simp), ih (fun q hq => h q (by simp [hq]))]

/-- a first failing packet: what was dispatched before it, and ITS exception -/
theorem cutDispatch_first_error {δ : Type} (disp : Nat × Bytes → Except Err δ) (e e' : Err)
    (bad : Nat × Bytes) (after : List (Nat × Bytes)) (hbad : disp bad = .error e') :
    ∀ pds : List ((Nat × Bytes) × δ), (∀ pd ∈ pds, disp pd.1 = .ok pd.2) →
      cutDispatch disp (pds.map (·.1) ++ bad :: after) e = (pds.map (·.2), e') := by
  intro pds
  induction pds with
  | nil => intro _; simp only [List.map_nil, List.nil_append, cutDispatch, hbad]
  | cons pd pds ih =>
    intro h
    simp only [List.map_cons, List.cons_append, cutDispatch, h pd (by simp),
      ih (fun q hq => h q (by simp [hq]))]

/-! ### the branch against its relational specification -/

theorem dispatchBody_of_dispatches {α : Type} (table : IdTable α) (raw : Nat × Bytes)
    (d : Delivered α) (h : Dispatches table raw d) : dispatchBody table raw = .ok d := by
  rcases h with ⟨h1, rfl⟩ | ⟨rd, v, rest, h1, h2, rfl⟩
  · simp only [dispatchBody, h1]
  · simp only [dispatchBody, h1, h2]

theorem dispatches_of_dispatchBody {α : Type} (table : IdTable α) (raw : Nat × Bytes)
    (d : Delivered α) (h : dispatchBody table raw = .ok d) : Dispatches table raw d := by
  cases ht : table raw.1 with
  | none =>
    simp only [dispatchBody, ht] at h
    injection h with h
    exact .inl ⟨ht, h.symm⟩
  | some rd =>
    cases hr : rd raw.2 with
    | error e => simp only [dispatchBody, ht, hr] at h; cases h
    | ok vr =>
      obtain ⟨v, rest⟩ := vr
      simp only [dispatchBody, ht, hr] at h
      injection h with h
      exact .inr ⟨rd, v, rest, ht, hr, h.symm⟩

theorem dispatchBody_error_of {α : Type} (table : IdTable α) (raw : Nat × Bytes) (rd : BodyReader α)
    (e : Err) (h1 : table raw.1 = some rd) (h2 : rd raw.2 = .error e) :
    dispatchBody table raw = .error e := by
  simp only [dispatchBody, h1, h2]

/-! ### items -/

theorem WItem.rawOf_typed (cc : CustomCodec) (p : TPacket) :
    WItem.rawOf cc (.typed p) = PyCraft.rawOf cc p := rfl

/-- an admissible item is framed without error, passes the frame guard, and its `(id, field bytes)`
dispatches to the expected delivery with NOTHING of the payload left unread (typed) / the whole
field bytes left unread (raw) -/
theorem item_facts (z : ZlibOps) (thr : Option Int) (t : Nat → Option Layout) (i : WItem)
    (h : i.OK z thr t) :
    writeItem realCustom z thr i = .ok (packetFrame z thr (i.rawOf realCustom)) ∧
    FrameOK z thr (i.rawOf realCustom) ∧
    dispatchBody (layoutTable realCustom t) (i.rawOf realCustom) = .ok i.expected := by
  cases i with
  | typed p =>
    obtain ⟨hok, htab⟩ := h
    obtain ⟨hf, hd, hfr⟩ := typedOK_facts z thr p hok
    refine ⟨?_, hfr, ?_⟩
    · exact writeTyped_of_ok realCustom z thr p _ hf
    · rw [WItem.rawOf_typed]
      have h1 : layoutTable realCustom t (PyCraft.rawOf realCustom p).1 =
          some (decodeFields realCustom p.layout) := by
        show (t p.id).map (decodeFields realCustom) = _
        rw [htab]; rfl
      simp only [dispatchBody, h1, hd]
      rfl
  | raw id fields =>
    obtain ⟨hfr, htab⟩ := h
    refine ⟨rfl, hfr, ?_⟩
    have h1 : layoutTable realCustom t id = none := by
      show (t id).map (decodeFields realCustom) = _
      rw [htab]; rfl
    simp only [dispatchBody, WItem.rawOf, h1]
    rfl

theorem writeItems_of_ok (cc : CustomCodec) (z : ZlibOps) (thr : Option Int) :
    ∀ is : List WItem,
      (∀ i ∈ is, writeItem cc z thr i = .ok (packetFrame z thr (i.rawOf cc))) →
      writeItems cc z thr is = .ok ((is.map (WItem.rawOf cc)).map (packetFrame z thr)).flatten := by
  intro is
  induction is with
  | nil => intro _; rfl
  | cons i is ih =>
    intro h
    simp only [writeItems, h i (by simp), ih (fun j hj => h j (by simp [hj])), bind, Except.bind,
      pure, Except.pure]
    simp

instance (z : ZlibOps) (thr : Option Int) (t : Nat → Option Layout) (i : WItem) :
    Decidable (i.OK z thr t) := by
  cases i <;> (unfold WItem.OK; exact inferInstance)

/-! ### decidable equality of values and deliveries -/

mutual
  /-- structural equality test on `Value` (a nested inductive: not derivable) -/
  def Value.eqb : Value → Value → Bool
    | .bool a, .bool b => a == b
    | .int a, .int b => a == b
    | .bytes a, .bytes b => a == b
    | .str a, .str b => a == b
    | .list a, .list b => Value.eqbs a b
    | _, _ => false
  def Value.eqbs : List Value → List Value → Bool
    | [], [] => true
    | a :: as, b :: bs => Value.eqb a b && Value.eqbs as bs
    | _, _ => false
end

mutual
  theorem Value.eqb_sound : ∀ a b : Value, Value.eqb a b = true → a = b
    | .bool a, .bool b, h => by simp only [Value.eqb, beq_iff_eq] at h; rw [h]
    | .int a, .int b, h => by simp only [Value.eqb, beq_iff_eq] at h; rw [h]
    | .bytes a, .bytes b, h => by simp only [Value.eqb, beq_iff_eq] at h; rw [h]
    | .str a, .str b, h => by simp only [Value.eqb, beq_iff_eq] at h; rw [h]
    | .list a, .list b, h => by
      simp only [Value.eqb] at h; rw [Value.eqbs_sound a b h]
    | .bool _, .int _, h | .bool _, .bytes _, h | .bool _, .str _, h | .bool _, .list _, h
    | .int _, .bool _, h | .int _, .bytes _, h | .int _, .str _, h | .int _, .list _, h
    | .bytes _, .bool _, h | .bytes _, .int _, h | .bytes _, .str _, h | .bytes _, .list _, h
    | .str _, .bool _, h | .str _, .int _, h | .str _, .bytes _, h | .str _, .list _, h
    | .list _, .bool _, h | .list _, .int _, h | .list _, .bytes _, h | .list _, .str _, h => by
      simp [Value.eqb] at h
  theorem Value.eqbs_sound : ∀ a b : List Value, Value.eqbs a b = true → a = b
    | [], [], _ => rfl
    | a :: as, b :: bs, h => by
      simp only [Value.eqbs, Bool.and_eq_true] at h
      rw [Value.eqb_sound a b h.1, Value.eqbs_sound as bs h.2]
    | [], _ :: _, h | _ :: _, [], h => by simp [Value.eqbs] at h
end

mutual
  theorem Value.eqb_refl : ∀ a : Value, Value.eqb a a = true
    | .bool _ | .int _ | .bytes _ | .str _ => by simp [Value.eqb]
    | .list a => by simp only [Value.eqb]; exact Value.eqbs_refl a
  theorem Value.eqbs_refl : ∀ a : List Value, Value.eqbs a a = true
    | [] => rfl
    | a :: as => by simp only [Value.eqbs, Value.eqb_refl a, Value.eqbs_refl as, Bool.and_self]
end

instance Value.instDecEqC01Dispatch : DecidableEq Value := fun a b =>
  if h : Value.eqb a b = true then isTrue (Value.eqb_sound a b h)
  else isFalse fun e => h (e ▸ Value.eqb_refl a)

deriving instance DecidableEq for Delivered

/-! ### the options -/

theorem writerThr_isSome (o : ConnOpts) : (writerThr o).isSome = readerFlag o := by
  unfold writerThr readerFlag
  cases o.enabled <;> rfl

theorem writerThr_step (o : ConnOpts) (ev : OptEv) :
    writerThr (o.step ev) = thrSpecStep (writerThr o) ev := by
  cases ev <;> rfl

theorem writerThr_run (evs : List OptEv) : ∀ o : ConnOpts,
    writerThr (o.run evs) = evs.foldl thrSpecStep (writerThr o) := by
  induction evs with
  | nil => intro o; rfl
  | cons ev evs ih =>
    intro o
    simp only [ConnOpts.run, List.foldl_cons] at ih ⊢
    rw [ih (o.step ev), writerThr_step]

end PyCraft
