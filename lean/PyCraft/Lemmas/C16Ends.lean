import PyCraft.Model.C16Ends
import PyCraft.Lemmas.Lifecycle
/-!
Helper lemmas for `Props/C16Ends.lean`, part 1 (audit rank 3): the flush of `disconnect()`, the
guarded `disconnect` as a total function, and the projection of the extended system
(`Model/C16Ends.lean`) onto the lifecycle model (`Model/Lifecycle.lean`).
-/
namespace PyCraft.Ends
open PyCraft PyCraft.Life
set_option linter.unusedSimpArgs false

/-- The attribute `_outgoing_packet_queue` exists whenever there is a socket object
(`_connect` creates the queue first, connection.py:437, the socket later, l.450). -/
def QInv (x : ESys) : Prop := x.sys.socket ≠ .none → x.queue.isSome = true

/-! ### One packet write -/

theorem writeOne_sys (F : Nat → Bool) (x : ESys) (p : Nat) : (writeOne F x p).1.sys = x.sys := by
  unfold writeOne; split
  · rfl
  · rfl
  · split <;> rfl

theorem writeOne_calls (F : Nat → Bool) (x : ESys) (p : Nat) :
    (writeOne F x p).1.calls = x.calls := by
  unfold writeOne; split
  · rfl
  · rfl
  · split <;> rfl

theorem writeOne_not_other (F : Nat → Bool) (x : ESys) (p : Nat) (h : x.sys.socket ≠ .none) :
    (writeOne F x p).2 ≠ .other := by
  unfold writeOne; split
  · next hs => exact absurd hs h
  · simp
  · split <;> simp

/-! ### The flush loop -/

theorem flushFrom_sys (F : Nat → Bool) : ∀ (q : List Nat) (x : ESys),
    (flushFrom F q x).1.sys = x.sys := by
  intro q
  induction q with
  | nil => intro x; rfl
  | cons p q ih =>
    intro x
    have hw := writeOne_sys F x p
    cases hr : writeOne F x p with
    | mk x1 r =>
      rw [hr] at hw
      cases r <;> simp only [flushFrom, hr]
      · rw [ih x1]; exact hw
      · exact hw
      · exact hw

theorem flushFrom_calls (F : Nat → Bool) : ∀ (q : List Nat) (x : ESys),
    (flushFrom F q x).1.calls = x.calls := by
  intro q
  induction q with
  | nil => intro x; rfl
  | cons p q ih =>
    intro x
    have hw := writeOne_calls F x p
    cases hr : writeOne F x p with
    | mk x1 r =>
      rw [hr] at hw
      cases r <;> simp only [flushFrom, hr]
      · rw [ih x1]; exact hw
      · exact hw
      · exact hw

theorem flushFrom_queue_some (F : Nat → Bool) : ∀ (q : List Nat) (x : ESys),
    (flushFrom F q x).1.queue.isSome = true := by
  intro q
  induction q with
  | nil => intro x; rfl
  | cons p q ih =>
    intro x
    cases hr : writeOne F x p with
    | mk x1 r =>
      cases r <;> simp only [flushFrom, hr]
      · exact ih x1
      · rfl
      · rfl

/-- With a socket object present no write of the flush raises anything but `IOError`. -/
theorem flushFrom_not_other (F : Nat → Bool) : ∀ (q : List Nat) (x : ESys),
    x.sys.socket ≠ .none → (flushFrom F q x).2 ≠ .other := by
  intro q
  induction q with
  | nil => intro x _; simp [flushFrom]
  | cons p q ih =>
    intro x h
    have hw := writeOne_sys F x p
    have hn := writeOne_not_other F x p h
    cases hr : writeOne F x p with
    | mk x1 r =>
      rw [hr] at hw hn
      cases r <;> simp only [flushFrom, hr]
      · exact ih x1 (by rw [hw]; exact h)
      · simp
      · exact absurd rfl hn

/-- The flush on a connected socket: the packets before the first failing write are delivered, in
order; the packet whose write fails is lost; the rest stays queued. -/
theorem flushFrom_open (F : Nat → Bool) (c : Nat) : ∀ (q : List Nat) (x : ESys),
    x.sys.socket = .open c →
    (flushFrom F q x).1.wire =
      x.wire ++ (q.take (firstFail F x.tick q.length)).map (fun p => (c, p)) ∧
    (flushFrom F q x).1.queue = some (q.drop (firstFail F x.tick q.length + 1)) ∧
    (flushFrom F q x).1.tick = x.tick + min (firstFail F x.tick q.length + 1) q.length ∧
    (flushFrom F q x).2 = (if firstFail F x.tick q.length < q.length then .ioError else .ok) := by
  intro q
  induction q with
  | nil => intro x _; simp [flushFrom, firstFail]
  | cons p q ih =>
    intro x hs
    by_cases hF : F x.tick = true
    · simp [flushFrom, writeOne, hs, hF, firstFail]
    · have hF' : F x.tick = false := by simpa using hF
      obtain ⟨a, b, c', d⟩ := ih { x with tick := x.tick + 1, wire := x.wire ++ [(c, p)] } hs
      simp only [flushFrom, writeOne, hs, hF', Bool.false_eq_true, if_false, firstFail,
        List.length_cons]
      refine ⟨?_, ?_, ?_, ?_⟩
      · rw [a]; simp
      · rw [b]; simp
      · rw [c']; simp only []; omega
      · rw [d]; simp

/-- The flush on a socket object that was never connected: the first write already fails. -/
theorem flushFrom_unconnected (F : Nat → Bool) (q : List Nat) (x : ESys)
    (hs : x.sys.socket = .unconnected) :
    (flushFrom F q x).1.wire = x.wire ∧ (flushFrom F q x).1.queue = some (q.drop 1) ∧
    (flushFrom F q x).2 = (if q = [] then .ok else .ioError) := by
  cases q with
  | nil => simp [flushFrom]
  | cons p q => simp [flushFrom, writeOne, hs]

/-! ### `disconnect` -/

theorem discTail_eq (s : Sys) : discTail { s with connected := false } = doDisconnect s := by
  unfold discTail doDisconnect
  rcases s with ⟨nt, newNt, socket, file, connected, conns, nthreads, rl, rh, owner, depth, net,
    usr, log⟩
  cases socket <;> rfl

theorem discTail_mark (x : ESys) : discTail (markDisc x).sys = doDisconnect x.sys :=
  discTail_eq x.sys

theorem flush_some (F : Nat → Bool) (x : ESys) (q : List Nat) (h : x.queue = some q) :
    flush F x = flushFrom F q x := by
  unfold flush; rw [h]

/-- `disconnect(immediate=True)` has no flush: it is exactly `Life.doDisconnect`, whatever the
guard, the oracle and the queue.  (This is the call made by `_handle_exception`, which the extended
system therefore takes over unchanged from the lifecycle model.) -/
theorem disconnectE_immediate (g : Bool) (F : Nat → Bool) (x : ESys) :
    disconnectE g true F x = ({ x with sys := doDisconnect x.sys }, .ok) := by
  simp only [disconnectE, Bool.not_true, Bool.false_and, Bool.false_eq_true, if_false,
    discTail_mark]
  rfl

/-- The state in which the flush of `disconnect(imm)` leaves queue, wire and write counter. -/
def afterFlush (imm : Bool) (F : Nat → Bool) (x : ESys) : ESys :=
  if !imm && x.sys.socket != Sock.none then (flush F (markDisc x)).1 else x

/-- The CURRENT `disconnect`: for every queue, every failure pattern of the writes and every
state with `QInv`, it returns normally, and its effect on the lifecycle state is `doDisconnect`. -/
theorem disconnectE_guarded (imm : Bool) (F : Nat → Bool) (x : ESys) (hq : QInv x) :
    disconnectE true imm F x =
      ({ afterFlush imm F x with sys := doDisconnect x.sys }, .ok) := by
  unfold disconnectE afterFlush
  have hs0 : (markDisc x).sys.socket = x.sys.socket := rfl
  simp only [hs0]
  by_cases hc : (!imm && x.sys.socket != Sock.none) = true
  · have hsock : x.sys.socket ≠ .none := by
      intro h; simp [h] at hc
    obtain ⟨q, hqq⟩ := Option.isSome_iff_exists.mp (hq hsock)
    simp only [hc, if_true]
    rw [flush_some F (markDisc x) q hqq]
    have hsys := flushFrom_sys F q (markDisc x)
    have hno := flushFrom_not_other F q (markDisc x) hsock
    generalize flushFrom F q (markDisc x) = r at hsys hno ⊢
    obtain ⟨y, w⟩ := r
    simp only [] at hsys hno
    cases w
    · simp only [hsys, discTail_mark]
    · simp only [if_true, hsys, discTail_mark]
    · exact absurd rfl hno
  · have hc0 : (!imm && x.sys.socket != Sock.none) = false := by simpa using hc
    simp only [hc0, Bool.false_eq_true, if_false, discTail_mark]
    rfl

theorem afterFlush_calls (imm : Bool) (F : Nat → Bool) (x : ESys) :
    (afterFlush imm F x).calls = x.calls := by
  unfold afterFlush
  split
  · unfold flush
    split
    · rfl
    · rw [flushFrom_calls]; rfl
  · rfl

/-- What the flush of `disconnect(imm)` does to queue, wire and write counter. -/
theorem afterFlush_spec (imm : Bool) (F : Nat → Bool) (x : ESys) :
    ((imm = true ∨ x.sys.socket = .none) → afterFlush imm F x = x) ∧
    (∀ c q, imm = false → x.sys.socket = .open c → x.queue = some q →
      (afterFlush imm F x).wire =
        x.wire ++ (q.take (firstFail F x.tick q.length)).map (fun p => (c, p)) ∧
      (afterFlush imm F x).queue = some (q.drop (firstFail F x.tick q.length + 1)) ∧
      (afterFlush imm F x).tick = x.tick + min (firstFail F x.tick q.length + 1) q.length) ∧
    (∀ q, imm = false → x.sys.socket = .unconnected → x.queue = some q →
      (afterFlush imm F x).wire = x.wire ∧ (afterFlush imm F x).queue = some (q.drop 1)) := by
  refine ⟨?_, ?_, ?_⟩
  · rintro (h | h) <;> simp [afterFlush, h]
  · intro c q hi hs hqq
    obtain ⟨a, b, c', -⟩ := flushFrom_open F c q (markDisc x) hs
    have hf : afterFlush imm F x = (flushFrom F q (markDisc x)).1 := by
      simp [afterFlush, hi, hs, flush_some F (markDisc x) q hqq]
    rw [hf]
    exact ⟨a, b, c'⟩
  · intro q hi hs hqq
    obtain ⟨a, b, -⟩ := flushFrom_unconnected F q (markDisc x) hs
    have hf : afterFlush imm F x = (flushFrom F q (markDisc x)).1 := by
      simp [afterFlush, hi, hs, flush_some F (markDisc x) q hqq]
    rw [hf]
    exact ⟨a, b⟩

/-! ### The API bodies of the current code against those of the lifecycle model -/

theorem connectE_spec (env : List Beh) (x : ESys) :
    (connectE env x).1.sys = (doConnect env x.sys).1 ∧
    (connectE env x).2 = lift (doConnect env x.sys).2 ∧
    (connectE env x).1.calls = x.calls ∧
    (QInv x → QInv (connectE env x).1) := by
  unfold connectE
  by_cases hb : busy x.sys = true
  · simp only [hb, if_true]
    have hd : doConnect env x.sys = (x.sys, .invalidState) := by simp [doConnect, hb]
    rw [hd]
    exact ⟨rfl, rfl, trivial, id⟩
  · simp only [hb, Bool.false_eq_true, if_false]
    cases hr : doConnect env x.sys with
    | mk s1 out =>
      cases out
      · exact ⟨rfl, rfl, rfl, fun _ _ => rfl⟩
      · exact ⟨rfl, rfl, rfl, fun _ _ => rfl⟩
      · exact ⟨rfl, rfl, rfl, fun _ _ => rfl⟩

/-- Current code: the body of every API call of a user thread returns what the lifecycle model
says (in particular never an exception other than `InvalidState` / `ConnectionRefusedError`), has
the lifecycle effect the model says, and keeps `QInv`. -/
theorem bodyE_guarded (F : Nat → Bool) (env : List Beh) (x : ESys) (op : Op) (hq : QInv x) :
    (bodyE true F env x op).1.sys = (body env x.sys op).1 ∧
    (bodyE true F env x op).2 = lift (body env x.sys op).2 ∧
    (bodyE true F env x op).1.calls = x.calls ∧
    QInv (bodyE true F env x op).1 := by
  cases op with
  | connect =>
    obtain ⟨a, b, c, d⟩ := connectE_spec env x
    exact ⟨a, b, c, d hq⟩
  | status =>
    obtain ⟨a, b, c, d⟩ := connectE_spec env x
    exact ⟨a, b, c, d hq⟩
  | disconnect imm =>
    simp only [bodyE, body, disconnectE_guarded imm F x hq]
    refine ⟨trivial, rfl, afterFlush_calls imm F x, ?_⟩
    intro h
    exact absurd (by simp [doDisconnect_eq]) h

/-- Current code: the same for the call a networking thread makes at `site`; the `except IOError`
fallback of the reaction to a disconnect packet is never taken. -/
theorem siteBodyE_guarded (F : Nat → Bool) (env : List Beh) (x : ESys) (site : Site)
    (hq : QInv x) :
    siteBodyE true F env x site = bodyE true F env x site.op := by
  cases site with
  | react => simp only [siteBodyE, Site.op, bodyE, disconnectE_guarded false F x hq]
  | listen => rfl
  | handler => rfl

theorem outL_lift (o : Outcome) : outL (lift o) = o := by cases o <;> rfl

/-! ### Projection onto the lifecycle model -/

/-- A step that is not the body of an API call does not create a socket. -/
theorem step_socket_noncall (env : List Beh) (s s' : Sys) (t : Tid)
    (hs : step env s t = some s')
    (hu : ∀ u, t = .user u → (s.usr u).pc ≠ .idle)
    (hn : ∀ i site, t = .net i → (s.net i).pc ≠ .call site) :
    s'.socket = s.socket ∨ s'.socket = .none := by
  step_cases hs
  all_goals simp only [refusedSt, directSt, succSt, discSt] at *
  all_goals grind

/-- Current code: a thread step of the extended system IS the step of the lifecycle model on the
`sys` component (same enabledness, same successor), and keeps `QInv`. -/
theorem stepE_thr (F : Nat → Bool) (env : List Beh) (x : ESys) (t : Tid) (hq : QInv x) :
    (stepE true F env x (.thr t)).map (·.sys) = step env x.sys t ∧
    ∀ x', stepE true F env x (.thr t) = some x' → QInv x' := by
  rcases t with u | i
  · simp only [stepE, step]
    unfold stepUserE stepUser
    cases hpc : (x.sys.usr u).pc with
    | idle =>
      simp only []
      cases htd : (x.sys.usr u).todo with
      | nil => simp
      | cons op rest =>
        simp only []
        by_cases hc : canAcq x.sys (.user u) = true
        · obtain ⟨a, b, -, d⟩ := bodyE_guarded F env x op hq
          simp only [hc, if_true]
          cases hr : bodyE true F env x op with
          | mk x1 out =>
            rw [hr] at a b d
            simp only [] at a b d
            cases hb : body env x.sys op with
            | mk s1 o =>
              rw [hb] at a b
              simp only [] at a b
              subst a
              rw [b, outL_lift]
              refine ⟨rfl, ?_⟩
              intro x' hx'
              simp only [Option.some.injEq] at hx'
              subst hx'
              exact d
        · simp [hc]
    | rel out =>
      simp only []
      refine ⟨by cases stepUser env x.sys u <;> simp [stepUser, hpc], ?_⟩
      intro x' hx'
      simp only [stepUser, hpc, Option.map_some, Option.some.injEq] at hx'
      subst hx'
      exact hq
  · simp only [stepE, step]
    unfold stepNetE
    split
    · next site hpc =>
      simp only [stepNet, hpc]
      by_cases hc : canAcq x.sys (.net i) = true
      · obtain ⟨a, b, -, d⟩ := bodyE_guarded F env x site.op hq
        rw [siteBodyE_guarded F env x site hq]
        simp only [hc, if_true]
        cases hr : bodyE true F env x site.op with
        | mk x1 out =>
          rw [hr] at a b d
          simp only [] at a b d
          cases hb : body env x.sys site.op with
          | mk s1 o =>
            rw [hb] at a b
            simp only [] at a b
            subst a
            rw [b, outL_lift]
            refine ⟨rfl, ?_⟩
            intro x' hx'
            simp only [Option.some.injEq] at hx'
            subst hx'
            exact d
      · simp [hc]
    · next hpc =>
      refine ⟨by cases stepNet env x.sys i <;> rfl, ?_⟩
      intro x' hx'
      cases hst : stepNet env x.sys i with
      | none => rw [hst] at hx'; cases hx'
      | some s' =>
        rw [hst] at hx'
        simp only [Option.map_some, Option.some.injEq] at hx'
        subst hx'
        have hso := step_socket_noncall env x.sys s' (.net i) hst (by intro u hu; cases hu)
          (by intro k site hk; cases hk; exact hpc site)
        intro hne
        rcases hso with hso | hso
        · exact hq (by rw [← hso]; exact hne)
        · exact absurd hso hne

/-- `enq` / `deq` do not touch the lifecycle state. -/
theorem stepE_ext (g : Bool) (F : Nat → Bool) (env : List Beh) (x x' : ESys) (a : Act)
    (ha : ∀ t, a ≠ .thr t) (hs : stepE g F env x a = some x') :
    x'.sys = x.sys ∧ x'.calls = x.calls ∧ x'.wire = x.wire ∧ (QInv x → QInv x') := by
  cases a with
  | thr t => exact absurd rfl (ha t)
  | enq p =>
    simp only [stepE] at hs
    split at hs
    · simp only [Option.some.injEq] at hs; subst hs; exact ⟨rfl, rfl, rfl, fun _ _ => rfl⟩
    · cases hs
  | deq =>
    simp only [stepE] at hs
    split at hs
    · simp only [Option.some.injEq] at hs; subst hs; exact ⟨rfl, rfl, rfl, fun _ _ => rfl⟩
    · cases hs

theorem initE_QInv (progs : List (List Op)) (rl rh : Nat) : QInv (initE progs rl rh) := by
  intro h; exact absurd rfl h

/-- Current code: the lifecycle component of a run of the extended system is the run of the
lifecycle model over the thread steps of the schedule. -/
theorem runE_sys (F : Nat → Bool) (env : List Beh) : ∀ (acts : List Act) (x : ESys), QInv x →
    (runE true F env x acts).sys = run env x.sys (thrs acts) ∧ QInv (runE true F env x acts) := by
  intro acts
  induction acts with
  | nil => intro x hq; exact ⟨rfl, hq⟩
  | cons a as ih =>
    intro x hq
    cases a with
    | thr t =>
      obtain ⟨h1, h2⟩ := stepE_thr F env x t hq
      simp only [runE, thrs, run]
      cases hst : stepE true F env x (.thr t) with
      | none =>
        rw [hst] at h1
        simp only [Option.map_none] at h1
        rw [← h1]
        exact ih x hq
      | some x' =>
        rw [hst] at h1
        simp only [Option.map_some] at h1
        rw [← h1]
        exact ih x' (h2 x' hst)
    | enq p =>
      simp only [runE, thrs]
      cases hst : stepE true F env x (.enq p) with
      | none => exact ih x hq
      | some x' =>
        obtain ⟨e1, -, -, e4⟩ := stepE_ext true F env x x' _ (by intro t h; cases h) hst
        simp only []
        rw [← e1]
        exact ih x' (e4 hq)
    | deq =>
      simp only [runE, thrs]
      cases hst : stepE true F env x .deq with
      | none => exact ih x hq
      | some x' =>
        obtain ⟨e1, -, -, e4⟩ := stepE_ext true F env x x' _ (by intro t h; cases h) hst
        simp only []
        rw [← e1]
        exact ih x' (e4 hq)

/-- Every reachable state of the extended system (current code) projects to a reachable state of
the lifecycle model. -/
theorem reachE (F : Nat → Bool) (env : List Beh) (progs : List (List Op)) (rl rh : Nat)
    (acts : List Act) :
    (runE true F env (initE progs rl rh) acts).sys = run env (init progs rl rh) (thrs acts) ∧
    QInv (runE true F env (initE progs rl rh) acts) :=
  runE_sys F env acts (initE progs rl rh) (initE_QInv progs rl rh)

theorem runE_append (g : Bool) (F : Nat → Bool) (env : List Beh) (x : ESys) (a b : List Act) :
    runE g F env x (a ++ b) = runE g F env (runE g F env x a) b := by
  induction a generalizing x with
  | nil => rfl
  | cons t ts ih =>
    simp only [List.cons_append, runE]
    split <;> exact ih _

theorem thrs_map_thr (l : List Tid) : thrs (l.map .thr) = l := by
  induction l with
  | nil => rfl
  | cons t ts ih => simp [thrs, ih]

/-- Current code: what a `disconnect` call step records and does to the ghost fields. -/
theorem stepE_disconnect (F : Nat → Bool) (env : List Beh) (x x1 : ESys) (t : Tid) (imm : Bool)
    (hq : QInv x) (hat : atCall x.sys t (.disconnect imm))
    (hs : stepE true F env x (.thr t) = some x1) :
    x1.calls = x.calls ++ [(t, .disconnect imm, .ok)] ∧
    x1.queue = (afterFlush imm F x).queue ∧ x1.wire = (afterFlush imm F x).wire ∧
    x1.tick = (afterFlush imm F x).tick := by
  rcases t with u | i
  · obtain ⟨hpc, rest, htd⟩ := hat
    simp only [stepE, stepUserE, hpc, htd, bodyE, disconnectE_guarded imm F x hq] at hs
    split at hs
    · simp only [Option.some.injEq] at hs; subst hs
      exact ⟨rfl, rfl, rfl, rfl⟩
    · cases hs
  · obtain ⟨site, hpc, hop⟩ := hat
    cases site with
    | react =>
      simp only [Site.op, Op.disconnect.injEq] at hop
      subst hop
      simp only [stepE, stepNetE, hpc, siteBodyE, disconnectE_guarded false F x hq] at hs
      split at hs
      · simp only [Option.some.injEq] at hs; subst hs
        exact ⟨rfl, rfl, rfl, rfl⟩
      · cases hs
    | listen => cases hop
    | handler => cases hop

/-- Current code: what ANY API call step records — the outcome the lifecycle model computes. -/
theorem stepE_call (F : Nat → Bool) (env : List Beh) (x x1 : ESys) (t : Tid) (op : Op)
    (hq : QInv x) (hat : atCall x.sys t op) (hs : stepE true F env x (.thr t) = some x1) :
    x1.calls = x.calls ++ [(t, op, lift (body env x.sys op).2)] := by
  rcases t with u | i
  · obtain ⟨hpc, rest, htd⟩ := hat
    obtain ⟨-, b, -, -⟩ := bodyE_guarded F env x op hq
    simp only [stepE, stepUserE, hpc, htd] at hs
    split at hs
    · simp only [Option.some.injEq] at hs; subst hs
      simp only [b]
    · cases hs
  · obtain ⟨site, hpc, hop⟩ := hat
    subst hop
    obtain ⟨-, b, -, -⟩ := bodyE_guarded F env x site.op hq
    simp only [stepE, stepNetE, hpc, siteBodyE_guarded F env x site hq] at hs
    split at hs
    · simp only [Option.some.injEq] at hs; subst hs
      simp only [b]
    · cases hs

/-- Every recorded outcome is one of the three the lifecycle model knows: no call has raised an
`IOError` or any other exception. -/
def NoExc (x : ESys) : Prop := ∀ e ∈ x.calls, ∃ o, e.2.2 = lift o

theorem stepE_noExc (F : Nat → Bool) (env : List Beh) (x x1 : ESys) (a : Act) (hq : QInv x)
    (hn : NoExc x) (hs : stepE true F env x a = some x1) : NoExc x1 := by
  cases a with
  | enq p =>
    obtain ⟨-, e, -, -⟩ := stepE_ext true F env x x1 _ (by intro t h; cases h) hs
    intro c hc; rw [e] at hc; exact hn c hc
  | deq =>
    obtain ⟨-, e, -, -⟩ := stepE_ext true F env x x1 _ (by intro t h; cases h) hs
    intro c hc; rw [e] at hc; exact hn c hc
  | thr t =>
    rcases t with u | i
    · simp only [stepE] at hs
      unfold stepUserE at hs
      split at hs
      · split at hs
        · cases hs
        · next op rest htd =>
          obtain ⟨-, b, -, -⟩ := bodyE_guarded F env x op hq
          split at hs
          · cases hr : bodyE true F env x op with
            | mk y out =>
              rw [hr] at hs b
              simp only [Option.some.injEq] at hs b; subst hs
              intro c hc
              simp only [List.mem_append, List.mem_singleton] at hc
              rcases hc with hc | hc
              · exact hn c hc
              · subst hc; exact ⟨_, b⟩
          · cases hs
      · cases hst : stepUser env x.sys u with
        | none => rw [hst] at hs; cases hs
        | some s' =>
          rw [hst] at hs
          simp only [Option.map_some, Option.some.injEq] at hs; subst hs
          exact hn
    · simp only [stepE] at hs
      unfold stepNetE at hs
      split at hs
      · next site hpc =>
        obtain ⟨-, b, -, -⟩ := bodyE_guarded F env x site.op hq
        rw [siteBodyE_guarded F env x site hq] at hs
        split at hs
        · cases hr : bodyE true F env x site.op with
          | mk y out =>
            rw [hr] at hs b
            simp only [Option.some.injEq] at hs b; subst hs
            intro c hc
            simp only [List.mem_append, List.mem_singleton] at hc
            rcases hc with hc | hc
            · exact hn c hc
            · subst hc; exact ⟨_, b⟩
        · cases hs
      · cases hst : stepNet env x.sys i with
        | none => rw [hst] at hs; cases hs
        | some s' =>
          rw [hst] at hs
          simp only [Option.map_some, Option.some.injEq] at hs; subst hs
          exact hn

theorem runE_noExc (F : Nat → Bool) (env : List Beh) : ∀ (acts : List Act) (x : ESys), QInv x →
    NoExc x → NoExc (runE true F env x acts) := by
  intro acts
  induction acts with
  | nil => intro x _ hn; exact hn
  | cons a as ih =>
    intro x hq hn
    simp only [runE]
    cases hst : stepE true F env x a with
    | none => exact ih x hq hn
    | some x' =>
      have hq' : QInv x' := by
        cases a with
        | thr t => exact (stepE_thr F env x t hq).2 x' hst
        | enq p => exact (stepE_ext true F env x x' _ (by intro t h; cases h) hst).2.2.2 hq
        | deq => exact (stepE_ext true F env x x' _ (by intro t h; cases h) hst).2.2.2 hq
      exact ih x' hq' (stepE_noExc F env x x' a hq hn hst)

end PyCraft.Ends
