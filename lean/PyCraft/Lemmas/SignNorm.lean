import PyCraft.Lemmas.Layout
/-!
Helper definitions and lemmas for C07: the identification of the two single-byte integer types
(`i8` ≡ `u8`: the same octet on the wire, read with or without a sign), and why two layouts that
agree up to this identification produce the same bytes.
-/
namespace PyCraft.C07
open PyCraft

def normI : IntT → IntT
  | .i8 => .u8
  | t => t

/-- identify `Byte` with `UnsignedByte`, also inside arrays -/
def normT : WType → WType
  | .int t => .int (normI t)
  | .array l t => .array l (normT t)
  | t => t

/-- the unsigned reading of every single byte of a decoded value -/
def signNorm : WType → Value → Value
  | .int .i8, .int i => .int (i % 256)
  | .array _ t, .list vs => .list (vs.map (signNorm t))
  | _, v => v

theorem normT_idem (t : WType) : normT (normT t) = normT t := by
  induction t with
  | int t => cases t <;> rfl
  | array l t ih => simp [normT, ih]
  | _ => rfl

/-- two types with the same normal form are equal, or both single integers with the same normal
form, or arrays with the same prefix whose elements have the same normal form -/
theorem normT_eq_cases (a b : WType) (h : normT a = normT b) :
    a = b ∨ (∃ ta tb, a = .int ta ∧ b = .int tb ∧ normI ta = normI tb) ∨
    (∃ l t t', a = .array l t ∧ b = .array l t' ∧ normT t = normT t') := by
  cases a <;> cases b <;> simp only [normT, reduceCtorEq, WType.int.injEq, WType.array.injEq,
    WType.fixed.injEq, WType.custom.injEq] at h <;> first
    | exact Or.inl rfl
    | (right; left; exact ⟨_, _, rfl, rfl, h⟩)
    | (right; right; obtain ⟨rfl, h⟩ := h; exact ⟨_, _, _, rfl, rfl, h⟩)
    | (left; obtain ⟨rfl, rfl⟩ := h; rfl)
    | (left; subst h; rfl)

theorem normI_eq_cases (ta tb : IntT) (h : normI ta = normI tb) :
    ta = tb ∨ (ta = .i8 ∧ tb = .u8) ∨ (ta = .u8 ∧ tb = .i8) := by
  cases ta <;> cases tb <;> simp [normI] at h ⊢

theorem pack_i8_u8 (i : Int) (h1 : IntT.i8.inDom i) (h2 : IntT.u8.inDom i) :
    IntT.i8.pack i = IntT.u8.pack i := by
  have c1 : -128 ≤ i ∧ i < 128 := by simpa [IntT.inDom, IntT.signed, IntT.width] using h1
  have c2 : 0 ≤ i ∧ i < 256 := by simpa [IntT.inDom, IntT.signed, IntT.width] using h2
  have d1 : -((256 : Int) ^ 1 / 2) ≤ i ∧ i < (256 : Int) ^ 1 / 2 := by omega
  have d2 : 0 ≤ i ∧ i < (256 : Int) ^ 1 := by omega
  have e : (i % (256 : Int) ^ 1).toNat = i.toNat := by omega
  show (if IntT.i8.signed = true then packS 1 i else packU 1 i) =
    (if IntT.u8.signed = true then packS 1 i else packU 1 i)
  have s1 : IntT.i8.signed = true := rfl
  have s2 : ¬ (IntT.u8.signed = true) := by decide
  rw [if_pos s1, if_neg s2, packS, packU, if_pos d1, if_pos d2, e]

theorem encEach_congr (f g : Value → Except Err Bytes) : ∀ vs : List Value,
    (∀ v ∈ vs, f v = g v) → encEach f vs = encEach g vs := by
  intro vs
  induction vs with
  | nil => intro _; rfl
  | cons v vs ih =>
    intro h
    simp only [encEach, h v List.mem_cons_self, ih (fun w hw => h w (List.mem_cons_of_mem _ hw))]

/-- two types with the same normal form encode every value that is in the domain of BOTH to the
same bytes (the only non-trivial case: `i8` vs `u8` on `0 … 127`) -/
theorem encode_norm (cc : CustomCodec) (cw : CustomT → Value → Prop) : ∀ (a b : WType),
    normT a = normT b → ∀ v, WellTyped cw a v → WellTyped cw b v →
    encode cc a v = encode cc b v := by
  intro a
  induction a with
  | array l t ih =>
    intro b h v h1 h2
    rcases normT_eq_cases _ _ h with rfl | ⟨ta, tb, e, _, _⟩ | ⟨l', t0, t', e, rfl, hn⟩
    · rfl
    · cases e
    · cases e
      cases v <;> try (simp [WellTyped] at h1; done)
      rename_i vs
      obtain ⟨_, hv1⟩ := wellTyped_array h1
      obtain ⟨_, hv2⟩ := wellTyped_array h2
      simp only [encode, encEach_congr _ _ vs (fun w hw => ih t' hn w (hv1 w hw) (hv2 w hw))]
  | int ta =>
    intro b h v h1 h2
    rcases normT_eq_cases _ _ h with rfl | ⟨ta', tb, e, rfl, hn⟩ | ⟨l', t0, t', e, _, _⟩
    · rfl
    · cases e
      cases v <;> try (simp [WellTyped] at h1; done)
      rename_i i
      rcases normI_eq_cases _ _ hn with rfl | ⟨rfl, rfl⟩ | ⟨rfl, rfl⟩
      · rfl
      · exact pack_i8_u8 i h1 h2
      · exact (pack_i8_u8 i h2 h1).symm
    · cases e
  | _ =>
    intro b h v _ _
    rcases normT_eq_cases _ _ h with rfl | ⟨ta, tb, e, _, _⟩ | ⟨l', t0, t', e, _, _⟩
    · rfl
    · cases e
    · cases e

/-- the types of a layout, normalised -/
def normL (L : Layout) : List WType := L.map fun f => normT f.2

theorem encodeFields_norm (cc : CustomCodec) (cw : CustomT → Value → Prop) : ∀ (L1 L2 : Layout),
    normL L1 = normL L2 → ∀ vals, WellTypedFields cw L1 vals → WellTypedFields cw L2 vals →
    encodeFields cc L1 vals = encodeFields cc L2 vals := by
  intro L1
  induction L1 with
  | nil =>
    intro L2 h vals h1 _
    cases L2 with
    | nil => rfl
    | cons g L2 => simp [normL] at h
  | cons f L1 ih =>
    intro L2 h vals h1 h2
    cases L2 with
    | nil => simp [normL] at h
    | cons g L2 =>
      obtain ⟨n1, t1⟩ := f
      obtain ⟨n2, t2⟩ := g
      simp only [normL, List.map_cons, List.cons.injEq] at h
      obtain ⟨v, vs, rfl, hv1, hvs1⟩ := wtf_cons h1
      obtain ⟨hv2, hvs2⟩ : WellTyped cw t2 v ∧ WellTypedFields cw L2 vs := h2
      simp only [encodeFields, encode_norm cc cw t1 t2 h.1 v hv1 hv2, ih L2 h.2 vs hvs1 hvs2]

/-! ### reading -/

theorem repeatDec_norm (f g : Bytes → Except Err (Value × Bytes)) (p q : Value → Value)
    (h : ∀ bs, (f bs).map (fun x => (p x.1, x.2)) = (g bs).map (fun x => (q x.1, x.2))) :
    ∀ (n : Nat) (bs : Bytes),
      (repeatDec f n bs).map (fun x => (x.1.map p, x.2)) =
      (repeatDec g n bs).map (fun x => (x.1.map q, x.2)) := by
  intro n
  induction n with
  | zero => intro bs; rfl
  | succ n ih =>
    intro bs
    have hb := h bs
    simp only [repeatDec, bind, Except.bind]
    cases hf : f bs with
    | error e =>
      cases hg : g bs with
      | error e' => simp [hf, hg, Except.map] at hb ⊢; exact hb
      | ok y => simp [hf, hg, Except.map] at hb
    | ok x =>
      cases hg : g bs with
      | error e' => simp [hf, hg, Except.map] at hb
      | ok y =>
        simp only [hf, hg, Except.map, Except.ok.injEq, Prod.mk.injEq] at hb
        obtain ⟨hb1, hb2⟩ := hb
        have := ih x.2
        rw [hb2] at this
        simp only
        cases hf2 : repeatDec f n x.2 with
        | error e =>
          cases hg2 : repeatDec g n y.2 with
          | error e' => rw [hb2] at hf2; simp [hf2, hg2, Except.map] at this ⊢; exact this
          | ok w => rw [hb2] at hf2; simp [hf2, hg2, Except.map] at this
        | ok z =>
          cases hg2 : repeatDec g n y.2 with
          | error e' => rw [hb2] at hf2; simp [hf2, hg2, Except.map] at this
          | ok w =>
            rw [hb2] at hf2
            simp only [hf2, hg2, Except.map, Except.ok.injEq, Prod.mk.injEq] at this
            simp [Except.map, pure, Except.pure, hb1, this.1, this.2]

theorem decode_i8_u8 (cc : CustomCodec) (bs : Bytes) :
    (decode cc (.int .i8) bs).map (fun x => (signNorm (.int .i8) x.1, x.2)) =
    (decode cc (.int .u8) bs).map (fun x => (signNorm (.int .u8) x.1, x.2)) := by
  cases bs with
  | nil => rfl
  | cons b rest =>
    have hb := b.toNat_lt
    simp [decode, IntT.unpack, IntT.signed, IntT.width, unpackS, unpackU, takeN, bind, Except.bind,
      pure, Except.pure, Except.map, signNorm, beValue]
    split <;> omega

/-- two types with the same normal form read every byte string alike: both fail with the same
error, or both succeed, consume the same bytes and return values that agree up to the sign reading
of single bytes -/
theorem decode_norm (cc : CustomCodec) : ∀ (a b : WType), normT a = normT b → ∀ bs,
    (decode cc a bs).map (fun x => (signNorm a x.1, x.2)) =
    (decode cc b bs).map (fun x => (signNorm b x.1, x.2)) := by
  intro a
  induction a with
  | array l t ih =>
    intro b h bs
    rcases normT_eq_cases _ _ h with rfl | ⟨ta, tb, e, _, _⟩ | ⟨l', t0, t', e, rfl, hn⟩
    · rfl
    · cases e
    · cases e
      simp only [decode, bind, Except.bind]
      cases hd : decLen l bs with
      | error e => rfl
      | ok x =>
        have := repeatDec_norm (decode cc t) (decode cc t') (signNorm t) (signNorm t')
          (ih t' hn) x.1 x.2
        simp only
        cases h1 : repeatDec (decode cc t) x.1 x.2 with
        | error e =>
          cases h2 : repeatDec (decode cc t') x.1 x.2 with
          | error e' => simp [h1, h2, Except.map] at this ⊢; exact this
          | ok w => simp [h1, h2, Except.map] at this
        | ok z =>
          cases h2 : repeatDec (decode cc t') x.1 x.2 with
          | error e' => simp [h1, h2, Except.map] at this
          | ok w =>
            simp only [h1, h2, Except.map, Except.ok.injEq, Prod.mk.injEq] at this
            simp [Except.map, pure, Except.pure, signNorm, this.1, this.2]
  | int ta =>
    intro b h bs
    rcases normT_eq_cases _ _ h with rfl | ⟨ta', tb, e, rfl, hn⟩ | ⟨l', t0, t', e, _, _⟩
    · rfl
    · cases e
      rcases normI_eq_cases _ _ hn with rfl | ⟨rfl, rfl⟩ | ⟨rfl, rfl⟩
      · rfl
      · exact decode_i8_u8 cc bs
      · exact (decode_i8_u8 cc bs).symm
    · cases e
  | _ =>
    intro b h bs
    rcases normT_eq_cases _ _ h with rfl | ⟨ta, tb, e, _, _⟩ | ⟨l', t0, t', e, _, _⟩
    · rfl
    · cases e
    · cases e

/-- field-wise `signNorm` -/
def signNormL : Layout → List Value → List Value
  | (_, t) :: L, v :: vs => signNorm t v :: signNormL L vs
  | _, vs => vs

theorem decodeFields_norm (cc : CustomCodec) : ∀ (L1 L2 : Layout), normL L1 = normL L2 → ∀ bs,
    (decodeFields cc L1 bs).map (fun x => (signNormL L1 x.1, x.2)) =
    (decodeFields cc L2 bs).map (fun x => (signNormL L2 x.1, x.2)) := by
  intro L1
  induction L1 with
  | nil =>
    intro L2 h bs
    cases L2 with
    | nil => rfl
    | cons g L2 => simp [normL] at h
  | cons f L1 ih =>
    intro L2 h bs
    cases L2 with
    | nil => simp [normL] at h
    | cons g L2 =>
      obtain ⟨n1, t1⟩ := f
      obtain ⟨n2, t2⟩ := g
      simp only [normL, List.map_cons, List.cons.injEq] at h
      have hd := decode_norm cc t1 t2 h.1 bs
      simp only [decodeFields, bind, Except.bind]
      cases h1 : decode cc t1 bs with
      | error e =>
        cases h2 : decode cc t2 bs with
        | error e' => simp [h1, h2, Except.map] at hd ⊢; exact hd
        | ok y => simp [h1, h2, Except.map] at hd
      | ok x =>
        cases h2 : decode cc t2 bs with
        | error e' => simp [h1, h2, Except.map] at hd
        | ok y =>
          simp only [h1, h2, Except.map, Except.ok.injEq, Prod.mk.injEq] at hd
          obtain ⟨hd1, hd2⟩ := hd
          have := ih L2 h.2 x.2
          rw [hd2] at this
          simp only
          cases h3 : decodeFields cc L1 x.2 with
          | error e =>
            rw [hd2] at h3
            cases h4 : decodeFields cc L2 y.2 with
            | error e' => simp [h3, h4, Except.map] at this ⊢; exact this
            | ok w => simp [h3, h4, Except.map] at this
          | ok z =>
            rw [hd2] at h3
            cases h4 : decodeFields cc L2 y.2 with
            | error e' => simp [h3, h4, Except.map] at this
            | ok w =>
              simp only [h3, h4, Except.map, Except.ok.injEq, Prod.mk.injEq] at this
              simp [Except.map, pure, Except.pure, signNormL, hd1, this.1, this.2]

end PyCraft.C07
