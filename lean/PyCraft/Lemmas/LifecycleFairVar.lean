import PyCraft.Lemmas.LifecycleFair
/-!
The global variant for the liveness argument over `Model/Lifecycle.lean`.

`vari U s = 25 · Σ_{u<U} (remaining actions of user thread u) + Σ_{k<nthreads} rank (pc of thread k)`.

* every step of a user thread decreases it (user programs are finite lists; a `connect()` may
  create one thread object, of rank ≤ 23 < 25);
* a step of a networking thread that lowers its own rank and creates no thread decreases it.

Networking threads that are NOT interrupted loop for ever, so the variant is only used in
situations where no such thread can move: while a thread that occupies a slot waits for the lock
(`other_net_step`), and once no `connect()` can happen any more (`Closing`).
-/
namespace PyCraft.Life
set_option linter.unusedSimpArgs false

/-! ### Finite sums -/

def sumTo (f : Nat → Nat) : Nat → Nat
  | 0 => 0
  | n + 1 => sumTo f n + f n

theorem sumTo_congr (f g : Nat → Nat) (n : Nat) (h : ∀ k, k < n → g k = f k) :
    sumTo g n = sumTo f n := by
  induction n with
  | zero => rfl
  | succ n ih =>
    simp only [sumTo]
    rw [ih (fun k hk => h k (by omega)), h n (by omega)]

theorem sumTo_update (f g : Nat → Nat) (i n : Nat) (hi : i < n)
    (h : ∀ k, k < n → k ≠ i → g k = f k) : sumTo g n + f i = sumTo f n + g i := by
  induction n with
  | zero => omega
  | succ n ih =>
    simp only [sumTo]
    by_cases hin : i = n
    · subst hin
      rw [sumTo_congr f g i (fun k hk => h k (by omega) (by omega))]
      omega
    · have := ih (by omega) (fun k hk hki => h k (by omega) hki)
      rw [h n (by omega) (fun hc => hin hc.symm)]
      omega

/-! ### The variant -/

/-- Remaining actions of a user thread: two per call (body, release), one if inside a call. -/
def urem (x : UsrThr) : Nat :=
  2 * x.todo.length + (match x.pc with
    | .idle => 0
    | .rel _ => 1)

def vari (U : Nat) (s : Sys) : Nat :=
  25 * sumTo (fun u => urem (s.usr u)) U + sumTo (fun k => (s.net k).pc.rank) s.nthreads

/-- User threads `U, U+1, …` have no program (and never had one). -/
def UB (U : Nat) (s : Sys) : Prop := ∀ u, U ≤ u → (s.usr u).pc = .idle ∧ (s.usr u).todo = []

theorem init_UB (progs : List (List Op)) (rl rh : Nat) : UB progs.length (init progs rl rh) := by
  intro u hu
  simp [init, List.getD, List.getElem?_eq_none hu]

/-- What a step of user thread `u` does to the user threads. -/
theorem usr_step_user (env : List Beh) (s s' : Sys) (u : Nat)
    (hs : step env s (.user u) = some s') :
    urem (s'.usr u) + 1 = urem (s.usr u) ∧ (∀ v, v ≠ u → s'.usr v = s.usr v) ∧
    ¬((s.usr u).pc = .idle ∧ (s.usr u).todo = []) := by
  simp only [step, stepUser] at hs
  split at hs
  · next hpc =>
    split at hs
    · cases hs
    · next op rest htd =>
      split at hs
      · simp only [Option.some.injEq] at hs; subst hs
        refine ⟨by simp [updU, urem, hpc, htd]; omega, fun v hv => by simp [updU, hv], ?_⟩
        simp [htd]
      · cases hs
  · next out hpc =>
    simp only [Option.some.injEq] at hs; subst hs
    refine ⟨by simp [updU, urem, hpc], fun v hv => by simp [updU, hv], ?_⟩
    simp [hpc]

/-- A step of a networking thread does not touch the user threads. -/
theorem usr_step_net (env : List Beh) (s s' : Sys) (k : Nat)
    (hs : step env s (.net k) = some s') : s'.usr = s.usr := by
  step_cases hs
  all_goals first | rfl | grind

/-- A step creates at most one thread object. -/
theorem nthreads_step (env : List Beh) (s s' : Sys) (t : Tid)
    (hs : step env s t = some s') : s'.nthreads = s.nthreads ∨ s'.nthreads = s.nthreads + 1 := by
  step_cases hs
  all_goals simp [refusedSt, directSt, succSt, discSt]

theorem UB_step (env : List Beh) (U : Nat) (s s' : Sys) (t : Tid) (h : UB U s)
    (hs : step env s t = some s') : UB U s' := by
  rcases t with u | k
  · obtain ⟨-, h2, h3⟩ := usr_step_user env s s' u hs
    intro v hv
    by_cases hvu : v = u
    · subst hvu; exact absurd (h v hv) h3
    · rw [h2 v hvu]; exact h v hv
  · rw [UB, usr_step_net env s s' k hs]; exact h

theorem UB_runN (env : List Beh) (U : Nat) (s : Sys) (h : UB U s) (σ : Nat → Tid) (n : Nat) :
    UB U (runN env s σ n) := by
  induction n with
  | zero => exact h
  | succ n ih =>
    cases hst : step env (runN env s σ n) (σ n) with
    | none => rw [runN_succ_none env s σ n hst]; exact ih
    | some s' => rw [runN_succ_some env s σ n s' hst]; exact UB_step env U _ s' _ ih hst

theorem UB_run (env : List Beh) (U : Nat) (sched : List Tid) :
    ∀ s, UB U s → UB U (run env s sched) := by
  induction sched with
  | nil => intro s h; exact h
  | cons t ts ih =>
    intro s h
    simp only [run]
    cases hst : step env s t with
    | none => exact ih s h
    | some s' => exact ih s' (UB_step env U s s' t h hst)

/-- The sum of the ranks grows by at most 23 when another thread moves (a thread object may have
been created). -/
theorem rank_sum_other (env : List Beh) (s s' : Sys) (t : Tid)
    (hs : step env s t = some s')
    (hpc : ∀ k, k < s.nthreads → (s'.net k).pc = (s.net k).pc) :
    sumTo (fun k => (s'.net k).pc.rank) s'.nthreads ≤
      sumTo (fun k => (s.net k).pc.rank) s.nthreads + 23 ∧
    (s'.nthreads = s.nthreads →
      sumTo (fun k => (s'.net k).pc.rank) s'.nthreads =
        sumTo (fun k => (s.net k).pc.rank) s.nthreads) := by
  have e := sumTo_congr (fun k => (s.net k).pc.rank) (fun k => (s'.net k).pc.rank) s.nthreads
    (fun k hk => by simp only [hpc k hk])
  rcases nthreads_step env s s' t hs with hn | hn
  · rw [hn, e]; exact ⟨by omega, fun _ => rfl⟩
  · rw [hn]; simp only [sumTo]; rw [e]
    have := rank_le (s'.net s.nthreads).pc
    exact ⟨by omega, fun hc => by omega⟩

/-- Every step of a user thread decreases the variant. -/
theorem user_step_vari (env : List Beh) (U : Nat) (s s' : Sys) (u : Nat) (h : LInv s)
    (hub : UB U s) (hs : step env s (.user u) = some s') : vari U s' < vari U s := by
  obtain ⟨h1, h2, h3⟩ := usr_step_user env s s' u hs
  have hu : u < U := by
    apply Classical.byContradiction
    intro hc
    exact h3 (hub u (by omega))
  have e1 := sumTo_update (fun v => urem (s.usr v)) (fun v => urem (s'.usr v)) u U hu
    (fun v _ hv => by simp only [h2 v hv])
  have hpc : ∀ k, k < s.nthreads → (s'.net k).pc = (s.net k).pc := fun k hk =>
    pc_other env s s' _ h hs k (fun hc => by have := (h.born k).mp hc; omega) (by simp)
  have e2 := (rank_sum_other env s s' _ hs hpc).1
  simp only [vari]
  omega

/-- A step of a networking thread that lowers its own rank without creating a thread object
decreases the variant. -/
theorem net_step_vari (env : List Beh) (U : Nat) (s s' : Sys) (k : Nat) (h : LInv s)
    (hs : step env s (.net k) = some s') (hn : s'.nthreads = s.nthreads)
    (hr : (s'.net k).pc.rank < (s.net k).pc.rank) : vari U s' < vari U s := by
  have hk : k < s.nthreads := by
    apply Classical.byContradiction
    intro hc
    have hu := (h.born k).mpr (by omega)
    simp [step, stepNet, hu] at hs
  have hpc : ∀ i, i < s.nthreads → i ≠ k → (s'.net i).pc.rank = (s.net i).pc.rank :=
    fun i hi hik => by
      rw [pc_other env s s' _ h hs i (fun hc => by have := (h.born i).mp hc; omega)
        (by simpa using fun hc => hik hc.symm)]
  have e := sumTo_update (fun i => (s.net i).pc.rank) (fun i => (s'.net i).pc.rank) k s.nthreads hk
    hpc
  simp only [vari, usr_step_net env s s' k hs, hn]
  omega

end PyCraft.Life
