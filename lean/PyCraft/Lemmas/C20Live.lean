import PyCraft.Model.C20Live
import PyCraft.Lemmas.Trackers
import PyCraft.Lemmas.Enums
/-! Helper lemmas for `Props/C20Live.lean` (audit gap 16): Python's `&`/`|` on ints bit by bit, the
signed flags byte, the int model of `name_from_value` against the natural-number model, the
player list with spelled-out add slots against `Model/Trackers.lean`. -/
namespace PyCraft.TrackLive
open PyCraft PyCraft.Trackers PyCraft.Enums

/-! ### `pyAnd`, `pyOr` bit by bit -/

theorem pyBit_ofNat (a k : Nat) : pyBit (Int.ofNat a) k = a.testBit k := by
  unfold pyBit
  rw [Nat.testBit_eq_decide_div_mod_eq]
  have h : (Int.ofNat a) / (2 : Int) ^ k = ((a / 2 ^ k : Nat) : Int) := by
    rw [Int.natCast_ediv, Int.natCast_pow]; rfl
  rw [h]
  congr 1
  apply propext
  omega

theorem pyBit_negSucc (a k : Nat) : pyBit (Int.negSucc a) k = !a.testBit k := by
  unfold pyBit
  rw [Nat.testBit_eq_decide_div_mod_eq]
  have hpos : (0 : Int) < (2 : Int) ^ k := Int.pow_pos (by decide)
  have h : (Int.negSucc a) / (2 : Int) ^ k = -(((a / 2 ^ k : Nat) : Int) + 1) := by
    rw [Int.negSucc_ediv a hpos, Int.natCast_ediv, Int.natCast_pow]; rfl
  rw [h]
  generalize a / 2 ^ k = q
  by_cases hq : q % 2 = 1
  · have : ¬ (-((q : Int) + 1)) % 2 = 1 := by omega
    rw [decide_eq_false this, decide_eq_true hq]; rfl
  · have : (-((q : Int) + 1)) % 2 = 1 := by omega
    rw [decide_eq_true this, decide_eq_false hq]; rfl

theorem pyAnd_bit (a b : Int) (k : Nat) : pyBit (pyAnd a b) k = (pyBit a k && pyBit b k) := by
  cases a <;> cases b <;>
    simp only [pyAnd, pyBit_ofNat, pyBit_negSucc, Nat.testBit_and, Nat.testBit_or, Nat.testBit_xor] <;>
    cases Nat.testBit _ k <;> cases Nat.testBit _ k <;> rfl

theorem pyOr_bit (a b : Int) (k : Nat) : pyBit (pyOr a b) k = (pyBit a k || pyBit b k) := by
  cases a <;> cases b <;>
    simp only [pyOr, pyBit_ofNat, pyBit_negSucc, Nat.testBit_and, Nat.testBit_or, Nat.testBit_xor] <;>
    cases Nat.testBit _ k <;> cases Nat.testBit _ k <;> rfl

/-! ### The signed flags byte -/

/-- `flags & 2**k` is truthy iff binary digit `k` of `flags` is set. -/
theorem pyAnd_two_pow_ne_zero (flags : Int) (k : Nat) :
    pyAnd flags ((2 ^ k : Nat) : Int) ≠ 0 ↔ pyBit flags k = true := by
  cases flags with
  | ofNat a =>
    rw [pyBit_ofNat, Nat.testBit_eq_decide_div_mod_eq, decide_eq_true_iff,
      ← and_two_pow_ne_zero a k]
    show Int.ofNat (a &&& 2 ^ k) ≠ 0 ↔ _
    exact not_congr (by simp)
  | negSucc a =>
    rw [pyBit_negSucc]
    show Int.ofNat (2 ^ k ^^^ (2 ^ k &&& a)) ≠ 0 ↔ _
    have hb : ∀ i, (2 ^ k ^^^ (2 ^ k &&& a)).testBit i = (decide (k = i) && !a.testBit i) := by
      intro i
      rw [Nat.testBit_xor, Nat.testBit_and, Nat.testBit_two_pow]
      cases decide (k = i) <;> cases a.testBit i <;> rfl
    cases h : a.testBit k
    · refine ⟨fun _ => rfl, fun _ e => ?_⟩
      have e' : 2 ^ k ^^^ (2 ^ k &&& a) = 0 := Int.ofNat.inj e
      have := hb k
      rw [e', h] at this
      simp at this
    · refine ⟨fun hne => absurd ?_ hne, fun e => by simp at e⟩
      have : 2 ^ k ^^^ (2 ^ k &&& a) = 0 := by
        apply Nat.eq_of_testBit_eq
        intro i
        rw [hb i, Nat.zero_testBit]
        by_cases e : k = i
        · subst e; simp [h]
        · simp [e]
      rw [this]; rfl

theorem pyBit_byte (flags : Int) (k : Nat) (hk : k < 8) :
    pyBit flags k = decide (flagsOfByte flags / 2 ^ k % 2 = 1) := by
  unfold pyBit flagsOfByte
  congr 1
  apply propext
  have : k = 0 ∨ k = 1 ∨ k = 2 ∨ k = 3 ∨ k = 4 ∨ k = 5 ∨ k = 6 ∨ k = 7 := by omega
  rcases this with rfl | rfl | rfl | rfl | rfl | rfl | rfl | rfl <;> omega

/-- One branch of `apply`: Python's `&` on the signed flags agrees with the natural-number `&&&` on the
two's-complement byte, for every single-bit flag below `0x100`. -/
theorem relOrAbsZ_eq (flags : Int) (k : Nat) (hk : k < 8) (cur pkt : Rat) :
    relOrAbsZ flags ((2 ^ k : Nat) : Int) cur pkt = relOrAbs (flagsOfByte flags) (2 ^ k) cur pkt := by
  rw [relOrAbs_bit]
  unfold relOrAbsZ
  by_cases h : flagsOfByte flags / 2 ^ k % 2 = 1
  · have : pyBit flags k = true := by rw [pyBit_byte flags k hk]; simpa using h
    rw [if_pos ((pyAnd_two_pow_ne_zero flags k).2 this), if_pos h]
  · have : ¬ pyBit flags k = true := by rw [pyBit_byte flags k hk]; simpa using h
    rw [if_neg (fun e => this ((pyAnd_two_pow_ne_zero flags k).1 e)), if_neg h]

theorem applyPosLookWith_model (flags : Int) (pkt cur : Pos) :
    applyPosLookWith modelPosFlags flags pkt cur = applyPosLook (flagsOfByte flags) pkt cur := by
  have h0 := relOrAbsZ_eq flags 0 (by decide)
  have h1 := relOrAbsZ_eq flags 1 (by decide)
  have h2 := relOrAbsZ_eq flags 2 (by decide)
  have h3 := relOrAbsZ_eq flags 3 (by decide)
  have h4 := relOrAbsZ_eq flags 4 (by decide)
  simp only [applyPosLookWith, applyPosLook, modelPosFlags, FLAG_REL_X, FLAG_REL_Y, FLAG_REL_Z,
    FLAG_REL_YAW, FLAG_REL_PITCH]
  exact congr (congr (congr (congr (congrArg Pos.mk (h0 _ _)) (h1 _ _)) (h2 _ _))
    (congrArg mod360 (h3 _ _))) (congrArg mod360 (h4 _ _))

/-! ### The int model extends the natural-number model -/

abbrev castP (p : String × Nat) : String × Int := (p.1, (p.2 : Int))

theorem intMembers_eq (l : List (String × Nat)) : intMembers l = l.map castP := rfl

theorem pyOr_natCast (a b : Nat) : pyOr (a : Int) (b : Int) = ((a ||| b : Nat) : Int) := rfl

theorem candidatesZ_cast (members : List (String × Nat)) (value : Nat) :
    candidatesZ (members.map castP) (value : Int) = (candidates members value).map castP := by
  unfold candidatesZ candidates
  rw [List.filter_map]
  congr 1
  apply List.filter_congr
  intro p _
  simp only [Function.comp, pyOr_natCast]
  congr 1
  simp [BEq.beq, Int.ofNat_inj]

theorem insDescZ_cast (p : String × Nat) (l : List (String × Nat)) :
    insDescZ (castP p) (l.map castP) = (insDesc p l).map castP := by
  induction l with
  | nil => rfl
  | cons q qs ih =>
    simp only [List.map_cons, insDescZ, insDesc, castP, Int.ofNat_le]
    split
    · rfl
    · simp only [List.map_cons]; rw [← ih]

theorem sortDescZ_cast (l : List (String × Nat)) :
    sortDescZ (l.map castP) = (sortDesc l).map castP := by
  induction l with
  | nil => rfl
  | cons p ps ih => simp only [List.map_cons, sortDescZ, sortDesc, ih, insDescZ_cast]

theorem greedyZ_cast (value : Nat) (l : List (String × Nat)) :
    ∀ (names : List String) (ret : Nat),
      greedyZ (value : Int) (l.map castP) (names, (ret : Int)) =
        ((greedy value l (names, ret)).1, (((greedy value l (names, ret)).2 : Nat) : Int)) := by
  induction l with
  | nil => intro names ret; rfl
  | cons c rest ih =>
    intro names ret
    obtain ⟨n, v⟩ := c
    have hc : ((pyOr (ret : Int) (v : Int) != (ret : Int)) || ((v : Int) == (value : Int))) =
        ((ret ||| v != ret) || (v == value)) := by
      rw [pyOr_natCast]
      simp [bne, BEq.beq, Int.ofNat_inj]
    simp only [List.map_cons, castP, greedyZ, greedy]
    by_cases h : ((ret ||| v != ret) || (v == value)) = true
    · rw [if_pos (hc.trans h), if_pos h]; exact ih _ _
    · rw [if_neg (fun e => h (hc.symm.trans e)), if_neg h]; exact ih _ _

theorem chosenNamesZ_cast (members : List (String × Nat)) (value : Nat) :
    chosenNamesZ (intMembers members) (value : Int) = chosenNames members value := by
  unfold chosenNamesZ chosenNames
  rw [intMembers_eq, candidatesZ_cast, sortDescZ_cast]
  have := greedyZ_cast value (sortDesc (candidates members value)) [] 0
  simp only [Int.natCast_zero] at this
  simp only [this]
  have hc : ((((greedy value (sortDesc (candidates members value)) ([], 0)).2 : Nat) : Int) ==
      (value : Int)) = ((greedy value (sortDesc (candidates members value)) ([], 0)).2 == value) := by
    simp [BEq.beq, Int.ofNat_inj]
  rw [hc]

/-- On natural members and a natural value the int model IS `Enums.nameFromValue`. -/
theorem nameFromValueZ_cast (members : List (String × Nat)) (value : Nat) :
    nameFromValueZ (intMembers members) (value : Int) = nameFromValue members value := by
  unfold nameFromValueZ nameFromValue
  rw [chosenNamesZ_cast]
  rcases chosenNames members value with _ | _ | _ <;> rfl

/-! ### Negative values -/

theorem pyOr_nonneg (a b : Int) (ha : 0 ≤ a) (hb : 0 ≤ b) : 0 ≤ pyOr a b := by
  cases a with
  | negSucc a => omega
  | ofNat a =>
    cases b with
    | negSucc b => omega
    | ofNat b => exact Int.natCast_nonneg _

theorem greedyZ_nonneg (value : Int) (l : List (String × Int)) (hl : ∀ p ∈ l, 0 ≤ p.2) :
    ∀ (names : List String) (ret : Int), 0 ≤ ret → 0 ≤ (greedyZ value l (names, ret)).2 := by
  induction l with
  | nil => intro names ret h; exact h
  | cons c rest ih =>
    intro names ret h
    obtain ⟨n, v⟩ := c
    have hv : 0 ≤ v := hl (n, v) (List.mem_cons_self ..)
    have hr : ∀ p ∈ rest, 0 ≤ p.2 := fun p hp => hl p (List.mem_cons_of_mem _ hp)
    unfold greedyZ
    split
    · exact ih hr _ _ (pyOr_nonneg _ _ h hv)
    · exact ih hr _ _ h

theorem mem_insDescZ (p x : String × Int) (l : List (String × Int)) :
    x ∈ insDescZ p l ↔ x = p ∨ x ∈ l := by
  induction l with
  | nil => simp [insDescZ]
  | cons q qs ih =>
    unfold insDescZ
    split
    · simp
    · simp [ih]; grind

theorem mem_sortDescZ (x : String × Int) (l : List (String × Int)) : x ∈ sortDescZ l ↔ x ∈ l := by
  induction l with
  | nil => simp [sortDescZ]
  | cons p ps ih => simp [sortDescZ, mem_insDescZ, ih]

/-- A class whose upper-case members are all non-negative never names a negative value. -/
theorem nameFromValueZ_neg (members : List (String × Int))
    (hm : ∀ p ∈ members, pyIsUpper p.1 = true → 0 ≤ p.2) (value : Int) (hv : value < 0) :
    nameFromValueZ members value = none := by
  have hc : ∀ p ∈ sortDescZ (candidatesZ members value), 0 ≤ p.2 := by
    intro p hp
    rw [mem_sortDescZ] at hp
    unfold candidatesZ at hp
    rw [List.mem_filter] at hp
    have := hp.2
    simp only [Bool.and_eq_true] at this
    exact hm p hp.1 this.1
  have h := greedyZ_nonneg value _ hc [] 0 (Int.le_refl 0)
  unfold nameFromValueZ chosenNamesZ
  have hne : ((greedyZ value (sortDescZ (candidatesZ members value)) ([], 0)).2 == value) = false := by
    simp only [beq_eq_false_iff_ne, ne_eq]
    omega
  simp only [hne]
  rfl

/-! ### Player list -/

section dictmap
variable {β γ : Type}

abbrev mapVals (g : β → γ) (l : List (Int × β)) : List (Int × γ) := l.map fun kv => (kv.1, g kv.2)

theorem mapVals_dictSet (g : β → γ) (k : Int) (v : β) (l : List (Int × β)) :
    mapVals g (dictSet k v l) = dictSet k (g v) (mapVals g l) := by
  induction l with
  | nil => rfl
  | cons q qs ih =>
    obtain ⟨k₀, v₀⟩ := q
    simp only [dictSet, mapVals, List.map_cons] at ih ⊢
    split
    · rfl
    · simp only [List.map_cons]; rw [ih]

theorem mapVals_dictModify (g : β → γ) (f : β → β) (f' : γ → γ) (hf : ∀ v, g (f v) = f' (g v))
    (k : Int) (l : List (Int × β)) :
    mapVals g (dictModify k f l) = dictModify k f' (mapVals g l) := by
  induction l with
  | nil => rfl
  | cons q qs ih =>
    obtain ⟨k₀, v₀⟩ := q
    simp only [dictModify, mapVals, List.map_cons] at ih ⊢
    split
    · simp only [List.map_cons, hf]
    · simp only [List.map_cons]; rw [ih]

theorem mapVals_dictDel (g : β → γ) (k : Int) (l : List (Int × β)) :
    mapVals g (dictDel k l) = dictDel k (mapVals g l) := by
  induction l with
  | nil => rfl
  | cons q qs ih =>
    obtain ⟨k₀, v₀⟩ := q
    simp only [dictDel, mapVals, List.map_cons] at ih ⊢
    split
    · rfl
    · simp only [List.map_cons]; rw [ih]

theorem dictGet_mapVals (g : β → γ) (k : Int) (l : List (Int × β)) :
    dictGet k (mapVals g l) = (dictGet k l).map g := by
  induction l with
  | nil => rfl
  | cons q qs ih =>
    obtain ⟨k₀, v₀⟩ := q
    simp only [dictGet, mapVals, List.map_cons] at ih ⊢
    split
    · rfl
    · exact ih

theorem keys_mapVals (g : β → γ) (l : List (Int × β)) : keys (mapVals g l) = keys l := by
  simp [keys, mapVals, List.map_map, Function.comp_def]

end dictmap

theorem absList_eq (enc : List PlayerProperty → Nat) (l : PlayerListF) :
    absList enc l = mapVals (PlayerItem.abs enc) l := rfl

theorem absList_step (enc : List PlayerProperty → Nat) (l : PlayerListF) (a : ActionF) :
    absList enc (applyActionF l a) = applyAction (absList enc l) (a.abs enc) := by
  simp only [absList_eq]
  cases a with
  | add a => exact mapVals_dictSet _ _ _ _
  | gamemode u g =>
    exact mapVals_dictModify (PlayerItem.abs enc) (fun p => { p with gamemode := g })
      (fun p => { p with gamemode := g }) (fun _ => rfl) u l
  | latency u x =>
    exact mapVals_dictModify (PlayerItem.abs enc) (fun p => { p with ping := x })
      (fun p => { p with ping := x }) (fun _ => rfl) u l
  | displayName u d =>
    exact mapVals_dictModify (PlayerItem.abs enc) (fun p => { p with displayName := d })
      (fun p => { p with displayName := d }) (fun _ => rfl) u l
  | remove u => exact mapVals_dictDel _ _ _

theorem absList_packet (enc : List PlayerProperty → Nat) (pkt : List ActionF) :
    ∀ l : PlayerListF,
      absList enc (applyPacketF l pkt) = applyPacket (absList enc l) (pkt.map (ActionF.abs enc)) := by
  induction pkt with
  | nil => intro l; rfl
  | cons a as ih =>
    intro l
    simp only [applyPacketF, applyPacket, List.foldl_cons, List.map_cons] at ih ⊢
    rw [ih, absList_step]

theorem absList_replay (enc : List PlayerProperty → Nat) (hist : List (List ActionF)) :
    ∀ l : PlayerListF,
      absList enc (replayF hist l) =
        replay (hist.map (List.map (ActionF.abs enc))) (absList enc l) := by
  induction hist with
  | nil => intro l; rfl
  | cons p ps ih =>
    intro l
    simp only [replayF, replay, List.foldl_cons, List.map_cons] at ih ⊢
    rw [ih, absList_packet]

/-- keys stay distinct -/
theorem keys_applyActionF_nodup (l : PlayerListF) (a : ActionF) (h : (keys l).Nodup) :
    (keys (applyActionF l a)).Nodup := by
  cases a with
  | add a =>
    simp only [applyActionF, keys_dictSet]
    split
    · exact h
    · rename_i hn; exact List.nodup_append.2 ⟨h, by simp, by
        intro x hx y hy; simp at hy; subst hy; exact fun e => hn (e ▸ hx)⟩
  | gamemode u g => simpa only [applyActionF, keys_dictModify] using h
  | latency u x => simpa only [applyActionF, keys_dictModify] using h
  | displayName u d => simpa only [applyActionF, keys_dictModify] using h
  | remove u =>
    simp only [applyActionF]
    rw [dictDel_eq_filter u l h, keys_filter]
    exact h.filter _

theorem dictGet_applyActionF (l : PlayerListF) (h : (keys l).Nodup) (k : Int) (a : ActionF) :
    dictGet k (applyActionF l a) =
      match a with
      | .add a => if k = a.uuid then some a.item else dictGet k l
      | .gamemode u g => if k = u then (dictGet u l).map (fun p => { p with gamemode := g }) else dictGet k l
      | .latency u x => if k = u then (dictGet u l).map (fun p => { p with ping := x }) else dictGet k l
      | .displayName u d =>
        if k = u then (dictGet u l).map (fun p => { p with displayName := d }) else dictGet k l
      | .remove u => if k = u then none else dictGet k l := by
  cases a with
  | add a => exact dictGet_dictSet _ _ _ _
  | gamemode u g => exact dictGet_dictModify _ _ _ _
  | latency u x => exact dictGet_dictModify _ _ _ _
  | displayName u d => exact dictGet_dictModify _ _ _ _
  | remove u =>
    simp only [applyActionF]
    rw [dictDel_eq_filter u l h, dictGet_filter]

/-- name/properties of a bound player are those of the last add -/
theorem lastAdd_spec (acts : List ActionF) :
    ∀ (l : PlayerListF) (init : Option AddPlayer) (k : Int), (keys l).Nodup →
      (dictGet k l).map (fun p => (p.uuid, p.name, p.properties)) =
        init.map (fun a => (a.uuid, a.name, a.properties)) →
      (dictGet k (acts.foldl applyActionF l)).map (fun p => (p.uuid, p.name, p.properties)) =
        (lastAdd k init acts).map (fun a => (a.uuid, a.name, a.properties)) := by
  induction acts with
  | nil => intro l init k _ h; exact h
  | cons a as ih =>
    intro l init k hnd h
    simp only [List.foldl_cons, lastAdd] at ih ⊢
    apply ih _ _ _ (keys_applyActionF_nodup l a hnd)
    rw [dictGet_applyActionF l hnd k a]
    cases a with
    | add a =>
      simp only
      by_cases e : k = a.uuid
      · simp [e, AddPlayer.item]
      · have e' : ¬ a.uuid = k := fun x => e x.symm
        simp [e, e', h]
    | gamemode u g =>
      simp only
      by_cases e : k = u
      · subst e; rw [if_pos rfl, ← h]; cases dictGet k l <;> rfl
      · rw [if_neg e]; exact h
    | latency u g =>
      simp only
      by_cases e : k = u
      · subst e; rw [if_pos rfl, ← h]; cases dictGet k l <;> rfl
      · rw [if_neg e]; exact h
    | displayName u g =>
      simp only
      by_cases e : k = u
      · subst e; rw [if_pos rfl, ← h]; cases dictGet k l <;> rfl
      · rw [if_neg e]; exact h
    | remove u =>
      simp only
      by_cases e : k = u
      · subst e; simp
      · have e' : ¬ u = k := fun x => e x.symm
        simp [e, e', h]

end PyCraft.TrackLive
