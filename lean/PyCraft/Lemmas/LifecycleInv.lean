import PyCraft.Lemmas.LifecycleBase
/-!
The lifecycle invariant `LInv` of `Model/Lifecycle.lean`, its preservation by every step
(`step_inv`), and its first consequences (`io_unique`, `busy_iff`).
-/
namespace PyCraft.Life
set_option linter.unusedSimpArgs false

/-- The lifecycle invariant. -/
structure LInv (s : Sys) : Prop where
  /-- exactly the lock owner is at the end of a `with lock:` block -/
  own_iff : ∀ t, atRel s t = true ↔ s.owner = some t
  /-- acquisitions are never nested across actions -/
  depth_ok : s.depth = if s.owner = none then 0 else 1
  /-- thread objects `0 … nthreads-1` exist -/
  born : ∀ i, (s.net i).pc = .unborn ↔ s.nthreads ≤ i
  /-- `networking_thread` is the thread between take-over/creation and its epilogue -/
  nt_iff : ∀ i, s.nt = some i ↔ (s.net i).pc.holds = true
  /-- `new_networking_thread` is the successor that has not taken over yet -/
  new_iff : ∀ i, s.newNt = some i ↔ (s.net i).pc.waiting = true
  /-- a waiting successor has a predecessor, which is interrupted, and is the slot holder unless
  the slot is already empty -/
  prev_ok : ∀ i, (s.net i).pc.waiting = true → ∃ p, (s.net i).prev = some p ∧
    (s.net p).intr = true ∧ p ≠ i ∧ (s.net p).pc ≠ .unborn ∧ (s.nt = some p ∨ s.nt = none)
  /-- the take-over happens only after the predecessor has died -/
  tk_dead : ∀ i p, (s.net i).pc = .takeOver → (s.net i).prev = some p → (s.net p).pc = .dead
  /-- the epilogue has emptied the slot -/
  ep_nt : ∀ i, (s.net i).pc = .epRel → s.nt = none
  /-- an uninterrupted slot holder or successor owns an open socket and its stream -/
  live_open : ∀ i, ((s.net i).pc.holds = true ∨ (s.net i).pc.waiting = true) →
    (s.net i).intr = false → linked s.socket s.file = true

theorem inv_own (env : List Beh) (s s' : Sys) (t : Tid) (h : LInv s)
    (hs : step env s t = some s') : ∀ u, atRel s' u = true ↔ s'.owner = some u := by
  have h1 := h.own_iff
  have h2 := h.depth_ok
  have h1t := h1 t
  step_cases hs
  all_goals
    intro u; have h1u := h1 u
    rcases u with u | u
    all_goals simp only [atRel, refusedSt, directSt, succSt, discSt] at *
    all_goals grind [updN, updU, NPc.isRel, UPc.isRel, canAcq, ownerAfterRel, dnet, afterCall_isRel]


theorem inv_depth (env : List Beh) (s s' : Sys) (t : Tid) (h : LInv s)
    (hs : step env s t = some s') : s'.depth = if s'.owner = none then 0 else 1 := by
  have h2 := h.depth_ok
  have h1t := h.own_iff t
  step_cases hs
  all_goals simp only [atRel, refusedSt, directSt, succSt, discSt] at *
  all_goals grind [NPc.isRel, UPc.isRel, canAcq, ownerAfterRel]

theorem inv_born (env : List Beh) (s s' : Sys) (t : Tid) (h : LInv s)
    (hs : step env s t = some s') : ∀ i, (s'.net i).pc = .unborn ↔ s'.nthreads ≤ i := by
  have h3 := h.born
  step_cases hs
  all_goals
    intro j; have h3j := h3 j
    simp only [refusedSt, directSt, succSt, discSt] at *
  all_goals grind [updN, dnet, afterCall_ne_unborn]


theorem inv_nt (env : List Beh) (s s' : Sys) (t : Tid) (h : LInv s)
    (hs : step env s t = some s') : ∀ i, s'.nt = some i ↔ (s'.net i).pc.holds = true := by
  have h1 := h.own_iff
  have h3 := h.born
  have h4 := h.nt_iff
  have h5 := h.new_iff
  have h7 := h.prev_ok
  have h8 := h.ep_nt
  have h9 := h.tk_dead
  step_cases hs
  all_goals
    intro j; have h4j := h4 j
    simp only [refusedSt, directSt, succSt, discSt] at *
  all_goals grind [updN, dnet, afterCall_holds, NPc.holds, NPc.waiting, busy]


theorem inv_new (env : List Beh) (s s' : Sys) (t : Tid) (h : LInv s)
    (hs : step env s t = some s') : ∀ i, s'.newNt = some i ↔ (s'.net i).pc.waiting = true := by
  have h3 := h.born
  have h4 := h.nt_iff
  have h5 := h.new_iff
  step_cases hs
  all_goals
    intro j; have h5j := h5 j
    simp only [refusedSt, directSt, succSt, discSt] at *
  all_goals grind [updN, dnet, afterCall_waiting, NPc.holds, NPc.waiting, busy]

theorem inv_prev (env : List Beh) (s s' : Sys) (t : Tid) (h : LInv s)
    (hs : step env s t = some s') : ∀ i, (s'.net i).pc.waiting = true →
      ∃ p, (s'.net i).prev = some p ∧ (s'.net p).intr = true ∧ p ≠ i ∧
        (s'.net p).pc ≠ .unborn ∧ (s'.nt = some p ∨ s'.nt = none) := by
  have h3 := h.born
  have h4 := h.nt_iff
  have h5 := h.new_iff
  have h7 := h.prev_ok
  step_cases hs
  all_goals
    intro j; have h7j := h7 j
    simp only [refusedSt, directSt, succSt, discSt] at *
  all_goals grind [updN, dnet, afterCall_waiting, afterCall_ne_unborn, NPc.holds, NPc.waiting, busy]

theorem inv_tk (env : List Beh) (s s' : Sys) (t : Tid) (h : LInv s)
    (hs : step env s t = some s') : ∀ i p, (s'.net i).pc = .takeOver → (s'.net i).prev = some p →
      (s'.net p).pc = .dead := by
  have h3 := h.born
  have h9 := h.tk_dead
  step_cases hs
  all_goals
    intro j q; have h9j := h9 j q
    simp only [refusedSt, directSt, succSt, discSt] at *
  all_goals grind [updN, dnet, afterCall_ne_takeOver]

theorem inv_ep (env : List Beh) (s s' : Sys) (t : Tid) (h : LInv s)
    (hs : step env s t = some s') : ∀ i, (s'.net i).pc = .epRel → s'.nt = none := by
  have h1 := h.own_iff
  have h3 := h.born
  have h8 := h.ep_nt
  step_cases hs
  all_goals
    intro j; have h8j := h8 j; have h1j := h1 (.net j)
    simp only [refusedSt, directSt, succSt, discSt] at *
  all_goals grind [updN, dnet, afterCall_ne_epRel, atRel, NPc.isRel, canAcq]

theorem inv_live (env : List Beh) (s s' : Sys) (t : Tid) (h : LInv s)
    (hs : step env s t = some s') : ∀ i,
      ((s'.net i).pc.holds = true ∨ (s'.net i).pc.waiting = true) →
      (s'.net i).intr = false → linked s'.socket s'.file = true := by
  have h3 := h.born
  have h4 := h.nt_iff
  have h5 := h.new_iff
  have h7 := h.prev_ok
  have h10 := h.live_open
  step_cases hs
  all_goals
    intro j; have h10j := h10 j
    simp only [refusedSt, directSt, succSt, discSt] at *
  all_goals grind [updN, dnet, afterCall_waiting, afterCall_holds, NPc.holds, NPc.waiting, busy, linked, target]


theorem step_inv (env : List Beh) (s s' : Sys) (t : Tid) (h : LInv s)
    (hs : step env s t = some s') : LInv s' :=
  ⟨inv_own env s s' t h hs, inv_depth env s s' t h hs, inv_born env s s' t h hs,
   inv_nt env s s' t h hs, inv_new env s s' t h hs, inv_prev env s s' t h hs,
   inv_tk env s s' t h hs, inv_ep env s s' t h hs, inv_live env s s' t h hs⟩

theorem init_inv (progs : List (List Op)) (rl rh : Nat) : LInv (init progs rl rh) := by
  refine ⟨?_, rfl, ?_, ?_, ?_, ?_, ?_, ?_, ?_⟩
  · intro t; cases t <;> simp [init, atRel, NPc.isRel, UPc.isRel]
  all_goals simp [init, NPc.holds, NPc.waiting]

theorem run_append (env : List Beh) (s : Sys) (a b : List Tid) :
    run env s (a ++ b) = run env (run env s a) b := by
  induction a generalizing s with
  | nil => rfl
  | cons t ts ih =>
    simp only [List.cons_append, run]
    split <;> exact ih _

theorem run_inv (env : List Beh) (s : Sys) (h : LInv s) (sched : List Tid) :
    LInv (run env s sched) := by
  induction sched generalizing s with
  | nil => exact h
  | cons t ts ih =>
    simp only [run]
    split
    · next s' hs => exact ih s' (step_inv env s s' t h hs)
    · exact ih s h

theorem reach_inv (env : List Beh) (progs : List (List Op)) (rl rh : Nat) (sched : List Tid) :
    LInv (run env (init progs rl rh) sched) :=
  run_inv env _ (init_inv progs rl rh) sched

/-! ### Consequences -/

theorem ioPhase_cases (pc : NPc) (h : pc.ioPhase = true) : pc.holds = true ∨ pc = .epRel := by
  cases pc <;> simp_all [NPc.ioPhase, NPc.phase, NPc.holds]
  all_goals (rename_i site; cases site <;> simp_all [NPc.phase])

/-- At most one networking thread is in an I/O-performing phase. -/
theorem io_unique (s : Sys) (h : LInv s) (i j : Nat)
    (hi : (s.net i).pc.ioPhase = true) (hj : (s.net j).pc.ioPhase = true) : i = j := by
  rcases ioPhase_cases _ hi with hi | hi <;> rcases ioPhase_cases _ hj with hj | hj
  · have := (h.nt_iff i).mpr hi; have := (h.nt_iff j).mpr hj; simp_all
  · have := (h.nt_iff i).mpr hi; have := h.ep_nt j hj; simp_all
  · have := (h.nt_iff j).mpr hj; have := h.ep_nt i hi; simp_all
  · have h1 := (h.own_iff (.net i)).mp (by simp [atRel, hi, NPc.isRel])
    have h2 := (h.own_iff (.net j)).mp (by simp [atRel, hj, NPc.isRel])
    rw [h1] at h2; simpa using h2

end PyCraft.Life
