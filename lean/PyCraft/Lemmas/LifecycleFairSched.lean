import PyCraft.Lemmas.LifecycleFairQuiet
/-!
Concrete fair schedules for `Model/LifecycleFair.lean`: the ruler schedule `diag` picks every one of
the infinitely many thread ids infinitely often (`diag_fair`); round-robin `rr U N` over the user
threads `< U` and the networking threads `< N` is weakly fair for every run in which no more than
`N` thread objects are ever created (`rr_weakFair`), in particular from a closing state
(`rr_weakFair_closing`).
-/
namespace PyCraft.Life
set_option linter.unusedSimpArgs false

theorem tz_pow (v : Nat) : ∀ fuel k, v < fuel → tz fuel (2 ^ v * (2 * k + 1)) = v := by
  induction v with
  | zero =>
    intro fuel k hf
    obtain ⟨f, rfl⟩ : ∃ f, fuel = f + 1 := ⟨fuel - 1, by omega⟩
    have : (2 ^ 0 * (2 * k + 1)) % 2 ≠ 0 := by omega
    simp only [tz, this, if_false]
  | succ v ih =>
    intro fuel k hf
    obtain ⟨f, rfl⟩ : ∃ f, fuel = f + 1 := ⟨fuel - 1, by omega⟩
    have e : 2 ^ (v + 1) * (2 * k + 1) = 2 * (2 ^ v * (2 * k + 1)) := by
      rw [Nat.pow_succ, Nat.mul_comm (2 ^ v) 2, Nat.mul_assoc]
    have h1 : (2 ^ (v + 1) * (2 * k + 1)) % 2 = 0 := by rw [e]; omega
    have h2 : (2 ^ (v + 1) * (2 * k + 1)) / 2 = 2 ^ v * (2 * k + 1) := by rw [e]; omega
    simp only [tz, h1, if_true, h2]
    rw [ih f k (by omega)]

/-- Code of a thread id (inverse of `tidOfCode`). -/
def codeOfTid : Tid → Nat
  | .user u => 2 * u
  | .net i => 2 * i + 1

theorem tidOfCode_code (t : Tid) : tidOfCode (codeOfTid t) = t := by
  cases t with
  | user u =>
    have h1 : (2 * u) % 2 = 0 := by omega
    have h2 : (2 * u) / 2 = u := by omega
    simp only [tidOfCode, codeOfTid, h1, h2, if_true]
  | net i =>
    have h1 : (2 * i + 1) % 2 ≠ 0 := by omega
    have h2 : (2 * i + 1) / 2 = i := by omega
    simp only [tidOfCode, codeOfTid, h1, h2, if_false]

/-- The ruler schedule picks every thread id infinitely often. -/
theorem diag_fair : Fair diag := by
  intro t n
  have hpos : 0 < 2 ^ codeOfTid t := Nat.pow_pos (by omega)
  have hlt : codeOfTid t < 2 ^ codeOfTid t := Nat.lt_two_pow_self
  have hge : 2 * n + 1 ≤ 2 ^ codeOfTid t * (2 * n + 1) := Nat.le_mul_of_pos_left _ hpos
  have hge2 : 2 ^ codeOfTid t ≤ 2 ^ codeOfTid t * (2 * n + 1) := Nat.le_mul_of_pos_right _ (by omega)
  refine ⟨2 ^ codeOfTid t * (2 * n + 1) - 1, by omega, ?_⟩
  have e : 2 ^ codeOfTid t * (2 * n + 1) - 1 + 1 = 2 ^ codeOfTid t * (2 * n + 1) := by omega
  simp only [diag, e]
  rw [tz_pow (codeOfTid t) _ n (by omega), tidOfCode_code]

theorem rr_user (U N u : Nat) (hu : u < U) (n : Nat) : ∃ m, n ≤ m ∧ rr U N m = .user u := by
  refine ⟨n * (U + N) + u, ?_, ?_⟩
  · have : n * 1 ≤ n * (U + N) := Nat.mul_le_mul_left n (by omega)
    omega
  · have e : (n * (U + N) + u) % (U + N) = u := by
      rw [Nat.mul_add_mod_self_right, Nat.mod_eq_of_lt (by omega)]
    simp only [rr, e, hu, if_true]

theorem rr_net (U N i : Nat) (hi : i < N) (n : Nat) : ∃ m, n ≤ m ∧ rr U N m = .net i := by
  refine ⟨n * (U + N) + (U + i), ?_, ?_⟩
  · have : n * 1 ≤ n * (U + N) := Nat.mul_le_mul_left n (by omega)
    omega
  · have e : (n * (U + N) + (U + i)) % (U + N) = U + i := by
      rw [Nat.mul_add_mod_self_right, Nat.mod_eq_of_lt (by omega)]
    have h1 : ¬(U + i < U) := by omega
    have h2 : U + i - U = i := by omega
    simp only [rr, e, h1, if_false, h2]

/-- Round-robin over the user threads `< U` and the networking threads `< N` is weakly fair for a
run in which at most `N` thread objects ever exist: no other thread is ever enabled. -/
theorem rr_weakFair (env : List Beh) (U N : Nat) (s : Sys) (h : LInv s) (hub : UB U s)
    (hN : ∀ n, (runN env s (rr U N) n).nthreads ≤ N) : WeakFair env s (rr U N) := by
  intro t n hen
  have he := hen n (Nat.le_refl _)
  rcases t with u | i
  · apply rr_user U N u _ n
    apply Classical.byContradiction
    intro hc
    obtain ⟨s', hs'⟩ := (enabled_iff _ _ _).mp he
    exact (usr_step_user env _ s' u hs').2.2 (UB_runN env U s hub _ n u (by omega))
  · apply rr_net U N i _ n
    apply Classical.byContradiction
    intro hc
    have hu := ((runN_inv env s h (rr U N) n).born i).mpr (by have := hN n; omega)
    apply he
    simp [step, stepNet, hu]

/-- From a closing state no thread object is created any more, so round-robin over the existing
threads is weakly fair. -/
theorem rr_weakFair_closing (env : List Beh) (U : Nat) (s : Sys) (h : LInv s) (hub : UB U s)
    (hc : Closing s) : WeakFair env s (rr U s.nthreads) :=
  rr_weakFair env U s.nthreads s h hub (fun n => by
    rw [(closing_runN env U s _ h hub hc n).2.2]; exact Nat.le_refl _)

/-- If none of the threads the schedule picks is enabled, nothing ever happens. -/
theorem stuck_const (env : List Beh) (s : Sys) (σ : Nat → Tid)
    (hq : ∀ k, step env s (σ k) = none) (k : Nat) : runN env s σ k = s := by
  induction k with
  | zero => rfl
  | succ k ih => rw [runN_succ, ih, hq]

end PyCraft.Life
