import PyCraft.Lemmas.WritersEff
/-!
The wire invariant `WireInv` of `Model/Writers.lean` and its preservation by every step.
All clauses speak about global state and the lock holder's program counter `cur s`.
-/
namespace PyCraft.Writers

structure WireInv (s : Sys) : Prop where
  /-- the wire is whole frames followed by the holder's open length prefix (if any) -/
  wire_eq : s.wire = frames (sentPkts s.wire) ++ (cur s).half
  needs_open : (cur s).needsOpen = true → s.sockOpen = true
  rel_closed : ∀ c, cur s = .user (.dRel c) → s.sockOpen = false
  xrel_closed : ∀ n, cur s = .net .xRel n → s.sockOpen = false
  past_sti : (cur s).pastSti = true → s.interrupt = true ∨ s.ntSlot = false
  closed_int : s.sockOpen = false → s.interrupt = true ∨ s.ntSlot = false
  int_closed : s.interrupt = true → s.sockOpen = false ∨ (cur s).pastSti = true
  failed_closed : s.failed ≠ [] → s.sockOpen = false
  /-- `popleft` is never called on an empty deque -/
  pop_ok : (cur s).atPop = true → s.queue ≠ []
  flush_ctx : ∀ c, (cur s).dctx = some c → (cur s).flushing = true →
    c.imm = false ∧ c.open0 = true
  /-- an immediate disconnect leaves the wire as it found it -/
  imm_wire : ∀ c, (cur s).dctx = some c → c.imm = true → s.wire = c.wire0
  /-- a graceful disconnect: the queue snapshot is sent, or still being flushed -/
  snap : ∀ c, (cur s).dctx = some c → c.imm = false → c.open0 = true → ∀ p ∈ c.snap,
    p ∈ sentPkts s.wire ∨ ((cur s).flushing = true ∧ (p ∈ (cur s).popped ∨ p ∈ s.queue))
  /-- issued = sent ∪ in-flight ∪ queued ∪ failed … -/
  mem_issued : ∀ p, p ∈ s.issued ↔
    p ∈ sentPkts s.wire ∨ p ∈ (cur s).infl ∨ p ∈ s.queue ∨ p ∈ s.failed
  /-- … pairwise disjoint and without repetition -/
  nodup : (sentPkts s.wire ++ (cur s).infl ++ s.queue ++ s.failed).Nodup

macro "wire_pre" hw:ident : tactic => `(tactic| (
  have w2 := ($hw).needs_open
  have w3 := ($hw).rel_closed
  have w3x := ($hw).xrel_closed
  have w4 := ($hw).past_sti
  have w5 := ($hw).closed_int
  have w5i := ($hw).int_closed
  have w6 := ($hw).pop_ok
  have w7 := ($hw).flush_ctx))

theorem wire_step_wire_eq (cfg : Cfg) (s s' : Sys) (t : Tid) (hl : LockInv s) (hw : WireInv s)
    (hs : step cfg s t = some s') : s'.wire = frames (sentPkts s'.wire) ++ (cur s').half := by
  have h1t := hl.crit_owner t
  have hd := hl.depth_ok
  have hz := hl.net_zero t
  have hn := hl.nt_slot
  wire_pre hw
  have w1 := hw.wire_eq
  step_cases hs hpc htd
  all_goals cur_simp s t h1t hd hpc
  all_goals
    grind [Pc.half, sentPkts_snoc0,
      sentPkts_snoc1, frames_snoc]

theorem wire_step_needs_open (cfg : Cfg) (s s' : Sys) (t : Tid) (hl : LockInv s) (hw : WireInv s)
    (hs : step cfg s t = some s') : (cur s').needsOpen = true → s'.sockOpen = true := by
  have h1t := hl.crit_owner t
  have hd := hl.depth_ok
  have hz := hl.net_zero t
  have hn := hl.nt_slot
  wire_pre hw
  step_cases hs hpc htd
  all_goals cur_simp s t h1t hd hpc
  all_goals
    grind [Pc.needsOpen]

theorem wire_step_rel_closed (cfg : Cfg) (s s' : Sys) (t : Tid) (hl : LockInv s) (hw : WireInv s)
    (hs : step cfg s t = some s') :
    (∀ c, cur s' = .user (.dRel c) → s'.sockOpen = false) ∧
    (∀ n, cur s' = .net .xRel n → s'.sockOpen = false) := by
  have h1t := hl.crit_owner t
  have hd := hl.depth_ok
  have hz := hl.net_zero t
  have hn := hl.nt_slot
  wire_pre hw
  step_cases hs hpc htd
  all_goals cur_simp s t h1t hd hpc
  all_goals refine ⟨?_, ?_⟩
  all_goals grind

theorem wire_step_past_sti (cfg : Cfg) (s s' : Sys) (t : Tid) (hl : LockInv s) (hw : WireInv s)
    (hs : step cfg s t = some s') :
    (cur s').pastSti = true → s'.interrupt = true ∨ s'.ntSlot = false := by
  have h1t := hl.crit_owner t
  have hd := hl.depth_ok
  have hz := hl.net_zero t
  have hn := hl.nt_slot
  wire_pre hw
  step_cases hs hpc htd
  all_goals cur_simp s t h1t hd hpc
  all_goals grind [Pc.pastSti]

theorem wire_step_closed_int (cfg : Cfg) (s s' : Sys) (t : Tid) (hl : LockInv s) (hw : WireInv s)
    (hs : step cfg s t = some s') :
    s'.sockOpen = false → s'.interrupt = true ∨ s'.ntSlot = false := by
  have h1t := hl.crit_owner t
  have hd := hl.depth_ok
  have hz := hl.net_zero t
  have hn := hl.nt_slot
  wire_pre hw
  step_cases hs hpc htd
  all_goals cur_simp s t h1t hd hpc
  all_goals grind [Pc.pastSti]

theorem wire_step_int_closed (cfg : Cfg) (s s' : Sys) (t : Tid) (hl : LockInv s) (hw : WireInv s)
    (hs : step cfg s t = some s') :
    s'.interrupt = true → s'.sockOpen = false ∨ (cur s').pastSti = true := by
  have h1t := hl.crit_owner t
  have hd := hl.depth_ok
  have hz := hl.net_zero t
  have hn := hl.nt_slot
  wire_pre hw
  step_cases hs hpc htd
  all_goals cur_simp s t h1t hd hpc
  all_goals grind [Pc.pastSti]

theorem wire_step_failed_closed (cfg : Cfg) (s s' : Sys) (t : Tid) (hl : LockInv s)
    (hw : WireInv s) (hs : step cfg s t = some s') : s'.failed ≠ [] → s'.sockOpen = false := by
  have w := hw.failed_closed
  obtain ⟨ev, -, he, -, hc⟩ := step_eff cfg s s' t hl hs
  cases ev <;> simp only [Eff, SameQ, Clean] at he
  all_goals grind

theorem wire_step_pop_ok (cfg : Cfg) (s s' : Sys) (t : Tid) (hl : LockInv s) (hw : WireInv s)
    (hs : step cfg s t = some s') : (cur s').atPop = true → s'.queue ≠ [] := by
  have h1t := hl.crit_owner t
  have hd := hl.depth_ok
  have hz := hl.net_zero t
  have hn := hl.nt_slot
  wire_pre hw
  step_cases hs hpc htd
  all_goals cur_simp s t h1t hd hpc
  all_goals first
    | grind [Pc.atPop]
    | simp

theorem wire_step_flush_ctx (cfg : Cfg) (s s' : Sys) (t : Tid) (hl : LockInv s) (hw : WireInv s)
    (hs : step cfg s t = some s') :
    ∀ c, (cur s').dctx = some c → (cur s').flushing = true → c.imm = false ∧ c.open0 = true := by
  have h1t := hl.crit_owner t
  have hd := hl.depth_ok
  have hz := hl.net_zero t
  have hn := hl.nt_slot
  wire_pre hw
  step_cases hs hpc htd
  all_goals cur_simp s t h1t hd hpc
  all_goals
    grind [Pc.dctx, Pc.flushing]

theorem wire_step_imm_wire (cfg : Cfg) (s s' : Sys) (t : Tid) (hl : LockInv s) (hw : WireInv s)
    (hs : step cfg s t = some s') :
    ∀ c, (cur s').dctx = some c → c.imm = true → s'.wire = c.wire0 := by
  have h1t := hl.crit_owner t
  have hd := hl.depth_ok
  have hz := hl.net_zero t
  have hn := hl.nt_slot
  wire_pre hw
  have w9 := hw.imm_wire
  step_cases hs hpc htd
  all_goals cur_simp s t h1t hd hpc
  all_goals
    grind [Pc.dctx, Pc.flushing]

theorem wire_step_snap (cfg : Cfg) (s s' : Sys) (t : Tid) (hl : LockInv s) (hw : WireInv s)
    (hs : step cfg s t = some s') :
    ∀ c, (cur s').dctx = some c → c.imm = false → c.open0 = true → ∀ p ∈ c.snap,
      p ∈ sentPkts s'.wire ∨
        ((cur s').flushing = true ∧ (p ∈ (cur s').popped ∨ p ∈ s'.queue)) := by
  have h1t := hl.crit_owner t
  have hd := hl.depth_ok
  have hz := hl.net_zero t
  have hn := hl.nt_slot
  wire_pre hw
  have w11 := hw.snap
  step_cases hs hpc htd
  all_goals cur_simp s t h1t hd hpc
  all_goals
    grind [Pc.dctx, Pc.flushing, Pc.popped, Pc.needsOpen,
      sentPkts_snoc0, sentPkts_snoc1]

theorem wire_step_mem_issued (cfg : Cfg) (s s' : Sys) (t : Tid) (hl : LockInv s) (hw : WireInv s)
    (hs : step cfg s t = some s') :
    ∀ p, p ∈ s'.issued ↔
      p ∈ sentPkts s'.wire ∨ p ∈ (cur s').infl ∨ p ∈ s'.queue ∨ p ∈ s'.failed := by
  have hm := hw.mem_issued
  obtain ⟨ev, -, he, -, -⟩ := step_eff cfg s s' t hl hs
  cases ev <;> simp only [Eff, SameQ, Clean] at he
  all_goals
    intro p; have hmp := hm p
    grind [sentPkts_snoc0, sentPkts_snoc1]

theorem wire_step_nodup (cfg : Cfg) (s s' : Sys) (t : Tid) (hl : LockInv s) (hw : WireInv s)
    (hf : ∀ p ∈ pktsOf (s.thr t).todo, p ∉ s.issued)
    (hs : step cfg s t = some s') :
    (sentPkts s'.wire ++ (cur s').infl ++ s'.queue ++ s'.failed).Nodup := by
  obtain ⟨ev, -, he, -, -⟩ := step_eff cfg s s' t hl hs
  exact nodup_of_eff s s' t ev hw.mem_issued hw.nodup hf he

theorem wire_step (cfg : Cfg) (s s' : Sys) (t : Tid) (hl : LockInv s) (hw : WireInv s)
    (hf : ∀ p ∈ pktsOf (s.thr t).todo, p ∉ s.issued)
    (hs : step cfg s t = some s') : WireInv s' :=
  have h3 := wire_step_rel_closed cfg s s' t hl hw hs
  { wire_eq := wire_step_wire_eq cfg s s' t hl hw hs
    needs_open := wire_step_needs_open cfg s s' t hl hw hs
    rel_closed := h3.1
    xrel_closed := h3.2
    past_sti := wire_step_past_sti cfg s s' t hl hw hs
    closed_int := wire_step_closed_int cfg s s' t hl hw hs
    int_closed := wire_step_int_closed cfg s s' t hl hw hs
    failed_closed := wire_step_failed_closed cfg s s' t hl hw hs
    pop_ok := wire_step_pop_ok cfg s s' t hl hw hs
    flush_ctx := wire_step_flush_ctx cfg s s' t hl hw hs
    imm_wire := wire_step_imm_wire cfg s s' t hl hw hs
    snap := wire_step_snap cfg s s' t hl hw hs
    mem_issued := wire_step_mem_issued cfg s s' t hl hw hs
    nodup := wire_step_nodup cfg s s' t hl hw hf hs }

end PyCraft.Writers
