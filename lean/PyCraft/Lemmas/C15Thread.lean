import PyCraft.Model.C15Thread
import PyCraft.Lemmas.FrameViews
import PyCraft.Lemmas.Handlers
import PyCraft.Model.Cfb8
/-!
Helper lemmas (and a little specification vocabulary: `Adv`, `LoopRes.view`, `Quiet`, `ReactOK`,
`soleLog`) for `Props/C15Thread.lean`.

1. `Adv`: where the socket is after a reader call — not only what is still AHEAD in plain text
   (`ahead`, `Lemmas/Frame.lean`) but the raw unread bytes and the decryptor context, which is what
   wrapping the file object acts on.
2. `readPacketK_sync` / `readPacketK_cut`: one complete / one truncated frame written by a peer whose
   encryptor is in step.
3. `threadLoop_cut`: the induction over the conversation.
4. Counters, fuel, reactor kinds and endings along the loop; the reference run.
5. The session: a login thread never reconnects, at most two threads, fuel independence, bounds,
   and the three ways the first thread's exception is treated.
-/
namespace PyCraft.C15Thread
open PyCraft

def Adv {σ : Type} (x : StreamXform σ) (k k' : Sock σ) : Prop :=
  ∃ a, k.segs.flatten = a ++ k'.segs.flatten ∧ k'.st = (x.update k.st a).1

theorem Adv.trans {σ : Type} {x : StreamXform σ} {a b c : Sock σ} (h1 : Adv x a b)
    (h2 : Adv x b c) : Adv x a c := by
  obtain ⟨p, hp1, hp2⟩ := h1
  obtain ⟨q, hq1, hq2⟩ := h2
  refine ⟨p ++ q, by rw [hp1, hq1, List.append_assoc], ?_⟩
  rw [hq2, hp2, x.chunk]

theorem read_adv {σ : Type} (x : StreamXform σ) (k : Sock σ) (n : Nat) : Adv x k (k.read x n).2 :=
  ⟨(Segs.read k.segs n).1, (Segs.read_flatten k.segs n).symm, rfl⟩

theorem readVarIntK_adv {σ : Type} (x : StreamXform σ) (mx be acc : Nat) (k : Sock σ) :
    Adv x k (readVarIntK x mx be acc k).2 := by
  fun_induction readVarIntK x mx be acc k with
  | case1 => exact read_adv x _ 1
  | case2 => exact read_adv x _ 1
  | case3 => exact read_adv x _ 1
  | case4 _ _ _ _ _ _ _ _ _ _ ih => exact (read_adv x _ 1).trans ih

theorem readMoreK_adv {σ : Type} (x : StreamXform σ) (length : Nat) (data : Bytes) (k : Sock σ)
    (h : data.length < length) :
    Adv x k (readMoreK x length data k).2 := by
  fun_induction readMoreK x length data k with
  | case1 data k hlt r hr => exact read_adv x k _
  | case2 data k hlt r hr ih =>
    by_cases h2 : (data ++ r.1).length < length
    · exact (read_adv x k _).trans (ih h2)
    · rw [readMoreK, dif_neg h2]; exact read_adv x k _
  | case3 data k hlt => exact absurd h hlt

theorem readFrameK_adv {σ : Type} (x : StreamXform σ) (k : Sock σ) :
    Adv x k (readFrameK x k).2 := by
  have hv := readVarIntK_adv x 5 0 0 k
  unfold readFrameK
  generalize readVarIntK x 5 0 0 k = r at *
  obtain ⟨res, k1⟩ := r
  cases res with
  | error e => exact hv
  | ok len =>
    simp only at hv ⊢
    have hr := hv.trans (read_adv x k1 len)
    by_cases h : (k1.read x len).1.length < len
    · exact hr.trans (readMoreK_adv x len _ _ h)
    · rw [readMoreK, dif_neg h]; exact hr

theorem readPacketK_adv {σ : Type} (x : StreamXform σ) (z : ZlibOps) (c : Bool) (k : Sock σ) :
    Adv x k (readPacketK x z c k).2 := by
  have hf := readFrameK_adv x k
  unfold readPacketK
  generalize readFrameK x k = r at *
  obtain ⟨res, k1⟩ := r
  cases res <;> exact hf

/-- a complete frame, encrypted by the peer in step, then anything: `read_packet` delivers the
packet and leaves the socket exactly behind the frame, decryptor in step with the encryptor -/
theorem readPacketK_sync {τ : Type} (cp : CipherPair τ) (z : Zlib) (thr : Option Int)
    (p : Nat × Bytes) (hp : FrameOK z.toZlibOps thr p) (k : Sock τ) (more : Bytes)
    (hflat : k.segs.flatten =
      (cp.enc.update k.st (packetFrame z.toZlibOps thr p)).2 ++ more) :
    ∃ k', readPacketK cp.dec z.toZlibOps thr.isSome k = (.ok p, k') ∧
      k'.segs.flatten = more ∧
      k'.st = (cp.enc.update k.st (packetFrame z.toZlibOps thr p)).1 := by
  have hahead : ahead cp.dec k = packetFrame z.toZlibOps thr p ++
      (cp.dec.update (cp.enc.update k.st (packetFrame z.toZlibOps thr p)).1 more).2 := by
    unfold ahead
    rw [hflat, cp.dec.chunk, (cp.inv k.st _).1, (cp.inv k.st _).2]
  have hpp := parsePacket_packetFrame z thr p
    (cp.dec.update (cp.enc.update k.st (packetFrame z.toZlibOps thr p)).1 more).2 hp
  rw [← hahead] at hpp
  obtain ⟨k', e1, e2⟩ := (readPacketK_spec cp.dec z.toZlibOps thr.isSome k).1 _ _ hpp
  obtain ⟨a, ha1, ha2⟩ := readPacketK_adv cp.dec z.toZlibOps thr.isSome k
  rw [e1] at ha1 ha2
  simp only at ha1 ha2
  have hlen : a.length = (cp.enc.update k.st (packetFrame z.toZlibOps thr p)).2.length := by
    have h1 := congrArg List.length hflat
    have h2 := congrArg List.length ha1
    have h3 := congrArg List.length e2
    rw [ahead_length, cp.dec.len] at h3
    unfold Sock.rem at h3
    simp only [List.length_append] at h1 h2
    omega
  rw [hflat] at ha1
  obtain ⟨q1, q2⟩ := List.append_inj ha1 hlen.symm
  refine ⟨k', e1, q2.symm, ?_⟩
  rw [ha2, ← q1, (cp.inv k.st _).2]

/-- … cut anywhere inside that frame, then end of stream: `EOFError` -/
theorem readPacketK_cut {τ : Type} (cp : CipherPair τ) (z : ZlibOps) (thr : Option Int) (c : Bool)
    (p : Nat × Bytes) (hp : FrameOK z thr p) (k : Sock τ) (j : Nat)
    (hj : j < (packetFrame z thr p).length)
    (hflat : k.segs.flatten = (cp.enc.update k.st (packetFrame z thr p)).2.take j) :
    ∃ k', readPacketK cp.dec z c k = (.error .eof, k') := by
  have hahead : ahead cp.dec k = (packetFrame z thr p).take j := by
    unfold ahead
    rw [hflat, ← xform_take, (cp.inv k.st _).1]
  apply (readPacketK_spec cp.dec z c k).2
  rw [hahead]
  apply parsePacket_prefix_eof z thr c p _ ((packetFrame z thr p).drop j) hp
    (List.take_append_drop _ _)
  intro h
  have := congrArg List.length h
  simp at this; omega

theorem readPacketK_exhausted {σ : Type} (x : StreamXform σ) (z : ZlibOps) (c : Bool) (k : Sock σ)
    (h : k.segs.flatten = []) : ∃ k', readPacketK x z c k = (.error .eof, k') := by
  apply (readPacketK_spec x z c k).2
  have ha : ahead x k = [] := by unfold ahead; rw [h]; exact xform_nil x _
  rw [ha]; simp [parsePacket, parseFrame, decVarInt, decVarIntAux]

/-- what the loop leaves behind, without the socket -/
def LoopRes.view {τ : Type} (r : LoopRes τ) : List (Nat × Bytes) × End × RMode :=
  (r.delivered, r.ending, r.mode)

theorem view_cons {τ : Type} (p : Nat × Bytes) (r : LoopRes τ) :
    (r.cons p).view = (p :: r.view.1, r.view.2) := rfl

theorem srvWire_nil {τ κ : Type} (enc : StreamXform τ) (install : τ → κ → τ) (z : ZlibOps)
    (react : React κ) (sm : SMode τ) : srvWire enc install z react sm [] = [] := rfl

theorem srvWire_cons {τ κ : Type} (enc : StreamXform τ) (install : τ → κ → τ) (z : ZlibOps)
    (react : React κ) (sm : SMode τ) (p : Nat × Bytes) (ps : List (Nat × Bytes)) :
    srvWire enc install z react sm (p :: ps) =
      (enc.update sm.st (packetFrame z sm.thr p)).2 ++
        srvWire enc install z react
          (SMode.after install { sm with st := (enc.update sm.st (packetFrame z sm.thr p)).1 }
            (react sm.kind p)) ps := rfl

theorem after_comp {κ : Type} (m : RMode) (thr : Option Int) (eff : Effect κ)
    (h : m.comp = thr.isSome) : (m.after eff).comp = (thrAfter thr eff).isSome := by
  cases eff <;> simp [RMode.after, thrAfter, h]

theorem packetFrame_pos (z : ZlibOps) (thr : Option Int) (p : Nat × Bytes) :
    0 < (packetFrame z thr p).length := by
  unfold packetFrame frame
  simp only [List.length_append]
  have := enc_length_pos (frameBody z thr (packetPayload p.1 p.2)).length
  omega

/-- the count of frames lying wholly inside the first `j` bytes of the server's stream exists -/
theorem srvWire_count {τ κ : Type} (enc : StreamXform τ) (install : τ → κ → τ) (z : ZlibOps)
    (react : React κ) : ∀ (ps : List (Nat × Bytes)) (sm : SMode τ) (j : Nat),
    ∃ n, n ≤ ps.length ∧
      (srvWire enc install z react sm (ps.take n)).length ≤ j ∧
      (n < ps.length → j < (srvWire enc install z react sm (ps.take (n + 1))).length) := by
  intro ps
  induction ps with
  | nil => intro sm j; exact ⟨0, by simp, by simp [srvWire_nil], by simp⟩
  | cons p ps ih =>
    intro sm j
    by_cases hj : j < (enc.update sm.st (packetFrame z sm.thr p)).2.length
    · refine ⟨0, by simp, by simp [srvWire_nil], ?_⟩
      intro _
      simp only [List.take_succ_cons, List.take_zero, srvWire_cons, srvWire_nil, List.append_nil]
      exact hj
    · obtain ⟨n, h1, h2, h3⟩ := ih
        (SMode.after install { sm with st := (enc.update sm.st (packetFrame z sm.thr p)).1 }
          (react sm.kind p)) (j - (enc.update sm.st (packetFrame z sm.thr p)).2.length)
      refine ⟨n + 1, by simp; omega, ?_, ?_⟩
      · simp only [List.take_succ_cons, srvWire_cons, List.length_append]; omega
      · intro hn
        simp only [List.length_cons] at hn
        have := h3 (by omega)
        simp only [List.take_succ_cons, srvWire_cons, List.length_append]; omega

/-- THE induction: the thread on the first `j` bytes of the server's stream (any segmentation) does
what the reference run does on the `n` packets whose frames lie wholly inside those bytes. -/
theorem threadLoop_cut {τ κ : Type} (cp : CipherPair τ) (st0 : τ) (install : τ → κ → τ) (z : Zlib)
    (react : React κ) : ∀ (ps : List (Nat × Bytes)) (m : RMode) (sm : SMode τ) (k : Sock τ)
    (j fuel n : Nat),
    sm.kind = m.kind → m.comp = sm.thr.isSome → k.st = sm.st →
    WireOK z.toZlibOps react sm.kind sm.thr ps →
    k.segs.flatten = (srvWire cp.enc install z.toZlibOps react sm ps).take j →
    k.segs.flatten.length < fuel →
    n ≤ ps.length →
    (srvWire cp.enc install z.toZlibOps react sm (ps.take n)).length ≤ j →
    (n < ps.length → j < (srvWire cp.enc install z.toZlibOps react sm (ps.take (n + 1))).length) →
    (threadLoop ⟨cp.dec, st0, install, z.toZlibOps, react⟩ fuel m k).view =
      refRun react m (ps.take n) := by
  intro ps
  induction ps with
  | nil =>
    intro m sm k j fuel n _ _ _ _ hflat hfuel _ _ _
    obtain ⟨fuel, rfl⟩ : ∃ f, fuel = f + 1 := ⟨fuel - 1, by omega⟩
    obtain ⟨k', e1⟩ := readPacketK_exhausted cp.dec z.toZlibOps m.comp k
      (by rw [hflat, srvWire_nil]; simp)
    simp only [threadLoop, e1, List.take_nil, refRun, LoopRes.view]
  | cons p ps ih =>
    intro m sm k j fuel n hkind hcomp hst hok hflat hfuel hn h1 h2
    obtain ⟨fuel, rfl⟩ : ∃ f, fuel = f + 1 := ⟨fuel - 1, by omega⟩
    obtain ⟨hfok, hokr⟩ := hok
    rw [srvWire_cons] at hflat
    have hclen : (cp.enc.update sm.st (packetFrame z.toZlibOps sm.thr p)).2.length =
        (packetFrame z.toZlibOps sm.thr p).length := cp.enc.len _ _
    cases n with
    | zero =>
      have h2 := h2 (by simp)
      simp only [Nat.zero_add, List.take_succ_cons, List.take_zero, srvWire_cons, srvWire_nil,
        List.append_nil] at h2
      rw [List.take_append_of_le_length (by omega), ← hst] at hflat
      obtain ⟨k', e1⟩ := readPacketK_cut cp z.toZlibOps sm.thr m.comp p hfok k j (by omega) hflat
      simp only [threadLoop, e1, List.take_zero, refRun, LoopRes.view]
    | succ n =>
      simp only [List.take_succ_cons, srvWire_cons, List.length_append] at h1 h2
      simp only [List.length_cons] at hn h2
      rw [List.take_append, List.take_of_length_le (by omega), ← hst] at hflat
      obtain ⟨k', e1, e2, e3⟩ := readPacketK_sync cp z sm.thr p hfok k _ hflat
      rw [← hcomp] at e1
      simp only [List.take_succ_cons, threadLoop, e1, refRun]
      rw [← hkind] 
      cases hs : (react sm.kind p).stop with
      | some de => rfl
      | none =>
        simp only [view_cons]
        rw [ih (m.after (react sm.kind p))
          (SMode.after install
            { sm with st := (cp.enc.update sm.st (packetFrame z.toZlibOps sm.thr p)).1 }
            (react sm.kind p))
          (sockAfter install k' (react sm.kind p))
          (j - (cp.enc.update sm.st (packetFrame z.toZlibOps sm.thr p)).2.length) fuel n
          (by simp [SMode.after, RMode.after, hkind])
          (after_comp m sm.thr _ hcomp)
          (by simp [sockAfter, SMode.after, e3, hst])
          hokr
          (by simp only [sockAfter]; rw [e2, hst])
          (by
            simp only [sockAfter]
            have := congrArg List.length hflat
            rw [List.length_append, ← e2, cp.enc.len] at this
            have hp := packetFrame_pos z.toZlibOps sm.thr p
            omega)
          (by omega) (by omega) (fun h => by have := h2 (by omega); omega)]

/-! ## counters, fuel -/

theorem mono_sockAfter {τ κ : Type} (install : τ → κ → τ) (k k' : Sock τ) (eff : Effect κ)
    (h : Mono k k') : Mono k (sockAfter install k' eff) := h

theorem threadLoop_tally {τ κ : Type} (C : Client τ κ) : ∀ (fuel : Nat) (m : RMode) (k : Sock τ),
    Mono k (threadLoop C fuel m k).sock ∧
    (threadLoop C fuel m k).sock.empties ≤ k.empties + 2 ∧
    (threadLoop C fuel m k).delivered.length + (threadLoop C fuel m k).sock.rem ≤ k.rem := by
  intro fuel
  induction fuel with
  | zero => intro m k; exact ⟨Mono.refl k, by simp [threadLoop], by simp [threadLoop]⟩
  | succ fuel ih =>
    intro m k
    obtain ⟨p1, p2, p3, -⟩ := readPacketK_tally C.dec C.z m.comp k
    have hc := readPacketK_consumes C.dec C.z m.comp k
    simp only [threadLoop]
    generalize readPacketK C.dec C.z m.comp k = r at *
    obtain ⟨res, k1⟩ := r
    cases res with
    | error e =>
      simp only at p1 p2 ⊢
      exact ⟨p1, p2, by simp only [List.length_nil]; have := p1.1; omega⟩
    | ok p =>
      simp only at p1 p2 p3 hc ⊢
      have hlt := hc p rfl
      have he := p3 p rfl
      cases hs : (C.react m.kind p).stop with
      | some de =>
        refine ⟨p1, p2, ?_⟩
        simp only
        split <;> simp <;> omega
      | none =>
        obtain ⟨i1, i2, i3⟩ := ih (m.after (C.react m.kind p))
          (sockAfter C.install k1 (C.react m.kind p))
        have hrem : (sockAfter C.install k1 (C.react m.kind p)).rem = k1.rem := rfl
        have hemp : (sockAfter C.install k1 (C.react m.kind p)).empties = k1.empties := rfl
        refine ⟨p1.trans i1, ?_, ?_⟩
        · simp only [LoopRes.cons]; omega
        · simp only [LoopRes.cons, List.length_cons]; omega

/-- the fuel is never the reason to stop -/
theorem threadLoop_fuel_free {τ κ : Type} (C : Client τ κ) : ∀ (f1 f2 : Nat) (m : RMode)
    (k : Sock τ), k.rem < f1 → k.rem < f2 → threadLoop C f1 m k = threadLoop C f2 m k := by
  intro f1
  induction f1 with
  | zero => intro f2 m k h; omega
  | succ f1 ih =>
    intro f2 m k h1 h2
    cases f2 with
    | zero => omega
    | succ f2 =>
      have hc := readPacketK_consumes C.dec C.z m.comp k
      simp only [threadLoop]
      generalize readPacketK C.dec C.z m.comp k = r at *
      obtain ⟨res, k1⟩ := r
      cases res with
      | error e => rfl
      | ok p =>
        simp only at hc ⊢
        have hlt := hc p rfl
        cases hs : (C.react m.kind p).stop with
        | some de => rfl
        | none =>
          simp only
          rw [ih f2 _ (sockAfter C.install k1 (C.react m.kind p))
            (by show k1.rem < f1; omega) (by show k1.rem < f2; omega)]

/-! ## reactor kinds and endings along the loop -/

theorem kindAfter_cases {κ : Type} (kind : ReactorKind) (eff : Effect κ) :
    kindAfter kind eff = kind ∨ kindAfter kind eff = .playing := by
  cases eff <;> simp [kindAfter]

theorem stop_negotiated {κ : Type} (eff : Effect κ) (d : Bool) (v : Nat)
    (h : eff.stop = some (d, .negotiated v)) : eff = .negotiated v := by
  cases eff <;> simp [Effect.stop] at h
  obtain ⟨-, h⟩ := h; rw [h]

/-- the reactor at the end is the initial one or `PlayingReactor`; a `negotiated` ending was
produced by a reaction in one of these two states -/
theorem threadLoop_kinds {τ κ : Type} (C : Client τ κ) : ∀ (fuel : Nat) (m : RMode) (k : Sock τ),
    ((threadLoop C fuel m k).mode.kind = m.kind ∨ (threadLoop C fuel m k).mode.kind = .playing) ∧
    (∀ v, (threadLoop C fuel m k).ending = .negotiated v →
      ∃ kind p, (kind = m.kind ∨ kind = .playing) ∧ C.react kind p = .negotiated v) := by
  intro fuel
  induction fuel with
  | zero => intro m k; exact ⟨Or.inl rfl, fun v h => by simp [threadLoop] at h⟩
  | succ fuel ih =>
    intro m k
    simp only [threadLoop]
    generalize readPacketK C.dec C.z m.comp k = r
    obtain ⟨res, k1⟩ := r
    cases res with
    | error e => exact ⟨Or.inl rfl, fun v h => by simp at h⟩
    | ok p =>
      simp only
      cases hs : (C.react m.kind p).stop with
      | some de =>
        refine ⟨Or.inl rfl, fun v h => ?_⟩
        simp only at h
        exact ⟨m.kind, p, Or.inl rfl, stop_negotiated _ de.1 v (by rw [hs, ← h])⟩
      | none =>
        obtain ⟨i1, i2⟩ := ih (m.after (C.react m.kind p))
          (sockAfter C.install k1 (C.react m.kind p))
        have hk : (m.after (C.react m.kind p)).kind = m.kind ∨
            (m.after (C.react m.kind p)).kind = .playing := kindAfter_cases _ _
        simp only [LoopRes.cons]
        constructor
        · rcases i1 with i1 | i1
          · rw [i1]; exact hk
          · exact Or.inr i1
        · intro v hv
          obtain ⟨kind, q, hq1, hq2⟩ := i2 v hv
          refine ⟨kind, q, ?_, hq2⟩
          rcases hq1 with hq1 | hq1
          · rw [hq1]; exact hk
          · exact Or.inr hq1

/-- how the loop can end: a framing error of `read_packet` (one of four), or a stopping reaction -/
theorem threadLoop_ending {τ κ : Type} (C : Client τ κ) : ∀ (fuel : Nat) (m : RMode) (k : Sock τ),
    k.rem < fuel →
    ((threadLoop C fuel m k).ending = .raised .eof ∨
     (threadLoop C fuel m k).ending = .raised .tooLong ∨
     (threadLoop C fuel m k).ending = .raised .zlib ∨
     (threadLoop C fuel m k).ending = .raised .assertion) ∨
    (∃ kind p d, (C.react kind p).stop = some (d, (threadLoop C fuel m k).ending)) := by
  intro fuel
  induction fuel with
  | zero => intro m k h; omega
  | succ fuel ih =>
    intro m k hf
    have hspec := readPacketK_spec C.dec C.z m.comp k
    have hc := readPacketK_consumes C.dec C.z m.comp k
    simp only [threadLoop]
    cases hd : parsePacket C.z m.comp (ahead C.dec k) with
    | error e =>
      obtain ⟨k1, e1⟩ := hspec.2 e hd
      simp only [e1]
      left
      rcases parsePacket_err _ _ _ _ hd with h | h | h | h <;> simp [h]
    | ok pr =>
      obtain ⟨p, rest⟩ := pr
      obtain ⟨k1, e1, -⟩ := hspec.1 p rest hd
      rw [e1] at hc
      have hlt := hc p rfl
      simp only [e1]
      cases hs : (C.react m.kind p).stop with
      | some de => exact Or.inr ⟨m.kind, p, de.1, hs⟩
      | none =>
        exact ih (m.after (C.react m.kind p)) (sockAfter C.install k1 (C.react m.kind p))
          (by show k1.rem < fuel; simp only at hlt; omega)

/-! ## the reference run -/

theorem refRun_prefix {κ : Type} (react : React κ) : ∀ (l : List (Nat × Bytes)) (m : RMode),
    (refRun react m l).1 <+: l := by
  intro l
  induction l with
  | nil => intro m; simp [refRun]
  | cons p l ih =>
    intro m
    simp only [refRun]
    cases hs : (react m.kind p).stop with
    | some de =>
      simp only
      split
      · exact List.prefix_iff_eq_take.mpr (by simp)
      · exact List.nil_prefix
    | none =>
      simp only
      exact List.cons_prefix_cons.mpr ⟨rfl, ih _⟩

/-- no stopping reaction among the packets: all are delivered, then `EOFError` -/
def Quiet {κ : Type} (react : React κ) : ReactorKind → List (Nat × Bytes) → Prop
  | _, [] => True
  | kind, p :: ps => (react kind p).stop = none ∧ Quiet react (kindAfter kind (react kind p)) ps

instance instDecidableQuiet {κ : Type} (react : React κ) :
    ∀ (kind : ReactorKind) (ps : List (Nat × Bytes)), Decidable (Quiet react kind ps)
  | _, [] => isTrue trivial
  | kind, p :: ps =>
    have := instDecidableQuiet react (kindAfter kind (react kind p)) ps
    inferInstanceAs (Decidable (_ ∧ _))

theorem refRun_quiet {κ : Type} (react : React κ) : ∀ (l : List (Nat × Bytes)) (m : RMode),
    Quiet react m.kind l →
    (refRun react m l).1 = l ∧ (refRun react m l).2.1 = .raised .eof ∧
      ((refRun react m l).2.2.kind = m.kind ∨ (refRun react m l).2.2.kind = .playing) := by
  intro l
  induction l with
  | nil => intro m _; exact ⟨rfl, rfl, Or.inl rfl⟩
  | cons p l ih =>
    intro m hq
    obtain ⟨h1, h2⟩ := hq
    simp only [refRun, h1]
    obtain ⟨i1, i2, i3⟩ := ih (m.after (react m.kind p)) h2
    refine ⟨by rw [i1], i2, ?_⟩
    have hk : (m.after (react m.kind p)).kind = m.kind ∨
        (m.after (react m.kind p)).kind = .playing := kindAfter_cases _ _
    rcases i3 with i3 | i3
    · rw [i3]; exact hk
    · exact Or.inr i3

/-! ## the session -/

/-- `handle_proto_version` is reached from `PlayingStatusReactor.handle_status` only. -/
def ReactOK {κ : Type} (react : React κ) : Prop :=
  ∀ kind p v, react kind p = .negotiated v → kind = .playingStatus

theorem connectPlan_single (env : Neg.VEnv) (v : Nat) :
    Neg.connectPlan env [v] = .ok (.direct v) := rfl

theorem reconnect_ok (H : Handling) (env : Neg.VEnv) (v : Nat) (srv : Segs) :
    reconnect H env v (.ok srv) = .ok (.direct v, srv) := rfl

theorem reconnect_error (H : Handling) (env : Neg.VEnv) (v : Nat) (e : Exc) :
    reconnect H env v (.error e) = .error e := rfl

/-- the log of a thread that cannot reconnect -/
def soleLog {τ κ : Type} (C : Client τ κ) (H : Handling) (plan : Neg.Plan) (srv : Segs) :
    ThreadLog :=
  let t := runThread C (kindOfPlan plan) srv
  mkLog plan srv t
    (match t.ending with
     | .raised e => some (handleException H.hier .retFalse H.hs H.fin (H.excOf e))
     | _ => none)

theorem reactorHandle_other {α : Type} (hier : Hier) (eofCls : Nat) (kind : ReactorKind)
    (fb : Except Exc α) (e : Exc) (h : kind ≠ .playingStatus) :
    reactorHandle hier eofCls kind fb e = .retFalse := by
  cases kind <;> simp_all [reactorHandle]

theorem threadsFuel_login {τ κ : Type} (C : Client τ κ) (H : Handling) (env : Neg.VEnv)
    (dflt : Nat) (dial : Nat → Except Exc Segs) (hr : ReactOK C.react) (fuel i : Nat)
    (plan : Neg.Plan) (srv : Segs) (hk : kindOfPlan plan = .login) :
    threadsFuel C H env dflt dial (fuel + 1) i plan srv = [soleLog C H plan srv] := by
  obtain ⟨k1, k2⟩ := threadLoop_kinds C (srv.flatten.length + 1) ⟨kindOfPlan plan, false⟩
    (Sock.enc C.st0 srv)
  have hkind : (runThread C (kindOfPlan plan) srv).mode.kind ≠ .playingStatus := by
    unfold runThread
    rcases k1 with h | h <;> rw [h] <;> simp [hk]
  simp only [threadsFuel, soleLog]
  cases he : (runThread C (kindOfPlan plan) srv).ending with
  | interrupted => rfl
  | negotiated v =>
    exfalso
    obtain ⟨kind, p, hq1, hq2⟩ := k2 v he
    have := hr kind p v hq2
    rcases hq1 with h | h <;> rw [h] at this <;> simp [hk] at this
  | raised e =>
    simp only
    rw [reactorHandle_other _ _ _ _ _ hkind]

theorem kindOfPlan_direct (v : Nat) : kindOfPlan (.direct v) = .login := rfl

/-- at most two threads, whatever the fuel -/
theorem threadsFuel_length {τ κ : Type} (C : Client τ κ) (H : Handling) (env : Neg.VEnv)
    (dflt : Nat) (dial : Nat → Except Exc Segs) (hr : ReactOK C.react) (fuel i : Nat)
    (plan : Neg.Plan) (srv : Segs) :
    (threadsFuel C H env dflt dial fuel i plan srv).length ≤ 2 := by
  have hlogin : ∀ f j v s, (threadsFuel C H env dflt dial f j (.direct v) s).length ≤ 1 := by
    intro f j v s
    cases f with
    | zero => simp [threadsFuel]
    | succ f => rw [threadsFuel_login C H env dflt dial hr f j _ s rfl]; simp
  cases fuel with
  | zero => simp [threadsFuel]
  | succ fuel =>
    simp only [threadsFuel]
    cases (runThread C (kindOfPlan plan) srv).ending with
    | interrupted => simp
    | negotiated v =>
      simp only
      cases dial i with
      | ok s2 =>
        simp only [reconnect_ok, List.length_cons]; have := hlogin fuel (i + 1) v s2; omega
      | error e' =>
        simp only [reconnect_error]
        cases dial (i + 1) with
        | error e2 =>
          simp only [reconnect_error]
          generalize reactorHandle H.hier H.eofCls _ _ _ = r
          cases r <;> simp
        | ok s2 =>
          simp only [reconnect_ok]
          generalize reactorHandle H.hier H.eofCls _ _ _ = r
          cases r with
          | retTrue =>
            simp only [List.length_cons]; have := hlogin fuel (i + 1 + 1) dflt s2; omega
          | retFalse => simp
          | raises _ => simp
    | raised e =>
      simp only
      cases dial i with
      | error e2 =>
          simp only [reconnect_error]
          generalize reactorHandle H.hier H.eofCls _ _ _ = r
          cases r <;> simp
      | ok s2 =>
        simp only [reconnect_ok]
        generalize reactorHandle H.hier H.eofCls _ _ _ = r
        cases r with
        | retTrue =>
          simp only [List.length_cons]; have := hlogin fuel (i + 1) dflt s2; omega
        | retFalse => simp
        | raises _ => simp

/-- two threads' worth of fuel is as good as any larger amount -/
theorem threadsFuel_fuel_free {τ κ : Type} (C : Client τ κ) (H : Handling) (env : Neg.VEnv)
    (dflt : Nat) (dial : Nat → Except Exc Segs) (hr : ReactOK C.react) (fuel i : Nat)
    (plan : Neg.Plan) (srv : Segs) :
    threadsFuel C H env dflt dial (fuel + 2) i plan srv =
      threadsFuel C H env dflt dial 2 i plan srv := by
  have hlogin : ∀ f j v s, threadsFuel C H env dflt dial (f + 1) j (.direct v) s =
      threadsFuel C H env dflt dial 1 j (.direct v) s := by
    intro f j v s
    rw [threadsFuel_login C H env dflt dial hr f j _ s rfl,
      threadsFuel_login C H env dflt dial hr 0 j _ s rfl]
  rw [threadsFuel, threadsFuel]
  cases (runThread C (kindOfPlan plan) srv).ending with
  | interrupted => rfl
  | negotiated v =>
    simp only
    cases dial i with
    | ok s2 => simp only [reconnect_ok, hlogin]
    | error e' =>
      simp only [reconnect_error]
      cases dial (i + 1) with
      | error e2 =>
        simp only [reconnect_error]
        generalize reactorHandle H.hier H.eofCls _ _ _ = r
        cases r <;> rfl
      | ok s2 =>
        simp only [reconnect_ok]
        generalize reactorHandle H.hier H.eofCls _ _ _ = r
        cases r with
        | retTrue => simp only [hlogin]
        | retFalse => rfl
        | raises _ => rfl
  | raised e =>
    simp only
    cases dial i with
    | error e2 =>
      simp only [reconnect_error]
      generalize reactorHandle H.hier H.eofCls _ _ _ = r
      cases r <;> rfl
    | ok s2 =>
      simp only [reconnect_ok]
      generalize reactorHandle H.hier H.eofCls _ _ _ = r
      cases r with
      | retTrue => simp only [hlogin]
      | retFalse => rfl
      | raises _ => rfl

theorem mkLog_bounds {τ κ : Type} (C : Client τ κ) (plan : Neg.Plan) (kind : ReactorKind)
    (srv : Segs) (o : Option Outcome) :
    (mkLog plan srv (runThread C kind srv) o).reads ≤
      (mkLog plan srv (runThread C kind srv) o).streamLen + 2 ∧
    (mkLog plan srv (runThread C kind srv) o).empties ≤ 2 ∧
    (mkLog plan srv (runThread C kind srv) o).delivered.length ≤
      (mkLog plan srv (runThread C kind srv) o).streamLen := by
  obtain ⟨⟨m1, m2, m3⟩, h2, h3⟩ := threadLoop_tally C (srv.flatten.length + 1) ⟨kind, false⟩
    (Sock.enc C.st0 srv)
  have hrem : (Sock.enc C.st0 srv).rem = srv.flatten.length := rfl
  have hr : (Sock.enc C.st0 srv).reads = 0 := rfl
  have he : (Sock.enc C.st0 srv).empties = 0 := rfl
  simp only [mkLog, runThread]
  omega

/-- every thread of the session: at most (bytes + 2) reads, at most two of them empty, at most
(bytes) packets delivered -/
theorem threadsFuel_bounds {τ κ : Type} (C : Client τ κ) (H : Handling) (env : Neg.VEnv)
    (dflt : Nat) (dial : Nat → Except Exc Segs) : ∀ (fuel i : Nat) (plan : Neg.Plan) (srv : Segs),
    ∀ t ∈ threadsFuel C H env dflt dial fuel i plan srv,
      t.reads ≤ t.streamLen + 2 ∧ t.empties ≤ 2 ∧ t.delivered.length ≤ t.streamLen := by
  intro fuel
  induction fuel with
  | zero => intro i plan srv t ht; simp [threadsFuel] at ht
  | succ fuel ih =>
    intro i plan srv t ht
    simp only [threadsFuel] at ht
    have hb := mkLog_bounds C plan (kindOfPlan plan) srv
    cases hend : (runThread C (kindOfPlan plan) srv).ending with
    | interrupted =>
      simp only [hend, List.mem_singleton] at ht
      subst ht; exact hb none
    | negotiated v =>
      simp only [hend] at ht
      cases hd : reconnect H env v (dial i) with
      | ok nx =>
        simp only [hd, List.mem_cons] at ht
        rcases ht with ht | ht
        · subst ht; exact hb none
        · exact ih _ _ _ t ht
      | error e' =>
        simp only [hd, List.mem_cons] at ht
        rcases ht with ht | ht
        · subst ht; exact hb _
        · split at ht
          · exact ih _ _ _ t ht
          · simp at ht
    | raised e =>
      simp only [hend, List.mem_cons] at ht
      rcases ht with ht | ht
      · subst ht; exact hb _
      · split at ht
        · exact ih _ _ _ t ht
        · simp at ht

theorem sum_reads_le (l : List ThreadLog)
    (h : ∀ t ∈ l, t.reads ≤ t.streamLen + 2) :
    (l.map (·.reads)).sum ≤ (l.map (·.streamLen)).sum + 2 * l.length := by
  induction l with
  | nil => simp
  | cons a l ih =>
    have := h a (by simp)
    have := ih (fun t ht => h t (by simp [ht]))
    simp only [List.map_cons, List.sum_cons, List.length_cons]
    omega

/-! ### unfolding the first thread -/

theorem threadsFuel_raised {τ κ : Type} (C : Client τ κ) (H : Handling) (env : Neg.VEnv)
    (dflt : Nat) (dial : Nat → Except Exc Segs) (fuel i : Nat) (plan : Neg.Plan) (srv : Segs)
    (e : Err) (he : (runThread C (kindOfPlan plan) srv).ending = .raised e) :
    threadsFuel C H env dflt dial (fuel + 1) i plan srv =
      mkLog plan srv (runThread C (kindOfPlan plan) srv)
        (some (handleException H.hier
          (reactorHandle H.hier H.eofCls (runThread C (kindOfPlan plan) srv).mode.kind
            (reconnect H env dflt (dial i)) (H.excOf e)) H.hs H.fin (H.excOf e))) ::
        (match reactorHandle H.hier H.eofCls (runThread C (kindOfPlan plan) srv).mode.kind
            (reconnect H env dflt (dial i)) (H.excOf e), reconnect H env dflt (dial i) with
         | .retTrue, .ok nx => threadsFuel C H env dflt dial fuel (i + 1) nx.1 nx.2
         | _, _ => []) := by
  simp only [threadsFuel, he]
  rfl

theorem reactorHandle_eof_ok {α : Type} (hier : Hier) (eofCls : Nat) (a : α) (e : Exc)
    (h : isSub hier e.cls eofCls = true) :
    reactorHandle hier eofCls .playingStatus (.ok a) e = .retTrue := by
  simp [reactorHandle, h]

theorem reactorHandle_eof_error {α : Type} (hier : Hier) (eofCls : Nat) (e' e : Exc)
    (h : isSub hier e.cls eofCls = true) :
    reactorHandle (α := α) hier eofCls .playingStatus (.error e') e = .raises e' := by
  simp [reactorHandle, h]

theorem reactorHandle_not {α : Type} (hier : Hier) (eofCls : Nat) (kind : ReactorKind)
    (fb : Except Exc α) (e : Exc)
    (h : ¬ (kind = .playingStatus ∧ isSub hier e.cls eofCls = true)) :
    reactorHandle hier eofCls kind fb e = .retFalse := by
  cases kind <;> simp_all [reactorHandle]

/-- the first thread ends by an `EOFError` under `PlayingStatusReactor`, the fallback connection
is accepted: swallowed, and the session continues with a direct login of the default version -/
theorem threadsFuel_fallback {τ κ : Type} (C : Client τ κ) (H : Handling) (env : Neg.VEnv)
    (dflt : Nat) (dial : Nat → Except Exc Segs) (fuel i : Nat) (plan : Neg.Plan) (srv s2 : Segs)
    (e : Err) (he : (runThread C (kindOfPlan plan) srv).ending = .raised e)
    (hk : (runThread C (kindOfPlan plan) srv).mode.kind = .playingStatus)
    (hsub : isSub H.hier (H.excOf e).cls H.eofCls = true) (hd : dial i = .ok s2) :
    threadsFuel C H env dflt dial (fuel + 1) i plan srv =
      mkLog plan srv (runThread C (kindOfPlan plan) srv)
        (some (handleException H.hier .retTrue H.hs H.fin (H.excOf e))) ::
        threadsFuel C H env dflt dial fuel (i + 1) (.direct dflt) s2 := by
  rw [threadsFuel_raised C H env dflt dial fuel i plan srv e he, hk, hd, reconnect_ok,
    reactorHandle_eof_ok _ _ _ _ hsub]

/-- … the fallback connection is refused with `e'`: `e'` replaces the `EOFError` and goes to the
handlers; no further thread -/
theorem threadsFuel_fallback_refused {τ κ : Type} (C : Client τ κ) (H : Handling) (env : Neg.VEnv)
    (dflt : Nat) (dial : Nat → Except Exc Segs) (fuel i : Nat) (plan : Neg.Plan) (srv : Segs)
    (e : Err) (e' : Exc) (he : (runThread C (kindOfPlan plan) srv).ending = .raised e)
    (hk : (runThread C (kindOfPlan plan) srv).mode.kind = .playingStatus)
    (hsub : isSub H.hier (H.excOf e).cls H.eofCls = true) (hd : dial i = .error e') :
    threadsFuel C H env dflt dial (fuel + 1) i plan srv =
      [mkLog plan srv (runThread C (kindOfPlan plan) srv)
        (some (handleException H.hier (.raises e') H.hs H.fin (H.excOf e)))] := by
  rw [threadsFuel_raised C H env dflt dial fuel i plan srv e he, hk, hd, reconnect_error,
    reactorHandle_eof_error _ _ _ _ hsub]

/-- any other exception, or any other reactor: not swallowed, no further thread -/
theorem threadsFuel_reported {τ κ : Type} (C : Client τ κ) (H : Handling) (env : Neg.VEnv)
    (dflt : Nat) (dial : Nat → Except Exc Segs) (fuel i : Nat) (plan : Neg.Plan) (srv : Segs)
    (e : Err) (he : (runThread C (kindOfPlan plan) srv).ending = .raised e)
    (hno : ¬ ((runThread C (kindOfPlan plan) srv).mode.kind = .playingStatus ∧
      isSub H.hier (H.excOf e).cls H.eofCls = true)) :
    threadsFuel C H env dflt dial (fuel + 1) i plan srv =
      [mkLog plan srv (runThread C (kindOfPlan plan) srv)
        (some (handleException H.hier .retFalse H.hs H.fin (H.excOf e)))] := by
  rw [threadsFuel_raised C H env dflt dial fuel i plan srv e he,
    reactorHandle_not _ _ _ _ _ hno]

theorem quiet_take {κ : Type} (react : React κ) : ∀ (ps : List (Nat × Bytes)) (kind : ReactorKind)
    (n : Nat), Quiet react kind ps → Quiet react kind (ps.take n) := by
  intro ps
  induction ps with
  | nil => intro kind n h; simpa using h
  | cons p ps ih =>
    intro kind n h
    cases n with
    | zero => exact trivial
    | succ n => exact ⟨h.1, ih _ n h.2⟩

/-- every thread after the first is a direct login that cannot reconnect -/
theorem threadsFuel_tail {τ κ : Type} (C : Client τ κ) (H : Handling) (env : Neg.VEnv)
    (dflt : Nat) (dial : Nat → Except Exc Segs) (hr : ReactOK C.react) (fuel i : Nat)
    (plan : Neg.Plan) (srv : Segs) :
    ∀ t ∈ (threadsFuel C H env dflt dial fuel i plan srv).tail,
      ∃ v s, t = soleLog C H (.direct v) s := by
  have hlogin : ∀ f j v s, ∀ t ∈ threadsFuel C H env dflt dial f j (.direct v) s,
      ∃ v s, t = soleLog C H (.direct v) s := by
    intro f j v s t ht
    cases f with
    | zero => simp [threadsFuel] at ht
    | succ f =>
      rw [threadsFuel_login C H env dflt dial hr f j _ s rfl] at ht
      exact ⟨v, s, by simpa using ht⟩
  cases fuel with
  | zero => simp [threadsFuel]
  | succ fuel =>
    simp only [threadsFuel]
    cases (runThread C (kindOfPlan plan) srv).ending with
    | interrupted => simp
    | negotiated v =>
      simp only
      cases dial i with
      | ok s2 => simp only [reconnect_ok, List.tail_cons]; exact hlogin _ _ _ _
      | error e' =>
        simp only [reconnect_error]
        cases dial (i + 1) with
        | error e2 =>
          simp only [reconnect_error]
          generalize reactorHandle H.hier H.eofCls _ _ _ = r
          cases r <;> simp
        | ok s2 =>
          simp only [reconnect_ok]
          generalize reactorHandle H.hier H.eofCls _ _ _ = r
          cases r with
          | retTrue => simp only [List.tail_cons]; exact hlogin _ _ _ _
          | retFalse => simp
          | raises _ => simp
    | raised e =>
      simp only
      cases dial i with
      | error e2 =>
        simp only [reconnect_error]
        generalize reactorHandle H.hier H.eofCls _ _ _ = r
        cases r <;> simp
      | ok s2 =>
        simp only [reconnect_ok]
        generalize reactorHandle H.hier H.eofCls _ _ _ = r
        cases r with
        | retTrue => simp only [List.tail_cons]; exact hlogin _ _ _ _
        | retFalse => simp
        | raises _ => simp


/-! ## concrete parameters for the non-vacuity examples and the negative witnesses -/

/-- A toy block function (one output byte depending on the whole register). -/
def toyE : Bytes → Bytes := fun r => [r.foldl (fun a b => 3 * a + b) 7]

/-- Reactions of a toy protocol with the shape of pyCraft's reactors.  Login state: id 3 = set
compression (threshold = first payload byte), id 1 = encryption request (the client's secret is
`[1, 2, 3, 4]`), id 2 = login success, id 0 = disconnect (`LoginDisconnect`); play state: id 26 =
disconnect; status states: id 0 = the response (`PlayingStatusReactor`: the server's version 47 is
allowed; `StatusReactor` without ping: `disconnect()`). -/
def demoReact : React Bytes := fun kind p =>
  match kind with
  | .login =>
    if p.1 = 3 then .setCompression ((p.2.headD 0).toNat : Int)
    else if p.1 = 1 then .encrypt [1, 2, 3, 4]
    else if p.1 = 2 then .loginSuccess
    else if p.1 = 0 then .raise .other
    else .pass
  | .playing => if p.1 = 26 then .interrupt else .pass
  | .playingStatus => if p.1 = 0 then .negotiated 47 else .pass
  | .status => if p.1 = 0 then .interrupt else .pass

theorem demoReact_ok : ReactOK demoReact := by
  intro kind p v h
  cases kind with
  | playingStatus => rfl
  | status => simp only [demoReact] at h; split at h <;> cases h
  | playing => simp only [demoReact] at h; split at h <;> cases h
  | login =>
    simp only [demoReact] at h
    repeat (first | (split at h) | cases h)

/-- pyCraft's client over the toy cipher and the store-only zlib. -/
def demoClient : Client (List Bytes) Bytes :=
  stackClient (cfb8Pair toyE) (fun key => key) Zlib.ident.toZlibOps demoReact

/-- The reference server's stream for a conversation with `demoClient` in state `kind`. -/
def demoWire (kind : ReactorKind) (ps : List (Nat × Bytes)) : Bytes :=
  srvWire (stackEnc (cfb8Pair toyE).enc) (stackInstall fun key => key) Zlib.ident.toZlibOps
    demoReact ⟨kind, none, []⟩ ps

/-- login conversation: plugin-request-like packet, set compression 2, a packet above and one
below the threshold, encryption request, a packet, login success, a play packet. -/
def demoLogin : List (Nat × Bytes) :=
  [(4, [9]), (3, [2]), (5, [0x61, 0x62, 0x63]), (6, []), (1, [7, 7]), (8, [0x64]), (2, []),
   (33, [1, 2])]

/-- 1 = `Exception`, 2 = `EOFError`, 3 = `ValueError`, 4 = `OSError`, 5 =
`ConnectionRefusedError(OSError)`. -/
def demoHier : Hier := [(2, 1), (3, 1), (4, 1), (5, 4)]

def demoHandling : Handling :=
  { hier := demoHier, eofCls := 2,
    excOf := fun e => match e with
      | .eof => ⟨2, 0⟩
      | .tooLong => ⟨3, 0⟩
      | _ => ⟨1, 0⟩
    hs := [], fin := .fn .returns }

/-- two supported versions, both known. -/
def demoEnv : Neg.VEnv := ⟨[("1.8.9", 47), ("1.12.2", 340)], [47, 340], [47, 340]⟩

end PyCraft.C15Thread
