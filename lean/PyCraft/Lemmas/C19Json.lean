import PyCraft.Ref.C19Json
/-!
Helper lemmas for C19Seq: the reference decoder `Ref.Json.parseJson` reads back everything the
`json.dumps` model `Json.dumps` writes (`parseJson_jsonDumps`), and the output of `dumps` is
printable ASCII (`allPrintable_dumps`).
-/
namespace PyCraft.Json
open PyCraft PyCraft.Ref.Json

theorem hexVal_hexDigit (d : Nat) (h : d < 16) : hexVal (hexDigit d) = some d := by
  have : ∀ d : Fin 16, hexVal (hexDigit d.val) = some d.val := by decide
  exact this ⟨d, h⟩

theorem hex4Val_hex4 (n : Nat) (h : n < 65536) :
    hex4Val (hexDigit (n / 4096 % 16)) (hexDigit (n / 256 % 16)) (hexDigit (n / 16 % 16))
      (hexDigit (n % 16)) = some n := by
  simp only [hex4Val, hexVal_hexDigit _ (Nat.mod_lt _ (by decide : 16 > 0))]
  congr 1; omega

def consChar (c : Char) : Option (List Char × List Char) → Option (List Char × List Char)
  | some (s, r) => some (c :: s, r)
  | none => none

theorem parseStrBody_quote (r : List Char) : parseStrBody ('"' :: r) = some ([], r) := by
  rw [parseStrBody.eq_def]; simp

theorem parseStrBody_plain (c : Char) (r : List Char) (h1 : c ≠ '"') (h2 : c ≠ '\\')
    (h3 : ¬ c.toNat < 0x20) : parseStrBody (c :: r) = consChar c (parseStrBody r) := by
  rw [parseStrBody.eq_def]; simp only [h1, h2, h3, if_false]
  cases parseStrBody r with
  | none => rfl
  | some p => rfl

theorem parseStrBody_esc (e ch : Char) (r : List Char) (h1 : e ≠ 'u') (h2 : unescape e = some ch) :
    parseStrBody ('\\' :: e :: r) = consChar ch (parseStrBody r) := by
  rw [parseStrBody.eq_def]; simp [h1, h2]
  cases parseStrBody r with
  | none => rfl
  | some p => rfl

theorem parseStrBody_u (a b c d : Char) (n : Nat) (r : List Char) (h : hex4Val a b c d = some n)
    (h1 : ¬ (0xd800 ≤ n ∧ n < 0xdc00)) (h2 : ¬ (0xdc00 ≤ n ∧ n < 0xe000)) :
    parseStrBody ('\\' :: 'u' :: a :: b :: c :: d :: r) = consChar (Char.ofNat n) (parseStrBody r) := by
  rw [parseStrBody.eq_def]; simp [h, h1, h2]
  cases parseStrBody r with
  | none => rfl
  | some p => rfl

theorem parseStrBody_uu (a b c d a' b' c' d' : Char) (hi lo : Nat) (r : List Char)
    (h : hex4Val a b c d = some hi) (h' : hex4Val a' b' c' d' = some lo)
    (h1 : 0xd800 ≤ hi ∧ hi < 0xdc00) (h2 : 0xdc00 ≤ lo ∧ lo < 0xe000) :
    parseStrBody ('\\' :: 'u' :: a :: b :: c :: d :: '\\' :: 'u' :: a' :: b' :: c' :: d' :: r) =
      consChar (Char.ofNat (0x10000 + (hi - 0xd800) * 0x400 + (lo - 0xdc00))) (parseStrBody r) := by
  rw [parseStrBody.eq_def]; simp [h, h', h1, h2]
  cases parseStrBody r with
  | none => rfl
  | some p => rfl

theorem char_valid_nat (c : Char) : c.toNat < 0xd800 ∨ (0xdfff < c.toNat ∧ c.toNat < 0x110000) := by
  have := c.valid
  simp only [UInt32.isValidChar, Nat.isValidChar] at this
  exact this

theorem surrogate_hi (n : Nat) (h : n < 0x100000) :
    0xd800 ||| ((n >>> 10) &&& 0x3ff) = 0xd800 + n / 1024 := by
  have e1 : (n >>> 10) &&& 0x3ff = n / 1024 % 1024 := by
    rw [Nat.shiftRight_eq_div_pow]
    exact Nat.and_two_pow_sub_one_eq_mod _ 10
  have e2 : n / 1024 % 1024 = n / 1024 := Nat.mod_eq_of_lt (by omega)
  rw [e1, e2]
  have := Nat.shiftLeft_add_eq_or_of_lt (i := 10) (b := n / 1024) (by omega) 54
  simpa using this.symm

theorem surrogate_lo (n : Nat) : 0xdc00 ||| (n &&& 0x3ff) = 0xdc00 + n % 1024 := by
  have e1 : n &&& 0x3ff = n % 1024 := Nat.and_two_pow_sub_one_eq_mod _ 10
  rw [e1]
  have := Nat.shiftLeft_add_eq_or_of_lt (i := 10) (b := n % 1024) (Nat.mod_lt _ (by decide)) 55
  simpa using this.symm

theorem parseStrBody_escChar (c : Char) (tail : List Char) :
    parseStrBody (escChar c ++ tail) = consChar c (parseStrBody tail) := by
  unfold escChar
  split
  · next h => subst h; exact parseStrBody_esc _ _ _ (by decide) (by decide)
  split
  · next h => subst h; exact parseStrBody_esc _ _ _ (by decide) (by decide)
  split
  · next h => subst h; exact parseStrBody_esc _ _ _ (by decide) (by decide)
  split
  · next h => subst h; exact parseStrBody_esc _ _ _ (by decide) (by decide)
  split
  · next h => subst h; exact parseStrBody_esc _ _ _ (by decide) (by decide)
  split
  · next h => subst h; exact parseStrBody_esc _ _ _ (by decide) (by decide)
  split
  · next h => subst h; exact parseStrBody_esc _ _ _ (by decide) (by decide)
  split
  · next h1 h2 _ _ _ _ _ h => exact parseStrBody_plain c tail h1 h2 (by omega)
  have hv := char_valid_nat c
  split
  · next hlt =>
    have := parseStrBody_u _ _ _ _ c.toNat tail (hex4Val_hex4 c.toNat hlt) (by omega) (by omega)
    simpa [hex4, Char.ofNat_toNat] using this
  · next hge =>
    have hn : c.toNat - 0x10000 < 0x100000 := by omega
    simp only [surrogate_hi _ hn, surrogate_lo]
    have := parseStrBody_uu _ _ _ _ _ _ _ _ _ _ tail
      (hex4Val_hex4 (0xd800 + (c.toNat - 0x10000) / 1024) (by omega))
      (hex4Val_hex4 (0xdc00 + (c.toNat - 0x10000) % 1024) (by omega)) (by omega) (by omega)
    have e : 0x10000 + (0xd800 + (c.toNat - 0x10000) / 1024 - 0xd800) * 0x400 +
        (0xdc00 + (c.toNat - 0x10000) % 1024 - 0xdc00) = c.toNat := by omega
    rw [e, Char.ofNat_toNat] at this
    simpa [hex4] using this

theorem parseStrBody_flatMap (cs : List Char) (rest : List Char) :
    parseStrBody (cs.flatMap escChar ++ '"' :: rest) = some (cs, rest) := by
  induction cs with
  | nil => exact parseStrBody_quote rest
  | cons c cs ih =>
    rw [List.flatMap_cons, List.append_assoc, parseStrBody_escChar, ih]; rfl
/-- `rest` cannot continue a number token. -/
def NumEnd (rest : List Char) : Prop :=
  ∀ c r, rest = c :: r → c.isDigit = false ∧ c ≠ '.' ∧ c ≠ 'e' ∧ c ≠ 'E'

theorem spanDigits_append (ds rest : List Char) (hd : ∀ c ∈ ds, c.isDigit = true)
    (hr : ∀ c r, rest = c :: r → c.isDigit = false) : spanDigits (ds ++ rest) = (ds, rest) := by
  induction ds with
  | nil =>
    cases rest with
    | nil => rfl
    | cons c r => simp [spanDigits, hr c r rfl]
  | cons d ds ih =>
    have := ih (fun c hc => hd c (List.mem_cons_of_mem _ hc))
    simp [spanDigits, hd d (List.mem_cons_self), this]

theorem toDigits_head_ne_zero (n : Nat) (hn : 0 < n) :
    ∀ d ds, Nat.toDigits 10 n = d :: ds → d ≠ '0' := by
  induction n using Nat.strongRecOn with
  | _ n ih =>
    intro d ds h
    rw [Nat.toDigits_eq_if (by decide)] at h
    split at h
    · next hlt =>
      simp only [List.cons.injEq] at h
      rw [← h.1]
      have : ∀ m : Fin 10, 0 < m.val → Nat.digitChar m.val ≠ '0' := by decide
      exact this ⟨n, hlt⟩ hn
    · next hge =>
      have hpos : 0 < n / 10 := by omega
      cases h' : Nat.toDigits 10 (n / 10) with
      | nil => exact absurd h' Nat.toDigits_ne_nil
      | cons d' ds' =>
        rw [h'] at h
        simp only [List.cons_append, List.cons.injEq] at h
        rw [← h.1]
        exact ih (n / 10) (by omega) hpos d' ds' h'

theorem toDigits_zero_single (n : Nat) (ds : List Char) (h : Nat.toDigits 10 n = '0' :: ds) :
    ds = [] := by
  by_cases hn : n = 0
  · subst hn; simpa [Nat.toDigits_zero] using h.symm
  · exact absurd rfl (toDigits_head_ne_zero n (by omega) _ _ h)

theorem parseNat_toDigits (n : Nat) (rest : List Char) (hr : NumEnd rest) :
    parseNat (Nat.toDigits 10 n ++ rest) = some (n, rest) := by
  have hsp := spanDigits_append (Nat.toDigits 10 n) rest
    (fun c hc => Nat.isDigit_of_mem_toDigits (by decide) (by decide) hc)
    (fun c r h => (hr c r h).1)
  unfold parseNat
  rw [hsp]
  cases hd : Nat.toDigits 10 n with
  | nil => exact absurd hd Nat.toDigits_ne_nil
  | cons d ds =>
    have hval : Nat.ofDigitChars 10 (d :: ds) 0 = n := by rw [← hd]; exact Nat.ofDigitChars_ten_toDigits
    have hz : ¬ (d = '0' ∧ ds ≠ []) := by
      rintro ⟨rfl, hne⟩; exact hne (toDigits_zero_single n ds hd)
    simp only [hz, if_false, hval]
    cases rest with
    | nil => rfl
    | cons c r =>
      obtain ⟨_, h1, h2, h3⟩ := hr c r rfl
      simp [h1, h2, h3]

theorem toDigits_head_isDigit (n : Nat) : ∃ d ds, Nat.toDigits 10 n = d :: ds ∧ d.isDigit = true := by
  cases hd : Nat.toDigits 10 n with
  | nil => exact absurd hd Nat.toDigits_ne_nil
  | cons d ds =>
    exact ⟨d, ds, rfl, Nat.isDigit_of_mem_toDigits (b := 10) (n := n) (by decide) (by decide)
      (by rw [hd]; exact List.mem_cons_self)⟩

theorem parseNum_intRepr (n : Int) (rest : List Char) (hr : NumEnd rest) :
    parseNum (intRepr n ++ rest) = some (.num n, rest) := by
  unfold intRepr
  split
  · next hneg =>
    simp only [List.cons_append, parseNum, if_true, parseNat_toDigits _ _ hr]
    congr 3; omega
  · next hpos =>
    obtain ⟨d, ds, hd, hdig⟩ := toDigits_head_isDigit n.natAbs
    have hne : d ≠ '-' := by rintro rfl; simp at hdig
    have := parseNat_toDigits n.natAbs rest hr
    rw [hd] at this ⊢
    simp only [List.cons_append] at this ⊢
    simp only [parseNum, hne, if_false, this]
    congr 3; omega

/-! ## values -/

/-- what may follow a value inside the output of `dumps` (or the end of the text) -/
def Delim (rest : List Char) : Prop :=
  rest = [] ∨ ∃ r, rest = ',' :: r ∨ rest = ']' :: r ∨ rest = '}' :: r

theorem Delim.numEnd {rest : List Char} (h : Delim rest) : NumEnd rest := by
  intro c r hc
  rcases h with h | ⟨r', h | h | h⟩
  · rw [h] at hc; exact absurd hc (by simp)
  all_goals (rw [h] at hc; simp only [List.cons.injEq] at hc; rw [← hc.1]; decide)

theorem skipWs_cons_of_not_ws (c : Char) (r : List Char) (h : isWs c = false) :
    skipWs (c :: r) = c :: r := by simp [skipWs, h]

theorem skipWs_space (r : List Char) : skipWs (' ' :: r) = skipWs r := by
  simp [skipWs, isWs]

theorem parseVal_space (f : Nat) (cs : List Char) : parseVal f (' ' :: cs) = parseVal f cs := by
  cases f with
  | zero => simp [parseVal]
  | succ f => rw [parseVal, parseVal, skipWs_space]

theorem parseElems_space (f : Nat) (cs : List Char) : parseElems f (' ' :: cs) = parseElems f cs := by
  cases f with
  | zero => simp [parseElems]
  | succ f => rw [parseElems, parseElems, parseVal_space]

theorem parseMembers_space (f : Nat) (cs : List Char) :
    parseMembers f (' ' :: cs) = parseMembers f cs := by
  cases f with
  | zero => simp [parseMembers]
  | succ f => rw [parseMembers, parseMembers, skipWs_space]

/-- the first character of a number token is none of the characters the decoder dispatches on -/
def NumHead (c : Char) : Prop :=
  isWs c = false ∧ c ≠ 'n' ∧ c ≠ 't' ∧ c ≠ 'f' ∧ c ≠ '"' ∧ c ≠ '[' ∧ c ≠ '{' ∧ c ≠ ']' ∧ c ≠ '}'

theorem numHead_of_digit (c : Char) (h : c.isDigit = true) : NumHead c := by
  have ne : ∀ d : Char, d.isDigit = false → c ≠ d := by
    intro d hd hcd; rw [hcd, hd] at h; exact absurd h (by decide)
  refine ⟨?_, ne _ (by decide), ne _ (by decide), ne _ (by decide), ne _ (by decide),
    ne _ (by decide), ne _ (by decide), ne _ (by decide), ne _ (by decide)⟩
  simp [isWs, ne ' ' (by decide), ne '\n' (by decide), ne '\r' (by decide), ne '\t' (by decide)]

theorem numHead_minus : NumHead '-' := by
  refine ⟨by decide, ?_, ?_, ?_, ?_, ?_, ?_, ?_, ?_⟩ <;> decide

theorem parseVal_num_head (f : Nat) (c : Char) (r : List Char) (h : NumHead c) :
    parseVal (f + 1) (c :: r) = parseNum (c :: r) := by
  obtain ⟨hws, h1, h2, h3, h4, h5, h6, _, _⟩ := h
  rw [parseVal, skipWs_cons_of_not_ws c r hws]
  simp only [h1, h2, h3, h4, h5, h6, if_false]

theorem intRepr_head (n : Int) : ∃ c r, intRepr n = c :: r ∧ NumHead c := by
  unfold intRepr
  split
  · exact ⟨'-', _, rfl, numHead_minus⟩
  · obtain ⟨d, ds, hd, hdig⟩ := toDigits_head_isDigit n.natAbs
    exact ⟨d, ds, hd, numHead_of_digit d hdig⟩

theorem dumps_head (v : JVal) :
    ∃ c r, dumps v = c :: r ∧ isWs c = false ∧ c ≠ ']' ∧ c ≠ '}' := by
  cases v with
  | null => exact ⟨'n', _, by rw [dumps], by decide, by decide, by decide⟩
  | bool b =>
    cases b
    · exact ⟨'f', _, by rw [dumps], by decide, by decide, by decide⟩
    · exact ⟨'t', _, by rw [dumps], by decide, by decide, by decide⟩
  | num n =>
    obtain ⟨c, r, h, hws, _, _, _, _, _, _, h7, h8⟩ := intRepr_head n
    exact ⟨c, r, by rw [dumps, h], hws, h7, h8⟩
  | str s => exact ⟨'"', _, by rw [dumps, dumpsStr]; rfl, by decide, by decide, by decide⟩
  | arr xs =>
    cases xs with
    | nil => exact ⟨'[', _, by rw [dumps], by decide, by decide, by decide⟩
    | cons x xs => exact ⟨'[', _, by rw [dumps]; rfl, by decide, by decide, by decide⟩
  | obj kvs =>
    cases kvs with
    | nil => exact ⟨'{', _, by rw [dumps], by decide, by decide, by decide⟩
    | cons kv kvs =>
      obtain ⟨k, v⟩ := kv
      exact ⟨'{', _, by rw [dumps]; rfl, by decide, by decide, by decide⟩

theorem dumps_length_pos (v : JVal) : 0 < (dumps v).length := by
  obtain ⟨c, r, h, _⟩ := dumps_head v
  rw [h]; simp

theorem delim_tail (xs : List JVal) (rest : List Char) : Delim (dumpsTail xs ++ ']' :: rest) := by
  cases xs with
  | nil => exact .inr ⟨rest, .inr (.inl (by rw [dumpsTail]; rfl))⟩
  | cons x xs => exact .inr ⟨_, .inl (by rw [dumpsTail]; rfl)⟩

theorem delim_membersTail (kvs : List (String × JVal)) (rest : List Char) :
    Delim (dumpsMembersTail kvs ++ '}' :: rest) := by
  cases kvs with
  | nil => exact .inr ⟨rest, .inr (.inr (by rw [dumpsMembersTail]; rfl))⟩
  | cons kv kvs => obtain ⟨k, v⟩ := kv; exact .inr ⟨_, .inl (by rw [dumpsMembersTail]; rfl)⟩

theorem parseStrBody_dumpsStr (s : String) (rest : List Char) :
    ∃ body, dumpsStr s ++ rest = '"' :: body ∧ parseStrBody body = some (s.toList, rest) :=
  ⟨s.toList.flatMap escChar ++ '"' :: rest, by simp [dumpsStr], parseStrBody_flatMap _ _⟩

/-- the items of a non-empty array between the brackets -/
def dumpsItems : List JVal → List Char
  | [] => []
  | x :: xs => dumps x ++ dumpsTail xs

/-- the members of a non-empty object between the braces -/
def dumpsMembers : List (String × JVal) → List Char
  | [] => []
  | (k, v) :: kvs => dumpsStr k ++ [':', ' '] ++ dumps v ++ dumpsMembersTail kvs

theorem dumpsTail_cons (x : JVal) (xs : List JVal) :
    dumpsTail (x :: xs) = ',' :: ' ' :: dumpsItems (x :: xs) := by
  rw [dumpsTail, dumpsItems]; rfl

theorem dumpsMembersTail_cons (kv : String × JVal) (kvs : List (String × JVal)) :
    dumpsMembersTail (kv :: kvs) = ',' :: ' ' :: dumpsMembers (kv :: kvs) := by
  obtain ⟨k, v⟩ := kv
  rw [dumpsMembersTail, dumpsMembers]; simp

theorem dumps_arr_cons (x : JVal) (xs : List JVal) :
    dumps (.arr (x :: xs)) = '[' :: dumpsItems (x :: xs) ++ [']'] := by
  rw [dumps, dumpsItems]; simp

theorem dumps_obj_cons (kv : String × JVal) (kvs : List (String × JVal)) :
    dumps (.obj (kv :: kvs)) = '{' :: dumpsMembers (kv :: kvs) ++ ['}'] := by
  obtain ⟨k, v⟩ := kv
  rw [dumps, dumpsMembers]; simp

theorem dumpsItems_head (x : JVal) (xs : List JVal) (rest : List Char) :
    ∃ c r, dumpsItems (x :: xs) ++ rest = c :: r ∧ isWs c = false ∧ c ≠ ']' := by
  obtain ⟨c, r, h, hws, h1, _⟩ := dumps_head x
  exact ⟨c, r ++ dumpsTail xs ++ rest, by rw [dumpsItems, h]; simp, hws, h1⟩

theorem parseVal_arr_nonempty (f : Nat) (c : Char) (r : List Char) (hws : isWs c = false)
    (hne : c ≠ ']') :
    parseVal (f + 1) ('[' :: c :: r) =
      match parseElems f (c :: r) with
      | some (xs, r') => some (.arr xs, r')
      | none => none := by
  rw [parseVal, skipWs_cons_of_not_ws '[' _ (by decide)]
  simp [skipWs_cons_of_not_ws c r hws, hne]
  cases parseElems f (c :: r) with
  | none => rfl
  | some p => rfl

theorem parseVal_obj_nonempty (f : Nat) (r : List Char) :
    parseVal (f + 1) ('{' :: '"' :: r) =
      match parseMembers f ('"' :: r) with
      | some (kvs, r') => some (.obj kvs, r')
      | none => none := by
  rw [parseVal, skipWs_cons_of_not_ws '{' _ (by decide)]
  simp [skipWs_cons_of_not_ws '"' r (by decide)]
  cases parseMembers f ('"' :: r) with
  | none => rfl
  | some p => rfl

theorem parseElems_last (f : Nat) (cs : List Char) (v : JVal) (r : List Char)
    (h : parseVal f cs = some (v, ']' :: r)) : parseElems (f + 1) cs = some ([v], r) := by
  rw [parseElems, h]; simp [skipWs_cons_of_not_ws ']' r (by decide)]

theorem parseElems_more (f : Nat) (cs : List Char) (v : JVal) (r : List Char)
    (h : parseVal f cs = some (v, ',' :: r)) :
    parseElems (f + 1) cs =
      match parseElems f r with
      | some (vs, r'') => some (v :: vs, r'')
      | none => none := by
  rw [parseElems, h]; simp [skipWs_cons_of_not_ws ',' r (by decide)]
  cases parseElems f r with
  | none => rfl
  | some p => rfl

theorem parseMembers_last (f : Nat) (body k r2 : List Char) (v : JVal) (r4 : List Char)
    (hp : parseStrBody body = some (k, ':' :: r2)) (hv : parseVal f r2 = some (v, '}' :: r4)) :
    parseMembers (f + 1) ('"' :: body) = some ([(String.ofList k, v)], r4) := by
  rw [parseMembers, skipWs_cons_of_not_ws '"' _ (by decide)]
  simp [hp, skipWs_cons_of_not_ws ':' r2 (by decide), hv, skipWs_cons_of_not_ws '}' r4 (by decide)]

theorem parseMembers_more (f : Nat) (body k r2 : List Char) (v : JVal) (r4 : List Char)
    (hp : parseStrBody body = some (k, ':' :: r2)) (hv : parseVal f r2 = some (v, ',' :: r4)) :
    parseMembers (f + 1) ('"' :: body) =
      match parseMembers f r4 with
      | some (m, r5) => some ((String.ofList k, v) :: m, r5)
      | none => none := by
  rw [parseMembers, skipWs_cons_of_not_ws '"' _ (by decide)]
  simp [hp, skipWs_cons_of_not_ws ':' r2 (by decide), hv, skipWs_cons_of_not_ws ',' r4 (by decide)]
  cases parseMembers f r4 with
  | none => rfl
  | some p => rfl

mutual
theorem parseVal_dumps : ∀ (v : JVal) (f : Nat) (rest : List Char),
    (dumps v).length ≤ f → Delim rest → parseVal f (dumps v ++ rest) = some (v, rest)
  | .null, f, rest, hf, _ => by
    cases f with
    | zero => simp [dumps] at hf
    | succ f => rw [dumps, parseVal]; simp [skipWs, isWs]
  | .bool true, f, rest, hf, _ => by
    cases f with
    | zero => simp [dumps] at hf
    | succ f => rw [dumps, parseVal]; simp [skipWs, isWs]
  | .bool false, f, rest, hf, _ => by
    cases f with
    | zero => simp [dumps] at hf
    | succ f => rw [dumps, parseVal]; simp [skipWs, isWs]
  | .num n, f, rest, hf, hd => by
    have hpos := dumps_length_pos (.num n)
    cases f with
    | zero => omega
    | succ f =>
      rw [dumps]
      obtain ⟨c, r, h, hh⟩ := intRepr_head n
      have := parseNum_intRepr n rest hd.numEnd
      rw [h] at this ⊢
      rw [List.cons_append] at this ⊢
      rw [parseVal_num_head f c _ hh, this]
  | .str s, f, rest, hf, _ => by
    have hpos := dumps_length_pos (.str s)
    cases f with
    | zero => omega
    | succ f =>
      obtain ⟨body, hb, hp⟩ := parseStrBody_dumpsStr s rest
      rw [dumps, hb, parseVal]
      simp [skipWs, isWs, hp, String.ofList_toList]
  | .arr [], f, rest, hf, _ => by
    cases f with
    | zero => simp [dumps] at hf
    | succ f => rw [dumps, parseVal]; simp [skipWs, isWs]
  | .arr (x :: xs), f, rest, hf, _ => by
    cases f with
    | zero => simp [dumps] at hf
    | succ f =>
      rw [dumps_arr_cons] at hf ⊢
      have hE := parseElems_dumps (x :: xs) f rest (by simp)
        (by simp only [List.length_cons, List.length_append, List.length_nil] at hf; omega)
      obtain ⟨c, r, hc, hws, hne⟩ := dumpsItems_head x xs (']' :: rest)
      have e : ('[' :: dumpsItems (x :: xs) ++ [']']) ++ rest
          = '[' :: (dumpsItems (x :: xs) ++ ']' :: rest) := by simp
      rw [e]
      rw [hc] at hE ⊢
      rw [parseVal_arr_nonempty f c r hws hne, hE]
  | .obj [], f, rest, hf, _ => by
    cases f with
    | zero => simp [dumps] at hf
    | succ f => rw [dumps, parseVal]; simp [skipWs, isWs]
  | .obj (kv :: kvs), f, rest, hf, _ => by
    cases f with
    | zero => simp [dumps] at hf
    | succ f =>
      rw [dumps_obj_cons] at hf ⊢
      have hM := parseMembers_dumps (kv :: kvs) f rest (by simp)
        (by simp only [List.length_cons, List.length_append, List.length_nil] at hf; omega)
      have e : ('{' :: dumpsMembers (kv :: kvs) ++ ['}']) ++ rest
          = '{' :: (dumpsMembers (kv :: kvs) ++ '}' :: rest) := by simp
      obtain ⟨k, v⟩ := kv
      obtain ⟨body, hb, _⟩ := parseStrBody_dumpsStr k
        (':' :: ' ' :: (dumps v ++ (dumpsMembersTail kvs ++ '}' :: rest)))
      have hc : dumpsMembers ((k, v) :: kvs) ++ '}' :: rest = '"' :: body := by
        rw [← hb, dumpsMembers]; simp
      rw [e]
      rw [hc] at hM ⊢
      rw [parseVal_obj_nonempty f body, hM]
theorem parseElems_dumps : ∀ (l : List JVal) (f : Nat) (rest : List Char),
    l ≠ [] → (dumpsItems l).length + 1 ≤ f →
    parseElems f (dumpsItems l ++ ']' :: rest) = some (l, rest)
  | [], _, _, h, _ => absurd rfl h
  | x :: xs, f, rest, _, hf => by
    cases f with
    | zero => omega
    | succ f =>
      have hlen : (dumpsItems (x :: xs)).length = (dumps x).length + (dumpsTail xs).length := by
        rw [dumpsItems]; simp
      have hV := parseVal_dumps x f (dumpsTail xs ++ ']' :: rest) (by omega) (delim_tail xs rest)
      rw [dumpsItems, List.append_assoc]
      cases xs with
      | nil =>
        rw [dumpsTail, List.nil_append] at hV ⊢
        exact parseElems_last f _ x rest hV
      | cons y ys =>
        have hpos := dumps_length_pos x
        have hE := parseElems_dumps (y :: ys) f rest (by simp)
          (by rw [dumpsTail_cons] at hlen; simp only [List.length_cons] at hlen; omega)
        rw [dumpsTail_cons, List.cons_append, List.cons_append] at hV ⊢
        rw [parseElems_more f _ x _ hV, parseElems_space, hE]
theorem parseMembers_dumps : ∀ (l : List (String × JVal)) (f : Nat) (rest : List Char),
    l ≠ [] → (dumpsMembers l).length + 1 ≤ f →
    parseMembers f (dumpsMembers l ++ '}' :: rest) = some (l, rest)
  | [], _, _, h, _ => absurd rfl h
  | (k, v) :: kvs, f, rest, _, hf => by
    cases f with
    | zero => omega
    | succ f =>
      have hlen : (dumpsMembers ((k, v) :: kvs)).length
          = (dumpsStr k).length + 2 + (dumps v).length + (dumpsMembersTail kvs).length := by
        rw [dumpsMembers]; simp only [List.length_append, List.length_cons, List.length_nil]
      have hV := parseVal_dumps v f (dumpsMembersTail kvs ++ '}' :: rest) (by omega)
        (delim_membersTail kvs rest)
      obtain ⟨body, hb, hp⟩ := parseStrBody_dumpsStr k
        (':' :: ' ' :: (dumps v ++ (dumpsMembersTail kvs ++ '}' :: rest)))
      have e : dumpsMembers ((k, v) :: kvs) ++ '}' :: rest = '"' :: body := by
        rw [← hb, dumpsMembers]; simp
      rw [e]
      rw [← parseVal_space] at hV
      cases kvs with
      | nil =>
        rw [dumpsMembersTail, List.nil_append] at hV hp
        rw [parseMembers_last f body _ _ v rest hp hV, String.ofList_toList]
      | cons kv' kvs' =>
        have hpos := dumps_length_pos v
        have hM := parseMembers_dumps (kv' :: kvs') f rest (by simp)
          (by rw [dumpsMembersTail_cons] at hlen; simp only [List.length_cons] at hlen; omega)
        rw [dumpsMembersTail_cons, List.cons_append, List.cons_append] at hV hp
        rw [parseMembers_more f body _ _ v _ hp hV, parseMembers_space, hM]
        simp [String.ofList_toList]
end

theorem parseJson_jsonDumps (v : JVal) : parseJson (jsonDumps v) = some v := by
  have h := parseVal_dumps v ((dumps v).length + 1) [] (by omega) (.inl rfl)
  simp only [List.append_nil] at h
  simp [parseJson, jsonDumps, h, skipWs]

/-! ## the output is printable ASCII -/

/-- `' ' ≤ c ≤ '~'` -/
def Printable (c : Char) : Prop := 0x20 ≤ c.toNat ∧ c.toNat ≤ 0x7e

instance (c : Char) : Decidable (Printable c) := by unfold Printable; infer_instance

def AllPrintable (l : List Char) : Prop := ∀ c ∈ l, Printable c

instance (l : List Char) : Decidable (AllPrintable l) := by unfold AllPrintable; infer_instance

theorem allPrintable_append {a b : List Char} :
    AllPrintable (a ++ b) ↔ AllPrintable a ∧ AllPrintable b := by
  simp [AllPrintable, List.mem_append, or_imp, forall_and]

theorem allPrintable_cons {c : Char} {l : List Char} :
    AllPrintable (c :: l) ↔ Printable c ∧ AllPrintable l := by
  simp [AllPrintable]

theorem allPrintable_nil : AllPrintable [] := by simp [AllPrintable]

theorem printable_hexDigit (d : Nat) (h : d < 16) : Printable (hexDigit d) := by
  have : ∀ d : Fin 16, Printable (hexDigit d.val) := by decide
  exact this ⟨d, h⟩

theorem allPrintable_hex4 (n : Nat) : AllPrintable (hex4 n) := by
  intro c hc
  simp only [hex4, List.mem_cons, List.not_mem_nil, or_false] at hc
  rcases hc with rfl | rfl | rfl | rfl <;> exact printable_hexDigit _ (Nat.mod_lt _ (by decide))

theorem allPrintable_escChar (c : Char) : AllPrintable (escChar c) := by
  unfold escChar
  repeat' split
  any_goals (intro d hd; simp only [List.mem_cons, List.not_mem_nil, or_false] at hd;
             rcases hd with rfl | rfl <;> decide)
  · next h => intro d hd; simp only [List.mem_cons, List.not_mem_nil, or_false] at hd; subst hd; exact h
  · rw [allPrintable_cons, allPrintable_cons]
    exact ⟨by decide, by decide, allPrintable_hex4 _⟩
  · simp only [List.cons_append, allPrintable_cons, allPrintable_append]
    exact ⟨by decide, by decide, allPrintable_hex4 _, by decide, by decide, allPrintable_hex4 _⟩

theorem allPrintable_dumpsStr (s : String) : AllPrintable (dumpsStr s) := by
  unfold dumpsStr
  rw [List.cons_append, allPrintable_cons, allPrintable_append]
  refine ⟨by decide, ?_, by simp [AllPrintable]; decide⟩
  intro c hc
  obtain ⟨d, _, hd⟩ := List.mem_flatMap.mp hc
  exact allPrintable_escChar d c hd

theorem allPrintable_intRepr (n : Int) : AllPrintable (intRepr n) := by
  have hd : AllPrintable (Nat.toDigits 10 n.natAbs) := by
    intro c hc
    have := Nat.isDigit_of_mem_toDigits (b := 10) (by decide) (by decide) hc
    simp only [Char.isDigit, Bool.and_eq_true, decide_eq_true_eq] at this
    have h1 : 48 ≤ c.val.toNat := by simpa using UInt32.le_iff_toNat_le.mp this.1
    have h2 : c.val.toNat ≤ 57 := by simpa using UInt32.le_iff_toNat_le.mp this.2
    show 0x20 ≤ c.val.toNat ∧ c.val.toNat ≤ 0x7e
    omega
  unfold intRepr
  split
  · exact allPrintable_cons.mpr ⟨by decide, hd⟩
  · exact hd

mutual
theorem allPrintable_dumps : ∀ v : JVal, AllPrintable (dumps v)
  | .null => by rw [dumps]; decide
  | .bool true => by rw [dumps]; decide
  | .bool false => by rw [dumps]; decide
  | .num n => by rw [dumps]; exact allPrintable_intRepr n
  | .str s => by rw [dumps]; exact allPrintable_dumpsStr s
  | .arr [] => by rw [dumps]; decide
  | .arr (x :: xs) => by
    rw [dumps]
    simp only [List.cons_append, allPrintable_cons, allPrintable_append, and_assoc]
    exact ⟨by decide, allPrintable_dumps x, allPrintable_dumpsTail xs, by decide, allPrintable_nil⟩
  | .obj [] => by rw [dumps]; decide
  | .obj ((k, v) :: kvs) => by
    rw [dumps]
    simp only [List.cons_append, allPrintable_cons, allPrintable_append, and_assoc]
    exact ⟨by decide, allPrintable_dumpsStr k, by decide, by decide, allPrintable_nil,
      allPrintable_dumps v, allPrintable_dumpsMembersTail kvs, by decide, allPrintable_nil⟩
theorem allPrintable_dumpsTail : ∀ xs : List JVal, AllPrintable (dumpsTail xs)
  | [] => by rw [dumpsTail]; exact allPrintable_nil
  | x :: xs => by
    rw [dumpsTail]
    simp only [List.cons_append, allPrintable_cons, allPrintable_append]
    exact ⟨by decide, by decide, allPrintable_dumps x, allPrintable_dumpsTail xs⟩
theorem allPrintable_dumpsMembersTail : ∀ kvs : List (String × JVal),
    AllPrintable (dumpsMembersTail kvs)
  | [] => by rw [dumpsMembersTail]; exact allPrintable_nil
  | (k, v) :: kvs => by
    rw [dumpsMembersTail]
    simp only [List.cons_append, allPrintable_cons, allPrintable_append, and_assoc]
    exact ⟨by decide, by decide, allPrintable_dumpsStr k, by decide, by decide, allPrintable_nil,
      allPrintable_dumps v, allPrintable_dumpsMembersTail kvs⟩
end

end PyCraft.Json
