import PyCraft.Model.Writers
/-!
Vocabulary for the proofs about `Model/Writers.lean`: views of a program counter, the holder's
program counter `cur`, whole-frame lists, the case-analysis tactic `step_cases`, and the lock
invariant `LockInv`.
-/
namespace PyCraft.Writers

/-! ### Views of a program counter -/

/-- Inside a `with self._write_lock:` block. -/
def UPc.crit : UPc → Bool
  | .idle | .done => false
  | _ => true

def NPc.crit : NPc → Bool
  | .wRdi | .wChk | .wPop | .wSnd0 _ | .wSnd1 _ | .wChk2 | .wRel | .xRel | .zRel => true
  | _ => false

def Pc.crit : Pc → Bool
  | .user pc => pc.crit
  | .net pc _ => pc.crit

/-- The networking thread has left the loop of `_run`. -/
def NPc.exited : NPc → Bool
  | .zAcq | .zRel | .zEnd | .done => true
  | _ => false

/-- The packet this thread has taken responsibility for (forced: since `acq`; popped: since `pop`)
and not yet completely sent. -/
def Pc.infl : Pc → List Pkt
  | .user (.fSnd0 p) | .user (.fSnd1 p) => [p]
  | .user (.dSnd0 _ q) | .user (.dSnd1 _ q) => [q]
  | .net (.wSnd0 q) _ | .net (.wSnd1 q) _ => [q]
  | _ => []

/-- The in-flight packet, when it came from the queue. -/
def Pc.popped : Pc → List Pkt
  | .user (.dSnd0 _ q) | .user (.dSnd1 _ q) => [q]
  | .net (.wSnd0 q) _ | .net (.wSnd1 q) _ => [q]
  | _ => []

/-- The open length prefix: between `snd p 0` and `snd p 1`. -/
def Pc.half : Pc → List Chunk
  | .user (.fSnd1 p) => [(p, 0)]
  | .user (.dSnd1 _ q) => [(q, 0)]
  | .net (.wSnd1 q) _ => [(q, 0)]
  | _ => []

/-- Program points that are only reached while the socket is open. -/
def Pc.needsOpen : Pc → Bool
  | .user (.fSnd1 _) | .user (.dChk _) | .user (.dPop _) | .user (.dSnd0 _ _) | .user (.dSnd1 _ _)
  | .user (.dShut _) | .user (.dCls _) => true
  | .net .wChk _ | .net .wPop _ | .net (.wSnd0 _) _ | .net (.wSnd1 _) _ => true
  | _ => false

/-- About to `popleft`. -/
def Pc.atPop : Pc → Bool
  | .user (.dPop _) | .net .wPop _ => true
  | _ => false

/-- `disconnect` between the interrupt and the close. -/
def Pc.pastSti : Pc → Bool
  | .user (.dShut _) | .user (.dCls _) => true
  | _ => false

/-- Inside the flush loop of `disconnect`. -/
def Pc.flushing : Pc → Bool
  | .user (.dChk _) | .user (.dPop _) | .user (.dSnd0 _ _) | .user (.dSnd1 _ _) => true
  | _ => false

/-- The ghost context of a running `disconnect`. -/
def Pc.dctx : Pc → Option DCtx
  | .user (.dChk c) | .user (.dPop c) | .user (.dSnd0 c _) | .user (.dSnd1 c _)
  | .user (.dSti c) | .user (.dShut c) | .user (.dCls c) | .user (.dRel c) => some c
  | _ => none

/-- The lock holder's program counter (`idle` when the lock is free). -/
def cur (s : Sys) : Pc :=
  match s.owner with
  | some t => (s.thr t).pc
  | none => .user .idle

/-! ### Frames -/

/-- The wire image of a sequence of whole frames. -/
def frames (ps : List Pkt) : List Chunk := ps.flatMap fun p => [(p, 0), (p, 1)]

/-- The packets whose body chunk is on the wire, in order. -/
def sentPkts (w : List Chunk) : List Pkt := w.filterMap fun c => if c.2 = 1 then some c.1 else none

@[simp] theorem frames_nil : frames [] = [] := rfl

theorem frames_append (a b : List Pkt) : frames (a ++ b) = frames a ++ frames b := by
  simp [frames]

theorem frames_snoc (a : List Pkt) (p : Pkt) : frames (a ++ [p]) = frames a ++ [(p, 0), (p, 1)] := by
  simp [frames]

@[simp] theorem sentPkts_nil : sentPkts [] = [] := rfl

theorem sentPkts_append (a b : List Chunk) : sentPkts (a ++ b) = sentPkts a ++ sentPkts b := by
  simp [sentPkts]

theorem sentPkts_snoc0 (a : List Chunk) (p : Pkt) : sentPkts (a ++ [(p, 0)]) = sentPkts a := by
  simp [sentPkts]

theorem sentPkts_snoc1 (a : List Chunk) (p : Pkt) : sentPkts (a ++ [(p, 1)]) = sentPkts a ++ [p] := by
  simp [sentPkts]

theorem sentPkts_frames (ps : List Pkt) : sentPkts (frames ps) = ps := by
  induction ps with
  | nil => rfl
  | cons p ps ih =>
    have : frames (p :: ps) = [(p, 0), (p, 1)] ++ frames ps := by simp [frames]
    rw [this, sentPkts_append, ih]; simp [sentPkts]

/-! ### Case analysis of a step -/

/-- Case analysis of `hs : step cfg s t = some s'`: one goal per branch of the model with `s'`
replaced by the explicit successor state; `hpc`/`htd` name the facts about the stepping thread's
program counter and remaining program. -/
macro "step_cases" hs:ident hpc:ident htd:ident : tactic => `(tactic| (
  unfold step at $hs:ident
  generalize $htd:ident : (Sys.thr _ _).todo = todo at $hs:ident
  generalize $hpc:ident : (Sys.thr _ _).pc = pc at $hs:ident
  rcases pc with pc | ⟨pc, n⟩ <;> cases pc
  case' user.idle => rcases todo with _ | ⟨(p | p | imm), rest⟩
  all_goals dsimp only [stepUser, stepNet, afterFlush, afterSti] at $hs:ident
  all_goals repeat' split at $hs:ident
  all_goals first
    | (cases $hs:ident; done)
    | (simp only [Option.some.injEq] at $hs:ident; subst $hs:ident)))

/-! ### The lock invariant -/

structure LockInv (s : Sys) : Prop where
  /-- exactly the lock owner is inside a `with lock:` block -/
  crit_owner : ∀ t, (s.thr t).pc.crit = true ↔ s.owner = some t
  /-- user programs and the networking thread never nest acquisitions -/
  depth_ok : s.depth = if s.owner = none then 0 else 1
  /-- only thread 0 runs the networking-thread program -/
  net_zero : ∀ t pc n, (s.thr t).pc = .net pc n → t = 0
  /-- `networking_thread` is cleared only by the networking thread's last `rel` -/
  nt_slot : s.ntSlot = false → ∀ pc n, (s.thr 0).pc = .net pc n → pc = .zEnd ∨ pc = .done
  /-- thread 0 does run the networking-thread program -/
  nt_net : ∃ pc n, (s.thr 0).pc = .net pc n
  /-- the networking thread leaves its loop only after seeing (or setting) `interrupt` -/
  nt_exit : ∀ pc n, (s.thr 0).pc = .net pc n → pc.exited = true → s.interrupt = true

theorem lock_step_crit (cfg : Cfg) (s s' : Sys) (t : Tid) (h : LockInv s)
    (hs : step cfg s t = some s') : ∀ u, (s'.thr u).pc.crit = true ↔ s'.owner = some u := by
  have h1 := h.crit_owner
  have h2 := h.depth_ok
  have h1t := h1 t
  step_cases hs hpc htd
  all_goals
    intro u; have h1u := h1 u
    grind [upd, Pc.crit, UPc.crit, NPc.crit, canAcq, ownerAfterRel]

theorem lock_step_depth (cfg : Cfg) (s s' : Sys) (t : Tid) (h : LockInv s)
    (hs : step cfg s t = some s') : s'.depth = if s'.owner = none then 0 else 1 := by
  have h2 := h.depth_ok
  have h1t := h.crit_owner t
  step_cases hs hpc htd
  all_goals grind [Pc.crit, UPc.crit, NPc.crit, canAcq, ownerAfterRel]

theorem lock_step_net_zero (cfg : Cfg) (s s' : Sys) (t : Tid) (h : LockInv s)
    (hs : step cfg s t = some s') : ∀ u pc n, (s'.thr u).pc = .net pc n → u = 0 := by
  have h3 := h.net_zero
  have h3t := h3 t
  step_cases hs hpc htd
  all_goals grind [upd]

theorem lock_step_nt (cfg : Cfg) (s s' : Sys) (t : Tid) (h : LockInv s)
    (hs : step cfg s t = some s') :
    (s'.ntSlot = false → ∀ pc n, (s'.thr 0).pc = .net pc n → pc = .zEnd ∨ pc = .done) ∧
    (∃ pc n, (s'.thr 0).pc = .net pc n) ∧
    (∀ pc n, (s'.thr 0).pc = .net pc n → pc.exited = true → s'.interrupt = true) := by
  have h3t := h.net_zero t
  have h4 := h.nt_slot
  obtain ⟨pc0, n0, h5⟩ := h.nt_net
  have h6 := h.nt_exit
  step_cases hs hpc htd
  all_goals refine ⟨?_, ?_, ?_⟩
  all_goals grind [upd, NPc.exited]

theorem lock_step (cfg : Cfg) (s s' : Sys) (t : Tid) (h : LockInv s)
    (hs : step cfg s t = some s') : LockInv s' :=
  have h4 := lock_step_nt cfg s s' t h hs
  ⟨lock_step_crit cfg s s' t h hs, lock_step_depth cfg s s' t h hs,
   lock_step_net_zero cfg s s' t h hs, h4.1, h4.2.1, h4.2.2⟩

theorem lock_init (progs : List (List Op)) : LockInv (init progs) := by
  refine ⟨?_, rfl, ?_, ?_, ?_, ?_⟩
  · intro t; simp only [init]; split
    · simp [Pc.crit, NPc.crit]
    · split <;> simp [Pc.crit, UPc.crit]
  · intro t pc n; simp only [init]; split
    · intro _; assumption
    · split <;> simp
  · simp [init]
  · exact ⟨.oRdi, 0, by simp [init]⟩
  · intro pc n h; simp [init] at h; rw [← h.1]; simp [NPc.exited]

/-- What a step of a lock holder / non-holder does to `cur`. -/
theorem cur_of_owner {s : Sys} {t : Tid} (h : s.owner = some t) : cur s = (s.thr t).pc := by
  simp [cur, h]

theorem cur_of_free {s : Sys} (h : s.owner = none) : cur s = .user .idle := by
  simp [cur, h]

/-! ### Computing the holder's program counter after a step -/

theorem cur_mk_self (s : Sys) (t : Tid) (q d w so i n pc td l is f) :
    cur ⟨q, some t, d, w, so, i, n, upd s t pc td, l, is, f⟩ = pc := by
  simp [cur, upd]

theorem cur_mk_free (q d w so i n thr l is f) :
    cur ⟨q, none, d, w, so, i, n, thr, l, is, f⟩ = .user .idle := rfl

theorem cur_mk_other (s : Sys) (t : Tid) (hno : s.owner ≠ some t) (q d w so i n pc td l is f) :
    cur ⟨q, s.owner, d, w, so, i, n, upd s t pc td, l, is, f⟩ = cur s := by
  simp only [cur]
  cases ho : s.owner with
  | none => rfl
  | some u =>
    have : u ≠ t := fun h => hno (by rw [ho, h])
    simp [upd, this]

theorem ownerAfterRel_holder (s : Sys) (hd : s.depth = if s.owner = none then 0 else 1) (t : Tid)
    (hown : s.owner = some t) : ownerAfterRel s = none := by
  simp [ownerAfterRel, hd, hown]

theorem free_of_canAcq (s : Sys) (t : Tid) (h : canAcq s t = true) (hno : s.owner ≠ some t) :
    s.owner = none := by
  simp [canAcq] at h; rcases h with h | h
  · exact h
  · exact absurd h hno

/-- After `step_cases`: rewrite `cur s'` in the goal to a concrete program counter (holder or
acquiring thread), to `idle` (release) or to `cur s` (steps of other threads), and record what
`cur s` is.  `h1t : (s.thr t).pc.crit = true ↔ s.owner = some t`, `hd` = `LockInv.depth_ok`. -/
macro "cur_simp" s:ident t:ident h1t:ident hd:ident hpc:ident : tactic => `(tactic| (
  first
  | (have hown : Sys.owner $s = some $t := ($h1t).mp (by rw [$hpc:ident]; rfl)
     have hrel := ownerAfterRel_holder $s $hd $t hown
     have hcur : cur $s = _ := (cur_of_owner hown).trans $hpc
     simp only [hown, hrel, cur_mk_self, cur_mk_free])
  | (have hno : Sys.owner $s ≠ some $t := fun h => by
       have := ($h1t).mpr h; rw [$hpc:ident] at this; cases this
     first
     | (have hfree := free_of_canAcq $s $t (by assumption) hno
        have hcur : cur $s = _ := cur_of_free hfree
        simp only [cur_mk_self])
     | simp only [cur_mk_other $s $t hno])))

end PyCraft.Writers
