import PyCraft.Model.Wire
import PyCraft.Model.Scaled
import PyCraft.Lemmas.VarIntDec
/-!
Helper lemmas for property C02 (primitive wire types): big-endian integers, fixed-width
`struct` codecs, strict prefixes, VarInt headers, the element/array induction, and the exact
arithmetic of `Angle` / `FixedPoint`.
-/
namespace PyCraft

/-! ## big-endian -/

theorem beBytes_length (w n : Nat) : (beBytes w n).length = w := by
  induction w with
  | zero => rfl
  | succ w ih => simp [beBytes, ih]

theorem beValue_lt (bs : Bytes) : beValue bs < 256 ^ bs.length := by
  induction bs with
  | nil => simp [beValue]
  | cons b rest ih =>
    simp only [beValue, List.length_cons, Nat.pow_succ]
    have hb : b.toNat ≤ 255 := by have := b.toNat_lt; omega
    have := Nat.mul_le_mul_right (256 ^ rest.length) hb
    omega

theorem beValue_beBytes (w n : Nat) : beValue (beBytes w n) = n % 256 ^ w := by
  induction w with
  | zero => simp [beBytes, beValue, Nat.mod_one]
  | succ w ih =>
    simp only [beBytes, beValue, beBytes_length, ih]
    rw [u8_ofNat_toNat _ (Nat.mod_lt _ (by omega)), Nat.pow_succ, Nat.mod_mul, Nat.mul_comm, Nat.add_comm]

theorem beBytes_congr (w : Nat) : ∀ n m : Nat, n % 256 ^ w = m % 256 ^ w → beBytes w n = beBytes w m := by
  induction w with
  | zero => intros; rfl
  | succ w ih =>
    intro n m h
    rw [Nat.pow_succ, Nat.mod_mul, Nat.mod_mul] at h
    have hX : 0 < 256 ^ w := Nat.pow_pos (by omega)
    have h1 : n % 256 ^ w = m % 256 ^ w := by
      have := congrArg (· % 256 ^ w) h
      simpa [Nat.add_mul_mod_self_left] using this
    have h2 : n / 256 ^ w % 256 = m / 256 ^ w % 256 := by
      rw [h1] at h
      exact Nat.eq_of_mul_eq_mul_left hX (Nat.add_left_cancel h)
    simp only [beBytes, h2, ih n m h1]

theorem beBytes_beValue (bs : Bytes) : beBytes bs.length (beValue bs) = bs := by
  induction bs with
  | nil => rfl
  | cons b rest ih =>
    simp only [List.length_cons, beBytes, beValue]
    have hX : 0 < 256 ^ rest.length := Nat.pow_pos (by omega)
    have hlt := beValue_lt rest
    have h1 : (b.toNat * 256 ^ rest.length + beValue rest) / 256 ^ rest.length = b.toNat := by
      rw [Nat.mul_comm, Nat.mul_add_div hX, Nat.div_eq_of_lt hlt]; rfl
    have h2 : beBytes rest.length (b.toNat * 256 ^ rest.length + beValue rest) = rest := by
      rw [beBytes_congr rest.length _ (beValue rest) (by rw [Nat.mul_comm, Nat.mul_add_mod]), ih]
    rw [h1, h2, Nat.mod_eq_of_lt b.toNat_lt]
    simp


/-! ## fixed-width integers -/

theorem takeN_append (bs rest : Bytes) : takeN bs.length (bs ++ rest) = .ok (bs, rest) := by
  simp [takeN]

theorem takeN_append' (w : Nat) (bs rest : Bytes) (h : bs.length = w) :
    takeN w (bs ++ rest) = .ok (bs, rest) := by subst h; exact takeN_append bs rest

theorem takeN_short (w : Nat) (p : Bytes) (h : p.length < w) : takeN w p = .error .struct := by
  simp [takeN]; omega

theorem pow256_cast (w : Nat) : ((256 ^ w : Nat) : Int) = (256 : Int) ^ w := by
  simp [Int.natCast_pow]

theorem pow256_pos (w : Nat) : 0 < (256 : Int) ^ w := Int.pow_pos (by omega)

theorem packU_spec (w : Nat) (v : Int) (h : 0 ≤ v ∧ v < (256 : Int) ^ w) :
    ∃ bs, packU w v = .ok bs ∧ bs.length = w ∧ (beValue bs : Int) = v % (256 : Int) ^ w := by
  refine ⟨beBytes w v.toNat, by simp [packU, h], beBytes_length _ _, ?_⟩
  rw [beValue_beBytes, Int.natCast_emod, pow256_cast, Int.toNat_of_nonneg h.1]

theorem packS_spec (w : Nat) (v : Int) (h : -((256 : Int) ^ w / 2) ≤ v ∧ v < (256 : Int) ^ w / 2) :
    ∃ bs, packS w v = .ok bs ∧ bs.length = w ∧ (beValue bs : Int) = v % (256 : Int) ^ w := by
  refine ⟨beBytes w (v % (256 : Int) ^ w).toNat, by simp [packS, h], beBytes_length _ _, ?_⟩
  have hp := pow256_pos w
  have h0 : 0 ≤ v % (256 : Int) ^ w := Int.emod_nonneg _ (by omega)
  rw [beValue_beBytes, Int.natCast_emod, pow256_cast, Int.toNat_of_nonneg h0, Int.emod_emod]

theorem IntT.pack_spec (t : IntT) (v : Int) (h : t.inDom v) :
    ∃ bs, t.pack v = .ok bs ∧ bs.length = t.width ∧ (beValue bs : Int) = v % (256 : Int) ^ t.width := by
  unfold IntT.inDom at h
  unfold IntT.pack
  split
  · next hs => rw [if_pos hs] at h; exact packS_spec _ _ h
  · next hs => rw [if_neg hs] at h; exact packU_spec _ _ h

theorem IntT.pack_err (t : IntT) (v : Int) (h : ¬ t.inDom v) : t.pack v = .error .struct := by
  unfold IntT.inDom at h
  unfold IntT.pack
  split
  · next hs => rw [if_pos hs] at h; simp [packS, h]
  · next hs => rw [if_neg hs] at h; simp [packU, h]

theorem IntT.unpack_short (t : IntT) (p : Bytes) (h : p.length < t.width) :
    t.unpack p = .error .struct := by
  unfold IntT.unpack unpackS unpackU
  split <;> simp [takeN_short _ _ h, bind, Except.bind]

theorem IntT.unpack_spec (t : IntT) (bs rest : Bytes) (h : bs.length = t.width) :
    ∃ v, t.unpack (bs ++ rest) = .ok (v, rest) ∧ t.inDom v ∧
      v % (256 : Int) ^ t.width = (beValue bs : Int) ∧
      ∀ v', t.inDom v' → v' % (256 : Int) ^ t.width = (beValue bs : Int) → v' = v := by
  have hlt := beValue_lt bs
  rw [h] at hlt
  have hlt' : (beValue bs : Int) < (256 : Int) ^ t.width := by
    rw [← pow256_cast]; exact Int.ofNat_lt.mpr hlt
  have h0 : (0 : Int) ≤ beValue bs := Int.natCast_nonneg _
  unfold IntT.unpack unpackS unpackU IntT.inDom
  simp only [takeN_append' _ _ _ h, bind, Except.bind, pure, Except.pure]
  generalize (beValue bs : Int) = u at *
  clear hlt
  cases t <;> simp [IntT.signed, IntT.width] at hlt' ⊢ <;> (try split) <;>
    (refine ⟨?_, ?_, ?_⟩ <;> intros <;> omega)


theorem IntT.unpack_pack (t : IntT) (v : Int) (h : t.inDom v) :
    ∃ bs, t.pack v = .ok bs ∧ bs.length = t.width ∧ ∀ rest, t.unpack (bs ++ rest) = .ok (v, rest) := by
  obtain ⟨bs, h1, h2, h3⟩ := t.pack_spec v h
  refine ⟨bs, h1, h2, fun rest => ?_⟩
  obtain ⟨v', e1, _, _, e4⟩ := t.unpack_spec bs rest h2
  rw [e1, e4 v h h3.symm]

theorem IntT.width_pos (t : IntT) : 0 < t.width := by cases t <;> decide

/-! ## strict prefixes -/

theorem prefix_length_lt {p bs : Bytes} (h : p <+: bs) (hne : p ≠ bs) : p.length < bs.length := by
  rcases Nat.lt_or_ge p.length bs.length with h' | h'
  · exact h'
  · exact absurd (List.IsPrefix.eq_of_length_le h h') hne

theorem strict_prefix_append {p a b : Bytes} (h : p <+: a ++ b) (hne : p ≠ a ++ b) :
    (p <+: a ∧ p ≠ a) ∨ ∃ q, p = a ++ q ∧ q <+: b ∧ q ≠ b := by
  rcases List.prefix_or_prefix_of_prefix h (List.prefix_append a b) with h1 | h1
  · by_cases hpa : p = a
    · right
      refine ⟨[], by simp [hpa], List.nil_prefix, ?_⟩
      intro hb; apply hne; rw [hpa, ← hb]; simp
    · exact Or.inl ⟨h1, hpa⟩
  · right
    obtain ⟨q, rfl⟩ := h1
    exact ⟨q, rfl, (List.prefix_append_right_inj a).mp h, fun hq => hne (by rw [hq])⟩

/-! ## headers: a self-delimiting length/integer field in front of a body -/

/-- `h` is the encoding of header value `n` for the reader `dec`: non-empty, read back exactly with
any continuation, and every strict prefix makes the reader fail. -/
def Hdr {α : Type} (dec : Bytes → Except Err (α × Bytes)) (h : Bytes) (n : α) : Prop :=
  h ≠ [] ∧ (∀ rest, dec (h ++ rest) = .ok (n, rest)) ∧
    ∀ p, p <+: h → p ≠ h → ∃ e, dec p = .error e

theorem decVarIntAux_prefix_err (mx : Nat) (n : Nat) : ∀ (be acc : Nat) (p : Bytes),
    p <+: encVarInt n → p ≠ encVarInt n → ∃ e, decVarIntAux mx be acc p = .error e := by
  induction n using Nat.strongRecOn with
  | _ n ih =>
    intro be acc p hp hne
    cases p with
    | nil => exact ⟨.eof, rfl⟩
    | cons c p' =>
      by_cases h : n < 128
      · rw [encVarInt, dif_pos h] at hp hne
        rw [List.cons_prefix_cons] at hp
        obtain ⟨rfl, hp'⟩ := hp
        have : p' = [] := List.prefix_nil.mp hp'
        subst this
        exact absurd rfl hne
      · rw [encVarInt, dif_neg h] at hp hne
        rw [List.cons_prefix_cons] at hp
        obtain ⟨rfl, hp'⟩ := hp
        have hne' : p' ≠ encVarInt (n / 128) := fun e => hne (by rw [e])
        simp only [decVarIntAux]
        rw [u8_ofNat_toNat _ (by omega)]
        rw [if_neg (and80_ge _ (by omega) (by omega))]
        split
        · exact ⟨_, rfl⟩
        · exact ih (n / 128) (by omega) _ _ p' hp' hne'

theorem hdr_varint (mx n : Nat) (h : n < 2 ^ (7 * (mx + 1))) : Hdr (decVarInt mx) (encVarInt n) n := by
  refine ⟨enc_ne_nil n, fun rest => ?_, fun p hp hne => ?_⟩
  · have := dec_enc_aux mx n 0 0 rest (by simp) (by simpa using h) (by omega)
    simpa [decVarInt] using this
  · exact decVarIntAux_prefix_err mx n 0 0 p hp hne

theorem hdr_int (t : IntT) (v : Int) (bs : Bytes) (hv : t.inDom v) (hb : t.pack v = .ok bs) :
    Hdr t.unpack bs v := by
  obtain ⟨bs', h1, h2, h3⟩ := t.unpack_pack v hv
  rw [hb] at h1; cases h1
  refine ⟨?_, h3, fun p hp hne => ⟨_, t.unpack_short p ?_⟩⟩
  · intro e; have := t.width_pos; rw [e] at h2; simp at h2; omega
  · rw [← h2]; exact prefix_length_lt hp hne



theorem Hdr.map {α β : Type} {dec : Bytes → Except Err (α × Bytes)} {h : Bytes} {n : α}
    (hh : Hdr dec h n) (f : α → β) (dec' : Bytes → Except Err (β × Bytes))
    (hdec : ∀ bs, dec' bs = (do let (v, r) ← dec bs; pure (f v, r))) : Hdr dec' h (f n) := by
  obtain ⟨h1, h2, h3⟩ := hh
  refine ⟨h1, fun rest => ?_, fun p hp hne => ?_⟩
  · rw [hdec, h2]; rfl
  · obtain ⟨e, he⟩ := h3 p hp hne
    exact ⟨e, by rw [hdec, he]; rfl⟩

/-- a header followed by a body whose reader depends on the header value -/
theorem Hdr.body {α β : Type} {dh : Bytes → Except Err (α × Bytes)}
    (db : α → Bytes → Except Err (β × Bytes)) {h : Bytes} (body : Bytes) {n : α} (x : β)
    (hh : Hdr dh h n)
    (hb1 : ∀ rest, db n (body ++ rest) = .ok (x, rest))
    (hb2 : ∀ p, p <+: body → p ≠ body → ∃ e, db n p = .error e)
    (dec : Bytes → Except Err (β × Bytes))
    (hdec : ∀ bs, dec bs = (do let (n, r) ← dh bs; db n r)) : Hdr dec (h ++ body) x := by
  obtain ⟨h1, h2, h3⟩ := hh
  refine ⟨by simp [h1], fun rest => ?_, fun p hp hne => ?_⟩
  · rw [hdec, List.append_assoc, h2]; exact hb1 rest
  · rcases strict_prefix_append hp hne with ⟨hp', hne'⟩ | ⟨q, rfl, hq, hqne⟩
    · obtain ⟨e, he⟩ := h3 p hp' hne'
      exact ⟨e, by rw [hdec, he]; rfl⟩
    · obtain ⟨e, he⟩ := hb2 q hq hqne
      exact ⟨e, by rw [hdec, h2]; exact he⟩

/-- `v` is an item of the codec `(enc, dec)`: it encodes, and the encoding is a header for `dec`. -/
def Item (enc : Value → Except Err Bytes) (dec : Bytes → Except Err (Value × Bytes)) (v : Value) :
    Prop := ∃ bs, enc v = .ok bs ∧ Hdr dec bs v

theorem items_array (f : Value → Except Err Bytes) (g : Bytes → Except Err (Value × Bytes)) :
    ∀ vs : List Value, (∀ v ∈ vs, Item f g v) →
    ∃ body, encEach f vs = .ok body ∧
      (∀ rest, repeatDec g vs.length (body ++ rest) = .ok (vs, rest)) ∧
      ∀ p, p <+: body → p ≠ body → ∃ e, repeatDec g vs.length p = .error e := by
  intro vs
  induction vs with
  | nil =>
    intro _
    refine ⟨[], rfl, fun rest => rfl, fun p hp hne => ?_⟩
    exact absurd (List.prefix_nil.mp hp) hne
  | cons v vs ih =>
    intro h
    obtain ⟨a, ha, _, ha2, ha3⟩ := h v (List.mem_cons_self)
    obtain ⟨b, hb, hb2, hb3⟩ := ih (fun w hw => h w (List.mem_cons_of_mem _ hw))
    refine ⟨a ++ b, by simp [encEach, ha, hb, bind, Except.bind, pure, Except.pure],
      fun rest => ?_, fun p hp hne => ?_⟩
    · simp only [List.length_cons, repeatDec, List.append_assoc, ha2, bind, Except.bind, hb2]
      rfl
    · rcases strict_prefix_append hp hne with ⟨hp', hne'⟩ | ⟨q, rfl, hq, hqne⟩
      · obtain ⟨e, he⟩ := ha3 p hp' hne'
        exact ⟨e, by simp only [List.length_cons, repeatDec, he, bind, Except.bind]⟩
      · obtain ⟨e, he⟩ := hb3 q hq hqne
        exact ⟨e, by simp only [List.length_cons, repeatDec, ha2, he, bind, Except.bind]⟩

/-- domain of a length prefix (the first conjunct of `WellTyped` for arrays) -/
def LenT.inDom : LenT → Nat → Prop
  | .varint, n => n < 2 ^ 31 | .i32, n => n < 2 ^ 31 | .i16, n => n < 2 ^ 15 | .u8, n => n < 2 ^ 8

theorem hdr_len (lt : LenT) (n : Nat) (h : lt.inDom n) :
    ∃ hb, encLen lt n = .ok hb ∧ Hdr (decLen lt) hb n := by
  cases lt
  · exact ⟨_, rfl, hdr_varint 5 n (by simp [LenT.inDom] at h; omega)⟩
  · have hd : IntT.i32.inDom (n : Int) := by
      simp [LenT.inDom] at h; simp [IntT.inDom, IntT.signed, IntT.width]; omega
    obtain ⟨bs, hb, _⟩ := IntT.i32.pack_spec n hd
    refine ⟨bs, hb, ?_⟩
    have := (hdr_int _ _ _ hd hb).map Int.toNat (decLen .i32) (fun _ => rfl)
    simpa using this
  · have hd : IntT.i16.inDom (n : Int) := by
      simp [LenT.inDom] at h; simp [IntT.inDom, IntT.signed, IntT.width]; omega
    obtain ⟨bs, hb, _⟩ := IntT.i16.pack_spec n hd
    refine ⟨bs, hb, ?_⟩
    have := (hdr_int _ _ _ hd hb).map Int.toNat (decLen .i16) (fun _ => rfl)
    simpa using this
  · have hd : IntT.u8.inDom (n : Int) := by
      simp [LenT.inDom] at h; simp [IntT.inDom, IntT.signed, IntT.width]; omega
    obtain ⟨bs, hb, _⟩ := IntT.u8.pack_spec n hd
    refine ⟨bs, hb, ?_⟩
    have := (hdr_int _ _ _ hd hb).map Int.toNat (decLen .u8) (fun _ => rfl)
    simpa using this



/-! ## the element / array induction -/

theorem utf8_roundtrip (s : String) : utf8Decode (utf8 s) = some s := by
  unfold utf8Decode utf8
  have : s.toByteArray.data.toList.toByteArray = s.toByteArray := by
    apply ByteArray.ext; simp [List.data_toByteArray]
  rw [this]
  simp [String.fromUTF8?, s.isValidUTF8]
  rfl

/-- what the modules modelling the custom types must establish about their codec -/
structure CustomLaw (cc : CustomCodec) (cw : CustomT → Value → Prop) : Prop where
  rt : ∀ c v rest, cw c v →
    ∃ bs, cc.enc c v = .ok bs ∧ bs ≠ [] ∧ cc.dec c (bs ++ rest) = .ok (v, rest)
  prefixErr : ∀ c v bs, cw c v → cc.enc c v = .ok bs →
    ∀ p, p <+: bs → p ≠ bs → ∃ e, cc.dec c p = .error e

/-- the codec with no custom types: every use raises `TypeError` -/
def noCustomCodec : CustomCodec where
  enc := fun _ _ => .error .type
  dec := fun _ _ => .error .type

/-- no value is in the domain of a custom type when none is plugged in -/
def noCustomDom : CustomT → Value → Prop := fun _ _ => False

theorem noCustomLaw : CustomLaw noCustomCodec noCustomDom :=
  ⟨fun _ _ _ h => h.elim, fun _ _ _ h => h.elim⟩

theorem item_custom {cc cw} (law : CustomLaw cc cw) (c : CustomT) (v : Value) (h : cw c v) :
    Item (cc.enc c) (cc.dec c) v := by
  obtain ⟨bs, h1, h2, _⟩ := law.rt c v [] h
  refine ⟨bs, h1, h2, fun rest => ?_, law.prefixErr c v bs h h1⟩
  obtain ⟨bs', h1', _, h3'⟩ := law.rt c v rest h
  rw [h1] at h1'; cases h1'; exact h3'

theorem item_int (t : IntT) (v : Int) (h : t.inDom v) (enc : Value → Except Err Bytes)
    (dec : Bytes → Except Err (Value × Bytes)) (henc : enc (.int v) = t.pack v)
    (hdec : ∀ bs, dec bs = (do let (v, r) ← t.unpack bs; pure (.int v, r))) :
    Item enc dec (.int v) := by
  obtain ⟨bs, hb, _⟩ := t.pack_spec v h
  exact ⟨bs, by rw [henc, hb], (hdr_int t v bs h hb).map Value.int dec hdec⟩

theorem item_varint (mx : Nat) (v : Int) (h0 : 0 ≤ v) (h : v.toNat < 2 ^ (7 * (mx + 1)))
    (enc : Value → Except Err Bytes)
    (dec : Bytes → Except Err (Value × Bytes)) (henc : enc (.int v) = encVarIntZ v)
    (hdec : ∀ bs, dec bs = (do let (n, r) ← decVarInt mx bs; pure (.int n, r))) :
    Item enc dec (.int v) := by
  refine ⟨encVarInt v.toNat, by rw [henc]; simp [encVarIntZ]; omega, ?_⟩
  have := (hdr_varint mx v.toNat h).map (fun n : Nat => Value.int n) dec hdec
  simpa [Int.toNat_of_nonneg h0] using this

theorem item_bool (cc : CustomCodec) (b : Bool) :
    Item (encode cc .bool) (decode cc .bool) (.bool b) := by
  refine ⟨_, rfl, by simp, fun rest => ?_, fun p hp hne => ?_⟩
  · cases b <;> simp [decode, takeN, bind, Except.bind, pure, Except.pure]
  · have : p = [] := by
      have := prefix_length_lt hp hne
      rw [List.length_singleton] at this
      exact List.eq_nil_of_length_eq_zero (by omega)
    subst this
    exact ⟨.struct, rfl⟩

theorem item_uuid (cc : CustomCodec) (b : Bytes) (h : b.length = 16) :
    Item (encode cc .uuid) (decode cc .uuid) (.bytes b) := by
  refine ⟨b, by simp [encode, h], ?_, fun rest => ?_, fun p hp hne => ?_⟩
  · intro e; rw [e] at h; simp at h
  · have h1 : List.take 16 (b ++ rest) = b := by rw [← h]; simp
    have h2 : List.drop 16 (b ++ rest) = rest := by rw [← h]; simp
    have h3 : 16 ≤ (b ++ rest).length := by simp; omega
    rw [decode, if_pos h3, h1, h2]
  · have := prefix_length_lt hp hne
    exact ⟨.value, by simp [decode]; omega⟩

theorem item_string (cc : CustomCodec) (s : String) (h : (utf8 s).length < 2 ^ 31) :
    Item (encode cc .string) (decode cc .string) (.str s) := by
  refine ⟨_, rfl, ?_⟩
  refine (hdr_varint 5 (utf8 s).length (by omega)).body
    (fun n r => if r.length < n then .error .eof else
      match utf8Decode (r.take n) with
      | some s => pure (Value.str s, r.drop n)
      | none => .error .decode) (utf8 s) (.str s) ?_ ?_ _ (fun _ => rfl)
  · intro rest
    simp [utf8_roundtrip, pure, Except.pure]
  · intro p hp hne
    have := prefix_length_lt hp hne
    exact ⟨.eof, by simp [this]⟩

theorem item_bytesVarint (cc : CustomCodec) (b : Bytes) (h : b.length < 2 ^ 31) :
    Item (encode cc .bytesVarint) (decode cc .bytesVarint) (.bytes b) := by
  refine ⟨_, rfl, ?_⟩
  refine (hdr_varint 5 b.length (by omega)).body
    (fun n r => do let (h, r') ← takeN n r; pure (Value.bytes h, r')) b (.bytes b) ?_ ?_ _ (fun _ => rfl)
  · intro rest
    simp [takeN_append, bind, Except.bind, pure, Except.pure]
  · intro p hp hne
    have := prefix_length_lt hp hne
    exact ⟨.struct, by simp [takeN_short _ _ this, bind, Except.bind]⟩

theorem item_bytesShort (cc : CustomCodec) (b : Bytes) (h : b.length < 2 ^ 15) :
    Item (encode cc .bytesShort) (decode cc .bytesShort) (.bytes b) := by
  have hd : IntT.i16.inDom (b.length : Int) := by
    simp [IntT.inDom, IntT.signed, IntT.width]; omega
  obtain ⟨hb, hp, _⟩ := IntT.i16.pack_spec _ hd
  refine ⟨hb ++ b, by rw [encode, hp]; rfl, ?_⟩
  refine (hdr_int _ _ _ hd hp).body
    (fun (n : Int) r => if n < 0 then .error .struct else do
      let (h, r') ← takeN n.toNat r; pure (Value.bytes h, r')) b (.bytes b) ?_ ?_ _ (fun bs => by rw [decode])
  · intro rest
    have : ¬ ((b.length : Int) < 0) := by omega
    simp [this, takeN_append, bind, Except.bind, pure, Except.pure]
  · intro p hp hne
    have := prefix_length_lt hp hne
    have h0 : ¬ ((b.length : Int) < 0) := by omega
    exact ⟨.struct, by simp [h0, takeN_short _ _ this, bind, Except.bind]⟩

theorem wellTyped_array {cw lt t vs} (h : WellTyped cw (.array lt t) (.list vs)) :
    lt.inDom vs.length ∧ ∀ v ∈ vs, WellTyped cw t v := by
  cases lt <;> simpa [WellTyped, LenT.inDom] using h

/-- every in-domain value of a self-delimiting type is an item of `(encode, decode)` -/
theorem item_main {cc cw} (law : CustomLaw cc cw) : ∀ (t : WType), t.selfDelimiting = true →
    ∀ v, WellTyped cw t v → Item (encode cc t) (decode cc t) v := by
  intro t
  induction t with
  | bool => intro _ v hw; cases v <;> simp [WellTyped] at hw; exact item_bool cc _
  | int t =>
    intro _ v hw; cases v <;> simp [WellTyped] at hw
    exact item_int t _ hw _ _ rfl (fun _ => rfl)
  | varint =>
    intro _ v hw; cases v <;> simp [WellTyped] at hw
    exact item_varint 5 _ hw.1 (by omega) _ _ rfl (fun _ => rfl)
  | varlong =>
    intro _ v hw; cases v <;> simp [WellTyped] at hw
    exact item_varint 10 _ hw.1 (by omega) _ _ rfl (fun _ => rfl)
  | string => intro _ v hw; cases v <;> simp [WellTyped] at hw; exact item_string cc _ hw
  | uuid => intro _ v hw; cases v <;> simp [WellTyped] at hw; exact item_uuid cc _ hw
  | angle =>
    intro _ v hw; cases v <;> simp [WellTyped] at hw
    exact item_int .u8 _ (by simp [IntT.inDom, IntT.signed, IntT.width]; omega) _ _ rfl (fun _ => rfl)
  | fixed base bits =>
    intro _ v hw; cases v <;> simp [WellTyped] at hw
    exact item_int base _ hw _ _ rfl (fun _ => rfl)
  | bytesVarint => intro _ v hw; cases v <;> simp [WellTyped] at hw; exact item_bytesVarint cc _ hw
  | bytesShort => intro _ v hw; cases v <;> simp [WellTyped] at hw; exact item_bytesShort cc _ hw
  | trailing => intro hs; simp [WType.selfDelimiting] at hs
  | array lt t ih =>
    intro hs v hw
    cases v <;> try (simp [WellTyped] at hw; done)
    rename_i vs
    obtain ⟨hl, hv⟩ := wellTyped_array hw
    have hs' : t.selfDelimiting = true := by simpa [WType.selfDelimiting] using hs
    obtain ⟨hb, hb1, hb2⟩ := hdr_len lt vs.length hl
    obtain ⟨body, e1, e2, e3⟩ := items_array (encode cc t) (decode cc t) vs
      (fun v hm => ih hs' v (hv v hm))
    refine ⟨hb ++ body, by simp [encode, hb1, e1, bind, Except.bind, pure, Except.pure], ?_⟩
    refine hb2.body (fun n r => do let (vs, r') ← repeatDec (decode cc t) n r; pure (Value.list vs, r'))
      body (.list vs) ?_ ?_ _ (fun _ => rfl)
    · intro rest; simp [e2, bind, Except.bind, pure, Except.pure]
    · intro p hp hne
      obtain ⟨e, he⟩ := e3 p hp hne
      exact ⟨e, by simp [he, bind, Except.bind]⟩
  | custom c =>
    intro _ v hw
    have hw' : cw c v := by cases v <;> simpa [WellTyped] using hw
    have := item_custom law c v hw'
    obtain ⟨bs, h1, h2⟩ := this
    exact ⟨bs, by cases v <;> simpa [encode] using h1, h2.1, fun rest => by
      rw [decode]; exact h2.2.1 rest, fun p hp hne => by rw [decode]; exact h2.2.2 p hp hne⟩

theorem encEach_total (f : Value → Except Err Bytes) : ∀ vs : List Value,
    (∀ v ∈ vs, ∃ bs, f v = .ok bs) → ∃ bs, encEach f vs = .ok bs := by
  intro vs
  induction vs with
  | nil => intro _; exact ⟨[], rfl⟩
  | cons v vs ih =>
    intro h
    obtain ⟨a, ha⟩ := h v List.mem_cons_self
    obtain ⟨b, hb⟩ := ih (fun w hw => h w (List.mem_cons_of_mem _ hw))
    exact ⟨a ++ b, by simp [encEach, ha, hb, bind, Except.bind, pure, Except.pure]⟩

/-- the body of an array is the concatenation of the element encodings, in order -/
theorem encEach_flatten (f : Value → Except Err Bytes) (g : Value → Bytes) : ∀ vs : List Value,
    (∀ v ∈ vs, f v = .ok (g v)) → encEach f vs = .ok (vs.map g).flatten := by
  intro vs
  induction vs with
  | nil => intro _; rfl
  | cons v vs ih =>
    intro h
    have ha := h v List.mem_cons_self
    have hb := ih (fun w hw => h w (List.mem_cons_of_mem _ hw))
    simp [encEach, ha, hb, bind, Except.bind, pure, Except.pure]

theorem encode_total {cc cw} (law : CustomLaw cc cw) : ∀ (t : WType) (v : Value),
    WellTyped cw t v → ∃ bs, encode cc t v = .ok bs := by
  intro t
  induction t with
  | trailing => intro v hw; cases v <;> simp [WellTyped] at hw; exact ⟨_, rfl⟩
  | array lt t ih =>
    intro v hw
    cases v <;> try (simp [WellTyped] at hw; done)
    rename_i vs
    obtain ⟨hl, hv⟩ := wellTyped_array hw
    obtain ⟨hb, hb1, _⟩ := hdr_len lt vs.length hl
    obtain ⟨body, e1⟩ := encEach_total (encode cc t) vs (fun v hm => ih v (hv v hm))
    exact ⟨hb ++ body, by simp [encode, hb1, e1, bind, Except.bind, pure, Except.pure]⟩
  | _ =>
    intro v hw
    obtain ⟨bs, h, _⟩ := item_main law _ rfl v hw
    exact ⟨bs, h⟩

/-! ## exact arithmetic of `Angle` and `FixedPoint` -/

theorem roundHalfEven_cases (N D : Int) :
    (roundHalfEven N D = N / D ∧ (2 * (N % D) < D ∨ (2 * (N % D) = D ∧ (N / D) % 2 = 0))) ∨
    (roundHalfEven N D = N / D + 1 ∧ (2 * (N % D) > D ∨ (2 * (N % D) = D ∧ (N / D) % 2 ≠ 0))) := by
  unfold roundHalfEven
  simp only
  split
  · left; exact ⟨rfl, Or.inl ‹_›⟩
  · split
    · right; exact ⟨rfl, Or.inl ‹_›⟩
    · have : 2 * (N % D) = D := by omega
      split
      · left; exact ⟨rfl, Or.inr ⟨this, ‹_›⟩⟩
      · right; exact ⟨rfl, Or.inr ⟨this, ‹_›⟩⟩

theorem roundHalfEven_near (N D : Int) (hD : 0 < D) :
    -D ≤ 2 * roundHalfEven N D * D - 2 * N ∧ 2 * roundHalfEven N D * D - 2 * N ≤ D := by
  have hdm := Int.emod_add_mul_ediv N D
  have h0 := Int.emod_nonneg N (by omega : D ≠ 0)
  have h1 := Int.emod_lt_of_pos N hD
  rcases roundHalfEven_cases N D with ⟨e, h⟩ | ⟨e, h⟩
  · rw [e]
    have : 2 * (N / D) * D = 2 * (D * (N / D)) := by rw [Int.mul_assoc, Int.mul_comm (N / D) D]
    rw [this]
    omega
  · rw [e]
    have : 2 * (N / D + 1) * D = 2 * (D * (N / D)) + 2 * D := by
      rw [Int.mul_assoc, Int.add_mul, Int.mul_add, Int.mul_comm (N / D) D]; simp
    rw [this]
    omega

theorem roundHalfEven_tie (N D : Int) (h : 2 * (N % D) = D) :
    roundHalfEven N D % 2 = 0 := by
  rcases roundHalfEven_cases N D with ⟨e, h'⟩ | ⟨e, h'⟩ <;> rw [e] <;> omega

/-- the un-reduced rounding of `Angle.send` lies in `[0, 256]` — 256 included -/
theorem angle_raw_range (p q : Int) (hq : 0 < q) :
    0 ≤ roundHalfEven (256 * (p % (360 * q))) (360 * q) ∧
    roundHalfEven (256 * (p % (360 * q))) (360 * q) ≤ 256 := by
  have hD : 0 < 360 * q := by omega
  have h0 := Int.emod_nonneg p (by omega : 360 * q ≠ 0)
  have h1 := Int.emod_lt_of_pos p hD
  generalize p % (360 * q) = r at *
  have hf0 : 0 ≤ 256 * r / (360 * q) := Int.ediv_nonneg (by omega) (by omega)
  have hf1 : 256 * r / (360 * q) < 256 := Int.ediv_lt_of_lt_mul hD (by omega)
  rcases roundHalfEven_cases (256 * r) (360 * q) with ⟨e, _⟩ | ⟨e, _⟩ <;> rw [e] <;> omega

theorem angleStep_range (p q : Int) : 0 ≤ angleStep p q ∧ angleStep p q < 256 := by
  unfold angleStep; omega

theorem angle_near (p q : Int) (hq : 0 < q) :
    ∃ k : Int, (k = 0 ∨ (k = 1 ∧ angleStep p q = 0)) ∧
      -(360 * q) ≤ 2 * (360 * (angleStep p q + 256 * k) * q - 256 * (p % (360 * q))) ∧
      2 * (360 * (angleStep p q + 256 * k) * q - 256 * (p % (360 * q))) ≤ 360 * q := by
  have hD : 0 < 360 * q := by omega
  obtain ⟨r0, r1⟩ := angle_raw_range p q hq
  obtain ⟨n0, n1⟩ := roundHalfEven_near (256 * (p % (360 * q))) (360 * q) hD
  unfold angleStep
  generalize roundHalfEven (256 * (p % (360 * q))) (360 * q) = u at *
  generalize p % (360 * q) = r at *
  by_cases hu : u = 256
  · refine ⟨1, Or.inr ⟨rfl, by omega⟩, ?_⟩
    have : u % 256 + 256 * 1 = u := by omega
    rw [this]
    constructor <;> grind
  · refine ⟨0, Or.inl rfl, ?_⟩
    have : u % 256 + 256 * 0 = u := by omega
    rw [this]
    constructor <;> grind

theorem fixed_tdiv (a q : Int) (hq : 0 < q) :
    (0 ≤ a → 0 ≤ a.tdiv q ∧ a.tdiv q * q ≤ a ∧ a < a.tdiv q * q + q) ∧
    (a ≤ 0 → a.tdiv q ≤ 0 ∧ a ≤ a.tdiv q * q ∧ a.tdiv q * q - q < a) := by
  have key : ∀ b : Int, 0 ≤ b → 0 ≤ b.tdiv q ∧ b.tdiv q * q ≤ b ∧ b < b.tdiv q * q + q := by
    intro b hb
    have h1 := Int.tmod_add_mul_tdiv b q
    have h2 := Int.tmod_nonneg q hb
    have h3 := Int.tmod_lt_of_pos b hq
    have h4 : 0 ≤ b.tdiv q := Int.tdiv_nonneg hb (by omega)
    rw [Int.mul_comm q] at h1
    omega
  refine ⟨key a, fun ha => ?_⟩
  have := key (-a) (by omega)
  rw [Int.neg_tdiv, Int.neg_mul] at this
  omega


end PyCraft
