import PyCraft.Lemmas.Writers
/-!
History invariants of `Model/Writers.lean` over the event LOG (`HistInv`): the wire and the queue
as functions of the log, and the shape of the log around the critical section in which a
`disconnect` closes the socket.  Used by `Props/C12Final.lean`.
-/
namespace PyCraft.Writers

abbrev Log := List (Tid × Ev)

/-! ### Reading a log -/

/-- `acq` / `rel`. -/
def Ev.isLock : Ev → Bool
  | .acq | .rel => true
  | _ => false

/-- `pop` / `snd`: a packet leaves the queue, or a chunk reaches the wire. -/
def Ev.isMove : Ev → Bool
  | .pop _ | .snd _ _ => true
  | _ => false

/-- `chk n`: somebody (holding the lock) looked at the length of the queue. -/
def Ev.isChk : Ev → Bool
  | .chk _ => true
  | _ => false

def Ev.apps : Ev → List Pkt
  | .app p => [p]
  | _ => []

def Ev.pops : Ev → List Pkt
  | .pop p => [p]
  | _ => []

def Ev.snds : Ev → List Chunk
  | .snd p c => [(p, c)]
  | _ => []

/-- The packets appended to the queue, in log order. -/
def appsOf (l : Log) : List Pkt := l.flatMap fun e => e.2.apps
/-- The packets popped from the queue, in log order. -/
def popsOf (l : Log) : List Pkt := l.flatMap fun e => e.2.pops
/-- The chunks sent, in log order. -/
def sndsOf (l : Log) : List Chunk := l.flatMap fun e => e.2.snds

/-- Nobody acquires or releases the lock in `l`. -/
def LockFree (l : Log) : Prop := ∀ e ∈ l, e.2.isLock = false
/-- Nothing is popped and nothing is sent in `l`. -/
def NoMove (l : Log) : Prop := ∀ e ∈ l, e.2.isMove = false
/-- Nobody looks at the queue length in `l`. -/
def NoChk (l : Log) : Prop := ∀ e ∈ l, e.2.isChk = false
/-- No `cls` and no `fail` in `l`. -/
def NoDead (l : Log) : Prop := ∀ e ∈ l, e.2 ≠ .cls ∧ e.2 ≠ .fail
/-- No `cls` in `l`. -/
def NoCls (l : Log) : Prop := ∀ e ∈ l, e.2 ≠ .cls

instance (l : Log) : Decidable (LockFree l) := by unfold LockFree; infer_instance
instance (l : Log) : Decidable (NoMove l) := by unfold NoMove; infer_instance
instance (l : Log) : Decidable (NoChk l) := by unfold NoChk; infer_instance
instance (l : Log) : Decidable (NoDead l) := by unfold NoDead; infer_instance
instance (l : Log) : Decidable (NoCls l) := by unfold NoCls; infer_instance

/-- Somebody looked at the queue length in `l`.  For the critical section of a `disconnect`
(`closer_kind`): the disconnect is graceful (it runs the flush loop). -/
def flushes (l : Log) : Bool := l.any fun e => e.2.isChk

@[simp] theorem appsOf_nil : appsOf [] = [] := rfl
@[simp] theorem popsOf_nil : popsOf [] = [] := rfl
@[simp] theorem sndsOf_nil : sndsOf [] = [] := rfl
theorem appsOf_append (a b : Log) : appsOf (a ++ b) = appsOf a ++ appsOf b := by simp [appsOf]
theorem popsOf_append (a b : Log) : popsOf (a ++ b) = popsOf a ++ popsOf b := by simp [popsOf]
theorem sndsOf_append (a b : Log) : sndsOf (a ++ b) = sndsOf a ++ sndsOf b := by simp [sndsOf]
theorem appsOf_cons (e : Tid × Ev) (b : Log) : appsOf (e :: b) = e.2.apps ++ appsOf b := by
  simp [appsOf]
theorem popsOf_cons (e : Tid × Ev) (b : Log) : popsOf (e :: b) = e.2.pops ++ popsOf b := by
  simp [popsOf]
theorem sndsOf_cons (e : Tid × Ev) (b : Log) : sndsOf (e :: b) = e.2.snds ++ sndsOf b := by
  simp [sndsOf]

theorem mem_appsOf (l : Log) (p : Pkt) : p ∈ appsOf l ↔ ∃ u, (u, Ev.app p) ∈ l := by
  simp only [appsOf, List.mem_flatMap]
  constructor
  · rintro ⟨⟨u, e⟩, he, hp⟩
    cases e <;> simp [Ev.apps] at hp
    subst hp; exact ⟨u, he⟩
  · rintro ⟨u, hu⟩; exact ⟨_, hu, by simp [Ev.apps]⟩

theorem mem_popsOf (l : Log) (p : Pkt) : p ∈ popsOf l ↔ ∃ u, (u, Ev.pop p) ∈ l := by
  simp only [popsOf, List.mem_flatMap]
  constructor
  · rintro ⟨⟨u, e⟩, he, hp⟩
    cases e <;> simp [Ev.pops] at hp
    subst hp; exact ⟨u, he⟩
  · rintro ⟨u, hu⟩; exact ⟨_, hu, by simp [Ev.pops]⟩

theorem mem_sndsOf (l : Log) (c : Chunk) : c ∈ sndsOf l ↔ ∃ u, (u, Ev.snd c.1 c.2) ∈ l := by
  simp only [sndsOf, List.mem_flatMap]
  constructor
  · rintro ⟨⟨u, e⟩, he, hp⟩
    cases e <;> simp [Ev.snds] at hp
    subst hp; exact ⟨u, he⟩
  · rintro ⟨u, hu⟩; exact ⟨_, hu, by simp [Ev.snds]⟩

theorem NoMove.pops {l : Log} (h : NoMove l) : popsOf l = [] := by
  simp only [popsOf, List.flatMap_eq_nil_iff]
  intro e he; have := h e he
  revert this; cases e.2 <;> simp [Ev.isMove, Ev.pops]

theorem NoMove.snds {l : Log} (h : NoMove l) : sndsOf l = [] := by
  simp only [sndsOf, List.flatMap_eq_nil_iff]
  intro e he; have := h e he
  revert this; cases e.2 <;> simp [Ev.isMove, Ev.snds]

theorem NoMove.append {a b : Log} (ha : NoMove a) (hb : NoMove b) : NoMove (a ++ b) := by
  intro e he; rcases List.mem_append.mp he with h | h
  · exact ha e h
  · exact hb e h

theorem NoChk.not_flushes {l : Log} (h : NoChk l) : flushes l = false := by
  simp only [flushes, List.any_eq_false]
  intro e he; simp [h e he]

/-! ### What one step does, as seen by the history invariant -/

/-- A step of a thread that does not hold the lock: it acquires the free lock, or it is one of
`app`, `rdi`, `sel`, `end` and leaves lock, holder and socket alone. -/
def FactsOut (s s' : Sys) (t : Tid) (ev : Ev) : Prop :=
  s.owner ≠ some t → s'.sockOpen = s.sockOpen ∧
    ((ev = .acq ∧ s.owner = none ∧ s'.owner = some t) ∨
     (s'.owner = s.owner ∧ cur s' = cur s ∧ ev.isLock = false ∧ ev.isMove = false ∧
       ev.isChk = false ∧ ev ≠ .cls ∧ ev ≠ .fail))

/-- An acquisition that starts a `disconnect` records the queue and the wire; with the socket open,
only an immediate disconnect skips the flush loop. -/
def FactsAcq (s s' : Sys) (ev : Ev) : Prop :=
  ev = .acq → ∀ c, (cur s').dctx = some c → c.snap = s.queue ∧ c.wire0 = s.wire ∧
    (s.sockOpen = true → (cur s').flushing = false → c.imm = true)

/-- A step of the lock holder: the release, the close, or a step that keeps lock, socket and
disconnect context. -/
def FactsIn (s s' : Sys) (t : Tid) (ev : Ev) : Prop :=
  s.owner = some t →
    (ev = .rel ∧ s'.owner = none ∧ s'.sockOpen = s.sockOpen) ∨
    (ev = .cls ∧ s.sockOpen = true ∧ s'.sockOpen = false ∧ s'.owner = some t ∧
      (cur s).dctx ≠ none ∧ (cur s).flushing = false) ∨
    (ev.isLock = false ∧ ev ≠ .cls ∧ s'.owner = some t ∧ s'.sockOpen = s.sockOpen ∧
      (cur s').dctx = (cur s).dctx ∧ (s.sockOpen = true → ev ≠ .fail) ∧
      (s.sockOpen = false → ev.isMove = false) ∧
      (ev.isMove = true → (cur s).dctx ≠ none → (cur s').flushing = true) ∧
      (ev.isChk = true → (cur s).dctx ≠ none →
        (cur s).flushing = true ∧ ((cur s').flushing = false → ev = .chk 0 ∧ s.queue = [])) ∧
      (ev.isMove = false → ev.isChk = false → (cur s').flushing = (cur s).flushing))

theorem step_facts_out (cfg : Cfg) (s s' : Sys) (t : Tid) (hl : LockInv s)
    (hs : step cfg s t = some s') : ∃ ev, s'.log = s.log ++ [(t, ev)] ∧ FactsOut s s' t ev := by
  have h1t := hl.crit_owner t
  have hd := hl.depth_ok
  step_cases hs hpc htd
  all_goals refine ⟨_, rfl, ?_⟩
  all_goals simp only [FactsOut]
  all_goals cur_simp s t h1t hd hpc
  all_goals grind [Ev.isLock, Ev.isMove, Ev.isChk]

theorem step_facts_acq (cfg : Cfg) (s s' : Sys) (t : Tid) (hl : LockInv s)
    (hs : step cfg s t = some s') : ∃ ev, s'.log = s.log ++ [(t, ev)] ∧ FactsAcq s s' ev := by
  have h1t := hl.crit_owner t
  have hd := hl.depth_ok
  step_cases hs hpc htd
  all_goals refine ⟨_, rfl, ?_⟩
  all_goals simp only [FactsAcq]
  all_goals cur_simp s t h1t hd hpc
  all_goals grind [Pc.dctx, Pc.flushing]

theorem step_facts_in (cfg : Cfg) (s s' : Sys) (t : Tid) (hl : LockInv s) (hw : WireInv s)
    (hs : step cfg s t = some s') : ∃ ev, s'.log = s.log ++ [(t, ev)] ∧ FactsIn s s' t ev := by
  have h1t := hl.crit_owner t
  have hd := hl.depth_ok
  have w2 := hw.needs_open
  step_cases hs hpc htd
  all_goals refine ⟨_, rfl, ?_⟩
  all_goals simp only [FactsIn]
  all_goals cur_simp s t h1t hd hpc
  all_goals
    grind [Pc.dctx, Pc.flushing, Pc.needsOpen, Ev.isLock, Ev.isMove, Ev.isChk,
      List.eq_nil_of_length_eq_zero]

/-- Everything about one step that the history invariant needs, for ONE event `ev`. -/
theorem step_all (cfg : Cfg) (s s' : Sys) (t : Tid) (hl : LockInv s) (hw : WireInv s)
    (hs : step cfg s t = some s') :
    ∃ ev, s'.log = s.log ++ [(t, ev)] ∧ Eff s s' t ev ∧ FactsOut s s' t ev ∧ FactsAcq s s' ev ∧
      FactsIn s s' t ev ∧ (s.sockOpen = false → s'.sockOpen = false) := by
  obtain ⟨ev, h0, he, -, hc⟩ := step_eff cfg s s' t hl hs
  obtain ⟨e1, h1, f1⟩ := step_facts_out cfg s s' t hl hs
  obtain ⟨e2, h2, f2⟩ := step_facts_acq cfg s s' t hl hs
  obtain ⟨e3, h3, f3⟩ := step_facts_in cfg s s' t hl hw hs
  have : e1 = ev := by rw [h0] at h1; simpa using h1.symm
  subst this
  have : e2 = e1 := by rw [h0] at h2; simpa using h2.symm
  subst this
  have : e3 = e2 := by rw [h0] at h3; simpa using h3.symm
  subst this
  exact ⟨_, h0, he, f1, f2, f3, hc⟩

/-! ### The history invariant -/

/-- The critical section of a `disconnect` by thread `t` (`pre` = the log before its `acq`, `mid` =
the log since) once it is past the flush loop: an immediate disconnect has popped, sent and checked
nothing; a graceful one has seen the queue empty (`chk 0`, at which moment every packet appended so
far had been popped) and nothing was popped, sent or checked since. -/
def PastFlush (imm : Bool) (t : Tid) (pre mid : Log) : Prop :=
  (imm = true → NoMove mid ∧ NoChk mid) ∧
  (imm = false → ∃ flush tail, mid = flush ++ (t, .chk 0) :: tail ∧ NoMove tail ∧ NoChk tail ∧
    appsOf (pre ++ (t, .acq) :: flush) = popsOf (pre ++ (t, .acq) :: flush))

theorem PastFlush.snoc {imm : Bool} {t : Tid} {pre mid : Log} (h : PastFlush imm t pre mid)
    (u : Tid) (ev : Ev) (h1 : ev.isMove = false) (h2 : ev.isChk = false) :
    PastFlush imm t pre (mid ++ [(u, ev)]) := by
  refine ⟨fun hi => ?_, fun hi => ?_⟩
  · obtain ⟨a, b⟩ := h.1 hi
    refine ⟨fun e he => ?_, fun e he => ?_⟩
    · rcases List.mem_append.mp he with he | he
      · exact a e he
      · simp at he; subst he; exact h1
    · rcases List.mem_append.mp he with he | he
      · exact b e he
      · simp at he; subst he; exact h2
  · obtain ⟨flush, tail, e1, a, b, e2⟩ := h.2 hi
    refine ⟨flush, tail ++ [(u, ev)], by rw [e1]; simp, fun e he => ?_, fun e he => ?_, e2⟩
    · rcases List.mem_append.mp he with he | he
      · exact a e he
      · simp at he; subst he; exact h1
    · rcases List.mem_append.mp he with he | he
      · exact b e he
      · simp at he; subst he; exact h2

structure HistInv (s : Sys) : Prop where
  /-- the wire is the sequence of `snd` events -/
  wire_log : s.wire = sndsOf s.log
  /-- the queue is FIFO: appended = popped ++ still queued -/
  queue_log : appsOf s.log = popsOf s.log ++ s.queue
  apps_issued : (appsOf s.log).Sublist s.issued
  /-- a popped packet is sent, or in flight at the lock holder -/
  pops_sent : ∀ p ∈ popsOf s.log, p ∈ sentPkts s.wire ∨ p ∈ (cur s).popped
  /-- while the socket is open nothing has been closed and no write has failed -/
  open_quiet : s.sockOpen = true → NoDead s.log
  /-- a running `disconnect` that found the socket open -/
  disc : s.sockOpen = true → ∀ c, (cur s).dctx = some c →
    ∃ t pre mid, s.owner = some t ∧ s.log = pre ++ (t, .acq) :: mid ∧ LockFree mid ∧
      appsOf pre = popsOf pre ++ c.snap ∧ sndsOf pre = c.wire0 ∧
      ((cur s).flushing = false → PastFlush c.imm t pre mid)
  /-- once the socket is closed, the log has the shape
  `pre ++ acq :: mid ++ cls :: post` around the critical section of the closing `disconnect` -/
  closed : s.sockOpen = false →
    ∃ t pre mid post imm snap, s.log = pre ++ (t, .acq) :: (mid ++ (t, .cls) :: post) ∧
      LockFree mid ∧ NoDead (pre ++ (t, .acq) :: mid) ∧ NoMove post ∧ NoCls post ∧
      appsOf pre = popsOf pre ++ snap ∧ PastFlush imm t pre mid

theorem hist_init (progs : List (List Op)) : HistInv (init progs) := by
  have hc : cur (init progs) = .user .idle := rfl
  refine ⟨rfl, rfl, by simp [init], by simp [init], ?_, ?_, ?_⟩
  · intro _ e he; simp [init] at he
  · intro _ c h; rw [hc] at h; simp [Pc.dctx] at h
  · intro h; simp [init] at h

theorem hist_step_wire (s s' : Sys) (t : Tid) (ev : Ev) (h : HistInv s)
    (hlog : s'.log = s.log ++ [(t, ev)]) (he : Eff s s' t ev) : s'.wire = sndsOf s'.log := by
  have := h.wire_log
  rw [hlog, sndsOf_append, sndsOf_cons]
  cases ev <;> simp only [Eff, SameQ, Clean] at he <;> simp [Ev.snds] <;> grind

theorem hist_step_queue (s s' : Sys) (t : Tid) (ev : Ev) (h : HistInv s)
    (hlog : s'.log = s.log ++ [(t, ev)]) (he : Eff s s' t ev) :
    appsOf s'.log = popsOf s'.log ++ s'.queue := by
  have := h.queue_log
  rw [hlog, appsOf_append, appsOf_cons, popsOf_append, popsOf_cons]
  cases ev <;> simp only [Eff, SameQ, Clean] at he <;> simp [Ev.apps, Ev.pops] <;> grind

theorem hist_step_apps (s s' : Sys) (t : Tid) (ev : Ev) (h : HistInv s)
    (hlog : s'.log = s.log ++ [(t, ev)]) (he : Eff s s' t ev) :
    (appsOf s'.log).Sublist s'.issued := by
  have h0 := h.apps_issued
  rw [hlog, appsOf_append, appsOf_cons]
  cases ev <;> simp only [Eff, SameQ, Clean] at he <;> simp only [Ev.apps, appsOf_nil, List.append_nil]
  case app p => rw [he.2.2.2.1]; exact List.Sublist.append h0 (List.Sublist.refl _)
  case acq =>
    rcases he.2.2.2.2.2.2.2.2 with ⟨-, h2, -⟩ | ⟨p, -, h2, -⟩
    · rw [h2]; exact h0
    · rw [h2]; exact h0.trans (List.sublist_append_left _ _)
  case fail => obtain ⟨p, he⟩ := he; rw [he.2.2.2.1]; exact h0
  all_goals (first | (rw [he.2.1.2.2]; exact h0) | (rw [he.2.2.2.1]; exact h0))

theorem hist_step_pops (s s' : Sys) (t : Tid) (ev : Ev) (hw : WireInv s) (h : HistInv s)
    (hlog : s'.log = s.log ++ [(t, ev)]) (he : Eff s s' t ev) :
    ∀ p ∈ popsOf s'.log, p ∈ sentPkts s'.wire ∨ p ∈ (cur s').popped := by
  have h0 := h.pops_sent
  have hno := hw.needs_open
  have hpo := popped_needsOpen (cur s)
  rw [hlog, popsOf_append, popsOf_cons]
  cases ev <;> simp only [Eff, SameQ, Clean] at he <;>
    simp only [Ev.pops, popsOf_nil, List.append_nil]
  case snd p c =>
    match c with
    | 0 => intro q hq; have := h0 q hq; grind [sentPkts_snoc0]
    | 1 => intro q hq; have := h0 q hq; grind [sentPkts_snoc1]
  case fail =>
    obtain ⟨p, h1, h2, -, -, -, -, hso, -, -, ⟨-, hb, -⟩, hc, -⟩ := he
    rcases hc with hc | hc
    · intro q hq; have := h0 q hq; grind
    · have := hno (hpo (by simp [hc])); simp [hso] at this
  all_goals (intro q hq; have := h0 q; grind)

theorem nil_all {α : Type} {P : α → Prop} : ∀ e ∈ ([] : List α), P e := fun _ he => nomatch he

theorem snoc_mem {α : Type} {P : α → Prop} {l : List α} {a : α} (hl : ∀ e ∈ l, P e) (ha : P a) :
    ∀ e ∈ l ++ [a], P e := by
  intro e he
  rcases List.mem_append.mp he with he | he
  · exact hl e he
  · simp at he; subst he; exact ha

theorem dctx_owner {s : Sys} {c : DCtx} (h : (cur s).dctx = some c) : ∃ t, s.owner = some t := by
  cases ho : s.owner with
  | none => rw [cur_of_free ho] at h; simp [Pc.dctx] at h
  | some t => exact ⟨t, rfl⟩

theorem hist_step_quiet (s s' : Sys) (t : Tid) (ev : Ev) (h : HistInv s)
    (hlog : s'.log = s.log ++ [(t, ev)]) (fo : FactsOut s s' t ev) (fi : FactsIn s s' t ev)
    (hcc : s.sockOpen = false → s'.sockOpen = false) : s'.sockOpen = true → NoDead s'.log := by
  intro ho'
  have ho : s.sockOpen = true := by
    cases hso : s.sockOpen with
    | true => rfl
    | false => rw [hcc hso] at ho'; cases ho'
  rw [hlog]
  refine snoc_mem (h.open_quiet ho) ?_
  by_cases hown : s.owner = some t
  · rcases fi hown with ⟨rfl, -⟩ | ⟨-, -, hc, -⟩ | ⟨-, h1, -, -, -, h2, -⟩
    · simp
    · rw [hc] at ho'; cases ho'
    · exact ⟨h1, h2 ho⟩
  · rcases (fo hown).2 with ⟨rfl, -⟩ | ⟨-, -, -, -, -, h1, h2⟩
    · simp
    · exact ⟨h1, h2⟩

theorem hist_step_disc (s s' : Sys) (t : Tid) (ev : Ev) (hw : WireInv s) (h : HistInv s)
    (hlog : s'.log = s.log ++ [(t, ev)]) (fo : FactsOut s s' t ev) (fa : FactsAcq s s' ev)
    (fi : FactsIn s s' t ev) :
    s'.sockOpen = true → ∀ c, (cur s').dctx = some c →
    ∃ t pre mid, s'.owner = some t ∧ s'.log = pre ++ (t, .acq) :: mid ∧ LockFree mid ∧
      appsOf pre = popsOf pre ++ c.snap ∧ sndsOf pre = c.wire0 ∧
      ((cur s').flushing = false → PastFlush c.imm t pre mid) := by
  intro ho' c hc
  by_cases hown : s.owner = some t
  · rcases fi hown with ⟨-, h1, -⟩ | ⟨-, -, h1, -⟩ | ⟨k1, k2, k3, k4, k5, k6, k7, k8, k9, k10⟩
    · rw [cur_of_free h1] at hc; simp [Pc.dctx] at hc
    · rw [h1] at ho'; cases ho'
    · have ho : s.sockOpen = true := by rw [← k4]; exact ho'
      rw [k5] at hc
      obtain ⟨t0, pre, mid, e1, e2, e3, e4, e5, e6⟩ := h.disc ho c hc
      have : t0 = t := by rw [hown] at e1; exact (Option.some.inj e1).symm
      subst this
      refine ⟨t0, pre, mid ++ [(t0, ev)], k3, by rw [hlog, e2]; simp, snoc_mem e3 k1, e4, e5, ?_⟩
      intro hf'
      have hne : (cur s).dctx ≠ none := by rw [hc]; simp
      cases hm : ev.isMove with
      | true => rw [k8 hm hne] at hf'; cases hf'
      | false =>
        cases hk : ev.isChk with
        | false =>
          rw [k10 hm hk] at hf'
          exact (e6 hf').snoc t0 ev hm hk
        | true =>
          obtain ⟨hfl, hz⟩ := k9 hk hne
          obtain ⟨rfl, hq⟩ := hz hf'
          obtain ⟨hi, -⟩ := hw.flush_ctx c hc hfl
          refine ⟨fun hi' => ?_, fun _ => ⟨mid, [], rfl, ?_, ?_, ?_⟩⟩
          · rw [hi] at hi'; cases hi'
          · exact nil_all
          · exact nil_all
          · have := h.queue_log
            rw [hq, List.append_nil, e2] at this; exact this
  · obtain ⟨hso, hcase⟩ := fo hown
    rcases hcase with ⟨rfl, h1, h2⟩ | ⟨h1, h2, h3, h4, h5, -, -⟩
    · obtain ⟨a1, a2, a3⟩ := fa rfl c hc
      refine ⟨t, s.log, [], h2, by rw [hlog], nil_all, ?_, ?_, ?_⟩
      · rw [a1]; exact h.queue_log
      · rw [a2]; exact h.wire_log.symm
      · intro hf'
        have hi := a3 (by rw [← hso]; exact ho') hf'
        refine ⟨fun _ => ⟨nil_all, nil_all⟩, fun hi' => ?_⟩
        rw [hi] at hi'; cases hi'
    · rw [h2] at hc ⊢
      obtain ⟨t0, pre, mid, e1, e2, e3, e4, e5, e6⟩ := h.disc (by rw [← hso]; exact ho') c hc
      refine ⟨t0, pre, mid ++ [(t, ev)], by rw [h1]; exact e1, by rw [hlog, e2]; simp,
        snoc_mem e3 h3, e4, e5, fun hf => (e6 hf).snoc t ev h4 h5⟩

theorem hist_step_closed (s s' : Sys) (t : Tid) (ev : Ev) (h : HistInv s)
    (hlog : s'.log = s.log ++ [(t, ev)]) (fo : FactsOut s s' t ev) (fi : FactsIn s s' t ev) :
    s'.sockOpen = false →
    ∃ t pre mid post imm snap, s'.log = pre ++ (t, .acq) :: (mid ++ (t, .cls) :: post) ∧
      LockFree mid ∧ NoDead (pre ++ (t, .acq) :: mid) ∧ NoMove post ∧ NoCls post ∧
      appsOf pre = popsOf pre ++ snap ∧ PastFlush imm t pre mid := by
  intro hc'
  cases ho : s.sockOpen with
  | true =>
    by_cases hown : s.owner = some t
    · rcases fi hown with ⟨-, -, h1⟩ | ⟨rfl, -, -, -, h1, h2⟩ | ⟨-, -, -, h1, -⟩
      · rw [h1, ho] at hc'; cases hc'
      · cases hd : (cur s).dctx with
        | none => exact absurd hd h1
        | some c =>
          obtain ⟨t0, pre, mid, e1, e2, e3, e4, -, e6⟩ := h.disc ho c hd
          have : t0 = t := by rw [hown] at e1; exact (Option.some.inj e1).symm
          subst this
          refine ⟨t0, pre, mid, [], c.imm, c.snap, by rw [hlog, e2]; simp, e3, ?_,
            nil_all, nil_all, e4, e6 h2⟩
          rw [← e2]; exact h.open_quiet ho
      · rw [h1, ho] at hc'; cases hc'
    · rw [(fo hown).1, ho] at hc'; cases hc'
  | false =>
    obtain ⟨t0, pre, mid, post, imm, snap, e1, e2, e3, e4, e5, e6, e7⟩ := h.closed ho
    have hev : ev.isMove = false ∧ ev ≠ .cls := by
      by_cases hown : s.owner = some t
      · rcases fi hown with ⟨rfl, -⟩ | ⟨-, h1, -⟩ | ⟨-, h1, -, -, -, -, h2, -⟩
        · exact ⟨rfl, by simp⟩
        · rw [ho] at h1; cases h1
        · exact ⟨h2 ho, h1⟩
      · rcases (fo hown).2 with ⟨rfl, -⟩ | ⟨-, -, -, h1, -, h2, -⟩
        · exact ⟨rfl, by simp⟩
        · exact ⟨h1, h2⟩
    exact ⟨t0, pre, mid, post ++ [(t, ev)], imm, snap, by rw [hlog, e1]; simp, e2, e3,
      snoc_mem e4 hev.1, snoc_mem e5 hev.2, e6, e7⟩

theorem hist_step (cfg : Cfg) (s s' : Sys) (t : Tid) (hl : LockInv s) (hw : WireInv s)
    (h : HistInv s) (hs : step cfg s t = some s') : HistInv s' := by
  obtain ⟨ev, hlog, he, fo, fa, fi, hcc⟩ := step_all cfg s s' t hl hw hs
  exact ⟨hist_step_wire s s' t ev h hlog he, hist_step_queue s s' t ev h hlog he,
    hist_step_apps s s' t ev h hlog he, hist_step_pops s s' t ev hw h hlog he,
    hist_step_quiet s s' t ev h hlog fo fi hcc, hist_step_disc s s' t ev hw h hlog fo fa fi,
    hist_step_closed s s' t ev h hlog fo fi⟩

theorem hist_run (cfg : Cfg) (progs : List (List Op)) (sched : List Tid) :
    ∀ s, WInv progs s → HistInv s → HistInv (run cfg s sched) := by
  induction sched with
  | nil => intro s _ h; exact h
  | cons t ts ih =>
    intro s hi h; unfold run
    split
    · next s' hs =>
      exact ih _ (step_inv cfg progs s s' t hi hs) (hist_step cfg s s' t hi.lock hi.wire h hs)
    · exact ih _ hi h

/-- Every state reached from the initial state satisfies the history invariant. -/
theorem reach_hist (cfg : Cfg) (progs : List (List Op)) (hnd : (progs.flatMap pktsOf).Nodup)
    (sched : List Tid) : HistInv (run cfg (init progs) sched) :=
  hist_run cfg progs sched _ (init_inv progs hnd) (hist_init progs)

/-! ### The splitting of the log around the closing critical section is unique -/

theorem split_unique_last {α : Type} (P : α → Prop) {l1 l2 l1' l2' : List α} {a a' : α}
    (ha : P a) (ha' : P a') (h2 : ∀ x ∈ l2, ¬ P x) (h2' : ∀ x ∈ l2', ¬ P x)
    (h : l1 ++ a :: l2 = l1' ++ a' :: l2') : l1 = l1' ∧ a = a' ∧ l2 = l2' := by
  induction l1 generalizing l1' with
  | nil =>
    cases l1' with
    | nil => simp at h; exact ⟨rfl, h.1, h.2⟩
    | cons b r =>
      simp at h; obtain ⟨rfl, rfl⟩ := h
      exact absurd ha' (h2 a' (by simp))
  | cons b r ih =>
    cases l1' with
    | nil =>
      simp at h; obtain ⟨rfl, rfl⟩ := h
      exact absurd ha (h2' a (by simp))
    | cons b' r' =>
      simp at h; obtain ⟨rfl, h⟩ := h
      obtain ⟨rfl, rfl, rfl⟩ := ih h
      exact ⟨rfl, rfl, rfl⟩

theorem split_unique_only {α : Type} (P : α → Prop) {l1 l2 l1' l2' : List α} {a a' : α}
    (ha : P a) (ha' : P a') (h1' : ∀ x ∈ l1', ¬ P x) (h2' : ∀ x ∈ l2', ¬ P x)
    (h : l1 ++ a :: l2 = l1' ++ a' :: l2') : l1 = l1' ∧ a = a' ∧ l2 = l2' := by
  induction l1 generalizing l1' with
  | nil =>
    cases l1' with
    | nil => simp at h; exact ⟨rfl, h.1, h.2⟩
    | cons b r =>
      simp at h; obtain ⟨rfl, rfl⟩ := h
      exact absurd ha (h1' a (by simp))
  | cons b r ih =>
    cases l1' with
    | nil =>
      simp at h; obtain ⟨rfl, rfl⟩ := h
      exact absurd ha (h2' a (by simp))
    | cons b' r' =>
      simp at h; obtain ⟨rfl, h⟩ := h
      obtain ⟨rfl, rfl, rfl⟩ := ih (fun x hx => h1' x (by simp [hx])) h
      exact ⟨rfl, rfl, rfl⟩

/-- Past its flush loop, `flushes mid` tells the two kinds of disconnect apart. -/
theorem PastFlush.kind {imm : Bool} {t : Tid} {pre mid : Log} (h : PastFlush imm t pre mid) :
    flushes mid = !imm := by
  cases imm with
  | true => exact (h.1 rfl).2.not_flushes
  | false =>
    obtain ⟨flush, tail, rfl, -⟩ := h.2 rfl
    simp [flushes, Ev.isChk]

/-- In a state with the socket closed, ANY way of writing the log as
`pre ++ acq :: mid ++ cls :: post` with nobody taking or releasing the lock in `mid` is the
closing critical section of the invariant. -/
theorem closed_shape {s : Sys} (h : HistInv s) (hc : s.sockOpen = false) {t : Tid}
    {pre mid post : Log} (hlog : s.log = pre ++ (t, .acq) :: (mid ++ (t, .cls) :: post))
    (hheld : LockFree mid) :
    NoDead (pre ++ (t, .acq) :: mid) ∧ NoMove post ∧ NoCls post ∧
      (∃ snap, appsOf pre = popsOf pre ++ snap) ∧ PastFlush (!flushes mid) t pre mid := by
  obtain ⟨t0, pre0, mid0, post0, imm, snap, e1, e2, e3, e4, e5, e6, e7⟩ := h.closed hc
  have e : (pre ++ (t, Ev.acq) :: mid) ++ (t, Ev.cls) :: post
      = (pre0 ++ (t0, Ev.acq) :: mid0) ++ (t0, Ev.cls) :: post0 := by
    rw [List.append_assoc, List.append_assoc, List.cons_append, List.cons_append, ← hlog, ← e1]
  obtain ⟨a1, a2, a3⟩ := split_unique_only (fun x : Tid × Ev => x.2 = .cls) rfl rfl
    (fun x hx => (e3 x hx).1) e5 e
  have ht : t = t0 := congrArg Prod.fst a2
  subst ht; subst a3
  obtain ⟨b1, -, b3⟩ := split_unique_last (fun x : Tid × Ev => x.2.isLock = true) rfl rfl
    (fun x hx => by simp [hheld x hx]) (fun x hx => by simp [e2 x hx]) a1
  subst b1; subst b3
  refine ⟨e3, e4, e5, ⟨snap, e6⟩, ?_⟩
  rw [e7.kind]; simpa using e7

/-- Popped packets of a state in which nothing is in flight from the queue are sent. -/
theorem pops_all_sent {s : Sys} (h : HistInv s) (hp : (cur s).popped = []) :
    ∀ p ∈ popsOf s.log, p ∈ sentPkts s.wire := by
  intro p hpp
  rcases h.pops_sent p hpp with h1 | h1
  · exact h1
  · rw [hp] at h1; cases h1

theorem closed_popped {s : Sys} (hw : WireInv s) (hc : s.sockOpen = false) :
    (cur s).popped = [] := by
  cases hp : (cur s).popped with
  | nil => rfl
  | cons a l =>
    have := hw.needs_open (popped_needsOpen _ (by rw [hp]; simp))
    rw [hc] at this; cases this

theorem apps_nodup {s : Sys} (hf : FreshInv s) (h : HistInv s) : (appsOf s.log).Nodup :=
  h.apps_issued.nodup hf.issued_nodup

/-- Closed socket, graceful closer: the last `chk 0` splits the critical section; everything
appended before it is on the wire, and the queue is exactly what was appended after it. -/
theorem closed_graceful {s : Sys} (hw : WireInv s) (h : HistInv s) (hc : s.sockOpen = false)
    {t : Tid} {pre mid post : Log} (hlog : s.log = pre ++ (t, .acq) :: (mid ++ (t, .cls) :: post))
    (hheld : LockFree mid) (hg : flushes mid = true) :
    ∃ flush tail, mid = flush ++ (t, .chk 0) :: tail ∧ NoMove tail ∧ NoChk tail ∧ NoMove post ∧
      s.queue = appsOf tail ++ appsOf post ∧ s.wire = sndsOf (pre ++ (t, .acq) :: flush) ∧
      ∀ p ∈ appsOf (pre ++ (t, .acq) :: flush), p ∈ sentPkts s.wire := by
  obtain ⟨-, c2, -, -, c5⟩ := closed_shape h hc hlog hheld
  rw [hg] at c5
  obtain ⟨flush, tail, e1, e2, e3, e4⟩ := c5.2 rfl
  refine ⟨flush, tail, e1, e2, e3, c2, ?_, ?_, ?_⟩
  · have hq := h.queue_log
    have hl : s.log = (pre ++ (t, .acq) :: flush) ++ ((t, .chk 0) :: tail ++ (t, .cls) :: post) := by
      rw [hlog, e1]; simp
    rw [hl, appsOf_append, popsOf_append, e4, List.append_assoc] at hq
    have hq2 := List.append_cancel_left hq
    simp only [List.cons_append, appsOf_cons, popsOf_cons, appsOf_append, popsOf_append, Ev.apps,
      Ev.pops, e2.pops, c2.pops, List.nil_append] at hq2
    exact hq2.symm
  · have hl : s.log = (pre ++ (t, .acq) :: flush) ++ ((t, .chk 0) :: tail ++ (t, .cls) :: post) := by
      rw [hlog, e1]; simp
    rw [h.wire_log, hl, sndsOf_append]
    simp [sndsOf_cons, sndsOf_append, Ev.snds, e2.snds, c2.snds]
  · intro p hp
    apply pops_all_sent h (closed_popped hw hc)
    rw [e4] at hp
    rw [hlog, e1]
    have : pre ++ (t, Ev.acq) :: (flush ++ (t, Ev.chk 0) :: tail ++ (t, Ev.cls) :: post)
        = (pre ++ (t, .acq) :: flush) ++ ((t, .chk 0) :: tail ++ (t, .cls) :: post) := by simp
    rw [this, popsOf_append]
    exact List.mem_append_left _ hp

/-- Closed socket, immediate closer: nothing was popped or sent from its `acq` on; the queue is
what it was at the `acq` followed by what was appended since. -/
theorem closed_immediate {s : Sys} (h : HistInv s) (hc : s.sockOpen = false)
    {t : Tid} {pre mid post : Log} (hlog : s.log = pre ++ (t, .acq) :: (mid ++ (t, .cls) :: post))
    (hheld : LockFree mid) (hg : flushes mid = false) :
    NoMove mid ∧ NoChk mid ∧ NoMove post ∧ s.wire = sndsOf pre ∧
      ∃ snap, appsOf pre = popsOf pre ++ snap ∧ popsOf s.log = popsOf pre ∧
        s.queue = snap ++ appsOf mid ++ appsOf post := by
  obtain ⟨-, c2, -, ⟨snap, c4⟩, c5⟩ := closed_shape h hc hlog hheld
  rw [hg] at c5
  obtain ⟨e1, e2⟩ := c5.1 rfl
  have hpops : popsOf s.log = popsOf pre := by
    rw [hlog]
    simp [popsOf_append, popsOf_cons, Ev.pops, e1.pops, c2.pops]
  refine ⟨e1, e2, c2, ?_, snap, c4, hpops, ?_⟩
  · rw [h.wire_log, hlog]
    simp [sndsOf_cons, sndsOf_append, Ev.snds, e1.snds, c2.snds]
  · have hq := h.queue_log
    rw [hpops, hlog] at hq
    simp only [appsOf_append, appsOf_cons, Ev.apps, List.nil_append, c4, List.append_assoc] at hq
    rw [List.append_assoc]; exact (List.append_cancel_left hq).symm

/-! ### A failed forced write was started after the close -/

/-- `p` is a forced write that has acquired the lock on a closed socket (it is about to `fail`),
or has already failed. -/
def Doomed (s : Sys) (p : Pkt) : Prop :=
  p ∈ s.failed ∨ (cur s = .user (.fSnd0 p) ∧ s.sockOpen = false)

theorem doomed_step (cfg : Cfg) (s s' : Sys) (t : Tid) (hl : LockInv s) (hw : WireInv s)
    (hf : FreshInv s) (hs : step cfg s t = some s') (p : Pkt) (hd : Doomed s' p) :
    Doomed s p ∨ (s.sockOpen = false ∧ p ∉ s.issued) := by
  have h1t := hl.crit_owner t
  have hd0 := hl.depth_ok
  have w2 := hw.needs_open
  have hfr : ∀ q rest, (s.thr t).todo = .forced q :: rest → q ∉ s.issued := by
    intro q rest hq
    exact hf.fresh t q (by rw [hq]; simp [pktsOf, Op.pkts])
  unfold Doomed at hd ⊢
  revert hd
  step_cases hs hpc htd
  all_goals cur_simp s t h1t hd0 hpc
  all_goals grind [Pc.needsOpen]

theorem doomed_late (cfg : Cfg) (progs : List (List Op)) (hnd : (progs.flatMap pktsOf).Nodup)
    (sched : List Tid) (p : Pkt) :
    ∀ n, Doomed (run cfg (init progs) (sched.take n)) p →
      ∃ k, k ≤ n ∧ (run cfg (init progs) (sched.take k)).sockOpen = false ∧
        p ∉ (run cfg (init progs) (sched.take k)).issued := by
  intro n
  induction n with
  | zero =>
    intro hd
    rcases hd with hd | ⟨hd, -⟩
    · simp [run, init] at hd
    · have : cur (init progs) = .user .idle := rfl
      rw [List.take_zero, run, this] at hd; cases hd
  | succ n ih =>
    intro hd
    have up : ∀ k, k ≤ n → k ≤ n + 1 := fun k hk => by omega
    rw [List.take_add_one, run_append] at hd
    cases hget : sched[n]? with
    | none =>
      rw [hget] at hd
      obtain ⟨k, hk, h1, h2⟩ := ih hd
      exact ⟨k, up k hk, h1, h2⟩
    | some t =>
      rw [hget] at hd
      simp only [Option.toList, run] at hd
      have hinv := reach_inv cfg progs hnd (sched.take n)
      split at hd
      · next s' hs =>
        rcases doomed_step cfg _ s' t hinv.lock hinv.wire hinv.fresh hs p hd with h1 | ⟨h1, h2⟩
        · obtain ⟨k, hk, h1, h2⟩ := ih h1
          exact ⟨k, up k hk, h1, h2⟩
        · exact ⟨n, by omega, h1, h2⟩
      · obtain ⟨k, hk, h1, h2⟩ := ih hd
        exact ⟨k, up k hk, h1, h2⟩

/-- A failed packet was never appended, popped or (even partly) sent. -/
theorem failed_untouched {s : Sys} (hw : WireInv s) (h : HistInv s) (p : Pkt) (hp : p ∈ s.failed) :
    p ∉ appsOf s.log ∧ p ∉ popsOf s.log ∧ ∀ c, (p, c) ∉ s.wire := by
  have hn := hw.nodup
  have hpop : p ∉ popsOf s.log := by
    intro hc
    rcases h.pops_sent p hc with h1 | h1
    · grind [List.nodup_append]
    · have := popped_infl _ _ h1; grind [List.nodup_append]
  refine ⟨?_, hpop, ?_⟩
  · rw [h.queue_log]
    intro hc
    rcases List.mem_append.mp hc with h1 | h1
    · exact hpop h1
    · grind [List.nodup_append]
  · intro c hc
    rw [hw.wire_eq] at hc
    rcases List.mem_append.mp hc with h1 | h1
    · have := mem_frames _ _ h1; grind [List.nodup_append]
    · have := (half_infl _ _ h1).1; grind [List.nodup_append]

/-! ### Odds and ends for `Props/C12Final.lean` -/

theorem frames_split (ps : List Pkt) (p : Pkt) (hp : p ∈ ps) :
    ∃ w₁ w₂, frames ps = w₁ ++ [(p, 0), (p, 1)] ++ w₂ := by
  obtain ⟨a, b, rfl⟩ := List.append_of_mem hp
  exact ⟨frames a, frames b, by simp [frames]⟩

/-- With the socket closed the wire consists of whole frames. -/
theorem closed_wire_frames {s : Sys} (hw : WireInv s) (hc : s.sockOpen = false) :
    s.wire = frames (sentPkts s.wire) := by
  have h := hw.wire_eq
  cases hh : (cur s).half with
  | nil => rw [hh, List.append_nil] at h; exact h
  | cons a l =>
    have := hw.needs_open (half_needsOpen _ (by rw [hh]; simp))
    rw [hc] at this; cases this

theorem step_log (cfg : Cfg) (s s' : Sys) (t : Tid) (hs : step cfg s t = some s') :
    ∃ ev, s'.log = s.log ++ [(t, ev)] := by
  step_cases hs hpc htd
  all_goals exact ⟨_, rfl⟩

/-- The log only grows. -/
theorem run_log_prefix (cfg : Cfg) (sched : List Tid) :
    ∀ s, s.log <+: (run cfg s sched).log := by
  induction sched with
  | nil => intro s; exact List.prefix_refl _
  | cons t ts ih =>
    intro s; unfold run
    split
    · next s' hs =>
      obtain ⟨ev, he⟩ := step_log cfg s s' t hs
      exact (he ▸ List.prefix_append _ _ : s.log <+: s'.log).trans (ih s')
    · exact ih s

/-- In a state with the socket closed, the splitting of the log around the closing critical
section is unique. -/
theorem closed_split_unique {s : Sys} (h : HistInv s) (hc : s.sockOpen = false)
    {t t' : Tid} {pre mid post pre' mid' post' : Log}
    (h1 : s.log = pre ++ (t, .acq) :: (mid ++ (t, .cls) :: post)) (g1 : LockFree mid)
    (h2 : s.log = pre' ++ (t', .acq) :: (mid' ++ (t', .cls) :: post')) (g2 : LockFree mid') :
    t = t' ∧ pre = pre' ∧ mid = mid' ∧ post = post' := by
  obtain ⟨c1, -, c3, -⟩ := closed_shape h hc h2 g2
  have e : (pre ++ (t, Ev.acq) :: mid) ++ (t, Ev.cls) :: post
      = (pre' ++ (t', Ev.acq) :: mid') ++ (t', Ev.cls) :: post' := by
    rw [List.append_assoc, List.append_assoc, List.cons_append, List.cons_append, ← h1, ← h2]
  obtain ⟨a1, a2, a3⟩ := split_unique_only (fun x : Tid × Ev => x.2 = .cls) rfl rfl
    (fun x hx => (c1 x hx).1) c3 e
  obtain ⟨b1, -, b3⟩ := split_unique_last (fun x : Tid × Ev => x.2.isLock = true) rfl rfl
    (fun x hx => by simp [g1 x hx]) (fun x hx => by simp [g2 x hx]) a1
  exact ⟨congrArg Prod.fst a2, b1, b3, a3⟩

/-- The only `cls` event of a closed state's log. -/
theorem closed_cls_unique {s : Sys} (h : HistInv s) (hc : s.sockOpen = false) {t : Tid}
    {pre mid post : Log} (hlog : s.log = pre ++ (t, .acq) :: (mid ++ (t, .cls) :: post))
    (hheld : LockFree mid) (u : Tid) (hu : (u, Ev.cls) ∈ s.log) : u = t := by
  obtain ⟨c1, -, c3, -⟩ := closed_shape h hc hlog hheld
  rw [hlog] at hu
  have : (u, Ev.cls) ∈ (pre ++ (t, Ev.acq) :: mid) ++ (t, Ev.cls) :: post := by simpa using hu
  rcases List.mem_append.mp this with h1 | h1
  · exact absurd rfl (c1 _ h1).1
  · rcases List.mem_cons.mp h1 with h2 | h2
    · exact congrArg Prod.fst h2
    · exact absurd rfl (c3 _ h2)

/-- A thread about to close the socket: the log since its `acq`. -/
theorem at_cls_section {s : Sys} (hl : LockInv s) (hw : WireInv s) (h : HistInv s) (t : Tid)
    (c : DCtx) (hpc : (s.thr t).pc = .user (.dCls c)) :
    ∃ pre mid, s.log = pre ++ (t, .acq) :: mid ∧ LockFree mid ∧ flushes mid = !c.imm ∧
      appsOf pre = popsOf pre ++ c.snap ∧ sndsOf pre = c.wire0 ∧ NoDead s.log := by
  have hown : s.owner = some t := (hl.crit_owner t).mp (by rw [hpc]; rfl)
  have hcur : cur s = .user (.dCls c) := (cur_of_owner hown).trans hpc
  have ho : s.sockOpen = true := hw.needs_open (by rw [hcur]; rfl)
  obtain ⟨t0, pre, mid, e1, e2, e3, e4, e5, e6⟩ := h.disc ho c (by rw [hcur]; rfl)
  have : t0 = t := by rw [hown] at e1; exact (Option.some.inj e1).symm
  subst this
  exact ⟨pre, mid, e2, e3, (e6 (by rw [hcur]; rfl)).kind, e4, e5, h.open_quiet ho⟩

theorem step_thr_other (cfg : Cfg) (s s' : Sys) (t : Tid) (hs : step cfg s t = some s') :
    ∀ u, u ≠ t → s'.thr u = s.thr u := by
  step_cases hs hpc htd
  all_goals (intro u hu; simp only [upd, if_neg hu])

theorem run_thr_other (cfg : Cfg) (sched : List Tid) (u : Tid) (hu : u ∉ sched) :
    ∀ s, (run cfg s sched).thr u = s.thr u := by
  induction sched with
  | nil => intro s; rfl
  | cons t ts ih =>
    intro s; unfold run
    have h1 : u ≠ t := fun e => hu (by simp [e])
    have h2 : u ∉ ts := fun e => hu (by simp [e])
    split
    · next s' hs => rw [ih h2 s', step_thr_other cfg s s' t hs u h1]
    · exact ih h2 s

/-- A run in which threads `0..n` are at `end` is final, when no other thread is scheduled and
there are at most `n` programs: all other threads are finished from the start. -/
theorem final_of_allDoneUpTo (cfg : Cfg) (progs : List (List Op)) (sched : List Tid) (n : Nat)
    (hn : progs.length ≤ n) (hs : ∀ v ∈ sched, v ≤ n)
    (h : allDoneUpTo (run cfg (init progs) sched) n = true) :
    ∀ u, ((run cfg (init progs) sched).thr u).pc.isDone = true := by
  intro (u : Nat)
  by_cases hu : u ≤ n
  · simp only [allDoneUpTo, List.all_eq_true, List.mem_range] at h
    exact h u (by omega)
  · rw [run_thr_other cfg sched u (fun hm => hu (hs u hm))]
    have h0 : u ≠ 0 := by omega
    have h1 : ¬ u ≤ progs.length := by omega
    simp [init, h0, h1, Pc.isDone]

end PyCraft.Writers
