import PyCraft.Model.Login
/-!
Helper lemmas for C10: the regular-expression recogniser against its declarative reading, and the
closed forms / frame invariants of `exec`.
-/
namespace PyCraft.Login
open PyCraft

/-! ### The recogniser -/

theorem stripPrefix_eq_some (p l r : List Char) : stripPrefix p l = some r ↔ l = p ++ r := by
  induction p generalizing l with
  | nil => simp [stripPrefix, eq_comm]
  | cons a p ih =>
    cases l with
    | nil => simp [stripPrefix]
    | cons b l =>
      by_cases h : a = b
      · subst h; simp [stripPrefix, ih]
      · simp [stripPrefix, h]; intro h'; exact absurd h'.symm h

theorem stripPrefix_eq_none (p l : List Char) : stripPrefix p l = none ↔ ∀ r, l ≠ p ++ r := by
  constructor
  · intro h r hr
    have := (stripPrefix_eq_some p l r).2 hr
    rw [h] at this; cases this
  · intro h
    cases hs : stripPrefix p l with
    | none => rfl
    | some r => exact absurd ((stripPrefix_eq_some p l r).1 hs) (h r)

/-- Declarative reading of `(?P<ver>\S+)$` on the rest of the string. -/
def VerTail (rest v : List Char) : Prop :=
  (rest = v ∨ rest = v ++ ['\n']) ∧ v ≠ [] ∧ ∀ c ∈ v, pyIsSpace c = false

private theorem takeWhile_all {α} (p : α → Bool) (l : List α) : ∀ a ∈ l.takeWhile p, p a = true := by
  induction l with
  | nil => simp
  | cons x xs ih =>
    intro a ha
    rw [List.takeWhile_cons] at ha
    by_cases hx : p x = true
    · simp [hx] at ha
      rcases ha with rfl | ha
      · exact hx
      · exact ih a ha
    · simp [hx] at ha

private theorem takeWhile_self {α} (p : α → Bool) (l : List α) (h : ∀ a ∈ l, p a = true) :
    l.takeWhile p = l ∧ l.dropWhile p = [] := by
  induction l with
  | nil => simp
  | cons x xs ih =>
    have hx : p x = true := h x (by simp)
    have := ih (fun a ha => h a (by simp [ha]))
    simp [hx, this]

theorem verTail_eq_some (rest v : List Char) : verTail rest = some v ↔ VerTail rest v := by
  unfold verTail VerTail
  constructor
  · intro h
    simp only at h
    split at h
    · rename_i hc
      cases h
      refine ⟨?_, hc.1, ?_⟩
      · have hsplit := List.takeWhile_append_dropWhile (p := fun c => !pyIsSpace c) (l := rest)
        rcases hc.2 with h0 | h1
        · left; rw [h0] at hsplit; simpa using hsplit.symm
        · right; rw [h1] at hsplit; exact hsplit.symm
      · intro c hc'
        have := takeWhile_all (fun c => !pyIsSpace c) rest c hc'
        simpa using this
    · cases h
  · rintro ⟨hr, hne, hall⟩
    have hall' : ∀ a ∈ v, (fun c => !pyIsSpace c) a = true := by
      intro a ha; simp [hall a ha]
    have hs := takeWhile_self (fun c => !pyIsSpace c) v hall'
    rcases hr with rfl | rfl
    · simp only [hs.1, hs.2]; simp [hne]
    · have ht : List.takeWhile (fun c => !pyIsSpace c) (v ++ ['\n']) = v := by
        rw [List.takeWhile_append_of_pos hall']
        have : pyIsSpace '\n' = true := by decide
        simp [this]
      have hd : List.dropWhile (fun c => !pyIsSpace c) (v ++ ['\n']) = ['\n'] := by
        rw [List.dropWhile_append_of_pos hall']
        have : pyIsSpace '\n' = true := by decide
        simp [this]
      simp only [ht, hd]; simp [hne]

/-- Declarative reading of the whole pattern on a character list. -/
def OutdatedL (msg v : List Char) : Prop :=
  ∃ p ∈ outdatedPrefixes, ∃ rest, msg = p ++ rest ∧ VerTail rest v

private theorem client_not_server (r r' : List Char) :
    "Outdated server! I'm still on ".toList ++ r ≠ "Outdated client! Please use ".toList ++ r' := by
  simp

theorem outdatedVersionL_eq_some (msg v : List Char) :
    outdatedVersionL msg = some v ↔ OutdatedL msg v := by
  unfold outdatedVersionL OutdatedL outdatedPrefixes
  constructor
  · intro h
    split at h
    · rename_i rest hs
      exact ⟨_, by simp, rest, (stripPrefix_eq_some _ _ _).1 hs, (verTail_eq_some _ _).1 h⟩
    · split at h
      · rename_i rest hs
        exact ⟨_, by simp, rest, (stripPrefix_eq_some _ _ _).1 hs, (verTail_eq_some _ _).1 h⟩
      · cases h
  · rintro ⟨p, hp, rest, hm, hv⟩
    simp only [List.mem_cons, List.not_mem_nil, or_false] at hp
    rcases hp with rfl | rfl
    · rw [(stripPrefix_eq_some _ _ _).2 hm]
      exact (verTail_eq_some _ _).2 hv
    · have hn : stripPrefix "Outdated client! Please use ".toList msg = none := by
        rw [stripPrefix_eq_none]; intro r hr
        exact client_not_server rest r (hm ▸ hr)
      rw [hn, (stripPrefix_eq_some _ _ _).2 hm]
      exact (verTail_eq_some _ _).2 hv

/-- The pattern on strings: `msg` is one of the two fixed prefixes followed by `ver`, a non-empty
run of non-whitespace, optionally followed by one final newline. -/
def Outdated (msg ver : String) : Prop := OutdatedL msg.toList ver.toList

theorem outdatedVersion_eq_some (msg v : String) : outdatedVersion msg = some v ↔ Outdated msg v := by
  unfold outdatedVersion Outdated
  rw [Option.map_eq_some_iff]
  constructor
  · rintro ⟨l, hl, rfl⟩
    rw [String.toList_ofList]; exact (outdatedVersionL_eq_some _ _).1 hl
  · intro h
    exact ⟨v.toList, (outdatedVersionL_eq_some _ _).2 h, String.ofList_toList⟩

theorem outdatedVersion_eq_none (msg : String) : outdatedVersion msg = none ↔ ∀ v, ¬ Outdated msg v := by
  constructor
  · intro h v hv
    rw [(outdatedVersion_eq_some msg v).2 hv] at h; cases h
  · intro h
    cases hs : outdatedVersion msg with
    | none => rfl
    | some v => exact absurd ((outdatedVersion_eq_some msg v).1 hs) (h v)

/-- The message the recogniser is applied to. -/
def disconnectMessage (P : LoginParams) (json : String) : String :=
  match P.jsonText json with
  | .str t => t
  | _ => json

theorem classify_str (P : LoginParams) (j : String) :
    classifyDisconnect P j =
      match outdatedVersion (disconnectMessage P j) with
      | some v => .versionMismatch v
      | none => .loginDisconnect (disconnectMessage P j) := by
  unfold classifyDisconnect disconnectMessage
  cases hj : P.jsonText j <;> rfl

/-! ### `exec` basics -/

/-- The login reactor is still reading: no exception so far and not yet in play. -/
def ClientState.alive (s : ClientState) : Bool := s.err.isNone && s.reactor == .login

theorem exec_nil (P : LoginParams) (s : ClientState) : exec P s [] = s := rfl

theorem exec_cons (P : LoginParams) (s : ClientState) (a : Step) (r : List Step) :
    exec P s (a :: r) = exec P (step P s a) r := rfl

theorem exec_append (P : LoginParams) (s : ClientState) (a b : List Step) :
    exec P s (a ++ b) = exec P (exec P s a) b := by
  simp [exec, List.foldl_append]

theorem events_append (a b : List Step) : events (a ++ b) = events a ++ events b := by
  induction a with
  | nil => rfl
  | cons x xs ih => cases x <;> simp [events, ih]

theorem events_mid (pre post : List Step) (e : LoginEv) :
    events (pre ++ .recv e :: post) = events pre ++ e :: events post := by
  rw [events_append]; rfl

theorem events_sched (cap k : Nat) (script : List LoginEv) : events (sched cap k script) = script := by
  induction script generalizing k with
  | nil => cases k <;> simp [sched, events]
  | cons e es ih => cases k <;> simp [sched, events, ih]

theorem events_schedule (cap : Nat) (script : List LoginEv) : events (schedule cap script) = script :=
  events_sched cap 0 script

theorem sched_ends_flush (cap k : Nat) (script : List LoginEv) :
    ∃ pre, sched cap k script = pre ++ [.flush] := by
  induction script generalizing k with
  | nil => exact ⟨[], by cases k <;> simp [sched]⟩
  | cons e es ih =>
    cases k with
    | zero => obtain ⟨pre, h⟩ := ih (cap - 1); exact ⟨.flush :: .recv e :: pre, by simp [sched, h]⟩
    | succ k => obtain ⟨pre, h⟩ := ih k; exact ⟨.recv e :: pre, by simp [sched, h]⟩

/-- After an exception nothing happens any more. -/
theorem exec_err (P : LoginParams) (s : ClientState) (steps : List Step) (h : s.err.isSome = true) :
    exec P s steps = s := by
  induction steps with
  | nil => rfl
  | cons a r ih =>
    rw [exec_cons]
    have : step P s a = s := by cases a <;> simp [step, h]
    rw [this, ih]

theorem flushQueue_idem (s : ClientState) : s.flushQueue.flushQueue = s.flushQueue := by
  simp [ClientState.flushQueue]

/-- In state `play` (no exception) the only thing that still happens is the flush. -/
theorem exec_play (P : LoginParams) (s : ClientState) (steps : List Step)
    (h : s.reactor = .play) : exec P s steps = s ∨ exec P s steps = s.flushQueue := by
  induction steps generalizing s with
  | nil => left; rfl
  | cons a r ih =>
    rw [exec_cons]
    cases a with
    | recv e =>
      have : step P s (.recv e) = s := by simp [step, h]
      rw [this]; exact ih s h
    | flush =>
      by_cases he : s.err.isSome = true
      · left; rw [exec_err P _ _ (by simp [step, he])]; simp [step, he]
      · have hs : step P s .flush = s.flushQueue := by simp [step, he]
        rw [hs]
        right
        rcases ih s.flushQueue (by simp [ClientState.flushQueue, h]) with h1 | h1
        · exact h1
        · rw [h1, flushQueue_idem]

/-- Whatever is not alive only changes by a flush. -/
theorem exec_not_alive (P : LoginParams) (s : ClientState) (steps : List Step)
    (h : s.alive = false) : exec P s steps = s ∨ exec P s steps = s.flushQueue := by
  by_cases he : s.err.isSome = true
  · left; exact exec_err P s steps he
  · apply exec_play
    cases hr : s.reactor with
    | play => rfl
    | login =>
      cases hs : s.err with
      | none => simp [ClientState.alive, hr, hs] at h
      | some e => simp [hs] at he

/-- The error a processed event raises. -/
def errOf (P : LoginParams) : LoginEv → Option LoginErr
  | .disconnect j => some (classifyDisconnect P j)
  | _ => none

theorem alive_react (P : LoginParams) (s : ClientState) (e : LoginEv) (h : s.alive = true)
    (ht : e.isTerminal = false) : (react P s e).alive = true := by
  simp only [ClientState.alive, Bool.and_eq_true] at h ⊢
  cases e <;> simp_all [react, LoginEv.isTerminal, ClientState.enqueue, ClientState.writeNow] <;>
    split <;> (try split) <;> simp_all

theorem step_recv_alive (P : LoginParams) (s : ClientState) (e : LoginEv) (h : s.alive = true) :
    step P s (.recv e) = react P s e := by
  simp only [ClientState.alive, Bool.and_eq_true] at h
  have h1 : s.err.isSome = false := by cases hs : s.err <;> simp_all
  have h2 : (s.reactor == Reactor.play) = false := by cases hr : s.reactor <;> simp_all
  simp [step, h1, h2]

theorem step_flush_alive (P : LoginParams) (s : ClientState) (h : s.alive = true) :
    step P s .flush = s.flushQueue ∧ s.flushQueue.alive = true := by
  simp only [ClientState.alive, Bool.and_eq_true] at h
  have h1 : s.err.isSome = false := by cases hs : s.err <;> simp_all
  exact ⟨by simp [step, h1], by simp [ClientState.alive, ClientState.flushQueue, h]⟩

theorem alive_after_terminal (P : LoginParams) (s : ClientState) (e : LoginEv)
    (ht : e.isTerminal = true) : (react P s e).alive = false := by
  cases e <;> simp_all [react, LoginEv.isTerminal, ClientState.alive]

/-- No terminal event so far: the reactor is still alive. -/
theorem exec_alive (P : LoginParams) (s : ClientState) (steps : List Step) (h : s.alive = true)
    (hn : ∀ e ∈ events steps, e.isTerminal = false) : (exec P s steps).alive = true := by
  induction steps generalizing s with
  | nil => exact h
  | cons a r ih =>
    rw [exec_cons]
    cases a with
    | flush =>
      obtain ⟨h1, h2⟩ := step_flush_alive P s h
      rw [h1]; exact ih _ h2 (by simpa [events] using hn)
    | recv e =>
      rw [step_recv_alive P s e h]
      simp only [events, List.mem_cons, forall_eq_or_imp] at hn
      exact ih _ (alive_react P s e h hn.1) hn.2

theorem init_alive : ClientState.init.alive = true := rfl

/-! ### Closed forms for the fields that do not depend on the schedule -/

theorem processed_cons_terminal (e : LoginEv) (es : List LoginEv) (h : e.isTerminal = true) :
    processed (e :: es) = [e] := by simp [processed, h]

theorem processed_cons_live (e : LoginEv) (es : List LoginEv) (h : e.isTerminal = false) :
    processed (e :: es) = e :: processed es := by simp [processed, h]

/-- Any observation `g` of the state that a flush does not change and that a processed event
updates by `upd` is the fold of `upd` over the processed events — whatever the schedule. -/
theorem exec_closed {β : Type} (P : LoginParams) (g : ClientState → β) (upd : β → LoginEv → β)
    (hflush : ∀ s, g s.flushQueue = g s)
    (hreact : ∀ s e, s.alive = true → g (react P s e) = upd (g s) e)
    (s : ClientState) (steps : List Step) (h : s.alive = true) :
    g (exec P s steps) = (processed (events steps)).foldl upd (g s) := by
  induction steps generalizing s with
  | nil => simp [exec_nil, events, processed]
  | cons a r ih =>
    rw [exec_cons]
    cases a with
    | flush =>
      obtain ⟨h1, h2⟩ := step_flush_alive P s h
      rw [h1, ih _ h2, hflush]; simp [events]
    | recv e =>
      rw [step_recv_alive P s e h]
      by_cases ht : e.isTerminal = true
      · have hna := alive_after_terminal P s e ht
        have hj : g (exec P (react P s e) r) = g (react P s e) := by
          rcases exec_not_alive P _ r hna with h1 | h1 <;> rw [h1]
          exact hflush _
        rw [hj, hreact s e h]
        simp [events, processed_cons_terminal e _ ht]
      · have ht' : e.isTerminal = false := by simpa using ht
        rw [ih _ (alive_react P s e h ht'), hreact s e h]
        simp [events, processed_cons_live e _ ht']

private theorem foldl_append_toList {α β : Type} (f : α → Option β) (l : List α) (a : List β) :
    l.foldl (fun acc e => acc ++ (f e).toList) a = a ++ l.filterMap f := by
  induction l generalizing a with
  | nil => simp
  | cons x xs ih =>
    simp only [List.foldl_cons, ih, List.filterMap_cons]
    cases f x <;> simp

theorem joins_exec (P : LoginParams) (s : ClientState) (steps : List Step) (h : s.alive = true) :
    (exec P s steps).joins = s.joins ++ (processed (events steps)).filterMap (expectedJoin P) := by
  rw [← foldl_append_toList]
  apply exec_closed P (fun s => s.joins) _ _ _ s steps h
  · intro s; simp [ClientState.flushQueue]
  · intro s e _
    cases e with
    | encRequest sid pk tok =>
      by_cases h1 : sid = "-" <;> by_cases h2 : P.hasToken = true <;>
        simp [react, ClientState.writeNow, expectedJoin, h1, h2]
    | setCompression t => simp [react, expectedJoin]
    | pluginRequest i c d => simp [react, expectedJoin, ClientState.enqueue]
    | success => simp [react, expectedJoin]
    | disconnect j => simp [react, expectedJoin]

private theorem foldl_orElse {α β : Type} (f : α → Option β) (l : List α) (a : Option β) :
    l.foldl (fun acc e => acc.or (f e)) a = a.or (l.findSome? f) := by
  induction l generalizing a with
  | nil => cases a <;> simp
  | cons x xs ih =>
    simp only [List.foldl_cons, ih, List.findSome?_cons]
    cases a <;> cases f x <;> simp

theorem err_exec (P : LoginParams) (s : ClientState) (steps : List Step) (h : s.alive = true) :
    (exec P s steps).err = (processed (events steps)).findSome? (errOf P) := by
  have hs : s.err = none := by
    simp only [ClientState.alive, Bool.and_eq_true] at h
    cases hs : s.err <;> simp_all
  have := exec_closed P (fun s => s.err) (fun acc e => acc.or (errOf P e))
    (by intro s; simp [ClientState.flushQueue])
    (by
      intro s e hal
      have hs : s.err = none := by
        simp only [ClientState.alive, Bool.and_eq_true] at hal
        cases hs : s.err <;> simp_all
      cases e with
      | encRequest sid pk tok =>
        by_cases h1 : sid = "-" <;> by_cases h2 : P.hasToken = true <;>
          simp [react, ClientState.writeNow, errOf, h1, h2, hs]
      | setCompression t => simp [react, errOf, hs]
      | pluginRequest i c d => simp [react, errOf, ClientState.enqueue, hs]
      | success => simp [react, errOf, hs]
      | disconnect j => simp [react, errOf, hs])
    s steps h
  rw [this, foldl_orElse, hs]; simp

private theorem foldl_reactor (l : List LoginEv) (a : Reactor) :
    l.foldl (fun acc e => if e = LoginEv.success then Reactor.play else acc) a =
      if l.contains .success then .play else a := by
  induction l generalizing a with
  | nil => simp
  | cons x xs ih =>
    simp only [List.foldl_cons, ih, List.contains_cons]
    by_cases hx : x = .success
    · subst hx; simp
    · have : (LoginEv.success == x) = false := by
        simp only [beq_eq_false_iff_ne, ne_eq]; exact fun h => hx h.symm
      simp [hx, this]

theorem reactor_exec (P : LoginParams) (s : ClientState) (steps : List Step) (h : s.alive = true) :
    (exec P s steps).reactor =
      if (processed (events steps)).contains .success then .play else .login := by
  have hs : s.reactor = .login := by
    simp only [ClientState.alive, Bool.and_eq_true] at h
    cases hr : s.reactor <;> simp_all
  have := exec_closed P (fun s => s.reactor)
    (fun acc e => if e = LoginEv.success then Reactor.play else acc)
    (by intro s; simp [ClientState.flushQueue])
    (by
      intro s e _
      cases e with
      | encRequest sid pk tok =>
        by_cases h1 : sid = "-" <;> by_cases h2 : P.hasToken = true <;>
          simp [react, ClientState.writeNow, h1, h2]
      | setCompression t => simp [react]
      | pluginRequest i c d => simp [react, ClientState.enqueue]
      | success => simp [react]
      | disconnect j => simp [react])
    s steps h
  rw [this, foldl_reactor, hs]

/-- Packets written or still queued, in order of `write_packet` calls within each kind. -/
def ClientState.pluginTrace (s : ClientState) : List ClientPkt :=
  (s.outbox.map (·.pkt) ++ s.queue).filter ClientPkt.isPlugResp

theorem pluginTrace_flush (s : ClientState) : s.flushQueue.pluginTrace = s.pluginTrace := by
  simp [ClientState.pluginTrace, ClientState.flushQueue, List.map_map, Function.comp_def]

theorem plugin_exec (P : LoginParams) (s : ClientState) (steps : List Step) (h : s.alive = true) :
    (exec P s steps).pluginTrace =
      s.pluginTrace ++ (processed (events steps)).filterMap (expectedPluginReply P) := by
  rw [← foldl_append_toList]
  apply exec_closed P (fun s => s.pluginTrace) _ _ _ s steps h
  · exact pluginTrace_flush
  · intro s e _
    cases e with
    | encRequest sid pk tok =>
      by_cases h1 : sid = "-" <;> by_cases h2 : P.hasToken = true <;>
        simp [react, ClientState.writeNow, ClientState.pluginTrace, expectedPluginReply, h1, h2,
          ClientPkt.isPlugResp]
    | setCompression t => simp [react, expectedPluginReply, ClientState.pluginTrace]
    | pluginRequest i c d =>
      have : (pluginReply P i c d).isPlugResp = true := by
        unfold pluginReply; split <;> rfl
      simp [react, ClientState.enqueue, ClientState.pluginTrace, expectedPluginReply,
        List.filter_append, this]
    | success => simp [react, expectedPluginReply, ClientState.pluginTrace]
    | disconnect j => simp [react, expectedPluginReply, ClientState.pluginTrace]

/-! ### Frames: append-only outbox, modes at write time -/

theorem step_frames (P : LoginParams) (s : ClientState) (a : Step) :
    ∃ later, (step P s a).outbox = s.outbox ++ later ∧
      (∀ f ∈ later, f.encrypted = s.encrypted ∧ f.threshold = s.threshold) ∧
      (s.encrypted = true → (step P s a).encrypted = true) ∧
      ((∀ e, a = .recv e → e.isSetCompression = false) → (step P s a).threshold = s.threshold) ∧
      ((∀ e, a = .recv e → e.isEncRequest = false) → (step P s a).encrypted = s.encrypted) := by
  cases a with
  | flush =>
    by_cases he : s.err.isSome = true
    · exact ⟨[], by simp [step, he]⟩
    · refine ⟨s.queue.map (fun p => ⟨p, s.encrypted, s.threshold, false⟩), ?_⟩
      simp [step, he, ClientState.flushQueue]
  | recv e =>
    by_cases hs : (s.err.isSome || s.reactor == .play) = true
    · exact ⟨[], by simp [step, hs]⟩
    · have hstep : step P s (.recv e) = react P s e := by simp [step, hs]
      rw [hstep]
      cases e with
      | encRequest sid pk tok =>
        refine ⟨[⟨.encResp (P.rsa.enc pk P.secret) (P.rsa.enc pk tok), s.encrypted, s.threshold, true⟩], ?_⟩
        by_cases h1 : sid = "-" <;> by_cases h2 : P.hasToken = true <;>
          simp [react, ClientState.writeNow, h1, h2, LoginEv.isEncRequest]
      | setCompression t =>
        exact ⟨[], by simp [react, LoginEv.isSetCompression]⟩
      | pluginRequest i c d => exact ⟨[], by simp [react, ClientState.enqueue]⟩
      | success => exact ⟨[], by simp [react]⟩
      | disconnect j => exact ⟨[], by simp [react]⟩

/-- Once the cipher is installed it stays, and every later frame is encrypted. -/
theorem exec_encrypted (P : LoginParams) (s : ClientState) (steps : List Step)
    (h : s.encrypted = true) :
    (exec P s steps).encrypted = true ∧
      ∃ later, (exec P s steps).outbox = s.outbox ++ later ∧ ∀ f ∈ later, f.encrypted = true := by
  induction steps generalizing s with
  | nil => exact ⟨h, [], by simp [exec_nil]⟩
  | cons a r ih =>
    rw [exec_cons]
    obtain ⟨l1, ho, hf, henc, -, -⟩ := step_frames P s a
    obtain ⟨h2, l2, ho2, hf2⟩ := ih (step P s a) (henc h)
    refine ⟨h2, l1 ++ l2, by rw [ho2, ho, List.append_assoc], ?_⟩
    intro f hfm
    rcases List.mem_append.1 hfm with hm | hm
    · rw [(hf f hm).1, h]
    · exact hf2 f hm

/-- Without a set-compression packet the threshold is constant and stamps every frame. -/
theorem exec_threshold (P : LoginParams) (s : ClientState) (steps : List Step)
    (hn : ∀ e ∈ events steps, e.isSetCompression = false) :
    (exec P s steps).threshold = s.threshold ∧
      ∃ later, (exec P s steps).outbox = s.outbox ++ later ∧
        ∀ f ∈ later, f.threshold = s.threshold := by
  induction steps generalizing s with
  | nil => exact ⟨rfl, [], by simp [exec_nil]⟩
  | cons a r ih =>
    rw [exec_cons]
    obtain ⟨l1, ho, hf, -, hthr, -⟩ := step_frames P s a
    have hthr' : (step P s a).threshold = s.threshold := by
      apply hthr; intro e he; subst he; exact hn e (by simp [events])
    have hn' : ∀ e ∈ events r, e.isSetCompression = false := by
      intro e he; apply hn; cases a <;> simp [events, he]
    obtain ⟨h2, l2, ho2, hf2⟩ := ih (step P s a) hn'
    refine ⟨by rw [h2, hthr'], l1 ++ l2, by rw [ho2, ho, List.append_assoc], ?_⟩
    intro f hfm
    rcases List.mem_append.1 hfm with hm | hm
    · exact (hf f hm).2
    · rw [hf2 f hm, hthr']

/-- Without an encryption request the cipher state is constant and stamps every frame. -/
theorem exec_plain (P : LoginParams) (s : ClientState) (steps : List Step)
    (hn : ∀ e ∈ events steps, e.isEncRequest = false) :
    (exec P s steps).encrypted = s.encrypted ∧
      ∃ later, (exec P s steps).outbox = s.outbox ++ later ∧
        ∀ f ∈ later, f.encrypted = s.encrypted := by
  induction steps generalizing s with
  | nil => exact ⟨rfl, [], by simp [exec_nil]⟩
  | cons a r ih =>
    rw [exec_cons]
    obtain ⟨l1, ho, hf, -, -, henc⟩ := step_frames P s a
    have henc' : (step P s a).encrypted = s.encrypted := by
      apply henc; intro e he; subst he; exact hn e (by simp [events])
    have hn' : ∀ e ∈ events r, e.isEncRequest = false := by
      intro e he; apply hn; cases a <;> simp [events, he]
    obtain ⟨h2, l2, ho2, hf2⟩ := ih (step P s a) hn'
    refine ⟨by rw [h2, henc'], l1 ++ l2, by rw [ho2, ho, List.append_assoc], ?_⟩
    intro f hfm
    rcases List.mem_append.1 hfm with hm | hm
    · exact (hf f hm).1
    · rw [hf2 f hm, henc']

/-- A run that ends with a flush and raised nothing has an empty queue. -/
theorem queue_after_flush (P : LoginParams) (s : ClientState) (pre : List Step)
    (h : (exec P s (pre ++ [.flush])).err = none) : (exec P s (pre ++ [.flush])).queue = [] := by
  rw [exec_append] at h ⊢
  generalize exec P s pre = t at h ⊢
  by_cases he : t.err.isSome = true
  · simp [exec, step, he] at h; simp [h] at he
  · simp [exec, step, he, ClientState.flushQueue]

/-! ### Small facts used by the property theorems -/

theorem processed_of_live (l : List LoginEv) (h : ∀ e ∈ l, e.isTerminal = false) :
    processed l = l := by
  induction l with
  | nil => rfl
  | cons x xs ih =>
    simp only [List.mem_cons, forall_eq_or_imp] at h
    rw [processed_cons_live x xs h.1, ih h.2]

theorem processed_append_terminal (a b : List LoginEv) (e : LoginEv)
    (h : ∀ x ∈ a, x.isTerminal = false) (he : e.isTerminal = true) :
    processed (a ++ e :: b) = a ++ [e] := by
  induction a with
  | nil => simp [processed, he]
  | cons x xs ih =>
    simp only [List.mem_cons, forall_eq_or_imp] at h
    rw [List.cons_append, processed_cons_live x _ h.1, ih h.2]; rfl

theorem react_encRequest (P : LoginParams) (s : ClientState) (sid : String) (pk tok : Bytes) :
    (react P s (.encRequest sid pk tok)).outbox =
        s.outbox ++ [⟨.encResp (P.rsa.enc pk P.secret) (P.rsa.enc pk tok), s.encrypted,
          s.threshold, true⟩] ∧
      (react P s (.encRequest sid pk tok)).encrypted = true := by
  by_cases h1 : sid = "-" <;> by_cases h2 : P.hasToken = true <;>
    simp [react, ClientState.writeNow, h1, h2]

theorem exec_snoc (P : LoginParams) (s : ClientState) (pre : List Step) (a : Step) :
    exec P s (pre ++ [a]) = step P (exec P s pre) a := by
  rw [exec_append]; rfl

theorem exec_mid (P : LoginParams) (s : ClientState) (pre post : List Step) (a : Step) :
    exec P s (pre ++ a :: post) = exec P (step P (exec P s pre) a) post := by
  rw [exec_append, exec_cons]

/-- Parameters used by the non-vacuity examples: RSA is "prefix the key's first byte" with the
inverse "drop one byte" (so ciphertexts differ from plaintexts), a token is present, JSON text
extraction knows one object, and no plugin handler is installed. -/
def demoParams : LoginParams :=
  { rsa := { enc := fun k m => k.head! :: m, dec := fun _ c => c.drop 1,
             matching := fun _ _ => True, law := fun _ _ _ _ => rfl },
    secret := [1, 2, 3],
    hash := fun sid sec pk => sid ++ "/" ++ hexOut sec ++ "/" ++ hexOut pk,
    hasToken := true,
    jsonText := fun j =>
      if j = "{\"text\": \"Outdated server! I'm still on 1.8.9\"}" then
        .str "Outdated server! I'm still on 1.8.9"
      else if j = "{\"text\": 5}" then .nonStr else .absent,
    handler := fun _ _ _ => none }

end PyCraft.Login
