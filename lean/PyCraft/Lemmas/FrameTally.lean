import PyCraft.Lemmas.FrameParse
/-!
The read counters of the framing reader.  `Mono k k'` is the potential argument: every `read` that
returns something consumes at least one byte, every `read` that returns `b''` is counted in
`empties`; so `reads + remaining bytes` can only grow by the number of empty reads.
-/
namespace PyCraft

/-- `k'` is reachable from `k` by issuing reads. -/
def Mono {σ : Type} (k k' : Sock σ) : Prop :=
  k'.rem ≤ k.rem ∧ k.empties ≤ k'.empties ∧
    k'.reads + k'.rem + k.empties ≤ k.reads + k.rem + k'.empties

theorem Mono.refl {σ : Type} (k : Sock σ) : Mono k k := ⟨Nat.le_refl _, Nat.le_refl _, Nat.le_refl _⟩

theorem Mono.trans {σ : Type} {a b c : Sock σ} (h1 : Mono a b) (h2 : Mono b c) : Mono a c := by
  unfold Mono at *; omega

theorem Sock.read_mono {σ : Type} (x : StreamXform σ) (k : Sock σ) (n : Nat) :
    Mono k (k.read x n).2 := by
  obtain ⟨-, -, -, h4, h5, h6⟩ := Sock.read_spec x k n
  unfold Mono
  by_cases hg : (k.read x n).1 = []
  · simp only [hg, if_true, List.length_nil] at h5 h6; omega
  · have := List.length_pos_iff.mpr hg
    simp only [hg, if_false] at h5; omega

theorem Sock.read_empties {σ : Type} (x : StreamXform σ) (k : Sock σ) (n : Nat) :
    (k.read x n).2.empties = k.empties + (if (k.read x n).1 = [] then 1 else 0) :=
  (Sock.read_spec x k n).2.2.2.2.1

/-- a read issued on an exhausted stream returns `b''` (so it is counted in `empties`) -/
theorem Sock.read_exhausted {σ : Type} (x : StreamXform σ) (k : Sock σ) (n : Nat)
    (h : k.rem = 0) : (k.read x n).1 = [] := by
  have h6 := (Sock.read_spec x k n).2.2.2.2.2
  exact List.eq_nil_of_length_eq_zero (by omega)

theorem readVarIntK_tally {σ : Type} (x : StreamXform σ) (mx : Nat) :
    ∀ (bs : Bytes) (be acc : Nat) (k : Sock σ), ahead x k = bs →
    Mono k (readVarIntK x mx be acc k).2 ∧
    (∀ v, (readVarIntK x mx be acc k).1 = .ok v →
      (readVarIntK x mx be acc k).2.empties = k.empties) ∧
    (readVarIntK x mx be acc k).2.empties ≤ k.empties + 1 := by
  intro bs
  induction bs with
  | nil =>
    intro be acc k hk
    have hm := Sock.read_mono x k 1
    have he := Sock.read_empties x k 1
    rcases Sock.read_one x k with ⟨_, hg⟩ | ⟨b, _, hb⟩
    · rw [readVarIntK]; simp only [hg]
      simp only [hg, if_true] at he
      refine ⟨hm, ?_, by omega⟩
      intro v h; cases h
    · rw [hk] at hb; cases hb
  | cons b tl ih =>
    intro be acc k hk
    have hm := Sock.read_mono x k 1
    have he := Sock.read_empties x k 1
    rcases Sock.read_one x k with ⟨h0, _⟩ | ⟨b', hg, hb⟩
    · rw [hk] at h0; cases h0
    · rw [hk] at hb
      injection hb with hb1 hb2
      simp only [hg] at he
      have he' : (k.read x 1).2.empties = k.empties := by simpa using he
      rw [readVarIntK]; simp only [hg]
      split
      · dsimp only
        exact ⟨hm, fun _ _ => he', by omega⟩
      · split
        · dsimp only
          refine ⟨hm, ?_, by omega⟩
          intro v h; cases h
        · obtain ⟨i1, i2, i3⟩ := ih (be + 1)
            (acc ||| ((b'.toNat &&& 0x7F) <<< (7 * be))) (k.read x 1).2 hb2.symm
          refine ⟨hm.trans i1, ?_, by omega⟩
          intro v h; rw [i2 v h, he']

theorem readMoreK_tally {σ : Type} (x : StreamXform σ) (length : Nat) :
    ∀ (m : Nat) (data : Bytes) (k : Sock σ), length - data.length = m →
    Mono k (readMoreK x length data k).2 ∧
    (∀ d, (readMoreK x length data k).1 = .ok d →
      (readMoreK x length data k).2.empties = k.empties) ∧
    (readMoreK x length data k).2.empties ≤ k.empties + 1 := by
  intro m
  induction m using Nat.strongRecOn with
  | _ m ih =>
    intro data k hm
    rw [readMoreK]
    by_cases hlt : data.length < length
    · rw [dif_pos hlt]
      have hmo := Sock.read_mono x k (length - data.length)
      have he := Sock.read_empties x k (length - data.length)
      by_cases hg : (k.read x (length - data.length)).1 = []
      · simp only [hg, dite_true]
        simp only [hg, if_true] at he
        refine ⟨hmo, ?_, by omega⟩
        intro d h; cases h
      · simp only [hg, dite_false]
        simp only [hg, if_false, Nat.add_zero] at he
        have hpos := List.length_pos_iff.mpr hg
        obtain ⟨i1, i2, i3⟩ := ih (length - (data ++ (k.read x (length - data.length)).1).length)
          (by simp only [List.length_append]; omega)
          (data ++ (k.read x (length - data.length)).1) (k.read x (length - data.length)).2 rfl
        refine ⟨hmo.trans i1, ?_, by omega⟩
        intro d h; rw [i2 d h, he]
    · rw [dif_neg hlt]
      exact ⟨Mono.refl k, fun _ _ => rfl, Nat.le_add_right _ _⟩

theorem readMoreK_done {σ : Type} (x : StreamXform σ) (length : Nat) (data : Bytes) (k : Sock σ)
    (h : length ≤ data.length) : readMoreK x length data k = (.ok data, k) := by
  rw [readMoreK, dif_neg (by omega)]

theorem parseBody_nil (z : ZlibOps) (c : Bool) : parseBody z c [] = .error .eof := by
  cases c <;> simp [parseBody, decVarInt, decVarIntAux]

/-- counters of `readFrameK` -/
theorem readFrameK_tally {σ : Type} (x : StreamXform σ) (k : Sock σ) :
    Mono k (readFrameK x k).2 ∧
    (readFrameK x k).2.empties ≤ k.empties + 2 ∧
    (∀ data, (readFrameK x k).1 = .ok data → data ≠ [] →
      (readFrameK x k).2.empties = k.empties) ∧
    (k.empties + 2 ≤ (readFrameK x k).2.empties →
      ∃ len, 0 < len ∧ decVarInt 5 (ahead x k) = .ok (len, [])) := by
  obtain ⟨v1, v2, v3⟩ := readVarIntK_tally x 5 (ahead x k) 0 0 k rfl
  have hv := readVarIntK_spec x 5 (ahead x k) 0 0 k rfl
  unfold readFrameK
  generalize hr : readVarIntK x 5 0 0 k = r at *
  obtain ⟨res, k1⟩ := r
  cases res with
  | error e =>
    simp only at v1 v2 v3 ⊢
    refine ⟨v1, by omega, ?_, by omega⟩
    intro data h; cases h
  | ok len =>
    simp only at v1 v2 v3 ⊢
    have hk1 : k1.empties = k.empties := v2 len rfl
    have hmo := Sock.read_mono x k1 len
    have he := Sock.read_empties x k1 len
    obtain ⟨r1, r2, r3, -⟩ := Sock.read_spec x k1 len
    obtain ⟨m1, m2, m3⟩ := readMoreK_tally x len _ (k1.read x len).1 (k1.read x len).2 rfl
    have hms := readMoreK_spec x len _ (k1.read x len).1 (k1.read x len).2 rfl
    have hdone := readMoreK_done x len (k1.read x len).1 (k1.read x len).2
    generalize (k1.read x len).1 = got at *
    generalize (k1.read x len).2 = k2 at *
    refine ⟨(v1.trans hmo).trans m1, ?_, ?_, ?_⟩
    · split at he <;> omega
    · intro data hd hne
      rw [m2 data hd, he, hk1]
      by_cases hg : got = []
      · exfalso
        subst hg
        by_cases hz : len = 0
        · rw [hdone (by simp [hz])] at hd
          injection hd with hd; exact hne hd.symm
        · have hnil := (r3 (by omega)).mp rfl
          rw [hnil] at r1
          simp only [List.nil_append] at r1
          obtain ⟨k', e1⟩ := hms.2 (by rw [r1]; simp; omega)
          rw [e1] at hd; cases hd
      · simp [hg]
    · intro h2
      by_cases hg : got = []
      · subst hg
        by_cases hz : len = 0
        · rw [hdone (by simp [hz])] at h2
          simp only [if_true] at he
          dsimp only at h2
          omega
        · have hnil := (r3 (by omega)).mp rfl
          refine ⟨len, by omega, ?_⟩
          cases hd : decVarIntAux 5 0 0 (ahead x k) with
          | error e =>
            obtain ⟨k', e1⟩ := hv.2 e hd
            cases e1
          | ok vr =>
            obtain ⟨v, rest⟩ := vr
            obtain ⟨k', e1, e2⟩ := hv.1 v rest hd
            injection e1 with e1a e1b
            injection e1a with e1a
            subst e1a; subst e1b
            unfold decVarInt
            rw [hd, ← e2, hnil]
      · simp only [hg, if_false] at he
        omega

/-- counters of `readPacketK`: at most two empty reads, none when a packet is delivered, and two
only when the stream ends exactly behind a non-zero length prefix -/
theorem readPacketK_tally {σ : Type} (x : StreamXform σ) (z : ZlibOps) (c : Bool) (k : Sock σ) :
    Mono k (readPacketK x z c k).2 ∧
    (readPacketK x z c k).2.empties ≤ k.empties + 2 ∧
    (∀ p, (readPacketK x z c k).1 = .ok p → (readPacketK x z c k).2.empties = k.empties) ∧
    (k.empties + 2 ≤ (readPacketK x z c k).2.empties →
      ∃ len, 0 < len ∧ decVarInt 5 (ahead x k) = .ok (len, [])) := by
  obtain ⟨f1, f2, f3, f4⟩ := readFrameK_tally x k
  unfold readPacketK
  generalize readFrameK x k = r at *
  obtain ⟨res, k1⟩ := r
  cases res with
  | error e =>
    simp only at f1 f2 f3 f4 ⊢
    exact ⟨f1, f2, fun p h => (by cases h), f4⟩
  | ok data =>
    simp only at f1 f2 f3 f4 ⊢
    refine ⟨f1, f2, ?_, f4⟩
    intro p hp
    apply f3 data rfl
    intro hd; subst hd
    rw [parseBody_nil] at hp; cases hp

theorem readAllFuel_tally {σ : Type} (x : StreamXform σ) (z : ZlibOps) (c : Bool) :
    ∀ (fuel : Nat) (k : Sock σ),
    Mono k (readAllFuel x z c fuel k).2 ∧
    (readAllFuel x z c fuel k).2.empties ≤ k.empties + 2 := by
  intro fuel
  induction fuel with
  | zero => intro k; exact ⟨Mono.refl k, by simp [readAllFuel]⟩
  | succ fuel ih =>
    intro k
    obtain ⟨p1, p2, p3, -⟩ := readPacketK_tally x z c k
    simp only [readAllFuel]
    generalize readPacketK x z c k = r at *
    obtain ⟨res, k1⟩ := r
    cases res with
    | error e => exact ⟨p1, p2⟩
    | ok p =>
      simp only at p1 p2 p3 ⊢
      obtain ⟨i1, i2⟩ := ih k1
      have := p3 p rfl
      exact ⟨p1.trans i1, by omega⟩

end PyCraft
