import PyCraft.Lemmas.C14Compose
import PyCraft.Lemmas.C14ComposeHx
/-!
Helper lemmas for `Props/C14Compose.lean`, sequential part, continued: the shape of the thread log
(`readLoop`, `runLoop`, `runThreadWith`) for every `Code` whose `_react` satisfies its
specification, and the projection of the stateful `_handle_exception` (`hx`) onto the pure
`handleException` of `Model/Handlers.lean`.
-/
namespace PyCraft.ExcFlow
open PyCraft
set_option linter.unusedSimpArgs false

/-! ## Vocabulary for logs -/

/-- No event of the log let an exception escape. -/
def Clean (log : List TEv) : Prop := ∀ x ∈ log, x.raisedExc = none

/-- Only events of `_run` / `_handle_exit`. -/
def AllAct (log : List TEv) : Prop := ∀ x ∈ log, x.isActivity = true

/-- The LAST event of the log let `e` escape and no earlier event let anything escape. -/
def EndsIn (log : List TEv) (e : Exc) : Prop :=
  ∃ pre ev, log = pre ++ [ev] ∧ ev.raisedExc = some e ∧ Clean pre

theorem Clean.nil : Clean [] := fun _ h => by cases h

theorem Clean.append {a b : List TEv} (ha : Clean a) (hb : Clean b) : Clean (a ++ b) := by
  intro x hx
  rcases List.mem_append.mp hx with h | h
  · exact ha x h
  · exact hb x h

theorem Clean.cons {x : TEv} {a : List TEv} (hx : x.raisedExc = none) (ha : Clean a) :
    Clean (x :: a) := by
  intro y hy
  rcases List.mem_cons.mp hy with h | h
  · subst h; exact hx
  · exact ha y h

theorem Clean.single {x : TEv} (hx : x.raisedExc = none) : Clean [x] := Clean.cons hx Clean.nil

theorem AllAct.nil : AllAct [] := fun _ h => by cases h

theorem AllAct.append {a b : List TEv} (ha : AllAct a) (hb : AllAct b) : AllAct (a ++ b) := by
  intro x hx
  rcases List.mem_append.mp hx with h | h
  · exact ha x h
  · exact hb x h

theorem AllAct.cons {x : TEv} {a : List TEv} (hx : x.isActivity = true) (ha : AllAct a) :
    AllAct (x :: a) := by
  intro y hy
  rcases List.mem_cons.mp hy with h | h
  · subst h; exact hx
  · exact ha y h

theorem AllAct.cbs (l : List DEv) : AllAct (l.map TEv.cb) := by
  intro x hx
  obtain ⟨d, -, rfl⟩ := List.mem_map.mp hx
  rfl

theorem EndsIn.single {ev : TEv} {e : Exc} (h : ev.raisedExc = some e) : EndsIn [ev] e :=
  ⟨[], ev, rfl, h, Clean.nil⟩

theorem EndsIn.prepend {a b : List TEv} {e : Exc} (ha : Clean a) (hb : EndsIn b e) :
    EndsIn (a ++ b) e := by
  obtain ⟨pre, ev, rfl, h1, h2⟩ := hb
  exact ⟨a ++ pre, ev, by simp, h1, ha.append h2⟩

theorem EndsIn.cons {x : TEv} {b : List TEv} {e : Exc} (hx : x.raisedExc = none)
    (hb : EndsIn b e) : EndsIn (x :: b) e :=
  EndsIn.prepend (a := [x]) (Clean.single hx) hb

theorem EndsIn.snoc {a : List TEv} {ev : TEv} {e : Exc} (ha : Clean a)
    (h : ev.raisedExc = some e) : EndsIn (a ++ [ev]) e :=
  ⟨a, ev, rfl, h, ha⟩

/-- A log that ends in an escaping event has exactly that one. -/
theorem EndsIn.unique {log : List TEv} {e : Exc} (h : EndsIn log e) (pre : List TEv) (ev : TEv)
    (post : List TEv) (x : Exc) (hl : log = pre ++ ev :: post) (hx : ev.raisedExc = some x) :
    post = [] ∧ x = e ∧ Clean pre := by
  obtain ⟨p, l, rfl, h1, h2⟩ := h
  have hpost : post = [] := by
    rcases List.eq_nil_or_concat post with hp | ⟨L, b, hp⟩
    · exact hp
    · exfalso
      rw [hp, List.concat_eq_append] at hl
      have hl' : p ++ [l] = (pre ++ ev :: L) ++ [b] := by simpa using hl
      obtain ⟨e1, -⟩ := List.append_inj' hl' rfl
      have := h2 ev (by rw [e1]; simp)
      rw [hx] at this; cases this
  subst hpost
  obtain ⟨e1, e2⟩ := List.append_inj' hl rfl
  simp only [List.cons.injEq, and_true] at e2
  subst e1 e2
  rw [h1] at hx
  exact ⟨rfl, (Option.some.inj hx).symm, h2⟩

/-! ## Code fragments that satisfy the specification -/

/-- What the loop proofs need to know about the code fragments: `_react` lets an exception escape
exactly when its last callback raised it, it only performs API calls, and `_run` sees the result
of `read_packet` unchanged. -/
structure CodeOK (K : Code) : Prop where
  esc : ∀ cls c e, (K.react cls c).2.2 = .escaped e → EndsIn ((K.react cls c).1.map TEv.cb) e
  noesc : ∀ cls c, (∀ e, (K.react cls c).2.2 ≠ .escaped e) → Clean ((K.react cls c).1.map TEv.cb)
  le : ∀ cls (c : Conn), c.Le (K.react cls c).2.1
  seen : ∀ r, K.readSeen r = r

theorem applyDiscs_le (log : List DEv) : ∀ c : Conn, c.Le (applyDiscs c log) := by
  induction log with
  | nil => intro c; exact Conn.Le.refl c
  | cons ev log ih =>
    intro c
    simp only [applyDiscs, List.foldl_cons]
    by_cases hd : ev.disc = true
    · simp only [hd, ↓reduceIte]
      exact (disconnect_le c).trans (ih _)
    · simp only [hd, Bool.false_eq_true, ↓reduceIte]
      exact ih _

/-- `cutAfterFirst`: everything before the cut fails the test, the last element (if the test ever
succeeds) passes it. -/
theorem cut_shape {α : Type} (p : α → Bool) (xs : List α) :
    (xs.find? p = none ∧ cutAfterFirst p xs = xs ∧ ∀ x ∈ xs, p x = false) ∨
    (∃ pre ev, xs.find? p = some ev ∧ cutAfterFirst p xs = pre ++ [ev] ∧ p ev = true ∧
      ∀ x ∈ pre, p x = false) := by
  induction xs with
  | nil => left; simp [cutAfterFirst_nil]
  | cons x xs ih =>
    by_cases hx : p x = true
    · right
      exact ⟨[], x, by simp [hx], by simp [cutAfterFirst_cons, hx], hx, by simp⟩
    · simp only [Bool.not_eq_true] at hx
      rcases ih with ⟨h1, h2, h3⟩ | ⟨pre, ev, h1, h2, h3, h4⟩
      · left
        refine ⟨by simp [hx, h1], by simp [cutAfterFirst_cons, hx, h2], ?_⟩
        intro y hy
        rcases List.mem_cons.mp hy with h | h
        · subst h; exact hx
        · exact h3 y h
      · right
        refine ⟨x :: pre, ev, by simp [hx, h1], by simp [cutAfterFirst_cons, hx, h2], h3, ?_⟩
        intro y hy
        rcases List.mem_cons.mp hy with h | h
        · subst h; exact hx
        · exact h4 y h

theorem pyCode_ok (S : Setup) : CodeOK (pyCode S) := by
  refine ⟨?_, ?_, ?_, fun _ => rfl⟩
  · intro cls c e h
    simp only [pyCode, reactX_eq] at h ⊢
    rcases cut_shape DEv.notOk (stagesX S.hier S.early S.ordinary (S.rx cls) cls) with
      ⟨hf, -, -⟩ | ⟨pre, ev, hf, hc, hp, hpre⟩
    · rw [hf] at h; simp [classify] at h
    · rw [hf] at h
      rw [hc]
      simp only [List.map_append, List.map_cons, List.map_nil]
      refine EndsIn.snoc ?_ ?_
      · intro x hx
        obtain ⟨d, hd, rfl⟩ := List.mem_map.mp hx
        have := hpre d hd
        simp only [DEv.notOk, Bool.not_eq_false'] at this
        simp only [TEv.raisedExc]
        cases ho : d.out <;> simp_all [LOut.isOk, LOut.raised]
      · simp only [TEv.raisedExc]
        cases ho : ev.out <;> simp_all [classify, LOut.raised]
  · intro cls c h
    simp only [pyCode, reactX_eq] at h ⊢
    rcases cut_shape DEv.notOk (stagesX S.hier S.early S.ordinary (S.rx cls) cls) with
      ⟨hf, hc, hall⟩ | ⟨pre, ev, hf, hc, hp, hpre⟩
    · rw [hc]
      intro x hx
      obtain ⟨d, hd, rfl⟩ := List.mem_map.mp hx
      have := hall d hd
      simp only [DEv.notOk, Bool.not_eq_false'] at this
      simp only [TEv.raisedExc]
      cases ho : d.out <;> simp_all [LOut.isOk, LOut.raised]
    · rw [hf] at h
      rw [hc]
      intro x hx
      obtain ⟨d, hd, rfl⟩ := List.mem_map.mp hx
      simp only [TEv.raisedExc]
      rcases List.mem_append.mp hd with hd | hd
      · have := hpre d hd
        simp only [DEv.notOk, Bool.not_eq_false'] at this
        cases ho : d.out <;> simp_all [LOut.isOk, LOut.raised]
      · simp only [List.mem_singleton] at hd
        subst hd
        cases ho : d.out with
        | ok => rfl
        | ignore => rfl
        | raises e => exact absurd (by simp [classify, ho]) (h e)
  · intro cls c
    simp only [pyCode, reactX_eq]
    exact applyDiscs_le _ c

/-! ## The read loop -/

theorem forgivenEv_ok (pend : Option Exc) (d : Bool) :
    Clean (forgivenEv pend d) ∧ AllAct (forgivenEv pend d) := by
  cases pend with
  | none => exact ⟨Clean.nil, AllAct.nil⟩
  | some e =>
    cases d
    · exact ⟨Clean.nil, AllAct.nil⟩
    · exact ⟨Clean.single rfl, AllAct.cons rfl AllAct.nil⟩

theorem readLoop_stop (K : Code) (rs : List RdRes) (np : Nat) (pend : Option Exc) (c : Conn)
    (h : (decide (np < 50) && !c.selfIntr) = false) :
    readLoop K rs np pend c = ⟨[], c, pend, rs, none⟩ := by
  cases rs <;> simp [readLoop, h]

theorem readLoop_nil (K : Code) (np : Nat) (pend : Option Exc) (c : Conn)
    (h : (decide (np < 50) && !c.selfIntr) = true) :
    readLoop K [] np pend c = ⟨[.read .none], c, pend, [], none⟩ := by
  simp [readLoop, h]

theorem readLoop_cons_none (K : Code) (r : RdRes) (rs : List RdRes) (np : Nat)
    (pend : Option Exc) (c : Conn) (h : (decide (np < 50) && !c.selfIntr) = true)
    (hs : K.readSeen r = .none) :
    readLoop K (r :: rs) np pend c = ⟨[.read r], c, pend, rs, none⟩ := by
  rw [readLoop]; simp only [h, ↓reduceIte, hs]

theorem readLoop_cons_raises (K : Code) (r : RdRes) (rs : List RdRes) (np : Nat)
    (pend : Option Exc) (c : Conn) (h : (decide (np < 50) && !c.selfIntr) = true) (e : Exc)
    (hs : K.readSeen r = .raises e) :
    readLoop K (r :: rs) np pend c = ⟨[.read r], c, pend, rs, some e⟩ := by
  rw [readLoop]; simp only [h, ↓reduceIte, hs]

theorem readLoop_cons_esc (K : Code) (r : RdRes) (rs : List RdRes) (np : Nat)
    (pend : Option Exc) (c : Conn) (h : (decide (np < 50) && !c.selfIntr) = true) (cls : Nat)
    (d : Bool) (hs : K.readSeen r = .packet cls d) (e : Exc)
    (hx : (K.react cls c).2.2 = .escaped e) :
    readLoop K (r :: rs) np pend c =
      ⟨.read r :: (K.react cls c).1.map .cb, (K.react cls c).2.1, pend, rs, some e⟩ := by
  rw [readLoop]; simp only [h, ↓reduceIte, hs, hx]

theorem readLoop_cons_ok (K : Code) (r : RdRes) (rs : List RdRes) (np : Nat)
    (pend : Option Exc) (c : Conn) (h : (decide (np < 50) && !c.selfIntr) = true) (cls : Nat)
    (d : Bool) (hs : K.readSeen r = .packet cls d)
    (hx : ∀ e, (K.react cls c).2.2 ≠ .escaped e) :
    readLoop K (r :: rs) np pend c =
      ⟨.read r :: (K.react cls c).1.map .cb ++
          forgivenEv pend d ++
          (readLoop K rs (np + 1) (if d then none else pend) (K.react cls c).2.1).log,
        (readLoop K rs (np + 1) (if d then none else pend) (K.react cls c).2.1).conn,
        (readLoop K rs (np + 1) (if d then none else pend) (K.react cls c).2.1).pend,
        (readLoop K rs (np + 1) (if d then none else pend) (K.react cls c).2.1).rest,
        (readLoop K rs (np + 1) (if d then none else pend) (K.react cls c).2.1).exc⟩ := by
  rw [readLoop]
  simp only [h, ↓reduceIte, hs]

/-- Shape of the read loop for code that satisfies the specification. -/
theorem readLoop_shape (K : Code) (hK : CodeOK K) : ∀ (rs : List RdRes) (np : Nat)
    (pend : Option Exc) (c : Conn),
    (∀ e, (readLoop K rs np pend c).exc = some e → EndsIn (readLoop K rs np pend c).log e) ∧
    ((readLoop K rs np pend c).exc = none → Clean (readLoop K rs np pend c).log) ∧
    AllAct (readLoop K rs np pend c).log ∧
    c.Le (readLoop K rs np pend c).conn ∧
    (readLoop K rs np pend c).rest <:+ rs := by
  intro rs
  induction rs with
  | nil =>
    intro np pend c
    by_cases h : (decide (np < 50) && !c.selfIntr) = true
    · rw [readLoop_nil K np pend c h]
      refine ⟨fun e he => (by cases he), fun _ => Clean.single rfl, AllAct.cons rfl AllAct.nil,
        Conn.Le.refl c, List.suffix_refl _⟩
    · rw [readLoop_stop K [] np pend c (by simpa using h)]
      exact ⟨fun e he => (by cases he), fun _ => Clean.nil, AllAct.nil, Conn.Le.refl c,
        List.suffix_refl _⟩
  | cons r rs ih =>
    intro np pend c
    by_cases h : (decide (np < 50) && !c.selfIntr) = true
    · have hseen := hK.seen r
      cases hr : r with
      | none =>
        rw [← hr, readLoop_cons_none K r rs np pend c h (by rw [hseen, hr])]
        exact ⟨fun e he => (by cases he), fun _ => Clean.single (by rw [hr]; rfl),
          AllAct.cons rfl AllAct.nil, Conn.Le.refl c, List.suffix_cons _ _⟩
      | raises e0 =>
        rw [← hr, readLoop_cons_raises K r rs np pend c h e0 (by rw [hseen, hr])]
        refine ⟨fun e he => ?_, fun he => (by cases he), AllAct.cons rfl AllAct.nil,
          Conn.Le.refl c, List.suffix_cons _ _⟩
        simp only [Option.some.injEq] at he
        subst he
        exact EndsIn.single (by rw [hr]; rfl)
      | packet cls d =>
        have hrd : (TEv.read r).raisedExc = none := by rw [hr]; rfl
        by_cases hx : ∃ e0, (K.react cls c).2.2 = .escaped e0
        · obtain ⟨e0, hx⟩ := hx
          rw [← hr, readLoop_cons_esc K r rs np pend c h cls d (by rw [hseen, hr]) e0 hx]
          refine ⟨fun e he => ?_, fun he => (by cases he),
            AllAct.cons rfl (AllAct.cbs _), hK.le cls c, List.suffix_cons _ _⟩
          simp only [Option.some.injEq] at he
          subst he
          exact EndsIn.cons hrd (hK.esc cls c _ hx)
        · have hx' : ∀ e, (K.react cls c).2.2 ≠ .escaped e := fun e he => hx ⟨e, he⟩
          rw [← hr, readLoop_cons_ok K r rs np pend c h cls d (by rw [hseen, hr]) hx']
          have hcl := hK.noesc cls c hx'
          obtain ⟨a1, a2, a3, a4, a5⟩ := ih (np + 1) (if d = true then none else pend)
            (K.react cls c).2.1
          have hfg := forgivenEv_ok pend d
          refine ⟨fun e he => ?_, fun he => ?_, ?_, (hK.le cls c).trans a4,
            List.IsSuffix.trans a5 (List.suffix_cons _ _)⟩
          · rw [List.cons_append, List.cons_append]
            refine EndsIn.cons hrd ?_
            rw [List.append_assoc]
            exact EndsIn.prepend hcl (EndsIn.prepend hfg.1 (a1 e he))
          · rw [List.cons_append, List.cons_append]
            refine Clean.cons hrd ?_
            exact (hcl.append hfg.1).append (a2 he)
          · rw [List.cons_append, List.cons_append]
            exact AllAct.cons rfl (((AllAct.cbs _).append hfg.2).append a3)
    · rw [readLoop_stop K (r :: rs) np pend c (by simpa using h)]
      exact ⟨fun e he => (by cases he), fun _ => Clean.nil, AllAct.nil, Conn.Le.refl c,
        List.suffix_refl _⟩

/-- Fate of the deferred write error inside the read loop: it is still pending at the end, or it
was forgiven — and it is forgiven only at a disconnect packet that was read and dispatched. -/
theorem readLoop_pend (K : Code) (hK : CodeOK K) : ∀ (rs : List RdRes) (np : Nat)
    (pend : Option Exc) (c : Conn),
    ((readLoop K rs np pend c).pend = pend ∨
      ((readLoop K rs np pend c).pend = none ∧
        ∃ e0, pend = some e0 ∧ TEv.forgiven e0 ∈ (readLoop K rs np pend c).log)) ∧
    (∀ e, TEv.forgiven e ∈ (readLoop K rs np pend c).log →
      pend = some e ∧ (readLoop K rs np pend c).pend = none ∧ ∃ a cls b,
        (readLoop K rs np pend c).log = a ++ TEv.read (.packet cls true) :: b) := by
  intro rs
  induction rs with
  | nil =>
    intro np pend c
    by_cases h : (decide (np < 50) && !c.selfIntr) = true
    · rw [readLoop_nil K np pend c h]; simp
    · rw [readLoop_stop K [] np pend c (by simpa using h)]; simp
  | cons r rs ih =>
    intro np pend c
    by_cases h : (decide (np < 50) && !c.selfIntr) = true
    · have hseen := hK.seen r
      cases hr : r with
      | none => rw [← hr, readLoop_cons_none K r rs np pend c h (by rw [hseen, hr])]; simp
      | raises e0 =>
        rw [← hr, readLoop_cons_raises K r rs np pend c h e0 (by rw [hseen, hr])]; simp
      | packet cls d =>
        by_cases hx : ∃ e0, (K.react cls c).2.2 = .escaped e0
        · obtain ⟨e0, hx⟩ := hx
          rw [← hr, readLoop_cons_esc K r rs np pend c h cls d (by rw [hseen, hr]) e0 hx]
          simp
        · have hx' : ∀ e, (K.react cls c).2.2 ≠ .escaped e := fun e he => hx ⟨e, he⟩
          rw [← hr, readLoop_cons_ok K r rs np pend c h cls d (by rw [hseen, hr]) hx']
          obtain ⟨i1, i2⟩ := ih (np + 1) (if d = true then none else pend) (K.react cls c).2.1
          simp only
          constructor
          · cases d with
            | true =>
              simp only [↓reduceIte] at i1
              have hk : (readLoop K rs (np + 1) none (K.react cls c).2.1).pend = none := by
                rcases i1 with g | ⟨g, -⟩ <;> exact g
              simp only [↓reduceIte, hk]
              cases pend with
              | none => exact .inl rfl
              | some e0 => exact .inr ⟨trivial, e0, rfl, by simp [forgivenEv]⟩
            | false =>
              simp only [Bool.false_eq_true, ↓reduceIte] at i1 ⊢
              rcases i1 with g | ⟨g, e0, g1, g2⟩
              · exact .inl g
              · exact .inr ⟨g, e0, g1, by simp [g2]⟩
          · intro e he
            simp only [List.cons_append, List.mem_cons, reduceCtorEq, List.mem_append,
              List.mem_map, false_or, and_false, exists_false] at he
            rcases he with he | he
            · -- forgiven right here
              cases pend with
              | none => simp [forgivenEv] at he
              | some e1 =>
                cases d with
                | false => simp [forgivenEv] at he
                | true =>
                  simp only [forgivenEv, ↓reduceIte, List.mem_singleton, TEv.forgiven.injEq] at he
                  subst he
                  have hk : (readLoop K rs (np + 1) none (K.react cls c).2.1).pend = none := by
                    simp only [↓reduceIte] at i1
                    rcases i1 with g | ⟨g, -⟩ <;> exact g
                  refine ⟨rfl, by simpa using hk, [], cls, List.map TEv.cb (K.react cls c).1 ++
                    forgivenEv (some e) true ++
                    (readLoop K rs (np + 1) (if true = true then none else some e)
                      (K.react cls c).2.1).log, ?_⟩
                  rw [hr]; simp
            · obtain ⟨j1, j3, a, cls', b, j2⟩ := i2 e he
              cases d with
              | true => simp at j1
              | false =>
                simp only [Bool.false_eq_true, ↓reduceIte] at j1 j2 j3
                refine ⟨j1, by simpa using j3, TEv.read r :: (List.map TEv.cb (K.react cls c).1 ++
                  forgivenEv pend false ++ a), cls', b, ?_⟩
                simp only [Bool.false_eq_true, ↓reduceIte, j2]
                simp
    · rw [readLoop_stop K (r :: rs) np pend c (by simpa using h)]; simp

/-! ## The outer loop -/

theorem runLoop_intr (K : Code) (ws : List WRes) (rs : List RdRes) (c : Conn)
    (h : c.selfIntr = true) : runLoop K ws rs c = ⟨[], c, rs, .returned⟩ := by
  cases ws <;> simp [runLoop, h]

theorem runLoop_nil (K : Code) (rs : List RdRes) (c : Conn) (h : c.selfIntr = false) :
    runLoop K [] rs c = ⟨[], c, rs, .running⟩ := by
  simp [runLoop, h]

theorem runLoop_cons (K : Code) (w : WRes) (ws : List WRes) (rs : List RdRes) (c : Conn)
    (h : c.selfIntr = false) :
    runLoop K (w :: ws) rs c =
      match w with
      | .raises e => ⟨[.write w], c, rs, .raised e⟩
      | .wrote n =>
        match (readLoop K rs n none c).exc with
        | some e => ⟨.write w :: (readLoop K rs n none c).log, (readLoop K rs n none c).conn,
            (readLoop K rs n none c).rest, .raised e⟩
        | none =>
          ⟨.write w :: (readLoop K rs n none c).log ++
              (runLoop K ws (readLoop K rs n none c).rest (readLoop K rs n none c).conn).log,
            (runLoop K ws (readLoop K rs n none c).rest (readLoop K rs n none c).conn).conn,
            (runLoop K ws (readLoop K rs n none c).rest (readLoop K rs n none c).conn).rest,
            (runLoop K ws (readLoop K rs n none c).rest (readLoop K rs n none c).conn).res⟩
      | .ioError n e0 =>
        match (readLoop K rs n (some e0) c).exc with
        | some e => ⟨.write w :: (readLoop K rs n (some e0) c).log,
            (readLoop K rs n (some e0) c).conn, (readLoop K rs n (some e0) c).rest, .raised e⟩
        | none =>
          match (readLoop K rs n (some e0) c).pend with
          | some e => ⟨.write w :: (readLoop K rs n (some e0) c).log ++ [.deferred e],
              (readLoop K rs n (some e0) c).conn, (readLoop K rs n (some e0) c).rest, .raised e⟩
          | none =>
            ⟨.write w :: (readLoop K rs n (some e0) c).log ++
                (runLoop K ws (readLoop K rs n (some e0) c).rest
                  (readLoop K rs n (some e0) c).conn).log,
              (runLoop K ws (readLoop K rs n (some e0) c).rest
                (readLoop K rs n (some e0) c).conn).conn,
              (runLoop K ws (readLoop K rs n (some e0) c).rest
                (readLoop K rs n (some e0) c).conn).rest,
              (runLoop K ws (readLoop K rs n (some e0) c).rest
                (readLoop K rs n (some e0) c).conn).res⟩ := by
  rw [runLoop.eq_def]
  simp only [h, Bool.false_eq_true, ↓reduceIte]
  cases w <;> simp only []
  all_goals (repeat' split) <;> simp_all

/-- Shape of `_run` for code that satisfies the specification. -/
theorem runLoop_shape (K : Code) (hK : CodeOK K) : ∀ (ws : List WRes) (rs : List RdRes) (c : Conn),
    (∀ e, (runLoop K ws rs c).res = .raised e → EndsIn (runLoop K ws rs c).log e) ∧
    ((∀ e, (runLoop K ws rs c).res ≠ .raised e) → Clean (runLoop K ws rs c).log) ∧
    AllAct (runLoop K ws rs c).log ∧
    c.Le (runLoop K ws rs c).conn ∧
    (runLoop K ws rs c).rest <:+ rs := by
  intro ws
  induction ws with
  | nil =>
    intro rs c
    cases hi : c.selfIntr with
    | true =>
      rw [runLoop_intr K [] rs c hi]
      exact ⟨fun e he => (by cases he), fun _ => Clean.nil, AllAct.nil, Conn.Le.refl c,
        List.suffix_refl _⟩
    | false =>
      rw [runLoop_nil K rs c hi]
      exact ⟨fun e he => (by cases he), fun _ => Clean.nil, AllAct.nil, Conn.Le.refl c,
        List.suffix_refl _⟩
  | cons w ws ih =>
    intro rs c
    cases hi : c.selfIntr with
    | true =>
      rw [runLoop_intr K (w :: ws) rs c hi]
      exact ⟨fun e he => (by cases he), fun _ => Clean.nil, AllAct.nil, Conn.Le.refl c,
        List.suffix_refl _⟩
    | false =>
      rw [runLoop_cons K w ws rs c hi]
      cases w with
      | raises e0 =>
        simp only []
        refine ⟨fun e he => ?_, fun hne => absurd rfl (hne e0), AllAct.cons rfl AllAct.nil,
          Conn.Le.refl c, List.suffix_refl _⟩
        simp only [LoopRes.raised.injEq] at he
        subst he
        exact EndsIn.single rfl
      | wrote n =>
        simp only []
        obtain ⟨a1, a2, a3, a4, a5⟩ := readLoop_shape K hK rs n none c
        cases hx : (readLoop K rs n none c).exc with
        | some e0 =>
          simp only []
          refine ⟨fun e he => ?_, fun hne => absurd rfl (hne e0), AllAct.cons rfl a3, a4, a5⟩
          simp only [LoopRes.raised.injEq] at he
          subst he
          exact EndsIn.cons rfl (a1 _ hx)
        | none =>
          simp only []
          obtain ⟨b1, b2, b3, b4, b5⟩ := ih (readLoop K rs n none c).rest
            (readLoop K rs n none c).conn
          refine ⟨fun e he => ?_, fun hne => ?_, ?_, a4.trans b4, b5.trans a5⟩
          · rw [List.cons_append]
            exact EndsIn.cons rfl (EndsIn.prepend (a2 hx) (b1 e he))
          · rw [List.cons_append]
            exact Clean.cons rfl ((a2 hx).append (b2 hne))
          · rw [List.cons_append]
            exact AllAct.cons rfl (a3.append b3)
      | ioError n e0 =>
        simp only []
        obtain ⟨a1, a2, a3, a4, a5⟩ := readLoop_shape K hK rs n (some e0) c
        cases hx : (readLoop K rs n (some e0) c).exc with
        | some e1 =>
          simp only []
          refine ⟨fun e he => ?_, fun hne => absurd rfl (hne e1), AllAct.cons rfl a3, a4, a5⟩
          simp only [LoopRes.raised.injEq] at he
          subst he
          exact EndsIn.cons rfl (a1 _ hx)
        | none =>
          simp only []
          cases hp : (readLoop K rs n (some e0) c).pend with
          | some e1 =>
            simp only []
            refine ⟨fun e he => ?_, fun hne => absurd rfl (hne e1), ?_, a4, a5⟩
            · simp only [LoopRes.raised.injEq] at he
              subst he
              rw [List.cons_append]
              exact EndsIn.cons rfl (EndsIn.snoc (a2 hx) rfl)
            · rw [List.cons_append]
              exact AllAct.cons rfl (a3.append (AllAct.cons rfl AllAct.nil))
          | none =>
            simp only []
            obtain ⟨b1, b2, b3, b4, b5⟩ := ih (readLoop K rs n (some e0) c).rest
              (readLoop K rs n (some e0) c).conn
            refine ⟨fun e he => ?_, fun hne => ?_, ?_, a4.trans b4, b5.trans a5⟩
            · rw [List.cons_append]
              exact EndsIn.cons rfl (EndsIn.prepend (a2 hx) (b1 e he))
            · rw [List.cons_append]
              exact Clean.cons rfl ((a2 hx).append (b2 hne))
            · rw [List.cons_append]
              exact AllAct.cons rfl (a3.append b3)

/-- `_run` returns only when `self.interrupt` is set. -/
theorem runLoop_returned (K : Code) : ∀ (ws : List WRes) (rs : List RdRes) (c : Conn),
    (runLoop K ws rs c).res = .returned → (runLoop K ws rs c).conn.selfIntr = true := by
  intro ws
  induction ws with
  | nil =>
    intro rs c h
    cases hi : c.selfIntr with
    | true => rw [runLoop_intr K [] rs c hi]; exact hi
    | false => rw [runLoop_nil K rs c hi] at h; cases h
  | cons w ws ih =>
    intro rs c h
    cases hi : c.selfIntr with
    | true => rw [runLoop_intr K (w :: ws) rs c hi]; exact hi
    | false =>
      rw [runLoop_cons K w ws rs c hi] at h ⊢
      cases w with
      | raises e0 => simp at h
      | wrote n =>
        simp only [] at h ⊢
        cases hx : (readLoop K rs n none c).exc with
        | some e0 => simp [hx] at h
        | none =>
          simp only [hx] at h ⊢
          exact ih _ _ h
      | ioError n e0 =>
        simp only [] at h ⊢
        cases hx : (readLoop K rs n (some e0) c).exc with
        | some e1 => simp [hx] at h
        | none =>
          simp only [hx] at h ⊢
          cases hp : (readLoop K rs n (some e0) c).pend with
          | some e1 => simp [hp] at h
          | none =>
            simp only [hp] at h ⊢
            exact ih _ _ h

/-! ## The whole thread -/

theorem runThreadWith_running (K : Code) (S : Setup) (ws : List WRes) (rs : List RdRes)
    (c : Conn) (h : (runLoop K ws rs c).res = .running) :
    runThreadWith K S ws rs c =
      ⟨(runLoop K ws rs c).log, (runLoop K ws rs c).conn, (runLoop K ws rs c).rest, false, none,
        none, none⟩ := by
  simp only [runThreadWith, h]

theorem runThreadWith_raised (K : Code) (S : Setup) (ws : List WRes) (rs : List RdRes)
    (c : Conn) (e : Exc) (h : (runLoop K ws rs c).res = .raised e) :
    runThreadWith K S ws rs c =
      excPath K S c.conns (runLoop K ws rs c).log (runLoop K ws rs c).rest
        (runLoop K ws rs c).conn e := by
  simp only [runThreadWith, h]

theorem runThreadWith_returned_noexit (K : Code) (S : Setup) (ws : List WRes) (rs : List RdRes)
    (c : Conn) (h : (runLoop K ws rs c).res = .returned)
    (hx : (if (runLoop K ws rs c).conn.connected = true then none else S.exit) = none) :
    runThreadWith K S ws rs c =
      ⟨(runLoop K ws rs c).log ++ [.slotCleared], { (runLoop K ws rs c).conn with nt := none },
        (runLoop K ws rs c).rest, true, none, none, none⟩ := by
  simp only [runThreadWith, h, hx]

theorem runThreadWith_returned_exit_ok (K : Code) (S : Setup) (ws : List WRes) (rs : List RdRes)
    (c : Conn) (h : (runLoop K ws rs c).res = .returned) (cb : Cb)
    (hx : (if (runLoop K ws rs c).conn.connected = true then none else S.exit) = some cb)
    (hb : effBeh (runActs S.inv cb.acts (runLoop K ws rs c).conn).2 cb.beh = .returns) :
    runThreadWith K S ws rs c =
      ⟨(runLoop K ws rs c).log ++ [.exitCb none, .slotCleared],
        { (runActs S.inv cb.acts (runLoop K ws rs c).conn).1 with nt := none },
        (runLoop K ws rs c).rest, true, none, none, none⟩ := by
  simp only [runThreadWith, h, hx, hb]

theorem runThreadWith_returned_exit_raises (K : Code) (S : Setup) (ws : List WRes)
    (rs : List RdRes) (c : Conn) (h : (runLoop K ws rs c).res = .returned) (cb : Cb)
    (hx : (if (runLoop K ws rs c).conn.connected = true then none else S.exit) = some cb)
    (e : Exc)
    (hb : effBeh (runActs S.inv cb.acts (runLoop K ws rs c).conn).2 cb.beh = .raises e) :
    runThreadWith K S ws rs c =
      excPath K S c.conns ((runLoop K ws rs c).log ++ [.exitCb (some e)]) (runLoop K ws rs c).rest
        (runActs S.inv cb.acts (runLoop K ws rs c).conn).1 e := by
  simp only [runThreadWith, h, hx, hb]

theorem excPath_rest (K : Code) (S : Setup) (n0 : Nat) (log : List TEv) (rest : List RdRes)
    (c : Conn) (e : Exc) : (excPath K S n0 log rest c e).rest = rest := rfl

/-- Master description of `run` for code that satisfies the specification: the log is a stretch
of `_run` / `_handle_exit` activity `act`; either nothing escaped (the thread is still running, or
it left through `finally` with nothing else logged), or the LAST activity event let `e` escape and
everything else is `excPath` with exactly that exception. -/
theorem runThreadWith_shape (K : Code) (hK : CodeOK K) (S : Setup) (ws : List WRes)
    (rs : List RdRes) (c : Conn) :
    (runThreadWith K S ws rs c).rest <:+ rs ∧
    ∃ act c1, AllAct act ∧ c.Le c1 ∧
      ((Clean act ∧
          (runThreadWith K S ws rs c = ⟨act, c1, (runThreadWith K S ws rs c).rest, false, none,
              none, none⟩ ∨
           runThreadWith K S ws rs c = ⟨act ++ [.slotCleared], { c1 with nt := none },
              (runThreadWith K S ws rs c).rest, true, none, none, none⟩)) ∨
       (∃ e, EndsIn act e ∧
          runThreadWith K S ws rs c =
            excPath K S c.conns act (runThreadWith K S ws rs c).rest c1 e)) := by
  obtain ⟨a1, a2, a3, a4, a5⟩ := runLoop_shape K hK ws rs c
  cases hres : (runLoop K ws rs c).res with
  | running =>
    rw [runThreadWith_running K S ws rs c hres]
    exact ⟨a5, _, _, a3, a4, .inl ⟨a2 (by rw [hres]; simp), .inl rfl⟩⟩
  | raised e =>
    rw [runThreadWith_raised K S ws rs c e hres]
    exact ⟨a5, _, _, a3, a4, .inr ⟨e, a1 e hres, rfl⟩⟩
  | returned =>
    have hcl := a2 (by rw [hres]; simp)
    cases hex : (if (runLoop K ws rs c).conn.connected = true then none else S.exit) with
    | none =>
      rw [runThreadWith_returned_noexit K S ws rs c hres hex]
      exact ⟨a5, _, _, a3, a4, .inl ⟨hcl, .inr rfl⟩⟩
    | some cb =>
      have hle := runActs_le S.inv cb.acts (runLoop K ws rs c).conn
      cases hb : effBeh (runActs S.inv cb.acts (runLoop K ws rs c).conn).2 cb.beh with
      | raises e =>
        rw [runThreadWith_returned_exit_raises K S ws rs c hres cb hex e hb]
        exact ⟨a5, (runLoop K ws rs c).log ++ [.exitCb (some e)], _,
          a3.append (AllAct.cons rfl AllAct.nil), a4.trans hle,
          .inr ⟨e, EndsIn.snoc hcl rfl, rfl⟩⟩
      | returns =>
        rw [runThreadWith_returned_exit_ok K S ws rs c hres cb hex hb]
        refine ⟨a5, (runLoop K ws rs c).log ++ [.exitCb none], _,
          a3.append (AllAct.cons rfl AllAct.nil), a4.trans hle,
          .inl ⟨hcl.append (Clean.single rfl), .inr ?_⟩⟩
        simp

/-! ## Reading the log -/

/-- Events of the exception path and of `finally` let nothing escape and are no activity. -/
theorem HxOut.events_quiet (h : HxOut) :
    ∀ x ∈ [TEv.setIntr] ++ h.events ++ [TEv.slotCleared],
      x.raisedExc = none ∧ x.isActivity = false := by
  intro x hx
  simp only [List.mem_append, List.mem_singleton, HxOut.events, List.mem_map] at hx
  rcases hx with (rfl | ⟨p, -, rfl⟩ | hx) | rfl
  · exact ⟨rfl, rfl⟩
  · exact ⟨rfl, rfl⟩
  · cases hc : h.cleanup <;> rw [hc] at hx <;> simp at hx <;> subst hx <;> exact ⟨rfl, rfl⟩
  · exact ⟨rfl, rfl⟩

/-- In a log `act ++ tail` where `act` ends in its only escaping event and `tail` has none, an
escaping event can only be that one. -/
theorem escape_position {act tail pre post : List TEv} {ev : TEv} {e e0 : Exc}
    (ha : EndsIn act e0) (ht : Clean tail) (hl : act ++ tail = pre ++ ev :: post)
    (he : ev.raisedExc = some e) : e = e0 ∧ act = pre ++ [ev] ∧ post = tail ∧ Clean pre := by
  obtain ⟨p, l, rfl, h1, h2⟩ := ha
  have hl' : p ++ (l :: tail) = pre ++ (ev :: post) := by simpa using hl
  rcases List.append_eq_append_iff.mp hl' with ⟨a', e1, e2⟩ | ⟨c', e1, e2⟩
  · cases a' with
    | nil =>
      simp only [List.nil_append, List.cons.injEq] at e2
      simp only [List.append_nil] at e1
      obtain ⟨e3, e4⟩ := e2
      subst e1 e3 e4
      rw [h1] at he
      exact ⟨(Option.some.inj he).symm, rfl, rfl, h2⟩
    | cons z zs =>
      simp only [List.cons_append, List.cons.injEq] at e2
      have : ev ∈ tail := by rw [e2.2]; simp
      have := ht ev this
      rw [he] at this; cases this
  · cases c' with
    | nil =>
      simp only [List.nil_append, List.cons.injEq] at e2
      simp only [List.append_nil] at e1
      obtain ⟨e3, e4⟩ := e2
      subst e1 e3 e4
      rw [h1] at he
      exact ⟨(Option.some.inj he).symm, rfl, rfl, h2⟩
    | cons z zs =>
      simp only [List.cons_append, List.cons.injEq] at e2
      have : ev ∈ p := by rw [e1, ← e2.1]; simp
      have := h2 ev this
      rw [he] at this; cases this

/-- Every event of a thread log that let an exception escape is the last activity event, and the
rest of the run is the exception path with exactly that exception. -/
theorem thread_escape (K : Code) (hK : CodeOK K) (S : Setup) (ws : List WRes) (rs : List RdRes)
    (c : Conn) (pre : List TEv) (ev : TEv) (post : List TEv) (e : Exc)
    (hl : (runThreadWith K S ws rs c).log = pre ++ ev :: post) (he : ev.raisedExc = some e) :
    ∃ c1, c.Le c1 ∧ AllAct (pre ++ [ev]) ∧ Clean pre ∧
      runThreadWith K S ws rs c =
        excPath K S c.conns (pre ++ [ev]) (runThreadWith K S ws rs c).rest c1 e := by
  obtain ⟨-, act, c1, h1, h2, h3⟩ := runThreadWith_shape K hK S ws rs c
  rcases h3 with ⟨hc, h3 | h3⟩ | ⟨e0, h3, h4⟩
  · rw [h3] at hl
    simp only at hl
    have := hc ev (by rw [hl]; simp)
    rw [he] at this; cases this
  · rw [h3] at hl
    simp only at hl
    have hcl : Clean (act ++ [TEv.slotCleared]) := hc.append (Clean.single rfl)
    have := hcl ev (by rw [hl]; simp)
    rw [he] at this; cases this
  · have hlog : (runThreadWith K S ws rs c).log =
        act ++ ([TEv.setIntr] ++ (hx S.hier S.inv (if c1.conns = c.conns then S.rh else S.rhNew)
          S.handlers S.fin e0 e0 (K.excPrologue c1)).events ++ [TEv.slotCleared]) := by
      rw [h4]; simp [excPath]
    rw [hlog] at hl
    obtain ⟨r1, r2, -, r4⟩ := escape_position h3
      (fun x hx => (HxOut.events_quiet _ x hx).1) hl he
    subst r1
    refine ⟨c1, h2, ?_, r4, ?_⟩
    · rw [← r2]; exact h1
    · rw [← r2]; exact h4

/-- `_handle_exception` is entered only with an exception that an activity event let escape, and
with `exc_info[1]` being that exception. -/
theorem thread_entered (K : Code) (hK : CodeOK K) (S : Setup) (ws : List WRes) (rs : List RdRes)
    (c : Conn) (e i : Exc) (h : (runThreadWith K S ws rs c).entered = some (e, i)) :
    i = e ∧ ∃ pre ev post, (runThreadWith K S ws rs c).log = pre ++ ev :: post ∧
      ev.raisedExc = some e := by
  obtain ⟨-, act, c1, h1, h2, h3⟩ := runThreadWith_shape K hK S ws rs c
  rcases h3 with ⟨hc, h3 | h3⟩ | ⟨e0, ⟨p, l, rfl, g1, g2⟩, h4⟩
  · rw [h3] at h; cases h
  · rw [h3] at h; cases h
  · rw [h4] at h ⊢
    simp only [excPath, Option.some.injEq, Prod.mk.injEq] at h
    obtain ⟨rfl, rfl⟩ := h
    exact ⟨rfl, p, l, [TEv.setIntr] ++ (hx S.hier S.inv (if c1.conns = c.conns then S.rh else S.rhNew)
      S.handlers S.fin e0 e0 (K.excPrologue c1)).events ++ [TEv.slotCleared], by simp [excPath], g1⟩

/-- If `_handle_exception` is not entered, nothing escaped and nothing leaves `run`. -/
theorem thread_quiet (K : Code) (hK : CodeOK K) (S : Setup) (ws : List WRes) (rs : List RdRes)
    (c : Conn) (h : (runThreadWith K S ws rs c).entered = none) :
    (runThreadWith K S ws rs c).hx = none ∧ (runThreadWith K S ws rs c).reraised = none ∧
    Clean (runThreadWith K S ws rs c).log ∧
    ((runThreadWith K S ws rs c).ended = true → (runThreadWith K S ws rs c).conn.nt = none) := by
  obtain ⟨-, act, c1, h1, h2, h3⟩ := runThreadWith_shape K hK S ws rs c
  rcases h3 with ⟨hc, h3 | h3⟩ | ⟨e0, -, h4⟩
  · rw [h3]; exact ⟨rfl, rfl, hc, fun hh => by cases hh⟩
  · rw [h3]; exact ⟨rfl, rfl, hc.append (Clean.single rfl), fun _ => rfl⟩
  · rw [h4] at h; simp [excPath] at h

/-- The `except` clause of `run` in the real code only sets the own flag. -/
theorem pyPrologue_le (S : Setup) (c : Conn) : c.Le ((pyCode S).excPrologue c) := by
  rcases c with ⟨nt, new, sock, connected, conns, closed⟩
  cases nt <;>
    refine ⟨?_, ?_, ?_, ?_, ?_, ?_, ?_, fun _ k hk => .inl hk⟩ <;> simp [pyCode, Conn.FreshNew]

/-- A thread that has ended has cleared its slot; the rest of the connection is what the API calls
of the run made of it. -/
theorem thread_ended (S : Setup) (ws : List WRes) (rs : List RdRes) (c : Conn)
    (hend : (runThreadWith (pyCode S) S ws rs c).ended = true) :
    ∃ c2, c.Le c2 ∧ (runThreadWith (pyCode S) S ws rs c).conn = { c2 with nt := none } := by
  obtain ⟨-, act, c1, h1, h2, h3⟩ := runThreadWith_shape (pyCode S) (pyCode_ok S) S ws rs c
  rcases h3 with ⟨hc, h3 | h3⟩ | ⟨e0, -, h4⟩
  · rw [h3] at hend; cases hend
  · exact ⟨c1, h2, by rw [h3]⟩
  · obtain ⟨le, a, b, d⟩ := hx_conn S.hier S.inv (if c1.conns = c.conns then S.rh else S.rhNew)
      S.handlers S.fin e0 e0 ((pyCode S).excPrologue c1)
    have hle := (h2.trans (pyPrologue_le S c1)).trans le
    rw [h4]
    simp only [excPath]
    generalize hx S.hier S.inv (if c1.conns = c.conns then S.rh else S.rhNew)
      S.handlers S.fin e0 e0 ((pyCode S).excPrologue c1) = h at *
    by_cases hr : h.effR = .retTrue
    · exact ⟨h.connAtCleanup, hle, by rw [b hr]⟩
    · have d' := d hr
      cases hf : h.connAtCleanup.cleanupFlag with
      | none => rw [hf] at d'; exact ⟨h.connAtCleanup, hle, by rw [d'.2]⟩
      | some bb =>
        rw [hf] at d'
        cases bb with
        | false => exact ⟨h.connAtCleanup, hle, by rw [d'.2]⟩
        | true =>
          exact ⟨h.connAtCleanup.disconnect, hle.trans (disconnect_le _), by rw [d'.2]⟩

/-! ## The specifications as predicates on a run (so that changed code can be tested against them) -/

/-- ORIGIN → CHAIN: every event of the log that let an exception `e` escape — a listener's
callback, the reaction, `read_packet`, the write phase, the deferred write error, the exit
callback — makes the thread enter `_handle_exception` with `(e, exc_info)` where
`exc_info[1] is e`, ends the thread, and is followed by no further activity (no read, no write, no
dispatch). -/
def EscapesEnterChain (o : ThreadOut) : Prop :=
  ∀ pre ev post e, o.log = pre ++ ev :: post → ev.raisedExc = some e →
    o.entered = some (e, e) ∧ o.ended = true ∧ ∀ x ∈ post, x.isActivity = false

/-- CHAIN → CLEANUP: unless the reactor's handler swallowed the exception or an uninterrupted
`new_networking_thread` exists when the final block runs, the connection is closed afterwards. -/
def ClosedUnlessReconnected (o : ThreadOut) : Prop :=
  ∀ h, o.hx = some h → h.effR ≠ .retTrue → h.connAtCleanup.new ≠ some false →
    o.conn.sock = none ∧ o.conn.connected = false

end PyCraft.ExcFlow
