import PyCraft.Lemmas.C14Compose
/-!
Helper lemmas for `Props/C14Compose.lean`: the stateful `_handle_exception` (`ExcFlow.hx`) against
the pure `handleException` of `Model/Handlers.lean`, the `exc_info` pair, and the final locked
block.
-/
namespace PyCraft.ExcFlow
open PyCraft
set_option linter.unusedSimpArgs false

/-- How a handler as it behaved (`h'`) relates to the registered handler (`h`): same identity and
type filter; the behaviour is the nominal one unless a `connect()` inside it raised
`InvalidState`. -/
def EffOf (inv : Exc) (h' : Handler) (h : XHandler) : Prop :=
  h'.id = h.id ∧ h'.types = h.types ∧
    (h'.beh = h.beh ∨ (h'.beh = .raises inv ∧ Act.connect ∈ h.acts))

/-- `EffOf`, position by position. -/
inductive AllEff (inv : Exc) : List Handler → List XHandler → Prop
  | nil : AllEff inv [] []
  | cons {a : Handler} {b : XHandler} {l1 : List Handler} {l2 : List XHandler} :
      EffOf inv a b → AllEff inv l1 l2 → AllEff inv (a :: l1) (b :: l2)

theorem AllEff.erase (inv : Exc) (hs : List XHandler) : AllEff inv (hs.map XHandler.erase) hs := by
  induction hs with
  | nil => exact .nil
  | cons h hs ih => exact .cons ⟨rfl, rfl, .inl rfl⟩ ih

theorem AllEff.ids {inv : Exc} {l1 : List Handler} {l2 : List XHandler} (h : AllEff inv l1 l2) :
    l1.map (·.id) = l2.map (·.id) ∧ l1.map (·.types) = l2.map (·.types) := by
  induction h with
  | nil => exact ⟨rfl, rfl⟩
  | cons hab _ ih =>
    simp only [List.map_cons, hab.1, hab.2.1, ih.1, ih.2, and_self]

theorem effBeh_cases (inv : Exc) (acts : List Act) (c : Conn) (b : Beh) :
    effBeh (runActs inv acts c).2 b = b ∨
      (effBeh (runActs inv acts c).2 b = .raises inv ∧ Act.connect ∈ acts) := by
  cases hr : (runActs inv acts c).2 with
  | none => left; rfl
  | some x =>
    right
    have hx := runActs_err inv acts c x hr
    subst hx
    refine ⟨rfl, ?_⟩
    apply Classical.byContradiction
    intro hn
    have := (runActs_noConnect x acts hn c).1
    rw [hr] at this; cases this

/-- The pair `(exc, exc_info[1])` is in step, and so is the list of `exc_info[1]` passed along. -/
def XLoopSt.Sync (x : XLoopSt) : Prop :=
  x.info = x.st.exc ∧ x.infos = x.st.calls.map CallEv.arg

/-- One iteration of the stateful loop is one iteration of the pure loop on the handler as it
behaved. -/
theorem xloopStep_spec (hier : Hier) (inv : Exc) (x : XLoopSt) (h : XHandler) :
    ∃ h', (xloopStep hier inv x h).eff = x.eff ++ [h'] ∧
      loopStep hier x.st h' = (xloopStep hier inv x h).st ∧
      (x.Sync → (xloopStep hier inv x h).Sync) ∧
      x.conn.Le (xloopStep hier inv x h).conn ∧ EffOf inv h' h := by
  by_cases hb : x.st.broke = true
  · have hstep : xloopStep hier inv x h = { x with eff := x.eff ++ [h.erase] } := by
      simp [xloopStep, hb]
    rw [hstep]
    exact ⟨h.erase, rfl, by simp [loopStep, hb], fun hs => hs, Conn.Le.refl _, rfl, rfl, .inl rfl⟩
  · simp only [Bool.not_eq_true] at hb
    by_cases hh : h.erase.handles hier x.st.exc = true
    · have hle := runActs_le inv h.acts x.conn
      have hcs := effBeh_cases inv h.acts x.conn h.beh
      cases hbeh : effBeh (runActs inv h.acts x.conn).2 h.beh with
      | returns =>
        have hstep : xloopStep hier inv x h =
            { st := { x.st with calls := x.st.calls ++ [.handler h.id x.st.exc none],
                                broke := true },
              info := x.info, infos := x.infos ++ [x.info], conn := (runActs inv h.acts x.conn).1,
              eff := x.eff ++ [⟨h.id, h.types, .returns⟩] } := by
          simp [xloopStep, hb, hh, hbeh]
        rw [hstep]
        refine ⟨⟨h.id, h.types, .returns⟩, rfl, ?_, ?_, hle, rfl, rfl, ?_⟩
        · have : Handler.handles hier ⟨h.id, h.types, .returns⟩ x.st.exc = true := hh
          simp [loopStep, hb, this]
        · rintro ⟨h1, h2⟩
          exact ⟨h1, by simp [h2, h1, CallEv.arg]⟩
        · rw [hbeh] at hcs
          rcases hcs with h1 | ⟨h1, -⟩
          · exact .inl h1
          · cases h1
      | raises e' =>
        have hstep : xloopStep hier inv x h =
            { st := { exc := e', calls := x.st.calls ++ [.handler h.id x.st.exc (some e')],
                      broke := false },
              info := e', infos := x.infos ++ [x.info], conn := (runActs inv h.acts x.conn).1,
              eff := x.eff ++ [⟨h.id, h.types, .raises e'⟩] } := by
          simp [xloopStep, hb, hh, hbeh]
        rw [hstep]
        refine ⟨⟨h.id, h.types, .raises e'⟩, rfl, ?_, ?_, hle, rfl, rfl, ?_⟩
        · have : Handler.handles hier ⟨h.id, h.types, .raises e'⟩ x.st.exc = true := hh
          simp [loopStep, hb, this]
        · rintro ⟨h1, h2⟩
          exact ⟨rfl, by simp [h2, h1, CallEv.arg]⟩
        · rw [hbeh] at hcs
          rcases hcs with h1 | ⟨h1, h2⟩
          · exact .inl h1
          · exact .inr ⟨h1, h2⟩
    · simp only [Bool.not_eq_true] at hh
      have hstep : xloopStep hier inv x h = { x with eff := x.eff ++ [h.erase] } := by
        simp [xloopStep, hb, hh]
      rw [hstep]
      exact ⟨h.erase, rfl, by simp [loopStep, hb, hh], fun hs => hs, Conn.Le.refl _, rfl, rfl,
        .inl rfl⟩

/-- The whole stateful loop is the pure loop over the handlers as they behaved. -/
theorem xloop_fold (hier : Hier) (inv : Exc) : ∀ (hs : List XHandler) (x : XLoopSt),
    ∃ suf, (hs.foldl (xloopStep hier inv) x).eff = x.eff ++ suf ∧
      suf.foldl (loopStep hier) x.st = (hs.foldl (xloopStep hier inv) x).st ∧
      (x.Sync → (hs.foldl (xloopStep hier inv) x).Sync) ∧
      x.conn.Le (hs.foldl (xloopStep hier inv) x).conn ∧
      AllEff inv suf hs := by
  intro hs
  induction hs with
  | nil => intro x; exact ⟨[], by simp, rfl, id, Conn.Le.refl _, .nil⟩
  | cons h hs ih =>
    intro x
    obtain ⟨h', e1, e2, e3, e4, e5⟩ := xloopStep_spec hier inv x h
    obtain ⟨suf, f1, f2, f3, f4, f5⟩ := ih (xloopStep hier inv x h)
    refine ⟨h' :: suf, ?_, ?_, fun hs => f3 (e3 hs), e4.trans f4, .cons e5 f5⟩
    · simp only [List.foldl_cons, f1, e1, List.append_assoc, List.singleton_append]
    · simp only [List.foldl_cons, e2, f2]

/-- Handlers that never call `connect()` behave as registered. -/
theorem allEff_noConnect (inv : Exc) : ∀ (suf : List Handler) (hs : List XHandler),
    AllEff inv suf hs → (∀ h ∈ hs, Act.connect ∉ h.acts) → suf = hs.map XHandler.erase := by
  intro suf hs h
  induction h with
  | nil => intro _; rfl
  | @cons a b l1 l2 hab _ ih =>
    intro hn
    have h1 := hn b (by simp)
    obtain ⟨i1, i2, i3⟩ := hab
    have hbeh : a.beh = b.beh := by
      rcases i3 with i3 | ⟨-, i3⟩
      · exact i3
      · exact absurd i3 h1
    have : a = b.erase := by
      cases a; cases b; simp_all [XHandler.erase]
    rw [this, ih (fun h hh => hn h (by simp [hh]))]
    rfl

theorem XFinal.run_spec (inv : Exc) (fin : XFinal) (c : Conn) :
    c.Le (fin.run inv c).1 ∧
    ((fin.run inv c).2 = .none ↔ fin = .none) ∧
    ((fin.run inv c).2 = .false ↔ fin = .false) ∧
    (∀ acts b, fin = .fn acts b → ∃ b', (fin.run inv c).2 = .fn b' ∧
      (b' = b ∨ (b' = .raises inv ∧ Act.connect ∈ acts))) ∧
    ((∀ acts b, fin = .fn acts b → Act.connect ∉ acts) → (fin.run inv c).2 = fin.erase) := by
  cases fin with
  | none => exact ⟨Conn.Le.refl c, by simp [XFinal.run], by simp [XFinal.run],
      fun _ _ h => (by cases h), fun _ => rfl⟩
  | false => exact ⟨Conn.Le.refl c, by simp [XFinal.run], by simp [XFinal.run],
      fun _ _ h => (by cases h), fun _ => rfl⟩
  | fn acts b =>
    refine ⟨runActs_le inv acts c, by simp [XFinal.run], by simp [XFinal.run], ?_, ?_⟩
    · intro acts' b' h
      cases h
      exact ⟨_, rfl, effBeh_cases inv acts c b⟩
    · intro hn
      have := (runActs_noConnect inv acts (hn acts b rfl) c).1
      simp [XFinal.run, XFinal.erase, this, effBeh]

theorem hx_retTrue (hier : Hier) (inv : Exc) (rh : XReactorH) (hs : List XHandler) (fin : XFinal)
    (e info : Exc) (c : Conn) (hr : effRBeh (runActs inv rh.acts c).2 rh.rbeh = .retTrue) :
    hx hier inv rh hs fin e info c =
      { out := { trace := [.reactor e none], caught := false, loopExc := none, recorded := none,
                 reraised := none, swallowedByReactor := true },
        infos := [info], recordedInfo := none, cleanup := .notReached,
        connAtCleanup := (runActs inv rh.acts c).1, conn := (runActs inv rh.acts c).1,
        effR := .retTrue, effHandlers := hs.map XHandler.erase, effFin := fin.erase } := by
  simp only [hx, hr]

theorem hx_tail (hier : Hier) (inv : Exc) (rh : XReactorH) (hs : List XHandler) (fin : XFinal)
    (e info : Exc) (c : Conn) (hr : effRBeh (runActs inv rh.acts c).2 rh.rbeh ≠ .retTrue) :
    hx hier inv rh hs fin e info c =
      hxTail hier inv hs fin e info (effRBeh (runActs inv rh.acts c).2 rh.rbeh)
        (runActs inv rh.acts c).1 := by
  simp only [hx]

/-- The projection for the part after the reactor's handler. -/
theorem hxTail_out (hier : Hier) (inv : Exc) (hs : List XHandler) (fin : XFinal) (e : Exc)
    (r : RBeh) (hr : r ≠ .retTrue) (c : Conn) :
    (hxTail hier inv hs fin e e r c).out =
      handleException hier r (hxTail hier inv hs fin e e r c).effHandlers
        (hxTail hier inv hs fin e e r c).effFin e ∧
    (hxTail hier inv hs fin e e r c).infos =
      (hxTail hier inv hs fin e e r c).out.trace.map CallEv.arg ∧
    (hxTail hier inv hs fin e e r c).recordedInfo = (hxTail hier inv hs fin e e r c).out.recorded ∧
    AllEff inv (hxTail hier inv hs fin e e r c).effHandlers hs := by
  have key := xloop_fold hier inv hs
    { st := { exc := (rbehRaised r).getD e, calls := [], broke := false },
      info := (rbehRaised r).getD e, infos := [], conn := c, eff := [] }
  simp only [hxTail]
  generalize hs.foldl (xloopStep hier inv)
    { st := { exc := (rbehRaised r).getD e, calls := [], broke := false },
      info := (rbehRaised r).getD e, infos := [], conn := c, eff := [] } = X at key ⊢
  obtain ⟨suf, f1, f2, f3, -, f5⟩ := key
  obtain ⟨s1, s2⟩ := f3 ⟨rfl, rfl⟩
  simp only [List.nil_append] at f1
  generalize XFinal.run inv fin X.conn = F
  obtain ⟨fc, ff⟩ := F
  simp only [f1]
  refine ⟨?_, ?_, ?_, f5⟩
  · cases r with
    | retTrue => exact absurd rfl hr
    | retFalse =>
      simp only [rbehRaised, Option.getD_none] at f2 ⊢
      simp only [handleException, handlerLoop, Option.getD_none, f2]
      cases ff with
      | none => simp [s1]
      | false => simp
      | fn b => cases b <;> simp [Beh.raised, s1]
    | raises e' =>
      simp only [rbehRaised, Option.getD_some] at f2 ⊢
      simp only [handleException, handlerLoop, Option.getD_some, f2]
      cases ff with
      | none => simp [s1]
      | false => simp
      | fn b => cases b <;> simp [Beh.raised, s1]
  · cases ff with
    | none => simp [s2, CallEv.arg]
    | false => simp [s2, CallEv.arg]
    | fn b => simp [s2, CallEv.arg, s1]
  · cases ff with
    | none => simp [s1]
    | false => simp [s1]
    | fn b => cases b <;> simp [s1]

/-- The projection: started with `exc_info[1] = exc`, the pure observable of the stateful
`_handle_exception` is `handleException` applied to the reactor's handler, the handlers and the
final handler AS THEY BEHAVED; the `exc_info[1]` passed with each call is that call's `exc`; the
recorded `exc_info[1]` is the recorded exception. -/
theorem hx_out (hier : Hier) (inv : Exc) (rh : XReactorH) (hs : List XHandler) (fin : XFinal)
    (e : Exc) (c : Conn) :
    (hx hier inv rh hs fin e e c).out =
      handleException hier (hx hier inv rh hs fin e e c).effR
        (hx hier inv rh hs fin e e c).effHandlers (hx hier inv rh hs fin e e c).effFin e ∧
    (hx hier inv rh hs fin e e c).infos =
      (hx hier inv rh hs fin e e c).out.trace.map CallEv.arg ∧
    (hx hier inv rh hs fin e e c).recordedInfo = (hx hier inv rh hs fin e e c).out.recorded ∧
    AllEff inv (hx hier inv rh hs fin e e c).effHandlers hs := by
  by_cases hr : effRBeh (runActs inv rh.acts c).2 rh.rbeh = .retTrue
  · rw [hx_retTrue hier inv rh hs fin e e c hr]
    exact ⟨rfl, rfl, rfl, AllEff.erase inv hs⟩
  · rw [hx_tail hier inv rh hs fin e e c hr]
    have := hxTail_out hier inv hs fin e _ hr (runActs inv rh.acts c).1
    have hR : (hxTail hier inv hs fin e e (effRBeh (runActs inv rh.acts c).2 rh.rbeh)
        (runActs inv rh.acts c).1).effR = effRBeh (runActs inv rh.acts c).2 rh.rbeh := rfl
    rw [hR]
    exact this

/-- The connection through `_handle_exception`, and the final locked block. -/
theorem hx_conn (hier : Hier) (inv : Exc) (rh : XReactorH) (hs : List XHandler) (fin : XFinal)
    (e info : Exc) (c : Conn) :
    c.Le (hx hier inv rh hs fin e info c).connAtCleanup ∧
    ((hx hier inv rh hs fin e info c).cleanup = .notReached ↔
      (hx hier inv rh hs fin e info c).effR = .retTrue) ∧
    ((hx hier inv rh hs fin e info c).effR = .retTrue →
      (hx hier inv rh hs fin e info c).conn = (hx hier inv rh hs fin e info c).connAtCleanup) ∧
    ((hx hier inv rh hs fin e info c).effR ≠ .retTrue →
      match (hx hier inv rh hs fin e info c).connAtCleanup.cleanupFlag with
      | some true => (hx hier inv rh hs fin e info c).cleanup = .disconnected ∧
          (hx hier inv rh hs fin e info c).conn =
            (hx hier inv rh hs fin e info c).connAtCleanup.disconnect
      | some false => (hx hier inv rh hs fin e info c).cleanup = .spared ∧
          (hx hier inv rh hs fin e info c).conn = (hx hier inv rh hs fin e info c).connAtCleanup
      | none => (hx hier inv rh hs fin e info c).cleanup = .failed ∧
          (hx hier inv rh hs fin e info c).conn =
            (hx hier inv rh hs fin e info c).connAtCleanup) := by
  have h0 := runActs_le inv rh.acts c
  by_cases hr : effRBeh (runActs inv rh.acts c).2 rh.rbeh = .retTrue
  · rw [hx_retTrue hier inv rh hs fin e info c hr]
    exact ⟨h0, by simp, fun _ => rfl, fun h => absurd rfl h⟩
  · rw [hx_tail hier inv rh hs fin e info c hr]
    obtain ⟨suf, -, -, -, f4, -⟩ := xloop_fold hier inv hs
      { st := { exc := (rbehRaised (effRBeh (runActs inv rh.acts c).2 rh.rbeh)).getD e,
                calls := [], broke := false },
        info := (rbehRaised (effRBeh (runActs inv rh.acts c).2 rh.rbeh)).getD info, infos := [],
        conn := (runActs inv rh.acts c).1, eff := [] }
    have hfin := (XFinal.run_spec inv fin (hs.foldl (xloopStep hier inv)
      { st := { exc := (rbehRaised (effRBeh (runActs inv rh.acts c).2 rh.rbeh)).getD e,
                calls := [], broke := false },
        info := (rbehRaised (effRBeh (runActs inv rh.acts c).2 rh.rbeh)).getD info, infos := [],
        conn := (runActs inv rh.acts c).1, eff := [] }).conn).1
    simp only [hxTail]
    refine ⟨h0.trans (f4.trans hfin), ?_, fun h => absurd h hr, fun _ => ?_⟩
    · constructor
      · intro h; split at h <;> cases h
      · intro h; exact absurd h hr
    · split <;> simp_all

/-- `_handle_exception` always starts by offering the exception it was given to the reactor. -/
theorem hx_head (hier : Hier) (inv : Exc) (rh : XReactorH) (hs : List XHandler) (fin : XFinal)
    (e info : Exc) (c : Conn) :
    ∃ r, (hx hier inv rh hs fin e info c).out.trace.head? = some (.reactor e r) := by
  by_cases hr : effRBeh (runActs inv rh.acts c).2 rh.rbeh = .retTrue
  · rw [hx_retTrue hier inv rh hs fin e info c hr]; exact ⟨_, rfl⟩
  · rw [hx_tail hier inv rh hs fin e info c hr]; exact ⟨_, rfl⟩

/-- The reactor's handler as it behaved: the nominal behaviour unless a `connect()` in it raised. -/
theorem hx_effR (hier : Hier) (inv : Exc) (rh : XReactorH) (hs : List XHandler) (fin : XFinal)
    (e info : Exc) (c : Conn) :
    (hx hier inv rh hs fin e info c).effR = effRBeh (runActs inv rh.acts c).2 rh.rbeh ∧
    ((hx hier inv rh hs fin e info c).effR = rh.rbeh ∨
      ((hx hier inv rh hs fin e info c).effR = .raises inv ∧ Act.connect ∈ rh.acts)) := by
  have h1 : (hx hier inv rh hs fin e info c).effR = effRBeh (runActs inv rh.acts c).2 rh.rbeh := by
    by_cases hr : effRBeh (runActs inv rh.acts c).2 rh.rbeh = .retTrue
    · rw [hx_retTrue hier inv rh hs fin e info c hr, hr]
    · rw [hx_tail hier inv rh hs fin e info c hr]; rfl
  refine ⟨h1, ?_⟩
  rw [h1]
  cases hr : (runActs inv rh.acts c).2 with
  | none => left; rfl
  | some x =>
    right
    have hx' := runActs_err inv rh.acts c x hr
    subst hx'
    refine ⟨rfl, ?_⟩
    apply Classical.byContradiction
    intro hn
    have := (runActs_noConnect x rh.acts hn c).1
    rw [hr] at this; cases this

/-- The final locked block when the own flag has been set (l.607) before `_handle_exception`:
it never finds two empty slots; it spares the connection exactly when an uninterrupted
`new_networking_thread` exists, and otherwise executes `disconnect(immediate=True)`. -/
theorem hx_cleanup (hier : Hier) (inv : Exc) (rh : XReactorH) (hs : List XHandler) (fin : XFinal)
    (e info : Exc) (c : Conn) (hnt : c.nt = some true) (hf : c.FreshNew) :
    (hx hier inv rh hs fin e info c).cleanup ≠ .failed ∧
    (hx hier inv rh hs fin e info c).connAtCleanup.nt = some true ∧
    (hx hier inv rh hs fin e info c).connAtCleanup.FreshNew ∧
    ((hx hier inv rh hs fin e info c).effR ≠ .retTrue →
      ((hx hier inv rh hs fin e info c).connAtCleanup.new = some false →
        (hx hier inv rh hs fin e info c).cleanup = .spared ∧
        (hx hier inv rh hs fin e info c).conn = (hx hier inv rh hs fin e info c).connAtCleanup) ∧
      ((hx hier inv rh hs fin e info c).connAtCleanup.new ≠ some false →
        (hx hier inv rh hs fin e info c).cleanup = .disconnected ∧
        (hx hier inv rh hs fin e info c).conn =
          (hx hier inv rh hs fin e info c).connAtCleanup.disconnect)) := by
  obtain ⟨le, a, b, d⟩ := hx_conn hier inv rh hs fin e info c
  have hnt' := le.intr hnt
  have hf' := le.fresh hf
  generalize hx hier inv rh hs fin e info c = h at *
  by_cases hr : h.effR = .retTrue
  · refine ⟨?_, hnt', hf', fun hn => absurd hr hn⟩
    rw [a.mpr hr]; simp
  · have d' := d hr
    have hflag : h.connAtCleanup.cleanupFlag =
        match h.connAtCleanup.new with
        | some b => some b
        | none => some true := by
      simp only [Conn.cleanupFlag, hnt']
      cases h.connAtCleanup.new <;> rfl
    cases hnew : h.connAtCleanup.new with
    | none =>
      rw [hflag, hnew] at d'
      simp only at d'
      refine ⟨by rw [d'.1]; simp, hnt', hf', fun _ => ⟨fun hc => (by cases hc), fun _ => d'⟩⟩
    | some b =>
      rw [hflag, hnew] at d'
      cases b with
      | true =>
        simp only at d'
        refine ⟨by rw [d'.1]; simp, hnt', hf', fun _ => ⟨fun hc => (by cases hc), fun _ => d'⟩⟩
      | false =>
        simp only at d'
        refine ⟨by rw [d'.1]; simp, hnt', hf', fun _ => ⟨fun _ => d', fun hc => absurd rfl hc⟩⟩

end PyCraft.ExcFlow
