import PyCraft.Lemmas.Wire
import PyCraft.Model.Packets.Map
import PyCraft.Model.Packets.PlayerListItem
import PyCraft.Model.Packets.SpawnObject
import PyCraft.Model.Packets.CombatEvent
import PyCraft.Model.Packets.FacePlayer
import PyCraft.Model.Packets.PluginResponse
/-!
Helper lemmas for property C05 (hand-written packet codecs): the typed primitives agree with the
generic `encode` / `decode` of C02, the round-trip relation `RT` and its closure under sequencing,
conditionals and loops, and the round trip of every component of the six packet models.
-/
namespace PyCraft.Pk
open PyCraft

/-! ## the typed primitives are the C02 codecs -/

theorem wBool_eq_encode (cc : CustomCodec) (b : Bool) : wBool b = encode cc .bool (.bool b) := rfl
theorem wInt_eq_encode (cc : CustomCodec) (t : IntT) (v : Int) :
    wInt t v = encode cc (.int t) (.int v) := rfl
theorem wVarInt_eq_encode (cc : CustomCodec) (v : Int) : wVarInt v = encode cc .varint (.int v) := rfl
theorem wString_eq_encode (cc : CustomCodec) (s : String) :
    wString s = encode cc .string (.str s) := rfl
theorem wUuid_eq_encode (cc : CustomCodec) (b : Bytes) : wUuid b = encode cc .uuid (.bytes b) := rfl
theorem wBytesV_eq_encode (cc : CustomCodec) (b : Bytes) :
    wBytesV b = encode cc .bytesVarint (.bytes b) := rfl
theorem wTrailing_eq_encode (cc : CustomCodec) (b : Bytes) :
    wTrailing b = encode cc .trailing (.bytes b) := rfl

/-- a typed reader `r` with embedding `inj` is the generic decoder of `t` -/
def AgreesWith {α : Type} (r : Reader α) (inj : α → Value) (t : WType) : Prop :=
  ∀ cc bs, decode cc t bs = (r bs).map (fun p => (inj p.1, p.2))

theorem rBool_eq_decode : AgreesWith rBool Value.bool .bool := by
  intro cc bs
  unfold decode rBool
  cases h : takeN 1 bs <;> simp [bind, Except.bind, Except.map, pure, Except.pure]

theorem rInt_eq_decode (t : IntT) : AgreesWith (rInt t) Value.int (.int t) := by
  intro cc bs
  unfold decode rInt
  cases h : t.unpack bs <;> simp [bind, Except.bind, Except.map, pure, Except.pure]

theorem rVarInt_eq_decode : AgreesWith rVarInt Value.int .varint := by
  intro cc bs
  unfold decode rVarInt rVarNat
  cases h : decVarInt 5 bs <;> simp [bind, Except.bind, Except.map, pure, Except.pure]

theorem rString_eq_decode : AgreesWith rString Value.str .string := by
  intro cc bs
  unfold decode rString rVarNat
  cases h : decVarInt 5 bs with
  | error e => simp [bind, Except.bind, Except.map]
  | ok p =>
    simp only [bind, Except.bind]
    split
    · rfl
    · cases utf8Decode (List.take p.1 p.2) <;> rfl

theorem rUuid_eq_decode : AgreesWith rUuid Value.bytes .uuid := by
  intro cc bs
  unfold decode rUuid
  split <;> rfl

theorem rBytesV_eq_decode : AgreesWith rBytesV Value.bytes .bytesVarint := by
  intro cc bs
  unfold decode rBytesV rVarNat
  cases h : decVarInt 5 bs with
  | error e => simp [bind, Except.bind, Except.map]
  | ok p =>
    simp only [bind, Except.bind]
    cases takeN p.1 p.2 <;> rfl

theorem rTrailing_eq_decode : AgreesWith rTrailing Value.bytes .trailing := by
  intro cc bs; rfl

/-! ## the round-trip relation -/

/-- the writer succeeds and the reader, given the written bytes followed by anything, returns `x`
and leaves exactly what followed -/
def RT {α : Type} (w : Except Err Bytes) (r : Reader α) (x : α) : Prop :=
  ∃ bs, w = .ok bs ∧ ∀ rest, r (bs ++ rest) = .ok (x, rest)

theorem seqW_ok (a b : Bytes) : (Except.ok a : Except Err Bytes) +++ .ok b = .ok (a ++ b) := rfl

theorem rt_nil {α : Type} (x : α) : RT nilW (fun bs => pure (x, bs)) x :=
  ⟨[], rfl, fun _ => rfl⟩

theorem rt_bool (b : Bool) : RT (wBool b) rBool b := by
  refine ⟨_, rfl, fun rest => ?_⟩
  cases b <;> simp [rBool, takeN, bind, Except.bind, pure, Except.pure]

theorem rt_int (t : IntT) (v : Int) (h : t.inDom v) : RT (wInt t v) (rInt t) v := by
  obtain ⟨bs, h1, _, h3⟩ := t.unpack_pack v h
  exact ⟨bs, h1, h3⟩

theorem rt_varnat (n : Nat) (h : n < 2 ^ 32) : RT (wVarInt (n : Int)) rVarNat n := by
  refine ⟨encVarInt n, ?_, fun rest => ?_⟩
  · simp [wVarInt, encVarIntZ]
  · exact (hdr_varint 5 n (by omega)).2.1 rest

theorem rt_varint (v : Int) (h : VarIntDom v) : RT (wVarInt v) rVarInt v := by
  obtain ⟨h0, h1⟩ := h
  obtain ⟨bs, hw, hr⟩ := rt_varnat v.toNat (by omega)
  rw [Int.toNat_of_nonneg h0] at hw
  refine ⟨bs, hw, fun rest => ?_⟩
  simp only [rVarInt, hr, bind, Except.bind, pure, Except.pure, Int.toNat_of_nonneg h0]

theorem rt_string (s : String) (h : StrDom s) : RT (wString s) rString s := by
  refine ⟨_, rfl, fun rest => ?_⟩
  have hv := (hdr_varint 5 (utf8 s).length (by unfold StrDom at h; omega)).2.1
  simp only [rString, rVarNat, List.append_assoc, hv, bind, Except.bind]
  simp [utf8_roundtrip, pure, Except.pure]

theorem rt_uuid (u : Bytes) (h : u.length = 16) : RT (wUuid u) rUuid u := by
  refine ⟨u, by simp [wUuid, h], fun rest => ?_⟩
  have h1 : List.take 16 (u ++ rest) = u := by rw [← h]; simp
  have h2 : List.drop 16 (u ++ rest) = rest := by rw [← h]; simp
  have h3 : 16 ≤ (u ++ rest).length := by simp; omega
  rw [rUuid, if_pos h3, h1, h2]

theorem rt_bytesV (b : Bytes) (h : b.length < 2 ^ 31) : RT (wBytesV b) rBytesV b := by
  refine ⟨_, rfl, fun rest => ?_⟩
  have hv := (hdr_varint 5 b.length (by omega)).2.1
  simp only [rBytesV, rVarNat, List.append_assoc, hv, bind, Except.bind, takeN_append]

theorem rt_optString (o : Option String) (h : OptStrDom o) : RT (wOptString o) rOptString o := by
  cases o with
  | none =>
    obtain ⟨b, hw, hr⟩ := rt_bool false
    exact ⟨b, hw, fun rest => by simp [rOptString, hr, bind, Except.bind, pure, Except.pure]⟩
  | some s =>
    obtain ⟨b, hw, hr⟩ := rt_bool true
    obtain ⟨b2, hw2, hr2⟩ := rt_string s h
    refine ⟨b ++ b2, by simp only [wOptString, hw, hw2, seqW_ok], fun rest => ?_⟩
    simp [rOptString, hr, hr2, bind, Except.bind, pure, Except.pure]

/-- `UnsignedByte.send` read back by `Byte.read`: the value modulo 256, reinterpreted as signed -/
theorem rt_u8_i8 (v : Int) (h : IntT.u8.inDom v) : RT (wInt .u8 v) (rInt .i8) (asSigned8 v) := by
  obtain ⟨bs, h1, h2, h3⟩ := IntT.u8.pack_spec v h
  refine ⟨bs, h1, fun rest => ?_⟩
  obtain ⟨v', e1, _, _, e4⟩ := IntT.i8.unpack_spec bs rest h2
  have hd : 0 ≤ v ∧ v < 256 := by simpa [IntT.inDom, IntT.signed, IntT.width] using h
  simp only [IntT.width] at h3 e4
  have := e4 (asSigned8 v) (by unfold asSigned8; simp [IntT.inDom, IntT.signed, IntT.width]; split <;> omega)
    (by rw [h3]; unfold asSigned8; split <;> omega)
  rw [rInt, e1, this]

theorem rt_if {α : Type} (c : Bool) {w : Except Err Bytes} {r : Reader α} {x : α} (d : α)
    (h : c = true → RT w r x) : RT (wIf c w) (rIf c r d) (if c then x else d) := by
  cases c with
  | false => exact ⟨[], rfl, fun _ => rfl⟩
  | true =>
    obtain ⟨b, hw, hr⟩ := h rfl
    exact ⟨b, hw, fun rest => by simp [rIf, hr]⟩

theorem rt_some {α : Type} {w : Except Err Bytes} {r : Reader α} {x : α} (h : RT w r x) :
    RT w (rSome r) (some x) := by
  obtain ⟨b, hw, hr⟩ := h
  exact ⟨b, hw, fun rest => by simp [rSome, hr, bind, Except.bind, pure, Except.pure]⟩

/-- an assigned, in-domain attribute -/
theorem rt_attr {α : Type} {P : α → Prop} {o : Option α} {w : α → Except Err Bytes} {r : Reader α}
    (h : OptDom P o) (hrt : ∀ v, P v → RT (w v) r v) : RT (attr o w) (rSome r) o := by
  cases o with
  | none => exact h.elim
  | some v => exact rt_some (hrt v h)

/-- the loop: element-wise round trip (up to `g`) gives the round trip of the whole list -/
theorem rt_each {α : Type} (w : α → Except Err Bytes) (r : Reader α) (g : α → α) :
    ∀ xs : List α, (∀ x ∈ xs, RT (w x) r (g x)) →
      RT (wEach w xs) (rRepeat r xs.length) (xs.map g) := by
  intro xs
  induction xs with
  | nil => intro _; exact ⟨[], rfl, fun _ => rfl⟩
  | cons x xs ih =>
    intro h
    obtain ⟨a, ha, ra⟩ := h x List.mem_cons_self
    obtain ⟨b, hb, rb⟩ := ih (fun y hy => h y (List.mem_cons_of_mem _ hy))
    refine ⟨a ++ b, by simp only [wEach, ha, hb, seqW_ok], fun rest => ?_⟩
    simp only [List.length_cons, rRepeat, List.append_assoc, ra, rb, bind, Except.bind, pure,
      Except.pure, List.map_cons]

theorem wIf_false (w : Except Err Bytes) : wIf false w = .ok [] := rfl
theorem wIf_true (w : Except Err Bytes) : wIf true w = w := rfl
theorem rIf_false {α : Type} (r : Reader α) (d : α) (bs : Bytes) : rIf false r d bs = .ok (d, bs) := rfl
theorem rIf_true {α : Type} (r : Reader α) (d : α) (bs : Bytes) : rIf true r d bs = r bs := rfl

theorem attr_some {α : Type} (v : α) (w : α → Except Err Bytes) : attr (some v) w = w v := rfl

theorem optDom_some {α : Type} {P : α → Prop} {o : Option α} (h : OptDom P o) :
    ∃ v, o = some v ∧ P v := by
  cases o with
  | none => exact h.elim
  | some v => exact ⟨v, rfl, h⟩

/-! ## PluginResponsePacket -/

theorem plugresp_rt_aux (p : PluginRespPkt) (h : PluginRespWF p) :
    ∃ bs, writePluginResp p = .ok bs ∧ readPluginResp bs = .ok (p.normalise, []) ∧
      (p.effSuccessful = false → ∀ rest, readPluginResp (bs ++ rest) = .ok (p.normalise, rest)) := by
  obtain ⟨h1, h2⟩ := h
  obtain ⟨b1, w1, r1⟩ := rt_varint _ h1
  obtain ⟨b2, w2, r2⟩ := rt_bool p.effSuccessful
  cases he : p.effSuccessful with
  | false =>
    rw [he] at w2 r2
    have hr : ∀ rest, readPluginResp ((b1 ++ b2) ++ rest) = .ok (p.normalise, rest) := by
      intro rest
      simp only [readPluginResp, List.append_assoc, r1, r2, bind, Except.bind, pure, Except.pure,
        PluginRespPkt.normalise, he]
      rfl
    refine ⟨b1 ++ b2, ?_, ?_, fun _ => hr⟩
    · simp only [writePluginResp, he, w1, w2, seqW_ok, nilW, Bool.false_eq_true, if_false, List.append_nil]
    · simpa using hr []
  | true =>
    rw [he] at w2 r2
    obtain ⟨d, hd⟩ := Option.isSome_iff_exists.mp (h2 he)
    refine ⟨b1 ++ (b2 ++ d), ?_, ?_, fun hf => by simp at hf⟩
    · simp only [writePluginResp, he, hd, w1, w2, wTrailing, seqW_ok, if_true]
    · simp only [readPluginResp, r1, r2, bind, Except.bind, pure, Except.pure, rTrailing,
        PluginRespPkt.normalise, he, hd]
      rfl
/-- where the plugin response survives unchanged: `successful` was assigned explicitly and no data
is attached to an unsuccessful response -/
theorem plugresp_normalise_id (p : PluginRespPkt) :
    p.normalise = p ↔ ∃ b, p.successful = some b ∧ (b = false → p.data = none) := by
  obtain ⟨i, s, d⟩ := p
  cases s with
  | none => simp [PluginRespPkt.normalise]
  | some b => cases b <;> cases d <;> simp [PluginRespPkt.normalise, PluginRespPkt.effSuccessful]

/-! ## FacePlayerPacket -/

theorem face_rt_aux (f : FaceFlags) (p : FacePkt) (h : FaceWF f p) :
    RT (writeFace f p) (readFace f) (p.normalise f) := by
  obtain ⟨v353⟩ := f
  obtain ⟨origin, x, y, z, eid, eo⟩ := p
  cases v353 with
  | true =>
    simp only [FaceWF, if_true] at h
    obtain ⟨h1, h2, h3, h4, h5⟩ := h
    cases origin with | none => exact h1.elim | some origin => ?_
    cases x with | none => exact h2.elim | some x => ?_
    cases y with | none => exact h3.elim | some y => ?_
    cases z with | none => exact h4.elim | some z => ?_
    obtain ⟨b1, w1, r1⟩ := rt_varint origin h1
    obtain ⟨b2, w2, r2⟩ := rt_int .f64 x h2
    obtain ⟨b3, w3, r3⟩ := rt_int .f64 y h3
    obtain ⟨b4, w4, r4⟩ := rt_int .f64 z h4
    cases eid with
    | none =>
      obtain ⟨b5, w5, r5⟩ := rt_bool false
      refine ⟨b1 ++ (b2 ++ (b3 ++ (b4 ++ b5))), ?_, fun rest => ?_⟩
      · simp only [writeFace, attr, w1, w2, w3, w4, w5, seqW_ok, if_true]
      · simp only [readFace, List.append_assoc, r1, r2, r3, r4, r5, bind, Except.bind, pure,
          Except.pure, if_true, FacePkt.normalise, Bool.false_eq_true, if_false]
    | some e =>
      obtain ⟨h5, h6⟩ := h5
      cases eo with | none => exact h6.elim | some eo => ?_
      obtain ⟨b5, w5, r5⟩ := rt_bool true
      obtain ⟨b6, w6, r6⟩ := rt_varint e h5
      obtain ⟨b7, w7, r7⟩ := rt_varint eo h6
      refine ⟨b1 ++ (b2 ++ (b3 ++ (b4 ++ (b5 ++ (b6 ++ b7))))), ?_, fun rest => ?_⟩
      · simp only [writeFace, attr, w1, w2, w3, w4, w5, w6, w7, seqW_ok, if_true]
      · simp only [readFace, List.append_assoc, r1, r2, r3, r4, r5, r6, r7, bind, Except.bind, pure,
          Except.pure, if_true, FacePkt.normalise]
  | false =>
    simp only [FaceWF, Bool.false_eq_true, if_false] at h
    cases eid with
    | some e =>
      obtain ⟨b5, w5, r5⟩ := rt_bool true
      obtain ⟨b6, w6, r6⟩ := rt_varint e h
      refine ⟨b5 ++ b6, ?_, fun rest => ?_⟩
      · simp only [writeFace, w5, w6, seqW_ok, Bool.false_eq_true, if_false]
      · simp only [readFace, List.append_assoc, r5, r6, bind, Except.bind, pure,
          Except.pure, if_true, FacePkt.normalise, Bool.false_eq_true, if_false]
    | none =>
      obtain ⟨h2, h3, h4⟩ := h
      cases x with | none => exact h2.elim | some x => ?_
      cases y with | none => exact h3.elim | some y => ?_
      cases z with | none => exact h4.elim | some z => ?_
      obtain ⟨b2, w2, r2⟩ := rt_int .f64 x h2
      obtain ⟨b3, w3, r3⟩ := rt_int .f64 y h3
      obtain ⟨b4, w4, r4⟩ := rt_int .f64 z h4
      obtain ⟨b5, w5, r5⟩ := rt_bool false
      refine ⟨b5 ++ (b2 ++ (b3 ++ b4)), ?_, fun rest => ?_⟩
      · simp only [writeFace, attr, w2, w3, w4, w5, seqW_ok, Bool.false_eq_true, if_false]
      · simp only [readFace, List.append_assoc, r2, r3, r4, r5, bind, Except.bind, pure,
          Except.pure, FacePkt.normalise, Bool.false_eq_true, if_false]

/-- where `normalise` is the identity -/
theorem face_normalise_id (f : FaceFlags) (p : FacePkt) :
    p.normalise f = p ↔
      (if f.v353 then (p.entityId = none → p.entityOrigin = none)
       else p.origin = none ∧ p.entityOrigin = none ∧
         (p.entityId ≠ none → p.x = none ∧ p.y = none ∧ p.z = none)) := by
  obtain ⟨v353⟩ := f
  obtain ⟨origin, x, y, z, eid, eo⟩ := p
  cases v353 <;> cases eid <;> simp [FacePkt.normalise] <;> grind

/-! ## CombatEventPacket -/

theorem combat_rt_aux (f : CombatFlags) (ev : CombatEvent) (h : CombatWF f ev) :
    RT (writeCombat f ev) (readCombat f) ev := by
  obtain ⟨hf, hw⟩ := h
  cases ev with
  | enter =>
    obtain ⟨b0, w0, r0⟩ := rt_varnat 0 (by omega)
    refine ⟨b0, ?_, fun rest => ?_⟩
    · simp only [writeCombat, hf, CombatEvent.id, CombatEvent.write, nilW, Bool.false_eq_true, if_false]
      rw [show ((0 : Int)) = ((0 : Nat) : Int) from rfl, w0, seqW_ok, List.append_nil]
    · simp only [readCombat, hf, r0, bind, Except.bind, pure, Except.pure, Bool.false_eq_true,
        if_false]
  | endCombat duration entityId =>
    obtain ⟨h1, h2⟩ := hw
    obtain ⟨b0, w0, r0⟩ := rt_varnat 1 (by omega)
    obtain ⟨b1, w1, r1⟩ := rt_varint duration h1
    obtain ⟨b2, w2, r2⟩ := rt_int .i32 entityId h2
    refine ⟨b0 ++ (b1 ++ b2), ?_, fun rest => ?_⟩
    · simp only [writeCombat, hf, CombatEvent.id, CombatEvent.write, Bool.false_eq_true, if_false]
      rw [show ((1 : Int)) = ((1 : Nat) : Int) from rfl, w0, w1, w2, seqW_ok, seqW_ok]
    · simp only [readCombat, hf, List.append_assoc, r0, r1, r2, bind, Except.bind, pure,
        Except.pure, Bool.false_eq_true, if_false]
  | dead playerId entityId message =>
    obtain ⟨h1, h2, h3⟩ := hw
    obtain ⟨b0, w0, r0⟩ := rt_varnat 2 (by omega)
    obtain ⟨b1, w1, r1⟩ := rt_varint playerId h1
    obtain ⟨b2, w2, r2⟩ := rt_int .i32 entityId h2
    obtain ⟨b3, w3, r3⟩ := rt_string message h3
    refine ⟨b0 ++ (b1 ++ (b2 ++ b3)), ?_, fun rest => ?_⟩
    · simp only [writeCombat, hf, CombatEvent.id, CombatEvent.write, Bool.false_eq_true, if_false]
      rw [show ((2 : Int)) = ((2 : Nat) : Int) from rfl, w0, w1, w2, w3, seqW_ok, seqW_ok, seqW_ok]
    · simp only [readCombat, hf, List.append_assoc, r0, r1, r2, r3, bind, Except.bind, pure,
        Except.pure, Bool.false_eq_true, if_false]

/-- from protocol `PRE | 15` on, both directions raise `NotImplementedError` -/
theorem combat_deprecated (ev : CombatEvent) (bs : Bytes) :
    writeCombat ⟨true⟩ ev = .error .other ∧ readCombat ⟨true⟩ bs = .error .other := ⟨rfl, rfl⟩

/-! ## SpawnObjectPacket -/

theorem spawn_rt_aux (f : SpawnFlags) (p : SpawnPkt) (h : SpawnWF f p) :
    RT (writeSpawn f p) (readSpawn f) (p.normalise f) := by
  obtain ⟨h1, h2, h3, h4, h5, h6, h7, h8, h9, h10⟩ := h
  obtain ⟨b1, w1, r1⟩ := rt_varint _ h1
  obtain ⟨b2, w2, r2⟩ := rt_if f.v49 (none : Option Bytes)
    (fun hc => rt_attr (h2 hc) (fun v hv => rt_uuid v hv))
  have h3' : RT (if f.v458 then wVarInt p.typeId else wInt .i8 p.typeId)
      (if f.v458 then rVarInt else rInt .i8) p.typeId := by
    cases hc : f.v458
    · simp only [hc, Bool.false_eq_true, if_false] at h3 ⊢; exact rt_int _ _ h3
    · simp only [hc, if_true] at h3 ⊢; exact rt_varint _ h3
  obtain ⟨b3, w3, r3⟩ := h3'
  obtain ⟨b4, w4, r4⟩ := rt_int _ _ h4
  obtain ⟨b5, w5, r5⟩ := rt_int _ _ h5
  obtain ⟨b6, w6, r6⟩ := rt_int _ _ h6
  obtain ⟨b7, w7, r7⟩ := rt_int _ _ h7
  obtain ⟨b8, w8, r8⟩ := rt_int _ _ h8
  obtain ⟨b9, w9, r9⟩ := rt_int _ _ h9
  cases hv : p.hasVelocity f with
  | false =>
    have hv' : (f.v49 || decide (p.data > 0)) = false := hv
    refine ⟨b1 ++ (b2 ++ (b3 ++ (b4 ++ (b5 ++ (b6 ++ (b7 ++ (b8 ++ b9))))))), ?_, fun rest => ?_⟩
    · simp only [writeSpawn, hv', wIf_false, w1, w2, w3, w4, w5, w6, w7, w8, w9, seqW_ok,
        List.append_nil]
    · simp only [readSpawn, List.append_assoc, r1, r2, r3, r4, r5, r6, r7, r8, r9, bind,
        Except.bind, pure, Except.pure, hv', Bool.false_eq_true, if_false, SpawnPkt.normalise, hv]
  | true =>
    have hv' : (f.v49 || decide (p.data > 0)) = true := hv
    obtain ⟨g1, g2, g3⟩ := h10 hv
    obtain ⟨vx, ex, dx⟩ := optDom_some g1
    obtain ⟨vy, ey, dy⟩ := optDom_some g2
    obtain ⟨vz, ez, dz⟩ := optDom_some g3
    obtain ⟨c1, x1, y1⟩ := rt_int .i16 vx dx
    obtain ⟨c2, x2, y2⟩ := rt_int .i16 vy dy
    obtain ⟨c3, x3, y3⟩ := rt_int .i16 vz dz
    refine ⟨b1 ++ (b2 ++ (b3 ++ (b4 ++ (b5 ++ (b6 ++ (b7 ++ (b8 ++ (b9 ++ (c1 ++ (c2 ++ c3)))))))))),
      ?_, fun rest => ?_⟩
    · simp only [writeSpawn, hv', wIf_true, ex, ey, ez, attr_some, w1, w2, w3, w4, w5, w6, w7, w8, w9, x1,
        x2, x3, seqW_ok]
    · simp only [readSpawn, List.append_assoc, r1, r2, r3, r4, r5, r6, r7, r8, r9, y1, y2, y3, bind,
        Except.bind, pure, Except.pure, hv', if_true, SpawnPkt.normalise, hv, ex, ey, ez]

/-- where `normalise` is the identity -/
theorem spawn_normalise_id (f : SpawnFlags) (p : SpawnPkt) :
    p.normalise f = p ↔
      (f.v49 = false → p.objectUuid = none) ∧
      (p.hasVelocity f = false → p.velocityX = none ∧ p.velocityY = none ∧ p.velocityZ = none) := by
  obtain ⟨a, b, c, d, e, g, h, i, j, k, l, m⟩ := p
  simp only [SpawnPkt.normalise, SpawnPkt.mk.injEq, true_and]
  cases f.v49 <;> cases SpawnPkt.hasVelocity f _ <;> simp <;> grind

/-! ## MapPacket -/

/-- the nibble packing, arithmetically -/
theorem typeAndDirection_eq (t d : Int) : typeAndDirection t d = (t % 16) * 16 + d % 16 := by
  unfold typeAndDirection pyMask
  have h1 : (t * 2 ^ 4 % 2 ^ 8).toNat = (t % 16).toNat <<< 4 := by
    rw [Nat.shiftLeft_eq]; omega
  have h2 : (d % 2 ^ 4).toNat < 2 ^ 4 := by omega
  rw [h1, ← Nat.shiftLeft_add_eq_or_of_lt h2, Nat.shiftLeft_eq]
  omega

theorem icon_head_rt (f : MapFlags) (ic : MapIcon)
    (h : f.v373 = true → VarIntDom ic.type) :
    RT (writeIconHead f ic) (readIconHead f)
      (if f.v373 then ic.type else ic.type % 16, if f.v373 then 0 else ic.direction % 16) := by
  cases hc : f.v373 with
  | true =>
    obtain ⟨b, w, r⟩ := rt_varint _ (h hc)
    refine ⟨b, by simp only [writeIconHead, hc, w, if_true], fun rest => ?_⟩
    simp only [readIconHead, hc, r, bind, Except.bind, pure, Except.pure, if_true]
  | false =>
    have hd : IntT.u8.inDom (typeAndDirection ic.type ic.direction) := by
      rw [typeAndDirection_eq]; simp [IntT.inDom, IntT.signed, IntT.width]; omega
    obtain ⟨b, w, r⟩ := rt_int .u8 _ hd
    refine ⟨b, by simp only [writeIconHead, hc, w, Bool.false_eq_true, if_false], fun rest => ?_⟩
    simp only [readIconHead, hc, r, bind, Except.bind, pure, Except.pure, Bool.false_eq_true,
      if_false, typeAndDirection_eq]
    have e1 : (ic.type % 16 * 16 + ic.direction % 16) / 16 = ic.type % 16 := by omega
    have e2 : (ic.type % 16 * 16 + ic.direction % 16) % 16 = ic.direction % 16 := by omega
    rw [e1, e2]

theorem icon_rt (f : MapFlags) (ic : MapIcon) (h : ic.WF f) :
    RT (writeIcon f ic) (readIcon f) (ic.normalise f) := by
  obtain ⟨h1, h2, h3, h4⟩ := h
  obtain ⟨b1, w1, r1⟩ := icon_head_rt f ic (fun hc => (h1 hc).1)
  obtain ⟨b2, w2, r2⟩ := rt_int .i8 _ h2
  obtain ⟨b3, w3, r3⟩ := rt_int .i8 _ h3
  obtain ⟨b4, w4, r4⟩ := rt_if f.v373 (if f.v373 then 0 else ic.direction % 16)
    (fun hc => rt_int .u8 _ (h1 hc).2)
  obtain ⟨b5, w5, r5⟩ := rt_if f.v364 (none : Option String) (fun hc => rt_optString _ (h4 hc))
  refine ⟨b1 ++ (b2 ++ (b3 ++ (b4 ++ b5))), ?_, fun rest => ?_⟩
  · simp only [writeIcon, w1, w2, w3, w4, w5, seqW_ok]
  · simp only [readIcon, List.append_assoc, r1, r2, r3, r4, r5, bind, Except.bind, pure,
      Except.pure, MapIcon.normalise]
    cases f.v373 <;> rfl

theorem map_rt_aux (f : MapFlags) (p : MapPkt) (h : MapWF f p) :
    RT (writeMap f p) (readMap f) (p.normalise f) := by
  obtain ⟨h1, h2, h3, h4, h5, h6⟩ := h
  obtain ⟨b1, w1, r1⟩ := rt_varint _ h1
  obtain ⟨b2, w2, r2⟩ := rt_int .i8 _ h2
  obtain ⟨b3, w3, r3⟩ := rt_if (f.v107 && !f.pre6) (if !f.v107 then true else true)
    (fun _ => rt_bool p.isTrackingPosition)
  obtain ⟨b4, w4, r4⟩ := rt_if f.v452 false (fun _ => rt_bool p.isLocked)
  obtain ⟨b5, w5, r5⟩ := rt_if f.pre6
    (if (f.v107 && !f.pre6) = true then p.isTrackingPosition else (if !f.v107 then true else true))
    (fun _ => rt_bool p.isTrackingPosition)
  obtain ⟨b6, w6, r6⟩ := rt_varnat p.icons.length (by omega)
  obtain ⟨b7, w7, r7⟩ := rt_each (writeIcon f) (readIcon f) (MapIcon.normalise f) p.icons
    (fun ic hic => icon_rt f ic (h4 ic hic))
  obtain ⟨b8, w8, r8⟩ := rt_int .u8 _ h5
  have ht : (if f.pre6 = true then p.isTrackingPosition
      else if (f.v107 && !f.pre6) = true then p.isTrackingPosition
      else if (!f.v107) = true then true else true) =
      (if (f.v107 || f.pre6) = true then p.isTrackingPosition else true) := by
    cases f.v107 <;> cases f.pre6 <;> rfl
  by_cases hw : p.width = 0
  · rw [hw] at w8 r8
    refine ⟨b1 ++ (b2 ++ (b3 ++ (b4 ++ (b5 ++ (b6 ++ (b7 ++ b8)))))), ?_, fun rest => ?_⟩
    · simp only [writeMap, w1, w2, w3, w4, w5, w6, w7, w8, seqW_ok, hw, ne_eq, not_true_eq_false,
        if_false, nilW, List.append_nil]
    · simp only [readMap, List.append_assoc, r1, r2, r3, r4, r5, r6, r7, r8, bind, Except.bind,
        pure, Except.pure, hw, ne_eq, not_true_eq_false, if_false, MapPkt.normalise, ht]
  · obtain ⟨g1, g2, g3⟩ := h6 hw
    obtain ⟨off, eo, ⟨dox, doz⟩⟩ := optDom_some g2
    obtain ⟨px, ep, dp⟩ := optDom_some g3
    obtain ⟨ox, oz⟩ := off
    obtain ⟨c1, x1, y1⟩ := rt_int .u8 _ g1
    obtain ⟨c2, x2, y2⟩ := rt_u8_i8 ox dox
    obtain ⟨c3, x3, y3⟩ := rt_u8_i8 oz doz
    obtain ⟨c4, x4, y4⟩ := rt_bytesV px dp
    refine ⟨b1 ++ (b2 ++ (b3 ++ (b4 ++ (b5 ++ (b6 ++ (b7 ++ (b8 ++ (c1 ++ ((c2 ++ c3) ++ c4))))))))),
      ?_, fun rest => ?_⟩
    · simp only [writeMap, w1, w2, w3, w4, w5, w6, w7, w8, x1, x2, x3, x4, seqW_ok, hw, ne_eq,
        not_false_eq_true, if_true, eo, ep]
    · simp only [readMap, List.append_assoc, r1, r2, r3, r4, r5, r6, r7, r8, y1, y2, y3, y4, bind,
        Except.bind, pure, Except.pure, hw, ne_eq, not_false_eq_true, if_true, MapPkt.normalise, ht,
        eo, ep, Option.map_some]


theorem asSigned8_id (v : Int) : asSigned8 v = v ↔ v < 128 := by
  unfold asSigned8; split <;> omega

/-- where an icon survives the round trip unchanged -/
theorem icon_normalise_id (f : MapFlags) (ic : MapIcon) :
    ic.normalise f = ic ↔
      (f.v373 = false → (0 ≤ ic.type ∧ ic.type < 16) ∧ (0 ≤ ic.direction ∧ ic.direction < 16)) ∧
      (f.v364 = false → ic.displayName = none) := by
  obtain ⟨t, d, x, z, n⟩ := ic
  simp only [MapIcon.normalise, MapIcon.mk.injEq, true_and]
  have m : ∀ t : Int, t % 16 = t ↔ (0 ≤ t ∧ t < 16) := fun t => by omega
  cases f.v373 <;> cases f.v364 <;> simp [m, and_assoc, @eq_comm _ none n]

/-- a sub-domain on which the whole packet survives the round trip unchanged -/
theorem map_normalise_id (f : MapFlags) (p : MapPkt)
    (h1 : f.v107 = false → f.pre6 = false → p.isTrackingPosition = true)
    (h2 : f.v452 = false → p.isLocked = false)
    (h3 : ∀ ic ∈ p.icons, ic.normalise f = ic)
    (h4 : p.width = 0 → p.height = 0 ∧ p.offset = none ∧ p.pixels = none)
    (h5 : ∀ o, p.offset = some o → o.1 < 128 ∧ o.2 < 128) :
    p.normalise f = p := by
  obtain ⟨a, b, c, d, e, w, h, o, px⟩ := p
  dsimp only at h1 h2 h3 h4 h5
  simp only [MapPkt.normalise, MapPkt.mk.injEq, true_and]
  refine ⟨?_, ?_, ?_, ?_, ?_, ?_⟩
  · revert h1; cases f.v107 <;> cases f.pre6 <;> simp
  · revert h2; cases f.v452 <;> simp
  · conv => rhs; rw [← List.map_id e]
    exact List.map_congr_left h3
  · by_cases hw : w = 0
    · simp [hw, (h4 hw).1]
    · simp [hw]
  · by_cases hw : w = 0
    · simp [hw, (h4 hw).2.1]
    · simp only [ne_eq, hw, not_false_eq_true, if_true]
      cases o with
      | none => rfl
      | some o =>
        obtain ⟨g1, g2⟩ := h5 o rfl
        simp [(asSigned8_id _).mpr g1, (asSigned8_id _).mpr g2]
  · by_cases hw : w = 0
    · simp [hw, (h4 hw).2.2]
    · simp [hw]

/-! ## PlayerListItemPacket -/

theorem property_rt (pr : PlayerProperty) (h : pr.WF) : RT (writeProperty pr) readProperty pr := by
  obtain ⟨h1, h2, h3⟩ := h
  obtain ⟨b1, w1, r1⟩ := rt_string _ h1
  obtain ⟨b2, w2, r2⟩ := rt_string _ h2
  obtain ⟨b3, w3, r3⟩ := rt_optString _ h3
  refine ⟨b1 ++ (b2 ++ b3), ?_, fun rest => ?_⟩
  · simp only [writeProperty, w1, w2, w3, seqW_ok]
  · simp only [readProperty, List.append_assoc, r1, r2, r3, bind, Except.bind, pure, Except.pure]

theorem action_rt (a : Action) (h : a.WF) : RT (writeAction a) (readAction a.kind) a := by
  cases a with
  | addPlayer uuid name properties gamemode ping displayName =>
    obtain ⟨h1, h2, h3, h4, h5, h6, h7⟩ := h
    obtain ⟨b1, w1, r1⟩ := rt_uuid _ h1
    obtain ⟨b2, w2, r2⟩ := rt_string _ h2
    obtain ⟨b3, w3, r3⟩ := rt_varnat properties.length (by omega)
    obtain ⟨b4, w4, r4⟩ := rt_each writeProperty readProperty id properties
      (fun pr hp => property_rt pr (h4 pr hp))
    obtain ⟨b5, w5, r5⟩ := rt_varint _ h5
    obtain ⟨b6, w6, r6⟩ := rt_varint _ h6
    obtain ⟨b7, w7, r7⟩ := rt_optString _ h7
    refine ⟨b1 ++ (b2 ++ (b3 ++ (b4 ++ (b5 ++ (b6 ++ b7))))), ?_, fun rest => ?_⟩
    · simp only [writeAction, w1, w2, w3, w4, w5, w6, w7, seqW_ok]
    · simp only [readAction, Action.kind, List.append_assoc, r1, r2, r3, r4, r5, r6, r7, bind,
        Except.bind, pure, Except.pure, List.map_id_fun, id_eq]
  | updateGameMode uuid gamemode =>
    obtain ⟨h1, h2⟩ := h
    obtain ⟨b1, w1, r1⟩ := rt_uuid _ h1
    obtain ⟨b2, w2, r2⟩ := rt_varint _ h2
    refine ⟨b1 ++ b2, ?_, fun rest => ?_⟩
    · simp only [writeAction, w1, w2, seqW_ok]
    · simp only [readAction, Action.kind, List.append_assoc, r1, r2, bind, Except.bind, pure,
        Except.pure]
  | updateLatency uuid ping =>
    obtain ⟨h1, h2⟩ := h
    obtain ⟨b1, w1, r1⟩ := rt_uuid _ h1
    obtain ⟨b2, w2, r2⟩ := rt_varint _ h2
    refine ⟨b1 ++ b2, ?_, fun rest => ?_⟩
    · simp only [writeAction, w1, w2, seqW_ok]
    · simp only [readAction, Action.kind, List.append_assoc, r1, r2, bind, Except.bind, pure,
        Except.pure]
  | updateDisplayName uuid displayName =>
    obtain ⟨h1, h2⟩ := h
    obtain ⟨b1, w1, r1⟩ := rt_uuid _ h1
    obtain ⟨b2, w2, r2⟩ := rt_optString _ h2
    refine ⟨b1 ++ b2, ?_, fun rest => ?_⟩
    · simp only [writeAction, w1, w2, seqW_ok]
    · simp only [readAction, Action.kind, List.append_assoc, r1, r2, bind, Except.bind, pure,
        Except.pure]
  | removePlayer uuid =>
    obtain ⟨b1, w1, r1⟩ := rt_uuid _ h
    refine ⟨b1, ?_, fun rest => ?_⟩
    · simp only [writeAction, w1, nilW, seqW_ok, List.append_nil]
    · simp only [readAction, Action.kind, r1, bind, Except.bind, pure, Except.pure]

theorem actionKind_id (k : ActionKind) :
    ∃ n : Nat, k.actionId = (n : Int) ∧ n < 2 ^ 32 ∧ actionKindOfId n = .ok k := by
  cases k
  · exact ⟨0, rfl, by omega, rfl⟩
  · exact ⟨1, rfl, by omega, rfl⟩
  · exact ⟨2, rfl, by omega, rfl⟩
  · exact ⟨3, rfl, by omega, rfl⟩
  · exact ⟨4, rfl, by omega, rfl⟩

theorem pli_rt_aux (p : PliPkt) (h : PliWF p) : RT (writePli p) readPli p := by
  obtain ⟨h1, h2⟩ := h
  obtain ⟨n, e1, e2, e3⟩ := actionKind_id p.actionType
  obtain ⟨b1, w1, r1⟩ := rt_varnat n e2
  obtain ⟨b2, w2, r2⟩ := rt_varnat p.actions.length (by omega)
  obtain ⟨b3, w3, r3⟩ := rt_each writeAction (readAction p.actionType) id p.actions
    (fun a ha => by have := action_rt a (h2 a ha).2; rwa [(h2 a ha).1] at this)
  refine ⟨b1 ++ (b2 ++ b3), ?_, fun rest => ?_⟩
  · simp only [writePli, e1, w1, w2, w3, seqW_ok]
  · simp only [readPli, List.append_assoc, r1, r2, r3, e3, bind, Except.bind, pure, Except.pure,
      List.map_id_fun, id_eq]

end PyCraft.Pk
