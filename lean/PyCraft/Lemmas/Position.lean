import PyCraft.Model.Position
import PyCraft.Lemmas.VarInt
/-!
Helper lemmas for C04: bit operations → arithmetic, the `'>Q'` codec, and the arithmetic form of
the three packings.  Everything lives in `PyCraft.Pos` so that no helper name clashes with other
models (e.g. `Model/Wire.lean` has its own `PyCraft.beValue`).
-/
namespace PyCraft.Pos

/-! ### bit operations as arithmetic -/

/-- `|` is `+` when the right operand fits below the alignment of the left one. -/
theorem or_eq_add (n c k : Nat) (hn : n % 2 ^ k = 0) (hc : c < 2 ^ k) : n ||| c = n + c := by
  have e : (n / 2 ^ k) <<< k = n := by
    rw [Nat.shiftLeft_eq, Nat.div_mul_cancel (Nat.dvd_of_mod_eq_zero hn)]
  calc n ||| c = ((n / 2 ^ k) <<< k) ||| c := by rw [e]
    _ = (n / 2 ^ k) <<< k + c := (Nat.shiftLeft_add_eq_or_of_lt hc _).symm
    _ = n + c := by rw [e]

theorem and_mask (n k m : Nat) (hm : m = 2 ^ k - 1) : n &&& m = n % 2 ^ k := by
  subst hm; exact Nat.and_two_pow_sub_one_eq_mod n k

theorem and_F (n : Nat) : n &&& 0xF = n % 2 ^ 4 := and_mask n 4 _ (by decide)
theorem and_FFF (n : Nat) : n &&& 0xFFF = n % 2 ^ 12 := and_mask n 12 _ (by decide)
theorem and_FFFFF (n : Nat) : n &&& 0xFFFFF = n % 2 ^ 20 := and_mask n 20 _ (by decide)
theorem and_3FFFFF (n : Nat) : n &&& 0x3FFFFF = n % 2 ^ 22 := and_mask n 22 _ (by decide)
theorem and_3FFFFFF (n : Nat) : n &&& 0x3FFFFFF = n % 2 ^ 26 := and_mask n 26 _ (by decide)

theorem and_bit_div (n k : Nat) : (n &&& 2 ^ k) / 2 ^ k = n / 2 ^ k % 2 := by
  rw [Nat.and_div_two_pow, Nat.div_self (Nat.two_pow_pos k), Nat.and_one_is_mod]

theorem and_bit_mod (n k : Nat) : (n &&& 2 ^ k) % 2 ^ k = 0 := by
  rw [Nat.and_mod_two_pow, Nat.mod_self, Nat.and_zero]

/-- `value & 0x80000` is truthy iff bit 19 is set. -/
theorem and_bit19 (n : Nat) : (n &&& 0x80000 ≠ 0) ↔ 2 ^ 19 ≤ n % 2 ^ 20 := by
  have h1 : (n &&& 0x80000) / 524288 = n / 524288 % 2 := and_bit_div n 19
  have h2 : (n &&& 0x80000) % 524288 = 0 := and_bit_mod n 19
  omega

/-- `value & 0x200000` is truthy iff bit 21 is set. -/
theorem and_bit21 (n : Nat) : (n &&& 0x200000 ≠ 0) ↔ 2 ^ 21 ≤ n % 2 ^ 22 := by
  have h1 : (n &&& 0x200000) / 2097152 = n / 2097152 % 2 := and_bit_div n 21
  have h2 : (n &&& 0x200000) % 2097152 = 0 := and_bit_mod n 21
  omega

/-- Three fields packed with `<<` and `|` = the positional sum. -/
theorem pack3_add (a b c s t : Nat) (hts : t ≤ s) (hb : b * 2 ^ t < 2 ^ s) (hc : c < 2 ^ t) :
    (a <<< s) ||| (b <<< t) ||| c = a * 2 ^ s + b * 2 ^ t + c := by
  rw [Nat.shiftLeft_eq, Nat.shiftLeft_eq,
    or_eq_add (a * 2 ^ s) (b * 2 ^ t) s (Nat.mul_mod_left _ _) hb]
  refine or_eq_add _ c t ?_ hc
  apply Nat.mod_eq_zero_of_dvd
  exact Nat.dvd_add (Nat.dvd_mul_left_of_dvd (Nat.pow_dvd_pow 2 hts) a) (Nat.dvd_mul_left _ _)

/-! ### `struct '>Q'` -/

theorem beU64_length (n : Nat) : (beU64 n).length = 8 := rfl

theorem beValue_eight (b0 b1 b2 b3 b4 b5 b6 b7 : UInt8) :
    beValue [b0, b1, b2, b3, b4, b5, b6, b7] =
      b0.toNat * 2 ^ 56 + b1.toNat * 2 ^ 48 + b2.toNat * 2 ^ 40 + b3.toNat * 2 ^ 32 +
      b4.toNat * 2 ^ 24 + b5.toNat * 2 ^ 16 + b6.toNat * 2 ^ 8 + b7.toNat := by
  simp only [beValue, List.foldl]
  omega

theorem length_eight (w : Bytes) (h : w.length = 8) :
    ∃ b0 b1 b2 b3 b4 b5 b6 b7, w = [b0, b1, b2, b3, b4, b5, b6, b7] := by
  match w, h with
  | [b0, b1, b2, b3, b4, b5, b6, b7], _ => exact ⟨b0, b1, b2, b3, b4, b5, b6, b7, rfl⟩

theorem beValue_lt (w : Bytes) (h : w.length = 8) : beValue w < 2 ^ 64 := by
  obtain ⟨b0, b1, b2, b3, b4, b5, b6, b7, rfl⟩ := length_eight w h
  rw [beValue_eight]
  have := b0.toNat_lt; have := b1.toNat_lt; have := b2.toNat_lt; have := b3.toNat_lt
  have := b4.toNat_lt; have := b5.toNat_lt; have := b6.toNat_lt; have := b7.toNat_lt
  omega

theorem beValue_beU64 (n : Nat) (h : n < 2 ^ 64) : beValue (beU64 n) = n := by
  unfold beU64
  rw [beValue_eight]
  repeat rw [u8_ofNat_toNat _ (Nat.mod_lt _ (by omega))]
  omega

theorem u8_of_toNat_eq (b : UInt8) (n : Nat) (h : n = b.toNat) : UInt8.ofNat n = b := by
  subst h; exact UInt8.ofNat_toNat

theorem beU64_beValue (w : Bytes) (h : w.length = 8) : beU64 (beValue w) = w := by
  obtain ⟨b0, b1, b2, b3, b4, b5, b6, b7, rfl⟩ := length_eight w h
  rw [beValue_eight]
  have := b0.toNat_lt; have := b1.toNat_lt; have := b2.toNat_lt; have := b3.toNat_lt
  have := b4.toNat_lt; have := b5.toNat_lt; have := b6.toNat_lt; have := b7.toNat_lt
  unfold beU64
  rw [u8_of_toNat_eq b0 _ (by omega), u8_of_toNat_eq b1 _ (by omega),
    u8_of_toNat_eq b2 _ (by omega), u8_of_toNat_eq b3 _ (by omega),
    u8_of_toNat_eq b4 _ (by omega), u8_of_toNat_eq b5 _ (by omega),
    u8_of_toNat_eq b6 _ (by omega), u8_of_toNat_eq b7 _ (by omega)]

theorem readU64_append (w rest : Bytes) (h : w.length = 8) :
    readU64 (w ++ rest) = .ok (beValue w, rest) := by
  unfold readU64
  simp only [List.take_left' h, List.drop_left' h, h, if_true]

theorem readU64_short (bs : Bytes) (h : bs.length < 8) : readU64 bs = .error .struct := by
  unfold readU64
  have : (List.take 8 bs).length ≠ 8 := by rw [List.length_take]; omega
  simp only [this, if_false]

theorem readU64_beU64 (n : Nat) (rest : Bytes) (h : n < 2 ^ 64) :
    readU64 (beU64 n ++ rest) = .ok (n, rest) := by
  rw [readU64_append _ _ (beU64_length n), beValue_beU64 n h]

theorem packU64_nat (n : Nat) (h : n < 2 ^ 64) : packU64 (n : Int) = .ok (beU64 n) := by
  unfold packU64
  rw [if_pos (by omega)]
  simp

/-! ### masks and sign fixes -/

theorem maskBits_lt4 (v : Int) : maskBits v 4 < 2 ^ 4 := by unfold maskBits; omega
theorem maskBits_lt12 (v : Int) : maskBits v 12 < 2 ^ 12 := by unfold maskBits; omega
theorem maskBits_lt20 (v : Int) : maskBits v 20 < 2 ^ 20 := by unfold maskBits; omega
theorem maskBits_lt22 (v : Int) : maskBits v 22 < 2 ^ 22 := by unfold maskBits; omega
theorem maskBits_lt26 (v : Int) : maskBits v 26 < 2 ^ 26 := by unfold maskBits; omega

theorem signFix_mask26 (x : Int) (h1 : -2 ^ 25 ≤ x) (h2 : x < 2 ^ 25) :
    signFix (maskBits x 26) (2 ^ 25) (2 ^ 26) = x := by
  unfold signFix maskBits; split <;> omega

theorem signFix_mask12 (y : Int) (h1 : -2 ^ 11 ≤ y) (h2 : y < 2 ^ 11) :
    signFix (maskBits y 12) (2 ^ 11) (2 ^ 12) = y := by
  unfold signFix maskBits; split <;> omega

theorem signFix26 (v : Nat) (h : v < 2 ^ 26) :
    -2 ^ 25 ≤ signFix v (2 ^ 25) (2 ^ 26) ∧ signFix v (2 ^ 25) (2 ^ 26) < 2 ^ 25 ∧
    maskBits (signFix v (2 ^ 25) (2 ^ 26)) 26 = v := by
  unfold signFix maskBits; split <;> omega

theorem signFix12 (v : Nat) (h : v < 2 ^ 12) :
    -2 ^ 11 ≤ signFix v (2 ^ 11) (2 ^ 12) ∧ signFix v (2 ^ 11) (2 ^ 12) < 2 ^ 11 ∧
    maskBits (signFix v (2 ^ 11) (2 ^ 12)) 12 = v := by
  unfold signFix maskBits; split <;> omega

/-! ### `Position` -/

/-- The 64-bit word written by `Position.send_with_context`, as a positional sum. -/
def posWord (newer : Bool) (x y z : Int) : Nat :=
  if newer then maskBits x 26 * 2 ^ 38 + maskBits z 26 * 2 ^ 12 + maskBits y 12
  else maskBits x 26 * 2 ^ 38 + maskBits y 12 * 2 ^ 26 + maskBits z 26

theorem posWord_lt (newer : Bool) (x y z : Int) : posWord newer x y z < 2 ^ 64 := by
  have := maskBits_lt26 x; have := maskBits_lt12 y; have := maskBits_lt26 z
  unfold posWord; split <;> omega

theorem encPos_eq (newer : Bool) (x y z : Int) :
    encPos newer x y z = .ok (beU64 (posWord newer x y z)) := by
  have hx := maskBits_lt26 x; have hy := maskBits_lt12 y; have hz := maskBits_lt26 z
  rw [← packU64_nat _ (posWord_lt newer x y z)]
  unfold encPos posWord
  cases newer
  · simp only [Bool.false_eq_true, if_false]
    rw [pack3_add _ _ _ 38 26 (by omega) (by omega) hz]
  · simp only [if_true]
    rw [pack3_add _ _ _ 38 12 (by omega) (by omega) hy]

/-- `Position.read_with_context` in arithmetic form, given what `UnsignedLong.read` returned. -/
theorem decPos_arith (newer : Bool) (bs : Bytes) (n : Nat) (rest : Bytes)
    (h : readU64 bs = .ok (n, rest)) :
    decPos newer bs = .ok
      ((signFix (n / 2 ^ 38) (2 ^ 25) (2 ^ 26),
        signFix (if newer then n % 2 ^ 12 else n / 2 ^ 26 % 2 ^ 12) (2 ^ 11) (2 ^ 12),
        signFix (if newer then n / 2 ^ 12 % 2 ^ 26 else n % 2 ^ 26) (2 ^ 25) (2 ^ 26)), rest) := by
  simp only [decPos, h, and_FFF, and_3FFFFFF, Nat.shiftRight_eq_div_pow]

theorem decPos_posWord (newer : Bool) (x y z : Int) (rest : Bytes)
    (hx1 : -2 ^ 25 ≤ x) (hx2 : x < 2 ^ 25) (hy1 : -2 ^ 11 ≤ y) (hy2 : y < 2 ^ 11)
    (hz1 : -2 ^ 25 ≤ z) (hz2 : z < 2 ^ 25) :
    decPos newer (beU64 (posWord newer x y z) ++ rest) = .ok ((x, y, z), rest) := by
  rw [decPos_arith newer _ _ rest (readU64_beU64 _ rest (posWord_lt newer x y z))]
  have hx := maskBits_lt26 x; have hy := maskBits_lt12 y; have hz := maskBits_lt26 z
  cases newer
  · simp only [Bool.false_eq_true, if_false, posWord]
    have e1 : (maskBits x 26 * 2 ^ 38 + maskBits y 12 * 2 ^ 26 + maskBits z 26) / 2 ^ 38
        = maskBits x 26 := by omega
    have e2 : (maskBits x 26 * 2 ^ 38 + maskBits y 12 * 2 ^ 26 + maskBits z 26) / 2 ^ 26 % 2 ^ 12
        = maskBits y 12 := by omega
    have e3 : (maskBits x 26 * 2 ^ 38 + maskBits y 12 * 2 ^ 26 + maskBits z 26) % 2 ^ 26
        = maskBits z 26 := by omega
    rw [e1, e2, e3, signFix_mask26 x hx1 hx2, signFix_mask12 y hy1 hy2, signFix_mask26 z hz1 hz2]
  · simp only [if_true, posWord]
    have e1 : (maskBits x 26 * 2 ^ 38 + maskBits z 26 * 2 ^ 12 + maskBits y 12) / 2 ^ 38
        = maskBits x 26 := by omega
    have e2 : (maskBits x 26 * 2 ^ 38 + maskBits z 26 * 2 ^ 12 + maskBits y 12) % 2 ^ 12
        = maskBits y 12 := by omega
    have e3 : (maskBits x 26 * 2 ^ 38 + maskBits z 26 * 2 ^ 12 + maskBits y 12) / 2 ^ 12 % 2 ^ 26
        = maskBits z 26 := by omega
    rw [e1, e2, e3, signFix_mask26 x hx1 hx2, signFix_mask12 y hy1 hy2, signFix_mask26 z hz1 hz2]

/-- Re-packing the fields read from any word `n < 2^64` gives `n` back. -/
theorem posWord_of_fields (newer : Bool) (n : Nat) (h : n < 2 ^ 64) :
    posWord newer (signFix (n / 2 ^ 38) (2 ^ 25) (2 ^ 26))
      (signFix (if newer then n % 2 ^ 12 else n / 2 ^ 26 % 2 ^ 12) (2 ^ 11) (2 ^ 12))
      (signFix (if newer then n / 2 ^ 12 % 2 ^ 26 else n % 2 ^ 26) (2 ^ 25) (2 ^ 26)) = n := by
  unfold posWord
  rw [(signFix26 (n / 2 ^ 38) (by omega)).2.2]
  cases newer
  · simp only [Bool.false_eq_true, if_false]
    rw [(signFix12 (n / 2 ^ 26 % 2 ^ 12) (by omega)).2.2, (signFix26 (n % 2 ^ 26) (by omega)).2.2]
    omega
  · simp only [if_true]
    rw [(signFix12 (n % 2 ^ 12) (by omega)).2.2, (signFix26 (n / 2 ^ 12 % 2 ^ 26) (by omega)).2.2]
    omega

/-- The layout sums, with Python's `&` spelled as the integer (floor) modulus. -/
theorem posWord_int (newer : Bool) (x y z : Int) :
    (posWord newer x y z : Int) =
      if newer then (x % 2 ^ 26) * 2 ^ 38 + (z % 2 ^ 26) * 2 ^ 12 + y % 2 ^ 12
      else (x % 2 ^ 26) * 2 ^ 38 + (y % 2 ^ 12) * 2 ^ 26 + z % 2 ^ 26 := by
  unfold posWord maskBits
  cases newer
  · simp only [Bool.false_eq_true, if_false]; omega
  · simp only [if_true]; omega

/-! ### `ChunkSectionPos` -/

def secWord (x y z : Int) : Nat :=
  maskBits x 22 * 2 ^ 42 + maskBits z 22 * 2 ^ 20 + maskBits y 20

theorem secWord_lt (x y z : Int) : secWord x y z < 2 ^ 64 := by
  have := maskBits_lt22 x; have := maskBits_lt20 y; have := maskBits_lt22 z
  unfold secWord; omega

theorem encSecPos_eq (x y z : Int) : encSecPos x y z = .ok (beU64 (secWord x y z)) := by
  have hx := maskBits_lt22 x; have hy := maskBits_lt20 y; have hz := maskBits_lt22 z
  rw [← packU64_nat _ (secWord_lt x y z)]
  unfold encSecPos secWord
  simp only []
  rw [pack3_add _ _ _ 42 20 (by omega) (by omega) hy]

/-- Sign extension as done by `ChunkSectionPos.read` (`v | ~mask if v & signbit else v & mask`). -/
def secFix (v : Nat) (k : Nat) : Int :=
  if 2 ^ (k - 1) ≤ v % 2 ^ k then orNotMask v k else ((v % 2 ^ k : Nat) : Int)

theorem decSecPos_arith (bs : Bytes) (n : Nat) (rest : Bytes) (hn : n < 2 ^ 64)
    (h : readU64 bs = .ok (n, rest)) :
    decSecPos bs = .ok ((secFix (n / 2 ^ 20 / 2 ^ 22) 22, secFix n 20, secFix (n / 2 ^ 20) 22), rest) := by
  simp only [decSecPos, h, and_bit19, and_bit21, and_FFFFF, and_3FFFFF, Nat.shiftRight_eq_div_pow,
    secFix]
  have e : n / 2 ^ 20 / 2 ^ 22 % 2 ^ 22 = n / 2 ^ 20 / 2 ^ 22 := by omega
  simp only [e, Nat.reduceSub]

theorem secFix_mask22 (x : Int) (h1 : -2 ^ 21 ≤ x) (h2 : x < 2 ^ 21) (v : Nat)
    (hv : v % 2 ^ 22 = maskBits x 22) : secFix v 22 = x := by
  unfold secFix orNotMask; rw [hv]; unfold maskBits; split <;> omega

theorem secFix_mask20 (y : Int) (h1 : -2 ^ 19 ≤ y) (h2 : y < 2 ^ 19) (v : Nat)
    (hv : v % 2 ^ 20 = maskBits y 20) : secFix v 20 = y := by
  unfold secFix orNotMask; rw [hv]; unfold maskBits; split <;> omega

theorem secFix22 (v : Nat) :
    -2 ^ 21 ≤ secFix v 22 ∧ secFix v 22 < 2 ^ 21 ∧ maskBits (secFix v 22) 22 = v % 2 ^ 22 := by
  unfold secFix orNotMask maskBits; split <;> omega

theorem secFix20 (v : Nat) :
    -2 ^ 19 ≤ secFix v 20 ∧ secFix v 20 < 2 ^ 19 ∧ maskBits (secFix v 20) 20 = v % 2 ^ 20 := by
  unfold secFix orNotMask maskBits; split <;> omega

theorem decSecPos_secWord (x y z : Int) (rest : Bytes)
    (hx1 : -2 ^ 21 ≤ x) (hx2 : x < 2 ^ 21) (hy1 : -2 ^ 19 ≤ y) (hy2 : y < 2 ^ 19)
    (hz1 : -2 ^ 21 ≤ z) (hz2 : z < 2 ^ 21) :
    decSecPos (beU64 (secWord x y z) ++ rest) = .ok ((x, y, z), rest) := by
  rw [decSecPos_arith _ _ rest (secWord_lt x y z) (readU64_beU64 _ rest (secWord_lt x y z))]
  have hx := maskBits_lt22 x; have hy := maskBits_lt20 y; have hz := maskBits_lt22 z
  rw [secFix_mask22 x hx1 hx2 _ (by unfold secWord; omega),
    secFix_mask20 y hy1 hy2 _ (by unfold secWord; omega),
    secFix_mask22 z hz1 hz2 _ (by unfold secWord; omega)]

theorem secWord_of_fields (n : Nat) (h : n < 2 ^ 64) :
    secWord (secFix (n / 2 ^ 20 / 2 ^ 22) 22) (secFix n 20) (secFix (n / 2 ^ 20) 22) = n := by
  unfold secWord
  rw [(secFix22 _).2.2, (secFix22 _).2.2, (secFix20 _).2.2]
  omega

theorem secWord_int (x y z : Int) :
    (secWord x y z : Int) = (x % 2 ^ 22) * 2 ^ 42 + (z % 2 ^ 22) * 2 ^ 20 + y % 2 ^ 20 := by
  unfold secWord maskBits; omega

/-! ### `Record` -/

theorem decVarInt_enc (mx n : Nat) (rest : Bytes) (h : n < 2 ^ (7 * (mx + 1))) :
    decVarInt mx (encVarInt n ++ rest) = .ok (n, rest) := by
  have := dec_enc_aux mx n 0 0 rest (by simp) (by simpa using h) (by omega)
  simpa [decVarInt] using this

/-- The VarLong value written by the new-format `Record.send_with_context`. -/
def recWord (x y z b : Nat) : Nat := b * 2 ^ 12 + x * 2 ^ 8 + z * 2 ^ 4 + y

theorem encRecord_new (x y z b : Nat) (hx : x < 16) (hy : y < 16) (hz : z < 16) :
    encRecord true x y z b = .ok (encVarInt (recWord x y z b)) := by
  have mx : maskBits (x : Int) 4 = x := by unfold maskBits; omega
  have my : maskBits (y : Int) 4 = y := by unfold maskBits; omega
  have mz : maskBits (z : Int) 4 = z := by unfold maskBits; omega
  unfold encRecord
  simp only [if_true, mx, my, mz]
  rw [pack3_add _ _ _ 8 4 (by omega) (by omega) (by omega)]
  unfold encVarIntZ shlOrLow
  rw [if_neg (by omega)]
  have e : ((b : Int) * 2 ^ 12 + ((x * 2 ^ 8 + z * 2 ^ 4 + y : Nat) : Int)).toNat
      = recWord x y z b := by unfold recWord; omega
  rw [e]

theorem decRecord_new (x y z b : Nat) (rest : Bytes) (hx : x < 16) (hy : y < 16) (hz : z < 16)
    (hb : b < 2 ^ 65) :
    decRecord true (encVarInt (recWord x y z b) ++ rest) = .ok (((x : Int), (y : Int), (z : Int), (b : Int)), rest) := by
  have hlt : recWord x y z b < 2 ^ (7 * (10 + 1)) := by unfold recWord; omega
  unfold decRecord
  simp only [if_true, decVarInt_enc 10 _ rest hlt, and_F, Nat.shiftRight_eq_div_pow]
  have e1 : recWord x y z b / 2 ^ 12 = b := by unfold recWord; omega
  have e2 : recWord x y z b / 2 ^ 8 % 2 ^ 4 = x := by unfold recWord; omega
  have e3 : recWord x y z b / 2 ^ 4 % 2 ^ 4 = z := by unfold recWord; omega
  have e4 : recWord x y z b % 2 ^ 4 = y := by unfold recWord; omega
  rw [e1, e2, e3, e4]

theorem encRecord_old (x y z b : Nat) (hx : x < 16) (hy : y < 256) (hz : z < 16) :
    encRecord false x y z b =
      .ok (UInt8.ofNat (x * 16 + z) :: UInt8.ofNat y :: encVarInt b) := by
  have mz : maskBits (z : Int) 4 = z := by unfold maskBits; omega
  unfold encRecord
  simp only [Bool.false_eq_true, if_false, mz]
  have p0 : packU8 (shlOrLow (x : Int) 4 z) = .ok [UInt8.ofNat (x * 16 + z)] := by
    unfold packU8 shlOrLow
    rw [if_pos (by omega)]
    have e : ((x : Int) * 2 ^ 4 + (z : Int)).toNat = x * 16 + z := by omega
    rw [e]
  have p1 : packU8 (y : Int) = .ok [UInt8.ofNat y] := by
    unfold packU8
    rw [if_pos (by omega)]
    simp
  have p2 : encVarIntZ (b : Int) = .ok (encVarInt b) := by
    unfold encVarIntZ
    rw [if_neg (by omega)]
    simp
  simp only [p0, p1, p2, List.cons_append, List.nil_append]

theorem decRecord_old (x y z b : Nat) (rest : Bytes) (hx : x < 16) (hy : y < 256) (hz : z < 16)
    (hb : b < 2 ^ 42) :
    decRecord false (UInt8.ofNat (x * 16 + z) :: UInt8.ofNat y :: encVarInt b ++ rest) =
      .ok (((x : Int), (y : Int), (z : Int), (b : Int)), rest) := by
  unfold decRecord
  simp only [Bool.false_eq_true, if_false, List.cons_append, readU8,
    decVarInt_enc 5 b rest (by omega), and_F, Nat.shiftRight_eq_div_pow,
    u8_ofNat_toNat (x * 16 + z) (by omega), u8_ofNat_toNat y hy]
  have e1 : (x * 16 + z) / 2 ^ 4 = x := by omega
  have e2 : (x * 16 + z) % 2 ^ 4 = z := by omega
  rw [e1, e2]

end PyCraft.Pos
