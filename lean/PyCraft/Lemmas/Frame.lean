import PyCraft.Model.Frame
import PyCraft.Lemmas.VarIntDec
/-!
Helper lemmas for the framing layer (`Model/Frame.lean`).

Plan: every reader function is shown equal to a *pure* parser (`parseFrame`, `parsePacket`,
`parseAllFuel`) applied to the virtual plain text `ahead x k` still ahead of the socket; everything
else (round trip, truncation) is then proved on byte strings.  The counters are handled separately
through the order `Mono`.
-/
namespace PyCraft

/-! ## `Segs.read` -/

theorem Segs.read_flatten (s : Segs) (n : Nat) :
    (Segs.read s n).1 ++ (Segs.read s n).2.flatten = s.flatten := by
  induction s with
  | nil => simp [Segs.read]
  | cons seg rest ih =>
    cases seg with
    | nil => simpa [Segs.read] using ih
    | cons b bs =>
      unfold Segs.read; split
      · simp
      · simp only [List.flatten_cons]
        rw [← List.append_assoc, List.take_append_drop]

theorem Segs.read_len (s : Segs) (n : Nat) : (Segs.read s n).1.length ≤ n := by
  induction s with
  | nil => simp [Segs.read]
  | cons seg rest ih =>
    cases seg with
    | nil => simpa [Segs.read] using ih
    | cons b bs =>
      unfold Segs.read; split
      · simp at *; omega
      · simp; omega

theorem Segs.read_empty_iff (s : Segs) (n : Nat) (hn : 0 < n) :
    (Segs.read s n).1 = [] ↔ s.flatten = [] := by
  induction s with
  | nil => simp [Segs.read]
  | cons seg rest ih =>
    cases seg with
    | nil => simpa [Segs.read] using ih
    | cons b bs =>
      unfold Segs.read; split
      · simp
      · simp; omega

/-! ## the virtual plain text ahead of a socket -/

/-- What the reader will see if it reads everything that is still to arrive. -/
def ahead {σ : Type} (x : StreamXform σ) (k : Sock σ) : Bytes := (x.update k.st k.segs.flatten).2

/-- Bytes still to arrive. -/
def Sock.rem {σ : Type} (k : Sock σ) : Nat := k.segs.flatten.length

theorem ahead_length {σ : Type} (x : StreamXform σ) (k : Sock σ) : (ahead x k).length = k.rem :=
  x.len _ _

theorem ahead_id (k : Sock Unit) : ahead idXform k = k.segs.flatten := rfl

theorem xform_nil {σ : Type} (x : StreamXform σ) (s : σ) : (x.update s []).2 = [] :=
  List.eq_nil_of_length_eq_zero (by rw [x.len]; rfl)

theorem xform_eq_nil {σ : Type} (x : StreamXform σ) (s : σ) (b : Bytes) :
    (x.update s b).2 = [] ↔ b = [] := by
  rw [← List.length_eq_zero_iff, x.len, List.length_eq_zero_iff]

/-- Everything the proofs need to know about one `read` call. -/
theorem Sock.read_spec {σ : Type} (x : StreamXform σ) (k : Sock σ) (n : Nat) :
    (k.read x n).1 ++ ahead x (k.read x n).2 = ahead x k ∧
    (k.read x n).1.length ≤ n ∧
    (0 < n → ((k.read x n).1 = [] ↔ ahead x k = [])) ∧
    (k.read x n).2.reads = k.reads + 1 ∧
    (k.read x n).2.empties = k.empties + (if (k.read x n).1 = [] then 1 else 0) ∧
    (k.read x n).2.rem + (k.read x n).1.length = k.rem := by
  have hf := Segs.read_flatten k.segs n
  have hl := Segs.read_len k.segs n
  have he := Segs.read_empty_iff k.segs n
  refine ⟨?_, ?_, ?_, rfl, ?_, ?_⟩
  · simp only [Sock.read, ahead]
    rw [← hf, x.chunk]
  · simp only [Sock.read]; rw [x.len]; exact hl
  · intro hn
    simp only [Sock.read, ahead]
    rw [xform_eq_nil, xform_eq_nil]
    exact he hn
  · simp only [Sock.read, List.isEmpty_iff]
    split <;> simp
  · simp only [Sock.read, Sock.rem]
    rw [x.len, ← hf, List.length_append]; omega

/-- one-byte read: either the stream is exhausted, or the head byte is returned -/
theorem Sock.read_one {σ : Type} (x : StreamXform σ) (k : Sock σ) :
    (ahead x k = [] ∧ (k.read x 1).1 = []) ∨
    (∃ b, (k.read x 1).1 = [b] ∧ ahead x k = b :: ahead x (k.read x 1).2) := by
  obtain ⟨h1, h2, h3, -⟩ := Sock.read_spec x k 1
  generalize (k.read x 1).1 = got at *
  match got, h2 with
  | [], _ => exact Or.inl ⟨(h3 (by omega)).mp rfl, rfl⟩
  | [b], _ => exact Or.inr ⟨b, rfl, by rw [← h1]; rfl⟩
  | _ :: _ :: _, h => simp at h

/-! ## the reader against the pure decoder -/

theorem readVarIntK_spec {σ : Type} (x : StreamXform σ) (mx : Nat) :
    ∀ (bs : Bytes) (be acc : Nat) (k : Sock σ), ahead x k = bs →
    (∀ v rest, decVarIntAux mx be acc bs = .ok (v, rest) →
      ∃ k', readVarIntK x mx be acc k = (.ok v, k') ∧ ahead x k' = rest) ∧
    (∀ e, decVarIntAux mx be acc bs = .error e →
      ∃ k', readVarIntK x mx be acc k = (.error e, k')) := by
  intro bs
  induction bs with
  | nil =>
    intro be acc k hk
    rcases Sock.read_one x k with ⟨_, hg⟩ | ⟨b, _, hb⟩
    · constructor
      · intro v rest h; simp [decVarIntAux] at h
      · intro e h
        simp only [decVarIntAux] at h
        injection h with h; subst h
        rw [readVarIntK]; simp only [hg]
        exact ⟨_, rfl⟩
    · rw [hk] at hb; cases hb
  | cons b tl ih =>
    intro be acc k hk
    rcases Sock.read_one x k with ⟨h0, _⟩ | ⟨b', hg, hb⟩
    · rw [hk] at h0; cases h0
    · rw [hk] at hb
      injection hb with hb1 hb2; subst hb1
      rw [readVarIntK]; simp only [hg, decVarIntAux]
      split
      · constructor
        · intro v rest h
          injection h with h; injection h with h1 h2
          exact ⟨_, by rw [h1], by rw [← h2, hb2]⟩
        · intro e h; cases h
      · split
        · constructor
          · intro v rest h; cases h
          · intro e h; injection h with h; subst h; exact ⟨_, rfl⟩
        · exact ih (be + 1) _ _ hb2.symm

theorem readMoreK_spec {σ : Type} (x : StreamXform σ) (length : Nat) :
    ∀ (m : Nat) (data : Bytes) (k : Sock σ), length - data.length = m →
    (length ≤ data.length + (ahead x k).length →
      ∃ k', readMoreK x length data k
          = (.ok (data ++ (ahead x k).take (length - data.length)), k') ∧
        ahead x k' = (ahead x k).drop (length - data.length)) ∧
    (data.length + (ahead x k).length < length →
      ∃ k', readMoreK x length data k = (.error .eof, k')) := by
  intro m
  induction m using Nat.strongRecOn with
  | _ m ih =>
    intro data k hm
    rw [readMoreK]
    by_cases hlt : data.length < length
    · rw [dif_pos hlt]
      obtain ⟨h1, h2, h3, -⟩ := Sock.read_spec x k (length - data.length)
      have h3 := h3 (by omega)
      by_cases hg : (k.read x (length - data.length)).1 = []
      · simp only [hg, dite_true]
        have hnil := h3.mp hg
        constructor
        · intro hle; rw [hnil] at hle; simp at hle; omega
        · intro _; exact ⟨_, rfl⟩
      · simp only [hg, dite_false]
        have hpos := List.length_pos_iff.mpr hg
        have hrec := ih (length - (data ++ (k.read x (length - data.length)).1).length)
          (by simp only [List.length_append]; omega)
          (data ++ (k.read x (length - data.length)).1) (k.read x (length - data.length)).2 rfl
        generalize (k.read x (length - data.length)).1 = got at *
        generalize (k.read x (length - data.length)).2 = k1 at *
        have hlen : (ahead x k).length = got.length + (ahead x k1).length := by
          rw [← h1, List.length_append]
        simp only [List.length_append] at hrec
        have harith : length - (data.length + got.length) = length - data.length - got.length := by
          omega
        rw [harith] at hrec
        constructor
        · intro hle
          obtain ⟨k', e1, e2⟩ := hrec.1 (by omega)
          refine ⟨k', ?_, ?_⟩
          · rw [e1, ← h1, List.take_append, List.take_of_length_le h2, List.append_assoc]
          · rw [e2, ← h1, List.drop_append, List.drop_eq_nil_of_le h2, List.nil_append]
        · intro hlt'
          exact hrec.2 (by omega)
    · rw [dif_neg hlt]
      have hz : length - data.length = 0 := by omega
      constructor
      · intro _; exact ⟨k, by simp [hz], by simp [hz]⟩
      · intro h; omega

/-! ## pure reference parsers on byte strings -/

/-- length prefix, then exactly that many bytes; `eof` if the string is too short. -/
def parseFrame (bs : Bytes) : Except Err (Bytes × Bytes) :=
  match decVarInt 5 bs with
  | .error e => .error e
  | .ok (len, rest) =>
    if len ≤ rest.length then .ok (rest.take len, rest.drop len) else .error .eof

def parsePacket (z : ZlibOps) (c : Bool) (bs : Bytes) : Except Err ((Nat × Bytes) × Bytes) :=
  match parseFrame bs with
  | .error e => .error e
  | .ok (data, rest) =>
    match parseBody z c data with
    | .error e => .error e
    | .ok p => .ok (p, rest)

def parseAllFuel (z : ZlibOps) (c : Bool) : Nat → Bytes → List (Nat × Bytes) × Err
  | 0, _ => ([], .other)
  | fuel + 1, bs =>
    match parsePacket z c bs with
    | .error e => ([], e)
    | .ok (p, rest) =>
      let r := parseAllFuel z c fuel rest
      (p :: r.1, r.2)

def parseAll (z : ZlibOps) (c : Bool) (bs : Bytes) : List (Nat × Bytes) × Err :=
  parseAllFuel z c (bs.length + 1) bs

theorem readFrameK_spec {σ : Type} (x : StreamXform σ) (k : Sock σ) :
    (∀ data rest, parseFrame (ahead x k) = .ok (data, rest) →
      ∃ k', readFrameK x k = (.ok data, k') ∧ ahead x k' = rest) ∧
    (∀ e, parseFrame (ahead x k) = .error e → ∃ k', readFrameK x k = (.error e, k')) := by
  have hv := readVarIntK_spec x 5 (ahead x k) 0 0 k rfl
  unfold parseFrame decVarInt readFrameK
  cases hd : decVarIntAux 5 0 0 (ahead x k) with
  | error e =>
    obtain ⟨k1, e1⟩ := hv.2 e hd
    simp only [e1]
    constructor
    · intro data rest h; cases h
    · intro e' h; injection h with h; subst h; exact ⟨_, rfl⟩
  | ok vr =>
    obtain ⟨len, rest0⟩ := vr
    obtain ⟨k1, e1, e2⟩ := hv.1 len rest0 hd
    simp only [e1]
    obtain ⟨h1, h2, -⟩ := Sock.read_spec x k1 len
    have hm := readMoreK_spec x len _ (k1.read x len).1 (k1.read x len).2 rfl
    generalize (k1.read x len).1 = got at *
    generalize (k1.read x len).2 = k2 at *
    rw [e2] at h1
    have hlen : rest0.length = got.length + (ahead x k2).length := by
      rw [← h1, List.length_append]
    by_cases hle : len ≤ rest0.length
    · rw [if_pos hle]
      obtain ⟨k', e3, e4⟩ := hm.1 (by omega)
      constructor
      · intro data rest h
        injection h with h; injection h with h3 h4
        refine ⟨k', ?_, ?_⟩
        · rw [e3, ← h3, ← h1, List.take_append, List.take_of_length_le h2]
        · rw [e4, ← h4, ← h1, List.drop_append, List.drop_eq_nil_of_le h2, List.nil_append]
      · intro e h; cases h
    · rw [if_neg hle]
      obtain ⟨k', e3⟩ := hm.2 (by omega)
      constructor
      · intro data rest h; cases h
      · intro e h; injection h with h; subst h; exact ⟨k', e3⟩

theorem readPacketK_spec {σ : Type} (x : StreamXform σ) (z : ZlibOps) (c : Bool) (k : Sock σ) :
    (∀ p rest, parsePacket z c (ahead x k) = .ok (p, rest) →
      ∃ k', readPacketK x z c k = (.ok p, k') ∧ ahead x k' = rest) ∧
    (∀ e, parsePacket z c (ahead x k) = .error e →
      ∃ k', readPacketK x z c k = (.error e, k')) := by
  have hf := readFrameK_spec x k
  unfold parsePacket readPacketK
  cases hd : parseFrame (ahead x k) with
  | error e =>
    obtain ⟨k1, e1⟩ := hf.2 e hd
    simp only [e1]
    constructor
    · intro p rest h; cases h
    · intro e' h; injection h with h; subst h; exact ⟨_, rfl⟩
  | ok dr =>
    obtain ⟨data, rest0⟩ := dr
    obtain ⟨k1, e1, e2⟩ := hf.1 data rest0 hd
    simp only [e1]
    cases hb : parseBody z c data with
    | error e =>
      constructor
      · intro p rest h; cases h
      · intro e' h; injection h with h; subst h; exact ⟨_, rfl⟩
    | ok p =>
      constructor
      · intro p' rest h
        injection h with h; injection h with h3 h4
        subst h3; exact ⟨k1, rfl, by rw [e2, h4]⟩
      · intro e h; cases h

theorem readAllFuel_spec {σ : Type} (x : StreamXform σ) (z : ZlibOps) (c : Bool) :
    ∀ (fuel : Nat) (k : Sock σ),
      (readAllFuel x z c fuel k).1 = parseAllFuel z c fuel (ahead x k) := by
  intro fuel
  induction fuel with
  | zero => intro k; rfl
  | succ fuel ih =>
    intro k
    have hp := readPacketK_spec x z c k
    simp only [readAllFuel, parseAllFuel]
    cases hd : parsePacket z c (ahead x k) with
    | error e =>
      obtain ⟨k1, e1⟩ := hp.2 e hd
      simp only [e1]
    | ok pr =>
      obtain ⟨p, rest⟩ := pr
      obtain ⟨k1, e1, e2⟩ := hp.1 p rest hd
      simp only [e1, ih k1, e2]

theorem readAllK_spec {σ : Type} (x : StreamXform σ) (z : ZlibOps) (c : Bool) (k : Sock σ) :
    (readAllK x z c k).1 = parseAll z c (ahead x k) := by
  unfold readAllK parseAll
  rw [readAllFuel_spec, ahead_length]; rfl

end PyCraft
