import PyCraft.Lemmas.VarInt
namespace PyCraft

theorem reads_le (mx : Nat) : ∀ (bs : Bytes) (be : Nat), be ≤ mx →
    decVarIntReads mx be bs + be ≤ mx + 1 ∧ decVarIntReads mx be bs ≤ bs.length + 1 := by
  intro bs
  induction bs with
  | nil => intro be h; simp [decVarIntReads]; omega
  | cons b rest ih =>
    intro be h
    unfold decVarIntReads
    split
    · simp; omega
    · split
      · simp; omega
      · have := ih (be + 1) (by omega)
        simp; omega

theorem dec_err (mx : Nat) : ∀ (bs : Bytes) (be acc : Nat) (e : Err),
    decVarIntAux mx be acc bs = .error e → e = .eof ∨ e = .tooLong := by
  intro bs
  induction bs with
  | nil => intro be acc e h; simp [decVarIntAux] at h; exact Or.inl h.symm
  | cons b rest ih =>
    intro be acc e h
    simp only [decVarIntAux] at h
    split at h
    · cases h
    · split at h
      · right; injection h with h; exact h.symm
      · exact ih _ _ _ h

/-- Shape of a successful decode: the consumed prefix `pre` is a run of continuation bytes closed by
one terminator, at most `mx + 1 - be` long; the rest is returned untouched and the result does not
depend on it; the value is the little-endian base-128 value of `pre`. -/
theorem dec_ok_shape (mx : Nat) : ∀ (bs : Bytes) (be acc v : Nat) (rest : Bytes),
    acc < 2 ^ (7 * be) → be ≤ mx →
    decVarIntAux mx be acc bs = .ok (v, rest) →
    ∃ pre last, bs = pre ++ last :: rest ∧ pre.length + 1 + be ≤ mx + 1 ∧
      (∀ b ∈ pre, 128 ≤ b.toNat) ∧ last.toNat < 128 ∧
      decVarIntReads mx be bs = pre.length + 1 ∧
      v = acc + leValue (pre ++ [last]) * 2 ^ (7 * be) ∧
      (∀ rest', decVarIntAux mx be acc (pre ++ last :: rest') = .ok (v, rest')) := by
  intro bs
  induction bs with
  | nil => intro be acc v rest _ _ h; simp [decVarIntAux] at h
  | cons b tl ih =>
    intro be acc v rest hacc hbe h
    simp only [decVarIntAux] at h
    have hb : b.toNat < 256 := b.toNat_lt
    split at h
    · next hz =>
      injection h with h; injection h with h1 h2
      subst h2
      have hlt := and80_zero_lt _ hb hz
      refine ⟨[], b, rfl, ?_, by simp, hlt, ?_, ?_, ?_⟩
      · simp; omega
      · simp [decVarIntReads, hz]
      · rw [← h1, and7F, acc_or _ _ _ hacc]; simp [leValue]
      · intro rest'; simp [decVarIntAux, hz, h1]
    · next hz =>
      split at h
      · cases h
      · next hle =>
        have hge : 128 ≤ b.toNat := by
          rcases Nat.lt_or_ge b.toNat 128 with h' | h'
          · exact absurd (and80_lt _ h') hz
          · exact h'
        have hpow : 2 ^ (7 * (be + 1)) = 2 ^ (7 * be) * 128 := by
          rw [Nat.mul_add, Nat.pow_add]
        have hacc' : acc ||| ((b.toNat &&& 0x7F) <<< (7 * be)) < 2 ^ (7 * (be + 1)) := by
          rw [and7F, acc_or _ _ _ hacc, hpow]
          have hm : b.toNat % 128 < 128 := Nat.mod_lt _ (by omega)
          have : b.toNat % 128 * 2 ^ (7 * be) ≤ 127 * 2 ^ (7 * be) :=
            Nat.mul_le_mul_right _ (by omega)
          omega
        obtain ⟨pre, last, e1, e2, e3, e4, e5, e6, e7⟩ :=
          ih (be + 1) _ v rest hacc' (by omega) h
        refine ⟨b :: pre, last, by simp [e1], by simp; omega, ?_, e4, ?_, ?_, ?_⟩
        · intro x hx
          rcases List.mem_cons.mp hx with hx | hx
          · subst hx; exact hge
          · exact e3 x hx
        · simp only [decVarIntReads, if_neg hz, if_neg hle, e5, List.length_cons]; omega
        · rw [e6, and7F, acc_or _ _ _ hacc, hpow]
          simp only [List.cons_append, leValue]
          rw [Nat.add_mul, Nat.add_assoc]
          congr 1
          rw [Nat.mul_comm (2 ^ (7*be)) 128, ← Nat.mul_assoc, Nat.mul_comm _ 128]
        · intro rest'
          simp only [List.cons_append, decVarIntAux, if_neg hz, if_neg hle]
          exact e7 rest'

end PyCraft

namespace PyCraft

theorem size_big (n : Nat) (h : 2 ^ 84 ≤ n) : varintSize (n : Int) = .error .value := by
  unfold varintSize varintSizeTable
  repeat (rw [sizeLookup, if_neg (by omega)])
  rfl

theorem size_bucket (n k : Nat) (hk1 : 1 ≤ k) (hk : k ≤ 12) (hlo : 128 ^ (k - 1) ≤ n ∨ k = 1)
    (hhi : n < 128 ^ k) : varintSize (n : Int) = .ok k := by
  have hk' : k = 1 ∨ k = 2 ∨ k = 3 ∨ k = 4 ∨ k = 5 ∨ k = 6 ∨ k = 7 ∨ k = 8 ∨ k = 9 ∨ k = 10 ∨
      k = 11 ∨ k = 12 := by omega
  unfold varintSize varintSizeTable
  rcases hk' with h | h | h | h | h | h | h | h | h | h | h | h <;> subst h <;>
    (repeat (rw [sizeLookup, if_neg (by omega)])) <;>
    rw [sizeLookup, if_pos (by omega)]

/-- every `n < 2^84` lies in exactly one bucket `[128^(k-1), 128^k)`, `1 ≤ k ≤ 12` -/
theorem bucket_exists (n : Nat) (h : n < 2 ^ 84) :
    ∃ k, 1 ≤ k ∧ k ≤ 12 ∧ (128 ^ (k - 1) ≤ n ∨ k = 1) ∧ n < 128 ^ k := by
  by_cases h1 : n < 128 ^ 1; · exact ⟨1, by omega, by omega, Or.inr rfl, h1⟩
  by_cases h2 : n < 128 ^ 2; · exact ⟨2, by omega, by omega, Or.inl (by omega), h2⟩
  by_cases h3 : n < 128 ^ 3; · exact ⟨3, by omega, by omega, Or.inl (by omega), h3⟩
  by_cases h4 : n < 128 ^ 4; · exact ⟨4, by omega, by omega, Or.inl (by omega), h4⟩
  by_cases h5 : n < 128 ^ 5; · exact ⟨5, by omega, by omega, Or.inl (by omega), h5⟩
  by_cases h6 : n < 128 ^ 6; · exact ⟨6, by omega, by omega, Or.inl (by omega), h6⟩
  by_cases h7 : n < 128 ^ 7; · exact ⟨7, by omega, by omega, Or.inl (by omega), h7⟩
  by_cases h8 : n < 128 ^ 8; · exact ⟨8, by omega, by omega, Or.inl (by omega), h8⟩
  by_cases h9 : n < 128 ^ 9; · exact ⟨9, by omega, by omega, Or.inl (by omega), h9⟩
  by_cases h10 : n < 128 ^ 10; · exact ⟨10, by omega, by omega, Or.inl (by omega), h10⟩
  by_cases h11 : n < 128 ^ 11; · exact ⟨11, by omega, by omega, Or.inl (by omega), h11⟩
  exact ⟨12, by omega, by omega, Or.inl (by omega), by omega⟩

end PyCraft
