import PyCraft.Model.Cfb8
import PyCraft.Model.Aes
/-!
Helper lemmas for C18: sequences of `update` calls on one context, and runs of the wrapper model.
-/
namespace PyCraft

/-- For any transformer that does nothing on the empty string and satisfies the chunk law, a
sequence of calls is one call on the concatenation. -/
theorem updates_flatten {σ : Type} (f : σ → Bytes → σ × Bytes)
    (hnil : ∀ s, f s [] = (s, []))
    (happ : ∀ s a b, f s (a ++ b) = ((f (f s a).1 b).1, (f s a).2 ++ (f (f s a).1 b).2))
    (s : σ) (cs : List Bytes) :
    ((updates f s cs).1, (updates f s cs).2.flatten) = f s cs.flatten := by
  induction cs generalizing s with
  | nil => simp [updates, hnil]
  | cons c cs ih =>
    have h := ih (f s c).1
    simp only [updates, List.flatten_cons, happ, ← h]

theorem encChunks_flatten (E : Bytes → Bytes) (reg : Bytes) (cs : List Bytes) :
    ((cfb8EncChunks E reg cs).1, (cfb8EncChunks E reg cs).2.flatten) = cfb8Enc E reg cs.flatten :=
  updates_flatten (cfb8Enc E) (cfb8Enc_nil E) (cfb8Enc_append E) reg cs

theorem decChunks_flatten (E : Bytes → Bytes) (reg : Bytes) (cs : List Bytes) :
    ((cfb8DecChunks E reg cs).1, (cfb8DecChunks E reg cs).2.flatten) = cfb8Dec E reg cs.flatten :=
  updates_flatten (cfb8Dec E) (cfb8Dec_nil E) (cfb8Dec_append E) reg cs

theorem updates_length {σ : Type} (f : σ → Bytes → σ × Bytes) (s : σ) (cs : List Bytes) :
    (updates f s cs).2.length = cs.length := by
  induction cs generalizing s with
  | nil => rfl
  | cons c cs ih => simp [updates, ih]

/-! ### runs of the wrapper model -/

theorem run_length (E : Bytes → Bytes) (c : Chan) (ops : List Op) :
    (Chan.run E c ops).2.length = ops.length := by
  induction ops generalizing c with
  | nil => rfl
  | cons op ops ih => simp [Chan.run, ih]

/-- Outgoing direction of a run, from any state. -/
theorem run_sent (E : Bytes → Bytes) (c : Chan) (ops : List Op) :
    ((Chan.run E c ops).1.encReg, (outsOf Op.isSend ops (Chan.run E c ops).2).flatten) =
      cfb8Enc E c.encReg (ops.flatMap Op.sent) := by
  induction ops generalizing c with
  | nil => rfl
  | cons op ops ih =>
    cases op with
    | send d =>
      have h := ih (c.send E d).1
      simp only [Chan.send] at h
      simp only [Chan.run, Chan.step, Chan.send, outsOf, Op.isSend, if_true, List.flatten_cons,
        List.flatMap_cons, Op.sent, cfb8Enc_append, ← h]
    | recv ch =>
      have h := ih (c.recv E ch).1
      simp only [Chan.recv] at h
      simpa [Chan.run, Chan.step, Chan.recv, outsOf, Op.isSend, Op.sent] using h
    | read ch =>
      have h := ih (c.recv E ch).1
      simp only [Chan.recv] at h
      simpa [Chan.run, Chan.step, Chan.read, Chan.recv, outsOf, Op.isSend, Op.sent] using h

/-- Incoming direction of a run, from any state. -/
theorem run_rcvd (E : Bytes → Bytes) (c : Chan) (ops : List Op) :
    ((Chan.run E c ops).1.decReg, (outsOf Op.isRecv ops (Chan.run E c ops).2).flatten) =
      cfb8Dec E c.decReg (ops.flatMap Op.rcvd) := by
  induction ops generalizing c with
  | nil => rfl
  | cons op ops ih =>
    cases op with
    | send d =>
      have h := ih (c.send E d).1
      simp only [Chan.send] at h
      simpa [Chan.run, Chan.step, Chan.send, outsOf, Op.isRecv, Op.rcvd] using h
    | recv ch =>
      have h := ih (c.recv E ch).1
      simp only [Chan.recv] at h
      simp only [Chan.run, Chan.step, Chan.recv, outsOf, Op.isRecv, if_true, List.flatten_cons,
        List.flatMap_cons, Op.rcvd, cfb8Dec_append, ← h]
    | read ch =>
      have h := ih (c.recv E ch).1
      simp only [Chan.recv] at h
      simp only [Chan.run, Chan.step, Chan.read, Chan.recv, outsOf, Op.isRecv, if_true,
        List.flatten_cons, List.flatMap_cons, Op.rcvd, cfb8Dec_append, ← h]

/-- The per-call results of the receiving calls depend only on the decryptor register and on the
receiving calls: deleting every `send` from the sequence (and changing the encryptor register
arbitrarily) changes none of them. -/
theorem run_recv_indep (E : Bytes → Bytes) (c c' : Chan) (ops : List Op)
    (h : c.decReg = c'.decReg) :
    outsOf Op.isRecv ops (Chan.run E c ops).2 = (Chan.run E c' (ops.filter Op.isRecv)).2 := by
  induction ops generalizing c c' with
  | nil => rfl
  | cons op ops ih =>
    cases op with
    | send d =>
      simpa [Chan.run, Chan.step, outsOf, Op.isRecv] using ih (c.send E d).1 c' (by simpa [Chan.send] using h)
    | recv ch =>
      have := ih (c.recv E ch).1 (c'.recv E ch).1 (by simp [Chan.recv, h])
      have hf : (Op.recv ch :: ops).filter Op.isRecv = Op.recv ch :: ops.filter Op.isRecv := rfl
      simp only [hf, Chan.run, Chan.step, outsOf, Op.isRecv, if_true, this]
      simp [Chan.recv, h]
    | read ch =>
      have := ih (c.recv E ch).1 (c'.recv E ch).1 (by simp [Chan.recv, h])
      have hf : (Op.read ch :: ops).filter Op.isRecv = Op.read ch :: ops.filter Op.isRecv := rfl
      simp only [hf, Chan.run, Chan.step, Chan.read, outsOf, Op.isRecv, if_true, this]
      simp [Chan.recv, h]

/-- The per-call ciphertexts of the sending calls depend only on the encryptor register and on the
sending calls. -/
theorem run_send_indep (E : Bytes → Bytes) (c c' : Chan) (ops : List Op)
    (h : c.encReg = c'.encReg) :
    outsOf Op.isSend ops (Chan.run E c ops).2 = (Chan.run E c' (ops.filter Op.isSend)).2 := by
  induction ops generalizing c c' with
  | nil => rfl
  | cons op ops ih =>
    cases op with
    | send d =>
      have := ih (c.send E d).1 (c'.send E d).1 (by simp [Chan.send, h])
      have hf : (Op.send d :: ops).filter Op.isSend = Op.send d :: ops.filter Op.isSend := rfl
      simp only [hf, Chan.run, Chan.step, outsOf, Op.isSend, if_true, this]
      simp [Chan.send, h]
    | recv ch =>
      simpa [Chan.run, Chan.step, outsOf, Op.isSend] using ih (c.recv E ch).1 c' (by simpa [Chan.recv] using h)
    | read ch =>
      simpa [Chan.run, Chan.step, outsOf, Op.isSend, Chan.read] using
        ih (c.recv E ch).1 c' (by simpa [Chan.recv] using h)

/-- Expanding the key once and reusing the schedule (what the driver does) is `aes128 key`. -/
theorem aes128_eq_blockWith (key : Bytes) : aes128 key = aesBlockWith (aesKeySchedule key) := rfl

/-- The shift register keeps its length (16 for a 16-byte IV), whatever is fed through. -/
theorem cfb8Shift_length (reg : Bytes) (c : UInt8) (h : reg ≠ []) :
    (cfb8Shift reg c).length = reg.length := by
  cases reg with
  | nil => exact absurd rfl h
  | cons a as => simp [cfb8Shift]

theorem cfb8Enc_reg_length (E : Bytes → Bytes) (reg x : Bytes) (h : reg ≠ []) :
    (cfb8Enc E reg x).1.length = reg.length := by
  induction x generalizing reg with
  | nil => rfl
  | cons p ps ih =>
    have hl := cfb8Shift_length reg (p ^^^ cfb8Key E reg) h
    have hne : cfb8Shift reg (p ^^^ cfb8Key E reg) ≠ [] := by simp [cfb8Shift]
    simp only [cfb8Enc_cons]; rw [ih _ hne, hl]

theorem cfb8Dec_reg_length (E : Bytes → Bytes) (reg x : Bytes) (h : reg ≠ []) :
    (cfb8Dec E reg x).1.length = reg.length := by
  induction x generalizing reg with
  | nil => rfl
  | cons c cs ih =>
    have hl := cfb8Shift_length reg c h
    have hne : cfb8Shift reg c ≠ [] := by simp [cfb8Shift]
    simp only [cfb8Dec_cons]; rw [ih _ hne, hl]

/-- The literal S-box table agrees with the algebraic definition on all 256 bytes (kernel
evaluation). -/
theorem sbox_table_all : (List.range 256).all (fun b => aesSbox b == aesSboxSpec b) = true := by
  decide +kernel

theorem sbox_table_eq_spec (b : Nat) (h : b < 256) : aesSbox b = aesSboxSpec b := by
  have := List.all_eq_true.mp sbox_table_all b (List.mem_range.mpr h)
  simpa using this

/-! ### the AES block function always returns 16 bytes -/

theorem shiftRows_length (s : List Nat) : (shiftRows s).length = s.length := by
  unfold shiftRows; split <;> simp

theorem mixColumns_length (s : List Nat) : (mixColumns s).length = s.length := by
  unfold mixColumns; split <;> simp

theorem nextRoundKey_length (rc : Nat) (k : List Nat) : (nextRoundKey rc k).length = k.length := by
  unfold nextRoundKey; split <;> simp

theorem addRoundKey_length (k s : List Nat) (h : k.length = s.length) :
    (addRoundKey k s).length = s.length := by
  induction k generalizing s with
  | nil => cases s <;> simp_all [addRoundKey]
  | cons a as ih =>
    cases s with
    | nil => simp at h
    | cons b bs => simp [addRoundKey, ih bs (by simpa using h)]

theorem expandFrom_length (k : List Nat) (rcs : List Nat) :
    ∀ r ∈ expandFrom k rcs, r.length = k.length := by
  induction rcs generalizing k with
  | nil => simp [expandFrom]
  | cons rc rcs ih =>
    intro r hr
    simp only [expandFrom, List.mem_cons] at hr
    rcases hr with rfl | hr
    · exact nextRoundKey_length rc k
    · rw [ih _ r hr, nextRoundKey_length]

theorem aesRounds_length (ks : List (List Nat)) (s : List Nat)
    (h : ∀ k ∈ ks, k.length = s.length) : (aesRounds ks s).length = s.length := by
  induction ks generalizing s with
  | nil => rfl
  | cons k ks ih =>
    have hk : k.length = s.length := h k (by simp)
    cases ks with
    | nil =>
      simp only [aesRounds]
      rw [addRoundKey_length] <;> simp [shiftRows_length, subBytes, hk]
    | cons k' ks' =>
      simp only [aesRounds]
      have hl : (addRoundKey k (mixColumns (shiftRows (subBytes s)))).length = s.length := by
        rw [addRoundKey_length] <;> simp [mixColumns_length, shiftRows_length, subBytes, hk]
      rw [ih _ (by intro k2 hk2; rw [hl]; exact h k2 (by simp [hk2])), hl]

theorem fit16_length (l : Bytes) : (fit16 l).length = 16 := by
  unfold fit16; split
  · assumption
  · simp

/-- The block function returns a 16-byte block for any key and any input. -/
theorem aes128_length (key block : Bytes) : (aes128 key block).length = 16 := by
  have hk : (bytesToNats (fit16 key)).length = 16 := by simp [bytesToNats, fit16_length]
  have hb : (bytesToNats (fit16 block)).length = 16 := by simp [bytesToNats, fit16_length]
  simp only [aes128, aesBlockWith, natsToBytes, List.length_map, aesKeySchedule, keyExpand,
    aesEncryptBlock]
  have h0 : (addRoundKey (bytesToNats (fit16 key)) (bytesToNats (fit16 block))).length = 16 := by
    rw [addRoundKey_length _ _ (hk.trans hb.symm), hb]
  rw [aesRounds_length, h0]
  intro k hk'
  rw [expandFrom_length _ _ k hk', hk, h0]

end PyCraft
