import PyCraft.Lemmas.LifecycleInv
/-!
Termination of an interrupted networking thread in `Model/Lifecycle.lean`: `interrupt` is never
reset, every own step of an interrupted thread decreases `NPc.rank`, other threads do not move it,
it is never blocked for good, and running it alone kills it.
-/
namespace PyCraft.Life
set_option linter.unusedSimpArgs false

def Site.rank : Site → Nat
  | .handler => 7
  | .listen => 13
  | .react => 15

/-- An upper bound on the number of actions an INTERRUPTED thread still performs. -/
def NPc.rank : NPc → Nat
  | .dead => 0
  | .fin => 1
  | .epRel => 2
  | .epilogue => 3
  | .callRel site _ => site.rank
  | .call site => site.rank + 1
  | .hRel => 4
  | .hChk => 6
  | .hRun => 9
  | .exc => 10
  | .exit => 4
  | .loopChk => 11
  | .rChk => 12
  | .rRead => 17
  | .wRel => 18
  | .wFailRel => 18
  | .wBody => 19
  | .tkRel => 20
  | .takeOver => 21
  | .waitPrev => 22
  | .unborn => 23

theorem rank_le (pc : NPc) : pc.rank ≤ 23 := by
  cases pc
  case call site => cases site <;> simp [NPc.rank, Site.rank]
  case callRel site out => cases site <;> simp [NPc.rank, Site.rank]
  all_goals simp [NPc.rank]

theorem rank_zero (pc : NPc) : pc.rank = 0 ↔ pc = .dead := by
  cases pc
  case call site => cases site <;> simp [NPc.rank, Site.rank]
  case callRel site out => cases site <;> simp [NPc.rank, Site.rank]
  all_goals simp [NPc.rank]

theorem afterCall_rank (s : Sys) (site : Site) (out : Outcome) :
    (afterCall s site out).rank < site.rank := by
  cases site <;> simp only [afterCall] <;> repeat' split
  all_goals simp [NPc.rank, Site.rank]

grind_pattern afterCall_rank => afterCall s site out

/-- `interrupt` is never reset (on an existing thread object). -/
theorem intr_sticky (env : List Beh) (s s' : Sys) (t : Tid) (h : LInv s)
    (hs : step env s t = some s') (j : Nat) (hb : (s.net j).pc ≠ .unborn)
    (hj : (s.net j).intr = true) : (s'.net j).intr = true := by
  have h3 := h.born j
  step_cases hs
  all_goals simp only [refusedSt, directSt, succSt, discSt] at *
  all_goals grind [updN, dnet]

/-- A step of another thread does not move an existing thread. -/
theorem pc_other (env : List Beh) (s s' : Sys) (t : Tid) (h : LInv s)
    (hs : step env s t = some s') (j : Nat) (hb : (s.net j).pc ≠ .unborn) (ht : t ≠ .net j) :
    (s'.net j).pc = (s.net j).pc := by
  have h3 := h.born j
  step_cases hs
  all_goals simp only [refusedSt, directSt, succSt, discSt] at *
  all_goals grind [updN, dnet]

/-- Every own step of an interrupted thread decreases its rank. -/
theorem rank_own (env : List Beh) (s s' : Sys) (i : Nat) (h : LInv s)
    (hs : step env s (.net i) = some s') (hi : (s.net i).intr = true) :
    (s'.net i).pc.rank < (s.net i).pc.rank := by
  have h3 := h.born i
  step_cases hs
  all_goals simp only [refusedSt, directSt, succSt, discSt] at *
  all_goals grind [updN, dnet, NPc.rank, Site.rank]


/-- The only reasons for a networking thread not to be enabled. -/
theorem step_none_cases (env : List Beh) (s : Sys) (i : Nat) (h : step env s (.net i) = none) :
    (s.net i).pc = .unborn ∨ (s.net i).pc = .dead ∨
    ((s.net i).pc = .waitPrev ∧ ∃ p, (s.net i).prev = some p ∧ (s.net p).pc ≠ .dead) ∨
    canAcq s (.net i) = false := by
  unfold step at h
  simp only [stepNet] at h
  repeat' split at h
  all_goals simp_all

/-- The step of the lock holder frees the lock. -/
theorem owner_step (env : List Beh) (s s' : Sys) (t : Tid) (h : LInv s) (ho : s.owner = some t)
    (hs : step env s t = some s') : s'.owner = none := by
  have h1 := (h.own_iff t).mpr ho
  have h2 := h.depth_ok
  step_cases hs
  all_goals simp only [refusedSt, directSt, succSt, discSt, atRel] at *
  all_goals grind [NPc.isRel, UPc.isRel, ownerAfterRel]

/-- The lock holder is always enabled. -/
theorem owner_enabled (env : List Beh) (s : Sys) (h : LInv s) (t : Tid) (ho : s.owner = some t) :
    ∃ s', step env s t = some s' ∧ s'.owner = none := by
  have h1 := (h.own_iff t).mpr ho
  cases hst : step env s t with
  | some s' => exact ⟨s', rfl, owner_step env s s' t h ho hst⟩
  | none =>
    exfalso
    rcases t with u | i
    · simp only [atRel] at h1
      unfold step stepUser at hst
      cases hpc : (s.usr u).pc with
      | idle => simp [hpc, UPc.isRel] at h1
      | rel out => simp [hpc] at hst
    · simp only [atRel] at h1
      rcases step_none_cases env s i hst with hp | hp | ⟨hp, -⟩ | hp
      · simp [hp, NPc.isRel] at h1
      · simp [hp, NPc.isRel] at h1
      · simp [hp, NPc.isRel] at h1
      · simp [canAcq, ho] at hp

/-- An existing, live networking thread that is not enabled is blocked by the lock holder (who is
enabled) or is waiting for its predecessor (who is interrupted, exists and is not dead). -/
theorem blocked_cases (env : List Beh) (s : Sys) (h : LInv s) (i : Nat)
    (hb : (s.net i).pc ≠ .unborn) (hd : (s.net i).pc ≠ .dead)
    (hst : step env s (.net i) = none) :
    (∃ t, s.owner = some t ∧ t ≠ .net i) ∨
    ((s.net i).pc = .waitPrev ∧ ∃ p, (s.net i).prev = some p ∧ p ≠ i ∧ (s.net p).pc ≠ .dead ∧
      (s.net p).pc ≠ .unborn ∧ (s.net p).intr = true) := by
  rcases step_none_cases env s i hst with hp | hp | ⟨hp, p, hp1, hp2⟩ | hp
  · exact absurd hp hb
  · exact absurd hp hd
  · right
    obtain ⟨q, hq1, hq2, hq3, hq4, -⟩ := h.prev_ok i (by rw [hp]; rfl)
    rw [hp1] at hq1; cases hq1
    exact ⟨hp, p, hp1, hq3, hp2, hq4, hq2⟩
  · left
    cases ho : s.owner with
    | none => simp [canAcq, ho] at hp
    | some t => exact ⟨t, rfl, by intro ht; simp [canAcq, ho, ht] at hp⟩

/-! ### Counting own steps -/

/-- Number of schedule entries of thread `t` that were executed. -/
def stepsOf (env : List Beh) (s : Sys) (t : Tid) : List Tid → Nat
  | [] => 0
  | u :: us =>
    match step env s u with
    | some s' => (if u = t then 1 else 0) + stepsOf env s' t us
    | none => stepsOf env s t us

/-- Under ANY schedule an interrupted thread stays interrupted and executes at most
`rank` (≤ 23) more actions; its rank never increases. -/
theorem rank_run (env : List Beh) (sched : List Tid) (i : Nat) :
    ∀ s, LInv s → (s.net i).pc ≠ .unborn → (s.net i).intr = true →
      ((run env s sched).net i).intr = true ∧ ((run env s sched).net i).pc ≠ .unborn ∧
      ((run env s sched).net i).pc.rank + stepsOf env s (.net i) sched ≤ (s.net i).pc.rank := by
  induction sched with
  | nil => intro s _ hb hi; exact ⟨hi, hb, by simp [run, stepsOf]⟩
  | cons u us ih =>
    intro s h hb hi
    simp only [run, stepsOf]
    cases hst : step env s u with
    | none => exact ih s h hb hi
    | some s' =>
      have h' := step_inv env s s' u h hst
      have hi' := intr_sticky env s s' u h hst i hb hi
      by_cases hu : u = .net i
      · subst hu
        have hr := rank_own env s s' i h hst hi
        have hb' : (s'.net i).pc ≠ .unborn := by
          intro hc; rw [hc] at hr
          have := rank_le (s.net i).pc
          have h23 : NPc.unborn.rank = 23 := rfl
          omega
        obtain ⟨a, b, c⟩ := ih s' h' hb' hi'
        refine ⟨a, b, ?_⟩
        simp only [if_true]; omega
      · have hpc := pc_other env s s' u h hst i hb hu
        obtain ⟨a, b, c⟩ := ih s' h' (by rw [hpc]; exact hb) hi'
        refine ⟨a, b, ?_⟩
        simp only [hu, if_false]; rw [hpc] at c; omega


/-! ### Running a thread alone -/

/-- `previous_thread` of an existing thread object never changes. -/
theorem prev_stable (env : List Beh) (s s' : Sys) (t : Tid) (h : LInv s)
    (hs : step env s t = some s') (j : Nat) (hb : (s.net j).pc ≠ .unborn) :
    (s'.net j).prev = (s.net j).prev := by
  have h3 := h.born j
  step_cases hs
  all_goals simp only [refusedSt, directSt, succSt, discSt] at *
  all_goals grind [updN, dnet]

theorem owner_own_step (env : List Beh) (s s' : Sys) (i : Nat)
    (hs : step env s (.net i) = some s') (ho : s.owner = none ∨ s.owner = some (.net i)) :
    s'.owner = none ∨ s'.owner = some (.net i) := by
  step_cases hs
  all_goals simp only [refusedSt, directSt, succSt, discSt] at *
  all_goals grind [ownerAfterRel]

theorem run_replicate_succ (env : List Beh) (s : Sys) (t : Tid) (n : Nat) :
    run env s (List.replicate (n + 1) t) =
      match step env s t with
      | some s' => run env s' (List.replicate n t)
      | none => run env s (List.replicate n t) := by
  rw [List.replicate_succ]; rfl

/-- Scheduling only an interrupted thread whose predecessor (if it waits for one) is dead, with
the lock free, kills it within `rank` steps; it ends with the lock free and does not move any
other existing thread. -/
theorem solo (env : List Beh) (i : Nat) : ∀ n s, LInv s → (s.net i).pc ≠ .unborn →
    (s.net i).intr = true → (s.owner = none ∨ s.owner = some (.net i)) →
    ((s.net i).pc = .waitPrev → ∀ p, (s.net i).prev = some p → (s.net p).pc = .dead) →
    (s.net i).pc.rank ≤ n →
    ((run env s (List.replicate n (.net i))).net i).pc = .dead ∧
    (run env s (List.replicate n (.net i))).owner = none ∧
    LInv (run env s (List.replicate n (.net i))) ∧
    ∀ j, j ≠ i → (s.net j).pc ≠ .unborn →
      ((run env s (List.replicate n (.net i))).net j).pc = (s.net j).pc ∧
      ((run env s (List.replicate n (.net i))).net j).prev = (s.net j).prev ∧
      ((s.net j).intr = true → ((run env s (List.replicate n (.net i))).net j).intr = true) := by
  intro n
  induction n with
  | zero =>
    intro s h _ _ ho _ hr
    have hd : (s.net i).pc = .dead := (rank_zero _).mp (by omega)
    refine ⟨hd, ?_, h, fun j _ _ => ⟨rfl, rfl, id⟩⟩
    rcases ho with ho | ho
    · exact ho
    · have := (h.own_iff (.net i)).mpr ho
      simp [atRel, hd, NPc.isRel] at this
  | succ n ih =>
    intro s h hb hi ho hw hr
    rw [run_replicate_succ]
    cases hst : step env s (.net i) with
    | none =>
      have hd : (s.net i).pc = .dead := by
        apply Classical.byContradiction
        intro hd
        rcases blocked_cases env s h i hb hd hst with ⟨t, h1, h2⟩ | ⟨h1, p, h2, -, h3, -⟩
        · rcases ho with ho | ho
          · rw [ho] at h1; cases h1
          · rw [ho] at h1; cases h1; exact h2 rfl
        · exact h3 (hw h1 p h2)
      exact ih s h hb hi ho hw (by rw [hd]; simp [NPc.rank])
    | some s1 =>
      have h1 := step_inv env s s1 _ h hst
      have hr1 := rank_own env s s1 i h hst hi
      have hrl := rank_le (s.net i).pc
      have hb1 : (s1.net i).pc ≠ .unborn := by
        intro hc; rw [hc] at hr1
        have h23 : NPc.unborn.rank = 23 := rfl
        omega
      have hw1 : (s1.net i).pc = .waitPrev → ∀ p, (s1.net i).prev = some p →
          (s1.net p).pc = .dead := by
        intro hc; rw [hc] at hr1
        have h22 : NPc.waitPrev.rank = 22 := rfl
        have : (s.net i).pc.rank = 23 := by omega
        exfalso; apply hb
        revert this
        cases hpc : (s.net i).pc
        case call site => cases site <;> simp [NPc.rank, Site.rank]
        case callRel site out => cases site <;> simp [NPc.rank, Site.rank]
        all_goals simp [NPc.rank]
      obtain ⟨a, b, c, d⟩ := ih s1 h1 hb1 (intr_sticky env s s1 _ h hst i hb hi)
        (owner_own_step env s s1 i hst ho) hw1 (by omega)
      refine ⟨a, b, c, fun j hj hbj => ?_⟩
      have e1 := pc_other env s s1 _ h hst j hbj (by simpa using fun hc => hj hc.symm)
      have e2 := prev_stable env s s1 _ h hst j hbj
      obtain ⟨d1, d2, d3⟩ := d j hj (by rw [e1]; exact hbj)
      exact ⟨by rw [d1, e1], by rw [d2, e2],
        fun hij => d3 (intr_sticky env s s1 _ h hst j hbj hij)⟩


/-- With the lock free (or held by `i`), an interrupted thread can be driven to its death: first
its predecessor (if it is still waiting for one), then itself. -/
theorem can_terminate_free (env : List Beh) (s : Sys) (h : LInv s) (i : Nat)
    (hb : (s.net i).pc ≠ .unborn) (hi : (s.net i).intr = true)
    (ho : s.owner = none ∨ s.owner = some (.net i)) :
    ∃ sched, sched.length ≤ 46 ∧ ((run env s sched).net i).pc = .dead := by
  by_cases hw : (s.net i).pc = .waitPrev
  · obtain ⟨p, hp1, hp2, hp3, hp4, -⟩ := h.prev_ok i (by rw [hw]; rfl)
    have ho' : s.owner = none := by
      rcases ho with ho | ho
      · exact ho
      · have := (h.own_iff (.net i)).mpr ho
        simp [atRel, hw, NPc.isRel] at this
    have hpw : (s.net p).pc ≠ .waitPrev := by
      intro hc
      have h1 := (h.new_iff p).mpr (by rw [hc]; rfl)
      have h2 := (h.new_iff i).mpr (by rw [hw]; rfl)
      rw [h1] at h2; cases h2; exact hp3 rfl
    obtain ⟨a, b, c, d⟩ := solo env p 23 s h hp4 hp2 (Or.inl ho') (fun hc => absurd hc hpw)
      (rank_le _)
    obtain ⟨d1, d2, d3⟩ := d i (fun hc => hp3 hc.symm) hb
    obtain ⟨e, -, -, -⟩ := solo env i 23 _ c (by rw [d1]; exact hb) (d3 hi) (Or.inl b)
      (fun _ q hq => by rw [d2, hp1] at hq; cases hq; exact a) (rank_le _)
    refine ⟨List.replicate 23 (.net p) ++ List.replicate 23 (.net i), by simp, ?_⟩
    rw [run_append]; exact e
  · obtain ⟨e, -, -, -⟩ := solo env i 23 s h hb hi ho (fun hc => absurd hc hw) (rank_le _)
    exact ⟨List.replicate 23 (.net i), by simp, e⟩

/-- From every state satisfying the invariant there is a schedule of at most 47 entries after
which a given interrupted thread is dead. -/
theorem can_terminate (env : List Beh) (s : Sys) (h : LInv s) (i : Nat)
    (hb : (s.net i).pc ≠ .unborn) (hi : (s.net i).intr = true) :
    ∃ sched, sched.length ≤ 47 ∧ ((run env s sched).net i).pc = .dead := by
  cases ho : s.owner with
  | none => 
    obtain ⟨sched, h1, h2⟩ := can_terminate_free env s h i hb hi (Or.inl ho)
    exact ⟨sched, by omega, h2⟩
  | some t =>
    by_cases ht : t = .net i
    · obtain ⟨sched, h1, h2⟩ := can_terminate_free env s h i hb hi (Or.inr (by rw [ho, ht]))
      exact ⟨sched, by omega, h2⟩
    · obtain ⟨s1, hs1, ho1⟩ := owner_enabled env s h t ho
      have h1 := step_inv env s s1 t h hs1
      have hpc := pc_other env s s1 t h hs1 i hb ht
      obtain ⟨sched, hl, hd⟩ := can_terminate_free env s1 h1 i (by rw [hpc]; exact hb)
        (intr_sticky env s s1 t h hs1 i hb hi) (Or.inl ho1)
      refine ⟨t :: sched, by simp; omega, ?_⟩
      simp only [run, hs1]; exact hd

end PyCraft.Life
