import PyCraft.Lemmas.WritersWire
/-!
Program-related invariants of `Model/Writers.lean`: freshness of the packets still to be issued
(`FreshInv`), and the per-thread progress/FIFO invariant (`ProgInv`), with their preservation by
every step and their validity in the initial state.
-/
namespace PyCraft.Writers

theorem wire_init (progs : List (List Op)) : WireInv (init progs) := by
  have hc : cur (init progs) = .user .idle := rfl
  constructor <;> (try rw [hc]) <;>
    simp [Pc.half, Pc.needsOpen, Pc.pastSti, Pc.atPop, Pc.dctx, Pc.infl, init, sentPkts, frames]

/-- The order in which queued packets travel: sent frames, then the popped packet in flight,
then the queue. -/
def pipeline (s : Sys) : List Pkt := sentPkts s.wire ++ (cur s).popped ++ s.queue

/-- The `queued` packets of a program, in program order. -/
def Op.queuedPkt : Op → Option Pkt
  | .queued p => some p
  | _ => none

def queuedPkts (prog : List Op) : List Pkt := prog.filterMap Op.queuedPkt

theorem popped_needsOpen (pc : Pc) (h : pc.popped ≠ []) : pc.needsOpen = true := by
  unfold Pc.popped at h; unfold Pc.needsOpen; split at h <;> simp_all

theorem eff_pipeline (s s' : Sys) (t : Tid) (ev : Ev) (hw : WireInv s) (he : Eff s s' t ev) :
    (pipeline s).Sublist (pipeline s') ∧ ∀ p, ev = .app p → pipeline s' = pipeline s ++ [p] := by
  have hno := hw.needs_open
  have hpo := popped_needsOpen (cur s)
  cases ev <;> simp only [Eff, SameQ, Clean] at he
  case app p =>
    obtain ⟨h1, h2, -, -, h5, -, -⟩ := he
    have : pipeline s' = pipeline s ++ [p] := by simp [pipeline, h1, h2, h5]
    refine ⟨by rw [this]; exact List.sublist_append_left _ _, ?_⟩
    intro q hq; cases hq; exact this
  case snd p c =>
    refine ⟨?_, by intro q hq; cases hq⟩
    obtain ⟨h1, ⟨h2, -, -⟩, -, -, -, -, h0, h1'⟩ := he
    match c with
    | 0 =>
      obtain ⟨-, -, -, -, hb⟩ := h0 rfl
      simp [pipeline, h1, h2, hb, sentPkts_snoc0]
    | 1 =>
      obtain ⟨-, ⟨-, hb, -⟩, hc⟩ := h1' rfl
      rcases hc with hc | hc <;> simp [pipeline, h1, h2, hb, hc, sentPkts_snoc1]
  case fail =>
    refine ⟨?_, by intro q hq; cases hq⟩
    obtain ⟨p, h1, h2, -, -, -, -, hso, -, -, ⟨-, hb, -⟩, hc, -⟩ := he
    rcases hc with hc | hc
    · simp [pipeline, h1, h2, hb, hc]
    · have := hno (hpo (by simp [hc])); simp [hso] at this
  case pop q =>
    refine ⟨?_, by intro q hq; cases hq⟩
    obtain ⟨h1, h2, -, -, -, -, ⟨-, ha, -⟩, -, hb, -, -⟩ := he
    simp [pipeline, h1, h2, ha, hb]
  all_goals
    refine ⟨?_, by intro q hq; cases hq⟩
    simp only [pipeline]
    grind


/-- How a step consumes the stepping thread's program and extends `issued`. -/
theorem eff_prog (s s' : Sys) (t : Tid) (ev : Ev) (he : Eff s s' t ev) :
    ((s'.thr t).todo = (s.thr t).todo ∧ s'.issued = s.issued ∧ ∀ p, ev ≠ .app p) ∨
    (∃ imm, (s.thr t).todo = .disconnect imm :: (s'.thr t).todo ∧ s'.issued = s.issued ∧
      ∀ p, ev ≠ .app p) ∨
    (∃ p, (s.thr t).todo = .forced p :: (s'.thr t).todo ∧ s'.issued = s.issued ++ [p] ∧
      ∀ p, ev ≠ .app p) ∨
    (∃ p, ev = .app p ∧ (s.thr t).todo = .queued p :: (s'.thr t).todo ∧
      s'.issued = s.issued ++ [p]) := by
  cases ev <;> simp only [Eff, SameQ, Clean] at he
  all_goals grind

structure FreshInv (s : Sys) : Prop where
  fresh : ∀ t, ∀ p ∈ pktsOf (s.thr t).todo, p ∉ s.issued
  nodup : ∀ t, (pktsOf (s.thr t).todo).Nodup
  disj : ∀ t u, t ≠ u → ∀ p ∈ pktsOf (s.thr t).todo, p ∉ pktsOf (s.thr u).todo
  issued_nodup : s.issued.Nodup

theorem pktsOf_cons (op : Op) (l : List Op) : pktsOf (op :: l) = op.pkts ++ pktsOf l := by
  simp [pktsOf]

theorem fresh_step (cfg : Cfg) (s s' : Sys) (t : Tid) (hl : LockInv s) (hf : FreshInv s)
    (hs : step cfg s t = some s') : FreshInv s' := by
  obtain ⟨ev, -, he, hoth, -⟩ := step_eff cfg s s' t hl hs
  obtain ⟨f1, f2, f3, f4⟩ := hf
  have key : ∀ u, u ≠ t → (s'.thr u).todo = (s.thr u).todo := fun u hu => by rw [hoth u hu]
  have f1t := f1 t
  have f2t := f2 t
  rcases eff_prog s s' t ev he with ⟨h1, h2, -⟩ | ⟨imm, h1, h2, -⟩ | ⟨p, h1, h2, -⟩ | ⟨p, -, h1, h2⟩
  · refine ⟨?_, ?_, ?_, by rw [h2]; exact f4⟩
    · intro u; by_cases hu : u = t
      · subst hu; rw [h1, h2]; exact f1 u
      · rw [key u hu, h2]; exact f1 u
    · intro u; by_cases hu : u = t
      · subst hu; rw [h1]; exact f2 u
      · rw [key u hu]; exact f2 u
    · intro u v huv
      have := f3 u v huv
      by_cases hu : u = t <;> by_cases hv : v = t
      · subst hu; subst hv; exact absurd rfl huv
      · subst hu; rw [h1, key v hv]; exact this
      · subst hv; rw [h1, key u hu]; exact this
      · rw [key u hu, key v hv]; exact this
  all_goals
    rw [h1, pktsOf_cons] at f1t f2t
    refine ⟨?_, ?_, ?_, by rw [h2]; simp [Op.pkts] at f1t; grind [List.nodup_append]⟩
    · intro u; by_cases hu : u = t
      · subst hu; rw [h2]; simp [Op.pkts] at f1t f2t ⊢; grind
      · have := f3 u t hu; have := f1 u
        rw [key u hu, h2]; rw [h1, pktsOf_cons] at *; simp [Op.pkts] at *; grind
    · intro u; by_cases hu : u = t
      · subst hu; simp [Op.pkts] at f2t; grind
      · rw [key u hu]; exact f2 u
    · intro u v huv
      have h3 := f3 u v huv
      by_cases hu : u = t <;> by_cases hv : v = t
      · subst hu; subst hv; exact absurd rfl huv
      · subst hu; rw [key v hv]; rw [h1, pktsOf_cons] at h3; simp at h3 ⊢; grind
      · subst hv; rw [key u hu]; rw [h1, pktsOf_cons] at h3; simp at h3 ⊢; grind
      · rw [key u hu, key v hv]; exact h3


structure ProgInv (progs : List (List Op)) (s : Sys) : Prop where
  /-- every thread has executed a prefix `done` of its program; the queued packets of that prefix
  travel through the pipeline in program order, and all its packets have been issued -/
  prog : ∀ u, ∃ done, progOf progs u = done ++ (s.thr u).todo ∧
    (queuedPkts done).Sublist (pipeline s) ∧ ∀ p ∈ pktsOf done, p ∈ s.issued
  done_empty : ∀ u, (s.thr u).pc = .user .done → (s.thr u).todo = []
  /-- only packets of the programs are ever issued -/
  issued_prog : ∀ p ∈ s.issued, ∃ u, p ∈ pktsOf (progOf progs u)

theorem step_done_empty (cfg : Cfg) (s s' : Sys) (t : Tid)
    (h : ∀ u, (s.thr u).pc = .user .done → (s.thr u).todo = [])
    (hs : step cfg s t = some s') : ∀ u, (s'.thr u).pc = .user .done → (s'.thr u).todo = [] := by
  have ht := h t
  step_cases hs hpc htd
  all_goals
    intro u; have hu := h u
    grind [upd]

theorem queuedPkts_snoc (l : List Op) (op : Op) :
    queuedPkts (l ++ [op]) = queuedPkts l ++ queuedPkts [op] := by
  simp [queuedPkts]

@[simp] theorem queuedPkts_disc (imm : Bool) : queuedPkts [.disconnect imm] = [] := rfl
@[simp] theorem queuedPkts_forced (p : Pkt) : queuedPkts [.forced p] = [] := rfl
@[simp] theorem queuedPkts_queued (p : Pkt) : queuedPkts [.queued p] = [p] := rfl

theorem pktsOf_snoc (l : List Op) (op : Op) : pktsOf (l ++ [op]) = pktsOf l ++ op.pkts := by
  simp [pktsOf]

theorem prog_step (cfg : Cfg) (progs : List (List Op)) (s s' : Sys) (t : Tid) (hl : LockInv s)
    (hw : WireInv s) (hp : ProgInv progs s) (hs : step cfg s t = some s') : ProgInv progs s' := by
  obtain ⟨ev, -, he, hoth, -⟩ := step_eff cfg s s' t hl hs
  obtain ⟨hsub, happ⟩ := eff_pipeline s s' t ev hw he
  refine ⟨?_, step_done_empty cfg s s' t hp.done_empty hs, ?_⟩
  rotate_left
  · obtain ⟨done, hd1, -, -⟩ := hp.prog t
    have hi := hp.issued_prog
    have hin : ∀ p, p ∈ pktsOf (s.thr t).todo → ∃ u, p ∈ pktsOf (progOf progs u) := by
      intro p hp; exact ⟨t, by rw [hd1]; simp [pktsOf] at hp ⊢; exact Or.inr hp⟩
    rcases eff_prog s s' t ev he with ⟨-, h2, -⟩ | ⟨_, -, h2, -⟩ | ⟨q, h1, h2, -⟩ | ⟨q, -, h1, h2⟩ <;>
      intro p hp <;> rw [h2] at hp
    · exact hi p hp
    · exact hi p hp
    · simp at hp; rcases hp with hp | hp
      · exact hi p hp
      · exact hin p (by rw [h1, hp]; simp [pktsOf, Op.pkts])
    · simp at hp; rcases hp with hp | hp
      · exact hi p hp
      · exact hin p (by rw [h1, hp]; simp [pktsOf, Op.pkts])
  have hiss : ∀ p, p ∈ s.issued → p ∈ s'.issued := by
    rcases eff_prog s s' t ev he with ⟨-, h2, -⟩ | ⟨_, -, h2, -⟩ | ⟨_, -, h2, -⟩ | ⟨_, -, -, h2⟩ <;>
      intro p hp <;> simp [h2, hp]
  intro u
  obtain ⟨done, hd1, hd2, hd3⟩ := hp.prog u
  by_cases hu : u = t
  · subst hu
    rcases eff_prog s s' u ev he with ⟨h1, -, -⟩ | ⟨imm, h1, -, -⟩ | ⟨p, h1, h2, -⟩ | ⟨p, hev, h1, h2⟩
    · exact ⟨done, by rw [h1]; exact hd1, hd2.trans hsub, fun p hp => hiss p (hd3 p hp)⟩
    · refine ⟨done ++ [.disconnect imm], by rw [hd1, h1]; simp, ?_, ?_⟩
      · rw [queuedPkts_snoc]; simpa using hd2.trans hsub
      · intro p hp; rw [pktsOf_snoc] at hp; simp [Op.pkts] at hp; exact hiss p (hd3 p hp)
    · refine ⟨done ++ [.forced p], by rw [hd1, h1]; simp, ?_, ?_⟩
      · rw [queuedPkts_snoc]; simpa using hd2.trans hsub
      · intro q hq; rw [pktsOf_snoc] at hq; simp [Op.pkts] at hq
        rcases hq with hq | hq
        · exact hiss q (hd3 q hq)
        · simp [h2, hq]
    · refine ⟨done ++ [.queued p], by rw [hd1, h1]; simp, ?_, ?_⟩
      · rw [queuedPkts_snoc, happ p hev]
        exact List.Sublist.append hd2 (by simp)
      · intro q hq; rw [pktsOf_snoc] at hq; simp [Op.pkts] at hq
        rcases hq with hq | hq
        · exact hiss q (hd3 q hq)
        · simp [h2, hq]
  · exact ⟨done, by rw [hoth u hu]; exact hd1, hd2.trans hsub, fun p hp => hiss p (hd3 p hp)⟩

/-! ### The initial state -/

theorem mem_flat_of_getD (progs : List (List Op)) (i : Nat) (p : Pkt)
    (h : p ∈ pktsOf (progs.getD i [])) : p ∈ progs.flatMap pktsOf := by
  by_cases hi : i < progs.length
  · have : progs.getD i [] = progs[i] := by simp [List.getD, hi]
    rw [this] at h
    exact List.mem_flatMap.mpr ⟨progs[i], List.getElem_mem hi, h⟩
  · have : progs.getD i [] = [] := by
      rw [List.getD_eq_getElem?_getD, List.getElem?_eq_none (by omega)]; rfl
    rw [this] at h; simp [pktsOf] at h

theorem getD_nodup (progs : List (List Op)) (hnd : (progs.flatMap pktsOf).Nodup) (i : Nat) :
    (pktsOf (progs.getD i [])).Nodup := by
  induction progs generalizing i with
  | nil => simp [pktsOf]
  | cons a rest ih =>
    rw [List.flatMap_cons, List.nodup_append] at hnd
    cases i with
    | zero => simpa using hnd.1
    | succ i => simpa using ih hnd.2.1 i

theorem getD_disj (progs : List (List Op)) (hnd : (progs.flatMap pktsOf).Nodup) (i j : Nat)
    (hij : i ≠ j) (p : Pkt) (hi : p ∈ pktsOf (progs.getD i [])) :
    p ∉ pktsOf (progs.getD j []) := by
  induction progs generalizing i j with
  | nil => simp [pktsOf] at hi
  | cons a rest ih =>
    rw [List.flatMap_cons, List.nodup_append] at hnd
    obtain ⟨h1, h2, h3⟩ := hnd
    cases i with
    | zero =>
      cases j with
      | zero => exact absurd rfl hij
      | succ j =>
        intro hj
        exact h3 p (by simpa using hi) p (mem_flat_of_getD rest j p (by simpa using hj)) rfl
    | succ i =>
      cases j with
      | zero =>
        intro hj
        exact h3 p (by simpa using hj) p (mem_flat_of_getD rest i p (by simpa using hi)) rfl
      | succ j =>
        have := ih h2 i j (by omega) (by simpa using hi)
        simpa using this

theorem getD_big (progs : List (List Op)) (i : Nat) (h : progs.length ≤ i) :
    progs.getD i [] = [] := by
  rw [List.getD_eq_getElem?_getD, List.getElem?_eq_none h]; rfl

theorem init_todo (progs : List (List Op)) (t : Nat) :
    ((init progs).thr t).todo = progOf progs t := by
  simp only [init, progOf]
  by_cases h0 : t = 0
  · simp [h0]
  · by_cases h1 : t ≤ progs.length
    · simp [h0, h1]
    · have h2 : progs.length ≤ t - 1 := by omega
      rw [getD_big progs _ h2]
      simp [h0, h1]

end PyCraft.Writers
