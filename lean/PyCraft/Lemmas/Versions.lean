import PyCraft.Model.Versions
/-!
Helper definitions and lemmas for C08.

* specification functions (`dedup`, `odFromList`, `lastVal`, `specTables`) and the closed form of
  `initKnown`;
* lemmas about the index map and the order it induces.

The kernel-evaluation device used to check the model against the live data lives in
`Lemmas/VersionsCheck.lean`.
-/
namespace PyCraft

/-! ### Specification vocabulary -/

/-- Duplicate-free projection keeping FIRST occurrences, in order. -/
def dedup {α : Type} [DecidableEq α] : List α → List α
  | [] => []
  | x :: xs => x :: (dedup xs).filter (fun y => decide (y ≠ x))

/-- `OrderedDict(pairs)`: assign the pairs one after the other to an empty ordered dict. -/
def odFromList {α β : Type} [DecidableEq α] (l : List (α × β)) : List (α × β) :=
  l.foldl (fun d e => odSet d e.1 e.2) []

/-- The value of the LAST pair with key `k`. -/
def lastVal {α β : Type} [DecidableEq α] (l : List (α × β)) (k : α) : Option β :=
  (l.reverse.find? (fun e => decide (e.1 = k))).map (·.2)

/-- The accumulator form used by the loops: append `x` unless already present. -/
def dedupFrom {α : Type} [DecidableEq α] (acc : List α) (l : List α) : List α :=
  l.foldl (fun acc x => if x ∈ acc then acc else acc ++ [x]) acc

/-- Assign the pairs one after the other to the ordered dict `d`. -/
def odExtend {α β : Type} [DecidableEq α] (d : List (α × β)) (l : List (α × β)) : List (α × β) :=
  l.foldl (fun d e => odSet d e.1 e.2) d

/-- The `(id, protocol)` pairs of the records, in order. -/
def recPairs (recs : List Rec) : List (String × Nat) := recs.map fun r => (r.id, r.protocol)

/-- Closed form of the tables as projections of the record list. -/
def specTables (recs : List Rec) : Tables :=
  let kp := dedup (recs.map (·.protocol))
  let sv := odFromList (recPairs (recs.filter (·.supported)))
  let rv := sv.filter (fun e => isRelease e.1)
  { knownVersions := odFromList (recPairs recs)
    knownProtocols := kp
    supportedVersions := sv
    indices := kp.zipIdx
    supportedProtocols := dedup (sv.map (·.2))
    releaseVersions := rv
    releaseProtocols := dedup (rv.map (·.2)) }

/-! ### `dedup` -/

section Dedup
variable {α : Type} [DecidableEq α]

theorem mem_dedup (l : List α) (a : α) : a ∈ dedup l ↔ a ∈ l := by
  induction l with
  | nil => simp [dedup]
  | cons x xs ih =>
    simp only [dedup, List.mem_cons, List.mem_filter, ih, decide_eq_true_eq]
    by_cases h : a = x <;> simp [h]

theorem nodup_dedup (l : List α) : (dedup l).Nodup := by
  induction l with
  | nil => simp [dedup]
  | cons x xs ih =>
    simp only [dedup, List.nodup_cons, List.mem_filter, decide_eq_true_eq]
    exact ⟨fun h => h.2 rfl, ih.sublist List.filter_sublist⟩

theorem dedup_sublist (l : List α) : (dedup l).Sublist l := by
  induction l with
  | nil => simp [dedup]
  | cons x xs ih =>
    simp only [dedup]
    exact List.Sublist.cons_cons x (List.filter_sublist.trans ih)

theorem dedupFrom_eq (acc l : List α) :
    dedupFrom acc l = acc ++ (dedup l).filter (fun y => decide (y ∉ acc)) := by
  induction l generalizing acc with
  | nil => simp [dedupFrom, dedup]
  | cons x xs ih =>
    have hstep : dedupFrom acc (x :: xs) = dedupFrom (if x ∈ acc then acc else acc ++ [x]) xs := rfl
    rw [hstep]
    by_cases hx : x ∈ acc
    · rw [if_pos hx, ih]
      congr 1
      simp only [dedup, List.filter_cons, hx, not_true_eq_false, decide_false, Bool.false_eq_true,
        if_false, List.filter_filter]
      apply List.filter_congr
      intro y _
      by_cases hy : y ∈ acc
      · simp [hy]
      · have : y ≠ x := fun e => hy (e ▸ hx)
        simp [hy, this]
    · rw [if_neg hx, ih]
      simp only [dedup, List.filter_cons, hx, not_false_eq_true, decide_true, if_true,
        List.filter_filter, List.append_assoc, List.singleton_append]
      congr 2
      apply List.filter_congr
      intro y _
      simp [List.mem_append, not_or, Bool.and_comm]

theorem dedupFrom_nil (l : List α) : dedupFrom [] l = dedup l := by
  rw [dedupFrom_eq]; simp

theorem dedupFrom_append (acc l₁ l₂ : List α) :
    dedupFrom acc (l₁ ++ l₂) = dedupFrom (dedupFrom acc l₁) l₂ := by
  simp [dedupFrom, List.foldl_append]

/-- `dedup` of an extended list extends `dedup` of the original (chronology is append-only). -/
theorem dedup_append (l₁ l₂ : List α) :
    dedup (l₁ ++ l₂) = dedup l₁ ++ (dedup l₂).filter (fun y => decide (y ∉ dedup l₁)) := by
  rw [← dedupFrom_nil, dedupFrom_append, dedupFrom_nil, dedupFrom_eq]

theorem dedup_prefix_append (l₁ l₂ : List α) : dedup l₁ <+: dedup (l₁ ++ l₂) := by
  rw [dedup_append]; exact List.prefix_append _ _

theorem dedup_of_nodup (l : List α) (h : l.Nodup) : dedup l = l := by
  induction l with
  | nil => rfl
  | cons x xs ih =>
    rw [List.nodup_cons] at h
    simp only [dedup, ih h.2]
    congr 1
    rw [List.filter_eq_self]
    intro y hy
    simp only [decide_eq_true_eq]
    exact fun e => h.1 (e ▸ hy)

/-- Filtering keeps the relative position of the elements it keeps. -/
theorem idxOf_filter_lt (p : α → Bool) (l : List α) (a b : α) (ha : p a = true) (hb : p b = true) :
    (l.filter p).idxOf a < (l.filter p).idxOf b ↔ l.idxOf a < l.idxOf b := by
  induction l with
  | nil => simp
  | cons z zs ih =>
    by_cases hz : p z = true
    · rw [List.filter_cons_of_pos hz]
      simp only [List.idxOf_cons]
      by_cases h1 : z = a <;> by_cases h2 : z = b <;> simp [h1, h2] <;> omega
    · rw [List.filter_cons_of_neg hz]
      have h1 : z ≠ a := fun e => hz (e ▸ ha)
      have h2 : z ≠ b := fun e => hz (e ▸ hb)
      simp only [List.idxOf_cons, beq_iff_eq, h1, h2, cond_false]
      omega

/-- First-occurrence order: `a` comes before `b` in `dedup l` exactly when the first occurrence of
`a` in `l` comes before the first occurrence of `b`. -/
theorem idxOf_dedup_lt (l : List α) (a b : α) :
    (dedup l).idxOf a < (dedup l).idxOf b ↔ l.idxOf a < l.idxOf b := by
  induction l with
  | nil => simp [dedup]
  | cons x xs ih =>
    simp only [dedup, List.idxOf_cons]
    by_cases h1 : x = a <;> by_cases h2 : x = b
    · simp [h1, h2]
    · simp [h1, h2]
    · simp [h1, h2]
    · have ha : (fun y => decide (y ≠ x)) a = true := by simpa using fun e => h1 e.symm
      have hb : (fun y => decide (y ≠ x)) b = true := by simpa using fun e => h2 e.symm
      have := idxOf_filter_lt (fun y => decide (y ≠ x)) (dedup xs) a b ha hb
      simp only [beq_iff_eq, h1, h2, cond_false]
      omega

end Dedup

/-! ### Ordered dicts -/

section OD
variable {α β : Type} [DecidableEq α]

theorem odSet_keys (d : List (α × β)) (k : α) (v : β) :
    (odSet d k v).map (·.1) = if k ∈ d.map (·.1) then d.map (·.1) else d.map (·.1) ++ [k] := by
  induction d with
  | nil => simp [odSet]
  | cons e d ih =>
    obtain ⟨k', v'⟩ := e
    by_cases h : k' = k
    · simp [odSet, h]
    · have h' : ¬ k = k' := fun e => h e.symm
      simp only [odSet, h, if_false, List.map_cons, ih, List.mem_cons, h', false_or]
      split <;> simp

theorem odSet_of_not_mem (d : List (α × β)) (k : α) (v : β) (h : k ∉ d.map (·.1)) :
    odSet d k v = d ++ [(k, v)] := by
  induction d with
  | nil => simp [odSet]
  | cons e d ih =>
    obtain ⟨k', v'⟩ := e
    simp only [List.map_cons, List.mem_cons, not_or] at h
    have h' : ¬ k' = k := fun e => h.1 e.symm
    simp [odSet, h', ih h.2]

theorem odGet_odSet (d : List (α × β)) (k k' : α) (v : β) :
    odGet (odSet d k v) k' = if k = k' then some v else odGet d k' := by
  induction d with
  | nil => simp [odSet, odGet]
  | cons e d ih =>
    obtain ⟨k₀, v₀⟩ := e
    by_cases h : k₀ = k
    · subst h; by_cases h2 : k₀ = k' <;> simp [odSet, odGet, h2]
    · by_cases h2 : k₀ = k'
      · have : ¬ k = k' := fun e => h (h2.trans e.symm)
        simp [odSet, odGet, h, h2, this]
      · simp [odSet, odGet, h, h2, ih]

theorem mem_odSet (d : List (α × β)) (k : α) (v : β) (e : α × β) (h : e ∈ odSet d k v) :
    e ∈ d ∨ e = (k, v) := by
  induction d with
  | nil => simpa [odSet] using h
  | cons e' d ih =>
    obtain ⟨k', v'⟩ := e'
    by_cases hk : k' = k
    · simp only [odSet, hk, if_true, List.mem_cons] at h
      rcases h with h | h
      · right; exact h
      · left; exact List.mem_cons_of_mem _ h
    · simp only [odSet, hk, if_false, List.mem_cons] at h
      rcases h with h | h
      · left; rw [h]; exact List.mem_cons_self
      · rcases ih h with h | h
        · left; exact List.mem_cons_of_mem _ h
        · right; exact h

theorem odGet_eq_none (d : List (α × β)) (k : α) : odGet d k = none ↔ k ∉ d.map (·.1) := by
  induction d with
  | nil => simp [odGet]
  | cons e d ih =>
    obtain ⟨k', v'⟩ := e
    by_cases h : k' = k
    · simp [odGet, h]
    · have h' : ¬ k = k' := fun e => h e.symm
      simp [odGet, h, h', ih]

/-- In a dict (distinct keys) the items are exactly the key/value associations. -/
theorem mem_iff_odGet (d : List (α × β)) (hd : (d.map (·.1)).Nodup) (k : α) (v : β) :
    (k, v) ∈ d ↔ odGet d k = some v := by
  induction d with
  | nil => simp [odGet]
  | cons e d ih =>
    obtain ⟨k', v'⟩ := e
    simp only [List.map_cons, List.nodup_cons] at hd
    by_cases h : k' = k
    · subst h
      have : ∀ v, (k', v) ∉ d := fun v hm => hd.1 (List.mem_map.2 ⟨_, hm, rfl⟩)
      simp [odGet, this, eq_comm]
    · have h' : ¬ k = k' := fun e => h e.symm
      simp [odGet, h, h', ih hd.2]

theorem odExtend_keys (d l : List (α × β)) :
    (odExtend d l).map (·.1) = dedupFrom (d.map (·.1)) (l.map (·.1)) := by
  induction l generalizing d with
  | nil => rfl
  | cons e l ih =>
    have h1 : odExtend d (e :: l) = odExtend (odSet d e.1 e.2) l := rfl
    have h2 : dedupFrom (d.map (·.1)) ((e :: l).map (·.1))
        = dedupFrom (if e.1 ∈ d.map (·.1) then d.map (·.1) else d.map (·.1) ++ [e.1])
            (l.map (·.1)) := rfl
    rw [h1, h2, ih, odSet_keys]

theorem odFromList_keys (l : List (α × β)) :
    (odFromList l).map (·.1) = dedup (l.map (·.1)) := by
  have := odExtend_keys [] l
  rw [List.map_nil, dedupFrom_nil] at this
  exact this

theorem odFromList_keys_nodup (l : List (α × β)) : ((odFromList l).map (·.1)).Nodup := by
  rw [odFromList_keys]; exact nodup_dedup _

theorem lastVal_cons (e : α × β) (l : List (α × β)) (k : α) :
    lastVal (e :: l) k = (lastVal l k).or (if e.1 = k then some e.2 else none) := by
  simp only [lastVal, List.reverse_cons, List.find?_append, List.find?_cons, List.find?_nil]
  cases h : List.find? (fun e => decide (e.1 = k)) l.reverse with
  | some x => simp
  | none => by_cases h2 : e.1 = k <;> simp [h2]

theorem odGet_odExtend (d l : List (α × β)) (k : α) :
    odGet (odExtend d l) k = (lastVal l k).or (odGet d k) := by
  induction l generalizing d with
  | nil => simp [odExtend, lastVal]
  | cons e l ih =>
    have h1 : odExtend d (e :: l) = odExtend (odSet d e.1 e.2) l := rfl
    rw [h1, ih, odGet_odSet, lastVal_cons]
    cases lastVal l k with
    | some x => simp
    | none => by_cases h2 : e.1 = k <;> simp [h2]

/-- Last assignment wins. -/
theorem odGet_odFromList (l : List (α × β)) (k : α) : odGet (odFromList l) k = lastVal l k := by
  have := odGet_odExtend [] l k
  simpa [odGet] using this

theorem mem_odExtend (d l : List (α × β)) (e : α × β) (h : e ∈ odExtend d l) : e ∈ d ∨ e ∈ l := by
  induction l generalizing d with
  | nil => left; exact h
  | cons e' l ih =>
    have h1 : odExtend d (e' :: l) = odExtend (odSet d e'.1 e'.2) l := rfl
    rw [h1] at h
    rcases ih _ h with h | h
    · rcases mem_odSet _ _ _ _ h with h | h
      · left; exact h
      · right; rw [h]; exact List.mem_cons_self
    · right; exact List.mem_cons_of_mem _ h

theorem mem_odFromList (l : List (α × β)) (e : α × β) (h : e ∈ odFromList l) : e ∈ l := by
  rcases mem_odExtend [] l e h with h | h
  · cases h
  · exact h

theorem odExtend_of_nodup (d l : List (α × β)) (h : ((d ++ l).map (·.1)).Nodup) :
    odExtend d l = d ++ l := by
  induction l generalizing d with
  | nil => simp [odExtend]
  | cons e l ih =>
    have h1 : odExtend d (e :: l) = odExtend (odSet d e.1 e.2) l := rfl
    have hk : e.1 ∉ d.map (·.1) := by
      simp only [List.map_append, List.map_cons, List.nodup_append, List.mem_cons] at h
      intro hm
      exact h.2.2 _ hm _ (Or.inl rfl) rfl
    rw [h1, odSet_of_not_mem _ _ _ hk, ih]
    · simp
    · simpa using h

/-- Building a dict from pairs with distinct keys changes nothing. -/
theorem odFromList_of_nodup (l : List (α × β)) (h : (l.map (·.1)).Nodup) : odFromList l = l := by
  have := odExtend_of_nodup [] l (by simpa using h)
  simpa using this

theorem odExtend_append (d l₁ l₂ : List (α × β)) :
    odExtend d (l₁ ++ l₂) = odExtend (odExtend d l₁) l₂ := by
  simp [odExtend, List.foldl_append]

end OD

end PyCraft
