import PyCraft.Model.Versions
/-!
Helper definitions and lemmas for C08.

* specification functions (`dedup`, `odFromList`, `lastVal`, `specTables`) and the closed form of
  `initKnown`;
* lemmas about the index map and the order it induces.

The kernel-evaluation device used to check the model against the live data lives in
`Lemmas/VersionsCheck.lean`.
-/
namespace PyCraft

/-! ### Specification vocabulary -/

/-- Duplicate-free projection keeping FIRST occurrences, in order. -/
def dedup {α : Type} [DecidableEq α] : List α → List α
  | [] => []
  | x :: xs => x :: (dedup xs).filter (fun y => decide (y ≠ x))

/-- `OrderedDict(pairs)`: assign the pairs one after the other to an empty ordered dict. -/
def odFromList {α β : Type} [DecidableEq α] (l : List (α × β)) : List (α × β) :=
  l.foldl (fun d e => odSet d e.1 e.2) []

/-- The value of the LAST pair with key `k`. -/
def lastVal {α β : Type} [DecidableEq α] (l : List (α × β)) (k : α) : Option β :=
  (l.reverse.find? (fun e => decide (e.1 = k))).map (·.2)

/-- The accumulator form used by the loops: append `x` unless already present. -/
def dedupFrom {α : Type} [DecidableEq α] (acc : List α) (l : List α) : List α :=
  l.foldl (fun acc x => if x ∈ acc then acc else acc ++ [x]) acc

/-- Assign the pairs one after the other to the ordered dict `d`. -/
def odExtend {α β : Type} [DecidableEq α] (d : List (α × β)) (l : List (α × β)) : List (α × β) :=
  l.foldl (fun d e => odSet d e.1 e.2) d

/-- The `(id, protocol)` pairs of the records, in order. -/
def recPairs (recs : List Rec) : List (String × Nat) := recs.map fun r => (r.id, r.protocol)

/-- Closed form of the tables as projections of the record list. -/
def specTables (recs : List Rec) : Tables :=
  let kp := dedup (recs.map (·.protocol))
  let sv := odFromList (recPairs (recs.filter (·.supported)))
  let rv := sv.filter (fun e => isRelease e.1)
  { knownVersions := odFromList (recPairs recs)
    knownProtocols := kp
    supportedVersions := sv
    indices := kp.zipIdx
    supportedProtocols := dedup (sv.map (·.2))
    releaseVersions := rv
    releaseProtocols := dedup (rv.map (·.2)) }

/-! ### `dedup` -/

section Dedup
variable {α : Type} [DecidableEq α]

theorem mem_dedup (l : List α) (a : α) : a ∈ dedup l ↔ a ∈ l := by
  induction l with
  | nil => simp [dedup]
  | cons x xs ih =>
    simp only [dedup, List.mem_cons, List.mem_filter, ih, decide_eq_true_eq]
    by_cases h : a = x <;> simp [h]

theorem nodup_dedup (l : List α) : (dedup l).Nodup := by
  induction l with
  | nil => simp [dedup]
  | cons x xs ih =>
    simp only [dedup, List.nodup_cons, List.mem_filter, decide_eq_true_eq]
    exact ⟨fun h => h.2 rfl, ih.sublist List.filter_sublist⟩

theorem dedup_sublist (l : List α) : (dedup l).Sublist l := by
  induction l with
  | nil => simp [dedup]
  | cons x xs ih =>
    simp only [dedup]
    exact List.Sublist.cons_cons x (List.filter_sublist.trans ih)

theorem dedupFrom_eq (acc l : List α) :
    dedupFrom acc l = acc ++ (dedup l).filter (fun y => decide (y ∉ acc)) := by
  induction l generalizing acc with
  | nil => simp [dedupFrom, dedup]
  | cons x xs ih =>
    have hstep : dedupFrom acc (x :: xs) = dedupFrom (if x ∈ acc then acc else acc ++ [x]) xs := rfl
    rw [hstep]
    by_cases hx : x ∈ acc
    · rw [if_pos hx, ih]
      congr 1
      simp only [dedup, List.filter_cons, hx, not_true_eq_false, decide_false, Bool.false_eq_true,
        if_false, List.filter_filter]
      apply List.filter_congr
      intro y _
      by_cases hy : y ∈ acc
      · simp [hy]
      · have : y ≠ x := fun e => hy (e ▸ hx)
        simp [hy, this]
    · rw [if_neg hx, ih]
      simp only [dedup, List.filter_cons, hx, not_false_eq_true, decide_true, if_true,
        List.filter_filter, List.append_assoc, List.singleton_append]
      congr 2
      apply List.filter_congr
      intro y _
      simp [List.mem_append, not_or, Bool.and_comm]

theorem dedupFrom_nil (l : List α) : dedupFrom [] l = dedup l := by
  rw [dedupFrom_eq]; simp

theorem dedupFrom_append (acc l₁ l₂ : List α) :
    dedupFrom acc (l₁ ++ l₂) = dedupFrom (dedupFrom acc l₁) l₂ := by
  simp [dedupFrom, List.foldl_append]

/-- `dedup` of an extended list extends `dedup` of the original (chronology is append-only). -/
theorem dedup_append (l₁ l₂ : List α) :
    dedup (l₁ ++ l₂) = dedup l₁ ++ (dedup l₂).filter (fun y => decide (y ∉ dedup l₁)) := by
  rw [← dedupFrom_nil, dedupFrom_append, dedupFrom_nil, dedupFrom_eq]

theorem dedup_prefix_append (l₁ l₂ : List α) : dedup l₁ <+: dedup (l₁ ++ l₂) := by
  rw [dedup_append]; exact List.prefix_append _ _

theorem dedup_of_nodup (l : List α) (h : l.Nodup) : dedup l = l := by
  induction l with
  | nil => rfl
  | cons x xs ih =>
    rw [List.nodup_cons] at h
    simp only [dedup, ih h.2]
    congr 1
    rw [List.filter_eq_self]
    intro y hy
    simp only [decide_eq_true_eq]
    exact fun e => h.1 (e ▸ hy)

theorem idxOf_cons_ite (x : α) (xs : List α) (y : α) :
    (x :: xs).idxOf y = if x = y then 0 else xs.idxOf y + 1 := by
  rw [List.idxOf_cons]
  by_cases h : x = y
  · subst h; simp
  · have : (x == y) = false := beq_eq_false_iff_ne.2 h
    simp [this, h]

/-- Filtering keeps the relative position of the elements it keeps. -/
theorem idxOf_filter_lt (p : α → Bool) (l : List α) (a b : α) (ha : p a = true) (hb : p b = true) :
    (l.filter p).idxOf a < (l.filter p).idxOf b ↔ l.idxOf a < l.idxOf b := by
  induction l with
  | nil => simp
  | cons z zs ih =>
    by_cases hz : p z = true
    · rw [List.filter_cons_of_pos hz]
      simp only [idxOf_cons_ite]
      by_cases h1 : z = a <;> by_cases h2 : z = b
      · rw [if_pos h1, if_pos h2, if_pos h1, if_pos h2]
      · rw [if_pos h1, if_neg h2, if_pos h1, if_neg h2]; omega
      · rw [if_neg h1, if_pos h2, if_neg h1, if_pos h2]; omega
      · rw [if_neg h1, if_neg h2, if_neg h1, if_neg h2]; omega
    · rw [List.filter_cons_of_neg hz]
      have h1 : ¬ z = a := fun e => hz (e ▸ ha)
      have h2 : ¬ z = b := fun e => hz (e ▸ hb)
      simp only [idxOf_cons_ite]
      rw [if_neg h1, if_neg h2]
      omega

/-- First-occurrence order: `a` comes before `b` in `dedup l` exactly when the first occurrence of
`a` in `l` comes before the first occurrence of `b`. -/
theorem idxOf_dedup_lt (l : List α) (a b : α) :
    (dedup l).idxOf a < (dedup l).idxOf b ↔ l.idxOf a < l.idxOf b := by
  induction l with
  | nil => simp [dedup]
  | cons x xs ih =>
    simp only [dedup, idxOf_cons_ite]
    by_cases h1 : x = a <;> by_cases h2 : x = b
    · rw [if_pos h1, if_pos h2, if_pos h1, if_pos h2]
    · rw [if_pos h1, if_neg h2, if_pos h1, if_neg h2]; omega
    · rw [if_neg h1, if_pos h2, if_neg h1, if_pos h2]; omega
    · have ha : (fun y => decide (y ≠ x)) a = true := by simpa using fun e => h1 e.symm
      have hb : (fun y => decide (y ≠ x)) b = true := by simpa using fun e => h2 e.symm
      have := idxOf_filter_lt (fun y => decide (y ≠ x)) (dedup xs) a b ha hb
      rw [if_neg h1, if_neg h2, if_neg h1, if_neg h2]
      omega

end Dedup

/-! ### Ordered dicts -/

section OD
variable {α β : Type} [DecidableEq α]

theorem odSet_keys (d : List (α × β)) (k : α) (v : β) :
    (odSet d k v).map (·.1) = if k ∈ d.map (·.1) then d.map (·.1) else d.map (·.1) ++ [k] := by
  induction d with
  | nil => simp [odSet]
  | cons e d ih =>
    obtain ⟨k', v'⟩ := e
    by_cases h : k' = k
    · simp [odSet, h]
    · have h' : ¬ k = k' := fun e => h e.symm
      simp only [odSet, h, if_false, List.map_cons, ih, List.mem_cons, h', false_or]
      split <;> simp

theorem odSet_of_not_mem (d : List (α × β)) (k : α) (v : β) (h : k ∉ d.map (·.1)) :
    odSet d k v = d ++ [(k, v)] := by
  induction d with
  | nil => simp [odSet]
  | cons e d ih =>
    obtain ⟨k', v'⟩ := e
    simp only [List.map_cons, List.mem_cons, not_or] at h
    have h' : ¬ k' = k := fun e => h.1 e.symm
    simp [odSet, h', ih h.2]

theorem odGet_odSet (d : List (α × β)) (k k' : α) (v : β) :
    odGet (odSet d k v) k' = if k = k' then some v else odGet d k' := by
  induction d with
  | nil => simp [odSet, odGet]
  | cons e d ih =>
    obtain ⟨k₀, v₀⟩ := e
    by_cases h : k₀ = k
    · subst h; by_cases h2 : k₀ = k' <;> simp [odSet, odGet, h2]
    · by_cases h2 : k₀ = k'
      · subst h2
        have : ¬ k = k₀ := fun e => h e.symm
        simp [odSet, odGet, h, this]
      · simp [odSet, odGet, h, h2, ih]

theorem mem_odSet (d : List (α × β)) (k : α) (v : β) (e : α × β) (h : e ∈ odSet d k v) :
    e ∈ d ∨ e = (k, v) := by
  induction d with
  | nil => simpa [odSet] using h
  | cons e' d ih =>
    obtain ⟨k', v'⟩ := e'
    by_cases hk : k' = k
    · simp only [odSet, hk, if_true, List.mem_cons] at h
      rcases h with h | h
      · right; exact h
      · left; exact List.mem_cons_of_mem _ h
    · simp only [odSet, hk, if_false, List.mem_cons] at h
      rcases h with h | h
      · left; rw [h]; exact List.mem_cons_self
      · rcases ih h with h | h
        · left; exact List.mem_cons_of_mem _ h
        · right; exact h

theorem odGet_eq_none (d : List (α × β)) (k : α) : odGet d k = none ↔ k ∉ d.map (·.1) := by
  induction d with
  | nil => simp [odGet]
  | cons e d ih =>
    obtain ⟨k', v'⟩ := e
    by_cases h : k' = k
    · simp [odGet, h]
    · have h' : ¬ k = k' := fun e => h e.symm
      simp [odGet, h, h', ih]

/-- In a dict (distinct keys) the items are exactly the key/value associations. -/
theorem mem_iff_odGet (d : List (α × β)) (hd : (d.map (·.1)).Nodup) (k : α) (v : β) :
    (k, v) ∈ d ↔ odGet d k = some v := by
  induction d with
  | nil => simp [odGet]
  | cons e d ih =>
    obtain ⟨k', v'⟩ := e
    simp only [List.map_cons, List.nodup_cons] at hd
    by_cases h : k' = k
    · subst h
      have : ∀ v, (k', v) ∉ d := fun v hm => hd.1 (List.mem_map.2 ⟨_, hm, rfl⟩)
      simp [odGet, this, eq_comm]
    · have h' : ¬ k = k' := fun e => h e.symm
      simp [odGet, h, h', ih hd.2]

theorem odExtend_keys (d l : List (α × β)) :
    (odExtend d l).map (·.1) = dedupFrom (d.map (·.1)) (l.map (·.1)) := by
  induction l generalizing d with
  | nil => rfl
  | cons e l ih =>
    have h1 : odExtend d (e :: l) = odExtend (odSet d e.1 e.2) l := rfl
    have h2 : dedupFrom (d.map (·.1)) ((e :: l).map (·.1))
        = dedupFrom (if e.1 ∈ d.map (·.1) then d.map (·.1) else d.map (·.1) ++ [e.1])
            (l.map (·.1)) := rfl
    rw [h1, h2, ih, odSet_keys]

theorem odFromList_keys (l : List (α × β)) :
    (odFromList l).map (·.1) = dedup (l.map (·.1)) := by
  have := odExtend_keys [] l
  rw [List.map_nil, dedupFrom_nil] at this
  exact this

theorem odFromList_keys_nodup (l : List (α × β)) : ((odFromList l).map (·.1)).Nodup := by
  rw [odFromList_keys]; exact nodup_dedup _

theorem lastVal_cons (e : α × β) (l : List (α × β)) (k : α) :
    lastVal (e :: l) k = (lastVal l k).or (if e.1 = k then some e.2 else none) := by
  simp only [lastVal, List.reverse_cons, List.find?_append, List.find?_cons, List.find?_nil]
  cases h : List.find? (fun e => decide (e.1 = k)) l.reverse with
  | some x => simp
  | none => by_cases h2 : e.1 = k <;> simp [h2]

theorem odGet_odExtend (d l : List (α × β)) (k : α) :
    odGet (odExtend d l) k = (lastVal l k).or (odGet d k) := by
  induction l generalizing d with
  | nil => simp [odExtend, lastVal]
  | cons e l ih =>
    have h1 : odExtend d (e :: l) = odExtend (odSet d e.1 e.2) l := rfl
    rw [h1, ih, odGet_odSet, lastVal_cons]
    cases lastVal l k with
    | some x => simp
    | none => by_cases h2 : e.1 = k <;> simp [h2]

/-- Last assignment wins. -/
theorem odGet_odFromList (l : List (α × β)) (k : α) : odGet (odFromList l) k = lastVal l k := by
  have := odGet_odExtend [] l k
  simpa [odGet, odFromList, odExtend] using this

theorem mem_odExtend (d l : List (α × β)) (e : α × β) (h : e ∈ odExtend d l) : e ∈ d ∨ e ∈ l := by
  induction l generalizing d with
  | nil => left; exact h
  | cons e' l ih =>
    have h1 : odExtend d (e' :: l) = odExtend (odSet d e'.1 e'.2) l := rfl
    rw [h1] at h
    rcases ih _ h with h | h
    · rcases mem_odSet _ _ _ _ h with h | h
      · left; exact h
      · right; rw [h]; exact List.mem_cons_self
    · right; exact List.mem_cons_of_mem _ h

theorem mem_odFromList (l : List (α × β)) (e : α × β) (h : e ∈ odFromList l) : e ∈ l := by
  rcases mem_odExtend [] l e h with h | h
  · cases h
  · exact h

theorem odExtend_of_nodup (d l : List (α × β)) (h : ((d ++ l).map (·.1)).Nodup) :
    odExtend d l = d ++ l := by
  induction l generalizing d with
  | nil => simp [odExtend]
  | cons e l ih =>
    have h1 : odExtend d (e :: l) = odExtend (odSet d e.1 e.2) l := rfl
    have hk : e.1 ∉ d.map (·.1) := by
      simp only [List.map_append, List.map_cons, List.nodup_append, List.mem_cons] at h
      intro hm
      exact h.2.2 _ hm _ (Or.inl rfl) rfl
    rw [h1, odSet_of_not_mem _ _ _ hk, ih]
    · simp
    · simpa using h

/-- Building a dict from pairs with distinct keys changes nothing. -/
theorem odFromList_of_nodup (l : List (α × β)) (h : (l.map (·.1)).Nodup) : odFromList l = l := by
  have := odExtend_of_nodup [] l (by simpa using h)
  simpa [odFromList, odExtend] using this

theorem odExtend_append (d l₁ l₂ : List (α × β)) :
    odExtend d (l₁ ++ l₂) = odExtend (odExtend d l₁) l₂ := by
  simp [odExtend, List.foldl_append]

end OD

/-! ### The two loops of `initglobals` in closed form -/

theorem stepKnown_knownVersions (t : Tables) (r : Rec) :
    (stepKnown t r).knownVersions = odSet t.knownVersions r.id r.protocol := by
  unfold stepKnown; dsimp only; split <;> split <;> rfl

theorem stepKnown_knownProtocols (t : Tables) (r : Rec) :
    (stepKnown t r).knownProtocols
      = if r.protocol ∈ t.knownProtocols then t.knownProtocols
        else t.knownProtocols ++ [r.protocol] := by
  unfold stepKnown; dsimp only; split <;> split <;> rfl

theorem stepKnown_indices (t : Tables) (r : Rec) :
    (stepKnown t r).indices
      = if r.protocol ∈ t.knownProtocols then t.indices
        else odSet t.indices r.protocol t.knownProtocols.length := by
  unfold stepKnown; dsimp only; split <;> split <;> rfl

theorem stepKnown_supportedVersions (t : Tables) (r : Rec) :
    (stepKnown t r).supportedVersions
      = if r.supported then odSet t.supportedVersions r.id r.protocol
        else t.supportedVersions := by
  unfold stepKnown; dsimp only; split <;> split <;> simp_all

theorem stepKnown_rest (t : Tables) (r : Rec) :
    (stepKnown t r).supportedProtocols = t.supportedProtocols ∧
    (stepKnown t r).releaseVersions = t.releaseVersions ∧
    (stepKnown t r).releaseProtocols = t.releaseProtocols := by
  unfold stepKnown; dsimp only; split <;> split <;> exact ⟨rfl, rfl, rfl⟩

theorem zipIdx_keys {α : Type} (l : List α) (n : Nat) : (l.zipIdx n).map (·.1) = l := by
  induction l generalizing n with
  | nil => rfl
  | cons x xs ih => simp [ih]

theorem foldl_stepKnown (recs : List Rec) (t : Tables)
    (h : t.indices = t.knownProtocols.zipIdx) :
    recs.foldl stepKnown t =
      { knownVersions := odExtend t.knownVersions (recPairs recs)
        knownProtocols := dedupFrom t.knownProtocols (recs.map (·.protocol))
        supportedVersions := odExtend t.supportedVersions (recPairs (recs.filter (·.supported)))
        indices := (dedupFrom t.knownProtocols (recs.map (·.protocol))).zipIdx
        supportedProtocols := t.supportedProtocols
        releaseVersions := t.releaseVersions
        releaseProtocols := t.releaseProtocols } := by
  induction recs generalizing t with
  | nil =>
    obtain ⟨kv, kp, sv, idx, sp, rv, rp⟩ := t
    simp only at h
    simp [odExtend, dedupFrom, recPairs, h]
  | cons r rs ih =>
    have hinv : (stepKnown t r).indices = (stepKnown t r).knownProtocols.zipIdx := by
      rw [stepKnown_indices, stepKnown_knownProtocols]
      by_cases hp : r.protocol ∈ t.knownProtocols
      · rw [if_pos hp, if_pos hp, h]
      · rw [if_neg hp, if_neg hp, h, odSet_of_not_mem _ _ _ (by rwa [zipIdx_keys]),
          List.zipIdx_append]
        simp
    rw [List.foldl_cons, ih _ hinv, stepKnown_knownVersions, stepKnown_knownProtocols,
      stepKnown_supportedVersions, (stepKnown_rest t r).1, (stepKnown_rest t r).2.1,
      (stepKnown_rest t r).2.2]
    have e1 : odExtend (odSet t.knownVersions r.id r.protocol) (recPairs rs)
        = odExtend t.knownVersions (recPairs (r :: rs)) := rfl
    have e2 : dedupFrom (if r.protocol ∈ t.knownProtocols then t.knownProtocols
          else t.knownProtocols ++ [r.protocol]) (rs.map (·.protocol))
        = dedupFrom t.knownProtocols ((r :: rs).map (·.protocol)) := rfl
    have e3 : odExtend (if r.supported then odSet t.supportedVersions r.id r.protocol
          else t.supportedVersions) (recPairs (rs.filter (·.supported)))
        = odExtend t.supportedVersions (recPairs ((r :: rs).filter (·.supported))) := by
      by_cases hs : r.supported = true
      · rw [if_pos hs, List.filter_cons_of_pos hs]; rfl
      · rw [if_neg hs, List.filter_cons_of_neg hs]
    rw [e1, e2, e3]

theorem stepSupported_fields (t : Tables) (e : String × Nat) :
    (stepSupported t e).knownVersions = t.knownVersions ∧
    (stepSupported t e).knownProtocols = t.knownProtocols ∧
    (stepSupported t e).supportedVersions = t.supportedVersions ∧
    (stepSupported t e).indices = t.indices ∧
    (stepSupported t e).supportedProtocols
      = (if e.2 ∈ t.supportedProtocols then t.supportedProtocols
         else t.supportedProtocols ++ [e.2]) ∧
    (stepSupported t e).releaseVersions
      = (if isRelease e.1 then odSet t.releaseVersions e.1 e.2 else t.releaseVersions) ∧
    (stepSupported t e).releaseProtocols
      = (if isRelease e.1 then
          (if e.2 ∈ t.releaseProtocols then t.releaseProtocols else t.releaseProtocols ++ [e.2])
         else t.releaseProtocols) := by
  unfold stepSupported; dsimp only
  split <;> split <;> (try split) <;> simp_all

theorem foldl_stepSupported (l : List (String × Nat)) (t : Tables) :
    l.foldl stepSupported t =
      { knownVersions := t.knownVersions
        knownProtocols := t.knownProtocols
        supportedVersions := t.supportedVersions
        indices := t.indices
        supportedProtocols := dedupFrom t.supportedProtocols (l.map (·.2))
        releaseVersions := odExtend t.releaseVersions (l.filter (fun e => isRelease e.1))
        releaseProtocols :=
          dedupFrom t.releaseProtocols ((l.filter (fun e => isRelease e.1)).map (·.2)) } := by
  induction l generalizing t with
  | nil => rfl
  | cons e l ih =>
    obtain ⟨f1, f2, f3, f4, f5, f6, f7⟩ := stepSupported_fields t e
    rw [List.foldl_cons, ih, f1, f2, f3, f4, f5, f6, f7]
    have e5 : dedupFrom (if e.2 ∈ t.supportedProtocols then t.supportedProtocols
          else t.supportedProtocols ++ [e.2]) (l.map (·.2))
        = dedupFrom t.supportedProtocols ((e :: l).map (·.2)) := rfl
    rw [e5]
    by_cases hr : isRelease e.1 = true
    · rw [if_pos hr, if_pos hr, List.filter_cons_of_pos (by simpa using hr)]; rfl
    · rw [if_neg hr, if_neg hr, List.filter_cons_of_neg (by simpa using hr)]

/-- The second half of `initglobals` in closed form: the three release/supported tables are
functions of `supportedVersions` only; the other four tables are untouched. -/
theorem rebuildSupported_eq (t : Tables) :
    rebuildSupported t =
      { knownVersions := t.knownVersions
        knownProtocols := t.knownProtocols
        supportedVersions := t.supportedVersions
        indices := t.indices
        supportedProtocols := dedup (t.supportedVersions.map (·.2))
        releaseVersions := odFromList (t.supportedVersions.filter (fun e => isRelease e.1))
        releaseProtocols :=
          dedup ((t.supportedVersions.filter (fun e => isRelease e.1)).map (·.2)) } := by
  unfold rebuildSupported
  rw [foldl_stepSupported]
  simp only [dedupFrom_nil]
  rfl

theorem filter_keys_nodup {α β : Type} (l : List (α × β)) (p : α × β → Bool)
    (h : (l.map (·.1)).Nodup) : ((l.filter p).map (·.1)).Nodup :=
  h.sublist (List.filter_sublist.map _)

/-- `initglobals(True)` does not depend on the previous state of the globals and equals the closed
form. -/
theorem initKnownFrom_eq_spec (prev : Tables) (recs : List Rec) :
    initKnownFrom prev recs = specTables recs := by
  unfold initKnownFrom
  rw [foldl_stepKnown _ _ rfl, rebuildSupported_eq]
  simp only [dedupFrom_nil, specTables]
  have hk : odExtend [] (recPairs (recs.filter (·.supported)))
      = odFromList (recPairs (recs.filter (·.supported))) := rfl
  have hk2 : odExtend [] (recPairs recs) = odFromList (recPairs recs) := rfl
  rw [hk, hk2, odFromList_of_nodup _ (filter_keys_nodup _ _ (odFromList_keys_nodup _))]

theorem initKnown_eq_spec (recs : List Rec) : initKnown recs = specTables recs :=
  initKnownFrom_eq_spec _ _

/-! ### The index map -/

theorem odGet_zipIdx (l : List Nat) (n pv : Nat) :
    odGet (l.zipIdx n) pv = if pv ∈ l then some (n + l.idxOf pv) else none := by
  induction l generalizing n with
  | nil => simp [odGet]
  | cons x xs ih =>
    rw [List.zipIdx_cons, odGet, ih, idxOf_cons_ite]
    by_cases h : x = pv
    · simp [h]
    · have h' : ¬ pv = x := fun e => h e.symm
      simp only [h, if_false, List.mem_cons, h', false_or]
      split
      · congr 1; omega
      · rfl

theorem index_spec (recs : List Rec) (pv : Nat) :
    index (initKnown recs) pv
      = if pv ∈ (initKnown recs).knownProtocols
        then some ((initKnown recs).knownProtocols.idxOf pv) else none := by
  rw [initKnown_eq_spec]
  simp only [index, specTables, odGet_zipIdx, Nat.zero_add]
  split <;> simp_all

theorem getElem?_eq_some_iff_idxOf (l : List Nat) (hl : l.Nodup) (i pv : Nat) :
    l[i]? = some pv ↔ pv ∈ l ∧ l.idxOf pv = i := by
  induction l generalizing i with
  | nil => simp
  | cons x xs ih =>
    rw [List.nodup_cons] at hl
    rw [idxOf_cons_ite]
    cases i with
    | zero =>
      by_cases h : x = pv
      · simp [h]
      · have h' : ¬ pv = x := fun e => h e.symm
        simp [h, h']
    | succ i =>
      rw [List.getElem?_cons_succ, ih hl.2]
      by_cases h : x = pv
      · subst h; simp [hl.1]
      · have h' : ¬ pv = x := fun e => h e.symm
        simp [h, h']

theorem idxOf_getElem_of_nodup (l : List Nat) (hl : l.Nodup) (i : Nat) (hi : i < l.length) :
    l.idxOf l[i] = i :=
  ((getElem?_eq_some_iff_idxOf l hl i l[i]).1 (List.getElem?_eq_getElem hi)).2

theorem knownProtocols_nodup (recs : List Rec) : (initKnown recs).knownProtocols.Nodup := by
  rw [initKnown_eq_spec]; exact nodup_dedup _

theorem indexE_known (recs : List Rec) (pv : Nat) (h : pv ∈ (initKnown recs).knownProtocols) :
    indexE (initKnown recs) pv = .ok ((initKnown recs).knownProtocols.idxOf pv) := by
  simp only [indexE, index_spec, h, if_true]

theorem indexE_unknown (recs : List Rec) (pv : Nat) (h : pv ∉ (initKnown recs).knownProtocols) :
    indexE (initKnown recs) pv = .error .other := by
  simp only [indexE, index_spec, h, if_false]

/-! ### The comparison functions in terms of `indexE` -/

theorem earlier_ok (t : Tables) (a b i j : Nat) (ha : indexE t a = .ok i) (hb : indexE t b = .ok j) :
    earlier t a b = .ok (decide (i < j)) := by
  simp only [earlier, ha, hb]; rfl

theorem earlierEq_ok (t : Tables) (a b i j : Nat) (ha : indexE t a = .ok i)
    (hb : indexE t b = .ok j) : earlierEq t a b = .ok (decide (i ≤ j)) := by
  simp only [earlierEq, ha, hb]; rfl

theorem indexE_cases (t : Tables) (a : Nat) :
    (∃ i, indexE t a = .ok i) ∨ indexE t a = .error .other := by
  unfold indexE; cases index t a with
  | some i => exact Or.inl ⟨i, rfl⟩
  | none => exact Or.inr rfl

theorem earlier_err_left (t : Tables) (a b : Nat) (ha : indexE t a = .error .other) :
    earlier t a b = .error .other ∧ earlierEq t a b = .error .other := by
  simp only [earlier, earlierEq, ha]; exact ⟨rfl, rfl⟩

theorem earlier_err_right (t : Tables) (a b : Nat) (hb : indexE t b = .error .other) :
    earlier t a b = .error .other ∧ earlierEq t a b = .error .other := by
  rcases indexE_cases t a with ⟨i, ha⟩ | ha
  · simp only [earlier, earlierEq, ha, hb]; exact ⟨rfl, rfl⟩
  · exact earlier_err_left t a b ha

end PyCraft
