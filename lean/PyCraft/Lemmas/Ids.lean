import PyCraft.Model.Ids
namespace PyCraft

theorem dupIds_nil_of_nodup : ∀ (ents : List IdEnt), (ents.map (·.2)).Nodup → dupIds ents = []
  | [], _ => rfl
  | e :: rest, h => by
    simp only [List.map_cons, List.nodup_cons] at h
    have : rest.any (fun f => f.2 == e.2) = false := by
      rw [List.any_eq_false]
      intro f hf hfe
      have : f.2 = e.2 := by simpa using hfe
      exact h.1 (this ▸ List.mem_map_of_mem hf)
    simp [dupIds, this, dupIds_nil_of_nodup rest h.2]

theorem nodup_of_dupIds_nil : ∀ (ents : List IdEnt), dupIds ents = [] → (ents.map (·.2)).Nodup
  | [], _ => by simp
  | e :: rest, h => by
    simp only [dupIds, List.append_eq_nil_iff] at h
    have hrest := nodup_of_dupIds_nil rest h.2
    simp only [List.map_cons, List.nodup_cons]
    refine ⟨?_, hrest⟩
    intro hmem
    obtain ⟨f, hf, hfe⟩ := List.mem_map.mp hmem
    have : rest.any (fun f => f.2 == e.2) = true := by
      rw [List.any_eq_true]; exact ⟨f, hf, by simp [hfe]⟩
    simp [this] at h

theorem find_filter_ne (k i : Int) (hki : k ≠ i) : ∀ (d : List (Int × String)),
    (d.filter (fun kv => decide (kv.1 ≠ k))).find? (fun x => x.1 == i) = d.find? (fun x => x.1 == i)
  | [] => rfl
  | kv :: d => by
    have ih := find_filter_ne k i hki d
    by_cases hk : kv.1 = k
    · have h1 : (kv.1 == i) = false := by
        have : kv.1 ≠ i := hk ▸ hki
        simpa using this
      rw [List.filter_cons_of_neg (by simp [hk]), List.find?_cons_of_neg (by simp [h1])]
      exact ih
    · rw [List.filter_cons_of_pos (by simp [hk])]
      cases h : (kv.1 == i)
      · rw [List.find?_cons_of_neg (by simp [h]), List.find?_cons_of_neg (by simp [h])]; exact ih
      · rw [List.find?_cons_of_pos (by simp [h]), List.find?_cons_of_pos (by simp [h])]

/-- invariant of the comprehension's fold: content = last occurrence wins -/
theorem dictGet_buildDict_aux (ents : List (String × Int)) :
    ∀ (d : List (Int × String)) (i : Int),
      dictGet (ents.foldl (fun d e => (e.2, e.1) :: d.filter (fun kv => kv.1 ≠ e.2)) d) i =
        match (ents.reverse.find? (·.2 == i)) with
        | some e => some e.1
        | none => dictGet d i := by
  induction ents with
  | nil => intro d i; simp
  | cons e rest ih =>
    intro d i
    simp only [List.foldl_cons, List.reverse_cons]
    rw [ih]
    rw [List.find?_append]
    cases h : rest.reverse.find? (·.2 == i) with
    | some f => simp
    | none =>
      simp only [Option.none_or, List.find?_cons, List.find?_nil]
      by_cases hi : e.2 = i
      · simp [dictGet, hi]
      · have : (e.2 == i) = false := by simpa using hi
        simp only [this, dictGet, List.find?_cons]
        rw [find_filter_ne e.2 i hi]

end PyCraft

namespace PyCraft

theorem find_of_mem_nodup : ∀ (l : List (String × Int)) (c : String) (i : Int),
    (c, i) ∈ l → (l.map (·.2)).Nodup → l.find? (fun e => e.2 == i) = some (c, i)
  | [], _, _, h, _ => by simp at h
  | e :: rest, c, i, h, hn => by
    simp only [List.map_cons, List.nodup_cons] at hn
    rcases List.mem_cons.mp h with h | h
    · subst h; simp
    · have hne : e.2 ≠ i := by
        intro he
        exact hn.1 (he ▸ List.mem_map_of_mem (f := fun (e : String × Int) => e.2) h)
      rw [List.find?_cons_of_neg (by simpa using hne)]
      exact find_of_mem_nodup rest c i h hn.2

theorem dictGet_buildDict (l : List (String × Int)) (i : Int) :
    dictGet (buildDict l) i = (l.reverse.find? (fun e => e.2 == i)).map (·.1) := by
  have := dictGet_buildDict_aux l [] i
  unfold buildDict
  rw [this]
  cases l.reverse.find? (fun e => e.2 == i) <;> simp [dictGet]

end PyCraft
