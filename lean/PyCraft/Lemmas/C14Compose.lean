import PyCraft.Model.C14Compose
import PyCraft.Lemmas.Handlers
/-!
Specification vocabulary and helper lemmas for `Props/C14Compose.lean`, sequential part
(`Model/C14Compose.lean`, namespace `ExcFlow`): the connection attributes under API calls, the
dispatch of one packet against its specification, the shape of the thread log, and the projection
of the stateful `_handle_exception` onto the pure C14 model.
-/
namespace PyCraft.ExcFlow
open PyCraft
set_option linter.unusedSimpArgs false

/-! ## The connection attributes under `disconnect()` / `connect()` -/

/-- An uninterrupted `new_networking_thread` owns the open socket of the latest `_connect()`. -/
def Conn.FreshNew (c : Conn) : Prop :=
  c.new = some false → (∃ k, c.sock = some k ∧ k + 1 = c.conns) ∧ c.connected = true

/-- The step relation "some API calls happened". -/
structure Conn.Le (c c' : Conn) : Prop where
  slot : c.nt.isSome → c'.nt.isSome
  intr : c.nt = some true → c'.nt = some true
  conns : c.conns ≤ c'.conns
  closed : ∃ more, c'.closed = c.closed ++ more
  fresh : c.FreshNew → c'.FreshNew
  /-- nothing connected: the only possible change is a disconnect -/
  same : c'.conns = c.conns → c'.new = c.new ∨ (c.new.isSome ∧ c'.new = some true)
  noNew : c'.conns = c.conns → c.new = none → c'.new = none
  /-- nothing connected: the socket is still the same one, or it has been closed -/
  sockKept : c'.conns = c.conns → ∀ k, c.sock = some k → c'.sock = some k ∨ k ∈ c'.closed

theorem Conn.Le.refl (c : Conn) : c.Le c :=
  ⟨id, id, Nat.le_refl _, ⟨[], by simp⟩, id, fun _ => .inl rfl, fun _ h => h,
    fun _ _ h => .inl h⟩

theorem Conn.Le.trans {a b c : Conn} (h1 : a.Le b) (h2 : b.Le c) : a.Le c := by
  refine ⟨fun h => h2.slot (h1.slot h), fun h => h2.intr (h1.intr h),
    Nat.le_trans h1.conns h2.conns, ?_, fun h => h2.fresh (h1.fresh h), ?_, ?_, ?_⟩
  · obtain ⟨m1, e1⟩ := h1.closed
    obtain ⟨m2, e2⟩ := h2.closed
    exact ⟨m1 ++ m2, by rw [e2, e1, List.append_assoc]⟩
  · intro he
    have hc1 := h1.conns
    have hc2 := h2.conns
    have e1 : b.conns = a.conns := by omega
    have e2 : c.conns = b.conns := by omega
    rcases h1.same e1 with h | ⟨h, h'⟩
    · rcases h2.same e2 with g | ⟨g, g'⟩
      · exact .inl (g.trans h)
      · exact .inr ⟨by rw [← h]; exact g, g'⟩
    · rcases h2.same e2 with g | ⟨g, g'⟩
      · exact .inr ⟨h, g.trans h'⟩
      · exact .inr ⟨h, g'⟩
  · intro he hn
    have hc1 := h1.conns
    have hc2 := h2.conns
    exact h2.noNew (by omega) (h1.noNew (by omega) hn)
  · intro he k hk
    have hc1 := h1.conns
    have hc2 := h2.conns
    rcases h1.sockKept (by omega) k hk with h | h
    · exact h2.sockKept (by omega) k h
    · obtain ⟨m, hm⟩ := h2.closed
      right; rw [hm]; exact List.mem_append_left _ h

theorem disconnect_le (c : Conn) : c.Le c.disconnect := by
  rcases c with ⟨nt, new, sock, connected, conns, closed⟩
  cases nt <;> cases new <;> cases sock <;>
    refine ⟨?_, ?_, ?_, ?_, ?_, ?_, ?_, ?_⟩ <;>
    simp [Conn.disconnect, Conn.FreshNew]

theorem connect_le (c c' : Conn) (h : c.connect = some c') : c.Le c' := by
  rcases c with ⟨nt, new, sock, connected, conns, closed⟩
  unfold Conn.connect at h
  split at h
  · cases h
  · next hb =>
    cases nt <;> cases new <;> simp [Conn.busy] at hb <;>
      simp only [Option.some.injEq] at h <;> subst h <;>
      refine ⟨?_, ?_, ?_, ?_, ?_, ?_, ?_, ?_⟩ <;>
      simp [Conn.FreshNew]

theorem runActs_le (inv : Exc) (acts : List Act) :
    ∀ c : Conn, c.Le (runActs inv acts c).1 := by
  induction acts with
  | nil => intro c; exact Conn.Le.refl c
  | cons a acts ih =>
    intro c
    cases a with
    | disconnect => exact (disconnect_le c).trans (ih _)
    | connect =>
      simp only [runActs]
      cases hc : c.connect with
      | none => exact Conn.Le.refl c
      | some c' => exact (connect_le c c' hc).trans (ih _)

/-- `disconnect()`: the socket is gone and closed, `connected` is false, the flag of the selected
thread is set, nothing else changes. -/
theorem disconnect_spec (c : Conn) :
    c.disconnect.sock = none ∧ c.disconnect.connected = false ∧
    (∀ k, c.sock = some k → k ∈ c.disconnect.closed) ∧ c.disconnect.conns = c.conns ∧
    (c.new.isSome → c.disconnect.new = some true ∧ c.disconnect.nt = c.nt) ∧
    (c.new = none → c.disconnect.new = none ∧ c.disconnect.nt = c.nt.map fun _ => true) := by
  rcases c with ⟨nt, new, sock, connected, conns, closed⟩
  cases nt <;> cases new <;> cases sock <;> simp [Conn.disconnect]

/-- The only API error is `InvalidState`. -/
theorem runActs_err (inv : Exc) (acts : List Act) :
    ∀ (c : Conn) x, (runActs inv acts c).2 = some x → x = inv := by
  induction acts with
  | nil => intro c x h; simp [runActs] at h
  | cons a acts ih =>
    intro c x h
    cases a with
    | disconnect => exact ih _ _ h
    | connect =>
      simp only [runActs] at h
      cases hc : c.connect with
      | none => simp [hc] at h; exact h.symm
      | some c' => simp only [hc] at h; exact ih _ _ h

/-- Callbacks that never call `connect()` cannot fail and cannot start a connection. -/
theorem runActs_noConnect (inv : Exc) (acts : List Act) (h : Act.connect ∉ acts) :
    ∀ c, (runActs inv acts c).2 = none ∧ (runActs inv acts c).1.conns = c.conns := by
  induction acts with
  | nil => intro c; simp [runActs]
  | cons a acts ih =>
    intro c
    cases a with
    | connect => simp at h
    | disconnect =>
      have := ih (by simpa using h) c.disconnect
      refine ⟨this.1, this.2.trans ?_⟩
      rcases c with ⟨nt, new, sock, connected, conns, closed⟩
      cases nt <;> cases new <;> cases sock <;> simp [Conn.disconnect]

/-- `connect()` succeeds exactly when `_check_connection` passes, installs the next socket and
creates a new uninterrupted thread (as successor when the slot is occupied). -/
theorem connect_spec (c : Conn) :
    (c.connect = none ↔ c.busy = true) ∧
    (∀ c', c.connect = some c' →
      c'.sock = some c.conns ∧ c'.connected = true ∧ c'.conns = c.conns + 1 ∧
      c'.closed = c.closed ∧
      (c.nt = none → c'.nt = some false ∧ c'.new = none) ∧
      (c.nt.isSome → c'.nt = c.nt ∧ c'.new = some false)) := by
  rcases c with ⟨nt, new, sock, connected, conns, closed⟩
  cases nt with
  | none => cases new <;> simp [Conn.connect, Conn.busy] <;> intro c' h <;> subst h <;> simp
  | some b =>
    cases b <;> cases new <;> simp [Conn.connect, Conn.busy] <;> intro c' h <;> subst h <;> simp

/-- In the exception path (own flag set) with no successor yet, a callback's first `connect()`
succeeds, whatever `disconnect()` calls precede it. -/
theorem first_connect_ok (inv : Exc) (pre : List Act) (hpre : Act.connect ∉ pre) (c : Conn)
    (hnt : c.nt = some true) (hnew : c.new = none) :
    (runActs inv (pre ++ [.connect]) c).2 = none ∧
    (runActs inv (pre ++ [.connect]) c).1.new = some false ∧
    (runActs inv (pre ++ [.connect]) c).1.conns = c.conns + 1 := by
  induction pre generalizing c with
  | nil =>
    rcases c with ⟨nt, new, sock, connected, conns, closed⟩
    simp only at hnt hnew
    subst hnt hnew
    simp [runActs, Conn.connect, Conn.busy]
  | cons a pre ih =>
    cases a with
    | connect => simp at hpre
    | disconnect =>
      have hd : c.disconnect.nt = some true ∧ c.disconnect.new = none ∧
          c.disconnect.conns = c.conns := by
        rcases c with ⟨nt, new, sock, connected, conns, closed⟩
        simp only at hnt hnew
        subst hnt hnew
        cases sock <;> simp [Conn.disconnect]
      have := ih (by simpa using hpre) c.disconnect hd.1 hd.2.1
      simpa [runActs, hd.2.2] using this

/-! ## One packet: `_react` against its specification -/

/-- A listener matches a packet class iff one of its types is the class or a superclass. -/
def XListener.matches (hier : Hier) (l : XListener) (cls : Nat) : Bool :=
  l.types.any (fun t => isSub hier cls t)

/-- The matching listeners of one stage, in registration order, as call events. -/
def stageX (hier : Hier) (tag : Nat → Ev) (cls : Nat) (ls : List XListener) : List DEv :=
  (ls.filter (fun l => l.matches hier cls)).map (fun l => ⟨tag l.id, l.disc, l.out⟩)

/-- Documented call sequence for an incoming packet before truncation. -/
def stagesX (hier : Hier) (early ordinary : List XListener) (rx : PCb) (cls : Nat) : List DEv :=
  stageX hier Ev.early cls early ++ [⟨Ev.reaction, rx.disc, rx.out⟩] ++
    stageX hier Ev.ordinary cls ordinary

/-- A call that did not return normally. -/
def DEv.notOk (ev : DEv) : Bool := !ev.out.isOk

/-- How the dispatch ends, given the first call that did not return normally. -/
def classify : Option DEv → RRes
  | none => .done
  | some ev =>
    match ev.out with
    | .ok => .done
    | .ignore => .ignored
    | .raises e => .escaped e

/-- The `disconnect()` calls made by the callbacks of a log, applied in order. -/
def applyDiscs (c : Conn) (log : List DEv) : Conn :=
  log.foldl (fun c ev => if ev.disc then c.disconnect else c) c

theorem invoked_eq (hier : Hier) (l : XListener) (cls : Nat) :
    l.invoked hier cls = l.matches hier cls := by
  simp only [XListener.invoked, callPacketLoop_eq, XListener.matches]
  split <;> simp_all

theorem runListenersX_eq (hier : Hier) (tag : Nat → Ev) (cls : Nat) (ls : List XListener) :
    ∀ c, runListenersX hier tag cls ls c =
      (cutAfterFirst DEv.notOk (stageX hier tag cls ls),
       applyDiscs c (cutAfterFirst DEv.notOk (stageX hier tag cls ls)),
       classify ((stageX hier tag cls ls).find? DEv.notOk)) := by
  induction ls with
  | nil => intro c; simp [runListenersX, stageX, cutAfterFirst_nil, applyDiscs, classify]
  | cons l ls ih =>
    intro c
    simp only [runListenersX, invoked_eq]
    by_cases hm : l.matches hier cls = true
    · have hs : stageX hier tag cls (l :: ls) =
          ⟨tag l.id, l.disc, l.out⟩ :: stageX hier tag cls ls := by
        simp [stageX, hm]
      rw [hs]
      cases ho : l.out with
      | ok =>
        simp only [hm, ↓reduceIte, ih, cutAfterFirst_cons, DEv.notOk, LOut.isOk,
          Bool.not_true, Bool.false_eq_true, List.find?_cons]
        simp [applyDiscs]
      | ignore =>
        simp [hm, cutAfterFirst_cons, DEv.notOk, LOut.isOk, applyDiscs, classify]
      | raises e =>
        simp [hm, cutAfterFirst_cons, DEv.notOk, LOut.isOk, applyDiscs, classify]
    · simp only [Bool.not_eq_true] at hm
      have hs : stageX hier tag cls (l :: ls) = stageX hier tag cls ls := by
        simp [stageX, hm]
      rw [hs]
      simp [hm, ih]

theorem applyDiscs_append (c : Conn) (a b : List DEv) :
    applyDiscs c (a ++ b) = applyDiscs (applyDiscs c a) b := by
  simp [applyDiscs, List.foldl_append]

theorem find_none_of_not_any {α : Type} (p : α → Bool) (a : List α) (h : a.any p = false) :
    a.find? p = none := by
  simp only [List.find?_eq_none]
  intro x hx hp
  have : a.any p = true := List.any_eq_true.mpr ⟨x, hx, hp⟩
  rw [h] at this; cases this

theorem classify_find_done (a : List DEv) (h : classify (a.find? DEv.notOk) = .done) :
    a.any DEv.notOk = false := by
  cases hf : a.find? DEv.notOk with
  | none =>
    rw [Bool.eq_false_iff]
    intro hany
    obtain ⟨x, hx, hp⟩ := List.any_eq_true.mp hany
    exact absurd hp (by simpa using List.find?_eq_none.mp hf x hx)
  | some ev =>
    have hp := List.find?_some hf
    rw [hf] at h
    simp only [DEv.notOk] at hp
    cases ho : ev.out <;> simp_all [classify, LOut.isOk]

theorem classify_find_ne_done (a : List DEv) (h : classify (a.find? DEv.notOk) ≠ .done) :
    a.any DEv.notOk = true := by
  cases hany : a.any DEv.notOk with
  | true => rfl
  | false => rw [find_none_of_not_any _ _ hany] at h; exact absurd rfl h

/-- `_react` computes: the documented sequence of matching callbacks, cut just after the first
one that does not return normally; the outcome is decided by that callback. -/
theorem reactX_eq (hier : Hier) (early ordinary : List XListener) (rx : PCb) (cls : Nat)
    (c : Conn) :
    reactX hier early ordinary rx cls c =
      (cutAfterFirst DEv.notOk (stagesX hier early ordinary rx cls),
       applyDiscs c (cutAfterFirst DEv.notOk (stagesX hier early ordinary rx cls)),
       classify ((stagesX hier early ordinary rx cls).find? DEv.notOk)) := by
  unfold reactX
  simp only [runListenersX_eq]
  generalize hA : stageX hier Ev.early cls early = A
  generalize hB : stageX hier Ev.ordinary cls ordinary = B
  have hst : stagesX hier early ordinary rx cls = A ++ [⟨Ev.reaction, rx.disc, rx.out⟩] ++ B := by
    simp [stagesX, hA, hB]
  rw [hst]
  cases hcl : classify (A.find? DEv.notOk) with
  | done =>
    have hA0 := classify_find_done A hcl
    have hfA := find_none_of_not_any _ _ hA0
    have hcA := cutAfterFirst_of_not_any _ _ hA0
    simp only [List.append_assoc, cutAfterFirst_append, hA0, Bool.false_eq_true, ↓reduceIte,
      List.find?_append, hfA, Option.none_or, hcA]
    cases ho : rx.out with
    | ok =>
      simp [cutAfterFirst_cons, DEv.notOk, ho, LOut.isOk, applyDiscs_append, applyDiscs]
    | ignore =>
      simp [cutAfterFirst_cons, DEv.notOk, ho, LOut.isOk, applyDiscs_append, applyDiscs, classify]
    | raises e =>
      simp [cutAfterFirst_cons, DEv.notOk, ho, LOut.isOk, applyDiscs_append, applyDiscs, classify]
  | ignored =>
    have hA1 := classify_find_ne_done A (by rw [hcl]; simp)
    obtain ⟨x, hx⟩ : ∃ x, A.find? DEv.notOk = some x := by
      cases hf : A.find? DEv.notOk with
      | none => rw [hf] at hcl; simp [classify] at hcl
      | some x => exact ⟨x, rfl⟩
    rw [hx] at hcl
    simp only [List.append_assoc, cutAfterFirst_append, hA1, ↓reduceIte, List.find?_append, hx,
      Option.some_or, hcl]
  | escaped e =>
    have hA1 := classify_find_ne_done A (by rw [hcl]; simp)
    obtain ⟨x, hx⟩ : ∃ x, A.find? DEv.notOk = some x := by
      cases hf : A.find? DEv.notOk with
      | none => rw [hf] at hcl; simp [classify] at hcl
      | some x => exact ⟨x, rfl⟩
    rw [hx] at hcl
    simp only [List.append_assoc, cutAfterFirst_append, hA1, ↓reduceIte, List.find?_append, hx,
      Option.some_or, hcl]

end PyCraft.ExcFlow
