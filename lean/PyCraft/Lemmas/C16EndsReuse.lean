import PyCraft.Lemmas.Lifecycle
import PyCraft.Lemmas.LifecycleFairLive
/-!
Helper lemmas for `Props/C16Ends.lean`, part 2 (audit rank 7), all about `Model/Lifecycle.lean`:
the invariant "a thread that has left its read/write loop, or has run its own reaction to a
disconnect packet, is interrupted" (`OInv`), the notion of an ended connection (`Ended`) and its
preservation, and "ended ⇒ not busy, now or after the pending hand-over".
-/
namespace PyCraft.Ends
open PyCraft PyCraft.Life
set_option linter.unusedSimpArgs false

/-- The sites whose API call is `connect()`. -/
def siteReconnects : Site → Bool
  | .react => false
  | .listen => true
  | .handler => true

/-- Program counters at which the thread's OWN `interrupt` flag is necessarily set:
* after its own reaction to a disconnect packet (`callRel react`) and in the listeners that run
  after it (`call listen`, `callRel listen`);
* after leaving the loop normally (`exit` = `_handle_exit`; the loop condition is
  `not self.interrupt`);
* after `except Exception as e: self.interrupt = True` (`hRun`, the handlers `call handler`,
  `callRel handler`, `hChk`, `hRel`) — NOT at `exc` itself, which is the action that sets the flag;
* in and after the `finally` block. -/
def over : NPc → Bool
  | .call site => siteReconnects site
  | .callRel _ _ | .exit | .hRun | .hChk | .hRel | .epilogue | .epRel | .fin | .dead => true
  | .unborn | .waitPrev | .takeOver | .tkRel | .loopChk | .wBody | .wRel | .wFailRel | .rChk
  | .rRead | .exc => false

theorem siteReconnects_eq (site : Site) : siteReconnects site = site.op.isConn := by
  cases site <;> rfl

def OInv (s : Sys) : Prop := ∀ i, over (s.net i).pc = true → (s.net i).intr = true

theorem inv_over (env : List Beh) (s s' : Sys) (t : Tid) (h : LInv s) (ho : OInv s)
    (hs : step env s t = some s') : OInv s' := by
  have h3 := h.born
  have h4 := h.nt_iff
  have h5 := h.new_iff
  have h7 := h.prev_ok
  have ho' : ∀ i, over (s.net i).pc = true → (s.net i).intr = true := ho
  unfold OInv
  step_cases hs
  all_goals
    intro j; have hoj := ho' j
    simp only [refusedSt, directSt, succSt, discSt] at *
  all_goals grind [updN, dnet, over, siteReconnects, siteReconnects_eq, Site.op, Op.isConn, NPc.holds, NPc.waiting, target]

theorem init_over (progs : List (List Op)) (rl rh : Nat) : OInv (init progs rl rh) := by
  intro i h; simp [init, over] at h

theorem run_over (env : List Beh) : ∀ (sched : List Tid) (s : Sys), LInv s → OInv s →
    OInv (run env s sched) := by
  intro sched
  induction sched with
  | nil => intro s _ ho; exact ho
  | cons t ts ih =>
    intro s h ho
    simp only [run]
    cases hst : step env s t with
    | none => exact ih s h ho
    | some s' => exact ih s' (step_inv env s s' t h hst) (inv_over env s s' t h ho hst)

theorem reach_over (env : List Beh) (progs : List (List Op)) (rl rh : Nat) (sched : List Tid) :
    OInv (run env (init progs rl rh) sched) :=
  run_over env sched _ (init_inv progs rl rh) (init_over progs rl rh)

/-- An `over` thread that still occupies the slot, with nobody queued behind it: the connection
is not busy (`_check_connection` passes). -/
theorem over_not_busy (s : Sys) (ho : OInv s) (i : Nat) (hn : s.nt = some i)
    (hov : over (s.net i).pc = true) (hnew : s.newNt = none) : busy s = false := by
  simp [busy, hn, hnew, ho i hov]

/-! ### Ended connections -/

/-- The connection has ended: every thread occupying a slot is interrupted. -/
def Ended (s : Sys) : Prop :=
  ∀ j, (s.nt = some j ∨ s.newNt = some j) → (s.net j).intr = true

theorem ended_busy (s : Sys) (he : Ended s) : busy s = s.newNt.isSome := by
  unfold busy
  cases hn : s.nt with
  | none => simp
  | some t => simp [he t (Or.inl hn)]

/-- While a successor is queued (`new_networking_thread = k`) no step creates a thread or clears a
flag: the connection stays ended, and the successor slot either still holds `k` or has been
emptied by `k`'s take-over. -/
theorem ended_step (env : List Beh) (s s' : Sys) (t : Tid) (k : Nat) (h : LInv s) (he : Ended s)
    (hk : s.newNt = some k) (hs : step env s t = some s') :
    Ended s' ∧ (s'.newNt = some k ∨ s'.newNt = none) := by
  have h3 := h.born
  have h4 := h.nt_iff
  have h5 := h.new_iff
  have he' : ∀ j, (s.nt = some j ∨ s.newNt = some j) → (s.net j).intr = true := he
  unfold Ended
  step_cases hs
  all_goals simp only [refusedSt, directSt, succSt, discSt] at *
  all_goals
    refine ⟨fun j => ?_, ?_⟩
    · have hej := he' j
      grind [updN, dnet, busy, target, NPc.holds, NPc.waiting]
    · grind [updN, dnet, busy, target, NPc.holds, NPc.waiting]

theorem ended_run_prefix (env : List Beh) (k : Nat) : ∀ (sched : List Tid) (s : Sys),
    LInv s → Ended s → s.newNt = some k →
    (∃ m, m ≤ sched.length ∧ busy (run env s (sched.take m)) = false) ∨
    (Ended (run env s sched) ∧ (run env s sched).newNt = some k) := by
  intro sched
  induction sched with
  | nil => intro s _ he hk; exact Or.inr ⟨he, hk⟩
  | cons t ts ih =>
    intro s h he hk
    cases hst : step env s t with
    | none =>
      rcases ih s h he hk with ⟨m, hm, hb⟩ | hr
      · refine Or.inl ⟨m + 1, by simp; omega, ?_⟩
        simp only [List.take_succ_cons, run, hst]; exact hb
      · right; simp only [run, hst]; exact hr
    | some s' =>
      obtain ⟨he', hk'⟩ := ended_step env s s' t k h he hk hst
      rcases hk' with hk' | hk'
      · rcases ih s' (step_inv env s s' t h hst) he' hk' with ⟨m, hm, hb⟩ | hr
        · refine Or.inl ⟨m + 1, by simp; omega, ?_⟩
          simp only [List.take_succ_cons, run, hst]; exact hb
        · right; simp only [run, hst]; exact hr
      · refine Or.inl ⟨1, by simp, ?_⟩
        simp only [List.take_succ_cons, List.take_zero, run, hst]
        rw [ended_busy s' he', hk']; rfl

theorem ended_runN_prefix (env : List Beh) (k : Nat) (s : Sys) (σ : Nat → Tid) (h : LInv s)
    (he : Ended s) (hk : s.newNt = some k) : ∀ n,
    (∃ m, m ≤ n ∧ busy (runN env s σ m) = false) ∨
    (Ended (runN env s σ n) ∧ (runN env s σ n).newNt = some k) := by
  intro n
  induction n with
  | zero => exact Or.inr ⟨he, hk⟩
  | succ n ih =>
    rcases ih with ⟨m, hm, hb⟩ | ⟨he', hk'⟩
    · exact Or.inl ⟨m, by omega, hb⟩
    · cases hst : step env (runN env s σ n) (σ n) with
      | none => right; rw [runN_succ_none env s σ n hst]; exact ⟨he', hk'⟩
      | some s' =>
        rw [runN_succ_some env s σ n s' hst]
        obtain ⟨he2, hk2⟩ := ended_step env _ s' (σ n) k (runN_inv env s h σ n) he' hk' hst
        rcases hk2 with hk2 | hk2
        · exact Or.inr ⟨he2, hk2⟩
        · refine Or.inl ⟨n + 1, Nat.le_refl _, ?_⟩
          rw [runN_succ_some env s σ n s' hst, ended_busy s' he2, hk2]; rfl

theorem waiting_not_dead (pc : NPc) (h : pc.waiting = true) : pc ≠ .dead ∧ pc ≠ .unborn := by
  cases pc <;> simp_all [NPc.waiting]

/-- An ended connection is not busy now, or stops being busy within 47 steps of some schedule
(the interrupted predecessor dies, the interrupted successor takes the slot over). -/
theorem ended_eventually (env : List Beh) (s : Sys) (h : LInv s) (he : Ended s) :
    ∃ more, more.length ≤ 47 ∧ busy (run env s more) = false := by
  cases hn : s.newNt with
  | none => exact ⟨[], by simp, by rw [run, ended_busy s he, hn]; rfl⟩
  | some k =>
    have hw := (h.new_iff k).mp hn
    obtain ⟨sched, hl, hd⟩ := can_terminate env s h k (waiting_not_dead _ hw).2
      (he k (Or.inr hn))
    rcases ended_run_prefix env k sched s h he hn with ⟨m, hm, hb⟩ | ⟨-, hk⟩
    · exact ⟨sched.take m, by rw [List.length_take]; omega, hb⟩
    · have := (waiting_not_dead _ (((run_inv env s h sched).new_iff k).mp hk)).1
      exact absurd hd this

/-- … and on EVERY weakly fair infinite schedule. -/
theorem ended_eventually_fair (env : List Beh) (U : Nat) (s : Sys) (σ : Nat → Tid) (h : LInv s)
    (hub : UB U s) (he : Ended s) (hf : WeakFair env s σ) :
    ∃ n, busy (runN env s σ n) = false := by
  cases hn : s.newNt with
  | none => exact ⟨0, by rw [runN, ended_busy s he, hn]; rfl⟩
  | some k =>
    have hw := (h.new_iff k).mp hn
    obtain ⟨n, hd⟩ := eventually_always_dead env U k s σ h hub (waiting_not_dead _ hw).2
      (he k (Or.inr hn)) hf
    rcases ended_runN_prefix env k s σ h he hn n with ⟨m, -, hb⟩ | ⟨-, hk⟩
    · exact ⟨m, hb⟩
    · have := (waiting_not_dead _ (((runN_inv env s h σ n).new_iff k).mp hk)).1
      exact absurd (hd n (Nat.le_refl _)) this

/-! ### Small facts used by the property theorems -/

theorem busy_congr_threads (a b : Sys) (h1 : a.nt = b.nt) (h2 : a.newNt = b.newNt)
    (h3 : ∀ j, (a.net j).intr = (b.net j).intr) : busy a = busy b := by
  unfold busy
  rw [h1, h2]
  cases b.nt with
  | none => rfl
  | some t => simp only [h3 t]

theorem holds_alive (pc : NPc) (h : pc.holds = true) : pc.alive = true := by
  cases pc <;> simp_all [NPc.holds, NPc.alive]

theorem waiting_alive (pc : NPc) (h : pc.waiting = true) : pc.alive = true := by
  cases pc <;> simp_all [NPc.waiting, NPc.alive]

/-- What a `connect()` / `status()` that is not refused with `InvalidState` does (the conclusion of
`C16.reusable_after_end`): exactly one connection attempt; on refusal the caller gets the refusal,
the socket is left unconnected, no thread is created; otherwise the call succeeds, the new socket
and stream are installed and exactly one, uninterrupted, thread object is created — in the slot if
it was empty, else as the successor of the holder — all other threads being untouched. -/
def ConnectsAfresh (env : List Beh) (s : Sys) (t : Tid) (s1 : Sys) : Prop :=
  s1.conns = s.conns + 1 ∧
  (env.getD s.conns .accept = .refuse →
    pendingOut s1 t = some .refused ∧ s1.socket = .unconnected ∧
    s1.nthreads = s.nthreads ∧ s1.nt = s.nt ∧ s1.newNt = none ∧ SameThreads s s1 t) ∧
  (env.getD s.conns .accept ≠ .refuse →
    pendingOut s1 t = some .ok ∧ s1.socket = .open s.conns ∧ s1.file = .open s.conns ∧
    s1.connected = true ∧ s1.nthreads = s.nthreads + 1 ∧
    (s.net s.nthreads).pc = .unborn ∧ (s1.net s.nthreads).intr = false ∧
    (∀ j, j ≠ s.nthreads → (s1.net j).intr = (s.net j).intr ∧
      (s1.net j).prev = (s.net j).prev ∧ (t ≠ .net j → (s1.net j).pc = (s.net j).pc)) ∧
    ((s.nt = none ∧ s1.nt = some s.nthreads ∧ s1.newNt = none ∧
        (s1.net s.nthreads).pc = .loopChk ∧ (s1.net s.nthreads).prev = none) ∨
     (∃ p, s.nt = some p ∧ s1.nt = some p ∧ s1.newNt = some s.nthreads ∧
        (s1.net s.nthreads).pc = .waitPrev ∧ (s1.net s.nthreads).prev = some p)))

end PyCraft.Ends
