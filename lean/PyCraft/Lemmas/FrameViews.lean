import PyCraft.Lemmas.FrameTally
/-!
The plain-signature views (`readVarIntS`, `readExact`, `readPacket`, `readAll`, `readAllEnc`)
against the pure parsers, and the writer-side cipher lemmas.
-/
namespace PyCraft

theorem ahead_plain (s : Segs) : ahead idXform (Sock.plain s) = s.flatten := rfl

theorem ahead_enc {σ : Type} (x : StreamXform σ) (s0 : σ) (s : Segs) :
    ahead x (Sock.enc s0 s) = (x.update s0 s.flatten).2 := rfl

theorem readVarIntS_spec (mx : Nat) (s : Segs) :
    (readVarIntS mx s).map (fun r => (r.1, r.2.flatten)) = decVarInt mx s.flatten := by
  have hv := readVarIntK_spec idXform mx s.flatten 0 0 (Sock.plain s) rfl
  unfold readVarIntS decVarInt
  cases hd : decVarIntAux mx 0 0 s.flatten with
  | error e =>
    obtain ⟨k', e1⟩ := hv.2 e hd
    rw [e1]; rfl
  | ok vr =>
    obtain ⟨v, rest⟩ := vr
    obtain ⟨k', e1, e2⟩ := hv.1 v rest hd
    rw [e1]
    show Except.ok (v, k'.segs.flatten) = _
    rw [← e2]; rfl

/-- `stream.read(n)` followed by the reassembly loop -/
theorem readBodyK_spec {σ : Type} (x : StreamXform σ) (k : Sock σ) (n : Nat) :
    (n ≤ (ahead x k).length →
      ∃ k', readMoreK x n (k.read x n).1 (k.read x n).2 = (.ok ((ahead x k).take n), k') ∧
        ahead x k' = (ahead x k).drop n) ∧
    ((ahead x k).length < n →
      ∃ k', readMoreK x n (k.read x n).1 (k.read x n).2 = (.error .eof, k')) := by
  obtain ⟨h1, h2, -⟩ := Sock.read_spec x k n
  have hm := readMoreK_spec x n _ (k.read x n).1 (k.read x n).2 rfl
  generalize (k.read x n).1 = got at *
  generalize (k.read x n).2 = k2 at *
  have hlen : (ahead x k).length = got.length + (ahead x k2).length := by
    rw [← h1, List.length_append]
  constructor
  · intro hle
    obtain ⟨k', e3, e4⟩ := hm.1 (by omega)
    refine ⟨k', ?_, ?_⟩
    · rw [e3, ← h1, List.take_append, List.take_of_length_le h2]
    · rw [e4, ← h1, List.drop_append, List.drop_eq_nil_of_le h2, List.nil_append]
  · intro hlt
    exact hm.2 (by omega)

theorem readExact_spec (s : Segs) (n : Nat) :
    (readExact s n).map (fun r => (r.1, r.2.flatten)) =
      if n ≤ s.flatten.length then .ok (s.flatten.take n, s.flatten.drop n) else .error .eof := by
  have hb := readBodyK_spec idXform (Sock.plain s) n
  rw [ahead_plain] at hb
  unfold readExact
  by_cases hle : n ≤ s.flatten.length
  · obtain ⟨k', e1, e2⟩ := hb.1 hle
    simp only [e1, if_pos hle]
    show Except.ok (_, k'.segs.flatten) = _
    rw [← e2]; rfl
  · obtain ⟨k', e1⟩ := hb.2 (by omega)
    simp only [e1, if_neg hle]; rfl

theorem readPacket_spec (z : ZlibOps) (c : Bool) (s : Segs) :
    (readPacket z c s).map (fun r => (r.1, r.2.flatten)) = parsePacket z c s.flatten := by
  have hp := readPacketK_spec idXform z c (Sock.plain s)
  rw [ahead_plain] at hp
  unfold readPacket
  cases hd : parsePacket z c s.flatten with
  | error e =>
    obtain ⟨k', e1⟩ := hp.2 e hd
    rw [e1]; rfl
  | ok pr =>
    obtain ⟨p, rest⟩ := pr
    obtain ⟨k', e1, e2⟩ := hp.1 p rest hd
    rw [e1]
    show Except.ok (p, k'.segs.flatten) = _
    rw [← e2]; rfl

theorem readAll_spec (z : ZlibOps) (c : Bool) (s : Segs) :
    readAll z c s = parseAll z c s.flatten := by
  unfold readAll; rw [readAllK_spec, ahead_plain]

theorem readAllEnc_spec {σ : Type} (x : StreamXform σ) (s0 : σ) (z : ZlibOps) (c : Bool)
    (s : Segs) : readAllEnc x s0 z c s = parseAll z c (x.update s0 s.flatten).2 := by
  unfold readAllEnc; rw [readAllK_spec, ahead_enc]

/-- once the frame is complete the reader's result is `parseBody` of the frame body, whatever it
contains, and the stream is positioned exactly behind the frame -/
theorem readPacketK_frame {σ : Type} (x : StreamXform σ) (z : ZlibOps) (c : Bool) (k : Sock σ)
    (data rest : Bytes) (h : parseFrame (ahead x k) = .ok (data, rest)) :
    (readPacketK x z c k).1 = parseBody z c data ∧ ahead x (readPacketK x z c k).2 = rest := by
  obtain ⟨k', e1, e2⟩ := (readFrameK_spec x k).1 data rest h
  unfold readPacketK
  rw [e1]
  exact ⟨rfl, e2⟩

/-- every successful `read_packet` consumes at least one byte of the stream -/
theorem readPacketK_consumes {σ : Type} (x : StreamXform σ) (z : ZlibOps) (c : Bool) (k : Sock σ)
    (p : Nat × Bytes) (h : (readPacketK x z c k).1 = .ok p) :
    (readPacketK x z c k).2.rem < k.rem := by
  have hs := readPacketK_spec x z c k
  cases hd : parsePacket z c (ahead x k) with
  | error e =>
    obtain ⟨k', e1⟩ := hs.2 e hd
    rw [e1] at h; cases h
  | ok pr =>
    obtain ⟨p', rest⟩ := pr
    obtain ⟨k', e1, e2⟩ := hs.1 p' rest hd
    have := parsePacket_lt z c _ p' rest hd
    rw [e1]
    show k'.rem < k.rem
    rw [← ahead_length x k', ← ahead_length x k, e2]; exact this

/-! ## writer side -/

theorem frameSends_flatten' (z : ZlibOps) (thr : Option Int) (payload : Bytes) :
    (frameSends z thr payload).flatten = frame z thr payload := by
  simp [frameSends, frame]

/-- encrypting chunk by chunk = encrypting the concatenation -/
theorem encSends_flatten {σ : Type} (x : StreamXform σ) : ∀ (ds : List Bytes) (s : σ),
    (encSends x s ds).2.flatten = (x.update s ds.flatten).2 := by
  intro ds
  induction ds with
  | nil => intro s; simp [encSends, xform_nil]
  | cons d ds ih =>
    intro s
    simp only [encSends, List.flatten_cons]
    rw [ih, x.chunk]

/-- a prefix of the cipher text is the cipher text of the prefix -/
theorem xform_take {σ : Type} (x : StreamXform σ) (s : σ) (b : Bytes) (k : Nat) :
    (x.update s b).2.take k = (x.update s (b.take k)).2 := by
  by_cases hk : k ≤ b.length
  · conv => lhs; rw [← List.take_append_drop k b, x.chunk]
    have hl : ((x.update s (b.take k)).2).length = k := by
      rw [x.len, List.length_take]; omega
    rw [List.take_append_of_le_length (by omega), List.take_of_length_le (by omega)]
  · rw [List.take_of_length_le (by rw [x.len]; omega), List.take_of_length_le (by omega)]

theorem frameBody_compressesAt (z : ZlibOps) (thr : Option Int) (payload : Bytes) :
    frameBody z thr payload =
      if compressesAt thr payload.length then encVarInt payload.length ++ z.deflate payload
      else match thr with
        | some _ => encVarInt 0 ++ payload
        | none => payload := by
  cases thr with
  | none => simp [frameBody, compressesAt]
  | some t =>
    simp only [frameBody, compressesAt]
    by_cases h : (payload.length : Int) > t ∧ t ≠ -1 <;> simp [h]

/-- parsing the first `k` bytes of a conversation: the whole frames inside, then `eof` -/
theorem parseAll_take (z : Zlib) (thr : Option Int) (ps : List (Nat × Bytes))
    (hok : ∀ p ∈ ps, FrameOK z.toZlibOps thr p) (k : Nat)
    (hk : k ≤ (ps.map (packetFrame z.toZlibOps thr)).flatten.length) :
    ∃ n, n ≤ ps.length ∧
      parseAll z.toZlibOps thr.isSome ((ps.map (packetFrame z.toZlibOps thr)).flatten.take k)
        = (ps.take n, .eof) ∧
      (((ps.take n).map (packetFrame z.toZlibOps thr)).flatten).length ≤ k ∧
      (n < ps.length →
        k < (((ps.take (n + 1)).map (packetFrame z.toZlibOps thr)).flatten).length) := by
  obtain ⟨n, t, h1, h2, h3, h4, h5⟩ := frames_take (packetFrame z.toZlibOps thr) ps k hk
  refine ⟨n, h1, ?_, h3, h4⟩
  have hinc : Incomplete z.toZlibOps thr t := by
    rcases h5 with h5 | ⟨p, u, hp, hpu, hu⟩
    · exact Or.inl h5
    · exact Or.inr ⟨p, u, hok p hp, hpu, hu⟩
  rw [h2, parseAll_frames z thr (ps.take n) t (fun p hp => hok p (List.mem_of_mem_take hp)),
    parseAll_incomplete z.toZlibOps thr _ t hinc]
  simp

/-! ## which exceptions can end the loop -/

theorem decVarInt_err (bs : Bytes) (e : Err) (h : decVarInt 5 bs = .error e) :
    e = .eof ∨ e = .tooLong ∨ e = .zlib ∨ e = .assertion := by
  rcases dec_err 5 bs 0 0 e h with h | h <;> simp [h]

theorem parseBody_err (z : ZlibOps) (c : Bool) (data : Bytes) (e : Err)
    (h : parseBody z c data = .error e) :
    e = .eof ∨ e = .tooLong ∨ e = .zlib ∨ e = .assertion := by
  cases c with
  | false =>
    simp only [parseBody, Bool.false_eq_true, if_false] at h
    exact decVarInt_err _ _ h
  | true =>
    simp only [parseBody, if_true] at h
    cases hd : decVarInt 5 data with
    | error e' =>
      simp only [hd] at h
      injection h with h; subst h
      exact decVarInt_err _ _ hd
    | ok vr =>
      obtain ⟨dl, rest⟩ := vr
      simp only [hd] at h
      by_cases hpos : dl > 0
      · simp only [hpos, if_true] at h
        cases hi : z.inflate rest with
        | none => simp only [hi] at h; injection h with h; simp [← h]
        | some d =>
          simp only [hi] at h
          by_cases hl : d.length = dl
          · simp only [hl, if_true] at h; exact decVarInt_err _ _ h
          · simp only [hl, if_false] at h; injection h with h; simp [← h]
      · simp only [hpos, if_false] at h
        exact decVarInt_err _ _ h

theorem parsePacket_err (z : ZlibOps) (c : Bool) (bs : Bytes) (e : Err)
    (h : parsePacket z c bs = .error e) :
    e = .eof ∨ e = .tooLong ∨ e = .zlib ∨ e = .assertion := by
  unfold parsePacket at h
  split at h
  · next e' hf =>
    injection h with h; subst h
    unfold parseFrame at hf
    split at hf
    · next e'' hd =>
      injection hf with hf; subst hf
      exact decVarInt_err _ _ hd
    · split at hf
      · cases hf
      · injection hf with hf; simp [← hf]
  · split at h
    · next e' hb => injection h with h; subst h; exact parseBody_err z c _ _ hb
    · cases h

theorem parseAllFuel_err (z : ZlibOps) (c : Bool) : ∀ (fuel : Nat) (bs : Bytes),
    bs.length < fuel →
    (parseAllFuel z c fuel bs).2 = .eof ∨ (parseAllFuel z c fuel bs).2 = .tooLong ∨
    (parseAllFuel z c fuel bs).2 = .zlib ∨ (parseAllFuel z c fuel bs).2 = .assertion := by
  intro fuel
  induction fuel with
  | zero => intro bs h; omega
  | succ fuel ih =>
    intro bs h
    simp only [parseAllFuel]
    cases hd : parsePacket z c bs with
    | error e => exact parsePacket_err z c bs e hd
    | ok pr =>
      obtain ⟨p, rest⟩ := pr
      have := parsePacket_lt z c bs p rest hd
      exact ih rest (by omega)

end PyCraft
