/-!
Shared vocabulary of the pyCraft models: byte strings, the error enum that Python exception
classes are mapped to, and hex helpers used by the line-protocol driver.
-/
namespace PyCraft

abbrev Bytes := List UInt8

/-- Python exception classes, collapsed to the small enum the harness also maps to. -/
inductive Err
  | eof        -- EOFError
  | tooLong    -- ValueError("Tried to read too long of a VarInt")
  | struct     -- struct.error (short read / out of range)
  | value      -- ValueError
  | type       -- TypeError
  | assertion  -- AssertionError
  | decode     -- UnicodeDecodeError
  | zlib       -- zlib.error
  | other
deriving Repr, DecidableEq, Inhabited

def Err.toString : Err → String
  | .eof => "eof" | .tooLong => "toolong" | .struct => "struct" | .value => "value"
  | .type => "type" | .assertion => "assertion" | .decode => "decode" | .zlib => "zlib"
  | .other => "other"

instance : ToString Err := ⟨Err.toString⟩

deriving instance DecidableEq for Except

def hexDigit (n : Nat) : Char :=
  if n < 10 then Char.ofNat (48 + n) else Char.ofNat (87 + n)

def hexOfBytes (bs : Bytes) : String :=
  String.ofList (bs.flatMap fun b => [hexDigit (b.toNat / 16), hexDigit (b.toNat % 16)])

def hexVal (c : Char) : Option Nat :=
  if '0' ≤ c ∧ c ≤ '9' then some (c.toNat - 48)
  else if 'a' ≤ c ∧ c ≤ 'f' then some (c.toNat - 87)
  else if 'A' ≤ c ∧ c ≤ 'F' then some (c.toNat - 55)
  else none

def bytesOfHexAux : List Char → Option Bytes
  | [] => some []
  | [_] => none
  | a :: b :: rest => do
    let x ← hexVal a
    let y ← hexVal b
    let r ← bytesOfHexAux rest
    pure (UInt8.ofNat (16 * x + y) :: r)

/-- "-" denotes the empty byte string on the line protocol. -/
def bytesOfHex (s : String) : Option Bytes :=
  if s = "-" then some [] else bytesOfHexAux s.toList

def hexOut (bs : Bytes) : String := if bs.isEmpty then "-" else hexOfBytes bs

end PyCraft
