import PyCraft.Drive.Util
import PyCraft.Model.C20Maps
namespace PyCraft.Drive
open PyCraft PyCraft.Trackers

namespace C20MapsAux

def strOfHex (h : String) : Option String := do
  let bs ← bytesOfHex h
  String.fromUTF8? (ByteArray.mk bs.toArray)

def hexOfStr (s : String) : String := hexOut s.toUTF8.toList

/-- `type.direction.x.z.<namehex|~>` -/
def parseIcon (tok : String) : Option MapIcon :=
  match tok.splitOn "." with
  | [t, d, x, z, n] => do
    let n ← if n = "~" then some none else (strOfHex n).map some
    pure { type := ← t.toInt?, direction := ← d.toInt?, x := ← x.toInt?, z := ← z.toInt?,
           displayName := n }
  | _ => none

def parseIcons (s : String) : Option (List MapIcon) :=
  if s = "-" then some [] else (s.splitOn ",").mapM parseIcon

def parseBool (s : String) : Option Bool :=
  if s = "1" then some true else if s = "0" then some false else none

/-- `id:scale:tr:lk:width:height:ox:oz:<pxhex|-|~>:<icons|->` -/
def parsePacket (tok : String) : Option MapPacket :=
  match tok.splitOn ":" with
  | [id, sc, tr, lk, w, h, ox, oz, px, ic] => do
    let px ← if px = "~" then some none else (bytesOfHex px).map some
    pure { mapId := ← id.toInt?, scale := ← sc.toInt?, icons := ← parseIcons ic,
           width := ← w.toNat?, height := ← h.toNat?, offset := (← ox.toInt?, ← oz.toInt?),
           pixels := px, isTrackingPosition := ← parseBool tr, isLocked := ← parseBool lk }
  | _ => none

/-- `-` or `id.w.h,id.w.h,…` -/
def parseInit (s : String) : Option (List (Int × Nat × Nat)) :=
  if s = "-" then some []
  else (s.splitOn ",").mapM fun t =>
    match t.splitOn "." with
    | [i, w, h] => do pure (← i.toInt?, ← w.toNat?, ← h.toNat?)
    | _ => none

def showOptInt : Option Int → String
  | none => "~"
  | some i => toString i

def showBool (b : Bool) : String := if b then "1" else "0"

def showIcon (i : MapIcon) : String :=
  s!"{i.type}.{i.direction}.{i.x}.{i.z}." ++
    (match i.displayName with | none => "~" | some n => hexOfStr n)

def showIcons (l : List MapIcon) : String :=
  if l.isEmpty then "-" else ",".intercalate (l.map showIcon)

def showObs (o : MapObs) : String :=
  let nz := if o.nonzero.isEmpty then "-"
    else ",".intercalate (o.nonzero.map fun r => s!"{r.1}*{r.2.1}={r.2.2}")
  s!"{o.key}:{showOptInt o.id}:{showOptInt o.scale}:{showBool o.tracking}:{showBool o.locked}:" ++
    s!"{o.width}:{o.height}:{o.len}:{showIcons o.icons}:{nz}"

end C20MapsAux
open C20MapsAux

/-- `mapset <init> <packet> …`
      `<init>`   = `-` | `id.w.h,id.w.h,…`  — `MapSet(*[Map(id, width=w, height=h) …])`
      `<packet>` = `id:scale:tr:lk:width:height:ox:oz:<pxhex|-|~>:<icons|->` (`tr`, `lk` = `0|1`;
                   pixels `~` = `None`, `-` = `b''`; `<icons>` = `type.dir.x.z.<namehex|~>` joined by `,`)
    The packets are applied in order by `apply_to_map_set` until one raises.
      → `ok <map> …` | `err:other <map> …` (IndexError / ZeroDivisionError; the maps as they then are)
      `<map>` = `key:id:scale:tr:lk:width:height:len(pixels):<icons|->:<i*n=v,…|->` in dict order
                (`id`, `scale` = `~` for `None`; `i*n=v`: pixels `i … i+n-1` have the non-zero value `v`,
                maximal runs). -/
def c20maps (toks : List String) : Option String :=
  match toks with
  | "mapset" :: init :: pkts =>
    match parseInit init, pkts.mapM parsePacket with
    | some init, some hist =>
      let r := replayMapsFx hist (MapSet.ofSizes init)
      let head := match r.2 with
        | none => "ok"
        | some e => "err:" ++ toString e
      some (" ".intercalate (head :: r.1.obs.map showObs))
    | _, _ => some "bad-op"
  | "mapset" :: _ => some "bad-op"
  | _ => none

end PyCraft.Drive
