import PyCraft.Basic
namespace PyCraft.Drive
open PyCraft

def exc {α} (f : α → String) : Except Err α → String
  | .ok a => "ok " ++ f a
  | .error e => "err:" ++ toString e

end PyCraft.Drive
