import PyCraft.Drive.Util
import PyCraft.Model.Login
namespace PyCraft.Drive
open PyCraft PyCraft.Login

namespace LoginD

def flag? (s : String) : Option Bool :=
  if s = "0" then some false else if s = "1" then some true else none

/-- hex of UTF-8 (`-` = empty) → string -/
def strOfHex (h : String) : Option String :=
  match bytesOfHex h with
  | some bs => String.fromUTF8? bs.toByteArray
  | none => none

def hexOfStr (s : String) : String := hexOut s.toUTF8.toList

def kv? (key tok : String) : Option String :=
  match tok.splitOn "=" with
  | [k, v] => if k = key then some v else none
  | _ => none

/-- One script token. The `disc` token carries the result of the JSON `text` extraction itself:
`<texthex>` = a string, `~` = extraction fails (fallback to the raw string), `!` = `text` exists but
is not a string. -/
def step? (tok : String) : Option (Step × Option (String × TextField)) :=
  match tok.splitOn ":" with
  | ["fl"] => some (.flush, none)
  | ["succ"] => some (.recv .success, none)
  | ["comp", t] => t.toInt?.map fun t => (.recv (.setCompression t), none)
  | ["enc", sid, pk, tk] =>
    match strOfHex sid, bytesOfHex pk, bytesOfHex tk with
    | some sid, some pk, some tk => some (.recv (.encRequest sid pk tk), none)
    | _, _, _ => none
  | ["plug", i, ch, d] =>
    match i.toNat?, strOfHex ch, bytesOfHex d with
    | some i, some ch, some d => some (.recv (.pluginRequest i ch d), none)
    | _, _, _ => none
  | ["disc", j, t] =>
    match strOfHex j with
    | some j =>
      if t = "~" then some (.recv (.disconnect j), some (j, .absent))
      else if t = "!" then some (.recv (.disconnect j), some (j, .nonStr))
      else (strOfHex t).map fun t => (.recv (.disconnect j), some (j, .str t))
    | none => none
  | _ => none

def steps? : List String → Option (List (Step × Option (String × TextField)))
  | [] => some []
  | t :: ts => do
    let a ← step? t
    let r ← steps? ts
    pure (a :: r)

/-- RSA instantiated by the identity (the harness decrypts with the real private key first). -/
def idRsa : Rsa :=
  { enc := fun _ m => m, dec := fun _ c => c, matching := fun _ _ => True, law := fun _ _ _ _ => rfl }

def showPkt : ClientPkt → String
  | .encResp s t => s!"S{hexOut s}.T{hexOut t}"
  | .plugResp i ok _ => s!"{i}.{if ok then 1 else 0}"

def showSent (f : Sent) : String :=
  let kind := match f.pkt with | .encResp .. => "encresp" | .plugResp .. => "plugresp"
  let e := if f.encrypted then "e1" else "e0"
  let t := match f.threshold with | some t => s!"t{t}" | none => "tnone"
  let q := if f.forced then "f" else "q"
  s!"{kind}/{e}/{t}/{q}/{showPkt f.pkt}"

def showErr : Option LoginErr → String
  | none => "none"
  | some (.loginDisconnect m) => "login:" ++ hexOfStr m
  | some (.versionMismatch v) => "mismatch:" ++ hexOfStr v
  | some .typeError => "type"

def showState (s : ClientState) : String :=
  let out := if s.outbox.isEmpty then "-" else ",".intercalate (s.outbox.map showSent)
  let st := match s.reactor with | .login => "login" | .play => "play"
  let thr := match s.threshold with | some t => toString t | none => "none"
  s!"ok out={out} state={st} enc={if s.encrypted then 1 else 0} thr={thr} " ++
  s!"joined={if s.joined.isSome then 1 else 0} err={showErr s.err}"

def run (tok sec : String) (cap : Nat) (evs : List String) : String :=
  match (kv? "token" tok).bind flag?, (kv? "secret" sec).bind bytesOfHex, steps? evs with
  | some hasTok, some secret, some items =>
    let table := items.filterMap (·.2)
    let P : LoginParams :=
      { rsa := idRsa, secret := secret,
        hash := fun sid sec pk => s!"{hexOfStr sid}.{hexOut sec}.{hexOut pk}",
        hasToken := hasTok,
        jsonText := fun j => match table.find? (·.1 = j) with | some p => p.2 | none => .absent,
        handler := fun _ _ _ => none }
    let steps := items.map (·.1)
    let steps := if steps.contains .flush then steps ++ [.flush] else schedule cap (events steps)
    showState (exec P .init steps)
  | _, _, _ => "bad-op"

end LoginD

/-- `login.run token=<0|1> secret=<hex> [cap=<n>] <ev> …` with
`ev` = `enc:<serveridhex>:<pubkeyhex>:<tokenhex>` | `comp:<int>` | `plug:<id>:<channelhex>:<datahex>`
| `succ` | `disc:<jsonhex>:<texthex|~|!>` | `fl`
→ `ok out=<frame,…|-> state=<login|play> enc=<0|1> thr=<int|none> joined=<0|1>
   err=<none|login:<msghex>|mismatch:<verhex>|type>`,
frame = `<encresp|plugresp>/<e0|e1>/<t<int>|tnone>/<f|q>/<detail>`, detail = `S<hex>.T<hex>` or
`<id>.<0|1>`.
Scheduling: without `fl` tokens the steps are `schedule cap script` (default `cap=1`: the queue is
flushed before every read and once at the end); if any `fl` token is present the steps are taken
literally (`fl` = one write phase) and one final flush is appended. -/
def login (toks : List String) : Option String :=
  match toks with
  | "login.run" :: tok :: sec :: rest =>
    match rest with
    | c :: evs =>
      match (LoginD.kv? "cap" c).bind (·.toNat?) with
      | some cap => some (LoginD.run tok sec cap evs)
      | none => some (LoginD.run tok sec 1 rest)
    | [] => some (LoginD.run tok sec 1 [])
  | "login.run" :: _ => some "bad-op"
  | _ => none

end PyCraft.Drive
