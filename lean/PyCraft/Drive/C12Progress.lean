import PyCraft.Drive.Writers
import PyCraft.Model.C12Progress
namespace PyCraft.Drive
open PyCraft PyCraft.Writers
open WritersIO

/-- `c12progress.enabled capw=<n> capr=<n> progs=<prog>;<prog>;… sched=<t,t,…>` (same argument syntax
as `writers.run`, `Drive/Writers.lean`) →
`ok enabled=<t,…|-> ntmoves=<k> queue=<p,…|-> drainbound=<11·len(queue)+2> int=<0|1>`:
after running the schedule from the initial state, the threads among `0..#progs` that can perform
their next atomic action (to be compared with the baton scheduler's `Sched.enabled`, i.e. with the
list `en` handed to `choose` at that point of the REAL run), the number of schedule entries that
were actions of the networking thread, the queue, the bound of `C12Progress.nt_drains` for it, and
the interrupt flag.  (The prefix is `c12progress.` because the `writers` handler answers `bad-op` to
every other `writers.*` command.) -/
def c12progress (toks : List String) : Option String :=
  match toks with
  | ["c12progress.enabled", a, b, c, d] =>
    match (kv "capw" a).bind String.toNat?, (kv "capr" b).bind String.toNat?,
          (kv "progs" c).bind progsOfTok,
          (kv "sched" d).bind (fun s => (items "," s).mapM String.toNat?) with
    | some capW, some capR, some progs, some sched =>
      let cfg : Cfg := ⟨capW, capR⟩
      let s := run cfg (init progs) sched
      let en := (List.range (progs.length + 1)).filter fun t => enabled cfg s t
      some (s!"ok enabled={commas (en.map toString)} ntmoves={moves cfg 0 (init progs) sched} " ++
            s!"queue={commas (s.queue.map toString)} drainbound={11 * s.queue.length + 2} " ++
            s!"int={bit s.interrupt}")
    | _, _, _, _ => some "bad-op"
  | tok :: _ => if tok.startsWith "c12progress." then some "bad-op" else none
  | [] => none

end PyCraft.Drive
