import PyCraft.Drive.Util
import PyCraft.Model.McHash
namespace PyCraft.Drive
open PyCraft

/-- `sha1 <hex>` → `ok <40-hex-digest>`;
    `signedhex <hex>` → `ok <format(int.from_bytes(b,'big',signed=True),'x')>` (`-` → `ok 0`);
    `mchash <sidhex> <secrethex> <keyhex>` → `ok <server hash>`
    (`sidhex` is the UTF-8 encoding of the server id; `-` = empty). -/
def mchash (toks : List String) : Option String :=
  match toks with
  | ["sha1", h] =>
    match bytesOfHex h with
    | some bs => some ("ok " ++ hexOfBytes (sha1 bs))
    | none => some "bad-op"
  | ["signedhex", h] =>
    match bytesOfHex h with
    | some bs => some ("ok " ++ signedHex bs)
    | none => some "bad-op"
  | ["mchash", a, b, c] =>
    match bytesOfHex a, bytesOfHex b, bytesOfHex c with
    | some sid, some secret, some key => some ("ok " ++ mcHash sid secret key)
    | _, _, _ => some "bad-op"
  | _ => none

end PyCraft.Drive
