import PyCraft.Drive.Util
import PyCraft.Model.C06Dispatch
/-!
Line-protocol requests for the id → decoder dict of `PacketReactor.__init__`
(connection.py:664-669) and the lookup of `read_packet` (connection.py:706-713).

Tokens: `<ents>` = `Name:id,Name:id,…` in ITERATION ORDER (`-` = no class); in `c06resolve` an id may
be `x` (= `get_id` raised / returned a non-int).  Class names must not contain `:` or `,`.

* `c06dict <ents>`          → `ok id:Name,…` the dict, items sorted by key (`ok -` if empty)
* `c06get <ents> <id>`      → `ok Name` (class instantiated, l.707) | `ok base` (l.711, base `Packet`)
* `c06classes <ents> <id>`  → `ok Name,…` the classes registered with that id, in list order (`ok -`)
* `c06resolve <row>`        → `ok Name:id,…` | `none` (some `get_id` did not yield a plain int)

Compare with the real code: a subclass of `PacketReactor` whose `get_clientbound_packets` is
`staticmethod(lambda ctx: [C1, C2, …])` (a LIST of real packet classes, so the order is controlled),
constructed on a stub connection with `.context = ConnectionContext(protocol_version=v)`; the ents are
`[(C.__name__, C.get_id(ctx)) …]` in that order, the observation is
`sorted((k, v.__name__) for k, v in r.clientbound_packets.items())` and
`r.clientbound_packets.get(id)`.
-/
namespace PyCraft.Drive
open PyCraft

namespace C06D

def parseEnts (tok : String) : Option (List (String × Int)) :=
  if tok = "-" then some [] else
    (tok.splitOn ",").mapM fun e =>
      match e.splitOn ":" with
      | [n, i] => do pure (n, ← i.toInt?)
      | _ => none

def parseRow (tok : String) : Option (List IdEnt) :=
  if tok = "-" then some [] else
    (tok.splitOn ",").mapM fun e =>
      match e.splitOn ":" with
      | [n, i] => if i = "x" then some (n, none) else do pure (n, some (← i.toInt?))
      | _ => none

def joinOr (l : List String) : String := if l.isEmpty then "-" else ",".intercalate l

def showDict (d : List (Int × String)) : String :=
  joinOr ((d.mergeSort fun a b => decide (a.1 ≤ b.1)).map fun kv => s!"{kv.1}:{kv.2}")

end C06D

open C06D in
def c06dispatch (toks : List String) : Option String :=
  match toks with
  | ["c06dict", e] =>
    some (match parseEnts e with
      | some ents => "ok " ++ showDict (buildDict ents)
      | none => "bad-op")
  | ["c06get", e, i] =>
    some (match parseEnts e, i.toInt? with
      | some ents, some i =>
        (match dictGet (buildDict ents) i with | some c => "ok " ++ c | none => "ok base")
      | _, _ => "bad-op")
  | ["c06classes", e, i] =>
    some (match parseEnts e, i.toInt? with
      | some ents, some i => "ok " ++ joinOr (classesAt ents i)
      | _, _ => "bad-op")
  | ["c06resolve", r] =>
    some (match parseRow r with
      | some row =>
        (match resolveRow row with
          | some ents => "ok " ++ joinOr (ents.map fun e => s!"{e.1}:{e.2}")
          | none => "none")
      | none => "bad-op")
  | _ => none

end PyCraft.Drive
