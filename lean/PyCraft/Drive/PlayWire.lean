import PyCraft.Drive.Util
import PyCraft.Model.PlayWire
namespace PyCraft.Drive
open PyCraft PyCraft.Play PyCraft.PlayWire

namespace PlayWireD

def kv? (key tok : String) : Option String :=
  match tok.splitOn "=" with
  | [k, v] => if k = key then some v else none
  | _ => none

/-- `deflate` is never called on the runs that are rendered; `inflate` is the identity. -/
def noZlib : ZlibOps := { deflate := fun x => x, inflate := fun x => some x }

def thr? (s : String) : Option (Option Int) :=
  if s = "none" then some none else s.toInt?.map some

/-- `ka=<cbid>:<sbid>:<L|V>` -/
def ka? (s : String) : Option (Nat × Nat × Bool) :=
  match s.splitOn ":" with
  | [cb, sb, w] =>
    match cb.toNat?, sb.toNat?, (if w = "L" then some true else if w = "V" then some false else none) with
    | some cb, some sb, some l => some (cb, sb, l)
    | _, _, _ => none
  | _ => none

/-- `pos=<cbid>:<ackSbId>:<T|E>:<D|->` -/
def pos? (s : String) : Option (Nat × Nat × Bool × Bool) :=
  match s.splitOn ":" with
  | [cb, sb, t, d] =>
    match cb.toNat?, sb.toNat?, (if t = "T" then some true else if t = "E" then some false else none),
        (if d = "D" then some true else if d = "-" then some false else none) with
    | some cb, some sb, some t, some d => some (cb, sb, t, d)
    | _, _, _, _ => none
  | _ => none

def hexN? (n : Nat) (s : String) : Option Nat :=
  match bytesOfHex s with
  | some b => if b.length = n then some (beValue b) else none
  | none => none

/-- One event token → the `(id, field bytes)` the server writes for it. -/
def ev? (P : Profile) (tok : String) : Option (Nat × Bytes) :=
  match tok.splitOn ":" with
  | ["ka", i] =>
    match i.toInt? with
    | some v =>
      let pat : Nat :=
        if P.kaLong then u64 v else if v < 0 then (v % 2 ^ 32).toNat else v.toNat
      some (serverFields P (.keepAlive pat))
    | none => none
  | ["pos", x, y, z, yaw, pitch, fl, tid] =>
    match hexN? 8 x, hexN? 8 y, hexN? 8 z, hexN? 4 yaw, hexN? 4 pitch, fl.toNat?, tid.toNat? with
    | some x, some y, some z, some yaw, some pitch, some fl, some tid =>
      if fl < 256 then some (serverFields P (.posLook x y z yaw pitch fl tid false)) else none
    | _, _, _, _, _, _, _ => none
  | ["unk", pid, d] =>
    match pid.toNat?, bytesOfHex d with
    | some pid, some d => some (serverFields P (.unknown pid d))
    | _, _ => none
  | ["disc", j] =>
    match bytesOfHex j with
    | some b =>
      match utf8Decode b with
      | some s => some (serverFields P (.disconnect s))
      | none => some (P.disconnectCb, encVarInt b.length ++ b)   -- not UTF-8: raw bytes, same layout
    | none => none
  | _ => none

def evs? (P : Profile) : List String → Option (List (Nat × Bytes))
  | [] => some []
  | t :: ts => do
    let a ← ev? P t
    let r ← evs? P ts
    pure (a :: r)

/-- One event token → the raw `(id, field bytes)` and, for `setc:<n>`, the threshold it installs. -/
def evT? (P : Profile) (tok : String) : Option ((Nat × Bytes) × Option Nat) :=
  match tok.splitOn ":" with
  | ["setc", n] =>
    match n.toNat? with
    | some n => some (serverFields P (.setCompression n), some n)
    | none => none
  | _ => (ev? P tok).map fun r => (r, none)

def evsT? (P : Profile) : List String → Option (List ((Nat × Bytes) × Option Nat))
  | [] => some []
  | t :: ts => do
    let a ← evT? P t
    let r ← evsT? P ts
    pure (a :: r)

/-- The server's frames: everything behind a `setc` event is framed with its threshold. -/
def srvFrames (z : ZlibOps) : Option Int → List ((Nat × Bytes) × Option Nat) → List Bytes
  | _, [] => []
  | thr, (raw, sw) :: rest =>
    packetFrame z thr raw ::
      srvFrames z (match sw with
        | some n => some (n : Int)
        | none => thr) rest

def srvNeedsDeflate : Option Int → List ((Nat × Bytes) × Option Nat) → Bool
  | _, [] => false
  | thr, (raw, sw) :: rest =>
    compressesAt thr (packetPayload raw.1 raw.2).length ||
      srvNeedsDeflate (match sw with
        | some n => some (n : Int)
        | none => thr) rest

/-- A packet list with the same threshold changes as the events (only `thrAt` looks at it). -/
def switchPkts (evs : List ((Nat × Bytes) × Option Nat)) : List SrvPkt :=
  evs.map fun e =>
    match e.2 with
    | some n => .setCompression n
    | none => .unknown 0 []

def showThr : Option Int → String
  | some t => toString t
  | none => "none"

def showPkts (ps : List (Nat × Bytes)) : String :=
  if ps.isEmpty then "-" else ",".intercalate (ps.map fun p => s!"{p.1}.{hexOut p.2}")

def needsDeflate (thr : Option Int) (ps : List (Nat × Bytes)) : Bool :=
  ps.any fun p => compressesAt thr (packetPayload p.1 p.2).length

def run (ka pos disc thr capw capr : String) (evs : List String) : String :=
  -- optional `setc=<cbid>` in front of the events: the id of the play-state set-compression packet
  let (setc, evs) : Option (Option Nat) × List String :=
    match evs with
    | t :: rest =>
      match kv? "setc" t with
      | some v => (v.toNat?.map some, rest)
      | none => (some none, evs)
    | [] => (some none, [])
  match (kv? "ka" ka).bind ka?, (kv? "pos" pos).bind pos?, (kv? "disc" disc).bind (·.toNat?),
      (kv? "thr" thr).bind thr?, (kv? "capw" capw).bind (·.toNat?),
      (kv? "capr" capr).bind (·.toNat?), setc with
  | some (kaCb, kaSb, kaLong), some (posCb, ackSb, newer, dismount), some discCb, some thr,
      some capW, some capR, some setc =>
    let P : Profile :=
      { kaCb := kaCb, kaSb := kaSb, posLookCb := posCb, teleportConfirmSb := ackSb,
        posLookSb := ackSb, disconnectCb := discCb, kaLong := kaLong, newer107 := newer,
        dismount := dismount, others := [], setCompressionCb := setc }
    match evsT? P evs with
    | none => "bad-op"
    | some raws =>
      if raws.any (·.2.isSome) && setc.isNone then "bad-op"      -- a `setc:` event needs `setc=<id>`
      else if srvNeedsDeflate thr raws then "skip:deflate"
      else
        let srv := (srvFrames noZlib thr raws).flatten
        match clientRead P idXform () noZlib thr.isSome [srv] with
        | (inbox, .eof) =>
          match runLoop P.newer107 true capW capR inbox, runT P.newer107 true capW capR inbox with
          | some r, some tw =>
            let tt := thrTags thr (switchPkts raws) tw
            let replies := r.wire.map (replyFields P)
            if tt.any fun qt => needsDeflate qt.2 [replyFields P qt.1] then "skip:deflate"
            else
              let cli := (clientWireT noZlib P idXform () tt).flatten
              let thrs := if tt.isEmpty then "-" else ",".intercalate (tt.map fun qt => showThr qt.2)
              s!"ok srv={hexOut srv} cli={hexOut cli} replies={showPkts replies} " ++
                s!"closed={if r.closed then 1 else 0} thrs={thrs}"
          | _, _ => "err:other"      -- no progress: `capr=0` never reads
        | (_, e) => "err:" ++ toString e
  | _, _, _, _, _, _, _ => "bad-op"

end PlayWireD

/-- `playwire.run ka=<cbid>:<sbid>:<L|V> pos=<cbid>:<ackSbId>:<T|E>:<D|-> disc=<cbid>
     thr=<none|int> capw=<n> capr=<n> [setc=<cbid>] <ev> …`

Profile (all ids decimal): `ka=` clientbound / serverbound keep-alive id and the id width (`L` = Long,
protocol ≥ 339; `V` = VarInt); `pos=` clientbound position-and-look id, the serverbound id of the
acknowledgement, `T` = teleport id present and answered by a teleport confirm with id `<ackSbId>`
(protocol ≥ 107) / `E` = no teleport id, answered by the position echo with id `<ackSbId>`, and `D`
= a trailing dismount Boolean (written as 0) / `-` = none; `disc=` clientbound disconnect id.
`thr=` the compression threshold in force in both directions when play starts (`none` = compression
disabled).  `capw`/`capr` are the write/read caps of `NetworkingThread._run` (300/50 in the code).
Optional `setc=<cbid>` (directly behind `capr=`): the clientbound id of the play-state "set
compression" packet (protocols ≤ 47: 70); without it the profile has no such packet.

Events, in the order the server writes them:
* `ka:<idInt>` — keep-alive; `L`: any signed 64-bit int (taken mod 2^64); `V`: a non-negative int, or
  a negative one meaning the Java int written as its 32-bit two's complement pattern (five bytes);
* `pos:<x>:<y>:<z>:<yaw>:<pitch>:<flags>:<tid>` — x, y, z 8 bytes hex each (the Double's bytes), yaw,
  pitch 4 bytes hex each, flags a Nat `< 256`, tid a Nat (ignored with `E`);
* `unk:<pid>:<hex>` — a packet with id `<pid>` (meant to be unknown to the client) and that payload;
* `disc:<jsonhex>` — disconnect, the hex of the JSON string's UTF-8 bytes;
* `setc:<n>` — play-state set compression with threshold `<n>` (a Nat; needs `setc=<cbid>`): the
  server frames everything BEHIND it with threshold `<n>`, the client reads everything behind it with
  compression enabled and frames every reply it WRITES after having processed it with `<n>`.

Reply `ok srv=<hex|-> cli=<hex|-> replies=<id.fieldshex,…|-> closed=<0|1> thrs=<none|int,…|->`: the
server's byte stream (one frame per event), the bytes the client hands to `socket.send` while running
the loop on what it decodes from `srv` (peer open, no cipher), the replies as decimal id `.` field
bytes, whether the connection was closed (a disconnect was processed), and the threshold each reply
was framed with (the one in force when `_write_packet` wrote it).
Example: `playwire.run ka=0:0:V pos=8:6:E:- disc=64 thr=none capw=300 capr=2 setc=70 ka:1 setc:256 ka:2`
→ `ok srv=0200010346800203000002 cli=0300000103000002 replies=0.01,0.02 closed=0 thrs=256,256`.
`skip:deflate` if a frame of either direction would take the zlib `compress` branch (zlib is a
parameter of the model); `err:<Err>` if the client's `read_packet` raises on the stream (e.g. an
`unk` id that collides with a known id and does not parse), `err:other` for `capr=0` (the loop never
reads); `bad-op` for anything unparsable. -/
def playwire (toks : List String) : Option String :=
  match toks with
  | "playwire.run" :: ka :: pos :: disc :: thr :: capw :: capr :: evs =>
    some (PlayWireD.run ka pos disc thr capw capr evs)
  | "playwire.run" :: _ => some "bad-op"
  | _ => none

end PyCraft.Drive
