import PyCraft.Drive.Util
import PyCraft.Model.C02Exact
/-!
Line-protocol handler for the Python-level models of `FixedPoint`, `UUID`, `Float`, `Double`
(`Model/C02Exact.lean`).

* `c02x.uuid.send <hex of the UTF-8 bytes of the text>` → `ok <32 hex>` | `err:value`
  (compare: `UUID.send(text, buf)`; ValueError → `err:value`)
* `c02x.uuid.read <hex>` → `ok <hex of the UTF-8 bytes of the text> <rest hex>` | `err:value`
  (compare: `UUID.read(BytesIO(bytes))` and the unread rest)
* `c02x.float.send <16 hex digits: binary64 pattern of the Python float>` → `ok <8 hex>` | `err:other`
  (compare: `Float.send(struct.unpack('>d', pattern)[0], buf)`; OverflowError → `err:other`)
* `c02x.float.read <hex>` → `ok <16 hex digits: pattern of the float returned> <rest hex>` | `err:struct`
* `c02x.double.send <16 hex digits>` → `ok <16 hex>`;  `c02x.double.read <hex>` → `ok <16 hex> <rest>`
* `c02x.cast32 <16 hex digits>` → `ok <8 hex>` (the bare C cast, ∞ on overflow)
* `c02x.fixed.send <u8|i8|i16|u16|i32|i64|u64> <bits> <p> <q>` → `ok <hex>` | `err:struct` | `err:other`
  (compare: `FixedPoint(cls, bits).send(float(p / q), buf)` for `p / q` exactly representable as a
  float, `q > 0`; struct.error → `err:struct`, OverflowError → `err:other`)
* `c02x.fixed.read <base> <bits> <hex>` → `ok <numerator> <denominator> <rest hex>` | `err:struct`
  (compare: `Fraction(FixedPoint(cls, bits).read(...))`: the EXACT value, in lowest terms, of the Python
  float the read returns — the correctly rounded binary64 quotient `raw / 2**bits`; the sign of a
  negative zero (a negative raw value with `bits` > 1138 or so) is not visible in this format)
Unparsable arguments → `bad-op`.
-/
namespace PyCraft.Drive
open PyCraft PyCraft.C02X

namespace C02ExactSyntax

def noCC : CustomCodec where
  enc := fun _ _ => .error .type
  dec := fun _ _ => .error .type

def intT? : String → Option IntT
  | "u8" => some .u8 | "i8" => some .i8 | "i16" => some .i16 | "u16" => some .u16
  | "i32" => some .i32 | "i64" => some .i64 | "u64" => some .u64 | _ => none

/-- exactly `n` hex digits → the number -/
def pat? (n : Nat) (s : String) : Option Nat :=
  if s.length = n then (bytesOfHex s).map beValue else none

def hexN (w : Nat) (v : Nat) : String := hexOfBytes (beBytes w v)

end C02ExactSyntax

open C02ExactSyntax

def c02exact (toks : List String) : Option String :=
  match toks with
  | ["c02x.uuid.send", h] =>
    match (bytesOfHex h).bind utf8Decode with
    | some s => some (exc hexOut (uuidSend noCC s))
    | none => some "bad-op"
  | ["c02x.uuid.read", h] =>
    match bytesOfHex h with
    | some bs => some (exc (fun (p : String × Bytes) => s!"{hexOut (utf8 p.1)} {hexOut p.2}")
        (uuidRead noCC bs))
    | none => some "bad-op"
  | ["c02x.float.send", x] =>
    match pat? 16 x with
    | some x => some (exc hexOut (floatSend noCC x))
    | none => some "bad-op"
  | ["c02x.float.read", h] =>
    match bytesOfHex h with
    | some bs => some (exc (fun (p : Nat × Bytes) => s!"{hexN 8 p.1} {hexOut p.2}") (floatRead noCC bs))
    | none => some "bad-op"
  | ["c02x.double.send", x] =>
    match pat? 16 x with
    | some x => some (exc hexOut (doubleSend noCC x))
    | none => some "bad-op"
  | ["c02x.double.read", h] =>
    match bytesOfHex h with
    | some bs => some (exc (fun (p : Nat × Bytes) => s!"{hexN 8 p.1} {hexOut p.2}") (doubleRead noCC bs))
    | none => some "bad-op"
  | ["c02x.cast32", x] =>
    match pat? 16 x with
    | some x => some s!"ok {hexN 4 (castF32 x)}"
    | none => some "bad-op"
  | ["c02x.fixed.send", base, bits, p, q] =>
    match intT? base, bits.toNat?, p.toInt?, q.toInt? with
    | some b, some n, some p, some q =>
      if 0 < q then some (exc hexOut ((FixedPointT.init b n).send noCC p q)) else some "bad-op"
    | _, _, _, _ => some "bad-op"
  | ["c02x.fixed.read", base, bits, h] =>
    match intT? base, bits.toNat?, bytesOfHex h with
    | some b, some n, some bs =>
      some (exc (fun (p : Nat × Bytes) =>
          let f := f64FracReduced p.1
          s!"{f.1} {f.2} {hexOut p.2}")
        ((FixedPointT.init b n).read noCC bs))
    | _, _, _ => some "bad-op"
  | op :: _ => if op.startsWith "c02x." then some "bad-op" else none
  | [] => none

end PyCraft.Drive
