import PyCraft.Drive.Util
import PyCraft.Model.C17Utf8
namespace PyCraft.Drive
open PyCraft PyCraft.Utf8

namespace C17Utf8D

/-- one code point: 1–6 hex digits -/
def cp? (s : String) : Option Nat :=
  if s.isEmpty ∨ s.length > 6 then none
  else s.toList.foldlM (fun acc c => (hexVal c).map (acc * 16 + ·)) 0

/-- `-` = the empty string, else comma-separated hex code points (`4e,f6,20ac,1f600,d800`) -/
def cps? (s : String) : Option (List Nat) :=
  if s = "-" then some [] else (s.splitOn ",").mapM cp?

def flag? (s : String) : Option Bool :=
  if s = "0" then some false else if s = "1" then some true else none

/-- a Lean string from scalar code points; `none` when one of them is not a scalar value -/
def str? (cps : List Nat) : Option String :=
  if cps.all (fun c => c < 0xD800 || (0xDFFF < c && c < 0x110000)) then
    some (String.ofList (cps.map Char.ofNat))
  else none

/-- RSA plays no role for `join`. -/
def idRsa : Login.Rsa :=
  { enc := fun _ m => m, dec := fun _ c => c, matching := fun _ _ => True, law := fun _ _ _ _ => rfl }

end C17Utf8D

open C17Utf8D in
/-- Server ids are given by their code points: `-` (empty) or comma-separated hex numbers.

* `c17enc <cps>` → `ok <hex of str.encode('utf-8')>` (`ok -` for empty) | `err:value`
  (UnicodeEncodeError: lone surrogate);
* `c17hash <cps> <secrethex> <keyhex>` → `ok <generate_verification_hash(id, secret, key)>` |
  `err:value`;
* `c17join <cps> <secrethex> <keyhex> <tokenhex> <0|1>` → `ok <strings passed to auth_token.join,
  space separated>` (`ok -` when `join` is not called) for ONE encryption request reacted to by a
  fresh `LoginReactor` whose `os.urandom(16)` returns `<secret>`; last token = `auth_token is not
  None`.  Ids with lone surrogates cannot come off the wire and are answered `bad-op`. -/
def c17utf8 (toks : List String) : Option String :=
  match toks with
  | ["c17enc", c] =>
    match cps? c with
    | some cps => some (exc hexOut (pyUtf8Encode cps))
    | none => some "bad-op"
  | ["c17hash", c, s, k] =>
    match cps? c, bytesOfHex s, bytesOfHex k with
    | some cps, some secret, some key => some (exc id (generateVerificationHashCps cps secret key))
    | _, _, _ => some "bad-op"
  | ["c17join", c, s, k, t, f] =>
    match (cps? c).bind str?, bytesOfHex s, bytesOfHex k, bytesOfHex t, flag? f with
    | some sid, some secret, some key, some tok, some hasToken =>
      let P : Login.LoginParams :=
        realHash { rsa := idRsa, secret := secret, hash := fun _ _ _ => "", hasToken := hasToken,
                   jsonText := fun _ => .absent, handler := fun _ _ _ => none }
      let st := Login.exec P .init [.flush, .recv (.encRequest sid key tok), .flush]
      some ("ok " ++ (if st.joins.isEmpty then "-" else " ".intercalate st.joins))
    | _, _, _, _, _ => some "bad-op"
  | _ => none

end PyCraft.Drive
