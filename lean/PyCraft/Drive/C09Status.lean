import PyCraft.Drive.Util
import PyCraft.Model.C09Status
namespace PyCraft.Drive
open PyCraft PyCraft.Neg PyCraft.NegS

namespace C09S

def kv (key tok : String) : Option String :=
  let k := (key ++ "=").toList
  if k.isPrefixOf tok.toList then some (String.ofList (tok.toList.drop k.length)) else none

def items (s : String) : List String := if s = "-" then [] else s.splitOn ","

def natList (s : String) : Option (List Nat) := (items s).mapM String.toNat?

def strOfHex (h : String) : Option String := do
  let bs ← bytesOfHex h
  String.fromUTF8? ⟨bs.toArray⟩

def hexOfStr (s : String) : String := hexOut s.toUTF8.toList

def bit : Bool → String
  | true => "1"
  | false => "0"

def flag? (s : String) : Option Bool :=
  if s = "0" then some false else if s = "1" then some true else none

def namePair (s : String) : Option (String × Nat) :=
  match s.splitOn ":" with
  | [h, n] => do
    let id ← strOfHex h
    let v ← n.toNat?
    pure (id, v)
  | _ => none

def harg (s : String) : Option HArg :=
  if s = "d" then some .dflt else if s = "c" then some .custom else if s = "x" then some .disabled
  else none

def showCallee : Callee → String
  | .printer => "P"
  | .user => "U"
  | .noop => "N"

def showAct : SAct String → String
  | .sendPing t => s!"ping:{t}"
  | .disconnect => "disc"
  | .callStatus w d => s!"status:{showCallee w}:{hexOfStr d}"
  | .callPing w l => s!"latency:{showCallee w}:{l}"
  | .excHandlers e => s!"exc:{e}"
  | .disconnectImmediate => "discimm"
  | .exit => "exit"

/-- Script items: `r:<hex>` a response whose JSON text is the given UTF-8 string and parses; `b` a
response whose text makes `json.loads` raise; `p:<int>` a pong carrying that time; `o` any other
packet. -/
def pkt (tok : String) : Option StatusPkt :=
  match tok.splitOn ":" with
  | ["r", h] => (strOfHex h).map .response
  | ["b"] => some (.response "\x00bad")
  | ["p", t] => t.toInt?.map .pong
  | ["o"] => some .other
  | _ => none

/-- The driver's `json.loads`: the parsed object is represented by its text; the one reserved
text of item `b` raises `ValueError`. -/
def parseD (s : String) : Except Err String := if s = "\x00bad" then .error .value else .ok s

/-- The `k`-th clock reading; past the end of the list the last reading repeats (0 if empty). -/
def clockOf (l : List Nat) (k : Nat) : Nat := l.getD k (l.getLastD 0)

/-- One JSON value from a token stream (prefix notation), with the remaining tokens.
`n` null, `t`/`f` booleans, `i<int>`, `Fi<int>` a float equal to that integer, `Ff` another finite
float, `Fn` NaN, `Fx` ±infinity, `s<hex>` a string, `a<k>` followed by `k` values,
`o<k>` followed by `k` times (`<keyhex>` value). -/
def jvOfToks : Nat → List String → Option (JV × List String)
  | 0, _ => none
  | _, [] => none
  | fuel + 1, tok :: rest =>
    let many (k : Nat) (keyed : Bool) : Option (List (String × JV) × List String) :=
      (List.range k).foldlM (init := (([] : List (String × JV)), rest)) fun (acc, ts) _ => do
        if keyed then
          match ts with
          | [] => none
          | kh :: ts' =>
            let key ← strOfHex kh
            let (v, ts'') ← jvOfToks fuel ts'
            pure (acc ++ [(key, v)], ts'')
        else
          let (v, ts') ← jvOfToks fuel ts
          pure (acc ++ [("", v)], ts')
    match tok.toList with
    | ['n'] => some (.null, rest)
    | ['t'] => some (.bool true, rest)
    | ['f'] => some (.bool false, rest)
    | ['F', 'f'] => some (.flt .fractional, rest)
    | ['F', 'n'] => some (.flt .nan, rest)
    | ['F', 'x'] => some (.flt .inf, rest)
    | 'F' :: 'i' :: d => (String.ofList d).toInt?.map fun n => (.flt (.integral n), rest)
    | 'i' :: d => (String.ofList d).toInt?.map fun n => (.int n, rest)
    | 's' :: h => (strOfHex (String.ofList h)).map fun s => (.str s, rest)
    | 'a' :: d => do
      let k ← (String.ofList d).toNat?
      let (l, ts) ← many k false
      pure (.arr (l.map (·.2)), ts)
    | 'o' :: d => do
      let k ← (String.ofList d).toNat?
      let (l, ts) ← many k true
      pure (.obj l, ts)
    | _ => none

/-- One level of a value (containers are not descended into). -/
def showAtom : JV → String
  | .null => "n"
  | .bool true => "t"
  | .bool false => "f"
  | .int n => s!"i{n}"
  | .flt (.integral n) => s!"Fi{n}"
  | .flt .fractional => "Ff"
  | .flt .nan => "Fn"
  | .flt .inf => "Fx"
  | .str s => "s" ++ hexOfStr s
  | .arr _ => "a"
  | .obj _ => "o"

def showRaised : Raised → String
  | .eof => "eof"
  | .json => "json"
  | .os => "os"
  | .invalidStatus => "invalid"
  | .mismatch sp sv b =>
    let msg := match mismatchText sp sv b with
      | some m => hexOfStr m
      | none => "?"
    s!"mismatch {showAtom sp} {showAtom sv} supported={bit b} msg={msg}"
  | .py e => s!"py:{e}"

def showOutcome : Outcome → String
  | .connect v fb => s!"ok connect {v} fb={bit fb}"
  | .connectFloat n => s!"ok connectfloat {n}"
  | .raised r => s!"ok raised {showRaised r}"

end C09S

open C09S in
/-- `statusx.run hs=<d|c|x> hp=<d|c|x> exit=<0|1> script=<r:<hex>|b|p:<int>|o,…|-> clock=<t,…|->`
      (`d` = `None`, `c` = a callable, `x` = `False`; `exit` = a `handle_exit` was given)
      → `ok acts=<ping:<t>|disc|status:<P|U|N>:<hex>|latency:<P|U|N>:<int>|exc:<Err>|discimm|exit,…|->
            connected=<0|1> ended=<0|1> err=<Err|->`;
    `negx.eval sp=<n,…> kn=<idhex:n,…> allowed=<n,…> default=<n> test=<eof|all>
               reply=<closed|ioerror|badjson|json> [<json tokens…>]`
      → `ok connect <v> fb=<0|1>` | `ok connectfloat <n>` |
        `ok raised <eof|json|os|invalid|py:<Err>|mismatch <atom> <atom> supported=<0|1> msg=<hex|?>>`. -/
def c09status (toks : List String) : Option String :=
  match toks with
  | ["statusx.run", hs, hp, ex, sc, ck] =>
    let r : Option String := do
      let hs ← harg (← kv "hs" hs)
      let hp ← harg (← kv "hp" hp)
      let ex ← flag? (← kv "exit" ex)
      let sc ← (items (← kv "script" sc)).mapM pkt
      let ck ← natList (← kv "clock" ck)
      let run := statusCall ⟨"h", 0, none, none⟩ 0 hs hp ex parseD (clockOf ck) sc
      let acts := if run.acts.isEmpty then "-" else ",".intercalate (run.acts.map showAct)
      let err := match run.error with
        | some e => toString e
        | none => "-"
      pure s!"ok acts={acts} connected={bit run.connected} ended={bit run.threadEnded} err={err}"
    some (r.getD "bad-op")
  | "negx.eval" :: sp :: kn :: al :: d :: ts :: rp :: jtoks =>
    let r : Option String := do
      let sp ← natList (← kv "sp" sp)
      let kn ← (items (← kv "kn" kn)).mapM namePair
      let al ← natList (← kv "allowed" al)
      let d ← (← kv "default" d).toNat?
      let ts ← kv "test" ts
      let test ← if ts = "eof" then some isEOFError else if ts = "all" then some (fun _ => true) else none
      let rp ← kv "reply" rp
      let reply ←
        if rp = "closed" then (if jtoks.isEmpty then some Reply.closed else none)
        else if rp = "ioerror" then (if jtoks.isEmpty then some Reply.ioError else none)
        else if rp = "badjson" then (if jtoks.isEmpty then some Reply.badJson else none)
        else if rp = "json" then
          match jvOfToks (jtoks.length + 1) jtoks with
          | some (v, []) => some (Reply.json v)
          | _ => none
        else none
      pure (showOutcome (evalReplyWith test ⟨[], sp, []⟩ kn al d reply))
    some (r.getD "bad-op")
  | op :: _ => if op ∈ ["statusx.run", "negx.eval"] then some "bad-op" else none
  | [] => none

end PyCraft.Drive
