import PyCraft.Drive.Util
import PyCraft.Model.C14Compose
/-!
Line-protocol command for `Model/C14Compose.lean`:

```
thread <hier> <inv> <early> <ordinary> <rx> <rh> <rhnew> <handlers> <final> <exit> <writes> <reads>
thread.mut <a|b|c> <same twelve arguments>
```
runs `ExcFlow.runThread` (`thread.mut`: the changed code `codeExceptException` / `codeReadSwallowed`
/ `codeNoInterrupt`) on `Conn.fresh` and replies

```
ok log=<ev,…|-> ended=<0|1> entered=<exc|none> recorded=<exc|none> info=<exc|none>
   reraised=<exc|none> cleanup=<n|d|s|f|-> conn=<nt>/<new>/<sock>/<connected>/<conns>/<closed> rest=<k>
```
* `<hier>` = `child:parent,…` | `-`;  `<exc>` = `cls.tag`;  `<inv>` = `<exc>` (the `InvalidState`)
* listeners `<early>`, `<ordinary>` = `id/types/disc/out;…` | `-`, types `c+c+…` | `_`, disc `0|1`,
  out `ok` | `ign` | `X<exc>`
* `<rx>` = `cls/disc/out;…` | `-` (classes not listed: `0/ok`)
* `<rh>`, `<rhnew>` = `acts/rbeh` (reactor handler at the start / installed by `connect()`), acts a string of `d` (disconnect) and `c` (connect) or `_`, rbeh `T|F|X<exc>`
* `<handlers>` = `id/types/acts/beh;…` | `-`, beh `ret` | `X<exc>`
* `<final>` = `none` | `false` | `acts/beh`;  `<exit>` = `none` | `acts/beh`
* `<writes>` = comma list of `w<n>` | `i<n>:<exc>` | `X<exc>`, or `-`
* `<reads>` = comma list of `n` | `p<cls>:<0|1>` | `X<exc>`, or `-`
* log events: `W<n>` `WI<n>:<exc>` `WX<exc>` `Rn` `Rp<cls>:<d>` `RX<exc>`
  `cb:<e<id>|R|o<id>>:<disc>:<out>` `fg:<exc>` `df:<exc>` `ex:<exc|none>` `SI`
  `call:<r|h<id>|f>:<arg>:<raised|none>:<info>` `cl:<0|1>` `clF` `SC`
* conn: flags `0|1|x` (`x` = `None`), sock `<n>|x`, closed `+`-separated or `_`
-/
namespace PyCraft.Drive
open PyCraft PyCraft.ExcFlow

namespace C14C

def items (sep : String) (s : String) : List String :=
  if s = "-" ∨ s = "" then [] else s.splitOn sep

def flag? (s : String) : Option Bool :=
  if s = "0" then some false else if s = "1" then some true else none

def bit (b : Bool) : String := if b then "1" else "0"

def parseHier (s : String) : Option Hier :=
  (items "," s).mapM fun e =>
    match e.splitOn ":" with
    | [a, b] => do pure ((← a.toNat?), (← b.toNat?))
    | _ => none

def parseTypes (s : String) : Option (List Nat) :=
  if s = "_" then some [] else (s.splitOn "+").mapM String.toNat?

def parseExc (s : String) : Option Exc :=
  match s.splitOn "." with
  | [a, b] => do pure ⟨← a.toNat?, ← b.toNat?⟩
  | _ => none

def parseRaise (s : String) : Option Exc :=
  match s.toList with
  | 'X' :: rest => parseExc (String.ofList rest)
  | _ => none

def parseBeh (s : String) : Option Beh :=
  if s = "ret" then some .returns else (parseRaise s).map .raises

def parseRBeh (s : String) : Option RBeh :=
  if s = "T" then some .retTrue else if s = "F" then some .retFalse
  else (parseRaise s).map .raises

def parseLOut (s : String) : Option LOut :=
  if s = "ok" then some .ok else if s = "ign" then some .ignore
  else (parseRaise s).map .raises

def parseActs (s : String) : Option (List Act) :=
  if s = "_" then some []
  else s.toList.mapM fun ch =>
    if ch = 'd' then some Act.disconnect else if ch = 'c' then some Act.connect else none

def parseListeners (s : String) : Option (List XListener) :=
  (items ";" s).mapM fun e =>
    match e.splitOn "/" with
    | [i, t, d, o] => do pure ⟨← i.toNat?, ← parseTypes t, ← flag? d, ← parseLOut o⟩
    | _ => none

def parseRx (s : String) : Option (List (Nat × PCb)) :=
  (items ";" s).mapM fun e =>
    match e.splitOn "/" with
    | [c, d, o] => do pure (← c.toNat?, ⟨← flag? d, ← parseLOut o⟩)
    | _ => none

def rxOf (tbl : List (Nat × PCb)) (cls : Nat) : PCb :=
  match tbl.find? (fun p => p.1 == cls) with
  | some p => p.2
  | none => ⟨false, .ok⟩

def parseRh (s : String) : Option XReactorH :=
  match s.splitOn "/" with
  | [a, r] => do pure ⟨← parseActs a, ← parseRBeh r⟩
  | _ => none

def parseHandlers (s : String) : Option (List XHandler) :=
  (items ";" s).mapM fun e =>
    match e.splitOn "/" with
    | [i, t, a, b] => do pure ⟨← i.toNat?, ← parseTypes t, ← parseActs a, ← parseBeh b⟩
    | _ => none

def parseFinal (s : String) : Option XFinal :=
  if s = "none" then some .none else if s = "false" then some .false
  else match s.splitOn "/" with
    | [a, b] => do pure (.fn (← parseActs a) (← parseBeh b))
    | _ => none

def parseExit (s : String) : Option (Option Cb) :=
  if s = "none" then some none
  else match s.splitOn "/" with
    | [a, b] => do pure (some ⟨← parseActs a, ← parseBeh b⟩)
    | _ => none

def parseW (s : String) : Option WRes :=
  match s.toList with
  | 'w' :: r => (String.ofList r).toNat?.map .wrote
  | 'i' :: r =>
    match (String.ofList r).splitOn ":" with
    | [n, e] => do pure (.ioError (← n.toNat?) (← parseExc e))
    | _ => none
  | 'X' :: r => (parseExc (String.ofList r)).map .raises
  | _ => none

def parseR (s : String) : Option RdRes :=
  match s.toList with
  | ['n'] => some .none
  | 'p' :: r =>
    match (String.ofList r).splitOn ":" with
    | [c, d] => do pure (.packet (← c.toNat?) (← flag? d))
    | _ => none
  | 'X' :: r => (parseExc (String.ofList r)).map .raises
  | _ => none

def showExc (e : Exc) : String := s!"{e.cls}.{e.tag}"

def showOptExc : Option Exc → String
  | some e => showExc e
  | none => "none"

def showLOut : LOut → String
  | .ok => "ok"
  | .ignore => "ign"
  | .raises e => "X" ++ showExc e

def showWho : Ev → String
  | .early i => s!"e{i}"
  | .reaction => "R"
  | .ordinary i => s!"o{i}"

def showCallee : CallEv → String
  | .reactor _ _ => "r"
  | .handler i _ _ => s!"h{i}"
  | .final _ _ => "f"

def showTEv : TEv → String
  | .write (.wrote n) => s!"W{n}"
  | .write (.ioError n e) => s!"WI{n}:{showExc e}"
  | .write (.raises e) => s!"WX{showExc e}"
  | .read .none => "Rn"
  | .read (.packet c d) => s!"Rp{c}:{bit d}"
  | .read (.raises e) => s!"RX{showExc e}"
  | .cb ev => s!"cb:{showWho ev.who}:{bit ev.disc}:{showLOut ev.out}"
  | .forgiven e => s!"fg:{showExc e}"
  | .deferred e => s!"df:{showExc e}"
  | .exitCb r => s!"ex:{showOptExc r}"
  | .setIntr => "SI"
  | .call ev info => s!"call:{showCallee ev}:{showExc ev.arg}:{showOptExc ev.raised}:{showExc info}"
  | .cleanup d => s!"cl:{bit d}"
  | .cleanupFailed => "clF"
  | .slotCleared => "SC"

def showOptBool : Option Bool → String
  | some b => bit b
  | none => "x"

def showOptNat : Option Nat → String
  | some n => toString n
  | none => "x"

def showConn (c : Conn) : String :=
  let cl := if c.closed.isEmpty then "_" else "+".intercalate (c.closed.map toString)
  s!"{showOptBool c.nt}/{showOptBool c.new}/{showOptNat c.sock}/{bit c.connected}/{c.conns}/{cl}"

def showCleanup : Option HxOut → String
  | none => "-"
  | some h =>
    match h.cleanup with
    | .notReached => "n"
    | .disconnected => "d"
    | .spared => "s"
    | .failed => "f"

def showOut (o : ThreadOut) : String :=
  let log := if o.log.isEmpty then "-" else ",".intercalate (o.log.map showTEv)
  let rec_ := (o.hx.bind fun h => h.out.recorded)
  let info := (o.hx.bind fun h => h.recordedInfo)
  s!"ok log={log} ended={bit o.ended} entered={showOptExc (o.entered.map (·.1))} " ++
  s!"recorded={showOptExc rec_} info={showOptExc info} reraised={showOptExc o.reraised} " ++
  s!"cleanup={showCleanup o.hx} conn={showConn o.conn} rest={o.rest.length}"

def parseSetup (h inv e o rx rh rhn hs f x : String) : Option Setup := do
  let tbl ← parseRx rx
  pure { hier := ← parseHier h, inv := ← parseExc inv, early := ← parseListeners e,
         ordinary := ← parseListeners o, rx := rxOf tbl, rh := ← parseRh rh, rhNew := ← parseRh rhn,
         handlers := ← parseHandlers hs, fin := ← parseFinal f, exit := ← parseExit x }

def codeOf (m : String) (S : Setup) : Option Code :=
  if m = "a" then some (codeExceptException S)
  else if m = "b" then some (codeReadSwallowed S)
  else if m = "c" then some (codeNoInterrupt S)
  else none

end C14C

open C14C in
/-- See the module comment. -/
def c14compose (toks : List String) : Option String :=
  match toks with
  | ["thread", h, inv, e, o, rx, rh, rhn, hs, f, x, ws, rs] =>
    match parseSetup h inv e o rx rh rhn hs f x, (items "," ws).mapM parseW,
        (items "," rs).mapM parseR with
    | some S, some ws, some rs => some (showOut (runThread S ws rs Conn.fresh))
    | _, _, _ => some "bad-op"
  | ["thread.mut", m, h, inv, e, o, rx, rh, rhn, hs, f, x, ws, rs] =>
    match parseSetup h inv e o rx rh rhn hs f x, (items "," ws).mapM parseW,
        (items "," rs).mapM parseR with
    | some S, some ws, some rs =>
      match codeOf m S with
      | some K => some (showOut (runThreadWith K S ws rs Conn.fresh))
      | none => some "bad-op"
    | _, _, _ => some "bad-op"
  | op :: _ => if op = "thread" ∨ op = "thread.mut" then some "bad-op" else none
  | [] => none

end PyCraft.Drive
