import PyCraft.Drive.Util
import PyCraft.Model.Trackers
import PyCraft.Model.Enums
namespace PyCraft.Drive
open PyCraft PyCraft.Trackers PyCraft.Enums

namespace TrackersAux

/-- hex of UTF-8 (`-` = empty string) → `String`. -/
def strOfHex (h : String) : Option String := do
  let bs ← bytesOfHex h
  String.fromUTF8? (ByteArray.mk bs.toArray)

def hexOfStr (s : String) : String := hexOut s.toUTF8.toList

/-- `~` = `None`, otherwise hex of UTF-8. -/
def optStrOfHex (h : String) : Option (Option String) :=
  if h = "~" then some none else (strOfHex h).map some

def hexOfOptStr : Option String → String
  | none => "~"
  | some s => hexOfStr s

def parseAction (tok : String) : Option Action :=
  match tok.splitOn ":" with
  | ["add", u, nm, g, p, dn] => do
    let u ← u.toInt?
    let nm ← strOfHex nm
    let g ← g.toInt?
    let p ← p.toInt?
    let dn ← optStrOfHex dn
    pure (.add { uuid := u, name := nm, properties := 0, gamemode := g, ping := p, displayName := dn })
  | ["gm", u, g] => do pure (.gamemode (← u.toInt?) (← g.toInt?))
  | ["lat", u, l] => do pure (.latency (← u.toInt?) (← l.toInt?))
  | ["dn", u, d] => do pure (.displayName (← u.toInt?) (← optStrOfHex d))
  | ["rm", u] => do pure (.remove (← u.toInt?))
  | _ => none

/-- Tokens → packets; a literal `|` token ends the current packet. -/
def parsePackets : List String → List Action → Option (List (List Action))
  | [], cur => some (if cur.isEmpty then [] else [cur.reverse])
  | t :: ts, cur =>
    if t = "|" then (parsePackets ts []).map (cur.reverse :: ·)
    else do
      let a ← parseAction t
      parsePackets ts (a :: cur)

def showPlayer (kp : Int × Player) : String :=
  let p := kp.2
  s!"{kp.1}:{hexOfStr p.name}:{p.gamemode}:{p.ping}:{hexOfOptStr p.displayName}"

def parseRat (s : String) : Option Rat :=
  match s.splitOn "/" with
  | [n] => n.toInt?.map fun n => (n : Rat)
  | [n, d] => do
    let n ← n.toInt?
    let d ← d.toNat?
    if d = 0 then none else pure (mkRat n d)
  | _ => none

def showRat (r : Rat) : String :=
  if r.den = 1 then toString r.num else s!"{r.num}/{r.den}"

def parseMembers (s : String) : Option (List (String × Int)) :=
  if s = "-" then some []
  else (s.splitOn ",").mapM fun item =>
    match item.splitOn ":" with
    | [n, v] => v.toInt?.map fun v => (n, v)
    | _ => none

def natMembers (ms : List (String × Int)) : Option (List (String × Nat)) :=
  ms.mapM fun p => if p.2 < 0 then none else some (p.1, p.2.toNat)

end TrackersAux
open TrackersAux

/-- `plist <tok> …` with `<tok>` = `|` (end of packet) or an action
      `add:<uuid>:<namehex>:<gamemode>:<ping>:<dnhex|~>` | `gm:<uuid>:<g>` | `lat:<uuid>:<l>` |
      `dn:<uuid>:<dnhex|~>` | `rm:<uuid>`, applied to an empty `PlayerList`
      → `ok <uuid>:<namehex>:<gamemode>:<ping>:<dnhex|~> …` (dict order; `ok` alone when empty);
    `mappatch <W> <H> <width> <height> <offX> <offY> <pxhex|~> <basehex>` (`~` = `pixels is None`)
      → `ok <pixelshex>` | `err:other` (IndexError / ZeroDivisionError);
    `poslook <flags> <px> <py> <pz> <pyaw> <ppitch> <cx> <cy> <cz> <cyaw> <cpitch>`
      (numbers `n` or `n/d`; `flags` any int, taken as a signed byte) → `ok x y z yaw pitch`;
    `bitname <name:value,…|-> <value>` → `ok <NAME|NAME…>` | `ok 0` | `ok ~`;
    `enumname <name:value,…|-> <value>` → `ok <NAME>` | `ok ~`. -/
def trackers (toks : List String) : Option String :=
  match toks with
  | "plist" :: rest =>
    match parsePackets rest [] with
    | none => some "bad-op"
    | some hist =>
      some (" ".intercalate ("ok" :: (replay hist []).map showPlayer))
  | ["mappatch", w, h, width, height, ox, oz, px, base] =>
    match w.toNat?, h.toNat?, width.toNat?, height.toNat?, ox.toInt?, oz.toInt?,
          (if px = "~" then some none else (bytesOfHex px).map some), bytesOfHex base with
    | some w, some h, some width, some _height, some ox, some oz, some px, some base =>
      let m : MapState := { MapState.new none with width := w, height := h, pixels := base }
      some (exc hexOut (applyPatch m width (ox, oz) px))
    | _, _, _, _, _, _, _, _ => some "bad-op"
  | ["poslook", fl, px, py, pz, pyaw, ppitch, cx, cy, cz, cyaw, cpitch] =>
    match fl.toInt?, [px, py, pz, pyaw, ppitch, cx, cy, cz, cyaw, cpitch].mapM parseRat with
    | some fl, some [px, py, pz, pyaw, ppitch, cx, cy, cz, cyaw, cpitch] =>
      let r := applyPosLook (flagsOfByte fl) ⟨px, py, pz, pyaw, ppitch⟩ ⟨cx, cy, cz, cyaw, cpitch⟩
      some (" ".intercalate ("ok" :: [r.x, r.y, r.z, r.yaw, r.pitch].map showRat))
    | _, _ => some "bad-op"
  | ["bitname", ms, v] =>
    match (parseMembers ms).bind natMembers, v.toNat? with
    | some ms, some v =>
      some ("ok " ++ (match nameFromValue ms v with | some s => s | none => "~"))
    | _, _ => some "bad-op"
  | ["enumname", ms, v] =>
    match parseMembers ms, v.toInt? with
    | some ms, some v =>
      some ("ok " ++ (match enumNameFromValue ms v with | some s => s | none => "~"))
    | _, _ => some "bad-op"
  | "mappatch" :: _ => some "bad-op"
  | "poslook" :: _ => some "bad-op"
  | "bitname" :: _ => some "bad-op"
  | "enumname" :: _ => some "bad-op"
  | _ => none

end PyCraft.Drive
