import PyCraft.Drive.Util
import PyCraft.Model.Frame
namespace PyCraft.Drive
open PyCraft

/-- `zmap=<chex>:<phex>,<chex>:<phex>` (or `zmap=-`): table of (compressed, plain) pairs. -/
def parseZmap (tok : String) : Option (List (Bytes × Bytes)) :=
  if ¬ tok.startsWith "zmap=" then none
  else
    let body := (tok.drop 5).toString
    if body = "-" then some []
    else (body.splitOn ",").mapM fun ent =>
      match ent.splitOn ":" with
      | [c, p] =>
        match bytesOfHex c, bytesOfHex p with
        | some c, some p => some (c, p)
        | _, _ => none
      | _ => none

def zInflate (tbl : List (Bytes × Bytes)) (c : Bytes) : Option Bytes :=
  (tbl.find? (·.1 = c)).map (·.2)

def zDeflate? (tbl : List (Bytes × Bytes)) (p : Bytes) : Option Bytes :=
  (tbl.find? (·.2 = p)).map (·.1)

/-- The table as `ZlibOps`; `deflate` of an unlisted payload is never used by the driver (it
answers `err:zlib` first). -/
def zOps (tbl : List (Bytes × Bytes)) : ZlibOps where
  deflate := fun p => (zDeflate? tbl p).getD []
  inflate := zInflate tbl

def parseThr (tok : String) : Option (Option Int) :=
  if tok = "none" then some none else tok.toInt?.map some

def showPackets (ps : List (Nat × Bytes)) : String :=
  String.join (ps.map fun p => s!"{p.1}:{hexOut p.2} ")

/-- `frame.write <thr|none> zmap=… <payloadhex>` → `ok <lenprefixhex> <bodyhex>` | `err:zlib`;
    `frame.readall <0|1> zmap=… <seghex>*` →
      `ok <id>:<payloadhex> … end=<err> reads=<n> eofreads=<n>`. -/
def frame (toks : List String) : Option String :=
  match toks with
  | ["frame.write", thr, zm, h] =>
    match parseThr thr, parseZmap zm, bytesOfHex h with
    | some thr, some tbl, some payload =>
      if compressesAt thr payload.length ∧ (zDeflate? tbl payload).isNone then some "err:zlib"
      else
        match frameSends (zOps tbl) thr payload with
        | [a, b] => some s!"ok {hexOut a} {hexOut b}"
        | _ => some "bad-op"
    | _, _, _ => some "bad-op"
  | "frame.write" :: _ => some "bad-op"
  | "frame.readall" :: c :: zm :: segs =>
    let comp : Option Bool := if c = "1" then some true else if c = "0" then some false else none
    match comp, parseZmap zm, segs.mapM bytesOfHex with
    | some comp, some tbl, some segs =>
      let r := readAllK idXform (zOps tbl) comp (Sock.plain segs)
      some s!"ok {showPackets r.1.1}end={r.1.2} reads={r.2.reads} eofreads={r.2.empties}"
    | _, _, _ => some "bad-op"
  | "frame.readall" :: _ => some "bad-op"
  | _ => none

end PyCraft.Drive
