import PyCraft.Drive.Util
import PyCraft.Model.C13Roles
namespace PyCraft.Drive
open PyCraft PyCraft.Roles

private def flagR? (s : String) : Option Bool :=
  if s = "0" then some false else if s = "1" then some true else none

private def flagR (b : Bool) : String := if b then "1" else "0"

private def itemsR (sep : String) (s : String) : List String :=
  if s = "-" then [] else s.splitOn sep

private def parseHierR (s : String) : Option Hier :=
  (itemsR "," s).mapM fun e =>
    match e.splitOn ":" with
    | [a, b] => do pure ((← a.toNat?), (← b.toNat?))
    | _ => none

private def parseTypesR (s : String) : Option (List Nat) :=
  if s = "_" then some [] else (s.splitOn "+").mapM String.toNat?

/-- `id/types/ign` -/
private def parseListenerR (s : String) : Option Listener :=
  match s.splitOn "/" with
  | [i, t, g] => do pure ⟨← i.toNat?, ← parseTypesR t, ← flagR? g⟩
  | _ => none

/-- `uid.cls` -/
private def parsePkt (s : String) : Option Pkt :=
  match s.splitOn "." with
  | [u, c] => do pure ⟨← u.toNat?, ← c.toNat?⟩
  | _ => none

/-- `uid.cls.force` -/
private def parseWrite (s : String) : Option (Pkt × Bool) :=
  match s.splitOn "." with
  | [u, c, f] => do pure (⟨← u.toNat?, ← c.toNat?⟩, ← flagR? f)
  | _ => none

/-- `cls>uid.cls.f+uid.cls.f` (the reaction to class `cls` makes these `write_packet` calls) or
`cls!` (the reaction to class `cls` raises `IgnorePacket`), comma separated; `-` = nothing. -/
private def parseReactor (s : String) :
    Option (List (Nat × List (Pkt × Bool)) × List Nat) :=
  (itemsR "," s).foldlM (init := ([], [])) fun acc e =>
    match e.splitOn ">" with
    | [c, ws] => do
      let c ← c.toNat?
      let ws ← (ws.splitOn "+").mapM parseWrite
      pure (acc.1 ++ [(c, ws)], acc.2)
    | [c] =>
      match c.toList.reverse with
      | '!' :: rest => do pure (acc.1, acc.2 ++ [← (String.ofList rest.reverse).toNat?])
      | _ => none
    | _ => none

private def parseOp (s : String) : Option Op :=
  match s.toList with
  | ['P'] => some .pop
  | ['F'] => some .flush
  | ['I'] => some .iter
  | 'R' :: e :: o :: ':' :: rest => do
    pure (.register ⟨← parseListenerR (String.ofList rest), ← flagR? (String.singleton e),
      ← flagR? (String.singleton o)⟩)
  | 'W' :: f :: ':' :: rest => do
    pure (.write (← parsePkt (String.ofList rest)) (← flagR? (String.singleton f)))
  | 'A' :: ':' :: rest => do
    pure (.arrive (← (itemsR "+" (String.ofList rest)).mapM parsePkt))
  | _ => none

private def showPkt (p : Pkt) : String := s!"{p.uid}.{p.cls}"

private def showPkts (ps : List Pkt) : String :=
  if ps.isEmpty then "-" else "+".intercalate (ps.map showPkt)

private def showEvR : Ev → String
  | .early i => s!"e{i}"
  | .reaction => "R"
  | .ordinary i => s!"o{i}"

private def showOutEvR : OutEv → String
  | .earlyOut i => s!"e{i}"
  | .written => "W"
  | .ordOut i => s!"o{i}"

private def showTr : Tr → String
  | .reg r => s!"G{r.l.id}"
  | .issued p f => s!"I{flagR f}:{showPkt p}"
  | .out site p evs =>
    let t := match site with | .forced => "f" | .popped => "p"
    s!"O{t}:{showPkt p}[{",".intercalate (evs.map showOutEvR)}]"
  | .inc p evs ign =>
    s!"N:{showPkt p}[{",".intercalate (evs.map showEvR)}]{if ign then "!" else ""}"

/-- `roles.session <hier> <reactor> <capW> <capR> <op> <op> …`
      → `ok <trace> queue=<pkts> inbox=<pkts>`.
    A whole session of `Model/C13Roles.lean` (`Conn.run`) from a fresh connection.
    `<hier>` = `child:parent,…` | `-`;
    `<reactor>` = `-` | comma list of `cls>uid.cls.f+…` (reaction to a packet of class `cls` calls
    `write_packet(<uid.cls>, force=f)` …) and `cls!` (reaction to `cls` raises `IgnorePacket`);
    ops: `R<early><outgoing>:<id>/<types>/<ign>` (`register_packet_listener`, types `c+c` | `_`),
    `W<force>:<uid>.<cls>` (`write_packet`), `P` (`_pop_packet`), `F` (`while _pop_packet(): pass`),
    `A:<uid>.<cls>+…` | `A:-` (packets arrive), `I` (one iteration of `_run`).
    `<trace>` = `;`-joined entries (or `-`): `G<id>` registration, `I<force>:<uid>.<cls>`
    `write_packet` call, `O<f|p>:<uid>.<cls>[e<id>,W,o<id>,…]` one `_write_packet` call (forced /
    popped) with its call log, `N:<uid>.<cls>[e<id>,R,o<id>,…]` one `_react` call (`!` appended when an
    `IgnorePacket` was swallowed).  `<pkts>` = `+`-joined `uid.cls` | `-`. -/
def roles (toks : List String) : Option String :=
  match toks with
  | "roles.session" :: h :: r :: cw :: cr :: ops =>
    match parseHierR h, parseReactor r, cw.toNat?, cr.toNat?, ops.mapM parseOp with
    | some h, some (ws, ign), some cw, some cr, some ops =>
      let s := Conn.run h (Reactor.ofTable ws ign) ⟨cw, cr⟩ {} ops
      let t := if s.trace.isEmpty then "-" else ";".intercalate (s.trace.map showTr)
      some s!"ok {t} queue={showPkts s.queue} inbox={showPkts s.inbox}"
    | _, _, _, _, _ => some "bad-op"
  | "roles.session" :: _ => some "bad-op"
  | _ => none

end PyCraft.Drive
