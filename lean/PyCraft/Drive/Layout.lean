import PyCraft.Drive.Wire
import PyCraft.Model.Custom
import PyCraft.Model.Layout
/-!
Line-protocol handler for generic packet bodies (`Model/Layout.lean`) with the REAL custom codecs
(`Model/Custom.lean`) plugged in, and the `wire.*` handler of `Drive/Wire.lean` instantiated with
them.

`fields.enc <type;type;…> <value;value;…>` → `ok <hex>` | `err:<e>`
`fields.dec <type;type;…> <hex>`           → `ok <value;value;…> <resthex>` | `err:<e>`

Types and values use the one-token syntax of `Drive/Wire.lean`, joined with `;` (a `,` occurs inside
list values); the empty field list and the empty value list are `-`.  Field names do not occur on the
wire and are not part of the request.  Unparsable arguments → `bad-op`; a value list whose length
differs from the number of fields is the model's `err:type`.
-/
namespace PyCraft.Drive
open PyCraft PyCraft.Drive.WireSyntax

/-- `wire.enc` / `wire.dec` / `angle.step` / `fixed.wire` with the real custom codecs -/
def wireReal : List String → Option String := wire realCustom

namespace LayoutSyntax

/-- all-or-nothing `map` -/
def allSome {α β} (f : α → Option β) : List α → Option (List β)
  | [] => some []
  | a :: as =>
    match f a, allSome f as with
    | some b, some bs => some (b :: bs)
    | _, _ => none

def parts (s : String) : List String := if s = "-" then [] else s.splitOn ";"

/-- `type;type;…` (or `-`) → a layout with numbered field names -/
def layout? (s : String) : Option Layout :=
  (allSome wtype? (parts s)).map fun ts => (List.range ts.length).zip ts |>.map fun p => (s!"f{p.1}", p.2)

def values? (s : String) : Option (List Value) := allSome value? (parts s)

def showFields (vs : List Value) : String :=
  if vs.isEmpty then "-" else ";".intercalate (vs.map showValue)

end LayoutSyntax

open LayoutSyntax

def layout (toks : List String) : Option String :=
  match toks with
  | ["fields.enc", ts, vs] =>
    match layout? ts, values? vs with
    | some L, some vals => some (exc hexOut (encodeFields realCustom L vals))
    | _, _ => some "bad-op"
  | ["fields.dec", ts, h] =>
    match layout? ts, bytesOfHex h with
    | some L, some bs =>
      some (exc (fun (p : List Value × Bytes) => s!"{showFields p.1} {hexOut p.2}")
        (decodeFields realCustom L bs))
    | _, _ => some "bad-op"
  | op :: _ => if op ∈ ["fields.enc", "fields.dec"] then some "bad-op" else none
  | [] => none

end PyCraft.Drive
