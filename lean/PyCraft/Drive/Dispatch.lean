import PyCraft.Drive.Util
import PyCraft.Model.Dispatch
import PyCraft.Model.Handlers
namespace PyCraft.Drive
open PyCraft

private def flagD? (s : String) : Option Bool :=
  if s = "0" then some false else if s = "1" then some true else none

private def flagOut (b : Bool) : String := if b then "1" else "0"

/-- `-` = empty list, otherwise `sep`-separated items. -/
private def items (sep : String) (s : String) : List String :=
  if s = "-" then [] else s.splitOn sep

/-- `child:parent,child:parent` -/
private def parseHier (s : String) : Option Hier :=
  (items "," s).mapM fun e =>
    match e.splitOn ":" with
    | [a, b] => do pure ((← a.toNat?), (← b.toNat?))
    | _ => none

/-- `1+2+3`, `_` for none -/
private def parseTypes (s : String) : Option (List Nat) :=
  if s = "_" then some [] else (s.splitOn "+").mapM String.toNat?

/-- `id/types/ign;id/types/ign` -/
private def parseListeners (s : String) : Option (List Listener) :=
  (items ";" s).mapM fun e =>
    match e.splitOn "/" with
    | [i, t, g] => do pure ⟨← i.toNat?, ← parseTypes t, ← flagD? g⟩
    | _ => none

/-- `cls.tag` -/
private def parseExc (s : String) : Option Exc :=
  match s.splitOn "." with
  | [a, b] => do pure ⟨← a.toNat?, ← b.toNat?⟩
  | _ => none

/-- `X<cls.tag>` -/
private def parseRaise (s : String) : Option Exc :=
  match s.toList with
  | 'X' :: rest => parseExc (String.ofList rest)
  | _ => none

/-- `ret` | `X<cls.tag>` -/
private def parseBeh (s : String) : Option Beh :=
  if s = "ret" then some .returns else (parseRaise s).map .raises

/-- `T` | `F` | `X<cls.tag>` -/
private def parseRBeh (s : String) : Option RBeh :=
  if s = "T" then some .retTrue else if s = "F" then some .retFalse
  else (parseRaise s).map .raises

/-- `none` | `false` | `ret` | `X<cls.tag>` -/
private def parseFinal (s : String) : Option Final :=
  if s = "none" then some .none else if s = "false" then some .false
  else (parseBeh s).map .fn

/-- `id/types/beh;id/types/beh` -/
private def parseHandlers (s : String) : Option (List Handler) :=
  (items ";" s).mapM fun e =>
    match e.splitOn "/" with
    | [i, t, b] => do pure ⟨← i.toNat?, ← parseTypes t, ← parseBeh b⟩
    | _ => none

private def commaOut (l : List String) : String :=
  if l.isEmpty then "-" else ",".intercalate l

private def showEv : Ev → String
  | .early i => s!"e{i}"
  | .reaction => "R"
  | .ordinary i => s!"o{i}"

private def showOutEv : OutEv → String
  | .earlyOut i => s!"e{i}"
  | .written => "W"
  | .ordOut i => s!"o{i}"

private def showExc (e : Exc) : String := s!"{e.cls}.{e.tag}"

private def showOptExc : Option Exc → String
  | some e => showExc e
  | none => "none"

/-- `dispatch.in <hier> <early> <ordinary> <reactionIgnores:0|1> <pktClass>`
      → `ok <log> ignored=<0|1>`, log = comma list of `e<id>` / `R` / `o<id>`, or `-`;
    `dispatch.out <hier> <earlyOut> <ordOut> <pktClass>`
      → `ok <log>`, log = comma list of `e<id>` / `W` / `o<id>`, or `-`;
    `handlers <hier> <rbeh> <handlers> <final> <exc>`
      → `ok calls=<id,…|-> final=<0|1> recorded=<cls.tag|none> reraised=<cls.tag|none> swallowed=<0|1>`.
    `<hier>` = `child:parent,…` | `-`; listener list = `id/types/ign;…` | `-` with types
    `c+c+…` | `_` and ign `0|1`; handler list = `id/types/beh;…` | `-` with beh `ret` | `X<cls.tag>`;
    `<rbeh>` = `T` | `F` | `X<cls.tag>`; `<final>` = `none` | `false` | `ret` | `X<cls.tag>`;
    `<exc>` = `cls.tag`. -/
def dispatch (toks : List String) : Option String :=
  match toks with
  | ["dispatch.in", h, e, o, r, c] =>
    match parseHier h, parseListeners e, parseListeners o, flagD? r, c.toNat? with
    | some h, some e, some o, some r, some c =>
      let res := reactIncoming h e o r c
      some s!"ok {commaOut (res.1.map showEv)} ignored={flagOut res.2}"
    | _, _, _, _, _ => some "bad-op"
  | ["dispatch.out", h, e, o, c] =>
    match parseHier h, parseListeners e, parseListeners o, c.toNat? with
    | some h, some e, some o, some c =>
      some s!"ok {commaOut ((writeOutgoing h e o c).map showOutEv)}"
    | _, _, _, _ => some "bad-op"
  | ["handlers", h, r, hs, f, x] =>
    match parseHier h, parseRBeh r, parseHandlers hs, parseFinal f, parseExc x with
    | some h, some r, some hs, some f, some x =>
      let o := handleException h r hs f x
      some (s!"ok calls={commaOut (o.calls.map toString)} final={flagOut o.finalCalled} " ++
        s!"recorded={showOptExc o.recorded} reraised={showOptExc o.reraised} " ++
        s!"swallowed={flagOut o.swallowedByReactor}")
    | _, _, _, _, _ => some "bad-op"
  | op :: _ =>
    if op ∈ ["dispatch.in", "dispatch.out", "handlers"] then some "bad-op" else none
  | [] => none

end PyCraft.Drive
