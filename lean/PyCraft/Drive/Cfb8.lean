import PyCraft.Drive.Util
import PyCraft.Model.Aes
import PyCraft.Model.Cfb8
namespace PyCraft.Drive
open PyCraft

/-- `s:<hex>` → `send`, `r:<hex>` → `recv` (socket wrapper), `f:<hex>` → `read` (file wrapper). -/
def parseChanOp (tok : String) : Option Op :=
  match tok.toList with
  | 's' :: ':' :: rest => (bytesOfHex (String.ofList rest)).map Op.send
  | 'r' :: ':' :: rest => (bytesOfHex (String.ofList rest)).map Op.recv
  | 'f' :: ':' :: rest => (bytesOfHex (String.ofList rest)).map Op.read
  | _ => none

def okList (outs : List Bytes) : String := " ".intercalate ("ok" :: outs.map hexOut)

/-- The block function `aes128 key`, with the key expanded once (`aes128_eq_blockWith`: same
function). -/
def aesFor (key : Bytes) : Bytes → Bytes :=
  let rks := aesKeySchedule key
  aesBlockWith rks

/-- `aes.block <keyhex> <blockhex>` → `ok <hex>` (`err:value` unless both are 16 bytes);
    `cfb8.enc <keyhex> <ivhex> <chunkhex>*` → `ok <outhex>*` (one output per chunk, one context
       across the chunks; `err:value` unless key and IV are 16 bytes); `cfb8.dec` likewise;
    `chan <secrethex> <op>*`, op = `s:<hex>` (send) | `r:<hex>` (recv) | `f:<hex>` (file read)
       → `ok <outhex>*`, one output per op: for `s` the ciphertext handed to the inner socket, for
       `r`/`f` the plaintext returned (`err:value` unless the secret is 16 bytes, as
       `create_AES_cipher` raises `ValueError`).  Hex `-` = empty. -/
def cfb8 (toks : List String) : Option String :=
  match toks with
  | ["aes.block", k, b] =>
    match bytesOfHex k, bytesOfHex b with
    | some key, some blk =>
      if key.length = 16 ∧ blk.length = 16 then some ("ok " ++ hexOut (aes128 key blk))
      else some "err:value"
    | _, _ => some "bad-op"
  | "aes.block" :: _ => some "bad-op"
  | "cfb8.enc" :: k :: iv :: chunks =>
    match bytesOfHex k, bytesOfHex iv, chunks.mapM bytesOfHex with
    | some key, some iv, some cs =>
      if key.length = 16 ∧ iv.length = 16 then
        some (okList (cfb8EncChunks (aesFor key) iv cs).2)
      else some "err:value"
    | _, _, _ => some "bad-op"
  | "cfb8.enc" :: _ => some "bad-op"
  | "cfb8.dec" :: k :: iv :: chunks =>
    match bytesOfHex k, bytesOfHex iv, chunks.mapM bytesOfHex with
    | some key, some iv, some cs =>
      if key.length = 16 ∧ iv.length = 16 then
        some (okList (cfb8DecChunks (aesFor key) iv cs).2)
      else some "err:value"
    | _, _, _ => some "bad-op"
  | "cfb8.dec" :: _ => some "bad-op"
  | "chan" :: s :: ops =>
    match bytesOfHex s, ops.mapM parseChanOp with
    | some secret, some ops =>
      match Chan.create secret with
      | .ok c => some (okList (Chan.run (aesFor secret) c ops).2)
      | .error e => some ("err:" ++ toString e)
    | _, _ => some "bad-op"
  | "chan" :: _ => some "bad-op"
  | _ => none

end PyCraft.Drive
