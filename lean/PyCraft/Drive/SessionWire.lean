import PyCraft.Drive.HandshakeWire
import PyCraft.Drive.LoginWire
import PyCraft.Drive.PlayWire
import PyCraft.Model.SessionWire
import PyCraft.Model.Aes
namespace PyCraft.Drive
open PyCraft PyCraft.Login PyCraft.Play PyCraft.Session

namespace SessionD

/-- `hs=<proto>:<hosthex>:<port>:<startid>:<namehex|-|~>` → protocol, host, port, login-start id,
login name (`~` = Python `None`). -/
def hs? (s : String) : Option (Nat × String × Nat × Nat × Option String) :=
  match s.splitOn ":" with
  | [v, h, p, i, n] =>
    match v.toNat?, HsWireD.strOfHex h, p.toNat?, HsWireD.start? (i ++ ":" ++ n) with
    | some v, some h, some p, some (i, n) => some (v, h, p, i, n)
    | _, _, _, _ => none
  | _ => none

/-- `login=<encid>:<plugid>:<token 0|1>:<secrethex>` -/
def login? (s : String) : Option (Nat × Nat × Bool × Bytes) :=
  match s.splitOn ":" with
  | [e, p, t, sec] =>
    match e.toNat?, p.toNat?, LoginD.flag? t, bytesOfHex sec with
    | some e, some p, some t, some sec => some (e, p, t, sec)
    | _, _, _, _ => none
  | _ => none

/-- `play=<ka=…>/<pos=…>/<disc=…>`: the three profile tokens of `playwire.run`. -/
def play? (s : String) : Option PlayWire.Profile :=
  match s.splitOn "/" with
  | [ka, pos, disc] =>
    match (PlayWireD.kv? "ka" ka).bind PlayWireD.ka?, (PlayWireD.kv? "pos" pos).bind PlayWireD.pos?,
        (PlayWireD.kv? "disc" disc).bind (·.toNat?) with
    | some (kaCb, kaSb, kaLong), some (posCb, ackSb, newer, dismount), some discCb =>
      some { kaCb := kaCb, kaSb := kaSb, posLookCb := posCb, teleportConfirmSb := ackSb,
             posLookSb := ackSb, disconnectCb := discCb, kaLong := kaLong, newer107 := newer,
             dismount := dismount, others := [] }
    | _, _, _ => none
  | _ => none

/-- Cut `L <login tokens> P <play tokens>`. -/
def sections? : List String → Option (List String × List String)
  | "L" :: rest =>
    let l := rest.takeWhile (· != "P")
    match rest.dropWhile (· != "P") with
    | "P" :: p => some (l, p)
    | _ => none
  | _ => none

/-- The login steps, scheduled exactly as `loginwire.run` does (optional leading `cap=<n>`). -/
def loginSteps? (toks : List String) : Option (List Step) :=
  let (cap, evs) :=
    match toks with
    | c :: rest =>
      match (LoginD.kv? "cap" c).bind (·.toNat?) with
      | some cap => (cap, rest)
      | none => (1, toks)
    | [] => (1, [])
  (LoginD.steps? evs).map fun items =>
    let steps := items.map (·.1)
    if steps.contains .flush then steps ++ [.flush] else schedule cap (events steps)

/-- A packet list whose `inboxOf` is the decoded inbox (what `read_packet` handed to `_react`). -/
def lift : PlayEv → PlayWire.SrvPkt
  | .keepAlive id => .keepAlive id
  | .posLook x y z yaw pitch fl tid =>
    .posLook x.toNat y.toNat z.toNat yaw.toNat pitch.toNat fl tid false
  | .unknown pid _ => .unknown pid []
  | .other name => .other 0 name []
  | .disconnect => .disconnect ""

def run (hs login play capw capr : String) (rest : List String) : String :=
  match (HsWireD.kv? "hs" hs).bind hs?, (HsWireD.kv? "login" login).bind login?,
      (HsWireD.kv? "play" play).bind play?, (PlayWireD.kv? "capw" capw).bind (·.toNat?),
      (PlayWireD.kv? "capr" capr).bind (·.toNat?), sections? rest with
  | some (proto, host, port, lsId, name), some (encId, plugId, hasTok, secret), some P, some capW,
      some capR, some (ltoks, ptoks) =>
    match loginSteps? ltoks, PlayWireD.evs? P ptoks with
    | some steps, some raws =>
      let z := LoginWireD.noZlib
      let E := aes128 secret
      let lp : LoginParams :=
        { rsa := LoginD.idRsa, secret := secret, hash := fun _ _ _ => "", hasToken := hasTok,
          jsonText := fun _ => .absent, handler := fun _ _ _ => none }
      let S0 : Session :=
        { conn := ⟨host, port, name, none⟩, proto := proto, lsId := lsId, lp := lp,
          ids := ⟨encId, plugId⟩, steps := steps, profile := P, pkts := [], peerOpen := true,
          capW := capW, capR := capR }
      match (clientBytes z E S0).2 with
      | some e => "err:" ++ toString e
      | none =>
        -- the play packets as the client decodes them (only looked at once play is reached)
        let srv := (raws.map (packetFrame z none)).flatten
        let decoded : Except Err (List PlayEv) :=
          if ReachesPlay S0 then
            match PlayWire.clientRead P idXform () z false [srv] with
            | (inbox, .eof) =>
              if (runLoop P.newer107 true capW capR inbox).isNone then .error .other
              else .ok inbox
            | (_, e) => .error e
          else .ok []
        match decoded with
        | .error e => "err:" ++ toString e
        | .ok inbox =>
          let S : Session := { S0 with pkts := inbox.map lift }
          let replies := if ReachesPlay S then playReplies S else []
          if LoginWireD.needsDeflate S.ids (outbox S) ||
              PlayWireD.needsDeflate (finalMode S).threshold
                (replies.map (PlayWire.replyFields P)) then "skip:deflate"
          else
            let cli := (clientBytes z E S).1
            let plain :=
              if (finalMode S).cipher.isSome then
                (firstSends S.lsId S.firstFrames).1.flatten.length +
                  ((LoginWire.splitAtEncResp (outbox S)).1.map
                    (LoginWire.frameOfSent z S.ids)).flatten.length
              else cli.length
            let want : Recovered :=
              { hs := some ⟨proto, host, port, 2⟩, name := name,
                login := (outbox S).map (LoginWire.wirePkt S.ids), key := (finalMode S).cipher,
                replies := replies, err := none, playEnd := some .eof }
            let got := serverRecoverSession z aes128 (fun c => c) lsId encId P (serverScript S) [cli]
            s!"ok cli={hexOut cli} plain={plain} srv={if got == want then 1 else 0}"
    | _, _ => "bad-op"
  | _, _, _, _, _, _ => "bad-op"

end SessionD

/-- `session.run hs=<proto>:<hosthex>:<port>:<startid>:<namehex> login=<encid>:<plugid>:<token>:<secrethex>
     play=<ka=…>/<pos=…>/<disc=…> capw=<n> capr=<n> L [cap=<n>] <login ev> … P <play ev> …`

One direct-login session, handshake → login → play, as ONE client → server byte stream
(`Session.clientBytes`, `Model/SessionWire.lean`).

* `hs=`: negotiated protocol number (decimal), `options.address` as the hex of its UTF-8 bytes
  (`-` = empty), port (decimal), the id of the login-start packet (decimal) and the login name as
  UTF-8 hex (`-` = empty name, `~` = Python `None`).
* `login=`: ids (decimal) of the encryption response and the plugin response, whether an auth
  token is present (`0|1`), and the shared secret (hex; RSA is the identity as in `loginwire.run`,
  the block function is AES-128 under the secret, key = IV = secret).
* `play=`: the `ka=<cbid>:<sbid>:<L|V>`, `pos=<cbid>:<ackSbId>:<T|E>:<D|->` and `disc=<cbid>`
  tokens of `playwire.run`, joined by `/`.  There is no `thr=`: the threshold of the play phase is
  the one the login events announce.
* `capw=`, `capr=`: the write / read caps of `NetworkingThread._run` (300 / 50 in the code).
* after `L`: the login events and scheduling exactly as `loginwire.run` / `login.run` take them
  (`enc:<serveridhex>:<pubkeyhex>:<tokenhex>`, `comp:<int>`, `plug:<id>:<channelhex>:<datahex>`,
  `succ`, `disc:<jsonhex>:<texthex|~|!>`, `fl`; optional leading `cap=<n>`, default 1).
* after `P`: the play events exactly as `playwire.run` takes them (`ka:<int>`,
  `pos:<x>:<y>:<z>:<yaw>:<pitch>:<flags>:<tid>`, `unk:<pid>:<hex>`, `disc:<jsonhex>`), in the
  order the server writes them; they are only looked at if the login reaches the play state.

Reply `ok cli=<hex> plain=<n> srv=<0|1>`: the whole client → server byte stream (handshake, login
start, login frames, play replies); the number of leading plaintext bytes (everything up to and
including the encryption response; the whole length if no cipher was installed); and whether the
reference server `Session.serverRecoverSession` (script `serverScript`) reading `cli` as one
segment recovers exactly: the handshake record (next state 2), the login name, every login frame,
the secret as key iff the cipher is on, and the play replies, ending with the stream exhausted.
`skip:deflate` if a login frame or a play reply would take the zlib `compress` branch (zlib is a
parameter of the model); `err:<Err>` if writing the first frames raises (`err:struct`: port ≥
65536; `err:other`: the name is `None`), if the client's `read_packet` raises on a play packet
(as in `playwire.run`), or `err:other` for `capr=0`; `bad-op` for anything unparsable. -/
def sessionwire (toks : List String) : Option String :=
  match toks with
  | "session.run" :: hs :: login :: play :: capw :: capr :: rest =>
    some (SessionD.run hs login play capw capr rest)
  | "session.run" :: _ => some "bad-op"
  | _ => none

end PyCraft.Drive
