import PyCraft.Drive.Util
import PyCraft.Model.Lifecycle
namespace PyCraft.Drive
open PyCraft PyCraft.Life

namespace LifeIO

def items (sep : String) (s : String) : List String :=
  if s = "-" ∨ s = "" then [] else s.splitOn sep

def kv (key : String) (tok : String) : Option String :=
  match tok.splitOn "=" with
  | [k, v] => if k = key then some v else none
  | _ => none

def behOfTok : String → Option Beh
  | "a" => some .accept
  | "r" => some .refuse
  | "d" => some .disconnects
  | "f" => some .fails
  | _ => none

def opOfTok : String → Option Op
  | "c" => some .connect
  | "s" => some .status
  | "d0" => some (.disconnect false)
  | "d1" => some (.disconnect true)
  | _ => none

def tidOfTok (tok : String) : Option Tid :=
  match tok.toList with
  | 'u' :: r => if r.isEmpty then none else (String.ofList r).toNat?.map .user
  | 'n' :: r => if r.isEmpty then none else (String.ofList r).toNat?.map .net
  | _ => none

def showOutcome : Outcome → String
  | .ok => "ok"
  | .invalidState => "invalid"
  | .refused => "refused"

def commas (l : List String) : String := if l.isEmpty then "-" else ",".intercalate l

def bit (b : Bool) : String := if b then "1" else "0"

def showTid : Tid → String
  | .user u => s!"u{u}"
  | .net i => s!"n{i}"

def showOp : Op → String
  | .connect => "c"
  | .status => "s"
  | .disconnect false => "d0"
  | .disconnect true => "d1"

def showOptNat : Option Nat → String
  | some c => toString c
  | none => "x"

def showEv : Ev → String
  | .call op out => s!"call:{showOp op}:{showOutcome out}"
  | .rel => "rel"
  | .joined => "joined"
  | .take => "take"
  | .chk b => s!"chk:{bit b}"
  | .wr c => s!"wr:{showOptNat c}"
  | .wrFail => "wrfail"
  | .rd c .silent => s!"rd:{showOptNat c}:silent"
  | .rd c .packet => s!"rd:{showOptNat c}:packet"
  | .rd c .error => s!"rd:{showOptNat c}:error"
  | .exit => "exit"
  | .exc => "exc"
  | .hrun b => s!"hrun:{bit b}"
  | .hchk (some b) => s!"hchk:{bit b}"
  | .hchk none => "hchk:x"
  | .epi => "epi"
  | .fin => "fin"
  | .die => "die"

/-- A networking thread whose next action is the interrupt check in front of a read that would
return nothing: it idles (the sequential harness parks it; it stays alive). -/
def parked (env : List Beh) (s : Sys) (i : Nat) : Bool :=
  (s.net i).pc == .rChk && !(s.net i).intr &&
    match s.file with
    | .open c => env.getD c .accept == .accept || env.getD c .accept == .refuse
    | _ => false

/-- The first networking thread, in creation order, that can take a step and is not parked. -/
def nextRunnable (env : List Beh) (s : Sys) : Option Nat :=
  (List.range s.nthreads).find? fun i => !parked env s i && (step env s (.net i)).isSome

/-- Run the networking threads, in creation order, until each is dead, parked or blocked. -/
def quiesce (env : List Beh) : Nat → Sys → Sys
  | 0, s => s
  | fuel + 1, s =>
    match nextRunnable env s with
    | none => s
    | some i =>
      match step env s (.net i) with
      | some s' => quiesce env fuel s'
      | none => s

/-- Sequential execution by user thread `0`: each API call (two steps: locked body, release) is
followed by running the networking threads to quiescence. -/
def seqRun (env : List Beh) : Nat → Sys → Sys
  | 0, s => s
  | n + 1, s =>
    match step env s (.user 0) with
    | none => s
    | some s1 =>
      match step env s1 (.user 0) with
      | none => s1
      | some s2 => seqRun env n (quiesce env 100000 s2)

def aliveCount (s : Sys) : Nat :=
  ((List.range s.nthreads).filter fun i => (s.net i).pc.alive).length

def summary (s : Sys) : String :=
  s!"conns={s.conns} threads={s.nthreads} alive={aliveCount s} nt={bit s.nt.isSome} " ++
  s!"sock={bit (s.socket != Sock.none)} connected={bit s.connected}"

end LifeIO
open LifeIO

/-- `life.run servers=<b,b,…|-> rl=<k> rh=<k> <op> <op> …` with `b` ∈ `a|r|d|f` (accept, refuse,
disconnects, fails; one per TCP connection attempt, further attempts are accepted), `rl` / `rh` =
how many times the listener / the exception handler reconnects, `op` ∈ `c|s|d0|d1`; ONE user
thread, the networking threads are run to quiescence in creation order after every call →
`ok <outcome>,…|- conns=<attempts> threads=<created> alive=<n> nt=<0|1> sock=<0|1> connected=<0|1>`
with outcome ∈ `ok|invalid|refused`.

`life.sched servers=… rl=<k> rh=<k> progs=<op,…>;<op,…>;… sched=<t,t,…>` with `t` = `u<k>` (user
thread `k`, running the `k`-th program) | `n<k>` (the `k`-th networking thread created); schedule
entries that are not enabled are skipped →
`ok outs=<outcome,…|->;… log=<t>:<event>,… <summary as above> skipped=<k>`. -/
def lifecycle (toks : List String) : Option String :=
  match toks with
  | "life.run" :: a :: b :: c :: ops =>
    match (kv "servers" a).bind (fun s => (items "," s).mapM behOfTok),
          (kv "rl" b).bind String.toNat?, (kv "rh" c).bind String.toNat?,
          ops.mapM opOfTok with
    | some env, some rl, some rh, some prog =>
      let s := seqRun env prog.length (init [prog] rl rh)
      some (s!"ok {commas ((s.usr 0).outs.map showOutcome)} {summary s}")
    | _, _, _, _ => some "bad-op"
  | ["life.sched", a, b, c, d, e] =>
    match (kv "servers" a).bind (fun s => (items "," s).mapM behOfTok),
          (kv "rl" b).bind String.toNat?, (kv "rh" c).bind String.toNat?,
          (kv "progs" d).bind (fun s => (items ";" s).mapM fun p => (items "," p).mapM opOfTok),
          (kv "sched" e).bind (fun s => (items "," s).mapM tidOfTok) with
    | some env, some rl, some rh, some progs, some sched =>
      let s0 := init progs rl rh
      let s := run env s0 sched
      let outs := (List.range progs.length).map fun u => commas ((s.usr u).outs.map showOutcome)
      let log := s.log.map fun e => s!"{showTid e.1}:{showEv e.2}"
      some (s!"ok outs={";".intercalate outs} log={commas log} {summary s} " ++
            s!"skipped={skipped env s0 sched}")
    | _, _, _, _, _ => some "bad-op"
  | tok :: _ => if tok.startsWith "life." then some "bad-op" else none
  | [] => none

end PyCraft.Drive
