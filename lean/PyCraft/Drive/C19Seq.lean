import PyCraft.Drive.Auth
import PyCraft.Model.C19Seq
import PyCraft.Ref.C19Json
/-!
Line-protocol commands for `Model/C19Seq.lean` / `Model/C19Json.lean` / `Ref/C19Json.lean`.

Field syntax: `S` = a string as lower-case hex of its UTF-8 bytes, `-` for the empty string;
`J` = a JSON value as `S` of a JSON text (e.g. `6e756c6c` = `null`, `227822` = `"x"`), read with the
reference decoder `Ref.Json.parseJson` (integers only, no lone surrogates, keep object keys distinct)
and written with `Json.jsonDumps`; `~` = Python `None` where noted.

* `c19json <S text>` → `ok <S of json.dumps(json.loads(text))>` | `err:value` (text is not JSON).
* `authseq.run <inits> <step> <step> …` →
  `ok obs=<obs>;<obs>;…|- final=<tok>;<tok>;…|-`
    - `<inits>` = `-` | `J,J,J;J,J,J;…`: `AuthenticationToken(username, access_token, client_token)`
      per token, in order (token numbers 0, 1, …);
    - `<step>` = `<call>@<resp>`;
      `<call>` = `auth:<i>:<fresh S>:<user S>:<pass S>:<0|1 invalidate_previous>` | `refresh:<i>` |
      `validate:<i>` | `invalidate:<i>` | `join:<i>:<sid S>` | `signout:<user S>:<pass S>`;
      `<resp>` = `fail` (requests.post raises) | `<status>:<S res.text>` (`res.json()` = the text
      decoded, a `ValueError` if it is not JSON);
    - `<obs>` = `skip` (no such token) | `<outcome>/<request>`;
      `<outcome>` = `ret:1` | `ret:0` | `ret:none` |
        `ygg:<status_code|~>:<yggdrasil_error J>:<yggdrasil_message J>:<yggdrasil_cause J>:<args[0] S|~|?>`
        (`?`: the text contains the `repr` of a list/dict, not modelled) |
        `value:<access|client|json>` | `key:<key S>` | `type` | `attr` | `transport`;
      `<request>` = `none` | `<method>,<url S>,<headers S of k=v;k=v>,<body S>,<timeout>`;
    - `<tok>` = `J,J,J,J,J`: username, access_token, client_token, profile.id_, profile.name.
-/
namespace PyCraft.Drive
open PyCraft PyCraft.Json PyCraft.AuthSeq PyCraft.Ref.Json

namespace C19SeqIO
open AuthIO (strOfHex hexOfStr boolOfTok)

def jvalOfTok (s : String) : Option JVal := (strOfHex s).bind parseJson

def showJ (v : JVal) : String := hexOfStr (jsonDumps v)

def parseInits (s : String) : Option (List (JVal × JVal × JVal)) :=
  if s = "-" then some []
  else (s.splitOn ";").mapM fun t =>
    match (t.splitOn ",").map jvalOfTok with
    | [some u, some a, some c] => some (u, a, c)
    | _ => none

def parseCall (s : String) : Option Call :=
  match s.splitOn ":" with
  | ["auth", i, f, u, p, inv] =>
    match i.toNat?, strOfHex f, strOfHex u, strOfHex p, boolOfTok inv with
    | some i, some f, some u, some p, some inv => some (.method i (.authenticate f u p inv))
    | _, _, _, _, _ => none
  | ["refresh", i] => i.toNat?.map (.method · .refresh)
  | ["validate", i] => i.toNat?.map (.method · .validate)
  | ["invalidate", i] => i.toNat?.map (.method · .invalidate)
  | ["join", i, sid] =>
    match i.toNat?, strOfHex sid with
    | some i, some sid => some (.method i (.join sid))
    | _, _ => none
  | ["signout", u, p] =>
    match strOfHex u, strOfHex p with
    | some u, some p => some (.signOut u p)
    | _, _ => none
  | _ => none

def parseResp (s : String) : Option Resp :=
  if s = "fail" then some .fail
  else
    match s.splitOn ":" with
    | [st, txt] =>
      match st.toNat?, strOfHex txt with
      | some st, some txt => some (.reply ⟨st, txt, parseJson txt⟩)
      | _, _ => none
    | _ => none

def parseStep (s : String) : Option (Call × Resp) :=
  match s.splitOn "@" with
  | [c, r] =>
    match parseCall c, parseResp r with
    | some c, some r => some (c, r)
    | _, _ => none
  | _ => none

def isContainer : JVal → Bool
  | .arr _ => true
  | .obj _ => true
  | _ => false

def showArgs : Option Msg → String
  | none => "~"
  | some (.error st e m) =>
    if isContainer e || isContainer m then "?" else hexOfStr ((Msg.error st e m).text fun _ => "")
  | some msg => hexOfStr (msg.text fun _ => "")

def showOutcome : Outcome → String
  | .ret true => "ret:1"
  | .ret false => "ret:0"
  | .retNone => "ret:none"
  | .yggdrasil args st e m c =>
    let sts := match st with
      | some n => toString n
      | none => "~"
    s!"ygg:{sts}:{showJ e}:{showJ m}:{showJ c}:{showArgs args}"
  | .valueError .accessTokenNotSet => "value:access"
  | .valueError .clientTokenNotSet => "value:client"
  | .valueError .notJson => "value:json"
  | .keyError k => "key:" ++ hexOfStr k
  | .typeError => "type"
  | .attributeError => "attr"
  | .transport => "transport"

def showRequest : Option Request → String
  | none => "none"
  | some q =>
    let hs := ";".intercalate (q.headers.map fun kv => kv.1 ++ "=" ++ kv.2)
    s!"{q.method},{hexOfStr q.url},{hexOfStr hs},{hexOfStr q.body},{q.timeout}"

def showObs : Obs → String
  | none => "skip"
  | some (o, q) => showOutcome o ++ "/" ++ showRequest q

def showToken (t : Token) : String :=
  ",".intercalate [showJ t.username, showJ t.accessToken, showJ t.clientToken,
    showJ t.profile.id_, showJ t.profile.name]

def listOr (xs : List String) : String := if xs.isEmpty then "-" else ";".intercalate xs

end C19SeqIO

open C19SeqIO in
/-- `c19json …`, `authseq.run …` (syntax in the module documentation). -/
def c19seq (toks : List String) : Option String :=
  match toks with
  | ["c19json", t] =>
    match AuthIO.strOfHex t with
    | none => some "bad-op"
    | some txt =>
      match parseJson txt with
      | some v => some ("ok " ++ showJ v)
      | none => some "err:value"
  | "authseq.run" :: inits :: steps =>
    match parseInits inits, steps.mapM parseStep with
    | some inits, some steps =>
      let res := runSeq (build World.newToken inits) steps
      let final := (List.range inits.length).filterMap res.1.view
      some s!"ok obs={listOr (res.2.map showObs)} final={listOr (final.map showToken)}"
    | _, _ => some "bad-op"
  | "c19json" :: _ => some "bad-op"
  | "authseq.run" :: _ => some "bad-op"
  | _ => none

end PyCraft.Drive
