import PyCraft.Drive.Util
import PyCraft.Model.VarInt
namespace PyCraft.Drive
open PyCraft

/-- `varint.enc <int>` → `ok <hex>` | `err:value`;
    `varint.dec <max_bytes> <hex>` → `ok <n> <resthex> reads=<k>` | `err:<e> reads=<k>`;
    `varint.size <int>` → `ok <k>` | `err:value`. -/
def varint (toks : List String) : Option String :=
  match toks with
  | ["varint.enc", n] =>
    match n.toInt? with
    | some v => some (exc hexOut (encVarIntZ v))
    | none => some "bad-op"
  | ["varint.dec", mx, h] =>
    match mx.toNat?, bytesOfHex h with
    | some mx, some bs =>
      some (exc (fun (p : Nat × Bytes) => s!"{p.1} {hexOut p.2}") (decVarInt mx bs)
        ++ s!" reads={decVarIntReads mx 0 bs}")
    | _, _ => some "bad-op"
  | ["varint.size", n] =>
    match n.toInt? with
    | some v => some (exc toString (varintSize v))
    | none => some "bad-op"
  | _ => none

end PyCraft.Drive
