import PyCraft.Drive.Util
import PyCraft.Model.Packets.Map
import PyCraft.Model.Packets.PlayerListItem
import PyCraft.Model.Packets.SpawnObject
import PyCraft.Model.Packets.CombatEvent
import PyCraft.Model.Packets.FacePlayer
import PyCraft.Model.Packets.PluginResponse
/-!
Line-protocol handler for the hand-written packet codecs (`Model/Packets/*.lean`).

```
pk.enc <kind> <flags> <field tokens…>   →  ok <hex> | err:<e>
pk.dec <kind> <flags> <hex>             →  ok <field tokens…> rest=<hex> | err:<e>
```
`<kind>` ∈ `map` `pli` `spawn` `combat` `face` `plugresp`.  `<flags>` is a string of `0`/`1`, one
character per flag in the order given below, or `-` for a kind without flags.  Anything unparsable
yields `bad-op`.

Scalars: integers are decimal (`-5`); booleans `0`/`1`; byte strings lower-case hex, `-` = empty;
strings are the hex of their UTF-8 bytes, `-` = empty string; `~` = `None` / attribute absent
(only where the field is optional).  Lists are `[a,b,…]`, `[]` = empty.

* `plugresp`, flags `-`: `<message_id> <successful:0|1|~> <data:hex|-|~>`
* `face`, flags `<v353>`: `<origin|~> <x|~> <y|~> <z|~> <entity_id|~> <entity_origin|~>`
  (x, y, z: the 64-bit IEEE pattern as an unsigned decimal integer)
* `combat`, flags `<pre15>`: ONE token `enter` | `end:<duration>:<entity_id>` |
  `dead:<player_id>:<entity_id>:<message>`
* `spawn`, flags `<v49><v458><v100>`: `<entity_id> <uuid:hex|~> <type_id> <x> <y> <z> <pitch> <yaw>
  <data> <vx|~> <vy|~> <vz|~>` (x, y, z: double pattern if v100 else the 32-bit integer; pitch, yaw:
  the Angle wire step)
* `map`, flags `<v107><v452><pre6><v373><v364>`: `<map_id> <scale> <is_tracking_position:0|1>
  <is_locked:0|1> <icons> <width> <height> <offset: x:z | ~> <pixels:hex|-|~>` with
  `<icons>` = `[icon,…]`, icon = `<type>:<direction>:<x>:<z>:<display_name:hex|-|~>`
* `pli`, flags `-`: `<action_type:0..4> <actions>` with `<actions>` = `[action,…]`, action =
  `a:<uuid>:<name>:<properties>:<gamemode>:<ping>:<display_name|~>` | `g:<uuid>:<gamemode>` |
  `l:<uuid>:<ping>` | `d:<uuid>:<display_name|~>` | `r:<uuid>`; `<properties>` = `[prop,…]`,
  prop = `<name>/<value>/<signature|~>`
-/
namespace PyCraft.Drive
open PyCraft PyCraft.Pk

namespace PkSyntax

/-- split at `sep` outside square brackets -/
def splitTopAux (sep : Char) : List Char → Nat → List Char → List (List Char)
  | [], _, cur => [cur.reverse]
  | c :: cs, d, cur =>
    if c = '[' then splitTopAux sep cs (d + 1) (c :: cur)
    else if c = ']' then splitTopAux sep cs (d - 1) (c :: cur)
    else if c = sep ∧ d = 0 then cur.reverse :: splitTopAux sep cs 0 []
    else splitTopAux sep cs d (c :: cur)

def splitTop (sep : Char) (s : String) : List String :=
  (splitTopAux sep s.toList 0 []).map String.ofList

/-- the items of `[a,b,…]` (split at top-level commas) -/
def listItems? (s : String) : Option (List String) :=
  match s.toList with
  | '[' :: rest =>
    match rest.reverse with
    | ']' :: inner =>
      if inner.isEmpty then some [] else some (splitTop ',' (String.ofList inner.reverse))
    | _ => none
  | _ => none

def flags? (n : Nat) (s : String) : Option (List Bool) :=
  if n = 0 then (if s = "-" then some [] else none)
  else if s.length = n ∧ s.toList.all (fun c => c = '0' ∨ c = '1') then
    some (s.toList.map (· = '1'))
  else none

def bool? (s : String) : Option Bool :=
  if s = "0" then some false else if s = "1" then some true else none

def int? (s : String) : Option Int := s.toInt?

def str? (s : String) : Option String := (bytesOfHex s).bind utf8Decode

/-- `~` = absent -/
def opt? {α : Type} (p : String → Option α) (s : String) : Option (Option α) :=
  if s = "~" then some none else (p s).map some

def showBool (b : Bool) : String := if b then "1" else "0"
def showStr (s : String) : String := hexOut (utf8 s)
def showOpt {α : Type} (f : α → String) : Option α → String
  | some v => f v
  | none => "~"
def showInt (i : Int) : String := toString i
def showList {α : Type} (f : α → String) (xs : List α) : String :=
  "[" ++ ",".intercalate (xs.map f) ++ "]"

/-! ### per-kind field syntax -/

def plugresp? : List String → Option PluginRespPkt
  | [i, s, d] => do
    let i ← int? i
    let s ← opt? bool? s
    let d ← opt? bytesOfHex d
    pure ⟨i, s, d⟩
  | _ => none

def showPlugresp (p : PluginRespPkt) : String :=
  s!"{showInt p.messageId} {showOpt showBool p.successful} {showOpt hexOut p.data}"

def face? : List String → Option FacePkt
  | [o, x, y, z, e, eo] => do
    let o ← opt? int? o
    let x ← opt? int? x
    let y ← opt? int? y
    let z ← opt? int? z
    let e ← opt? int? e
    let eo ← opt? int? eo
    pure ⟨o, x, y, z, e, eo⟩
  | _ => none

def showFace (p : FacePkt) : String :=
  " ".intercalate
    ([p.origin, p.x, p.y, p.z, p.entityId, p.entityOrigin].map (showOpt showInt))

def combat? : List String → Option CombatEvent
  | [t] =>
    match t.splitOn ":" with
    | ["enter"] => some .enter
    | ["end", d, e] => do
      let d ← int? d
      let e ← int? e
      pure (.endCombat d e)
    | ["dead", p, e, m] => do
      let p ← int? p
      let e ← int? e
      let m ← str? m
      pure (.dead p e m)
    | _ => none
  | _ => none

def showCombat : CombatEvent → String
  | .enter => "enter"
  | .endCombat d e => s!"end:{d}:{e}"
  | .dead p e m => s!"dead:{p}:{e}:{showStr m}"

def spawn? : List String → Option SpawnPkt
  | [eid, u, t, x, y, z, pitch, yaw, data, vx, vy, vz] => do
    let eid ← int? eid
    let u ← opt? bytesOfHex u
    let t ← int? t
    let x ← int? x
    let y ← int? y
    let z ← int? z
    let pitch ← int? pitch
    let yaw ← int? yaw
    let data ← int? data
    let vx ← opt? int? vx
    let vy ← opt? int? vy
    let vz ← opt? int? vz
    pure ⟨eid, u, t, x, y, z, pitch, yaw, data, vx, vy, vz⟩
  | _ => none

def showSpawn (p : SpawnPkt) : String :=
  " ".intercalate
    [showInt p.entityId, showOpt hexOut p.objectUuid, showInt p.typeId, showInt p.x, showInt p.y,
     showInt p.z, showInt p.pitch, showInt p.yaw, showInt p.data, showOpt showInt p.velocityX,
     showOpt showInt p.velocityY, showOpt showInt p.velocityZ]

def icon? (s : String) : Option MapIcon :=
  match s.splitOn ":" with
  | [t, d, x, z, n] => do
    let t ← int? t
    let d ← int? d
    let x ← int? x
    let z ← int? z
    let n ← opt? str? n
    pure ⟨t, d, x, z, n⟩
  | _ => none

def showIcon (ic : MapIcon) : String :=
  s!"{ic.type}:{ic.direction}:{ic.x}:{ic.z}:{showOpt showStr ic.displayName}"

def offset? (s : String) : Option (Int × Int) :=
  match s.splitOn ":" with
  | [x, z] => do
    let x ← int? x
    let z ← int? z
    pure (x, z)
  | _ => none

def map? : List String → Option MapPkt
  | [i, sc, tr, lk, ics, w, h, off, px] => do
    let i ← int? i
    let sc ← int? sc
    let tr ← bool? tr
    let lk ← bool? lk
    let ics ← (← listItems? ics).mapM icon?
    let w ← int? w
    let h ← int? h
    let off ← opt? offset? off
    let px ← opt? bytesOfHex px
    pure ⟨i, sc, tr, lk, ics, w, h, off, px⟩
  | _ => none

def showMap (p : MapPkt) : String :=
  " ".intercalate
    [showInt p.mapId, showInt p.scale, showBool p.isTrackingPosition, showBool p.isLocked,
     showList showIcon p.icons, showInt p.width, showInt p.height,
     showOpt (fun (o : Int × Int) => s!"{o.1}:{o.2}") p.offset, showOpt hexOut p.pixels]

def prop? (s : String) : Option PlayerProperty :=
  match s.splitOn "/" with
  | [n, v, sg] => do
    let n ← str? n
    let v ← str? v
    let sg ← opt? str? sg
    pure ⟨n, v, sg⟩
  | _ => none

def showProp (pr : PlayerProperty) : String :=
  s!"{showStr pr.name}/{showStr pr.value}/{showOpt showStr pr.signature}"

def action? (s : String) : Option Action :=
  match splitTop ':' s with
  | ["a", u, n, ps, g, p, dn] => do
    let u ← bytesOfHex u
    let n ← str? n
    let ps ← (← listItems? ps).mapM prop?
    let g ← int? g
    let p ← int? p
    let dn ← opt? str? dn
    pure (.addPlayer u n ps g p dn)
  | ["g", u, g] => do
    let u ← bytesOfHex u
    let g ← int? g
    pure (.updateGameMode u g)
  | ["l", u, p] => do
    let u ← bytesOfHex u
    let p ← int? p
    pure (.updateLatency u p)
  | ["d", u, dn] => do
    let u ← bytesOfHex u
    let dn ← opt? str? dn
    pure (.updateDisplayName u dn)
  | ["r", u] => do
    let u ← bytesOfHex u
    pure (.removePlayer u)
  | _ => none

def showAction : Action → String
  | .addPlayer u n ps g p dn =>
    s!"a:{hexOut u}:{showStr n}:{showList showProp ps}:{g}:{p}:{showOpt showStr dn}"
  | .updateGameMode u g => s!"g:{hexOut u}:{g}"
  | .updateLatency u p => s!"l:{hexOut u}:{p}"
  | .updateDisplayName u dn => s!"d:{hexOut u}:{showOpt showStr dn}"
  | .removePlayer u => s!"r:{hexOut u}"

def kind? : String → Option ActionKind
  | "0" => some .addPlayer | "1" => some .updateGameMode | "2" => some .updateLatency
  | "3" => some .updateDisplayName | "4" => some .removePlayer | _ => none

def pli? : List String → Option PliPkt
  | [k, as] => do
    let k ← kind? k
    let as ← (← listItems? as).mapM action?
    pure ⟨k, as⟩
  | _ => none

def showPli (p : PliPkt) : String :=
  s!"{p.actionType.actionId} {showList showAction p.actions}"

/-- reply of a `pk.dec` -/
def decReply {α : Type} (f : α → String) (r : Except Err (α × Bytes)) : String :=
  exc (fun (p : α × Bytes) => s!"{f p.1} rest={hexOut p.2}") r

/-- `pk.enc` for one kind: flags and field tokens → reply -/
def encKind (kind flags : String) (fields : List String) : Option String :=
  match kind with
  | "plugresp" => do
    let _ ← flags? 0 flags
    let p ← plugresp? fields
    pure (exc hexOut (writePluginResp p))
  | "face" =>
    match flags? 1 flags with
    | some [a] => do
      let p ← face? fields
      pure (exc hexOut (writeFace ⟨a⟩ p))
    | _ => none
  | "combat" =>
    match flags? 1 flags with
    | some [a] => do
      let p ← combat? fields
      pure (exc hexOut (writeCombat ⟨a⟩ p))
    | _ => none
  | "spawn" =>
    match flags? 3 flags with
    | some [a, b, c] => do
      let p ← spawn? fields
      pure (exc hexOut (writeSpawn ⟨a, b, c⟩ p))
    | _ => none
  | "map" =>
    match flags? 5 flags with
    | some [a, b, c, d, e] => do
      let p ← map? fields
      pure (exc hexOut (writeMap ⟨a, b, c, d, e⟩ p))
    | _ => none
  | "pli" => do
    let _ ← flags? 0 flags
    let p ← pli? fields
    pure (exc hexOut (writePli p))
  | _ => none

/-- `pk.dec` for one kind -/
def decKind (kind flags : String) (bs : Bytes) : Option String :=
  match kind with
  | "plugresp" => do
    let _ ← flags? 0 flags
    pure (decReply showPlugresp (readPluginResp bs))
  | "face" =>
    match flags? 1 flags with
    | some [a] => some (decReply showFace (readFace ⟨a⟩ bs))
    | _ => none
  | "combat" =>
    match flags? 1 flags with
    | some [a] => some (decReply showCombat (readCombat ⟨a⟩ bs))
    | _ => none
  | "spawn" =>
    match flags? 3 flags with
    | some [a, b, c] => some (decReply showSpawn (readSpawn ⟨a, b, c⟩ bs))
    | _ => none
  | "map" =>
    match flags? 5 flags with
    | some [a, b, c, d, e] => some (decReply showMap (readMap ⟨a, b, c, d, e⟩ bs))
    | _ => none
  | "pli" => do
    let _ ← flags? 0 flags
    pure (decReply showPli (readPli bs))
  | _ => none

end PkSyntax

open PkSyntax

/-- `pk.enc <kind> <flags> <fields…>` / `pk.dec <kind> <flags> <hex>`; see the module comment for the
exact syntax.  Unparsable arguments → `bad-op`. -/
def packets (toks : List String) : Option String :=
  match toks with
  | "pk.enc" :: kind :: flags :: fields => some ((encKind kind flags fields).getD "bad-op")
  | ["pk.dec", kind, flags, h] =>
    match bytesOfHex h with
    | some bs => some ((decKind kind flags bs).getD "bad-op")
    | none => some "bad-op"
  | op :: _ => if op = "pk.enc" ∨ op = "pk.dec" then some "bad-op" else none
  | [] => none

end PyCraft.Drive
