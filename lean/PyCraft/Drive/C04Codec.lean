import PyCraft.Drive.Util
import PyCraft.Drive.Versions
import PyCraft.Model.C04Codec
import PyCraft.Generated.Versions
namespace PyCraft.Drive
open PyCraft

namespace C04V

/-- `live` = the tabulated tables of the running module (`Generated/Versions.lean`), otherwise a
comma list of known protocol numbers in chronological order (as for `ver.cmp`). -/
def tables? (tok : String) : Option Tables :=
  if tok = "live" then some liveTables else (Ver.parseNats tok).map Ver.tablesOfKp

def showPos (p : (Int × Int × Int) × Bytes) : String :=
  s!"{p.1.1} {p.1.2.1} {p.1.2.2} {hexOut p.2}"

def showRec (p : (Int × Int × Int × Int) × Bytes) : String :=
  s!"{p.1.1} {p.1.2.1} {p.1.2.2.1} {p.1.2.2.2} {hexOut p.2}"

end C04V

open C04V in
/-- The four version-dispatching codec methods, under `ConnectionContext(protocol_version=<v>)`.
`<kp>` is `live` or a comma list of known protocols (chronological).
    `posv.enc <kp> <v> <x> <y> <z>` → `ok <16 hex>` | `err:<e>`   (`Position.send_with_context`);
    `posv.dec <kp> <v> <hex>` → `ok <x> <y> <z> <resthex>` | `err:<e>`   (`Position.read_with_context`);
    `recordv.enc <kp> <v> <x> <y> <z> <block_state_id>` → `ok <hex>` | `err:<e>`
      (`MultiBlockChangePacket.Record.send_with_context`);
    `recordv.dec <kp> <v> <hex>` → `ok <x> <y> <z> <block_state_id> <resthex>` | `err:<e>`
      (`Record.read_with_context`).
An unknown `<v>` gives `err:other` (KeyError), except that `posv.dec` on fewer than 8 bytes gives
`err:struct` first. -/
def c04codec (toks : List String) : Option String :=
  match toks with
  | ["posv.enc", kp, v, x, y, z] =>
    match tables? kp, v.toNat?, x.toInt?, y.toInt?, z.toInt? with
    | some t, some v, some x, some y, some z => some (exc hexOut (posSendV t v x y z))
    | _, _, _, _, _ => some "bad-op"
  | ["posv.dec", kp, v, h] =>
    match tables? kp, v.toNat?, bytesOfHex h with
    | some t, some v, some bs => some (exc showPos (posReadV t v bs))
    | _, _, _ => some "bad-op"
  | ["recordv.enc", kp, v, x, y, z, b] =>
    match tables? kp, v.toNat?, x.toInt?, y.toInt?, z.toInt?, b.toInt? with
    | some t, some v, some x, some y, some z, some b => some (exc hexOut (recSendV t v x y z b))
    | _, _, _, _, _, _ => some "bad-op"
  | ["recordv.dec", kp, v, h] =>
    match tables? kp, v.toNat?, bytesOfHex h with
    | some t, some v, some bs => some (exc showRec (recReadV t v bs))
    | _, _, _ => some "bad-op"
  | op :: _ =>
    if op ∈ ["posv.enc", "posv.dec", "recordv.enc", "recordv.dec"] then some "bad-op" else none
  | [] => none

end PyCraft.Drive
