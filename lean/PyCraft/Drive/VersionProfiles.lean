import PyCraft.Drive.Util
import PyCraft.Model.VersionProfiles
namespace PyCraft.Drive
open PyCraft PyCraft.VersionProfiles

namespace VProfile

def optId : Option Nat → String
  | some i => toString i
  | none => "-"

def showPlay (P : PlayWire.Profile) : String :=
  s!"ok ka={P.kaCb}:{P.kaSb}:{if P.kaLong then "L" else "V"} " ++
  s!"pos={P.posLookCb}:{P.ackSb}:{if P.newer107 then "T" else "E"}:{if P.dismount then "D" else "-"} " ++
  s!"disc={P.disconnectCb} tc={P.teleportConfirmSb} echo={P.posLookSb} " ++
  s!"setcomp={optId P.setCompressionCb} " ++
  s!"others={if P.others.isEmpty then "-" else ",".intercalate (P.others.map fun e => toString e.1)}"

def showLogin (L : LoginProfile) : String :=
  s!"ok ls={L.lsId} enc={L.ids.encResp} plug={L.ids.plugResp} plugin={if L.plugin then 1 else 0} " ++
  s!"cb={L.discCb}:{L.encReqCb}:{L.successCb}:{L.setCompCb}:{optId L.plugReqCb} " ++
  s!"uuid={if L.uuidBinary then "B" else "S"}"

end VProfile

/-- `vprofile.play <protocol>` → `ok ka=<cbId>:<sbId>:<L|V> pos=<cbId>:<ackSbId>:<T|E>:<D|-> disc=<cbId>
     tc=<sbId> echo=<sbId> setcomp=<cbId|-> others=<id>,<id>,…|-`  (the first three tokens are exactly
     the profile tokens of `playwire.run`), or `err:value` when the number is not a supported protocol
     version (`Connection` refuses it).

    `vprofile.login <protocol>` → `ok ls=<id> enc=<id> plug=<id> plugin=<0|1>
     cb=<disconnect>:<encryption request>:<login success>:<set compression>:<plugin request|->
     uuid=<B|S>`, or `err:value`. -/
def vprofile (toks : List String) : Option String :=
  match toks with
  | ["vprofile.play", v] =>
    some (match v.toNat? with
      | none => "bad-op"
      | some v =>
        match profileOf v with
        | some P => VProfile.showPlay P
        | none => "err:value")
  | ["vprofile.login", v] =>
    some (match v.toNat? with
      | none => "bad-op"
      | some v =>
        match loginProfileOf v with
        | some L => VProfile.showLogin L
        | none => "err:value")
  | "vprofile.play" :: _ => some "bad-op"
  | "vprofile.login" :: _ => some "bad-op"
  | _ => none

end PyCraft.Drive
