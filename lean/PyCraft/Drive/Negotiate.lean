import PyCraft.Drive.Util
import PyCraft.Model.Negotiate
namespace PyCraft.Drive
open PyCraft PyCraft.Neg

/-- `key=value` → `value`. -/
private def kv (key tok : String) : Option String :=
  let k := (key ++ "=").toList
  if k.isPrefixOf tok.toList then some (String.ofList (tok.toList.drop k.length)) else none

/-- Comma separated list, `-` = empty. -/
private def items (s : String) : List String := if s = "-" then [] else s.splitOn ","

private def natList (s : String) : Option (List Nat) := (items s).mapM String.toNat?

/-- Hex of the UTF-8 bytes of a string (`-` = empty string). -/
private def strOfHex (h : String) : Option String := do
  let bs ← bytesOfHex h
  String.fromUTF8? ⟨bs.toArray⟩

private def hexOfStr (s : String) : String := hexOut s.toUTF8.toList

/-- `~` = `None`, otherwise a hex string. -/
private def optStrOfHex (h : String) : Option (Option String) :=
  if h = "~" then some none else (strOfHex h).map some

private def showOptStr : Option String → String
  | none => "~"
  | some s => hexOfStr s

private def showNats (l : List Nat) : String :=
  if l.isEmpty then "-" else ",".intercalate (l.map toString)

private def bit : Bool → String
  | true => "1"
  | false => "0"

/-- `s<hex>` (a `str`), `i<int>` (an `int`), `x` (any other type). -/
private def vreq (s : String) : Option VReq :=
  match s.toList with
  | ['x'] => some .other
  | 's' :: rest => (strOfHex (if rest.isEmpty then "-" else String.ofList rest)).map .name
  | 'i' :: rest => (String.ofList rest).toInt?.map .num
  | _ => none

private def namePair (s : String) : Option (String × Nat) :=
  match s.splitOn ":" with
  | [h, n] => do
    let id ← strOfHex h
    let v ← n.toNat?
    pure (id, v)
  | _ => none

private def reply (s : String) : Option StatusReply :=
  match s.splitOn ":" with
  | ["p", n, nm] => do
    let v ← n.toInt?
    let name ← optStrOfHex nm
    pure (.proto v name)
  | ["noversion"] => some .noVersion
  | ["noprotokey"] => some .noProtocolKey
  | ["empty"] => some .emptyObj
  | ["closed"] => some .closedBeforeReply
  | _ => none

private def showOutcome : NegOutcome → String
  | .connect v => s!"ok connect {v}"
  | .mismatch n nm b =>
    s!"ok mismatch {n} {showOptStr nm} supported={bit b} msg={hexOfStr (mismatchMessage n nm b)}"
  | .invalidStatus => "ok invalid"

private def showPlan : Plan → String
  | .direct v => s!"direct {v}"
  | .query v => s!"query {v}"

private def showCfg (c : Cfg) : String :=
  s!"allowed={showNats c.allowed} default={c.default} ctx={c.ctx}"

private def showAct : Act → String
  | .handleStatus _ => "status"
  | .sendPing t => s!"ping:{t}"
  | .disconnect => "disc"
  | .handlePing l => s!"latency:{l}"

/-- Script items: `r` response, `p` pong echoing the time of the last ping the client sent so far
(0 if none), `p:<int>` pong with an explicit time, `o` any other packet.  The echo is resolved
here: with `ping=1` every `r` and every `p` consumes one clock reading, an `r` stamps its ping with
the reading it consumed. -/
private def script (doPing : Bool) : List String → List Nat → Int → Option (List StatusPkt)
  | [], _, _ => some []
  | tok :: rest, clock, last =>
    match tok.splitOn ":" with
    | ["r"] =>
      match doPing, clock with
      | true, t :: clock' => (script doPing rest clock' (t : Int)).map (.response "" :: ·)
      | _, _ => (script doPing rest clock last).map (.response "" :: ·)
    | ["p"] => (script doPing rest (if doPing then clock.drop 1 else clock) last).map (.pong last :: ·)
    | ["p", t] =>
      match t.toInt? with
      | some t =>
        (script doPing rest (if doPing then clock.drop 1 else clock) last).map (.pong t :: ·)
      | none => none
    | ["o"] => (script doPing rest clock last).map (.other :: ·)
    | _ => none

private def flag? (s : String) : Option Bool :=
  if s = "0" then some false else if s = "1" then some true else none

/-- `neg.ctor sv=<idhex:n,…> sp=<n,…> kp=<n,…> allowed=<item,…|-|~> initial=<item|~>`
      with item = `s<hex>` | `i<int>` | `x`
      → `ok allowed=<n,…> default=<n> ctx=<n>` (allowed ascending by rank) | `err:value` | `err:type`;
    `neg.plan kp=<n,…> allowed=<n,…>` (allowed duplicate-free)
      → `ok direct <v>` | `ok query <v>` | `err:value` | `err:type`;
    `neg.eval sp=<n,…> allowed=<n,…> default=<n> reply=<p:<int>:<namehex|~>|noversion|noprotokey|empty|closed>`
      → `ok connect <v>` | `ok mismatch <n> <namehex|~> supported=<0|1> msg=<hex>` | `ok invalid`;
    `status.run ping=<0|1> script=<r|p|p:<int>|o,…> clock=<t,…>`
      → `ok acts=<status|ping:<t>|disc|latency:<ms>,…> closed=<0|1> exit=<0|1>`.
    Lists are comma separated, `-` is the empty list / empty string, strings are hex of UTF-8,
    `~` is `None`. -/
def negotiate (toks : List String) : Option String :=
  match toks with
  | ["neg.ctor", sv, sp, kp, al, ini] =>
    let r : Option String := do
      let sv ← (← kv "sv" sv |>.map items).mapM namePair
      let sp ← natList (← kv "sp" sp)
      let kp ← natList (← kv "kp" kp)
      let al ← kv "allowed" al
      let al ← if al = "~" then some none else ((items al).mapM vreq).map some
      let ini ← kv "initial" ini
      let ini ← if ini = "~" then some none else (vreq ini).map some
      pure (exc showCfg (ctor ⟨sv, sp, kp⟩ al ini))
    some (r.getD "bad-op")
  | ["neg.plan", kp, al] =>
    let r : Option String := do
      let kp ← natList (← kv "kp" kp)
      let al ← natList (← kv "allowed" al)
      if al.Nodup then pure (exc showPlan (connectPlan ⟨[], [], kp⟩ al)) else none
    some (r.getD "bad-op")
  | ["neg.eval", sp, al, d, rp] =>
    let r : Option String := do
      let sp ← natList (← kv "sp" sp)
      let al ← natList (← kv "allowed" al)
      let d ← (← kv "default" d).toNat?
      let rp ← reply (← kv "reply" rp)
      pure (showOutcome (evalStatus ⟨[], sp, []⟩ al d rp))
    some (r.getD "bad-op")
  | ["status.run", pg, sc, ck] =>
    let r : Option String := do
      let pg ← flag? (← kv "ping" pg)
      let ck ← natList (← kv "clock" ck)
      let sc ← script pg (items (← kv "script" sc)) ck 0
      let run ← runStatus pg sc ck
      let acts := if run.acts.isEmpty then "-" else ",".intercalate (run.acts.map showAct)
      pure s!"ok acts={acts} closed={bit run.closed} exit={run.exitCalls}"
    some (r.getD "bad-op")
  | op :: _ =>
    if op ∈ ["neg.ctor", "neg.plan", "neg.eval", "status.run"] then some "bad-op" else none
  | [] => none

end PyCraft.Drive
