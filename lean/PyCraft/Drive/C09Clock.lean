import PyCraft.Drive.Util
import PyCraft.Model.C09Clock
namespace PyCraft.Drive
open PyCraft PyCraft.C09Clock

namespace C09C

def kv (key tok : String) : Option String :=
  let k := (key ++ "=").toList
  if k.isPrefixOf tok.toList then some (String.ofList (tok.toList.drop k.length)) else none

def items (s : String) : List String := if s = "-" then [] else s.splitOn ","

def natList (s : String) : Option (List Nat) := (items s).mapM String.toNat?

def strOfHex (h : String) : Option String := do
  let bs ← bytesOfHex h
  String.fromUTF8? ⟨bs.toArray⟩

/-- `<hexname>:<proto>`; the name is the UTF-8 text in lower-case hex (`-` = the empty name). -/
def namePair (s : String) : Option (String × Nat) :=
  match s.splitOn ":" with
  | [h, n] => do
    let id ← strOfHex h
    let v ← n.toNat?
    pure (id, v)
  | _ => none

/-- `trunc` = `int(1000 * t)`, `round` = `round(1000 * t)`. -/
def conv? (s : String) : Option Conv :=
  if s = "trunc" then some .truncMillis else if s = "round" then some .roundMillis else none

/-- `<num>/<den>` with `den > 0`: a clock reading in seconds. -/
def reading? (s : String) : Option Reading :=
  match s.splitOn "/" with
  | [n, d] => do
    let n ← n.toNat?
    let d ← d.toNat?
    if d = 0 then none else pure ⟨n, d⟩
  | _ => none

def lookup? (s : String) : Option Lookup :=
  if s = "sup" then some .supported else if s = "known" then some .known else none

/-- `s<hexname>` a `str`, `i<int>` an `int`, `o` an object of any other type. -/
def req? (s : String) : Option Neg.VReq :=
  match s.toList with
  | ['o'] => some .other
  | 's' :: h => (strOfHex (String.ofList h)).map .name
  | 'i' :: d => (String.ofList d).toInt?.map .num
  | _ => none

/-- `KNOWN_PROTOCOL_VERSIONS` as `initglobals` builds it from the known table: the protocol numbers
in order of first occurrence. -/
def firstOcc : List Nat → List Nat → List Nat
  | acc, [] => acc.reverse
  | acc, p :: ps => if p ∈ acc then firstOcc acc ps else firstOcc (p :: acc) ps

end C09C

open C09C in
/-- `c09clock.latency <conv0> <conv1> <num0>/<den0> <num1>/<den1>`
      (`conv0` = the conversion at the ping site, `conv1` = at the pong site, each `trunc` |
      `round`; the two readings are non-negative rationals in seconds, denominators `> 0`; the pong
      echoes the stamped time)
      → `ok <int>`: the value `handle_ping` receives.
      e.g. `c09clock.latency trunc trunc 3/4000 7/8000` → `ok 0`;
           `c09clock.latency round trunc 3/4000 7/8000` → `ok -1`;
           `c09clock.latency trunc trunc 1/3 7/20` → `ok 17`.
    `c09clock.ctor <sup|known> sv=<hexname:proto,…|-> kv=<hexname:proto,…|-> sp=<proto,…|-> <s<hexname>|i<int>|o>`
      (`sup`/`known` = the dict the `str` branch of `proto_version` looks names up in;
      `sv` = items of SUPPORTED_MINECRAFT_VERSIONS, `kv` = items of KNOWN_MINECRAFT_VERSIONS,
      `sp` = SUPPORTED_PROTOCOL_VERSIONS; KNOWN_PROTOCOL_VERSIONS is taken to be the protocol
      numbers of `kv` in order of first occurrence; the last token is `initial_version`;
      `allowed_versions` is `None`)
      → `ok <default_proto_version>` | `err:value` | `err:type`
      (`err:type` = `max(..., key=PROTOCOL_VERSION_INDICES.get)` met a supported protocol without
      an index).
      e.g. with sv=312e38:47 (`1.8`), kv=312e38:47,312e382d707265:47 (`1.8`, `1.8-pre`), sp=47:
           `c09clock.ctor sup sv=312e38:47 kv=312e38:47,312e382d707265:47 sp=47 s312e382d707265` → `err:value`;
           `c09clock.ctor known sv=312e38:47 kv=312e38:47,312e382d707265:47 sp=47 s312e382d707265` → `ok 47`;
           `c09clock.ctor sup sv=312e38:47 kv=312e38:47,312e382d707265:47 sp=47 i47` → `ok 47`.
    Malformed requests → `bad-op`. -/
def c09clock (toks : List String) : Option String :=
  match toks with
  | ["c09clock.latency", c0, c1, r0, r1] =>
    let r : Option String := do
      let c0 ← conv? c0
      let c1 ← conv? c1
      let t0 ← reading? r0
      let t1 ← reading? r1
      let l ← latencyOf c0 c1 t0 t1
      pure s!"ok {l}"
    some (r.getD "bad-op")
  | ["c09clock.ctor", lk, sv, kvs, sp, rq] =>
    let r : Option String := do
      let lk ← lookup? lk
      let sv ← (items (← kv "sv" sv)).mapM namePair
      let kn ← (items (← kv "kv" kvs)).mapM namePair
      let sp ← natList (← kv "sp" sp)
      let rq ← req? rq
      let env : VEnv2 := ⟨⟨sv, sp, firstOcc [] (kn.map (·.2))⟩, kn⟩
      pure (exc (fun (c : Neg.Cfg) => toString c.default) (ctorWith lk env none (some rq)))
    some (r.getD "bad-op")
  | op :: _ => if op ∈ ["c09clock.latency", "c09clock.ctor"] then some "bad-op" else none
  | [] => none

end PyCraft.Drive
