import PyCraft.Drive.Login
import PyCraft.Model.LoginWire
import PyCraft.Model.Aes
namespace PyCraft.Drive
open PyCraft PyCraft.Login PyCraft.LoginWire

namespace LoginWireD

/-- zlib is not modelled: a run in which some frame takes the `compress` branch is not rendered. -/
def needsDeflate (ids : Ids) (outbox : List Sent) : Bool :=
  outbox.any fun f => compressesAt f.threshold (payloadOf ids f.pkt).length

/-- `deflate` is never called on the runs that are rendered; `inflate` is the identity. -/
def noZlib : ZlibOps := { deflate := fun x => x, inflate := fun x => some x }

def showPkts (ps : List (Nat × Bytes)) : String :=
  if ps.isEmpty then "-" else ",".intercalate (ps.map fun p => s!"{p.1}.{hexOut p.2}")

def run (enc plug tok sec : String) (cap : Nat) (evs : List String) : String :=
  match (LoginD.kv? "encid" enc).bind (·.toNat?), (LoginD.kv? "plugid" plug).bind (·.toNat?),
      (LoginD.kv? "token" tok).bind LoginD.flag?, (LoginD.kv? "secret" sec).bind bytesOfHex,
      LoginD.steps? evs with
  | some e, some p, some hasTok, some secret, some items =>
    let ids : Ids := ⟨e, p⟩
    let P : LoginParams :=
      { rsa := LoginD.idRsa, secret := secret,
        hash := fun _ _ _ => "", hasToken := hasTok, jsonText := fun _ => .absent,
        handler := fun _ _ _ => none }
    let steps := items.map (·.1)
    let steps := if steps.contains .flush then steps ++ [.flush] else schedule cap (events steps)
    let outbox := (exec P .init steps).outbox
    if needsDeflate ids outbox then "skip:deflate"
    else
      let w := wireBytes noZlib (aes128 secret) secret ids outbox
      let plain := ((splitAtEncResp outbox).1.map (frameOfSent noZlib ids)).flatten.length
      let r := serverRecover noZlib aes128 (fun c => c) ids.encResp (modesOf outbox) [w]
      let good := r.packets == outbox.map (wirePkt ids) && r.err.isNone && r.rest.isEmpty
      s!"ok wire={hexOut w} plain={plain} pkts={showPkts r.packets} srv={if good then 1 else 0}"
  | _, _, _, _, _ => "bad-op"

end LoginWireD

/-- `loginwire.run encid=<n> plugid=<n> token=<0|1> secret=<hex> [cap=<n>] <ev> …` (events and
scheduling exactly as `login.run`; RSA = identity, block function = AES-128 under the secret)
→ `ok wire=<hex|-> plain=<n> pkts=<id.fieldshex,…|-> srv=<0|1>`: the bytes handed to the real
socket for the frames of the login outbox, the number of leading plaintext bytes (frames up to and
including the encryption response), what the reference server recovers from them and whether that
is the whole outbox; `skip:deflate` if some frame would be zlib-compressed (zlib is a parameter of
the model, not implemented). -/
def loginwire (toks : List String) : Option String :=
  match toks with
  | "loginwire.run" :: enc :: plug :: tok :: sec :: rest =>
    match rest with
    | c :: evs =>
      match (LoginD.kv? "cap" c).bind (·.toNat?) with
      | some cap => some (LoginWireD.run enc plug tok sec cap evs)
      | none => some (LoginWireD.run enc plug tok sec 1 rest)
    | [] => some (LoginWireD.run enc plug tok sec 1 [])
  | "loginwire.run" :: _ => some "bad-op"
  | _ => none

end PyCraft.Drive
