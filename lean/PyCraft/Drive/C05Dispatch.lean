import PyCraft.Drive.Layout
import PyCraft.Drive.Packets
import PyCraft.Model.C05Dispatch
/-!
Line-protocol handler for the registry of `Model/C05Dispatch.lean` (id ↔ class ↔ codec per table and
protocol version).  `<table>` ∈ `cbHandshake cbStatus cbLogin cbPlay sbHandshake sbStatus sbLogin
sbPlay`; `<version>` a protocol number (decimal).

```
c05d.ent <table> <version> <class>
    → ok id=<id|~> codec=<codec|~>          the registered class: get_id(context) and its codec
    | err:other                             no such table / version / class registered
  <codec> = fields:<type;type;…|->          (types in the one-token syntax of Drive/Wire.lean)
          | map:<v107><v452><pre6><v373><v364> | spawn:<v49><v458><v100> | face:<v353>
          | combat:<pre15> | pli:- | plugresp:-
c05d.dispatch <table> <version> <id>
    → ok <class>                            the class the reactor's dict holds under that id
    | ok ~                                  unknown id (read_packet returns a bare Packet)
    | err:<e>                               the dict cannot be built (some get_id raised)
  (dict built in the row order of Generated/Ids.lean; on the K1 collision ids the real answer depends
  on set iteration order — do not compare those)
c05d.enc <table> <version> <class> <values…>
    → ok <hex of VarInt(id)> <hex of the body>   what Packet.write puts into the packet buffer
    | err:<e> | bad-op
  <values…>: for a field-list class ONE token `v;v;…` / `-` (syntax of `fields.enc`); for a
  hand-written class the field tokens of `pk.enc` for its kind
c05d.dec <table> <version> <hex of VarInt(id) ++ body>
    → known <class> ok <values…> rest=<hex> | known <class> err:<e> | unknown <id> | err:<e>
  (<values…> as printed by `fields.dec` (one token) resp. `pk.dec`)
```
-/
namespace PyCraft.Drive
open PyCraft PyCraft.Dsp PyCraft.Pk

namespace C05DSyntax

def showIntT : IntT → String
  | .u8 => "u8" | .i8 => "i8" | .i16 => "i16" | .u16 => "u16" | .i32 => "i32" | .i64 => "i64"
  | .u64 => "u64" | .f32 => "f32" | .f64 => "f64"

def showLenT : LenT → String
  | .varint => "varint" | .i32 => "i32" | .i16 => "i16" | .u8 => "u8"

def showFlag (b : Bool) : String := if b then "1" else "0"

/-- inverse of `WireSyntax.wtype?` -/
def showWType : WType → String
  | .bool => "bool"
  | .int t => showIntT t
  | .varint => "varint"
  | .varlong => "varlong"
  | .string => "string"
  | .uuid => "uuid"
  | .angle => "angle"
  | .fixed b n => s!"fixed/{showIntT b}/{n}"
  | .bytesVarint => "bytesv"
  | .bytesShort => "bytess"
  | .trailing => "trailing"
  | .array l t => s!"arr/{showLenT l}/{showWType t}"
  | .custom (.position b) => s!"pos/{showFlag b}"
  | .custom .secpos => "secpos"
  | .custom (.record b) => s!"rec/{showFlag b}"
  | .custom .explRecord => "expl"
  | .custom .effectPos => "effpos"
  | .custom (.pitch a b) => s!"pitch/{showFlag a}/{showFlag b}"
  | .custom .nbt => "nbt"

def showCodec : Codec → String
  | .fields L => "fields:" ++ (if L.isEmpty then "-" else ";".intercalate (L.map fun f => showWType f.2))
  | .map f => s!"map:{showFlag f.v107}{showFlag f.v452}{showFlag f.pre6}{showFlag f.v373}{showFlag f.v364}"
  | .spawn f => s!"spawn:{showFlag f.v49}{showFlag f.v458}{showFlag f.v100}"
  | .face f => s!"face:{showFlag f.v353}"
  | .combat f => s!"combat:{showFlag f.pre15}"
  | .pli => "pli:-"
  | .plug => "plugresp:-"

def pval? (k : Codec) (toks : List String) : Option PVal :=
  match k with
  | .fields _ =>
    match toks with
    | [vs] => (LayoutSyntax.values? vs).map .fields
    | _ => none
  | .map _ => (PkSyntax.map? toks).map .map
  | .pli => (PkSyntax.pli? toks).map .pli
  | .spawn _ => (PkSyntax.spawn? toks).map .spawn
  | .combat _ => (PkSyntax.combat? toks).map .combat
  | .face _ => (PkSyntax.face? toks).map .face
  | .plug => (PkSyntax.plugresp? toks).map .plug

def showPVal : PVal → String
  | .fields vs => LayoutSyntax.showFields vs
  | .map p => PkSyntax.showMap p
  | .pli p => PkSyntax.showPli p
  | .spawn p => PkSyntax.showSpawn p
  | .combat ev => PkSyntax.showCombat ev
  | .face p => PkSyntax.showFace p
  | .plug p => PkSyntax.showPlugresp p

def showOptInt : Option Int → String
  | some i => toString i
  | none => "~"

end C05DSyntax

open C05DSyntax

def c05dispatch (toks : List String) : Option String :=
  match toks with
  | ["c05d.ent", t, v, c] =>
    match v.toNat? with
    | none => some "bad-op"
    | some v =>
      match regEnt t v c with
      | none => some "err:other"
      | some e => some s!"ok id={showOptInt e.id} codec={(e.codec.map showCodec).getD "~"}"
  | ["c05d.dispatch", t, v, i] =>
    match v.toNat?, i.toInt? with
    | some v, some i =>
      match regRow t v with
      | none => some "err:other"
      | some r =>
        match reactorDict r.ents with
        | .error e => some s!"err:{e}"
        | .ok d => some ("ok " ++ ((dictGetG d i).map (·.cls)).getD "~")
    | _, _ => some "bad-op"
  | "c05d.enc" :: t :: v :: c :: vals =>
    match v.toNat? with
    | none => some "bad-op"
    | some v =>
      match regEnt t v c with
      | none => some "err:other"
      | some e =>
        match e.id with
        | none => some "err:other"
        | some i =>
          if i < 0 then some "err:value"
          else
            match e.codec with
            | none => some "err:other"
            | some k =>
              match pval? k vals with
              | none => some "bad-op"
              | some pv =>
                some (exc (fun b => s!"{hexOut (encVarInt i.toNat)} {hexOut b}") (k.write pv))
  | ["c05d.dec", t, v, h] =>
    match v.toNat?, bytesOfHex h with
    | some v, some bs =>
      match regRow t v with
      | none => some "err:other"
      | some r =>
        match reactorDict r.ents with
        | .error e => some s!"err:{e}"
        | .ok d =>
          match decVarInt 5 bs with
          | .error e => some s!"err:{e}"
          | .ok (i, body) =>
            match deliver d (i, body) with
            | .unknown i => some s!"unknown {i}"
            | .known e res =>
              some (s!"known {e.cls} " ++
                exc (fun (p : PVal × Bytes) => s!"{showPVal p.1} rest={hexOut p.2}") res)
    | _, _ => some "bad-op"
  | op :: _ =>
    if op ∈ ["c05d.ent", "c05d.dispatch", "c05d.enc", "c05d.dec"] then some "bad-op" else none
  | [] => none

end PyCraft.Drive
