import PyCraft.Drive.Trackers
import PyCraft.Model.C20Live
namespace PyCraft.Drive
open PyCraft PyCraft.Trackers PyCraft.Enums PyCraft.TrackLive
open TrackersAux

namespace C20LiveAux

/-- `-` = no property, otherwise `;`-separated `<namehex>,<valuehex>,<sighex|~>`. -/
def parseProps (s : String) : Option (List PlayerProperty) :=
  if s = "-" then some []
  else (s.splitOn ";").mapM fun item =>
    match item.splitOn "," with
    | [n, v, sg] => do pure ⟨← strOfHex n, ← strOfHex v, ← optStrOfHex sg⟩
    | _ => none

def showProps (ps : List PlayerProperty) : String :=
  if ps.isEmpty then "-"
  else ";".intercalate (ps.map fun p => s!"{hexOfStr p.name},{hexOfStr p.value},{hexOfOptStr p.signature}")

def parseActionF (tok : String) : Option ActionF :=
  match tok.splitOn ":" with
  | ["add", u, nm, ps, g, p, dn] => do
    pure (.add ⟨← u.toInt?, ← strOfHex nm, ← parseProps ps, ← g.toInt?, ← p.toInt?, ← optStrOfHex dn⟩)
  | ["gm", u, g] => do pure (.gamemode (← u.toInt?) (← g.toInt?))
  | ["lat", u, l] => do pure (.latency (← u.toInt?) (← l.toInt?))
  | ["dn", u, d] => do pure (.displayName (← u.toInt?) (← optStrOfHex d))
  | ["rm", u] => do pure (.remove (← u.toInt?))
  | _ => none

def parsePacketsF : List String → List ActionF → Option (List (List ActionF))
  | [], cur => some (if cur.isEmpty then [] else [cur.reverse])
  | t :: ts, cur =>
    if t = "|" then (parsePacketsF ts []).map (cur.reverse :: ·)
    else do
      let a ← parseActionF t
      parsePacketsF ts (a :: cur)

def showItem (kp : Int × PlayerItem) : String :=
  let p := kp.2
  s!"{kp.1}={p.uuid}:{hexOfStr p.name}:{showProps p.properties}:{p.gamemode}:{p.ping}:{hexOfOptStr p.displayName}"

def parseFlagTable (s : String) : Option PosFlagTable :=
  match (s.splitOn ",").mapM String.toInt? with
  | some [x, y, z, yaw, pitch] => some ⟨x, y, z, yaw, pitch⟩
  | _ => none

end C20LiveAux
open C20LiveAux

/-- `pyand <a> <b>` / `pyor <a> <b>` (any ints) → `ok <int>`   (Python `a & b`, `a | b`);
    `bitnamez <name:value,…|-> <value>` (member values and value any ints)
      → `ok <NAME|NAME…>` | `ok 0` | `ok ~`   (`BitFieldEnum.name_from_value`, `~` = `None`);
    `poslookf <fx>,<fy>,<fz>,<fyaw>,<fpitch> <flags> <px> <py> <pz> <pyaw> <ppitch> <cx> <cy> <cz> <cyaw> <cpitch>`
      (the five `FLAG_REL_*` class attributes, then `flags` any int used AS IS with Python's `&`,
      numbers `n` or `n/d`) → `ok x y z yaw pitch`;
    `plistfull <tok> …` with `<tok>` = `|` (end of packet) or
      `add:<uuid>:<namehex>:<props>:<gamemode>:<ping>:<dnhex|~>` (`<props>` = `-` or
      `;`-separated `<namehex>,<valuehex>,<sighex|~>`) | `gm:<uuid>:<g>` | `lat:<uuid>:<l>` |
      `dn:<uuid>:<dnhex|~>` | `rm:<uuid>`, applied to an empty `PlayerList`
      → `ok <key>=<uuid>:<namehex>:<props>:<gamemode>:<ping>:<dnhex|~> …` (dict order). -/
def c20live (toks : List String) : Option String :=
  match toks with
  | ["pyand", a, b] =>
    match a.toInt?, b.toInt? with
    | some a, some b => some s!"ok {pyAnd a b}"
    | _, _ => some "bad-op"
  | ["pyor", a, b] =>
    match a.toInt?, b.toInt? with
    | some a, some b => some s!"ok {pyOr a b}"
    | _, _ => some "bad-op"
  | ["bitnamez", ms, v] =>
    match parseMembers ms, v.toInt? with
    | some ms, some v =>
      some ("ok " ++ (match nameFromValueZ ms v with | some s => s | none => "~"))
    | _, _ => some "bad-op"
  | ["poslookf", ft, fl, px, py, pz, pyaw, ppitch, cx, cy, cz, cyaw, cpitch] =>
    match parseFlagTable ft, fl.toInt?,
          [px, py, pz, pyaw, ppitch, cx, cy, cz, cyaw, cpitch].mapM parseRat with
    | some F, some fl, some [px, py, pz, pyaw, ppitch, cx, cy, cz, cyaw, cpitch] =>
      let r := applyPosLookWith F fl ⟨px, py, pz, pyaw, ppitch⟩ ⟨cx, cy, cz, cyaw, cpitch⟩
      some (" ".intercalate ("ok" :: [r.x, r.y, r.z, r.yaw, r.pitch].map showRat))
    | _, _, _ => some "bad-op"
  | "plistfull" :: rest =>
    match parsePacketsF rest [] with
    | none => some "bad-op"
    | some hist => some (" ".intercalate ("ok" :: (replayF hist []).map showItem))
  | "pyand" :: _ => some "bad-op"
  | "pyor" :: _ => some "bad-op"
  | "bitnamez" :: _ => some "bad-op"
  | "poslookf" :: _ => some "bad-op"
  | _ => none

end PyCraft.Drive
