import PyCraft.Drive.Play
import PyCraft.Model.C11Errors
namespace PyCraft.Drive
open PyCraft PyCraft.Play

namespace PlayErrD

/-- `none` | `from:<n>` (writes number n, n+1, … raise) | `at:<i>,<j>,…` (exactly these raise). -/
def fails? (s : String) : Option (Nat → Bool) :=
  if s = "none" then some (fun _ => false) else
  match s.splitOn ":" with
  | ["from", n] => n.toNat?.map PlayErr.failFrom
  | ["at", l] =>
    let toks := l.splitOn ","
    if toks.all (fun t => t.toNat?.isSome) then
      let ns := toks.filterMap (·.toNat?)
      some (fun k => ns.contains k)
    else none
  | _ => none

def showReplies (l : List Reply) : String :=
  if l.isEmpty then "-" else ",".intercalate (l.map PlayD.showReply)

def showResult (r : PlayErr.Result) : String :=
  s!"ok wire={showReplies r.wire} lost={showReplies r.lost} unsent={showReplies r.unsent} " ++
  s!"delivered={r.delivered.length} spawned={if r.spawned then 1 else 0} " ++
  s!"closed={if r.closed then 1 else 0} exit={r.exitCalls} errors={r.errors}"

def run (newer capw capr fail : String) (evs : List String) : String :=
  match (PlayD.kv? "newer" newer).bind PlayD.flag?, (PlayD.kv? "capw" capw).bind (·.toNat?),
        (PlayD.kv? "capr" capr).bind (·.toNat?), (PlayD.kv? "fail" fail).bind fails?,
        PlayD.evs? evs with
  | some newer, some capW, some capR, some fails, some inbox =>
    match PlayErr.runLoop newer fails capW capR inbox with
    | some r => showResult r
    | none => "err:other"      -- no progress: `capr=0` never reads
  | _, _, _, _, _ => "bad-op"

end PlayErrD

/-- `playerr.run newer=<0|1> capw=<n> capr=<n> fail=<none|from:<n>|at:<i>,<j>,…> <ev> …`
(`ev` as for `play.run`) →
`ok wire=<replies|-> lost=<replies|-> unsent=<replies|-> delivered=<n> spawned=<0|1> closed=<0|1>
exit=<n> errors=<n>` | `err:other`.
`fail` says which calls of `_write_packet` (numbered 0, 1, … over the whole connection) raise an
`IOError`. -/
def playerr (toks : List String) : Option String :=
  match toks with
  | "playerr.run" :: newer :: capw :: capr :: fail :: evs =>
    some (PlayErrD.run newer capw capr fail evs)
  | "playerr.run" :: _ => some "bad-op"
  | _ => none

end PyCraft.Drive
