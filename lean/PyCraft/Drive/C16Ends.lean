import PyCraft.Drive.Lifecycle
import PyCraft.Model.C16Ends
namespace PyCraft.Drive
open PyCraft PyCraft.Life PyCraft.Ends

namespace EndsIO
open LifeIO

def showOutcomeE : OutcomeE → String
  | .ok => "ok"
  | .invalidState => "invalid"
  | .refused => "refused"
  | .ioError => "ioerror"
  | .otherExc => "other"

/-- `fail=<bits>`: the `k`-th packet write (counted over the whole run, from 0) raises `IOError`
iff bit `k` is `1`; the last bit extends for ever; `-` = no write ever fails. -/
def oracleOfTok (s : String) : Option (Nat → Bool) :=
  if s = "-" then some (fun _ => false)
  else
    let cs := s.toList
    if cs.all (fun c => c = '0' ∨ c = '1') then
      some (fun k => (cs.getD k (cs.getLastD '0')) == '1')
    else none

inductive SeqOp
  | api (op : Op)
  | write (p : Nat)
  | pop

def seqOpOfTok (tok : String) : Option SeqOp :=
  match opOfTok tok with
  | some op => some (.api op)
  | none =>
    match tok.toList with
    | ['q'] => some .pop
    | 'w' :: r => if r.isEmpty then none else (String.ofList r).toNat?.map .write
    | _ => none

def actOfTok (tok : String) : Option Act :=
  match tidOfTok tok with
  | some t => some (.thr t)
  | none =>
    match tok.toList with
    | ['q'] => some .deq
    | 'w' :: r => if r.isEmpty then none else (String.ofList r).toNat?.map .enq
    | _ => none

def showSock : Sock → String
  | .none => "0"
  | .unconnected => "u"
  | .open _ => "1"

def showQueue : Option (List Nat) → String
  | none => "x"
  | some q => commas (q.map toString)

def summaryE (x : ESys) : String :=
  let s := x.sys
  let intr := String.ofList ((List.range s.nthreads).map fun i => if (s.net i).intr then '1' else '0')
  s!"sock={showSock s.socket} connected={bit s.connected} queue={showQueue x.queue} " ++
  s!"wire={commas (x.wire.map fun e => s!"{e.1}:{e.2}")} ticks={x.tick} " ++
  s!"threads={s.nthreads} intr={if intr.isEmpty then "-" else intr} " ++
  s!"nt={showOptNat s.nt} new={showOptNat s.newNt}"

def showCall (e : Tid × Op × OutcomeE) : String :=
  s!"{showTid e.1}:{showOp e.2.1}:{showOutcomeE e.2.2}"

end EndsIO
open EndsIO LifeIO

/-- `ends.seq guard=<0|1> servers=<b,b,…|-> fail=<bits|-> <op> <op> …` — ONE user thread, the
networking threads NEVER run (the thread objects are created, interrupted, queued as successors, but
take no step).  `guard=1`: current `disconnect` (flush inside `try/except IOError`), `guard=0`: the
code before commit 584a461.  `b` ∈ `a|r|d|f` as in `life.run`.  `op` ∈ `c|s|d0|d1` (API calls:
locked body, then release) `| w<p>` (`write_packet` of packet number `p`) `| q` (the head of the
queue is consumed).  `connect`/`status` queue the packets `0` and `1`.  Reply:
`ok <outcome>,…|- sock=<0|u|1> connected=<0|1> queue=<p,…|-|x> wire=<conn>:<p>,…|- ticks=<n>
threads=<n> intr=<bit per thread object|-> nt=<i|x> new=<i|x>` with outcome ∈
`ok|invalid|refused|ioerror|other` (one per API call), `sock=u` a socket object that never
connected, `queue=x` no queue attribute yet, `ticks` the number of packet writes attempted.

`ends.sched guard=<0|1> servers=… fail=… rl=<k> rh=<k> progs=<op,…>;… acts=<a,a,…>` with
`a` = `u<k>` | `n<k>` (thread steps) | `w<p>` | `q`; choices that are not enabled are skipped →
`ok calls=<t>:<op>:<outcome>,…|- <summary as above>`. -/
def c16ends (toks : List String) : Option String :=
  match toks with
  | "ends.seq" :: a :: b :: c :: ops =>
    match (kv "guard" a).bind String.toNat?,
          (kv "servers" b).bind (fun s => (items "," s).mapM behOfTok),
          (kv "fail" c).bind oracleOfTok, ops.mapM seqOpOfTok with
    | some g, some env, some F, some sops =>
      let prog := sops.filterMap fun o => match o with | .api op => some op | _ => none
      let acts := sops.flatMap fun o => match o with
        | .api _ => [Act.thr (.user 0), Act.thr (.user 0)]
        | .write p => [Act.enq p]
        | .pop => [Act.deq]
      let x := runE (g != 0) F env (initE [prog] 0 0) acts
      let outs := (x.calls.filter fun e => e.1 == Tid.user 0).map fun e => showOutcomeE e.2.2
      some s!"ok {commas outs} {summaryE x}"
    | _, _, _, _ => some "bad-op"
  | ["ends.sched", a, b, c, d, e, f, g'] =>
    match (kv "guard" a).bind String.toNat?,
          (kv "servers" b).bind (fun s => (items "," s).mapM behOfTok),
          (kv "fail" c).bind oracleOfTok,
          (kv "rl" d).bind String.toNat?, (kv "rh" e).bind String.toNat?,
          (kv "progs" f).bind (fun s => (items ";" s).mapM fun p => (items "," p).mapM opOfTok),
          (kv "acts" g').bind (fun s => (items "," s).mapM actOfTok) with
    | some g, some env, some F, some rl, some rh, some progs, some acts =>
      let x := runE (g != 0) F env (initE progs rl rh) acts
      some s!"ok calls={commas (x.calls.map showCall)} {summaryE x}"
    | _, _, _, _, _, _, _ => some "bad-op"
  | tok :: _ => if tok.startsWith "ends." then some "bad-op" else none
  | [] => none

end PyCraft.Drive
