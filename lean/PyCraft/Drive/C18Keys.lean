import PyCraft.Drive.LoginWire
import PyCraft.Drive.Cfb8
import PyCraft.Model.C18Keys
namespace PyCraft.Drive
open PyCraft PyCraft.Login PyCraft.LoginWire PyCraft.Keys

namespace KeysD

/-- Pad / cut to 16 bytes, so that any token list gives a lawful oracle. -/
def pad16 (l : Bytes) : Bytes := (l ++ List.replicate 16 0).take 16

theorem pad16_length (l : Bytes) : (pad16 l).length = 16 := by
  simp [pad16, List.length_take, List.length_append]

/-- The oracle given by a list: call `n` returns entry `n` (16 zero bytes beyond the list). -/
def oracle (ds : List Bytes) : Urandom :=
  { draw := fun n => pad16 (ds.getD n []), len16 := fun _ => pad16_length _ }

def hexList? (s : String) : Option (List Bytes) :=
  if s = "-" then some [] else (s.splitOn ",").mapM bytesOfHex

/-- `<msghex>:<cthex>,…` — the RSA encryptions the real code produced (the padding is random). -/
def rsaTable? (s : String) : Option (List (Bytes × Bytes)) :=
  if s = "-" then some []
  else (s.splitOn ",").mapM fun t =>
    match t.splitOn ":" with
    | [m, c] => do
      let m ← bytesOfHex m
      let c ← bytesOfHex c
      pure (m, c)
    | _ => none

/-- RSA given by a table message ↦ ciphertext (identity outside the table). -/
def tableRsa (t : List (Bytes × Bytes)) : Rsa :=
  { enc := fun _ m => match t.find? (·.1 = m) with | some p => p.2 | none => m,
    dec := fun _ c => c, matching := fun _ _ => False, law := fun _ _ _ h => h.elim }

def showList (l : List Bytes) : String :=
  if l.isEmpty then "-" else ",".intercalate (l.map hexOut)

def showStrs (l : List String) : String :=
  if l.isEmpty then "-" else ",".intercalate l

def showKErr : Option KErr → String
  | none => "none"
  | some (.login e) => LoginD.showErr (some e)
  | some (.cipher e) => "cipher:" ++ toString e

def run (enc plug tok n0 draws rsa : String) (cap : Nat) (evs : List String) : String :=
  match (LoginD.kv? "encid" enc).bind (·.toNat?), (LoginD.kv? "plugid" plug).bind (·.toNat?),
      (LoginD.kv? "token" tok).bind LoginD.flag?, (LoginD.kv? "n0" n0).bind (·.toNat?),
      (LoginD.kv? "draws" draws).bind hexList?, (LoginD.kv? "rsa" rsa).bind rsaTable?,
      LoginD.steps? evs with
  | some e, some p, some hasTok, some n0, some ds, some table, some items =>
    let jt := items.filterMap (·.2)
    let P : KeyParams :=
      { base :=
          { rsa := tableRsa table, secret := [],
            hash := fun sid sec pk => s!"{LoginD.hexOfStr sid}.{hexOut sec}.{hexOut pk}",
            hasToken := hasTok,
            jsonText := fun j => match jt.find? (·.1 = j) with | some q => q.2 | none => .absent,
            handler := fun _ _ _ => none },
        rng := oracle ds, z := LoginWireD.noZlib, ids := ⟨e, p⟩ }
    let steps := items.map (·.1)
    let steps := if steps.contains .flush then steps ++ [.flush] else schedule cap (events steps)
    let s := execK P (.init n0) steps
    if LoginWireD.needsDeflate P.ids s.log then "skip:deflate"
    else
      let st := match s.reactor with | .login => "login" | .play => "play"
      s!"ok wire={showList s.wire} keys={showList s.keys} ndraws={s.nDraws} " ++
      s!"joins={showStrs s.joins} state={st} err={showKErr s.err}"
  | _, _, _, _, _, _, _ => "bad-op"

end KeysD

/-- `keys.run encid=<n> plugid=<n> token=<0|1> n0=<n> draws=<hex16,…|-> rsa=<msghex:cthex,…|->
      [cap=<n>] <ev> …`  (events and scheduling exactly as `login.run` / `loginwire.run`)
    → `ok wire=<chunkhex,…|-> keys=<hex,…|-> ndraws=<n> joins=<str,…|-> state=<login|play>
       err=<none|login:…|mismatch:…|cipher:<Err>>` | `skip:deflate`:
    `execK` from `KState.init n0` with the oracle `draw i = draws[i]` (16 zero bytes beyond the
    list), RSA given by the table (message ↦ ciphertext; identity outside it): the chunks handed to
    the REAL socket's `send` in call order, the keys of the installed ciphers in installation order,
    the number of `os.urandom` calls after the run, the `join` arguments
    (`<serveridhex>.<secrethex>.<pubkeyhex>`).
    `kchan <secrethex> <op>*` → as `chan`, through `KChan.create` / `KChan.run` (key in the state,
    block function `aes128 key`).
    `kstack <secrethex,…> <op>*` → `ok <outhex>*`: the ops through the stack of wrappers obtained by
    installing a cipher for each secret in turn (the first is the innermost); for `s` the bytes
    handed to the real socket, for `r`/`f` the plaintext returned when the real socket / raw file
    returned the chunk; `err:value` if some secret is not 16 bytes. -/
def c18keys (toks : List String) : Option String :=
  match toks with
  | "keys.run" :: enc :: plug :: tok :: n0 :: draws :: rsa :: rest =>
    match rest with
    | c :: evs =>
      match (LoginD.kv? "cap" c).bind (·.toNat?) with
      | some cap => some (KeysD.run enc plug tok n0 draws rsa cap evs)
      | none => some (KeysD.run enc plug tok n0 draws rsa 1 rest)
    | [] => some (KeysD.run enc plug tok n0 draws rsa 1 [])
  | "keys.run" :: _ => some "bad-op"
  | "kchan" :: s :: ops =>
    match bytesOfHex s, ops.mapM parseChanOp with
    | some secret, some ops =>
      match KChan.create secret with
      | .ok c => some (okList (KChan.run c ops).2)
      | .error e => some ("err:" ++ toString e)
    | _, _ => some "bad-op"
  | "kchan" :: _ => some "bad-op"
  | "kstack" :: s :: ops =>
    match KeysD.hexList? s, ops.mapM parseChanOp with
    | some secrets, some ops =>
      match mkStack secrets with
      | .ok st => some (okList (stackRun st ops))
      | .error e => some ("err:" ++ toString e)
    | _, _ => some "bad-op"
  | "kstack" :: _ => some "bad-op"
  | _ => none

end PyCraft.Drive
