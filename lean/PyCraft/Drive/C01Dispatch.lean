import PyCraft.Drive.Frame
import PyCraft.Drive.Layout
import PyCraft.Model.C01Dispatch
/-!
Line-protocol handler for `Model/C01Dispatch.lean` (C01, audit gap 22).

`dispatch.readall <0|1> zmap=… tab=<id>=<types>|<id>=<types>|… <seghex>*`
    the complete `read_packet` loop (`readAllD`) with the library's custom codecs; `<0|1>` =
    `compression_enabled`; `zmap` as in `frame.readall`; the table maps decimal ids to field-type
    lists in the syntax of `fields.dec` (`type;type;…`, `-` = no fields), `tab=-` = empty table.
    → `ok <item> … end=<err> reads=<n> eofreads=<n>` with
      `<item>` = `k:<id>:<value;value;…|->:<unreadhex>` (class found, after `read`) |
                 `b:<id>:<unreadhex>` (bare `Packet`).
`conn.write <0|1> <threshold> zmap=… <payloadhex>`
    `_write_packet` under `compression_enabled`/`compression_threshold`: `frameSends` with `writerThr`
    → `ok <lenprefixhex> <bodyhex>` | `err:zlib` (payload would be compressed but is not in `zmap`).
`opts.run <0|1> <threshold> <ev>*`   with `<ev>` = `connect` | `setc/<t>`
    → `ok <enabled 0|1> <threshold> writer=<none|t> reader=<0|1>`.
-/
namespace PyCraft.Drive
open PyCraft LayoutSyntax

namespace DispatchSyntax

def bit? (s : String) : Option Bool :=
  if s = "1" then some true else if s = "0" then some false else none

def tabEnt? (s : String) : Option (Nat × Layout) :=
  match s.splitOn "=" with
  | [i, ts] =>
    match i.toNat?, layout? ts with
    | some i, some L => some (i, L)
    | _, _ => none
  | _ => none

def table? (tok : String) : Option (List (Nat × Layout)) :=
  if ¬ tok.startsWith "tab=" then none
  else
    let body := (tok.drop 4).toString
    if body = "-" then some [] else allSome tabEnt? (body.splitOn "|")

def showDelivered : Delivered (List Value) → String
  | .known id vals unread => s!"k:{id}:{showFields vals}:{hexOut unread}"
  | .bare id unread => s!"b:{id}:{hexOut unread}"

def ev? (s : String) : Option OptEv :=
  if s = "connect" then some .connect
  else match s.splitOn "/" with
    | ["setc", t] => t.toInt?.map .setCompression
    | _ => none

end DispatchSyntax

open DispatchSyntax

def c01dispatch (toks : List String) : Option String :=
  match toks with
  | "dispatch.readall" :: c :: zm :: tab :: segs =>
    match bit? c, parseZmap zm, table? tab, segs.mapM bytesOfHex with
    | some comp, some tbl, some ents, some segs =>
      let r := readAllWithK idXform (zOps tbl) comp (dispatchBody (assocTable realCustom ents))
        (Sock.plain segs)
      let items := String.join (r.1.1.map fun d => showDelivered d ++ " ")
      some s!"ok {items}end={r.1.2} reads={r.2.reads} eofreads={r.2.empties}"
    | _, _, _, _ => some "bad-op"
  | "dispatch.readall" :: _ => some "bad-op"
  | ["conn.write", e, t, zm, h] =>
    match bit? e, t.toInt?, parseZmap zm, bytesOfHex h with
    | some e, some t, some tbl, some payload =>
      let thr := writerThr { enabled := e, threshold := t }
      if compressesAt thr payload.length ∧ (zDeflate? tbl payload).isNone then some "err:zlib"
      else
        match frameSends (zOps tbl) thr payload with
        | [a, b] => some s!"ok {hexOut a} {hexOut b}"
        | _ => some "bad-op"
    | _, _, _, _ => some "bad-op"
  | "conn.write" :: _ => some "bad-op"
  | "opts.run" :: e :: t :: evs =>
    match bit? e, t.toInt?, allSome ev? evs with
    | some e, some t, some evs =>
      let o := ConnOpts.run { enabled := e, threshold := t } evs
      let w := match writerThr o with | none => "none" | some t => toString t
      some s!"ok {if o.enabled then 1 else 0} {o.threshold} writer={w} reader={if readerFlag o then 1 else 0}"
    | _, _, _ => some "bad-op"
  | "opts.run" :: _ => some "bad-op"
  | _ => none

end PyCraft.Drive
