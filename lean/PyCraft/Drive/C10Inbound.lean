import PyCraft.Drive.Login
import PyCraft.Model.C10Inbound
import PyCraft.Model.Aes
namespace PyCraft.Drive
open PyCraft PyCraft.Login PyCraft.LoginWire PyCraft.LoginIn

namespace C10InD

/-- zlib is not modelled: `deflate` is never called on what is rendered (`skip:deflate` otherwise),
`inflate` fails — a frame with a positive data length makes the client model stop with
`ioerr=zlib`, so the harness must only feed streams whose frames carry data length 0. -/
def noZlib : ZlibOps := { deflate := fun x => x, inflate := fun _ => none }

/-- `cb=<disconnect>,<encreq>,<success>,<setcomp>,<plugreq|->` -/
def profile? (cb uuid : String) : Option CbProfile :=
  match (LoginD.kv? "cb" cb).map (·.splitOn ","), (LoginD.kv? "uuid" uuid).bind LoginD.flag? with
  | some [d, e, s, c, p], some u =>
    match d.toNat?, e.toNat?, s.toNat?, c.toNat? with
    | some d, some e, some s, some c =>
      if p = "-" then some ⟨d, e, s, c, none, u⟩
      else p.toNat?.map fun p => ⟨d, e, s, c, some p, u⟩
    | _, _, _, _ => none
  | _, _ => none

/-- One server packet token. -/
def pkt? (tok : String) : Option SrvPkt :=
  match tok.splitOn ":" with
  | ["enc", sid, pk, tk] =>
    match LoginD.strOfHex sid, bytesOfHex pk, bytesOfHex tk with
    | some sid, some pk, some tk => some (.encRequest sid pk tk)
    | _, _, _ => none
  | ["comp", t] => t.toNat?.map .setCompression
  | ["plug", i, ch, d] =>
    match i.toNat?, LoginD.strOfHex ch, bytesOfHex d with
    | some i, some ch, some d => some (.pluginRequest i ch d)
    | _, _, _ => none
  | ["succ", "s", u, n] =>
    match LoginD.strOfHex u, LoginD.strOfHex n with
    | some u, some n => some (.success (.str u) n)
    | _, _ => none
  | ["succ", "b", u, n] =>
    match bytesOfHex u, LoginD.strOfHex n with
    | some u, some n => some (.success (.bin u) n)
    | _, _ => none
  | ["disc", j] => (LoginD.strOfHex j).map .disconnect
  | ["unk", i, d] =>
    match i.toNat?, bytesOfHex d with
    | some i, some d => some (.unknown i d)
    | _, _ => none
  | _ => none

def pkts? : List String → Option (List SrvPkt)
  | [] => some []
  | t :: ts => do
    let a ← pkt? t
    let r ← pkts? ts
    pure (a :: r)

/-- Would some frame take the `compress` branch? -/
def needsDeflate (C : CbProfile) : Option Int → List SrvPkt → Bool
  | _, [] => false
  | thr, p :: rest =>
    compressesAt thr (packetPayload (srvFields C p).1 (srvFields C p).2).length ||
      needsDeflate C (thrAfter thr p) rest

def wire (cb uuid sec : String) (toks : List String) : String :=
  match profile? cb uuid, (LoginD.kv? "secret" sec).bind bytesOfHex, pkts? toks with
  | some C, some secret, some script =>
    if needsDeflate C none script then "skip:deflate"
    else s!"ok wire={hexOut (srvWire noZlib (aes128 secret) secret C script)}"
  | _, _, _ => "bad-op"

def ticks? (s : String) : Option (List Tick) :=
  s.toList.mapM fun c => if c = 'f' then some Tick.flush else if c = 'r' then some Tick.read else none

def segs? (s : String) : Option Segs :=
  if s = "-" then some [] else (s.splitOn ",").mapM bytesOfHex

/-- `<jsonhex>=<texthex|~|!>`: what `json.loads(json)['text']` gives (`~` fails, `!` not a string). -/
def text? (tok : String) : Option (String × TextField) :=
  match tok.splitOn "=" with
  | [j, t] =>
    match LoginD.strOfHex j with
    | some j =>
      if t = "~" then some (j, .absent)
      else if t = "!" then some (j, .nonStr)
      else (LoginD.strOfHex t).map fun t => (j, .str t)
    | none => none
  | _ => none

def showEv : LoginEv → String
  | .encRequest sid pk tok => s!"enc:{LoginD.hexOfStr sid}:{hexOut pk}:{hexOut tok}"
  | .setCompression t => s!"comp:{t}"
  | .pluginRequest i ch d => s!"plug:{i}:{LoginD.hexOfStr ch}:{hexOut d}"
  | .success => "succ"
  | .disconnect j => s!"disc:{LoginD.hexOfStr j}"

def read (cb uuid tok sec tk sg : String) (texts : List String) : String :=
  match profile? cb uuid, (LoginD.kv? "token" tok).bind LoginD.flag?,
      (LoginD.kv? "secret" sec).bind bytesOfHex, (LoginD.kv? "ticks" tk).bind ticks?,
      (LoginD.kv? "segs" sg).bind segs?, texts.mapM text? with
  | some C, some hasTok, some secret, some ticks, some segs, some table =>
    let P : LoginParams :=
      { rsa := LoginD.idRsa, secret := secret,
        hash := fun sid sec pk => s!"{LoginD.hexOfStr sid}.{hexOut sec}.{hexOut pk}",
        hasToken := hasTok,
        jsonText := fun j => match table.find? (·.1 = j) with | some p => p.2 | none => .absent,
        handler := fun _ _ _ => none }
    let r := clientRun P noZlib (aes128 secret) C ticks segs
    let seen := if r.seen.isEmpty then "-" else ",".intercalate (r.seen.map showEv)
    let io := match r.ioErr with | none => "none" | some e => toString e
    s!"{LoginD.showState r.cs} seen={seen} layers={r.file.st.length} ioerr={io} " ++
      s!"rest={hexOut r.file.segs.flatten}"
  | _, _, _, _, _, _ => "bad-op"

end C10InD

/-- `c10in.wire cb=<d>,<e>,<s>,<c>,<p|-> uuid=<0|1> secret=<hex> <pkt> …` with
`pkt` = `enc:<serveridhex>:<pubkeyhex>:<tokenhex>` | `comp:<nat>` | `plug:<id>:<channelhex>:<datahex>`
| `succ:s:<uuidstringhex>:<namehex>` | `succ:b:<16 raw bytes hex>:<namehex>` | `disc:<jsonhex>` |
`unk:<id>:<datahex>`
→ `ok wire=<hex|->`: the reference server's login stream `srvWire` (block function AES-128 under the
secret, register = secret), or `skip:deflate` if some frame would be zlib-compressed.

`c10in.read cb=… uuid=<0|1> token=<0|1> secret=<hex> ticks=<string over f,r> segs=<hex,hex,…|->
 [<jsonhex>=<texthex|~|!> …]`
→ `ok out=… state=<login|play> enc=<0|1> thr=<int|none> joined=<0|1> err=<…>` (exactly the reply of
`login.run`) followed by ` seen=<ev,…|-> layers=<n> ioerr=<none|eof|toolong|…> rest=<hex|->`:
the byte-level client model `clientRun` on the arrival segments `segs` with the tick list `ticks`
(`f` = write phase, `r` = one `read_packet` + `_react`); `seen` = the packets handed to `_react`
(`enc:…` | `comp:<n>` | `plug:…` | `succ` | `disc:<jsonhex>`), `layers` = number of
`EncryptedFileObjectWrapper`s on `connection.file_object`, `ioerr` = the exception `read_packet`
raised, `rest` = the raw bytes not yet read from the socket.  RSA = identity. -/
def c10inbound (toks : List String) : Option String :=
  match toks with
  | "c10in.wire" :: cb :: uuid :: sec :: rest => some (C10InD.wire cb uuid sec rest)
  | "c10in.wire" :: _ => some "bad-op"
  | "c10in.read" :: cb :: uuid :: tok :: sec :: tk :: sg :: rest =>
    some (C10InD.read cb uuid tok sec tk sg rest)
  | "c10in.read" :: _ => some "bad-op"
  | _ => none

end PyCraft.Drive
