import PyCraft.Drive.Util
import PyCraft.Model.Position
namespace PyCraft.Drive
open PyCraft

private def flag? (s : String) : Option Bool :=
  if s = "0" then some false else if s = "1" then some true else none

private def showPos (p : (Int × Int × Int) × Bytes) : String :=
  s!"{p.1.1} {p.1.2.1} {p.1.2.2} {hexOut p.2}"

private def showRec (p : (Int × Int × Int × Int) × Bytes) : String :=
  s!"{p.1.1} {p.1.2.1} {p.1.2.2.1} {p.1.2.2.2} {hexOut p.2}"

/-- `pos.enc <newer:0|1> <x> <y> <z>` → `ok <16 hex>` | `err:struct`;
    `pos.dec <newer:0|1> <hex>` → `ok <x> <y> <z> <resthex>` | `err:<e>`;
    `secpos.enc <x> <y> <z>` → `ok <hex>` | `err:<e>`;
    `secpos.dec <hex>` → `ok <x> <y> <z> <resthex>` | `err:<e>`;
    `record.enc <v741:0|1> <x> <y> <z> <block_state_id>` → `ok <hex>` | `err:<e>`;
    `record.dec <v741:0|1> <hex>` → `ok <x> <y> <z> <block_state_id> <resthex>` | `err:<e>`. -/
def position (toks : List String) : Option String :=
  match toks with
  | ["pos.enc", f, x, y, z] =>
    match flag? f, x.toInt?, y.toInt?, z.toInt? with
    | some f, some x, some y, some z => some (exc hexOut (encPos f x y z))
    | _, _, _, _ => some "bad-op"
  | ["pos.dec", f, h] =>
    match flag? f, bytesOfHex h with
    | some f, some bs => some (exc showPos (decPos f bs))
    | _, _ => some "bad-op"
  | ["secpos.enc", x, y, z] =>
    match x.toInt?, y.toInt?, z.toInt? with
    | some x, some y, some z => some (exc hexOut (encSecPos x y z))
    | _, _, _ => some "bad-op"
  | ["secpos.dec", h] =>
    match bytesOfHex h with
    | some bs => some (exc showPos (decSecPos bs))
    | none => some "bad-op"
  | ["record.enc", f, x, y, z, b] =>
    match flag? f, x.toInt?, y.toInt?, z.toInt?, b.toInt? with
    | some f, some x, some y, some z, some b => some (exc hexOut (encRecord f x y z b))
    | _, _, _, _, _ => some "bad-op"
  | ["record.dec", f, h] =>
    match flag? f, bytesOfHex h with
    | some f, some bs => some (exc showRec (decRecord f bs))
    | _, _ => some "bad-op"
  | op :: _ =>
    if op ∈ ["pos.enc", "pos.dec", "secpos.enc", "secpos.dec", "record.enc", "record.dec"] then
      some "bad-op"
    else none
  | [] => none

end PyCraft.Drive
