import PyCraft.Drive.Util
import PyCraft.Model.Wire
import PyCraft.Model.Scaled
/-!
Line-protocol handler for the primitive wire codecs (`Model/Wire.lean`) and the scaling arithmetic of
`Angle` / `FixedPoint` (`Model/Scaled.lean`).

Type syntax (one token, `/`-separated prefix notation):
`bool` `u8` `i8` `i16` `u16` `i32` `i64` `u64` `f32` `f64` `varint` `varlong` `string` `uuid` `angle`
`fixed/<base>/<bits>` `bytesv` `bytess` `trailing` `arr/<varint|i32|i16|u8>/<type…>`
`pos/<0|1>` `secpos` `rec/<0|1>` `expl` `effpos` `pitch/<0|1>/<0|1>` `nbt`
(the last seven are `.custom …`), e.g. `arr/varint/arr/i32/string`.

Value syntax (one token): `T` | `F` | `i<int>` | `x<hex>` (`x` alone = empty bytes) |
`s<hex of the UTF-8 bytes>` (`s` alone = empty string) | `[v,v,…]` (nested, `[]` = empty list).
-/
namespace PyCraft.Drive
open PyCraft

/-- the custom codec of a build that has no custom types plugged in: every use is a `TypeError` -/
def noCustom : CustomCodec where
  enc := fun _ _ => .error .type
  dec := fun _ _ => .error .type

namespace WireSyntax

def intT? : String → Option IntT
  | "u8" => some .u8 | "i8" => some .i8 | "i16" => some .i16 | "u16" => some .u16
  | "i32" => some .i32 | "i64" => some .i64 | "u64" => some .u64 | "f32" => some .f32
  | "f64" => some .f64 | _ => none

def lenT? : String → Option LenT
  | "varint" => some .varint | "i32" => some .i32 | "i16" => some .i16 | "u8" => some .u8
  | _ => none

def flag? (s : String) : Option Bool :=
  if s = "0" then some false else if s = "1" then some true else none

/-- parse a type from its `/`-separated parts; every part must be consumed -/
def wtypeParts : List String → Option WType
  | ["bool"] => some .bool
  | ["varint"] => some .varint
  | ["varlong"] => some .varlong
  | ["string"] => some .string
  | ["uuid"] => some .uuid
  | ["angle"] => some .angle
  | ["bytesv"] => some .bytesVarint
  | ["bytess"] => some .bytesShort
  | ["trailing"] => some .trailing
  | ["secpos"] => some (.custom .secpos)
  | ["effpos"] => some (.custom .effectPos)
  | ["expl"] => some (.custom .explRecord)
  | ["nbt"] => some (.custom .nbt)
  | ["pos", f] => (flag? f).map fun b => .custom (.position b)
  | ["rec", f] => (flag? f).map fun b => .custom (.record b)
  | ["pitch", f, g] => do
    let a ← flag? f
    let b ← flag? g
    pure (.custom (.pitch a b))
  | ["fixed", base, bits] =>
    match intT? base, bits.toNat? with
    | some b, some n => some (.fixed b n)
    | _, _ => none
  | "arr" :: l :: rest =>
    match lenT? l, wtypeParts rest with
    | some l, some t => some (.array l t)
    | _, _ => none
  | [s] => (intT? s).map .int
  | _ => none

def wtype? (s : String) : Option WType := wtypeParts (s.splitOn "/")

/-- a scalar value from ALL the given characters -/
def scalar? (cs : List Char) : Option Value :=
  match cs with
  | ['T'] => some (.bool true)
  | ['F'] => some (.bool false)
  | 'i' :: ds => (String.ofList ds).toInt?.map .int
  | 'x' :: hs => (bytesOfHexAux hs).map .bytes
  | 's' :: hs => (bytesOfHexAux hs).bind fun b => (utf8Decode b).map .str
  | _ => none

/-- characters of a scalar token: everything up to the next `,` or `]` -/
def spanScalar : List Char → List Char × List Char
  | [] => ([], [])
  | c :: cs =>
    if c = ',' ∨ c = ']' ∨ c = '[' then ([], c :: cs)
    else let (a, b) := spanScalar cs; (c :: a, b)

mutual
  /-- one value from the front of the input -/
  def parseVal : Nat → List Char → Option (Value × List Char)
    | 0, _ => none
    | _ + 1, '[' :: ']' :: rest => some (.list [], rest)
    | fuel + 1, '[' :: rest =>
      match parseItems fuel rest with
      | some (vs, rest') => some (.list vs, rest')
      | none => none
    | _ + 1, cs =>
      let (a, b) := spanScalar cs
      match scalar? a with
      | some v => some (v, b)
      | none => none
  /-- `v,v,…]` (at least one item) -/
  def parseItems : Nat → List Char → Option (List Value × List Char)
    | 0, _ => none
    | fuel + 1, cs =>
      match parseVal fuel cs with
      | some (v, ',' :: rest) =>
        match parseItems fuel rest with
        | some (vs, rest') => some (v :: vs, rest')
        | none => none
      | some (v, ']' :: rest) => some ([v], rest)
      | _ => none
end

def value? (s : String) : Option Value :=
  let cs := s.toList
  match parseVal (2 * cs.length + 2) cs with
  | some (v, []) => some v
  | _ => none

mutual
  def showValue : Value → String
    | .bool true => "T"
    | .bool false => "F"
    | .int i => s!"i{i}"
    | .bytes b => "x" ++ hexOfBytes b
    | .str s => "s" ++ hexOfBytes (utf8 s)
    | .list vs => "[" ++ showValues vs ++ "]"
  def showValues : List Value → String
    | [] => ""
    | [v] => showValue v
    | v :: w :: vs => showValue v ++ "," ++ showValues (w :: vs)
end

end WireSyntax

open WireSyntax

/-- `wire.enc <type> <value>` → `ok <hex>` | `err:<e>`;
    `wire.dec <type> <hex>` → `ok <value> <resthex>` | `err:<e>`;
    `angle.step <p> <q>` → `ok <step>` (`q > 0`);
    `fixed.wire <bits> <p> <q>` → `ok <w>` (`q > 0`).
    Unparsable arguments → `bad-op`. -/
def wire (cc : CustomCodec) (toks : List String) : Option String :=
  match toks with
  | ["wire.enc", t, v] =>
    match wtype? t, value? v with
    | some t, some v => some (exc hexOut (encode cc t v))
    | _, _ => some "bad-op"
  | ["wire.dec", t, h] =>
    match wtype? t, bytesOfHex h with
    | some t, some bs =>
      some (exc (fun (p : Value × Bytes) => s!"{showValue p.1} {hexOut p.2}") (decode cc t bs))
    | _, _ => some "bad-op"
  | ["angle.step", p, q] =>
    match p.toInt?, q.toInt? with
    | some p, some q => if 0 < q then some s!"ok {angleStep p q}" else some "bad-op"
    | _, _ => some "bad-op"
  | ["fixed.wire", bits, p, q] =>
    match bits.toNat?, p.toInt?, q.toInt? with
    | some b, some p, some q => if 0 < q then some s!"ok {fixedWire b p q}" else some "bad-op"
    | _, _, _ => some "bad-op"
  | op :: _ =>
    if op ∈ ["wire.enc", "wire.dec", "angle.step", "fixed.wire"] then some "bad-op" else none
  | [] => none

end PyCraft.Drive
