import PyCraft.Drive.Util
import PyCraft.Model.Writers
namespace PyCraft.Drive
open PyCraft PyCraft.Writers

namespace WritersIO

def items (sep : String) (s : String) : List String :=
  if s = "-" ∨ s = "" then [] else s.splitOn sep

def opOfTok (tok : String) : Option Op :=
  match tok.toList with
  | ['d', '0'] => some (.disconnect false)
  | ['d', '1'] => some (.disconnect true)
  | 'q' :: r => if r.isEmpty then none else (String.ofList r).toNat?.map .queued
  | 'f' :: r => if r.isEmpty then none else (String.ofList r).toNat?.map .forced
  | _ => none

def progOfTok (s : String) : Option (List Op) := (items "," s).mapM opOfTok

def progsOfTok (s : String) : Option (List (List Op)) :=
  if s = "-" ∨ s = "" then some [] else (s.splitOn ";").mapM progOfTok

def kv (key : String) (tok : String) : Option String :=
  match tok.splitOn "=" with
  | [k, v] => if k = key then some v else none
  | _ => none

def showEv : Tid × Ev → String
  | (t, .acq) => s!"{t}:acq"
  | (t, .rel) => s!"{t}:rel"
  | (t, .app p) => s!"{t}:app:{p}"
  | (t, .chk n) => s!"{t}:chk:{n}"
  | (t, .pop p) => s!"{t}:pop:{p}"
  | (t, .snd p c) => s!"{t}:snd:{p}:{c.val}"
  | (t, .rdi b) => s!"{t}:rdi:{if b then 1 else 0}"
  | (t, .sti) => s!"{t}:sti"
  | (t, .shut) => s!"{t}:shut"
  | (t, .cls) => s!"{t}:cls"
  | (t, .sel) => s!"{t}:sel"
  | (t, .fail) => s!"{t}:fail"
  | (t, .fin) => s!"{t}:end"

def commas (l : List String) : String := if l.isEmpty then "-" else ",".intercalate l

def bit (b : Bool) : String := if b then "1" else "0"

end WritersIO
open WritersIO

/-- `writers.run capw=<n> capr=<n> progs=<prog>;<prog>;… sched=<t,t,…>` with
`<prog>` = comma list of `q<p>` | `f<p>` | `d0` | `d1` (`-` = empty program / no user threads /
empty schedule); user threads are numbered `1..` in order, thread `0` is the networking thread;
schedule entries that are not enabled are skipped →
`ok log=<ev>,… wire=<p.c,…|-> done=<0|1> open=<0|1> queue=<p,…|-> skipped=<k>`. -/
def writers (toks : List String) : Option String :=
  match toks with
  | ["writers.run", a, b, c, d] =>
    match (kv "capw" a).bind String.toNat?, (kv "capr" b).bind String.toNat?,
          (kv "progs" c).bind progsOfTok,
          (kv "sched" d).bind (fun s => (items "," s).mapM String.toNat?) with
    | some capW, some capR, some progs, some sched =>
      let cfg : Cfg := ⟨capW, capR⟩
      let s := run cfg (init progs) sched
      let wire := commas (s.wire.map fun ch => s!"{ch.1}.{ch.2.val}")
      some (s!"ok log={commas (s.log.map showEv)} wire={wire} " ++
            s!"done={bit (allDoneUpTo s progs.length)} open={bit s.sockOpen} " ++
            s!"queue={commas (s.queue.map toString)} skipped={skipped cfg (init progs) sched}")
    | _, _, _, _ => some "bad-op"
  | tok :: _ => if tok.startsWith "writers." then some "bad-op" else none
  | [] => none

end PyCraft.Drive
