import PyCraft.Model.C16Carry
/-!
Line-protocol command for `Model/C16Carry.lean` (the `Connection` object across sessions).

```
carry.run <variant> allowed=<p,p,…> dflt=<p> exit=<0|1> <op> <op> …
```
* `<variant>`: `real` | `chg1` | `chg2` (see the model's header; `real` is the code under study).
* `allowed` = `allowed_proto_versions` (release protocol numbers), `dflt` = `default_proto_version`,
  `exit=1` iff a `handle_exit` callback is installed.
* operations (`<net>` = `` TCP connect succeeds | `r` refused | `x` `getaddrinfo` fails):
  * `c<net>`            `connect()`
  * `s0<net>` `s1<net>` `status(handle_ping=False)` / `status()` (ping measured)
  * `w<n>`              `write_packet(<user packet n>)`
  * `d` `di` `d!<k>`    `disconnect()`, `disconnect(immediate=True)`, `disconnect()` whose `k`-th
                        flush write (from 0) raises `IOError`
  * `f` `f<n>` `f<n>!<k>`  write phase of the networking thread: at most `n` packets (`f` = 300),
                        the `k`-th write raises `IOError`
  * incoming packets (read + reacted to by the networking thread), optional handler suffix `<h>`:
    `z<t>` set compression, threshold `t` (an integer, may be negative) · `e` encryption request ·
    `l` login success · `g<id>` login plugin request · `k<id>` keep alive · `p<tid>` player
    position and look · `D` / `D!<k>` disconnect (play state: `k`-th flush write raises) ·
    `r<proto><net>` / `r-<net>` status response reporting protocol `proto` / without a usable
    version (`<net>`: answer to the `connect()` made by `PlayingStatusReactor`) · `o` pong ·
    `u` any other packet
  * `E<kind><h>`        an exception leaves `_run`: kind ∈ `eof|io|login|version|attr|o<n>`
  * `x` `x+<net>`       `_run` returns (the thread saw `interrupt`): `_handle_exit()`, `finally`;
                        `+`: the exit callback calls `connect()`
  * `<h>`: `` no handler reconnects | `+<net>` a registered exception handler calls `connect()` |
    `-<net>` none does, but the `connect()` of `PlayingStatusReactor.handle_exception` gets `<net>`.

Reply: `ok <state> | <state> | …`, one `<state>` per operation (after it), or `bad-op`.
```
<outcome> ce=<0|1> ct=<int> sock=<0|u|p|e> file=<0|p|e|cp|ce> q=<x|-|pkt,…> conn=<0|1>
  sp=<x|0|1> re=<base|login|play|status0|status1|pstatus> exc=<-|sess:kind> pv=<n> al=<p,…>
  nt=<-|i@sess> new=<-|i@sess> sess=<n> exits=<-|sess,…> sent=<-|pkt@sess:thr:p|e,…>
```
| field   | compare with (real `Connection` object `c`)                                            |
|---------|----------------------------------------------------------------------------------------|
| outcome | `ok` normal return · `exc:<kind>` the call raised / the thread took the exception path · `skip` not enabled |
| `ce`,`ct` | `c.options.compression_enabled`, `c.options.compression_threshold`                   |
| `sock`  | `c.socket`: `0` `None` · `u` socket object whose `connect` raised · `p` connected plain socket · `e` `EncryptedSocketWrapper` |
| `file`  | `c.file_object`: `0` `None` · `p`/`e` open plain / `EncryptedFileObjectWrapper` · `cp`/`ce` the same, closed |
| `q`     | `c._outgoing_packet_queue` (`x`: no such attribute): `hs<proto>/<next_state>` handshake, `ls` login start, `rq` status request, `pi` ping, `pr<id>` plugin response, `ka<id>` keep alive, `tc<id>` teleport confirm, `pl` position and look, `u<n>` user packet |
| `conn`,`sp` | `c.connected`, `c.spawned` (`x`: no such attribute)                                |
| `re`    | `type(c.reactor)`: PacketReactor, LoginReactor, PlayingReactor, StatusReactor (do_ping 0/1), PlayingStatusReactor |
| `exc`   | `c.exception`: `-` `None`, else `<transport the recording thread belonged to>:<kind>`  |
| `pv`,`al` | `c.context.protocol_version`, `sorted(c.allowed_proto_versions)`                     |
| `nt`,`new` | `c.networking_thread`, `c.new_networking_thread`: `-` `None`, else `<interrupt>@<transport it was started for>` |
| `sess`  | number of TCP connections established so far (sockets whose `connect` succeeded)       |
| `exits` | the calls of the `handle_exit` callback so far (transport of the calling thread)       |
| `sent`  | frames written BY THIS OPERATION: packet, transport, `compression_threshold` argument of `Packet.write` (`n` = none), `p`lain / `e`ncrypted socket; also `er` = encryption response |

Examples
```
carry.run real allowed=340 dflt=340 exit=1 c f z64 Eeof+ f
ok ok ce=0 ct=-1 sock=p file=p q=hs340/2,ls conn=1 sp=0 re=login exc=- pv=340 al=340 nt=0@1 new=- sess=1 exits=- sent=-
 | ok ce=0 ct=-1 sock=p file=p q=- conn=1 sp=0 re=login exc=- pv=340 al=340 nt=0@1 new=- sess=1 exits=- sent=hs340/2@1:n:p,ls@1:n:p
 | ok ce=1 ct=64 sock=p file=p q=- conn=1 sp=0 re=login exc=- pv=340 al=340 nt=0@1 new=- sess=1 exits=- sent=-
 | exc:eof ce=0 ct=-1 sock=p file=p q=hs340/2,ls conn=1 sp=0 re=login exc=1:eof pv=340 al=340 nt=0@2 new=- sess=2 exits=- sent=-
 | ok ce=0 ct=-1 sock=p file=p q=- conn=1 sp=0 re=login exc=1:eof pv=340 al=340 nt=0@2 new=- sess=2 exits=- sent=hs340/2@2:n:p,ls@2:n:p
```
(the reply is ONE line; it is broken here for reading) and
```
carry.run real allowed=47 dflt=47 exit=1 c f Elogin c f l D x
```
whose last state has `conn=0 … exc=1:login … exits=2`: the exit callback runs for the second session
although `exception` still holds the first session's error.
-/
namespace PyCraft.Drive
open PyCraft PyCraft.Carry

namespace CarryIO

def commas (l : List String) : String := if l.isEmpty then "-" else ",".intercalate l

def bit (b : Bool) : String := if b then "1" else "0"

def natOfChars (cs : List Char) : Option Nat :=
  if cs.isEmpty then none else (String.ofList cs).toNat?

def intOfChars : List Char → Option Int
  | '-' :: cs => (natOfChars cs).map fun n => -(n : Int)
  | cs => (natOfChars cs).map fun n => (n : Int)

def netOfChars : List Char → Option Net
  | [] => some .ok
  | ['r'] => some .refused
  | ['x'] => some .resolveFail
  | _ => none

def handlerOfChars : List Char → Option Handler
  | [] => some Handler.none
  | '+' :: r => (netOfChars r).map fun n => ⟨true, n⟩
  | '-' :: r => (netOfChars r).map fun n => ⟨false, n⟩
  | _ => none

/-- Split at the first `+`/`-`-introduced handler suffix that follows position 0 … used for
tokens whose body contains no `+`; a leading `-` of a number is kept by the caller. -/
def splitHandler (cs : List Char) : List Char × List Char :=
  (cs.takeWhile (fun c => c != '+' && c != '-'), cs.dropWhile (fun c => c != '+' && c != '-'))

/-- `<digits>` optionally followed by `!<digits>`. -/
def natBang (cs : List Char) (dflt : Option Nat) : Option (Nat × Option Nat) :=
  let a := cs.takeWhile (· != '!')
  let b := cs.dropWhile (· != '!')
  let n := if a.isEmpty then dflt else natOfChars a
  match n, b with
  | some n, [] => some (n, none)
  | some n, '!' :: k => (natOfChars k).map fun k => (n, some k)
  | _, _ => none

def kindOfChars : List Char → Option ExcKind
  | ['e', 'o', 'f'] => some .eof
  | ['i', 'o'] => some .io
  | ['l', 'o', 'g', 'i', 'n'] => some .loginDisconnect
  | ['v', 'e', 'r', 's', 'i', 'o', 'n'] => some .versionMismatch
  | ['a', 't', 't', 'r'] => some .attribute
  | 'o' :: n => (natOfChars n).map .other
  | _ => none

/-- Digits, then a `<net>` suffix. -/
def natNet (cs : List Char) : Option (Nat × Net) :=
  let a := cs.takeWhile Char.isDigit
  let b := cs.dropWhile Char.isDigit
  match natOfChars a, netOfChars b with
  | some n, some r => some (n, r)
  | _, _ => none

def opOfTok (tok : String) : Option Op :=
  match tok.toList with
  | 'c' :: r => (netOfChars r).map .connect
  | 's' :: '0' :: r => (netOfChars r).map (.status false)
  | 's' :: '1' :: r => (netOfChars r).map (.status true)
  | 'w' :: r => (natOfChars r).map .write
  | ['d'] => some (.disconnect false none)
  | ['d', 'i'] => some (.disconnect true none)
  | 'd' :: '!' :: k => (natOfChars k).map fun k => .disconnect false (some k)
  | 'f' :: r => (natBang r (some 300)).map fun x => .flush x.1 x.2
  | 'z' :: '-' :: r =>
    let sp := splitHandler r
    match natOfChars sp.1, handlerOfChars sp.2 with
    | some n, some h => some (.recv (.setCompression (-(n : Int))) h)
    | _, _ => none
  | 'z' :: r =>
    let sp := splitHandler r
    match natOfChars sp.1, handlerOfChars sp.2 with
    | some n, some h => some (.recv (.setCompression (n : Int)) h)
    | _, _ => none
  | 'e' :: r => (handlerOfChars r).map (.recv .encryptionRequest)
  | 'l' :: r => (handlerOfChars r).map (.recv .loginSuccess)
  | 'g' :: r =>
    let sp := splitHandler r
    match natOfChars sp.1, handlerOfChars sp.2 with
    | some n, some h => some (.recv (.pluginRequest n) h)
    | _, _ => none
  | 'k' :: r =>
    let sp := splitHandler r
    match natOfChars sp.1, handlerOfChars sp.2 with
    | some n, some h => some (.recv (.keepAlive n) h)
    | _, _ => none
  | 'p' :: r =>
    let sp := splitHandler r
    match natOfChars sp.1, handlerOfChars sp.2 with
    | some n, some h => some (.recv (.position n) h)
    | _, _ => none
  | 'D' :: '!' :: r =>
    let sp := splitHandler r
    match natOfChars sp.1, handlerOfChars sp.2 with
    | some k, some h => some (.recv (.disconnect (some k)) h)
    | _, _ => none
  | 'D' :: r => (handlerOfChars r).map (.recv (.disconnect none))
  | 'r' :: '-' :: r =>
    -- `r-<net><h>`: the net suffix is a letter, the handler suffix starts with `+`/`-`
    let sp := splitHandler r
    match netOfChars sp.1, handlerOfChars sp.2 with
    | some n, some h => some (.recv (.response none n) h)
    | _, _ => none
  | 'r' :: r =>
    let sp := splitHandler r
    match natNet sp.1, handlerOfChars sp.2 with
    | some (p, n), some h => some (.recv (.response (some p) n) h)
    | _, _ => none
  | 'o' :: r => (handlerOfChars r).map (.recv .pong)
  | 'u' :: r => (handlerOfChars r).map (.recv .other)
  | 'E' :: r =>
    let sp := splitHandler r
    match kindOfChars sp.1, handlerOfChars sp.2 with
    | some k, some h => some (.error k h)
    | _, _ => none
  | ['x'] => some (.exit none)
  | 'x' :: '+' :: r => (netOfChars r).map fun n => .exit (some n)
  | _ => none

def variantOfTok : String → Option Variant
  | "real" => some .real
  | "chg1" => some .chg1
  | "chg2" => some .chg2
  | _ => none

def kv (key : String) (tok : String) : Option String :=
  match tok.splitOn "=" with
  | [k, v] => if k = key then some v else none
  | _ => none

def natList (s : String) : Option (List Nat) :=
  if s = "-" ∨ s = "" then some [] else (s.splitOn ",").mapM String.toNat?

def showKind : ExcKind → String
  | .eof => "eof" | .io => "io" | .loginDisconnect => "login" | .versionMismatch => "version"
  | .attribute => "attr" | .invalidState => "invalid" | .refused => "refused"
  | .resolve => "resolve" | .notImplemented => "notimpl" | .other n => s!"o{n}"

def showOutcome : Outcome → String
  | .ok => "ok"
  | .exc k => s!"exc:{showKind k}"
  | .skip => "skip"

def showSock : SockSt → String
  | .none => "0" | .unconnected => "u" | .open false => "p" | .open true => "e"

def showFile : FileSt → String
  | .none => "0" | .open false => "p" | .open true => "e" | .closed false => "cp"
  | .closed true => "ce"

def showPkt : Pkt → String
  | .handshake p n => s!"hs{p}/{n}" | .loginStart => "ls" | .request => "rq" | .ping => "pi"
  | .encResponse => "er" | .pluginResponse i => s!"pr{i}" | .keepAlive i => s!"ka{i}"
  | .teleportConfirm i => s!"tc{i}" | .positionLook => "pl" | .user n => s!"u{n}"

def showQueue : Option (List Pkt) → String
  | none => "x"
  | some q => commas (q.map showPkt)

def showOptBool : Option Bool → String
  | none => "x" | some b => bit b

def showReactor : Reactor → String
  | .base => "base" | .login => "login" | .play => "play" | .status false => "status0"
  | .status true => "status1" | .playingStatus => "pstatus"

def showExc : Option Exc → String
  | none => "-"
  | some e => s!"{e.sess}:{showKind e.kind}"

def showThr : Option Thr → String
  | none => "-"
  | some t => s!"{bit t.intr}@{t.sess}"

def showSent (w : Sent) : String :=
  let thr := match w.thr with | none => "n" | some t => toString t
  s!"{showPkt w.pkt}@{w.sess}:{thr}:{if w.enc then "e" else "p"}"

def showState (o : Outcome) (s : Obj) (wireBefore : Nat) : String :=
  s!"{showOutcome o} ce={bit s.compEnabled} ct={s.compThreshold} sock={showSock s.socket} " ++
  s!"file={showFile s.file} q={showQueue s.queue} conn={bit s.connected} " ++
  s!"sp={showOptBool s.spawned} re={showReactor s.reactor} exc={showExc s.exc} pv={s.proto} " ++
  s!"al={commas (s.allowed.map toString)} nt={showThr s.nt} new={showThr s.newNt} " ++
  s!"sess={s.sess} exits={commas (s.exits.map toString)} " ++
  s!"sent={commas ((s.wire.drop wireBefore).map showSent)}"

def trace (v : Variant) (s : Obj) : List Op → List String
  | [] => []
  | op :: ops =>
    let r := step v s op
    showState r.2 r.1 s.wire.length :: trace v r.1 ops

end CarryIO
open CarryIO

/-- `carry.run <variant> allowed=<p,…> dflt=<p> exit=<0|1> <op> …` — see the file header. -/
def c16carry (toks : List String) : Option String :=
  match toks with
  | "carry.run" :: vt :: a :: d :: x :: ops =>
    match variantOfTok vt, (kv "allowed" a).bind natList, (kv "dflt" d).bind String.toNat?,
          (kv "exit" x).bind String.toNat?, ops.mapM opOfTok with
    | some v, some al, some df, some ex, some ops =>
      some ("ok " ++ " | ".intercalate (trace v (fresh ⟨al, df, ex != 0⟩) ops))
    | _, _, _, _, _ => some "bad-op"
  | tok :: _ => if tok.startsWith "carry." then some "bad-op" else none
  | [] => none

end PyCraft.Drive
