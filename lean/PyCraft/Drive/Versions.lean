import PyCraft.Drive.Util
import PyCraft.Model.Versions
namespace PyCraft.Drive
open PyCraft

namespace Ver

/-- id on the wire: hex of its UTF-8 bytes, `-` for the empty string. -/
def idOfHex (h : String) : Option String := do
  let bs ← bytesOfHex h
  String.fromUTF8? (ByteArray.mk bs.toArray)

def hexOfId (s : String) : String := hexOut s.toUTF8.data.toList

/-- `<idhex>:<protocol>:<0|1>` -/
def parseRec (tok : String) : Option Rec :=
  match tok.splitOn ":" with
  | [h, p, s] => do
    let id ← idOfHex h
    let protocol ← p.toNat?
    let supported ← if s = "1" then some true else if s = "0" then some false else none
    pure ⟨id, protocol, supported⟩
  | _ => none

/-- `<idhex>:<protocol>` -/
def parseItem (tok : String) : Option (String × Nat) :=
  match tok.splitOn ":" with
  | [h, p] => do
    let id ← idOfHex h
    let protocol ← p.toNat?
    pure (id, protocol)
  | _ => none

/-- comma separated naturals, `-` for the empty list -/
def parseNats (tok : String) : Option (List Nat) :=
  if tok = "-" then some [] else (tok.splitOn ",").mapM (·.toNat?)

def joinOr (l : List String) : String := if l.isEmpty then "-" else ",".intercalate l

def showOd (d : List (String × Nat)) : String := joinOr (d.map fun e => s!"{hexOfId e.1}:{e.2}")
def showNats (l : List Nat) : String := joinOr (l.map toString)
def showIdx (d : List (Nat × Nat)) : String := joinOr (d.map fun e => s!"{e.1}:{e.2}")

def showTables (t : Tables) : String :=
  s!"ok known={showOd t.knownVersions} kp={showNats t.knownProtocols} " ++
  s!"sv={showOd t.supportedVersions} idx={showIdx t.indices} " ++
  s!"sp={showNats t.supportedProtocols} rv={showOd t.releaseVersions} " ++
  s!"rp={showNats t.releaseProtocols}"

def showBool (b : Bool) : String := if b then "1" else "0"

/-- The tables whose known-protocol list is (the duplicate-free projection of) `kp`: the model's
`initKnown` run on one unsupported record per entry. -/
def tablesOfKp (kp : List Nat) : Tables := initKnown (kp.map fun p => ⟨"", p, false⟩)

end Ver

open Ver in
/-- `ver.init <rec> …` with rec = `<idhex>:<protocol>:<0|1>` → `initglobals(True)`:
      `ok known=<idhex>:<n>,… kp=<n>,… sv=<idhex>:<n>,… idx=<pv>:<i>,… sp=<n>,… rv=<idhex>:<n>,… rp=<n>,…`
      (every empty list is `-`; ids are hex of their UTF-8 bytes, `-` for the empty id);
    `ver.sup <item> …` with item = `<idhex>:<protocol>` → `initglobals(False)` on that supported
      dict: `ok sp=<n>,… rv=<idhex>:<n>,… rp=<n>,…`;
    `ver.cmp <kp> <pred> <a> <b>` with kp = comma list of known protocols (`-` empty), pred ∈
      `earlier|earlier_eq|later|later_eq` (the `ConnectionContext(protocol_version=a)` method applied
      to `b`) → `ok 0|1` | `err:other` (KeyError);
    `ver.range <kp> <v> <start> <end>` → `protocol_in_range`: `ok 0|1` | `err:other`;
    `ver.release <idhex>` → `ok 0|1` (the release-name regex). -/
def versions (toks : List String) : Option String :=
  match toks with
  | "ver.init" :: recs =>
    match recs.mapM parseRec with
    | some rs => some (showTables (initKnown rs))
    | none => some "bad-op"
  | "ver.sup" :: items =>
    match items.mapM parseItem with
    | some sv =>
      let t := initSupportedOnly Tables.empty sv
      some s!"ok sp={showNats t.supportedProtocols} rv={showOd t.releaseVersions} rp={showNats t.releaseProtocols}"
    | none => some "bad-op"
  | ["ver.cmp", kp, pred, a, b] =>
    match parseNats kp, a.toNat?, b.toNat? with
    | some kp, some a, some b =>
      let t := tablesOfKp kp
      match pred with
      | "earlier" => some (exc showBool (earlier t a b))
      | "earlier_eq" => some (exc showBool (earlierEq t a b))
      | "later" => some (exc showBool (later t a b))
      | "later_eq" => some (exc showBool (laterEq t a b))
      | _ => some "bad-op"
    | _, _, _ => some "bad-op"
  | ["ver.range", kp, v, s, e] =>
    match parseNats kp, v.toNat?, s.toNat?, e.toNat? with
    | some kp, some v, some s, some e => some (exc showBool (inRange (tablesOfKp kp) v s e))
    | _, _, _, _ => some "bad-op"
  | ["ver.release", h] =>
    match idOfHex h with
    | some id => some s!"ok {showBool (isRelease id)}"
    | none => some "bad-op"
  | tok :: _ => if tok.startsWith "ver." then some "bad-op" else none
  | [] => none

end PyCraft.Drive
