import PyCraft.Drive.Util
import PyCraft.Model.HandshakeWire
namespace PyCraft.Drive
open PyCraft PyCraft.Neg PyCraft.HsWire

namespace HsWireD

/-- `key=value` → `value`. -/
def kv? (key tok : String) : Option String :=
  let k := (key ++ "=").toList
  if k.isPrefixOf tok.toList then some (String.ofList (tok.toList.drop k.length)) else none

/-- Hex of the UTF-8 bytes of a string (`-` = the empty string); `none` if not valid UTF-8. -/
def strOfHex (h : String) : Option String := (bytesOfHex h).bind utf8Decode

/-- `<id>:<namehex>`; the name `~` is Python `None`. -/
def start? (s : String) : Option (Nat × Option String) :=
  match s.splitOn ":" with
  | [i, n] =>
    match i.toNat? with
    | none => none
    | some id => if n = "~" then some (id, none) else (strOfHex n).map fun nm => (id, some nm)
  | _ => none

/-- The optional trailing tokens `start=<id>:<namehex>` and `ping=<int>` (each at most once, any
order). -/
def opts? : List String → Option (Option (Nat × Option String) × Option Int)
  | [] => some (none, none)
  | t :: rest =>
    match opts? rest with
    | none => none
    | some (st, pg) =>
      match kv? "start" t, kv? "ping" t with
      | some v, _ => if st.isSome then none else (start? v).map fun x => (some x, pg)
      | none, some v => if pg.isSome then none else v.toInt?.map fun x => (st, some x)
      | none, none => none

def showPkts (ps : List (Nat × Bytes)) : String :=
  if ps.isEmpty then "-" else ",".intercalate (ps.map fun p => s!"{p.1}.{hexOut p.2}")

def first (proto host port next : String) (rest : List String) : String :=
  match (kv? "proto" proto).bind (·.toNat?), (kv? "host" host).bind strOfHex,
      (kv? "port" port).bind (·.toNat?), (kv? "next" next).bind (·.toNat?), opts? rest with
  | some v, some h, some pt, some nx, some (st, pg) =>
    let hs : CFrame := .first (.handshake ⟨v, h, pt, nx⟩)
    let frames? : Option (List CFrame) :=
      if nx = 1 then
        if st.isSome then none
        else some ([hs, .first .statusRequest] ++
          (match pg with
           | some t => [.ping t]
           | none => []))
      else if pg.isSome then none
      else if nx = 2 then
        some (hs :: (match st with
          | some (_, name) => [.first (.loginStart name)]
          | none => []))
      else if st.isSome then none
      else some [hs]
    match frames? with
    | none => "bad-op"
    | some frames =>
      let lsId := (st.map (·.1)).getD 0
      match clientWrites lsId frames with
      | (bs, none) => "ok " ++ hexOut bs
      | (_, some e) => "err:" ++ toString e
  | _, _, _, _, _ => "bad-op"

def parse (hex : String) : String :=
  match bytesOfHex hex with
  | none => "bad-op"
  | some bs =>
    match serverRecv [bs] with
    | .error e => "err:" ++ toString e
    | .ok r =>
      match r.err with
      | some e => "err:" ++ toString e
      | none =>
        s!"ok proto={r.hs.proto} host={hexOut (utf8 r.hs.host)} port={r.hs.port} " ++
          s!"next={r.hs.next} rest={showPkts r.frames}"

def showStatusPkt : StatusPkt → String
  | .response j => "response:" ++ hexOut (utf8 j)
  | .pong t => s!"pong:{t}"
  | .other => "other"

/-- every token is one arrival segment (`-` = an empty arrival) -/
def recvStatus (segToks : List String) : String :=
  match segToks.mapM bytesOfHex with
  | none => "bad-op"
  | some segs =>
    let r := clientRecvStatus segs
    let pk := if r.1.isEmpty then "-" else ",".intercalate (r.1.map showStatusPkt)
    s!"ok pkts={pk} end={r.2}"

end HsWireD

/-- Line protocol of `Model/HandshakeWire.lean`.

`hswire.first proto=<n> host=<utf8hex|-> port=<n> next=<n> [start=<id>:<namehex|-|~>] [ping=<int>]`
→ `ok <hex>` | `err:<Err>`:
the bytes of all the frames the client writes first on a fresh connection, in order — the
handshake (`protocol_version=<n>`, `server_address` = the string whose UTF-8 bytes are the hex,
`-` = empty string, `server_port`, `next_state`), then for `next=1` the status request and, when
`ping=<t>` (a signed decimal integer) is given, the ping with `time=t`; for `next=2` the login
start with packet id `<id>` and name = the string with those UTF-8 bytes (`-` = empty name,
`~` = Python `None`) when `start=` is given; for any other `next` nothing.  `start=` with `next≠2`,
`ping=` with `next≠1`, invalid UTF-8 hex, a repeated or unknown option → `bad-op`.
`err:<Err>` is the exception that stopped the writer (`err:struct`: port ≥ 65536 or ping outside
the signed 64-bit range; `err:other`: `AttributeError` for the name `None`); what had been written
before the exception is not shown.

`hswire.parse <hex>` → `ok proto=<n> host=<utf8hex|-> port=<n> next=<n> rest=<id.fieldshex,…|->`
| `err:<Err>`: the reference server (`serverRecv`) on these bytes arriving as one segment: the
handshake record and the frames that followed it as `<decimal id>.<hex of the field bytes|->`;
`err:<Err>` when the first frame cannot be read or decoded (`err:other`: its id is not 0, or bytes
are left behind `next_state`) or the stream does not end at a frame boundary (`err:eof` …).

`hswire.recvstatus [<segment hex|-> …]` → `ok pkts=<response:<utf8hex|->|pong:<int>|other,…|-> end=<Err>`:
the client's networking thread (`clientRecvStatus`) on the server → client stream of a status
connection arriving in these segments (no token at all = nothing ever arrives): the packets handed
to `StatusReactor.react`, in order, and the exception that ended the loop — ALWAYS one; `end=eof`
when the stream is exhausted (no bytes, or a clean end between frames) as well as on a cut inside
a frame.  Example: `hswire.recvstatus 0400027b7d 0901 00000000000003e8` →
`ok pkts=response:7b7d,pong:1000 end=eof`; `hswire.recvstatus` → `ok pkts=- end=eof`. -/
def hswire (toks : List String) : Option String :=
  match toks with
  | "hswire.first" :: proto :: host :: port :: next :: rest =>
    some (HsWireD.first proto host port next rest)
  | "hswire.first" :: _ => some "bad-op"
  | ["hswire.parse", hex] => some (HsWireD.parse hex)
  | "hswire.parse" :: _ => some "bad-op"
  | "hswire.recvstatus" :: segs => some (HsWireD.recvStatus segs)
  | _ => none

end PyCraft.Drive
