import PyCraft.Drive.Util
import PyCraft.Model.Auth
namespace PyCraft.Drive
open PyCraft PyCraft.Auth

namespace AuthIO

/-- hex of UTF-8, `-` = empty string. -/
def strOfHex (s : String) : Option String :=
  if s = "" then none
  else
    match bytesOfHex s with
    | some bs => String.fromUTF8? (ByteArray.mk bs.toArray)
    | none => none

/-- `~` = `None` / key absent. -/
def optOfTok (s : String) : Option (Option String) :=
  if s = "~" then some none else (strOfHex s).map some

def hexOfStr (s : String) : String := hexOut s.toUTF8.toList

def hexOfOpt : Option String → String
  | none => "~"
  | some s => hexOfStr s

def boolOfTok (s : String) : Option Bool :=
  if s = "0" then some false else if s = "1" then some true else none

def parseToken (s : String) : Option Token :=
  match (s.splitOn ",").map optOfTok with
  | [some u, some a, some c, some i, some n] => some ⟨u, a, c, i, n⟩
  | _ => none

def showToken (t : Token) : String :=
  ",".intercalate [hexOfOpt t.username, hexOfOpt t.accessToken, hexOfOpt t.clientToken,
    hexOfOpt t.profileId, hexOfOpt t.profileName]

def parseBody (kind : String) (fields : Option String) : Option Body :=
  match kind, fields with
  | "result", some f =>
    match f.splitOn "," with
    | [a, c, i, n] =>
      match optOfTok a, optOfTok c, optOfTok i, optOfTok n with
      | some a, some c, some i, some n => some (.result a c (some ⟨i, n⟩))
      | _, _, _, _ => none
    | [a, c, i, n, hs] =>
      match optOfTok a, optOfTok c, optOfTok i, optOfTok n, boolOfTok hs with
      | some a, some c, some i, some n, some true => some (.result a c (some ⟨i, n⟩))
      | some a, some c, some none, some none, some false => some (.result a c none)
      | _, _, _, _, _ => none
    | _ => none
  | "error", some f =>
    match f.splitOn "," with
    | [e, m, c] =>
      match strOfHex e, strOfHex m, optOfTok c with
      | some e, some m, some c => some (.errorObj e m c)
      | _, _, _ => none
    | _ => none
  | "partial", none => some .partialErr
  | "partial", some "_" => some .partialErr
  | "nonobj", none => some .jsonNonObject
  | "nonobj", some "_" => some .jsonNonObject
  | "nonjson", none => some .nonJson
  | "nonjson", some "_" => some .nonJson
  | "empty", none => some .empty
  | "empty", some "_" => some .empty
  | _, _ => none

def parseReply (s : String) : Option Reply :=
  match s.splitOn ":" with
  | [st, kind] =>
    match st.toNat?, parseBody kind none with
    | some st, some b => some ⟨st, b⟩
    | _, _ => none
  | [st, kind, f] =>
    match st.toNat?, parseBody kind (some f) with
    | some st, some b => some ⟨st, b⟩
    | _, _ => none
  | _ => none

def parseOp (op args : String) : Option Op :=
  match op, args.splitOn "," with
  | "authenticate", [u, p, inv, fresh] =>
    match strOfHex u, strOfHex p, boolOfTok inv, strOfHex fresh with
    | some u, some p, some inv, some fresh => some (.authenticate fresh u p inv)
    | _, _, _, _ => none
  | "refresh", ["_"] => some .refresh
  | "validate", ["_"] => some .validate
  | "invalidate", ["_"] => some .invalidate
  | "signout", [u, p] =>
    match strOfHex u, strOfHex p with
    | some u, some p => some (.signOut u p)
    | _, _ => none
  | "join", [sid] => (strOfHex sid).map .join
  | _, _ => none

def showOutcome : Outcome → String
  | .ret true => "ret:1"
  | .ret false => "ret:0"
  | .retNone => "ret:none"
  | .yggdrasil st e m c mal =>
    s!"ygg:{st}:{hexOfOpt e}:{hexOfOpt m}:{hexOfOpt c}:{if mal then "1" else "0"}"
  | .notAuthenticated => "ygg:~:~:~:~:0"
  | .valueError => "value"
  | .keyError => "key"
  | .typeError => "type"

def showAtom : PayAtom → String
  | .str s => hexOfStr s
  | .null => "~"
  | .num n => toString n

def showMember : String × PayVal → List String
  | (k, .atom a) => [k ++ "=" ++ showAtom a]
  | (k, .obj fs) => fs.map fun (k', a) => k ++ "." ++ k' ++ "=" ++ showAtom a

def showServer : Server → String
  | .auth => "auth"
  | .session => "session"

def showRequest : Option Request → String
  | none => "req=none pay=-"
  | some q =>
    let members := q.payload.flatMap showMember
    s!"req={showServer q.server}/{q.endpoint} pay={if members.isEmpty then "-" else ";".intercalate members}"

end AuthIO

open AuthIO in
/-- `auth.op <op> <token> <args> <reply>` →
      `ok token=<u,a,c,pid,pname> out=<outcome> req=<server>/<endpoint>|none pay=<k=v;…>|-`;
    `auth.authenticated <token>` → `ok 0|1`.  See the module's report for field syntax. -/
def auth (toks : List String) : Option String :=
  match toks with
  | ["auth.op", op, tok, args, reply] =>
    match parseOp op args, parseToken tok, parseReply reply with
    | some op, some t, some r =>
      let res := run op t r
      some s!"ok token={showToken res.1} out={showOutcome res.2.1} {showRequest res.2.2}"
    | _, _, _ => some "bad-op"
  | ["auth.authenticated", tok] =>
    match parseToken tok with
    | some t => some (if authenticated t then "ok 1" else "ok 0")
    | none => some "bad-op"
  | "auth.op" :: _ => some "bad-op"
  | "auth.authenticated" :: _ => some "bad-op"
  | _ => none

end PyCraft.Drive
