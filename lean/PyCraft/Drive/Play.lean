import PyCraft.Drive.Util
import PyCraft.Model.Play
namespace PyCraft.Drive
open PyCraft PyCraft.Play

namespace PlayD

def flag? (s : String) : Option Bool :=
  if s = "0" then some false else if s = "1" then some true else none

def kv? (key tok : String) : Option String :=
  match tok.splitOn "=" with
  | [k, v] => if k = key then some v else none
  | _ => none

def ev? (tok : String) : Option PlayEv :=
  match tok.splitOn ":" with
  | ["ka", i] => i.toNat?.map .keepAlive
  | ["pl", x, y, z, yaw, pitch, fl, tid] =>
    match x.toInt?, y.toInt?, z.toInt?, yaw.toInt?, pitch.toInt?, fl.toNat?, tid.toNat? with
    | some x, some y, some z, some yaw, some pitch, some fl, some tid =>
      some (.posLook x y z yaw pitch fl tid)
    | _, _, _, _, _, _, _ => none
  | ["un", pid, d] =>
    match pid.toNat?, bytesOfHex d with
    | some pid, some d => some (.unknown pid d)
    | _, _ => none
  | ["ot"] => some (.other "other")
  | ["disc"] => some .disconnect
  | _ => none

def evs? : List String → Option (List PlayEv)
  | [] => some []
  | t :: ts => do
    let a ← ev? t
    let r ← evs? ts
    pure (a :: r)

def showReply : Reply → String
  | .keepAlive i => s!"ka:{i}"
  | .teleportConfirm i => s!"tc:{i}"
  | .positionEcho x y z yaw pitch g => s!"pe:{x}:{y}:{z}:{yaw}:{pitch}:{if g then 1 else 0}"

def showResult (r : Result) : String :=
  let w := if r.wire.isEmpty then "-" else ",".intercalate (r.wire.map showReply)
  s!"ok wire={w} delivered={r.delivered.length} spawned={if r.spawned then 1 else 0} " ++
  s!"closed={if r.closed then 1 else 0} exit={r.exitCalls} errors={r.errors}"

def run (newer capw capr : String) (peerOpen : Bool) (evs : List String) : String :=
  match (kv? "newer" newer).bind flag?, (kv? "capw" capw).bind (·.toNat?),
        (kv? "capr" capr).bind (·.toNat?), evs? evs with
  | some newer, some capW, some capR, some inbox =>
    match runLoop newer peerOpen capW capR inbox with
    | some r => showResult r
    | none => "err:other"      -- no progress: `capr=0` never reads
  | _, _, _, _ => "bad-op"

end PlayD

/-- `play.run newer=<0|1> capw=<n> capr=<n> [peer=<0|1>] <ev> …` with
`ev` = `ka:<id>` | `pl:<x>:<y>:<z>:<yaw>:<pitch>:<flags>:<tid>` | `un:<pid>:<datahex>` | `ot` | `disc`
→ `ok wire=<ka:<id>|tc:<id>|pe:<x>:<y>:<z>:<yaw>:<pitch>:1,…|-> delivered=<n> spawned=<0|1>
   closed=<0|1> exit=<n> errors=<n>` | `err:other` (the loop would spin without reading: `capr=0`).
`peer=0`: the server has closed its end when the client reacts to `disc` (writes of that flush
fail); default `peer=1`. -/
def play (toks : List String) : Option String :=
  match toks with
  | "play.run" :: newer :: capw :: capr :: rest =>
    match rest with
    | p :: evs =>
      match (PlayD.kv? "peer" p).bind PlayD.flag? with
      | some po => some (PlayD.run newer capw capr po evs)
      | none => some (PlayD.run newer capw capr true rest)
    | [] => some (PlayD.run newer capw capr true [])
  | "play.run" :: _ => some "bad-op"
  | _ => none

end PyCraft.Drive
