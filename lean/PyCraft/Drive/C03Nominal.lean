import PyCraft.Drive.Util
import PyCraft.Model.C03Nominal
namespace PyCraft.Drive
open PyCraft

/-- `c03nominal.read <VarInt|VarLong> <hex>` → `<tag> <value> tell=<t> reads=<k>` where `<tag>` is
`ok` | `err:eof` | `err:tooLong` | `err:other`: the model's observation of `cls.read` on a call-counting
stream holding `<hex>` (the class's own `max_bytes`, no numeric parameter);
    `c03nominal.maxbytes <VarInt|VarLong>` → `ok <n>`. -/
def c03nominal (toks : List String) : Option String :=
  match toks with
  | ["c03nominal.read", cls, h] =>
    match VarKind.ofName cls, bytesOfHex h with
    | some k, some bs =>
      let (tag, v, tell, n) := k.observe bs
      let t := if tag == "ok" then "ok" else "err:" ++ tag
      some s!"{t} {v} tell={tell} reads={n}"
    | _, _ => some "bad-op"
  | ["c03nominal.maxbytes", cls] =>
    match VarKind.ofName cls with
    | some k => some s!"ok {k.maxBytes}"
    | none => some "bad-op"
  | _ => none

end PyCraft.Drive
