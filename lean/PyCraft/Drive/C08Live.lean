import PyCraft.Drive.Versions
import PyCraft.Model.C08Live
namespace PyCraft.Drive
open PyCraft PyCraft.VerRef

namespace C08LiveAux
open Ver

/-- comma separated records `<idhex>:<protocol>:<0|1>`, `-` for the empty list -/
def parseRecs (tok : String) : Option (List Rec) :=
  if tok = "-" then some [] else (tok.splitOn ",").mapM parseRec

def parsePv (tok : String) : Option (Option Nat) :=
  if tok = "none" then some none else tok.toNat?.map some

def parsePred : String → Option Pred
  | "earlier" => some .earlier
  | "earlier_eq" => some .earlierEq
  | "later" => some .later
  | "later_eq" => some .laterEq
  | "in_range" => some .inRange
  | _ => none

def parseOp (tok : String) : Option Op :=
  if tok = "I0" then some (.init false)
  else if tok = "I1" then some (.init true)
  else match tok.splitOn "=" with
    | ["R", r] => (parseRecs r).map .setRecords
    | ["S", kv] => (parseItem kv).map fun e => .supSet e.1 e.2
    | ["N", pv] => (parsePv pv).map .newCtx
    | ["P", cp] =>
      match cp.splitOn ":" with
      | [c, pv] => do pure (.setPv (← c.toNat?) (← parsePv pv))
      | _ => none
    | ["C", s] =>
      match s.splitOn ":" with
      | [c, p, a, b] => do pure (.call (← c.toNat?) (← parsePred p) (← a.toNat?) (← b.toNat?))
      | _ => none
    | _ => none

def parseCode : String → Option Code
  | "real" => some Code.real
  | "m2" => some Code.m2
  | "m3" => some Code.m3
  | _ => none

def showAns : Except Err Bool → String
  | .ok true => "1"
  | .ok false => "0"
  | .error _ => "K"

def showObs (o : Obs) : String :=
  s!"ok ans={joinOr (o.answers.map showAns)} known={showOd o.mcTables.knownVersions} " ++
  s!"kp={showNats o.mcTables.knownProtocols} sv={showOd o.mcTables.supportedVersions} " ++
  s!"idx={showIdx o.mcTables.indices} sp={showNats o.mcTables.supportedProtocols} " ++
  s!"rv={showOd o.mcTables.releaseVersions} rp={showNats o.mcTables.releaseProtocols} " ++
  s!"uidx={showIdx o.utilIdx} cknown={showOd o.connKnown} csv={showOd o.connSupported} " ++
  s!"csp={showNats o.connSupportedProtocols} cidx={showIdx o.connIdx} " ++
  s!"usame={showBool o.utilSame} csame={showBool o.connSame}"

end C08LiveAux

open C08LiveAux in
/-- `verref.run <code> <recs> <op>…`
    code = `real` (the code of /repo) | `m2` | `m3` (the two seeded changes, for reference only);
    recs = the record list the library is imported with: comma separated `<idhex>:<protocol>:<0|1>`
           (id as hex of its UTF-8 bytes, `-` for the empty id, as in `ver.init`), `-` alone for no
           records;
    ops, in order:  `R=<recs>`  in-place replacement of KNOWN_MINECRAFT_VERSION_RECORDS;
                    `S=<idhex>:<protocol>`  minecraft.SUPPORTED_MINECRAFT_VERSIONS[id] = protocol;
                    `I1` / `I0`  minecraft.initglobals(use_known_records=True / False);
                    `N=<pv|none>`  ConnectionContext(protocol_version=pv) (numbered 0,1,… in order);
                    `P=<c>:<pv|none>`  context c .protocol_version = pv;
                    `C=<c>:<pred>:<a>:<b>`  pred ∈ earlier|earlier_eq|later|later_eq (argument a, b
                    ignored) | in_range (start a, end b) on context c.
    reply: `ok ans=<1|0|K,…|-> known=… kp=… sv=… idx=… sp=… rv=… rp=… uidx=… cknown=… csv=… csp=…
            cidx=… usame=<0|1> csame=<0|1>`
    (`ans`: answers of the calls in order, K = KeyError; the seven tables as module `minecraft`
    shows them in the format of `ver.init`; `uidx` = utility.PROTOCOL_VERSION_INDICES.items();
    `cknown,csv,csp,cidx` = the four tables as module `connection` shows them; `usame`/`csame` =
    the `is` tests between the modules' objects). -/
def verref (toks : List String) : Option String :=
  match toks with
  | "verref.run" :: code :: recs :: ops =>
    match parseCode code, parseRecs recs, ops.mapM parseOp with
    | some code, some recs, some ops => some (showObs (observe code recs ops))
    | _, _, _ => some "bad-op"
  | tok :: _ => if tok.startsWith "verref." then some "bad-op" else none
  | [] => none

end PyCraft.Drive
