import PyCraft.Drive.Util
import PyCraft.Model.PacketBuffer
import PyCraft.Props.C01BufferFrame
namespace PyCraft.Drive
open PyCraft PyCraft.PBuf

/-- One operation token: `s:<hex>` send, `r:<n>` read(n), `r:*` read(None), `R` reset,
`c` reset_cursor, `g` get_writable. -/
def pbufOp (t : String) : Option Op :=
  if t = "R" then some .reset
  else if t = "c" then some .rewind
  else if t = "g" then some .getw
  else if t = "r:*" then some (.read none)
  else match t.splitOn ":" with
    | ["s", h] => (bytesOfHex h).map .send
    | ["r", n] => n.toNat?.map (fun k => .read (some k))
    | _ => none

/-- `pbuf.run <op>…` on a fresh `PacketBuffer` → `ok pos=<cursor> len=<len> <out>…` (the byte strings
returned by the reads and `get_writable`s, in call order). -/
def pbuf (toks : List String) : Option String :=
  match toks with
  | "pbuf.run" :: ops =>
    match ops.mapM pbufOp with
    | some os =>
      let r := run init os
      some (String.intercalate " " (s!"ok pos={r.1.pos} len={r.1.buf.length}" :: r.2.map hexOut))
    | none => some "bad-op"
  | _ => none

def pbufTok : Op → String
  | .send v => "s:" ++ hexOut v
  | .read none => "r:*"
  | .read (some n) => s!"r:{n}"
  | .reset => "R"
  | .rewind => "c"
  | .getw => "g"

/-- `pbuf.rp <-|k:dhex> v:<hex> (v:<hex>)* (n:<k>|n:*)*` → the tokens of
`C01BufferFrame.readPacketOps` (the operations `read_packet` issues on its buffer). -/
def pbufRp (toks : List String) : Option String :=
  match toks with
  | "pbuf.rp" :: comp :: rest =>
    let compO : Option (Option (Nat × Bytes)) :=
      if comp = "-" then some none
      else match comp.splitOn ":" with
        | [k, d] => do let k ← k.toNat?; let d ← bytesOfHex d; pure (some (k, d))
        | _ => none
    let segs := rest.filter (·.startsWith "v:")
    let reads := rest.filter (·.startsWith "n:")
    let segsO := segs.mapM (fun t => bytesOfHex (t.drop 2).toString)
    let readsO : Option (List (Option Nat)) := reads.mapM (fun t =>
      let a := (t.drop 2).toString
      if a = "*" then some none else a.toNat?.map some)
    match compO, segsO, readsO with
    | some c, some (v :: vs), some rs =>
      if segs.length + reads.length = rest.length then
        some (String.intercalate " " ((C01BufferFrame.readPacketOps v vs c rs).map pbufTok))
      else some "bad-op"
    | _, _, _ => some "bad-op"
  | _ => none

end PyCraft.Drive
