import PyCraft.Drive.Util
import PyCraft.Model.PacketBuffer
namespace PyCraft.Drive
open PyCraft PyCraft.PBuf

/-- One operation token: `s:<hex>` send, `r:<n>` read(n), `r:*` read(None), `R` reset,
`c` reset_cursor, `g` get_writable. -/
def pbufOp (t : String) : Option Op :=
  if t = "R" then some .reset
  else if t = "c" then some .rewind
  else if t = "g" then some .getw
  else if t = "r:*" then some (.read none)
  else match t.splitOn ":" with
    | ["s", h] => (bytesOfHex h).map .send
    | ["r", n] => n.toNat?.map (fun k => .read (some k))
    | _ => none

/-- `pbuf.run <op>…` on a fresh `PacketBuffer` → `ok pos=<cursor> len=<len> <out>…` (the byte strings
returned by the reads and `get_writable`s, in call order). -/
def pbuf (toks : List String) : Option String :=
  match toks with
  | "pbuf.run" :: ops =>
    match ops.mapM pbufOp with
    | some os =>
      let r := run init os
      some (String.intercalate " " (s!"ok pos={r.1.pos} len={r.1.buf.length}" :: r.2.map hexOut))
    | none => some "bad-op"
  | _ => none

end PyCraft.Drive
