import PyCraft.Drive.Frame
import PyCraft.Model.C15Thread
import PyCraft.Model.Cfb8
import PyCraft.Model.Aes
namespace PyCraft.Drive
open PyCraft PyCraft.C15Thread

namespace C15ThreadD

def kv? (key tok : String) : Option String :=
  if tok.startsWith (key ++ "=") then some (tok.drop (key.length + 1)).toString else none

def kind? : String → Option ReactorKind
  | "status" => some .status
  | "pstatus" => some .playingStatus
  | "login" => some .login
  | "play" => some .playing
  | _ => none

def kindName : ReactorKind → String
  | .status => "status"
  | .playingStatus => "pstatus"
  | .login => "login"
  | .playing => "play"

/-- The packet ids the reactors dispatch on (`packet_name` → id under the protocol in force) and
what the status response leads to. -/
structure Ids where
  sc : Nat      -- login "set compression"
  enc : Nat     -- login "encryption request"
  ok : Nat      -- login "login success"
  dc : Nat      -- login "disconnect"
  pdc : Nat     -- play "disconnect"
  neg : Nat     -- the version `handle_proto_version` is reached with on a status response

/-- The reactions of `LoginReactor` / `PlayingReactor` / `StatusReactor(do_ping=False)` /
`PlayingStatusReactor` by packet id, for WELL-FORMED packets (the only `packet.read` modelled is the
`VarInt threshold` of set compression; every other known packet is taken to parse).  A play-state
"set compression" (protocol 47 only) is not driven. -/
def react (ids : Ids) (key : Bytes) : React Bytes := fun kind p =>
  match kind with
  | .login =>
    if p.1 = ids.sc then
      match decVarInt 5 p.2 with
      | .ok (t, _) => .setCompression (t : Int)
      | .error e => .badPacket e
    else if p.1 = ids.enc then .encrypt key
    else if p.1 = ids.ok then .loginSuccess
    else if p.1 = ids.dc then .raise .other
    else .pass
  | .playing => if p.1 = ids.pdc then .interrupt else .pass
  | .playingStatus => if p.1 = 0 then .negotiated ids.neg else .pass
  | .status => if p.1 = 0 then .interrupt else .pass

def showEnd : End → String
  | .raised e => toString e
  | .interrupted => "interrupted"
  | .negotiated v => s!"negotiated:{v}"

def run (kind : ReactorKind) (ids : Ids) (key : Bytes) (tbl : List (Bytes × Bytes)) (segs : Segs) :
    String :=
  let C : Client (List Bytes) Bytes :=
    stackClient (cfb8Pair (aes128 key)) (fun k => k) (zOps tbl) (react ids key)
  let r := runThread C kind segs
  s!"ok {showPackets r.delivered}end={showEnd r.ending} kind={kindName r.mode.kind} " ++
    s!"comp={if r.mode.comp then 1 else 0} reads={r.sock.reads} eofreads={r.sock.empties}"

end C15ThreadD

/-- `c15thread.run <status|pstatus|login|play> sc=<n> enc=<n> ok=<n> dc=<n> pdc=<n> neg=<n>
      key=<hex16|-> zmap=<chex:phex,…|-> <seghex>*`
    → `ok <id>:<fieldshex> … end=<err|interrupted|negotiated:v> kind=<k> comp=<0|1> reads=<n>
       eofreads=<n>`:
    `runThread` of pyCraft's client (nested AES-128-CFB8 decryptors keyed and IV'd with `key` at
    every encryption request, zlib given by the table) started with the named reactor on the server
    byte stream `segs`, then end of stream: packets handed to `_react`, how the loop ended, reactor
    and compression flag at that moment, `read` calls issued and `read` calls that returned `b''`.
  `c15thread.handle <kind 0..3> <class number> <fails 0|1>`
    → `ok <swallowed 0|1> <version connect() was called with|0> <final handler's class|0>
       <recorded class|0>`: the model's prediction of one row of `Gen.c15Handle` (live class
    numbering of `Generated/C15Thread.lean`). -/
def c15thread (toks : List String) : Option String :=
  match toks with
  | "c15thread.run" :: kind :: sc :: enc :: ok :: dc :: pdc :: neg :: key :: zm :: segs =>
    match C15ThreadD.kind? kind,
      (C15ThreadD.kv? "sc" sc).bind (·.toNat?), (C15ThreadD.kv? "enc" enc).bind (·.toNat?),
      (C15ThreadD.kv? "ok" ok).bind (·.toNat?), (C15ThreadD.kv? "dc" dc).bind (·.toNat?),
      (C15ThreadD.kv? "pdc" pdc).bind (·.toNat?), (C15ThreadD.kv? "neg" neg).bind (·.toNat?),
      (C15ThreadD.kv? "key" key).bind bytesOfHex, parseZmap zm, segs.mapM bytesOfHex with
    | some kind, some sc, some enc, some ok, some dc, some pdc, some neg, some key, some tbl,
        some segs =>
      some (C15ThreadD.run kind ⟨sc, enc, ok, dc, pdc, neg⟩ key tbl segs)
    | _, _, _, _, _, _, _, _, _, _ => some "bad-op"
  | "c15thread.run" :: _ => some "bad-op"
  | ["c15thread.handle", kind, cls, fails] =>
    match kind.toNat?.bind kindOfCode, cls.toNat?, fails.toNat? with
    | some kind, some cls, some fails =>
      let r := modelRow (fun h c k fb e => reactorHandle h c k fb e) kind cls fails
      some s!"ok {r.1} {r.2.1} {r.2.2.1} {r.2.2.2}"
    | _, _, _ => some "bad-op"
  | "c15thread.handle" :: _ => some "bad-op"
  | _ => none

end PyCraft.Drive
