import PyCraft.Drive.Layout
import PyCraft.Model.C05Nbt
/-!
Line-protocol handler for the model of the `NBT` field type (`Model/C05Nbt.lean`: `NBT.send` /
`NBT.read` of `types/basic.py:349-359` over pynbt), strings through `Mutf8.utf8` (= MUTF-8 for
characters U+0001…U+FFFF; keep NUL and supplementary characters out of the comparison).

`nbt.enc <value>`                      → `ok <hex>` | `err:<e>`            (`NBT.send(value, buf)`)
`nbt.dec <hex>`                        → `ok <value> <resthex>` | `err:<e>` (`NBT.read(buf)`, unread rest)
`nbt.fields.enc <type;…> <value;…>`    → `ok <hex>` | `err:<e>`            (`write_fields`)
`nbt.fields.dec <type;…> <hex>`        → `ok <value;…> <resthex>` | `err:<e>` (`read`)

Types, values and the `;`-joined lists are those of `Drive/Wire.lean` / `Drive/Layout.lean` (`nbt` is
the NBT type); the `nbt.fields.*` commands are `fields.*` with the real NBT codec plugged in.

An NBT value is the ROOT `[s<hex of the root name>,[entry,…]]` (a plain dict: root name empty, i.e.
`[s,[…]]`); an entry is `[s<hex of the key>,tag]`; a tag is `[i<tag id>,payload]`:
`[i1,i<byte>]` `[i2,i<short>]` `[i3,i<int>]` `[i4,i<long>]` `[i5,i<float bit pattern>]`
`[i6,i<double bit pattern>]` `[i7,x<hex>]` `[i8,s<hex of the UTF-8 text>]`
`[i9,i<item tag id>,[tag,…]]` `[i10,[entry,…]]` `[i11,[i<int>,…]]` `[i12,[i<long>,…]]`
(`[i0,i<v>]` is a `TAG_End` object, only ever produced by reading a list of item type 0).
Names are not part of a tag: the name of a child is its key, list items have none.
Unparsable arguments → `bad-op`; a value that is not of this shape is the model's `err:type`.

Example: `nbt.enc [s,[[s61,[i3,i1]]]]` → `ok 0a0000030001610000000100`;
`nbt.dec 0a00000300016100000001000707` → `ok [s,[[s61,[i3,i1]]]] 0707`.
-/
namespace PyCraft.Drive
open PyCraft PyCraft.Nbt PyCraft.Drive.WireSyntax PyCraft.Drive.LayoutSyntax

def nbt (toks : List String) : Option String :=
  match toks with
  | ["nbt.enc", v] =>
    match value? v with
    | some v => some (exc hexOut (nbtSend Mutf8.utf8 v))
    | none => some "bad-op"
  | ["nbt.dec", h] =>
    match bytesOfHex h with
    | some bs =>
      some (exc (fun (p : Value × Bytes) => s!"{showValue p.1} {hexOut p.2}") (nbtRead Mutf8.utf8 bs))
    | none => some "bad-op"
  | ["nbt.fields.enc", ts, vs] =>
    match layout? ts, values? vs with
    | some L, some vals => some (exc hexOut (encodeFields (realCustomNbt Mutf8.utf8) L vals))
    | _, _ => some "bad-op"
  | ["nbt.fields.dec", ts, h] =>
    match layout? ts, bytesOfHex h with
    | some L, some bs =>
      some (exc (fun (p : List Value × Bytes) => s!"{showFields p.1} {hexOut p.2}")
        (decodeFields (realCustomNbt Mutf8.utf8) L bs))
    | _, _ => some "bad-op"
  | op :: _ =>
    if op ∈ ["nbt.enc", "nbt.dec", "nbt.fields.enc", "nbt.fields.dec"] then some "bad-op" else none
  | [] => none

end PyCraft.Drive
