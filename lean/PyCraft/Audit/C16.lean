import PyCraft.Props.C16
#print axioms PyCraft.C16.step_inv
#print axioms PyCraft.C16.run_inv
#print axioms PyCraft.C16.at_most_one_io_thread
#print axioms PyCraft.C16.waiting_thread_no_io
#print axioms PyCraft.C16.io_events_separated
#print axioms PyCraft.C16.active_refuses
#print axioms PyCraft.C16.reusable_after_end
#print axioms PyCraft.C16.disconnect_total
#print axioms PyCraft.C16.interrupt_is_permanent_and_bounds_steps
#print axioms PyCraft.C16.never_stuck
#print axioms PyCraft.C16.can_always_terminate
#print axioms PyCraft.C16.disconnect_leads_to_termination_partial
#print axioms PyCraft.C16.write_never_fails
#print axioms PyCraft.C16.handler_cleanup_spares_new_connection
#print axioms PyCraft.C16.handler_cleanup_is_atomic
