import PyCraft.Props.C13
#print axioms PyCraft.C13.call_packet_matches
#print axioms PyCraft.C13.incoming_order
#print axioms PyCraft.C13.exactly_once
#print axioms PyCraft.C13.ignore_is_local
#print axioms PyCraft.C13.early_ignore_suppresses_reaction
#print axioms PyCraft.C13.reaction_ignore_suppresses_ordinary
#print axioms PyCraft.C13.outgoing_order
#print axioms PyCraft.C13.register_target
