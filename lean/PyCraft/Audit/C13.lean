import PyCraft.Props.C13
import PyCraft.Props.C13Roles
#print axioms PyCraft.C13.call_packet_matches
#print axioms PyCraft.C13.incoming_order
#print axioms PyCraft.C13.exactly_once
#print axioms PyCraft.C13.ignore_is_local
#print axioms PyCraft.C13.early_ignore_suppresses_reaction
#print axioms PyCraft.C13.reaction_ignore_suppresses_ordinary
#print axioms PyCraft.C13.outgoing_order
#print axioms PyCraft.C13.register_target
#print axioms PyCraft.C13Roles.registered_role
#print axioms PyCraft.C13Roles.role_of_every_call
#print axioms PyCraft.C13Roles.directions_independent
#print axioms PyCraft.C13Roles.session_roles
#print axioms PyCraft.C13Roles.ignore_is_local
#print axioms PyCraft.C13Roles.every_packet_once
#print axioms PyCraft.C13Roles.dispatch_counts
#print axioms PyCraft.C13Roles.flush_dispatches_all
#print axioms PyCraft.C13Roles.iter_progress
#print axioms PyCraft.C13Roles.writes_starve_reads
#print axioms PyCraft.C13Roles.live_targets
#print axioms PyCraft.C13Roles.live_runs
#print axioms PyCraft.C13Roles.live_sessions
