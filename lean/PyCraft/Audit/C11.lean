import PyCraft.Props.C11
import PyCraft.Props.C11Wire
#print axioms PyCraft.C11.loop_terminates
#print axioms PyCraft.C11.capR_zero_never_reads
#print axioms PyCraft.C11.keepalive_echo
#print axioms PyCraft.C11.teleport_ack
#print axioms PyCraft.C11.wire_order
#print axioms PyCraft.C11.unknown_passthrough
#print axioms PyCraft.C11.server_disconnect_clean
#print axioms PyCraft.C11.no_disconnect_stays_open
#print axioms PyCraft.C11.caps_irrelevant
#print axioms PyCraft.C11Wire.client_decodes_server_stream
#print axioms PyCraft.C11Wire.client_decodes_plain_stream
#print axioms PyCraft.C11Wire.client_wire_is_frames_of_replies
#print axioms PyCraft.C11Wire.server_recovers_replies
#print axioms PyCraft.C11Wire.session_end_to_end
#print axioms PyCraft.C11Wire.keepalive_echo_bytes
#print axioms PyCraft.C11Wire.teleport_ack_bytes
#print axioms PyCraft.C11Wire.position_echo_bytes
#print axioms PyCraft.C11Wire.replies_are_echo_of_server_bytes
#print axioms PyCraft.C11Wire.replies_writable
#print axioms PyCraft.C11Wire.wrong_echo_detected
