import PyCraft.Props.C11
#print axioms PyCraft.C11.loop_terminates
#print axioms PyCraft.C11.capR_zero_never_reads
#print axioms PyCraft.C11.keepalive_echo
#print axioms PyCraft.C11.teleport_ack
#print axioms PyCraft.C11.wire_order
#print axioms PyCraft.C11.unknown_passthrough
#print axioms PyCraft.C11.server_disconnect_clean
#print axioms PyCraft.C11.no_disconnect_stays_open
#print axioms PyCraft.C11.caps_irrelevant
