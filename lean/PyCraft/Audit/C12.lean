import PyCraft.Props.C12
import PyCraft.Props.C12Bytes
import PyCraft.Props.C12Final
import PyCraft.Props.C12Progress
#print axioms PyCraft.C12.step_inv
#print axioms PyCraft.C12.run_inv
#print axioms PyCraft.C12.only_holder_mid_frame
#print axioms PyCraft.C12.frames_contiguous
#print axioms PyCraft.C12.exactly_once
#print axioms PyCraft.C12.per_thread_fifo
#print axioms PyCraft.C12.disconnect_ctx_set
#print axioms PyCraft.C12.disconnect_ctx_stable
#print axioms PyCraft.C12.graceful_flushes_then_closes
#print axioms PyCraft.C12.graceful_flush_progress
#print axioms PyCraft.C12.immediate_sends_nothing_more
#print axioms PyCraft.C12.immediate_disconnect_wire_unchanged
#print axioms PyCraft.C12.closed_socket_discipline
#print axioms PyCraft.C12.fail_only_forced_write
#print axioms PyCraft.C12.all_sent_or_dropped_after_disconnect_partial
#print axioms PyCraft.C12Bytes.wire_bytes_are_whole_frames
#print axioms PyCraft.C12Bytes.server_decodes_exactly_sent
#print axioms PyCraft.C12Bytes.server_sees_fifo_per_thread
#print axioms PyCraft.C12Bytes.server_sees_each_packet_once
#print axioms PyCraft.C12Bytes.server_decodes_exactly_sent_encrypted
#print axioms PyCraft.C12Bytes.server_decodes_exactly_sent_cfb8
#print axioms PyCraft.C12Bytes.server_decodes_exactly_sent_wrappers
#print axioms PyCraft.C12Final.run_hist
#print axioms PyCraft.C12Final.wire_and_queue_from_log
#print axioms PyCraft.C12Final.closing_section_exists
#print axioms PyCraft.C12Final.closing_section_unique
#print axioms PyCraft.C12Final.closer_kind
#print axioms PyCraft.C12Final.all_sent_or_dropped_after_disconnect
#print axioms PyCraft.C12Final.graceful_disconnect_sends_all_queued_before
#print axioms PyCraft.C12Final.graceful_disconnect_queue_exact
#print axioms PyCraft.C12Final.immediate_disconnect_sends_nothing_after
#print axioms PyCraft.C12Progress.lock_holder_never_blocked
#print axioms PyCraft.C12Progress.blocked_only_in_acquire
#print axioms PyCraft.C12Progress.no_deadlock
#print axioms PyCraft.C12Progress.networking_thread_runs_until_interrupted
#print axioms PyCraft.C12Progress.nt_progress
#print axioms PyCraft.C12Progress.nt_drains
#print axioms PyCraft.C12Progress.queued_packet_eventually_sent
#print axioms PyCraft.C12Progress.without_disconnect_every_queued_packet_is_sent
#print axioms PyCraft.C12Progress.fair_schedules_exist
#print axioms PyCraft.C12Progress.forced_write_is_synchronous
#print axioms PyCraft.C12Progress.graceful_disconnect_sends_all_issued_before
