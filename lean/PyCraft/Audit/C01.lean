import PyCraft.Props.C01
#print axioms PyCraft.C01.frameSends_flatten
#print axioms PyCraft.C01.read_segmentation_invariant
#print axioms PyCraft.C01.read_bytewise
#print axioms PyCraft.C01.read_segmentation_invariant_encrypted
#print axioms PyCraft.C01.roundtrip_stream
#print axioms PyCraft.C01.roundtrip_stream_trailing
#print axioms PyCraft.C01.roundtrip_sends
#print axioms PyCraft.C01.roundtrip_encrypted
#print axioms PyCraft.C01.frame_consumed_whole
#print axioms PyCraft.C01.unknown_id_skipped
#print axioms PyCraft.C01.threshold_cases
#print axioms PyCraft.C01.data_length_pos_iff_compressed
