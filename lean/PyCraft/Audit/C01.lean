import PyCraft.Props.C01
import PyCraft.Props.C01Dispatch
import PyCraft.Props.C01DispatchLive
import PyCraft.Props.C01Buffer
import PyCraft.Props.C01BufferFrame
import PyCraft.Props.C01BufferRefine
#print axioms PyCraft.C01.frameSends_flatten
#print axioms PyCraft.C01.read_segmentation_invariant
#print axioms PyCraft.C01.read_bytewise
#print axioms PyCraft.C01.read_segmentation_invariant_encrypted
#print axioms PyCraft.C01.roundtrip_stream
#print axioms PyCraft.C01.roundtrip_stream_trailing
#print axioms PyCraft.C01.roundtrip_sends
#print axioms PyCraft.C01.roundtrip_encrypted
#print axioms PyCraft.C01.frame_consumed_whole
#print axioms PyCraft.C01.unknown_id_skipped
#print axioms PyCraft.C01.threshold_cases
#print axioms PyCraft.C01.data_length_pos_iff_compressed
#print axioms PyCraft.C01Dispatch.dispatch_is_cut_of_raw
#print axioms PyCraft.C01Dispatch.dispatch_is_cut_of_raw_encrypted
#print axioms PyCraft.C01Dispatch.dispatch_segmentation_invariant
#print axioms PyCraft.C01Dispatch.dispatch_stream
#print axioms PyCraft.C01Dispatch.dispatch_stream_encrypted
#print axioms PyCraft.C01Dispatch.unknown_skipped_without_disturbing
#print axioms PyCraft.C01Dispatch.known_read_error_ends_loop
#print axioms PyCraft.C01Dispatch.dispatch_unknown_interleaved
#print axioms PyCraft.C01Dispatch.dispatch_unknown_interleaved_conn
#print axioms PyCraft.C01Dispatch.reader_flag_iff_writer_threshold
#print axioms PyCraft.C01Dispatch.options_history
#print axioms PyCraft.C01Dispatch.roundtrip_conn
#print axioms PyCraft.C01Dispatch.roundtrip_conn_encrypted
#print axioms PyCraft.C01Dispatch.writer_threshold_while_reader_off_misreads
#print axioms PyCraft.C01Dispatch.mutant_unknown_calls_read_refuted
#print axioms PyCraft.C01Dispatch.mutant_writer_ignores_enabled_refuted
#print axioms PyCraft.C01Dispatch.mutant_reader_tests_threshold_refuted
#print axioms PyCraft.C01Dispatch.mutant_connect_keeps_enabled_refuted
#print axioms PyCraft.C01Dispatch.live_write_probes
#print axioms PyCraft.C01Dispatch.live_opt_probes
#print axioms PyCraft.C01Dispatch.live_read_probes
#print axioms PyCraft.C01Buffer.step_inv
#print axioms PyCraft.C01Buffer.run_inv
#print axioms PyCraft.C01Buffer.reachable_inv
#print axioms PyCraft.C01Buffer.run_append
#print axioms PyCraft.C01Buffer.sends_append
#print axioms PyCraft.C01Buffer.reads_chunk
#print axioms PyCraft.C01Buffer.chunks_flatten
#print axioms PyCraft.C01Buffer.write_then_read
#print axioms PyCraft.C01Buffer.write_then_get
#print axioms PyCraft.C01Buffer.read_all
#print axioms PyCraft.C01Buffer.reset_fresh
#print axioms PyCraft.C01Buffer.send_after_rewind_overwrites
#print axioms PyCraft.C01BufferFrame.tail_sees
#print axioms PyCraft.C01BufferFrame.loop_sees_prefixes
#print axioms PyCraft.C01BufferFrame.read_packet_plain
#print axioms PyCraft.C01BufferFrame.reads_state
#print axioms PyCraft.C01BufferFrame.read_packet_compressed
#print axioms PyCraft.C01BufferFrame.readPacketOps_plain
#print axioms PyCraft.C01BufferFrame.readPacketOps_compressed
#print axioms PyCraft.C01BufferFrame.write_packet_ops
#print axioms PyCraft.C01BufferRefine.send_at_end
#print axioms PyCraft.C01BufferRefine.send_at_end_pos
#print axioms PyCraft.C01BufferRefine.readMoreBuf_refines
#print axioms PyCraft.C01BufferRefine.decVarIntBuf_refines
#print axioms PyCraft.C01BufferRefine.idStage_refines
#print axioms PyCraft.C01BufferRefine.parseBodyBuf_refines
#print axioms PyCraft.C01BufferRefine.readPacketBuf_eq
#print axioms PyCraft.C01BufferRefine.readPacketBuf_is_readPacketK
