import PyCraft.Props.C06
#print axioms PyCraft.C06.checkTotal_ok
#print axioms PyCraft.C06.checkInj_ok
#print axioms PyCraft.C06.ids_total_supported
#print axioms PyCraft.C06.ids_injective_except_known
#print axioms PyCraft.C06.ids_injective_elsewhere
#print axioms PyCraft.C06.known_collision_real
#print axioms PyCraft.C06.dispatch_unique
