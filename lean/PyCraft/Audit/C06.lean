import PyCraft.Props.C06
import PyCraft.Props.C06Dispatch
#print axioms PyCraft.C06.checkTotal_ok
#print axioms PyCraft.C06.checkInj_ok
#print axioms PyCraft.C06.ids_total_supported
#print axioms PyCraft.C06.ids_injective_except_known
#print axioms PyCraft.C06.ids_injective_elsewhere
#print axioms PyCraft.C06.known_collision_real
#print axioms PyCraft.C06.dispatch_unique
#print axioms PyCraft.C06Dispatch.dispatch_sound
#print axioms PyCraft.C06Dispatch.dispatch_defined
#print axioms PyCraft.C06Dispatch.dispatch_unique_at
#print axioms PyCraft.C06Dispatch.dispatch_order_independent_at
#print axioms PyCraft.C06Dispatch.dispatch_any_winner
#print axioms PyCraft.C06Dispatch.dispatch_order_dependent
#print axioms PyCraft.C06Dispatch.comprehension_spec
#print axioms PyCraft.C06Dispatch.tables_names
#print axioms PyCraft.C06Dispatch.tables_versions
#print axioms PyCraft.C06Dispatch.tables_supported
#print axioms PyCraft.C06Dispatch.supported_row_iff
#print axioms PyCraft.C06Dispatch.domain_complete
#print axioms PyCraft.C06Dispatch.collisions_exact
#print axioms PyCraft.C06Dispatch.known_collisions_real
#print axioms PyCraft.C06Dispatch.collision_keys_agree
#print axioms PyCraft.C06Dispatch.dispatch_on_tables
#print axioms PyCraft.C06Dispatch.reactor_binding
#print axioms PyCraft.C06Dispatch.reactor_dicts
#print axioms PyCraft.C06Dispatch.self_ids_agree
