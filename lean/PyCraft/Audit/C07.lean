import PyCraft.Props.C07
import PyCraft.Props.C07Named
#print axioms PyCraft.C07.checkColumns_ok
#print axioms PyCraft.C07.checkCore_ok
#print axioms PyCraft.C07.core_rows_match
#print axioms PyCraft.C07.core_ids_match
#print axioms PyCraft.C07.core_layouts_match
#print axioms PyCraft.C07.core_bytes_match
#print axioms PyCraft.C07.core_read_match
#print axioms PyCraft.C07.normT_conservative
#print axioms PyCraft.C07.reference_nonempty
#print axioms PyCraft.C07Named.checkNamed_ok
#print axioms PyCraft.C07Named.checkTotal_ok
#print axioms PyCraft.C07Named.checkRows_ok
#print axioms PyCraft.C07Named.checkGenNamed_ok
#print axioms PyCraft.C07Named.erase_ok
#print axioms PyCraft.C07Named.core_named_match
#print axioms PyCraft.C07Named.reference_total
#print axioms PyCraft.C07Named.core_named_packets
#print axioms PyCraft.C07Named.core_layouts_match_named
#print axioms PyCraft.C07Named.reference_exact
#print axioms PyCraft.C07Named.releases_tied
#print axioms PyCraft.C07Named.core_wire_match
