import PyCraft.Props.C07
#print axioms PyCraft.C07.checkColumns_ok
#print axioms PyCraft.C07.checkCore_ok
#print axioms PyCraft.C07.core_rows_match
#print axioms PyCraft.C07.core_ids_match
#print axioms PyCraft.C07.core_layouts_match
#print axioms PyCraft.C07.core_bytes_match
#print axioms PyCraft.C07.core_read_match
#print axioms PyCraft.C07.normT_conservative
#print axioms PyCraft.C07.reference_nonempty
