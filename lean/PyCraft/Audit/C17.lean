import PyCraft.Props.C17
#print axioms PyCraft.C17.hex_parses_back
#print axioms PyCraft.C17.fromBytesSigned_spec
#print axioms PyCraft.C17.fromBytesSigned_range
#print axioms PyCraft.C17.minus_iff_top_bit
#print axioms PyCraft.C17.no_leading_zero
#print axioms PyCraft.C17.no_negative_zero
#print axioms PyCraft.C17.lowercase_hex_only
#print axioms PyCraft.C17.canonical_unique
#print axioms PyCraft.C17.input_order
#print axioms PyCraft.C17.mcHash_spec
#print axioms PyCraft.C17.sha1_empty
#print axioms PyCraft.C17.sha1_abc
#print axioms PyCraft.C17.sha1_two_blocks
#print axioms PyCraft.C17.vector_Notch
#print axioms PyCraft.C17.vector_jeb
#print axioms PyCraft.C17.vector_simon
