import PyCraft.Props.C19
#print axioms PyCraft.C19.authenticated_iff
#print axioms PyCraft.C19.error_reply_raises_and_preserves
#print axioms PyCraft.C19.accepted_reply_returns_true
#print axioms PyCraft.C19.validate_true_iff_204
#print axioms PyCraft.C19.join_refuses_offline
#print axioms PyCraft.C19.success_stores_exactly_authenticate
#print axioms PyCraft.C19.success_stores_exactly_refresh
#print axioms PyCraft.C19.returns_true_iff
#print axioms PyCraft.C19.payload_shape
#print axioms PyCraft.C19.missing_credentials_refuse
#print axioms PyCraft.C19.partial_success_body_authenticate
#print axioms PyCraft.C19.partial_success_body_refresh
#print axioms PyCraft.C19.success_status_bad_body
#print axioms PyCraft.C19.token_changes_only_on_200_json
#print axioms PyCraft.C19.never_returns_false
