import PyCraft.Props.C10
import PyCraft.Props.C10Wire
import PyCraft.Props.Session
import PyCraft.Props.C10Inbound
#print axioms PyCraft.C10.enc_reply_then_encrypted
#print axioms PyCraft.C10.threshold_applies_after
#print axioms PyCraft.C10.threshold_none_before
#print axioms PyCraft.C10.plugin_reply_shape
#print axioms PyCraft.C10.plugin_answered_once_any
#print axioms PyCraft.C10.plugin_answered_once
#print axioms PyCraft.C10.success_enters_play
#print axioms PyCraft.C10.disconnect_surfaces
#print axioms PyCraft.C10.join_iff
#print axioms PyCraft.C10Wire.wire_prefix_plain_suffix_cipher
#print axioms PyCraft.C10Wire.wire_switch_at_reply
#print axioms PyCraft.C10Wire.server_recovers_outbox
#print axioms PyCraft.C10Wire.server_key_agreement
#print axioms PyCraft.C10Wire.outbox_packets_writable
#print axioms PyCraft.C10Wire.parts_read_by_readAll
#print axioms PyCraft.C10Wire.wrong_switch_point_detected
#print axioms PyCraft.SessionProps.session_bytes_decompose
#print axioms PyCraft.SessionProps.server_recovers_session
#print axioms PyCraft.SessionProps.layer_servers_agree
#print axioms PyCraft.SessionProps.cipher_continues_across_login_to_play
#print axioms PyCraft.SessionProps.cipher_restart_detected
#print axioms PyCraft.SessionProps.threshold_continues_into_play
#print axioms PyCraft.SessionProps.server_flag_only_switched_on
#print axioms PyCraft.SessionProps.threshold_forgotten_detected
#print axioms PyCraft.C10Inbound.client_reads_server_script
#print axioms PyCraft.C10Inbound.client_reads_regular_schedule
#print axioms PyCraft.C10Inbound.server_stream_shape
#print axioms PyCraft.C10Inbound.client_refines_login_model
#print axioms PyCraft.C10Inbound.server_closes_midlogin_eof
#print axioms PyCraft.C10Inbound.wrong_inbound_switch_detected
#print axioms PyCraft.C10Inbound.live_profiles_ok
#print axioms PyCraft.C10Inbound.known_versions_have_profile
#print axioms PyCraft.C10Inbound.client_reads_server_script_at_version
