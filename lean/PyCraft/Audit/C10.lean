import PyCraft.Props.C10
#print axioms PyCraft.C10.enc_reply_then_encrypted
#print axioms PyCraft.C10.threshold_applies_after
#print axioms PyCraft.C10.threshold_none_before
#print axioms PyCraft.C10.plugin_reply_shape
#print axioms PyCraft.C10.plugin_answered_once_any
#print axioms PyCraft.C10.plugin_answered_once
#print axioms PyCraft.C10.success_enters_play
#print axioms PyCraft.C10.disconnect_surfaces
#print axioms PyCraft.C10.join_iff
