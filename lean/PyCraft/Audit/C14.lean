import PyCraft.Props.C14
#print axioms PyCraft.C14.chain_equiv
#print axioms PyCraft.C14.first_match_receives
#print axioms PyCraft.C14.final_always_runs
#print axioms PyCraft.C14.final_absent
#print axioms PyCraft.C14.recorded_is_last
#print axioms PyCraft.C14.reraise_iff
#print axioms PyCraft.C14.handler_raises_offered_to_later_only
#print axioms PyCraft.C14.early_registration_order
