import PyCraft.Props.C15
import PyCraft.Props.C15Thread
#print axioms PyCraft.C15.prefix_delivers_complete_only
#print axioms PyCraft.C15.prefix_delivers_complete_only_encrypted
#print axioms PyCraft.C15.reads_after_eof_le_two
#print axioms PyCraft.C15.reads_after_eof_le_one_partial
#print axioms PyCraft.C15.read_packet_on_exhausted
#print axioms PyCraft.C15.read_packet_consumes
#print axioms PyCraft.C15.readAll_total
#print axioms PyCraft.C15Thread.status_cut_eof
#print axioms PyCraft.C15Thread.cut_delivers_complete_only
#print axioms PyCraft.C15Thread.cut_delivers_complete_only_nested
#print axioms PyCraft.C15Thread.thread_bounded
#print axioms PyCraft.C15Thread.cut_outcome
#print axioms PyCraft.C15Thread.connect_bounded
#print axioms PyCraft.C15Thread.cut_takes_fallback
#print axioms PyCraft.C15Thread.status_cut_takes_fallback
#print axioms PyCraft.C15Thread.login_cut_reports
#print axioms PyCraft.C15Thread.live_reactor_handlers
#print axioms PyCraft.C15Thread.live_exception_classes
#print axioms PyCraft.C15Thread.live_installed_reactor
#print axioms PyCraft.C15Thread.moved_fallback_refuted
#print axioms PyCraft.C15Thread.late_switch_refuted
