import PyCraft.Props.C15
#print axioms PyCraft.C15.prefix_delivers_complete_only
#print axioms PyCraft.C15.prefix_delivers_complete_only_encrypted
#print axioms PyCraft.C15.reads_after_eof_le_two
#print axioms PyCraft.C15.reads_after_eof_le_one_partial
#print axioms PyCraft.C15.read_packet_on_exhausted
#print axioms PyCraft.C15.read_packet_consumes
#print axioms PyCraft.C15.readAll_total
