import PyCraft.Props.C08
#print axioms PyCraft.C08.tables_are_projections
#print axioms PyCraft.C08.known_protocols_dedup
#print axioms PyCraft.C08.known_versions_projection
#print axioms PyCraft.C08.indices_spec
#print axioms PyCraft.C08.order_strict_total
#print axioms PyCraft.C08.predicates_consistent
#print axioms PyCraft.C08.in_range_short_circuit
#print axioms PyCraft.C08.supported_projection
#print axioms PyCraft.C08.release_projection
#print axioms PyCraft.C08.supported_only_projection
#print axioms PyCraft.C08.init_idempotent
#print axioms PyCraft.C08.extend_then_init
#print axioms PyCraft.C08.extend_monotone
#print axioms PyCraft.C08.model_eq_live
#print axioms PyCraft.C08.ordinary_numbers_monotone
#print axioms PyCraft.C08.pre_numbers_monotone
#print axioms PyCraft.C08.supported_sorted_by_index
