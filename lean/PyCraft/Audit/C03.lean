import PyCraft.Props.C03
#print axioms PyCraft.C03.dec_enc
#print axioms PyCraft.C03.dec_enc_varint
#print axioms PyCraft.C03.dec_enc_varlong
#print axioms PyCraft.C03.dec_reads_le
#print axioms PyCraft.C03.dec_error_kinds
#print axioms PyCraft.C03.dec_ok
#print axioms PyCraft.C03.enc_canonical
#print axioms PyCraft.C03.enc_canonical_unique
#print axioms PyCraft.C03.enc_length_eq_size
#print axioms PyCraft.C03.size_too_large
#print axioms PyCraft.C03.encZ_total
