import PyCraft.Props.C04
#print axioms PyCraft.C04.pos_rt
#print axioms PyCraft.C04.pos_layout
#print axioms PyCraft.C04.pos_dec_total
#print axioms PyCraft.C04.pos_dec_short
#print axioms PyCraft.C04.section_rt
#print axioms PyCraft.C04.section_layout
#print axioms PyCraft.C04.section_dec_total
#print axioms PyCraft.C04.record_rt_new
#print axioms PyCraft.C04.record_rt_old
#print axioms PyCraft.C04.record_rt
#print axioms PyCraft.C04.layout_single_switch
#print axioms PyCraft.C04.layout_new_from_477
#print axioms PyCraft.C04.layout_old_upto_404
