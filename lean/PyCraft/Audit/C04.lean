import PyCraft.Props.C04
import PyCraft.Props.C04Codec
import PyCraft.Props.C04Wrap
#print axioms PyCraft.C04.pos_rt
#print axioms PyCraft.C04.pos_layout
#print axioms PyCraft.C04.pos_dec_total
#print axioms PyCraft.C04.pos_dec_short
#print axioms PyCraft.C04.section_rt
#print axioms PyCraft.C04.section_layout
#print axioms PyCraft.C04.section_dec_total
#print axioms PyCraft.C04.record_rt_new
#print axioms PyCraft.C04.record_rt_old
#print axioms PyCraft.C04.record_rt
#print axioms PyCraft.C04.layout_single_switch
#print axioms PyCraft.C04.layout_new_from_477
#print axioms PyCraft.C04.layout_old_upto_404
#print axioms PyCraft.C04Codec.pos_rt_iff_same_layout
#print axioms PyCraft.C04Codec.rec_rt_iff_same_layout
#print axioms PyCraft.C04Codec.pos_unknown_version
#print axioms PyCraft.C04Codec.tables_cover_known_versions
#print axioms PyCraft.C04Codec.encoder_column_is_posLayout
#print axioms PyCraft.C04Codec.pos_flags_agree
#print axioms PyCraft.C04Codec.rec_flags_agree
#print axioms PyCraft.C04Codec.pos_switch_is_443
#print axioms PyCraft.C04Codec.rec_switch_is_741
#print axioms PyCraft.C04Codec.decoder_layout_by_version
#print axioms PyCraft.C04Codec.record_format_by_version
#print axioms PyCraft.C04Codec.pos_rt_live
#print axioms PyCraft.C04Codec.pos_rt_every_known_version
#print axioms PyCraft.C04Codec.rec_rt_every_known_version
#print axioms PyCraft.C04Codec.changed_reader_477_breaks
#print axioms PyCraft.C04Codec.changed_record_reader_748_breaks
#print axioms PyCraft.C04Wrap.pos_wraps
#print axioms PyCraft.C04Wrap.wrap26_id_iff
#print axioms PyCraft.C04Wrap.wrap12_id_iff
#print axioms PyCraft.C04Wrap.pos_rt_iff_in_range
#print axioms PyCraft.C04Wrap.pos_same_bytes_iff
