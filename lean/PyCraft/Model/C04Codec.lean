import PyCraft.Model.Position
import PyCraft.Model.Versions
/-!
# The version switches of the `Position` and `MultiBlockChangePacket.Record` codecs

`Model/Position.lean` models the two codecs with the layout as a `Bool` parameter (`newer`,
`v741`).  In the Python each of the FOUR methods evaluates its OWN version test on the connection
context:

| method                              | test                                   | line                         |
|-------------------------------------|----------------------------------------|------------------------------|
| `Position.read_with_context`        | `context.protocol_later_eq(443)`       | `types/basic.py:322`         |
| `Position.send_with_context`        | `context.protocol_later_eq(443)`       | `types/basic.py:345`         |
| `Record.read_with_context`          | `context.protocol_later_eq(741)`       | `block_change_packet.py:116` |
| `Record.send_with_context`          | `context.protocol_later_eq(741)`       | `block_change_packet.py:132` |

Here every method is modelled with its own test, at the place where the Python evaluates it.
`context.protocol_later_eq(n)` is `laterEq t v n` of `Model/Versions.lean`
(`connection.py:51-54` → `utility.protocol_earlier_eq(n, v)` =
`PROTOCOL_VERSION_INDICES[n] <= PROTOCOL_VERSION_INDICES[v]`, `utility.py:16-20`): it raises
`KeyError` (`.error .other`) when `n` or the context's version `v` is not a known protocol version.
`t` are the version tables of the running module, `v` is `context.protocol_version`.

The number the test compares with is the parameter `thr` of the `…At` functions, so that "the same
method with another literal" (a changed code) is expressible; the functions without `At` fix the
literal to the one in the code (443 / 741).
-/
namespace PyCraft

/-- `Position.read_with_context(file_object, context)` (`types/basic.py:318-338`) with the literal
of l.322 being `thr`:
```
location = UnsignedLong.read(file_object)        # l.319  (struct.error on a short read)
x = int(location >> 38)                          # l.320
if context.protocol_later_eq(thr):               # l.322  (KeyError for an unknown version)
    z = int((location >> 12) & 0x3FFFFFF); y = int(location & 0xFFF)            # l.323-324
else:
    y = int((location >> 26) & 0xFFF); z = int(location & 0x3FFFFFF)            # l.326-327
if x >= pow(2, 25): x -= pow(2, 26)              # l.329-336, same for y (11/12) and z
```
The 8 bytes are consumed BEFORE the version test. -/
def posReadAt (thr : Nat) (t : Tables) (v : Nat) (bs : Bytes) :
    Except Err ((Int × Int × Int) × Bytes) :=
  match readU64 bs with
  | .error e => .error e
  | .ok (location, rest) =>
    let x := location >>> 38
    match laterEq t v thr with
    | .error e => .error e
    | .ok true =>
      let z := (location >>> 12) &&& 0x3FFFFFF
      let y := location &&& 0xFFF
      .ok ((Pos.signFix x (2 ^ 25) (2 ^ 26), Pos.signFix y (2 ^ 11) (2 ^ 12),
            Pos.signFix z (2 ^ 25) (2 ^ 26)), rest)
    | .ok false =>
      let y := (location >>> 26) &&& 0xFFF
      let z := location &&& 0x3FFFFFF
      .ok ((Pos.signFix x (2 ^ 25) (2 ^ 26), Pos.signFix y (2 ^ 11) (2 ^ 12),
            Pos.signFix z (2 ^ 25) (2 ^ 26)), rest)

/-- `Position.send_with_context(position, socket, context)` (`types/basic.py:341-347`) with the
literal of l.345 being `thr`: the conditional expression evaluates its test first (KeyError for an
unknown version, nothing sent), then one of the two packings, then `UnsignedLong.send` — that is
`encPos` of `Model/Position.lean` with the outcome of the test. -/
def posSendAt (thr : Nat) (t : Tables) (v : Nat) (x y z : Int) : Except Err Bytes :=
  match laterEq t v thr with
  | .error e => .error e
  | .ok newer => encPos newer x y z

/-- `Record.read_with_context(file_object, context)` (`block_change_packet.py:114-128`) with the
literal of l.116 being `thr`: the test comes first (nothing is read when it raises), then the
VarLong branch (l.117-121) or the byte/byte/VarInt branch (l.123-127) — `decRecord` with the
outcome of the test. -/
def recReadAt (thr : Nat) (t : Tables) (v : Nat) (bs : Bytes) :
    Except Err ((Int × Int × Int × Int) × Bytes) :=
  match laterEq t v thr with
  | .error e => .error e
  | .ok f => decRecord f bs

/-- `Record.send_with_context(record, socket, context)` (`block_change_packet.py:131-141`) with the
literal of l.132 being `thr`; arguments are `record.x, record.y, record.z, record.block_state_id`. -/
def recSendAt (thr : Nat) (t : Tables) (v : Nat) (x y z bsid : Int) : Except Err Bytes :=
  match laterEq t v thr with
  | .error e => .error e
  | .ok f => encRecord f x y z bsid

/-- `Position.read_with_context` as written (`protocol_later_eq(443)`, `basic.py:322`). -/
def posReadV (t : Tables) (v : Nat) (bs : Bytes) := posReadAt 443 t v bs
/-- `Position.send_with_context` as written (`protocol_later_eq(443)`, `basic.py:345`). -/
def posSendV (t : Tables) (v : Nat) (x y z : Int) := posSendAt 443 t v x y z
/-- `Record.read_with_context` as written (`protocol_later_eq(741)`, `block_change_packet.py:116`). -/
def recReadV (t : Tables) (v : Nat) (bs : Bytes) := recReadAt 741 t v bs
/-- `Record.send_with_context` as written (`protocol_later_eq(741)`, `block_change_packet.py:132`). -/
def recSendV (t : Tables) (v : Nat) (x y z bsid : Int) := recSendAt 741 t v x y z bsid

end PyCraft
