import PyCraft.Model.Packets.Prim
/-!
Model of `clientbound/play/map_packet.py`, `MapPacket.read` / `write_fields`.

Flags (each a `context.protocol_…` test; `protocol_in_range(107, PRE | 6)` is `v107 && !pre6`,
`protocol_earlier(107)` is `!v107`):
`v107` = `protocol_later_eq(107)`, `v452` = `protocol_later_eq(452)`, `pre6` =
`protocol_later_eq(PRE | 6)`, `v373` = `protocol_later_eq(373)`, `v364` = `protocol_later_eq(364)`.

`offset` / `pixels`: `none` is the Python value `None` (what the reader assigns when `width == 0`);
a writer that needs them gets `TypeError` (`None[0]`, `len(None)`).
-/
namespace PyCraft.Pk
open PyCraft

structure MapFlags where
  /-- `protocol_later_eq(107)` -/
  v107 : Bool
  /-- `protocol_later_eq(452)` -/
  v452 : Bool
  /-- `protocol_later_eq(PRE | 6)` -/
  pre6 : Bool
  /-- `protocol_later_eq(373)` -/
  v373 : Bool
  /-- `protocol_later_eq(364)` -/
  v364 : Bool
deriving DecidableEq, Repr

/-- `MapPacket.MapIcon`; `location = (x, z)` -/
structure MapIcon where
  type : Int
  direction : Int
  x : Int
  z : Int
  displayName : Option String
deriving DecidableEq, Repr

structure MapPkt where
  mapId : Int
  scale : Int
  isTrackingPosition : Bool
  isLocked : Bool
  icons : List MapIcon
  width : Int
  height : Int
  offset : Option (Int × Int)
  pixels : Option Bytes
deriving DecidableEq, Repr

/-- `type_and_direction = (icon.type << 4) & 0xF0; type_and_direction |= (icon.direction & 0xF)`:
both operands of `|` are natural numbers below 256. -/
def typeAndDirection (type direction : Int) : Int :=
  (((pyMask (type * 2 ^ 4) 8).toNat ||| (pyMask direction 4).toNat : Nat) : Int)

/-- `if v373: VarInt.send(icon.type) else: UnsignedByte.send(type_and_direction)` -/
def writeIconHead (f : MapFlags) (ic : MapIcon) : Except Err Bytes :=
  if f.v373 then wVarInt ic.type
  else wInt .u8 (typeAndDirection ic.type ic.direction)

/-- `if v373: type = VarInt.read() else: type, direction = divmod(UnsignedByte.read(), 16)`.
In the `v373` branch `direction` is not yet bound (placeholder `0`); it is bound further down, by the
second `if v373`. -/
def readIconHead (f : MapFlags) : Reader (Int × Int) := fun bs =>
  if f.v373 then do
    let (t, bs) ← rVarInt bs
    pure ((t, 0), bs)
  else do
    let (b, bs) ← rInt .u8 bs
    pure ((b / 16, b % 16), bs)

/-- the body of `for icon in self.icons:` in `write_fields` -/
def writeIcon (f : MapFlags) (ic : MapIcon) : Except Err Bytes :=
  writeIconHead f ic +++
  wInt .i8 ic.x +++
  wInt .i8 ic.z +++
  wIf f.v373 (wInt .u8 ic.direction) +++
  wIf f.v364 (wOptString ic.displayName)

/-- the body of `for i in range(icon_count):` in `read` -/
def readIcon (f : MapFlags) (bs : Bytes) : Except Err (MapIcon × Bytes) := do
  let ((type, direction), bs) ← readIconHead f bs
  let (x, bs) ← rInt .i8 bs
  let (z, bs) ← rInt .i8 bs
  let (direction, bs) ← rIf f.v373 (rInt .u8) direction bs
  let (displayName, bs) ← rIf f.v364 rOptString none bs
  pure (⟨type, direction, x, z, displayName⟩, bs)

/-- `MapPacket.write_fields` -/
def writeMap (f : MapFlags) (p : MapPkt) : Except Err Bytes :=
  wVarInt p.mapId +++
  wInt .i8 p.scale +++
  wIf (f.v107 && !f.pre6) (wBool p.isTrackingPosition) +++
  wIf f.v452 (wBool p.isLocked) +++
  wIf f.pre6 (wBool p.isTrackingPosition) +++
  wVarInt p.icons.length +++
  wEach (writeIcon f) p.icons +++
  wInt .u8 p.width +++
  (if p.width ≠ 0 then
    wInt .u8 p.height +++
    (match p.offset with
     | some (x, z) => wInt .u8 x +++ wInt .u8 z
     | none => .error .type) +++
    (match p.pixels with
     | some px => wBytesV px
     | none => .error .type)
   else nilW)

/-- `MapPacket.read`.  After the first `if/elif`, `is_tracking_position` is unassigned exactly when
`v107 && pre6` (placeholder `true`); the third `if` then assigns it. -/
def readMap (f : MapFlags) (bs : Bytes) : Except Err (MapPkt × Bytes) := do
  let (mapId, bs) ← rVarInt bs
  let (scale, bs) ← rInt .i8 bs
  let (tracking, bs) ← rIf (f.v107 && !f.pre6) rBool (if !f.v107 then true else true) bs
  let (isLocked, bs) ← rIf f.v452 rBool false bs
  let (tracking, bs) ← rIf f.pre6 rBool tracking bs
  let (iconCount, bs) ← rVarNat bs
  let (icons, bs) ← rRepeat (readIcon f) iconCount bs
  let (width, bs) ← rInt .u8 bs
  if width ≠ 0 then do
    let (height, bs) ← rInt .u8 bs
    let (x, bs) ← rInt .i8 bs
    let (z, bs) ← rInt .i8 bs
    let (pixels, bs) ← rBytesV bs
    pure (⟨mapId, scale, tracking, isLocked, icons, width, height, some (x, z), some pixels⟩, bs)
  else
    pure (⟨mapId, scale, tracking, isLocked, icons, width, 0, none, none⟩, bs)

/-- wire-representable icon: with `v373` the type is a VarInt and the direction an unsigned byte;
before, ANY integers are accepted by the writer (they are masked to nibbles). -/
def MapIcon.WF (f : MapFlags) (ic : MapIcon) : Prop :=
  (f.v373 = true → VarIntDom ic.type ∧ IntT.u8.inDom ic.direction) ∧
  IntT.i8.inDom ic.x ∧ IntT.i8.inDom ic.z ∧
  (f.v364 = true → OptStrDom ic.displayName)

instance mapDec1 (f : MapFlags) (ic : MapIcon) : Decidable (ic.WF f) := by
  unfold MapIcon.WF; infer_instance

/-- the offsets the WRITER accepts (`UnsignedByte`); the reader uses `Byte` -/
def OffsetDom (o : Int × Int) : Prop := IntT.u8.inDom o.1 ∧ IntT.u8.inDom o.2

instance mapDec2 (o : Int × Int) : Decidable (OffsetDom o) := by unfold OffsetDom; infer_instance

/-- wire-representable map packet (the writer's domain).  Note that `pixels` is sent as a
length-prefixed array independent of `width * height`: no relation between them is required. -/
def MapWF (f : MapFlags) (p : MapPkt) : Prop :=
  VarIntDom p.mapId ∧ IntT.i8.inDom p.scale ∧
  p.icons.length < 2 ^ 31 ∧ (∀ ic ∈ p.icons, ic.WF f) ∧
  IntT.u8.inDom p.width ∧
  (p.width ≠ 0 → IntT.u8.inDom p.height ∧ OptDom OffsetDom p.offset ∧
    OptDom (fun px : Bytes => px.length < 2 ^ 31) p.pixels)

instance mapDec3 (f : MapFlags) (p : MapPkt) : Decidable (MapWF f p) := by
  unfold MapWF; infer_instance

/-- what `Byte.read` makes of a byte written by `UnsignedByte.send` -/
def asSigned8 (v : Int) : Int := if v < 128 then v else v - 256

/-- what the reader reconstructs of an icon: before 373 only the low nibbles of type and direction
survive; before 364 there is no display name -/
def MapIcon.normalise (f : MapFlags) (ic : MapIcon) : MapIcon :=
  { ic with
    type := if f.v373 then ic.type else ic.type % 16
    direction := if f.v373 then ic.direction else ic.direction % 16
    displayName := if f.v364 then ic.displayName else none }

/-- what the reader reconstructs of a packet -/
def MapPkt.normalise (f : MapFlags) (p : MapPkt) : MapPkt :=
  { p with
    isTrackingPosition := if f.v107 || f.pre6 then p.isTrackingPosition else true
    isLocked := if f.v452 then p.isLocked else false
    icons := p.icons.map (MapIcon.normalise f)
    height := if p.width ≠ 0 then p.height else 0
    offset := if p.width ≠ 0 then p.offset.map (fun o => (asSigned8 o.1, asSigned8 o.2)) else none
    pixels := if p.width ≠ 0 then p.pixels else none }

end PyCraft.Pk
