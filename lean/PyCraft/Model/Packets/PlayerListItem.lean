import PyCraft.Model.Packets.Prim
/-!
Model of `clientbound/play/player_list_item_packet.py`: `PlayerListItemPacket.read` /
`write_fields`, `Action.read` / `send`, the `_read` / `_send` of the five `Action` subclasses and
`PlayerProperty.read` / `send`.  No protocol-version test occurs in any of them (no flags).

`action_type` is one of the five `Action` subclasses (`ActionKind`); `actions` is a Python list of
action objects — the writer calls each object's own `send`, whatever its class, so the list is
modelled as a list of a sum type and "every element is an instance of `action_type`" is a
well-formedness condition, not a typing fact.
-/
namespace PyCraft.Pk
open PyCraft

/-- `PlayerListItemPacket.PlayerProperty` -/
structure PlayerProperty where
  name : String
  value : String
  signature : Option String
deriving DecidableEq, Repr

/-- the five subclasses of `PlayerListItemPacket.Action`, by `action_id` -/
inductive ActionKind | addPlayer | updateGameMode | updateLatency | updateDisplayName | removePlayer
deriving DecidableEq, Repr

def ActionKind.actionId : ActionKind → Int
  | .addPlayer => 0 | .updateGameMode => 1 | .updateLatency => 2 | .updateDisplayName => 3
  | .removePlayer => 4

/-- an instance of one of the five `Action` subclasses (every one carries `uuid`) -/
inductive Action
  | addPlayer (uuid : Bytes) (name : String) (properties : List PlayerProperty) (gamemode : Int)
      (ping : Int) (displayName : Option String)
  | updateGameMode (uuid : Bytes) (gamemode : Int)
  | updateLatency (uuid : Bytes) (ping : Int)
  | updateDisplayName (uuid : Bytes) (displayName : Option String)
  | removePlayer (uuid : Bytes)
deriving DecidableEq, Repr

def Action.kind : Action → ActionKind
  | .addPlayer .. => .addPlayer | .updateGameMode .. => .updateGameMode
  | .updateLatency .. => .updateLatency | .updateDisplayName .. => .updateDisplayName
  | .removePlayer .. => .removePlayer

structure PliPkt where
  actionType : ActionKind
  actions : List Action
deriving DecidableEq, Repr

/-- `PlayerProperty.send` -/
def writeProperty (pr : PlayerProperty) : Except Err Bytes :=
  wString pr.name +++ wString pr.value +++ wOptString pr.signature

/-- `PlayerProperty.read` -/
def readProperty (bs : Bytes) : Except Err (PlayerProperty × Bytes) := do
  let (name, bs) ← rString bs
  let (value, bs) ← rString bs
  let (signature, bs) ← rOptString bs
  pure (⟨name, value, signature⟩, bs)

/-- `Action.send`: `UUID.send(self.uuid)` then the subclass's `_send` -/
def writeAction : Action → Except Err Bytes
  | .addPlayer uuid name properties gamemode ping displayName =>
    wUuid uuid +++
    wString name +++
    wVarInt properties.length +++
    wEach writeProperty properties +++
    wVarInt gamemode +++
    wVarInt ping +++
    wOptString displayName
  | .updateGameMode uuid gamemode => wUuid uuid +++ wVarInt gamemode
  | .updateLatency uuid ping => wUuid uuid +++ wVarInt ping
  | .updateDisplayName uuid displayName => wUuid uuid +++ wOptString displayName
  | .removePlayer uuid => wUuid uuid +++ nilW

/-- `action = self.action_type(); action.read(file_object)`: `UUID.read` then the `_read` of the
class selected by the packet's `action_type` -/
def readAction (k : ActionKind) (bs : Bytes) : Except Err (Action × Bytes) := do
  let (uuid, bs) ← rUuid bs
  match k with
  | .addPlayer => do
    let (name, bs) ← rString bs
    let (propCount, bs) ← rVarNat bs
    let (properties, bs) ← rRepeat readProperty propCount bs
    let (gamemode, bs) ← rVarInt bs
    let (ping, bs) ← rVarInt bs
    let (displayName, bs) ← rOptString bs
    pure (.addPlayer uuid name properties gamemode ping displayName, bs)
  | .updateGameMode => do
    let (gamemode, bs) ← rVarInt bs
    pure (.updateGameMode uuid gamemode, bs)
  | .updateLatency => do
    let (ping, bs) ← rVarInt bs
    pure (.updateLatency uuid ping, bs)
  | .updateDisplayName => do
    let (displayName, bs) ← rOptString bs
    pure (.updateDisplayName uuid displayName, bs)
  | .removePlayer => pure (.removePlayer uuid, bs)

/-- `Action.type_from_id`: `ValueError` on an unknown id -/
def actionKindOfId : Nat → Except Err ActionKind
  | 0 => .ok .addPlayer | 1 => .ok .updateGameMode | 2 => .ok .updateLatency
  | 3 => .ok .updateDisplayName | 4 => .ok .removePlayer | _ => .error .value

/-- `PlayerListItemPacket.write_fields` -/
def writePli (p : PliPkt) : Except Err Bytes :=
  wVarInt p.actionType.actionId +++
  wVarInt p.actions.length +++
  wEach writeAction p.actions

/-- `PlayerListItemPacket.read` -/
def readPli (bs : Bytes) : Except Err (PliPkt × Bytes) := do
  let (actionId, bs) ← rVarNat bs
  let actionType ← actionKindOfId actionId
  let (actionCount, bs) ← rVarNat bs
  let (actions, bs) ← rRepeat (readAction actionType) actionCount bs
  pure (⟨actionType, actions⟩, bs)

def PlayerProperty.WF (pr : PlayerProperty) : Prop :=
  StrDom pr.name ∧ StrDom pr.value ∧ OptStrDom pr.signature

instance pliDec1 (pr : PlayerProperty) : Decidable pr.WF := by unfold PlayerProperty.WF; infer_instance

/-- the 16 raw bytes of a UUID -/
def UuidDom (u : Bytes) : Prop := u.length = 16

instance pliDec2 (u : Bytes) : Decidable (UuidDom u) := by unfold UuidDom; infer_instance

def Action.WF : Action → Prop
  | .addPlayer uuid name properties gamemode ping displayName =>
    UuidDom uuid ∧ StrDom name ∧ properties.length < 2 ^ 31 ∧ (∀ pr ∈ properties, pr.WF) ∧
    VarIntDom gamemode ∧ VarIntDom ping ∧ OptStrDom displayName
  | .updateGameMode uuid gamemode => UuidDom uuid ∧ VarIntDom gamemode
  | .updateLatency uuid ping => UuidDom uuid ∧ VarIntDom ping
  | .updateDisplayName uuid displayName => UuidDom uuid ∧ OptStrDom displayName
  | .removePlayer uuid => UuidDom uuid

instance pliDec3 (a : Action) : Decidable a.WF := by cases a <;> unfold Action.WF <;> infer_instance

/-- wire-representable: every action is an instance of `action_type` and is itself representable -/
def PliWF (p : PliPkt) : Prop :=
  p.actions.length < 2 ^ 31 ∧ ∀ a ∈ p.actions, a.kind = p.actionType ∧ a.WF

instance pliDec4 (p : PliPkt) : Decidable (PliWF p) := by unfold PliWF; infer_instance

end PyCraft.Pk
