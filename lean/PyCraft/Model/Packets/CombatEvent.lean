import PyCraft.Model.Packets.Prim
/-!
Model of `clientbound/play/combat_event_packet.py`: `CombatEventPacket.read` / `write_fields` and the
`read` / `write` of its three event records.  (`EnterCombatEventPacket`, `EndCombatEventPacket`,
`DeathCombatEventPacket` restore `Packet.read` / `Packet.write_fields` and are driven by their
`definition` lists: they are covered by the generic layout model, not here.)

Flag `pre15` = `self.context and self.context.protocol_later_eq(PRE | 15)`: both methods then call
`deprecated()`, which raises `NotImplementedError` (`.other`).
-/
namespace PyCraft.Pk
open PyCraft

structure CombatFlags where
  /-- the context is set and `protocol_later_eq(PRE | 15)` -/
  pre15 : Bool
deriving DecidableEq, Repr

/-- the `event` field: an instance of one of the three `EventType` subclasses -/
inductive CombatEvent
  | enter
  | endCombat (duration : Int) (entityId : Int)
  | dead (playerId : Int) (entityId : Int) (message : String)
deriving DecidableEq, Repr

/-- the class attribute `id` -/
def CombatEvent.id : CombatEvent → Int
  | .enter => 0
  | .endCombat .. => 1
  | .dead .. => 2

/-- `self.event.write(packet_buffer)` -/
def CombatEvent.write : CombatEvent → Except Err Bytes
  | .enter => nilW
  | .endCombat duration entityId => wVarInt duration +++ wInt .i32 entityId
  | .dead playerId entityId message => wVarInt playerId +++ wInt .i32 entityId +++ wString message

/-- `CombatEventPacket.write_fields` -/
def writeCombat (f : CombatFlags) (ev : CombatEvent) : Except Err Bytes :=
  if f.pre15 then .error .other else
  wVarInt ev.id +++ ev.write

/-- `CombatEventPacket.read`: `type_from_id` raises `ValueError` on an unknown id -/
def readCombat (f : CombatFlags) (bs : Bytes) : Except Err (CombatEvent × Bytes) :=
  if f.pre15 then .error .other else do
  let (eventId, bs) ← rVarNat bs
  match eventId with
  | 0 => pure (.enter, bs)
  | 1 => do
    let (duration, bs) ← rVarInt bs
    let (entityId, bs) ← rInt .i32 bs
    pure (.endCombat duration entityId, bs)
  | 2 => do
    let (playerId, bs) ← rVarInt bs
    let (entityId, bs) ← rInt .i32 bs
    let (message, bs) ← rString bs
    pure (.dead playerId entityId message, bs)
  | _ => .error .value

/-- wire-representable event -/
def CombatEvent.WF : CombatEvent → Prop
  | .enter => True
  | .endCombat duration entityId =>
    VarIntDom duration ∧ IntT.i32.inDom entityId
  | .dead playerId entityId message =>
    VarIntDom playerId ∧ IntT.i32.inDom entityId ∧ StrDom message

instance combatDec1 (ev : CombatEvent) : Decidable ev.WF := by
  cases ev <;> unfold CombatEvent.WF <;> infer_instance

/-- the packet exists in this version and the event is wire-representable -/
def CombatWF (f : CombatFlags) (ev : CombatEvent) : Prop := f.pre15 = false ∧ ev.WF

instance combatDec2 (f : CombatFlags) (ev : CombatEvent) : Decidable (CombatWF f ev) := by
  unfold CombatWF; infer_instance

end PyCraft.Pk
