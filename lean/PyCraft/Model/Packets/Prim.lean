import PyCraft.Model.Wire
/-!
Typed front-ends of the primitive wire codecs of `Model/Wire.lean`, used by the models of the packet
classes that override `read` / `write_fields` (`Model/Packets/*.lean`).

Each `wX` is `X.send(value, packet_buffer)` (the bytes appended to the buffer, or the exception);
each `rX` is `X.read(file_object)` on a buffer holding `bs` (the value and the unread rest, or the
exception).  They are definitionally the corresponding cases of `encode` / `decode`
(`Lemmas/Packets.lean`, `wX_eq_encode` / `rX_eq_decode`).

`a +++ b` is "`a` is sent, then `b` is sent, into the same `PacketBuffer`": the first exception
aborts `write_fields`.
-/
namespace PyCraft.Pk
open PyCraft

/-- a reader: value and unread rest, or the exception raised -/
abbrev Reader (α : Type) := Bytes → Except Err (α × Bytes)

/-- two consecutive groups of `send`s into the same buffer -/
def seqW (a b : Except Err Bytes) : Except Err Bytes := do
  let x ← a
  let y ← b
  pure (x ++ y)

@[inherit_doc] infixr:60 " +++ " => seqW

/-- nothing is sent -/
def nilW : Except Err Bytes := .ok []

/-- `Boolean.send` (`struct.pack('?', v)`) -/
def wBool (b : Bool) : Except Err Bytes := .ok [if b then 1 else 0]

/-- `Boolean.read` (`struct.unpack('?', read(1))`): any non-zero byte is `True` -/
def rBool : Reader Bool := fun bs => do
  let (h, r) ← takeN 1 bs
  pure (decide (h ≠ [0]), r)

/-- `UnsignedByte.send`, `Byte.send`, `Short.send`, `Integer.send`, `Double.send` (bit pattern) … -/
def wInt (t : IntT) (v : Int) : Except Err Bytes := t.pack v

def rInt (t : IntT) : Reader Int := t.unpack

/-- `VarInt.send` -/
def wVarInt (v : Int) : Except Err Bytes := encVarIntZ v

/-- `VarInt.read`, as the natural number it is -/
def rVarNat : Reader Nat := decVarInt 5

/-- `VarInt.read` -/
def rVarInt : Reader Int := fun bs => do
  let (n, r) ← rVarNat bs
  pure ((n : Int), r)

/-- `String.send` -/
def wString (s : String) : Except Err Bytes := .ok (encVarInt (utf8 s).length ++ utf8 s)

/-- `String.read` -/
def rString : Reader String := fun bs => do
  let (n, r) ← rVarNat bs
  if r.length < n then .error .eof else
  match utf8Decode (r.take n) with
  | some s => pure (s, r.drop n)
  | none => .error .decode

/-- `UUID.send`: the 16 raw bytes (`uuid.UUID(value).bytes`; anything else is `ValueError`) -/
def wUuid (b : Bytes) : Except Err Bytes := if b.length = 16 then .ok b else .error .value

/-- `UUID.read`: `uuid.UUID(bytes=read(16))` raises `ValueError` on fewer than 16 bytes -/
def rUuid : Reader Bytes := fun bs =>
  if 16 ≤ bs.length then .ok (bs.take 16, bs.drop 16) else .error .value

/-- `VarIntPrefixedByteArray.send` -/
def wBytesV (b : Bytes) : Except Err Bytes := .ok (encVarInt b.length ++ b)

/-- `VarIntPrefixedByteArray.read` -/
def rBytesV : Reader Bytes := fun bs => do
  let (n, r) ← rVarNat bs
  takeN n r

/-- `TrailingByteArray.send` -/
def wTrailing (b : Bytes) : Except Err Bytes := .ok b

/-- `TrailingByteArray.read`: everything up to the end of the packet -/
def rTrailing : Reader Bytes := fun bs => .ok (bs, [])

/-- `for x in xs: send(x)` -/
def wEach {α : Type} (w : α → Except Err Bytes) : List α → Except Err Bytes
  | [] => nilW
  | x :: xs => w x +++ wEach w xs

/-- `for i in range(n): xs.append(read())` -/
def rRepeat {α : Type} (r : Reader α) : Nat → Reader (List α)
  | 0, bs => .ok ([], bs)
  | n + 1, bs => do
    let (x, bs) ← r bs
    let (xs, bs) ← rRepeat r n bs
    pure (x :: xs, bs)

/-- The idiom `Boolean.send(s is not None); if s is not None: String.send(s)` (also written
`if s is not None: Boolean.send(True); String.send(s) else: Boolean.send(False)`). -/
def wOptString : Option String → Except Err Bytes
  | some s => wBool true +++ wString s
  | none => wBool false

/-- The idiom `has = Boolean.read(); s = String.read() if has else None`. -/
def rOptString : Reader (Option String) := fun bs => do
  let (has, bs) ← rBool bs
  if has then do
    let (s, bs) ← rString bs
    pure (some s, bs)
  else pure (none, bs)

/-- an attribute the writer needs: `none` models "attribute never assigned" (`AttributeError`) -/
def attr {α : Type} (o : Option α) (w : α → Except Err Bytes) : Except Err Bytes :=
  match o with
  | some v => w v
  | none => .error .other

/-- `if c: send …` -/
def wIf (c : Bool) (w : Except Err Bytes) : Except Err Bytes := if c then w else nilW

/-- `if c: x = read …` with `x` holding `d` otherwise (`d` is the value assigned on the other
branch, or `none` for "stays unassigned") -/
def rIf {α : Type} (c : Bool) (r : Reader α) (d : α) : Reader α := fun bs =>
  if c then r bs else pure (d, bs)

/-- the value read, recorded as an assigned attribute -/
def rSome {α : Type} (r : Reader α) : Reader (Option α) := fun bs => do
  let (v, bs) ← r bs
  pure (some v, bs)

/-- Python `v & (2**k - 1)` on an arbitrary-precision `int` (infinite two's complement): `v mod 2^k`,
also for negative `v`. -/
def pyMask (v : Int) (k : Nat) : Int := v % 2 ^ k

/-- a VarInt value -/
def VarIntDom (v : Int) : Prop := 0 ≤ v ∧ v < 2 ^ 32

instance primDec1 (v : Int) : Decidable (VarIntDom v) := by unfold VarIntDom; infer_instance

/-- `o` is assigned and its value satisfies `P` -/
def OptDom {α : Type} (P : α → Prop) : Option α → Prop
  | some v => P v
  | none => False

instance primDec2 {α : Type} (P : α → Prop) [DecidablePred P] (o : Option α) : Decidable (OptDom P o) := by
  cases o <;> unfold OptDom <;> infer_instance

/-- a string whose UTF-8 length fits the VarInt length prefix -/
def StrDom (s : String) : Prop := (utf8 s).length < 2 ^ 31

instance primDec3 (s : String) : Decidable (StrDom s) := by unfold StrDom; infer_instance

/-- an optional string (`None` allowed) -/
def OptStrDom : Option String → Prop
  | some s => StrDom s
  | none => True

instance primDec4 (o : Option String) : Decidable (OptStrDom o) := by
  cases o <;> unfold OptStrDom <;> infer_instance

end PyCraft.Pk
