import PyCraft.Model.Packets.Prim
/-!
Model of `clientbound/play/spawn_object_packet.py`, `SpawnObjectPacket.read` / `write_fields`.

Flags: `v49` = `protocol_later_eq(49)` (object UUID present; velocity always present),
`v458` = `protocol_later_eq(458)` (type id is a VarInt instead of a Byte),
`v100` = `protocol_later_eq(100)` (x, y, z are Doubles instead of Integers).

`x`/`y`/`z` are the double bit pattern (`v100`) or the 32-bit integer; `pitch`/`yaw` are the `Angle`
wire step `0..255` (the float scaling of `Angle` is C02's business).  `object_uuid` and the three
velocities are `Option`s: `none` = attribute never assigned (the reader leaves them unassigned when
they are not on the wire); a writer that needs one raises `AttributeError` (`.other`).
-/
namespace PyCraft.Pk
open PyCraft

structure SpawnFlags where
  /-- `protocol_later_eq(49)` -/
  v49 : Bool
  /-- `protocol_later_eq(458)` -/
  v458 : Bool
  /-- `protocol_later_eq(100)` -/
  v100 : Bool
deriving DecidableEq, Repr

structure SpawnPkt where
  entityId : Int
  objectUuid : Option Bytes
  typeId : Int
  x : Int
  y : Int
  z : Int
  pitch : Int
  yaw : Int
  data : Int
  velocityX : Option Int
  velocityY : Option Int
  velocityZ : Option Int
deriving DecidableEq, Repr

/-- `xyz_type = Double if protocol_later_eq(100) else Integer` -/
def SpawnFlags.xyzT (f : SpawnFlags) : IntT := if f.v100 then .f64 else .i32

/-- `SpawnObjectPacket.write_fields` -/
def writeSpawn (f : SpawnFlags) (p : SpawnPkt) : Except Err Bytes :=
  wVarInt p.entityId +++
  wIf f.v49 (attr p.objectUuid wUuid) +++
  (if f.v458 then wVarInt p.typeId else wInt .i8 p.typeId) +++
  wInt f.xyzT p.x +++
  wInt f.xyzT p.y +++
  wInt f.xyzT p.z +++
  wInt .u8 p.pitch +++
  wInt .u8 p.yaw +++
  wInt .i32 p.data +++
  wIf (f.v49 || decide (p.data > 0))
    (attr p.velocityX (wInt .i16) +++
     attr p.velocityY (wInt .i16) +++
     attr p.velocityZ (wInt .i16))

/-- `SpawnObjectPacket.read` -/
def readSpawn (f : SpawnFlags) (bs : Bytes) : Except Err (SpawnPkt × Bytes) := do
  let (entityId, bs) ← rVarInt bs
  let (objectUuid, bs) ← rIf f.v49 (rSome rUuid) none bs
  let (typeId, bs) ← (if f.v458 then rVarInt else rInt .i8) bs
  let (x, bs) ← rInt f.xyzT bs
  let (y, bs) ← rInt f.xyzT bs
  let (z, bs) ← rInt f.xyzT bs
  let (pitch, bs) ← rInt .u8 bs
  let (yaw, bs) ← rInt .u8 bs
  let (data, bs) ← rInt .i32 bs
  if f.v49 || decide (data > 0) then do
    let (vx, bs) ← rInt .i16 bs
    let (vy, bs) ← rInt .i16 bs
    let (vz, bs) ← rInt .i16 bs
    pure (⟨entityId, objectUuid, typeId, x, y, z, pitch, yaw, data, some vx, some vy, some vz⟩, bs)
  else
    pure (⟨entityId, objectUuid, typeId, x, y, z, pitch, yaw, data, none, none, none⟩, bs)

/-- is the velocity on the wire? -/
def SpawnPkt.hasVelocity (f : SpawnFlags) (p : SpawnPkt) : Bool := f.v49 || decide (p.data > 0)

/-- wire-representable -/
def SpawnWF (f : SpawnFlags) (p : SpawnPkt) : Prop :=
  VarIntDom p.entityId ∧
  (f.v49 = true → OptDom (fun u : Bytes => u.length = 16) p.objectUuid) ∧
  (if f.v458 then VarIntDom p.typeId else IntT.i8.inDom p.typeId) ∧
  f.xyzT.inDom p.x ∧ f.xyzT.inDom p.y ∧ f.xyzT.inDom p.z ∧
  IntT.u8.inDom p.pitch ∧ IntT.u8.inDom p.yaw ∧ IntT.i32.inDom p.data ∧
  (p.hasVelocity f = true →
    OptDom IntT.i16.inDom p.velocityX ∧ OptDom IntT.i16.inDom p.velocityY ∧
    OptDom IntT.i16.inDom p.velocityZ)

instance spawnDec1 (f : SpawnFlags) (p : SpawnPkt) : Decidable (SpawnWF f p) := by
  unfold SpawnWF; infer_instance

/-- what the reader reconstructs: attributes not on the wire stay unassigned -/
def SpawnPkt.normalise (f : SpawnFlags) (p : SpawnPkt) : SpawnPkt :=
  { p with
    objectUuid := if f.v49 then p.objectUuid else none
    velocityX := if p.hasVelocity f then p.velocityX else none
    velocityY := if p.hasVelocity f then p.velocityY else none
    velocityZ := if p.hasVelocity f then p.velocityZ else none }

end PyCraft.Pk
