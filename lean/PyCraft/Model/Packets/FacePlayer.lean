import PyCraft.Model.Packets.Prim
/-!
Model of `clientbound/play/face_player_packet.py`, `FacePlayerPacket.read` / `write_fields`.

Flag `v353` = `context.protocol_later_eq(353)`.

Every attribute is an `Option`: `none` is "attribute never assigned" (the reader leaves `origin`,
`x`/`y`/`z` or `entity_origin` unassigned on some paths), except for `entity_id` where `none` is the
Python value `None`.  A writer that needs an unassigned attribute raises `AttributeError` (`.other`).
`x`, `y`, `z` are IEEE double bit patterns.
-/
namespace PyCraft.Pk
open PyCraft

structure FaceFlags where
  /-- `protocol_later_eq(353)` -/
  v353 : Bool
deriving DecidableEq, Repr

structure FacePkt where
  origin : Option Int
  x : Option Int
  y : Option Int
  z : Option Int
  entityId : Option Int
  entityOrigin : Option Int
deriving DecidableEq, Repr

/-- `FacePlayerPacket.write_fields` -/
def writeFace (f : FaceFlags) (p : FacePkt) : Except Err Bytes :=
  if f.v353 then
    attr p.origin wVarInt +++
    attr p.x (wInt .f64) +++
    attr p.y (wInt .f64) +++
    attr p.z (wInt .f64) +++
    (match p.entityId with
     | some e => wBool true +++ wVarInt e +++ attr p.entityOrigin wVarInt
     | none => wBool false)
  else
    match p.entityId with
    | some e => wBool true +++ wVarInt e
    | none =>
      wBool false +++
      attr p.x (wInt .f64) +++
      attr p.y (wInt .f64) +++
      attr p.z (wInt .f64)

/-- `FacePlayerPacket.read` -/
def readFace (f : FaceFlags) (bs : Bytes) : Except Err (FacePkt × Bytes) :=
  if f.v353 then do
    let (origin, bs) ← rVarInt bs
    let (x, bs) ← rInt .f64 bs
    let (y, bs) ← rInt .f64 bs
    let (z, bs) ← rInt .f64 bs
    let (isEntity, bs) ← rBool bs
    if isEntity then do
      let (e, bs) ← rVarInt bs
      let (eo, bs) ← rVarInt bs
      pure (⟨some origin, some x, some y, some z, some e, some eo⟩, bs)
    else
      pure (⟨some origin, some x, some y, some z, none, none⟩, bs)
  else do
    let (isEntity, bs) ← rBool bs
    if isEntity then do
      let (e, bs) ← rVarInt bs
      pure (⟨none, none, none, none, some e, none⟩, bs)
    else do
      let (x, bs) ← rInt .f64 bs
      let (y, bs) ← rInt .f64 bs
      let (z, bs) ← rInt .f64 bs
      pure (⟨none, some x, some y, some z, none, none⟩, bs)

/-- wire-representable: every attribute that the writer sends is assigned and in its type's range -/
def FaceWF (f : FaceFlags) (p : FacePkt) : Prop :=
  if f.v353 then
    OptDom VarIntDom p.origin ∧ OptDom IntT.f64.inDom p.x ∧ OptDom IntT.f64.inDom p.y ∧
    OptDom IntT.f64.inDom p.z ∧
    (match p.entityId with
     | some e => VarIntDom e ∧ OptDom VarIntDom p.entityOrigin
     | none => True)
  else
    match p.entityId with
    | some e => VarIntDom e
    | none => OptDom IntT.f64.inDom p.x ∧ OptDom IntT.f64.inDom p.y ∧ OptDom IntT.f64.inDom p.z

instance faceDec1 (f : FaceFlags) (p : FacePkt) : Decidable (FaceWF f p) := by
  unfold FaceWF; split <;> (try split) <;> infer_instance

/-- what the reader reconstructs: attributes that are not on the wire stay unassigned -/
def FacePkt.normalise (f : FaceFlags) (p : FacePkt) : FacePkt :=
  if f.v353 then
    match p.entityId with
    | some _ => p
    | none => { p with entityOrigin := none }
  else
    match p.entityId with
    | some e => ⟨none, none, none, none, some e, none⟩
    | none => { p with origin := none, entityOrigin := none }

end PyCraft.Pk
