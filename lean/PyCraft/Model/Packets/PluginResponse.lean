import PyCraft.Model.Packets.Prim
/-!
Model of `serverbound/login/__init__.py`, `PluginResponsePacket.read` / `write_fields`.
No protocol-version test occurs in either method (no flags).

Fields: `message_id` (int), `successful` (`none` = the attribute was never assigned, so that
`getattr(self, 'successful', …)` falls back to `data is not None`), `data` (`none` = `None`, or
never assigned — `getattr(self, 'data', None)` treats both alike).
-/
namespace PyCraft.Pk
open PyCraft

structure PluginRespPkt where
  messageId : Int
  successful : Option Bool
  data : Option Bytes
deriving DecidableEq, Repr

/-- `successful = getattr(self, 'data', None) is not None;
     successful = getattr(self, 'successful', successful)` -/
def PluginRespPkt.effSuccessful (p : PluginRespPkt) : Bool :=
  match p.successful with
  | some b => b
  | none => p.data.isSome

/-- `PluginResponsePacket.write_fields`.  `TrailingByteArray.send(None, buf)` is
`BytesIO.write(None)`: `TypeError`. -/
def writePluginResp (p : PluginRespPkt) : Except Err Bytes :=
  let successful := p.effSuccessful
  wVarInt p.messageId +++
  wBool successful +++
  (if successful then
    (match p.data with
     | some d => wTrailing d
     | none => .error .type)
   else nilW)

/-- `PluginResponsePacket.read` -/
def readPluginResp (bs : Bytes) : Except Err (PluginRespPkt × Bytes) := do
  let (messageId, bs) ← rVarInt bs
  let (successful, bs) ← rBool bs
  if successful then do
    let (d, bs) ← rTrailing bs
    pure (⟨messageId, some true, some d⟩, bs)
  else
    pure (⟨messageId, some false, none⟩, bs)

/-- wire-representable: the id is a VarInt value, and data is present when it has to be sent -/
def PluginRespWF (p : PluginRespPkt) : Prop :=
  VarIntDom p.messageId ∧ (p.effSuccessful = true → p.data.isSome = true)

instance plugrespDec1 (p : PluginRespPkt) : Decidable (PluginRespWF p) := by unfold PluginRespWF; infer_instance

/-- what the reader reconstructs: `successful` is always assigned, and `data` is `None` when the
packet says unsuccessful (whatever the sender's `data` attribute held). -/
def PluginRespPkt.normalise (p : PluginRespPkt) : PluginRespPkt :=
  ⟨p.messageId, some p.effSuccessful, if p.effSuccessful then p.data else none⟩

end PyCraft.Pk
